//! C19 — unit conversions and clock-time arithmetic: drive the real functions, evaluate
//! the property predicates on what they return, emit cases for the model.
use crate::backend::simple_manager;
use crate::util::*;
use kira::clock::{ClockSpeed, ClockTime};
use kira::info::MockInfoBuilder;
use kira::{Decibels, Easing, Frame, Mapping, Panning, PlaybackRate, Semitones, Tweenable};

fn special64() -> Vec<f64> {
	vec![
		0.0, -0.0, 1.0, -1.0, 0.5, -0.5, 0.25, 0.75, 2.0, 3.0, 60.0, 1.0 - f64::EPSILON / 2.0, 1.0 + f64::EPSILON,
		f64::EPSILON, f64::MIN_POSITIVE, 5e-324, 1e-300, 1e300, f64::MAX, -f64::MAX, 9007199254740992.0, 9007199254740991.0,
		4503599627370496.5, 1e19, 1.8446744073709552e19, 0.1, 0.2, 0.3, 1.0 / 3.0, 12.0, 120.0, 0.9999999999999999,
	]
}
pub fn gen_f64(r: &mut Rng) -> f64 {
	match r.below(10) {
		0 | 1 => *r.pick(&special64()),
		2 => f64::from_bits(r.next()),
		3 => r.dyadic_unit(10) * (1u64 << r.below(12)) as f64,
		4 => -(r.dyadic_unit(10) * (1u64 << r.below(12)) as f64),
		5 => r.unit_f64(),
		6 => r.unit_f64() * 1000.0,
		7 => -r.unit_f64() * 1000.0,
		8 => (r.below(1 << 20) as f64) + r.unit_f64(),
		_ => {
			let e = r.range(-60, 70);
			(r.unit_f64() + 0.5) * (2.0f64).powi(e as i32) * if r.chance(1, 4) { -1.0 } else { 1.0 }
		}
	}
}
fn gen_finite(r: &mut Rng) -> f64 {
	loop {
		let x = gen_f64(r);
		if x.is_finite() {
			return x;
		}
	}
}
fn gen_fraction(r: &mut Rng) -> f64 {
	match r.below(8) {
		0 => 0.0,
		1 => 1.0 - f64::EPSILON / 2.0,
		2 => f64::EPSILON,
		3 => 5e-324,
		4 => r.dyadic_unit(8),
		5 => 0.5,
		_ => r.unit_f64(),
	}
}
fn gen_ticks(r: &mut Rng) -> u64 {
	match r.below(8) {
		0 => 0,
		1 => 1,
		2 => (1u64 << 53) - r.below(3),
		3 => r.below(1 << 53),
		4 => u64::MAX - r.below(3),
		_ => r.below(1000),
	}
}
fn special32() -> Vec<f32> {
	vec![
		0.0, -0.0, 1.0, -1.0, 0.5, -0.5, -60.0, -59.999996, -60.000004, -100.0, 3.0, 6.0, -6.0, 20.0, -20.0, 40.0, 770.0, 771.0,
		f32::MAX, -f32::MAX, f32::MIN_POSITIVE, 1e-45, -1e-45, f32::INFINITY, f32::NEG_INFINITY, f32::NAN, 0.99999994, 1.0000001,
		-0.99999994, 2.0, -2.0, 0.70710677,
	]
}
fn gen_f32(r: &mut Rng) -> f32 {
	match r.below(8) {
		0 | 1 => *r.pick(&special32()),
		2 => f32::from_bits(r.next() as u32),
		3 => (r.unit_f64() * 2.0 - 1.0) as f32,
		4 => (r.unit_f64() * 120.0 - 80.0) as f32,
		5 => (r.dyadic_unit(8) * 2.0 - 1.0) as f32,
		_ => ((r.unit_f64() - 0.5) * 200.0) as f32,
	}
}

fn ulp(x: f64) -> f64 {
	let x = x.abs().max(f64::MIN_POSITIVE);
	let b = x.to_bits();
	f64::from_bits(b + 1) - x
}

fn ct_obs(c: ClockTime) -> Vec<i128> {
	vec![c.ticks as i128, obs64(c.fraction)]
}

fn easing_code(e: Easing) -> (i128, i128) {
	match e {
		Easing::Linear => (0, 0),
		Easing::InPowi(p) => (1, p as i128),
		Easing::OutPowi(p) => (2, p as i128),
		Easing::InOutPowi(p) => (3, p as i128),
		Easing::InPowf(p) => (4, obs64(p)),
		Easing::OutPowf(p) => (5, obs64(p)),
		Easing::InOutPowf(p) => (6, obs64(p)),
	}
}
/// the libm calls the model will make for `ease(e, x)`: (x, p, x.powf(p)) triples
fn easing_oracle(e: Easing, x: f64) -> Vec<(f64, f64, f64)> {
	match e {
		Easing::InPowf(p) => vec![(x, p, x.powf(p))],
		Easing::OutPowf(p) => vec![(1.0 - x, p, (1.0 - x).powf(p))],
		Easing::InOutPowf(p) => {
			let x2 = x * 2.0;
			if x2 < 1.0 {
				vec![(x2, p, x2.powf(p))]
			} else {
				let y = 2.0 - x2;
				vec![(y, p, y.powf(p))]
			}
		}
		_ => vec![],
	}
}
fn tab64(t: &[(f64, f64, f64)]) -> String {
	format!("[{}]", t.iter().map(|(a, b, c)| format!("({}, {}, {})", f64_bits_z(*a), f64_bits_z(*b), f64_bits_z(*c))).collect::<Vec<_>>().join("; "))
}
fn gen_easing(r: &mut Rng, boundary: bool) -> Easing {
	let pi = if boundary { r.range(-3, 8) as i32 } else { r.range(1, 8) as i32 };
	let pf = if boundary {
		*r.pick(&[0.0, -1.0, 0.5, 1.0, 2.0, 1e-3, 50.0])
	} else {
		*r.pick(&[0.25, 0.5, 1.0, 1.5, 2.0, 3.0, 7.5, 0.1])
	};
	match r.below(7) {
		0 => Easing::Linear,
		1 => Easing::InPowi(pi),
		2 => Easing::OutPowi(pi),
		3 => Easing::InOutPowi(pi),
		4 => Easing::InPowf(pf),
		5 => Easing::OutPowf(pf),
		_ => Easing::InOutPowf(pf),
	}
}
fn apply_easing(e: Easing, x: f64) -> f64 {
	// Easing::apply is crate-private; Mapping::map over the identity ranges exposes it exactly:
	// amount = (x - 0)/(1 - 0) = x, clamp (x in [0,1]), ease, 0 + (1 - 0) * e = e.
	Mapping { input_range: (0.0, 1.0), output_range: (0.0f64, 1.0f64), easing: e }.map(x)
}

/// exact order of ticks + fraction for finite fractions (also outside [0, 1)): compare (ticks + floor, fraction - floor)
fn value_cmp(a: ClockTime, b: ClockTime) -> Option<std::cmp::Ordering> {
	if !a.fraction.is_finite() || !b.fraction.is_finite() {
		return None;
	}
	let n = |c: ClockTime| {
		let fl = c.fraction.floor();
		(c.ticks as i128 + fl as i128, c.fraction - fl)
	};
	n(a).partial_cmp(&n(b))
}
fn speed_code(sp: ClockSpeed) -> (i128, f64) {
	match sp {
		ClockSpeed::SecondsPerTick(v) => (0, v),
		ClockSpeed::TicksPerSecond(v) => (1, v),
		ClockSpeed::TicksPerMinute(v) => (2, v),
	}
}

/// Clock times obtained from a `ClockHandle`: a real manager (backend owning the renderer), one ticking clock,
/// `clock.time()` read right after every `on_start_processing()`.  The C19 clauses are evaluated on every
/// reported time (fraction in [0, 1); ordering against the next whole tick and the previous report agrees with
/// ticks + fraction; add-then-subtract round trip; ticks + fraction = elapsed time to rounding), and sampled
/// reports go to the model (`CHandle`: one callback from the previous report; `CAddF`/`CSubF`/`CCmp` on them).
fn handle_times(s: &mut Session, args: &Args, n: u64) {
	// own stream, decorrelated between seeds: `Rng::new(seed)` streams of neighbouring seeds are shifts of one
	// another and re-synchronise after a few variable-length draws; a fork starts from an output (hashed) value
	let mut own = Rng::new(args.seed ^ 0xC19_0A).fork();
	let rng = &mut own;
	struct Cfg {
		sr: u32,
		buf: usize,
		frames: usize,
		speed: ClockSpeed,
		callbacks: usize,
		kind: &'static str,
	}
	let mut cfgs: Vec<Cfg> = vec![];
	let long = if args.thorough { 8000 } else { 3000 };
	// fixed corpus: ordinary settings (kira's defaults, 120 BPM); a tick is mathematically due at callback 375
	cfgs.push(Cfg { sr: 48000, buf: 128, frames: 128, speed: ClockSpeed::TicksPerMinute(120.0), callbacks: 2000, kind: "handle_cfg_fixed" });
	let n_ord = (if args.thorough { 400 } else { 60 }) * args.budget_mul;
	let n_bnd = (if args.thorough { 400 } else { 40 }) * args.budget_mul;
	for _ in 0..n_ord {
		let sr = *rng.pick(&[8000u32, 11025, 16000, 22050, 32000, 44100, 48000, 88200, 96000, 192000]);
		let buf = *rng.pick(&[32usize, 64, 128, 128, 256, 512, 1024, 100, 160, 441, 480]);
		let frames = match rng.below(6) {
			0 => buf * 2,
			1 => buf * 4,
			2 => buf + buf / 2,
			3 => 1 + rng.below(buf as u64) as usize,
			_ => buf,
		};
		let speed = match rng.below(3) {
			0 => ClockSpeed::TicksPerMinute(*rng.pick(&[60.0, 80.0, 90.0, 100.0, 120.0, 128.0, 140.0, 150.0, 174.0, 180.0, 240.0, 480.0])),
			1 => ClockSpeed::TicksPerSecond(*rng.pick(&[1.0, 2.0, 3.0, 4.0, 5.0, 8.0, 10.0, 25.0, 100.0, 375.0])),
			_ => ClockSpeed::SecondsPerTick(*rng.pick(&[1.0, 0.5, 0.25, 0.2, 0.1, 0.05, 0.02, 0.01])),
		};
		cfgs.push(Cfg { sr, buf, frames, speed, callbacks: long, kind: "handle_cfg_ordinary" });
	}
	for i in 0..n_bnd {
		let sr = *rng.pick(&[8000u32, 44100, 48000, 96000]);
		let buf = *rng.pick(&[64usize, 128, 256, 441]);
		let cdt = (1.0 / sr as f64) * buf as f64;
		// the timer increment of one chunk lands on / next to these values
		let p = |e: i32| (2.0f64).powi(e);
		let targets = [
			1.0 - p(-53), 1.0 - p(-40), 1.0 - p(-30), 1.0 - p(-26), 1.0 - p(-25), 1.0 - p(-24), 0.5 - p(-54), (1.0 - p(-30)) / 2.0,
			(1.0 - p(-28)) / 3.0, 2.0 - p(-30), 1.0, 0.5, 1.0 + p(-52), 3.0 - p(-27),
		];
		let f = if (i as usize) < targets.len() { targets[i as usize] } else if rng.chance(1, 2) { 1.0 - rng.unit_f64() * p(-20) } else { (1.0 - rng.unit_f64() * p(-22)) / (1 + rng.below(5)) as f64 };
		let speed = if rng.chance(1, 2) { ClockSpeed::TicksPerSecond(f / cdt) } else { ClockSpeed::SecondsPerTick(cdt / f) };
		cfgs.push(Cfg { sr, buf, frames: buf, speed, callbacks: 48, kind: "handle_cfg_boundary" });
	}
	let model_cap = n / 2;
	let mut model_sent = 0u64;
	// (priority, case, what): the clause about the fraction first
	let mut fails: Vec<(u8, String, String)> = vec![];
	let mut per_kind = [0usize; 4];
	let mut fail_hist: std::collections::BTreeMap<String, u64> = Default::default();
	let mut near_one_by: std::collections::BTreeMap<&'static str, u64> = Default::default();
	let mut near_one = 0u64;
	let mut on_tick = 0u64;
	for cfg in &cfgs {
		s.count(cfg.kind);
		let mut m = simple_manager(cfg.sr, cfg.buf);
		let mut clock = m.add_clock(cfg.speed).unwrap();
		clock.start();
		let (sk, sx) = speed_code(cfg.speed);
		let mut chunks: Vec<usize> = vec![cfg.buf; cfg.frames / cfg.buf];
		if cfg.frames % cfg.buf != 0 {
			chunks.push(cfg.frames % cfg.buf);
		}
		let chunk_list = format!("[{}]", chunks.iter().map(|c| c.to_string()).collect::<Vec<_>>().join("; "));
		let dt = 1.0 / cfg.sr as f64;
		let incs: Vec<f64> = chunks.iter().map(|&c| cfg.speed.as_ticks_per_second() * (dt * c as f64)).collect();
		let inc_cb: f64 = incs.iter().sum();
		let inc_max = incs.iter().cloned().fold(0.0, f64::max);
		let mut out = vec![0.0f32; cfg.frames * 2];
		let mut prev: Option<ClockTime> = None;
		let mut sent_here = 0;
		for k in 1..=cfg.callbacks {
			m.backend_mut().r().on_start_processing();
			// the game thread looks at the clock while the callback is running
			let t = clock.time();
			let mut fail = |kind: usize, what: String| {
				per_kind[kind] += 1;
				*fail_hist.entry(format!("{}_monitor_{}", cfg.kind, ["fraction_range", "order", "roundtrip", "elapsed"][kind])).or_insert(0) += 1;
				if per_kind[kind] <= 3 {
					let desc = format!(
						"clock.time() after on_start_processing of callback {k} = ClockTime {{ ticks: {}, fraction: {:?} }} [device rate {}, internal buffer {}, callbacks of {} frames, {:?}, clock started before callback 1]",
						t.ticks, t.fraction, cfg.sr, cfg.buf, cfg.frames, cfg.speed
					);
					fails.push((kind as u8, desc, what));
				}
			};
			s.evaluations += 1;
			if t.fraction >= 1.0 - (2.0f64).powi(-25) {
				near_one += 1;
				*near_one_by.entry(cfg.kind).or_insert(0) += 1;
			}
			// the fraction is in [0, 1)
			if !(t.fraction >= 0.0 && t.fraction < 1.0) {
				fail(0, format!("fraction {:?} outside [0, 1)", t.fraction));
			}
			// ordering agrees with ticks + fraction: against the start of the next tick ...
			if t.ticks < u64::MAX {
				let next = ClockTime::from_ticks_u64(&clock, t.ticks + 1);
				let got = t.partial_cmp(&next);
				let want = value_cmp(t, next);
				if got != want {
					fail(1, format!("partial_cmp with ClockTime {{ ticks: {}, fraction: 0.0 }} = {:?}, but ticks + fraction order = {:?}", next.ticks, got, want));
				}
			}
			// ... and against the previous report
			if let Some(p) = prev {
				let got = p.partial_cmp(&t);
				let want = value_cmp(p, t);
				if got != want {
					fail(1, format!("partial_cmp of the previous report ({}, {:?}) with this one = {:?}, but ticks + fraction order = {:?}", p.ticks, p.fraction, got, want));
				}
			}
			// adding and then subtracting an amount returns the original time to rounding, fractions stay in [0, 1)
			for amt in [0.25, rng.unit_f64() * 4.0] {
				if let Outcome::Ok((c1, c2)) = catch(|| (t + amt, (t + amt) - amt)) {
					for (c, op) in [(c1, "+"), (c2, "+ then -")] {
						if !(c.fraction >= 0.0 && c.fraction < 1.0) {
							fail(2, format!("{op} {amt:?}: fraction {:?} outside [0, 1)", c.fraction));
						}
					}
					let d = (c2.ticks as i128 - t.ticks as i128) as f64 + (c2.fraction - t.fraction);
					let tol = 4.0 * ulp(amt.max(1.0));
					if !(d.abs() <= tol) || (t.fraction >= 0.0 && t.fraction < 1.0 && (c2.ticks as i128 - t.ticks as i128).abs() > 1) {
						fail(2, format!("(time + {amt:?}) - {amt:?} = ({}, {:?}): off by {d:e} > {tol:e}", c2.ticks, c2.fraction));
					}
				} else {
					fail(2, format!("(time + {amt:?}) - {amt:?} panicked"));
				}
			}
			// ticks + fraction is the time that has passed, to rounding (each chunk: one rounded addition below 1 + increment)
			{
				let elapsed = (k - 1) as f64 * inc_cb;
				let got = t.ticks as f64 + t.fraction;
				let tol = ((k - 1) * chunks.len() + 4) as f64 * f64::EPSILON * (1.0 + inc_max) * 2.0 + elapsed * 8.0 * f64::EPSILON;
				if inc_cb.is_finite() && elapsed < 1e15 && !((got - elapsed).abs() <= tol) {
					fail(3, format!("ticks + fraction = {got:?} but {} callbacks advancing the timer by {inc_cb:?} have passed ({elapsed:?}): off by {:e} > {tol:e}", k - 1, got - elapsed));
				}
			}
			// model cases
			let ticked = prev.map_or(false, |p| p.ticks != t.ticks);
			if ticked {
				on_tick += 1;
			}
			let interesting = k <= 2 || (ticked && sent_here < 4) || t.fraction >= 1.0 - (2.0f64).powi(-20) || rng.chance(1, 400);
			if interesting && model_sent < model_cap && sent_here < (if cfg.kind == "handle_cfg_fixed" { 24 } else { 6 }) {
				sent_here += 1;
				model_sent += 1;
				if let Some(p) = prev {
					s.case(
						"handle_time",
						format!("CHandle {} {} {} {} {} {}", p.ticks, f64_bits_z(p.fraction), sk, f64_bits_z(sx), cfg.sr, chunk_list),
						&ct_obs(t),
						Some(format!("h:{}:{}:{sk}:{}:{}:{chunk_list}", p.ticks, p.fraction.to_bits(), sx.to_bits(), cfg.sr)),
					);
				} else {
					// nothing rendered yet: the clock reports (0, 0.0)
					s.case("handle_time", format!("CHandle 0 0 {} {} {} []", sk, f64_bits_z(sx), cfg.sr), &ct_obs(t), None);
				}
				let amt = if rng.chance(1, 2) { 0.25 } else { gen_finite(rng).abs() % 64.0 };
				let (tk, fr) = (t.ticks, t.fraction);
				let o = catch(|| ct_obs(t + amt));
				s.case("ct_add_f64_handle", format!("CAddF {} {} {}", tk, f64_bits_z(fr), f64_bits_z(amt)), &encode_outcome(&o), Some(format!("ha:{tk}:{}:{}", fr.to_bits(), amt.to_bits())));
				let o = catch(|| ct_obs(t - amt));
				s.case("ct_sub_f64_handle", format!("CSubF {} {} {}", tk, f64_bits_z(fr), f64_bits_z(amt)), &encode_outcome(&o), Some(format!("hs:{tk}:{}:{}", fr.to_bits(), amt.to_bits())));
				let next = ClockTime::from_ticks_u64(&clock, t.ticks.wrapping_add(1));
				let code = match t.partial_cmp(&next) {
					Some(std::cmp::Ordering::Less) => 0,
					Some(std::cmp::Ordering::Equal) => 1,
					Some(std::cmp::Ordering::Greater) => 2,
					None => 3,
				};
				s.case("ct_cmp_handle", format!("CCmp {} {} {} 0", tk, f64_bits_z(fr), next.ticks), &[code], Some(format!("hc:{tk}:{}", fr.to_bits())));
			}
			prev = Some(t);
			m.backend_mut().r().process(&mut out, 2);
		}
	}
	s.hist.insert("handle_time_reports".into(), cfgs.iter().map(|c| c.callbacks as u64).sum());
	s.hist.insert("handle_time_fraction_within_2^-25_of_one".into(), near_one);
	s.hist.insert("handle_time_reports_on_a_new_tick".into(), on_tick);
	for (k, v) in near_one_by {
		s.hist.insert(format!("{k}_fraction_within_2^-25_of_one"), v);
	}
	for (k, v) in fail_hist {
		s.hist.insert(k, v);
	}
	if near_one == 0 {
		s.fail("handle_times scenario".into(), "the generator produced no report whose fraction is within 2^-25 of 1 (the fixed corpus case should)".into(), None);
	}
	fails.sort_by_key(|f| f.0);
	for (_, case, what) in fails {
		s.fail(case, what, None);
	}
}

pub fn run(args: &Args) {
	let mut rng = Rng::new(args.seed ^ 0xC19);
	let n: u64 = (if args.thorough { 20_000 } else { 1_200 }) * args.budget_mul;
	let mut s = Session::new(
		"C19",
		&args.out,
		"From Coq Require Import ZArith List. Import ListNotations. Open Scope Z_scope.\nFrom KV Require Import Base.Corr C19.Run.",
		"run",
		400,
		"one case = one call of a public unit/clock-time function on generated arguments (special values, random bit patterns, dyadics, near-boundary fractions), or one ClockHandle::time() report of a real clock driven callback by callback (ordinary and boundary tempo / rate / buffer combinations); distinct = distinct (function, argument bits); non-trivial = arguments are not all zero",
	);
	let mut info = MockInfoBuilder::new();
	let cid = info.add_clock(true, 0, 0.0);

	// ---------- clock time ----------
	for i in 0..n {
		let tk = gen_ticks(&mut rng);
		let fr = gen_fraction(&mut rng);
		let boundary = i % 5 == 4;
		let mut t = if boundary { gen_f64(&mut rng) } else { gen_finite(&mut rng).abs() % 1.0e6 };
		if !boundary && rng.chance(1, 3) {
			t = (t * 256.0).round() / 256.0;
		}
		let c = ClockTime { clock: cid, ticks: tk, fraction: fr };
		let key = |k: &str| Some(format!("{k}:{tk}:{}:{}", fr.to_bits(), t.to_bits()));
		// Add<f64>
		let o = catch(|| ct_obs(c + t));
		s.case("ct_add_f64", format!("CAddF {} {} {}", tk, f64_bits_z(fr), f64_bits_z(t)), &encode_outcome(&o), key("a"));
		if let Outcome::Ok(_) = o {
			let c1 = c + t;
			if t.is_finite() {
				if !(c1.fraction >= 0.0 && c1.fraction < 1.0) {
					s.fail(format!("ClockTime({tk},{fr:?}) + {t:?}"), format!("fraction {:?} outside [0,1)", c1.fraction), None);
				}
				// add then subtract returns the original time to rounding
				if t >= 0.0 && tk < (1u64 << 53) && t < 1e15 {
					if let Outcome::Ok(c2) = catch(|| c1 - t) {
						let d = (c2.ticks as i128 - tk as i128) as f64 + (c2.fraction - fr);
						let tol = 4.0 * ulp(t.max(1.0));
						if !(d.abs() <= tol) {
							s.fail(format!("(ClockTime({tk},{fr:?}) + {t:?}) - {t:?}"), format!("returned ({}, {:?}): off by {d:e} > {tol:e}", c2.ticks, c2.fraction), None);
						}
						s.eval_only("ct_roundtrip");
					}
				}
			}
		}
		// Sub<f64>
		let o = catch(|| ct_obs(c - t));
		s.case("ct_sub_f64", format!("CSubF {} {} {}", tk, f64_bits_z(fr), f64_bits_z(t)), &encode_outcome(&o), key("s"));
		if let Outcome::Ok(_) = o {
			let c1 = c - t;
			if t.is_finite() {
				if !(c1.fraction >= 0.0 && c1.fraction < 1.0) {
					s.fail(format!("ClockTime({tk},{fr:?}) - {t:?}"), format!("fraction {:?} outside [0,1)", c1.fraction), None);
				}
				if t >= 0.0 {
					// never wraps below zero / never ends up later than it started (to rounding)
					let d = (c1.ticks as i128 - tk as i128) as f64 + (c1.fraction - fr);
					if d > 4.0 * f64::EPSILON {
						s.fail(
							format!("ClockTime({tk},{fr:?}) - {t:?}"),
							format!("result ({}, {:?}) is later than the original time", c1.ticks, c1.fraction),
							None,
						);
					}
					// exact difference to rounding when the amount does not exceed the time
					if tk < (1u64 << 52) && t <= tk as f64 {
						let e = (c1.ticks as f64 - (tk as f64 - t.trunc())) + (c1.fraction - (fr - t.fract()));
						let tol = 4.0 * ulp(t.max(1.0));
						if !(e.abs() <= tol) {
							s.fail(format!("ClockTime({tk},{fr:?}) - {t:?}"), format!("result ({}, {:?}) is off by {e:e} > {tol:e}", c1.ticks, c1.fraction), None);
						}
					}
				}
			}
		}
		// the compound assignments are the same operations: `c += x` must leave what `c + x` returns (and panic when
		// it panics), for amounts of either sign; sent to the model under the binary operator's case kind
		{
			let ts = if i % 3 == 0 { -t } else { t };
			let keyc = |k: &str| Some(format!("{k}:{tk}:{}:{}", fr.to_bits(), ts.to_bits()));
			let oa = catch(|| {
				let mut d = c;
				d += ts;
				ct_obs(d)
			});
			s.case("ct_add_assign_f64", format!("CAddF {} {} {}", tk, f64_bits_z(fr), f64_bits_z(ts)), &encode_outcome(&oa), keyc("aa"));
			let ob = catch(|| ct_obs(c + ts));
			if encode_outcome(&oa) != encode_outcome(&ob) {
				s.fail(format!("c = ClockTime({tk},{fr:?}); c += {ts:?}"), format!("leaves {:?} but c + {ts:?} is {:?} (observations: ticks, fraction bits)", encode_outcome(&oa), encode_outcome(&ob)), None);
			}
			let oa = catch(|| {
				let mut d = c;
				d -= ts;
				ct_obs(d)
			});
			s.case("ct_sub_assign_f64", format!("CSubF {} {} {}", tk, f64_bits_z(fr), f64_bits_z(ts)), &encode_outcome(&oa), keyc("sa"));
			let ob = catch(|| ct_obs(c - ts));
			if encode_outcome(&oa) != encode_outcome(&ob) {
				s.fail(format!("c = ClockTime({tk},{fr:?}); c -= {ts:?}"), format!("leaves {:?} but c - {ts:?} is {:?}", encode_outcome(&oa), encode_outcome(&ob)), None);
			}
			if let (Outcome::Ok(d), true) = (catch(|| { let mut d = c; d += ts; d }), ts.is_finite()) {
				if !(d.fraction >= 0.0 && d.fraction < 1.0) {
					s.fail(format!("c = ClockTime({tk},{fr:?}); c += {ts:?}"), format!("fraction {:?} outside [0,1)", d.fraction), None);
				}
			}
		}
		// u64 ops
		let k = match rng.below(4) {
			0 => 0,
			1 => rng.below(10),
			2 => tk,
			_ => gen_ticks(&mut rng),
		};
		let o = catch(|| ct_obs(c + k));
		s.case("ct_add_u64", format!("CAddU {} {} {}", tk, f64_bits_z(fr), k), &encode_outcome(&o), key("au"));
		let o = catch(|| ct_obs(c - k));
		s.case("ct_sub_u64", format!("CSubU {} {} {}", tk, f64_bits_z(fr), k), &encode_outcome(&o), key("su"));
		let o = catch(|| {
			let mut d = c;
			d += k;
			ct_obs(d)
		});
		s.case("ct_add_assign_u64", format!("CAddU {} {} {}", tk, f64_bits_z(fr), k), &encode_outcome(&o), Some(format!("aau:{tk}:{}:{k}", fr.to_bits())));
		let o = catch(|| {
			let mut d = c;
			d -= k;
			ct_obs(d)
		});
		s.case("ct_sub_assign_u64", format!("CSubU {} {} {}", tk, f64_bits_z(fr), k), &encode_outcome(&o), Some(format!("sau:{tk}:{}:{k}", fr.to_bits())));
		// from_ticks_f64
		let x = gen_f64(&mut rng);
		let c3 = ClockTime::from_ticks_f64(cid, x);
		s.case("ct_from_ticks", format!("CFromTicks {}", f64_bits_z(x)), &ct_obs(c3), Some(format!("ft:{}", x.to_bits())));
		if x.is_finite() && x >= 0.0 && !(c3.fraction >= 0.0 && c3.fraction < 1.0) {
			s.fail(format!("from_ticks_f64({x:?})"), format!("fraction {:?} outside [0,1)", c3.fraction), None);
		}
		// partial_cmp
		let (tk2, fr2) = match rng.below(4) {
			0 => (tk, fr),
			1 => (tk, gen_fraction(&mut rng)),
			2 => (tk.wrapping_add(1), gen_fraction(&mut rng)),
			_ => (gen_ticks(&mut rng), gen_fraction(&mut rng)),
		};
		let c2 = ClockTime { clock: cid, ticks: tk2, fraction: fr2 };
		let got = c.partial_cmp(&c2);
		let code = match got {
			Some(std::cmp::Ordering::Less) => 0,
			Some(std::cmp::Ordering::Equal) => 1,
			Some(std::cmp::Ordering::Greater) => 2,
			None => 3,
		};
		s.case("ct_cmp", format!("CCmp {} {} {} {}", tk, f64_bits_z(fr), tk2, f64_bits_z(fr2)), &[code], Some(format!("cmp:{tk}:{}:{tk2}:{}", fr.to_bits(), fr2.to_bits())));
		// ordering agrees with ticks + fraction, computed exactly in integers (fraction < 1 => scaled by 2^1074 would be exact; compare lexicographically on (ticks, fraction) only after checking fraction range)
		let exact = (tk as u128, fr).partial_cmp(&(tk2 as u128, fr2));
		if got != exact {
			s.fail(format!("({tk},{fr:?}) cmp ({tk2},{fr2:?})"), format!("partial_cmp = {:?}, ticks+fraction order = {:?}", got, exact), None);
		}
	}

	// ---------- clock times handed out by a ClockHandle ----------
	handle_times(&mut s, args, n);

	// ---------- clock speed ----------
	for _ in 0..n / 2 {
		let kind = rng.below(3);
		let x = if rng.chance(1, 6) { gen_f64(&mut rng) } else { gen_finite(&mut rng).abs().max(1e-6).min(1e9) };
		let sp = match kind {
			0 => ClockSpeed::SecondsPerTick(x),
			1 => ClockSpeed::TicksPerSecond(x),
			_ => ClockSpeed::TicksPerMinute(x),
		};
		let (a, b, c) = (sp.as_seconds_per_tick(), sp.as_ticks_per_second(), sp.as_ticks_per_minute());
		s.case("clock_speed", format!("CSpeed {} {}", kind, f64_bits_z(x)), &[obs64(a), obs64(b), obs64(c)], Some(format!("sp:{kind}:{}", x.to_bits())));
		if x.is_finite() && x > 1e-6 && x < 1e9 {
			// the three units convert consistently: tps = 1/spt, tpm = 60 tps (to rounding)
			let ok = ((a * b) - 1.0).abs() <= 4.0 * f64::EPSILON && ((c / b) - 60.0).abs() <= 60.0 * 4.0 * f64::EPSILON;
			if !ok {
				s.fail(format!("{sp:?}"), format!("inconsistent conversions spt={a:?} tps={b:?} tpm={c:?}"), None);
			}
			// identity on the diagonal
			let d = match kind {
				0 => a,
				1 => b,
				_ => c,
			};
			if d.to_bits() != x.to_bits() {
				s.fail(format!("{sp:?}"), format!("own unit not returned exactly: {d:?}"), None);
			}
		}
		let kind2 = rng.below(3);
		let y = gen_finite(&mut rng).abs().max(1e-6).min(1e9);
		let sp2 = match kind2 {
			0 => ClockSpeed::SecondsPerTick(y),
			1 => ClockSpeed::TicksPerSecond(y),
			_ => ClockSpeed::TicksPerMinute(y),
		};
		let amt = if rng.chance(1, 4) { *rng.pick(&[0.0, 1.0, 0.5]) } else { rng.unit_f64() };
		let r = ClockSpeed::interpolate(sp, sp2, amt);
		let (rk, rv) = match r {
			ClockSpeed::SecondsPerTick(v) => (0, v),
			ClockSpeed::TicksPerSecond(v) => (1, v),
			ClockSpeed::TicksPerMinute(v) => (2, v),
		};
		// the units convert consistently inside interpolation too: in the unit of the second speed, the result is
		// the first speed at amount 0 and the second at amount 1 (to the rounding of `a + (b - a) * t`)
		if x.is_finite() && x > 1e-6 && x < 1e9 {
			let unit = |c: ClockSpeed| match kind2 {
				0 => c.as_seconds_per_tick(),
				1 => c.as_ticks_per_second(),
				_ => c.as_ticks_per_minute(),
			};
			let (au, bu) = (unit(sp), unit(sp2));
			let e0 = unit(ClockSpeed::interpolate(sp, sp2, 0.0));
			let e1 = unit(ClockSpeed::interpolate(sp, sp2, 1.0));
			let tol = 8.0 * f64::EPSILON * au.abs().max(bu.abs());
			s.eval_only("clock_speed_interpolate_ends");
			if !((e0 - au).abs() <= tol && (e1 - bu).abs() <= tol) {
				s.fail(format!("ClockSpeed::interpolate({sp:?}, {sp2:?}, 0 | 1)"), format!("gives {e0:?} and {e1:?} at the ends (in the unit of the second speed), the two speeds are {au:?} and {bu:?} in that unit"), None);
			}
		}
		s.case(
			"clock_speed_interpolate",
			format!("CSpeedLerp {} {} {} {} {}", kind, f64_bits_z(x), kind2, f64_bits_z(y), f64_bits_z(amt)),
			&[rk, obs64(rv)],
			Some(format!("spl:{kind}:{}:{kind2}:{}:{}", x.to_bits(), y.to_bits(), amt.to_bits())),
		);
	}

	// ---------- witnesses of the `_refuted` theorems, replayed on the implementation ----------
	{
		let y0 = apply_easing(Easing::InPowi(0), 0.0);
		if y0 != 0.0 {
			s.fail("Easing::InPowi(0) at 0".into(), format!("maps 0 to {y0:?}"), Some("easing_power_nonpositive"));
		}
		let y1 = apply_easing(Easing::InPowi(-1), 0.5);
		if !(0.0..=1.0).contains(&y1) {
			s.fail("Easing::InPowi(-1) at 0.5".into(), format!("value {y1:?} outside [0, 1]"), Some("easing_power_nonpositive"));
		}
		let m = Mapping { input_range: (2.0, 2.0), output_range: (0.0f64, 1.0f64), easing: Easing::Linear };
		let v = m.map(2.0);
		if !v.is_finite() {
			s.fail("Mapping { input_range: (2.0, 2.0), output_range: (0.0, 1.0), Linear }.map(2.0)".into(), format!("{v:?}: not finite for finite arguments (0/0)"), Some("mapping_zero_width_input_range"));
		}
	}
	// ---------- easing and mapping ----------
	for i in 0..n {
		let boundary = i % 6 == 5;
		let e = gen_easing(&mut rng, boundary);
		let (ek, ep) = easing_code(e);
		let mut xs: Vec<f64> = vec![0.0, 1.0, 0.5];
		for _ in 0..5 {
			xs.push(if rng.chance(1, 3) { rng.dyadic_unit(6) } else { rng.unit_f64() });
		}
		xs.sort_by(|a, b| a.partial_cmp(b).unwrap());
		let mut prev: Option<(f64, f64)> = None;
		for &x in &xs {
			let y = apply_easing(e, x);
			let tab = easing_oracle(e, x);
			s.case("easing", format!("CEase {} {} {} {}", ek, z(ep), f64_bits_z(x), tab64(&tab)), &[obs64(y)], Some(format!("e:{ek}:{ep}:{}", x.to_bits())));
			// the laws are monitored on EVERY easing; a power <= 0 is the listed class F36 (and only that)
			let nonpos = match e {
				Easing::InPowi(p) | Easing::OutPowi(p) | Easing::InOutPowi(p) => p <= 0,
				Easing::InPowf(p) | Easing::OutPowf(p) | Easing::InOutPowf(p) => p <= 0.0,
				_ => false,
			};
			let class = if nonpos { Some("easing_power_nonpositive") } else { None };
			{
				if x == 0.0 && y != 0.0 {
					s.fail(format!("{e:?} at 0"), format!("maps 0 to {y:?}"), class);
				}
				if x == 1.0 && y != 1.0 {
					s.fail(format!("{e:?} at 1"), format!("maps 1 to {y:?}"), class);
				}
				if !(0.0..=1.0).contains(&y) {
					s.fail(format!("{e:?} at {x:?}"), format!("value {y:?} outside [0, 1]"), class);
				}
				if let Some((px, py)) = prev {
					// monotone on [0,1] (to rounding of the libm / multiplication chain)
					if y < py - 4.0 * f64::EPSILON {
						s.fail(format!("{e:?} at {px:?} < {x:?}"), format!("not monotone: {py:?} > {y:?}"), class);
					}
				}
				prev = Some((x, y));
			}
		}
		// Mapping::map clamps its input to the input range
		let (lo, hi) = if boundary && rng.chance(1, 2) { (gen_finite(&mut rng), gen_finite(&mut rng)) } else {
			let a = (rng.unit_f64() - 0.5) * 20.0;
			let w = rng.unit_f64() * 10.0 + 0.01;
			if rng.chance(1, 4) { (a + w, a) } else { (a, a + w) }
		};
		let (olo, ohi) = ((rng.unit_f64() - 0.5) * 100.0, (rng.unit_f64() - 0.5) * 100.0);
		let m = Mapping { input_range: (lo, hi), output_range: (olo, ohi), easing: e };
		let inputs = [lo, hi, lo - 1.0, hi + 1.0, lo + (hi - lo) * rng.unit_f64(), gen_finite(&mut rng)];
		for &input in &inputs {
			let out = catch(|| m.map(input));
			let out = match out {
				Outcome::Ok(v) => v,
				_ => {
					s.fail(format!("{m:?}.map({input:?})"), "panicked".into(), None);
					continue;
				}
			};
			let amount = ((input - lo) / (hi - lo)).clamp(0.0, 1.0);
			// (a NaN amount, from a zero-width range, goes through libm too: powf(NaN, p))
			let tab = easing_oracle(e, amount);
			s.case(
				"mapping",
				format!("CMap {} {} {} {} {} {} {} {}", f64_bits_z(lo), f64_bits_z(hi), f64_bits_z(olo), f64_bits_z(ohi), ek, z(ep), f64_bits_z(input), tab64(&tab)),
				&[obs64(out)],
				Some(format!("m:{}:{}:{}", lo.to_bits(), hi.to_bits(), input.to_bits())),
			);
			// monitored on every mapping; the listed classes: a zero-width input range (F41), an easing power <= 0 (F36)
			let nonpos = match e {
				Easing::InPowi(p) | Easing::OutPowi(p) | Easing::InOutPowi(p) => p <= 0,
				Easing::InPowf(p) | Easing::OutPowf(p) | Easing::InOutPowf(p) => p <= 0.0,
				_ => false,
			};
			let class = if lo == hi { Some("mapping_zero_width_input_range") } else if nonpos { Some("easing_power_nonpositive") } else { None };
			if (hi - lo).is_finite() {
				let (a, b) = if lo <= hi { (lo, hi) } else { (hi, lo) };
				let clamped = input.clamp(a, b);
				let out2 = m.map(clamped);
				if obs64(out2) != obs64(out) {
					s.fail(format!("{m:?}.map({input:?})"), format!("{out:?} differs from map of the clamped input {clamped:?} = {out2:?}"), class);
				}
			}
		}
	}

	// ---------- decibels, panning, mono, semitones ----------
	let mut dbs: Vec<f32> = (0..n).map(|_| gen_f32(&mut rng)).collect();
	dbs.extend(special32());
	dbs.retain(|x| !x.is_nan());
	dbs.sort_by(|a, b| a.partial_cmp(b).unwrap());
	let mut prev: Option<(f32, f32)> = None;
	for &db in &dbs {
		let a = Decibels(db).as_amplitude();
		let arg = db / 20.0;
		let tab = format!("[({}, {}, {})]", f32_bits_z(10.0), f32_bits_z(arg), f32_bits_z(10.0f32.powf(arg)));
		s.case("decibels", format!("CDb {} {}", f32_bits_z(db), tab), &[obs32(a)], Some(format!("db:{}", db.to_bits())));
		if db == 0.0 && a != 1.0 {
			s.fail(format!("Decibels({db:?})"), format!("0 dB maps to {a:?}"), None);
		}
		if db <= -60.0 && a != 0.0 {
			s.fail(format!("Decibels({db:?})"), format!("<= -60 dB maps to {a:?}"), None);
		}
		if db > -60.0 && db.is_finite() && db != 0.0 {
			let want = 10f64.powf(db as f64 / 20.0);
			// to binary32 rounding: the exponent dB/20 is itself rounded to binary32 (half an ulp of it moves
			// 10^x by |x| * 2^-24 * ln 10 relatively: 4.8e-6 at 700 dB), then powf and its result rounding
			let tol = (2e-6f64).max((db as f64 / 20.0).abs() * (2.0f64).powi(-24) * std::f64::consts::LN_10 * 1.01 + 3.0 * (2.0f64).powi(-24));
			if want < 3.0e38 && want > 1e-37 && ((a as f64 - want) / want).abs() > tol {
				s.fail(format!("Decibels({db:?})"), format!("amplitude {a:?} but 10^(dB/20) = {want:?}"), None);
			}
		}
		if let Some((pdb, pa)) = prev {
			if a < pa {
				s.fail(format!("Decibels({pdb:?}) vs Decibels({db:?})"), format!("not monotone: {pa:?} > {a:?}"), None);
			}
		}
		prev = Some((db, a));
	}
	{
		let a = Decibels(f32::NAN).as_amplitude();
		let tab = format!("[({}, (-1), {})]", f32_bits_z(10.0), f32_bits_z(10.0f32.powf(f32::NAN)));
		s.case("decibels", format!("CDb (-1) {}", tab), &[obs32(a)], None);
	}
	for _ in 0..n {
		let (l, r) = (gen_f32(&mut rng), gen_f32(&mut rng));
		let p = if rng.chance(1, 5) { gen_f32(&mut rng) } else { (rng.unit_f64() * 2.0 - 1.0) as f32 };
		let f = Frame::new(l, r).panned(Panning(p));
		s.case("panned", format!("CPan {} {} {}", f32_bits_z(l), f32_bits_z(r), f32_bits_z(p)), &[obs32(f.left), obs32(f.right)], Some(format!("pan:{}:{}:{}", l.to_bits(), r.to_bits(), p.to_bits())));
		let m = Frame::new(l, r).as_mono();
		s.case("as_mono", format!("CMono {} {}", f32_bits_z(l), f32_bits_z(r)), &[obs32(m.left), obs32(m.right)], Some(format!("mono:{}:{}", l.to_bits(), r.to_bits())));
		// panning keeps centre level and the total power of a centred signal
		let x = (rng.unit_f64() * 2.0 - 1.0) as f32;
		let c = Frame::new(x, x).panned(Panning(0.0));
		if c.left.to_bits() != x.to_bits() || c.right.to_bits() != x.to_bits() {
			s.fail(format!("Frame({x:?},{x:?}).panned(0)"), format!("centre changes the level: {c:?}"), None);
		}
		if p.is_finite() {
			let q = Frame::new(x, x).panned(Panning(p));
			let pw = (q.left as f64).powi(2) + (q.right as f64).powi(2);
			let want = 2.0 * (x as f64).powi(2);
			if (pw - want).abs() > 1e-5 * want.max(1e-30) {
				s.fail(format!("Frame({x:?},{x:?}).panned({p:?})"), format!("power {pw:?} != {want:?}"), None);
			}
			s.eval_only("pan_power");
		}
	}
	// whole octaves are exact: the argument handed to powf is exactly the number of octaves (theorem
	// semitones_octave_b64) and 2^k is representable, so twelve semitones double the rate to the last bit
	for (sm, want) in [(12.0f64, 2.0f64), (0.0, 1.0), (-12.0, 0.5), (24.0, 4.0), (-24.0, 0.25), (36.0, 8.0), (120.0, 1024.0), (-120.0, 1.0 / 1024.0)] {
		let r: PlaybackRate = Semitones(sm).into();
		s.eval_only("semitones_whole_octaves");
		if r.0.to_bits() != want.to_bits() {
			s.fail(format!("Semitones({sm:?})"), format!("playback rate {:?}, but {} semitones are {} octaves: exactly {want:?}", r.0, sm, sm / 12.0), None);
		}
	}
	for _ in 0..n / 2 {
		let sm = if rng.chance(1, 6) { gen_f64(&mut rng) } else { (rng.unit_f64() - 0.5) * 96.0 };
		let r: PlaybackRate = Semitones(sm).into();
		let arg = sm / 12.0;
		let tab = format!("[({}, {}, {})]", f64_bits_z(2.0), f64_bits_z(arg), f64_bits_z(2.0f64.powf(arg)));
		s.case("semitones", format!("CSemi {} {}", f64_bits_z(sm), tab), &[obs64(r.0)], Some(format!("semi:{}", sm.to_bits())));
		if sm.is_finite() && sm.abs() < 1000.0 {
			let r2: PlaybackRate = Semitones(sm + 12.0).into();
			if ((r2.0 / r.0) - 2.0).abs() > 1e-12 {
				s.fail(format!("Semitones({sm:?})"), format!("rate(s+12)/rate(s) = {:?}", r2.0 / r.0), None);
			}
		}
	}
	// platform libm hypotheses used by db_monotone (validated here, stated as hypotheses in Coq)
	{
		let mut bad = 0u64;
		let mut prev = 0.0f32;
		let count: u32 = if args.thorough { 1 << 24 } else { 1 << 18 };
		// args of powf(10, .) range over db/20 for db in (-60, +inf): sweep ordered positive and negative floats
		let lo = (-3.0f32).to_bits();
		// negative side: from -3.0 up to -0.0 (bit patterns decreasing)
		let step = ((lo - 0x8000_0000) / count).max(1);
		let mut b = lo;
		while b >= 0x8000_0000 + step {
			let v = 10f32.powf(f32::from_bits(b));
			if !(v >= prev) || !(v >= 0.0) {
				bad += 1;
			}
			prev = v;
			b -= step;
		}
		let v0 = 10f32.powf(-0.0);
		let v1 = 10f32.powf(0.0);
		if v0 != 1.0 || v1 != 1.0 || !(v0 >= prev) {
			bad += 1;
		}
		prev = 1.0;
		let hi = f32::INFINITY.to_bits();
		let step = (hi / count).max(1);
		let mut b = 0u32;
		while b <= hi - step {
			let v = 10f32.powf(f32::from_bits(b));
			if !(v >= prev) {
				bad += 1;
			}
			prev = v;
			b += step;
		}
		s.hist.insert("libm_powf10_monotone_samples".into(), 2 * count as u64);
		if bad > 0 {
			s.fail("powf(10, x) sweep".into(), format!("{bad} violations of the oracle hypotheses (monotone, >= 0, 1 at zero)"), None);
		}
	}
	s.finish();
}
