//! C19 — unit conversions and clock-time arithmetic: drive the real functions, evaluate
//! the property predicates on what they return, emit cases for the model.
use crate::util::*;
use kira::clock::{ClockSpeed, ClockTime};
use kira::info::MockInfoBuilder;
use kira::{Decibels, Easing, Frame, Mapping, Panning, PlaybackRate, Semitones, Tweenable};

fn special64() -> Vec<f64> {
	vec![
		0.0, -0.0, 1.0, -1.0, 0.5, -0.5, 0.25, 0.75, 2.0, 3.0, 60.0, 1.0 - f64::EPSILON / 2.0, 1.0 + f64::EPSILON,
		f64::EPSILON, f64::MIN_POSITIVE, 5e-324, 1e-300, 1e300, f64::MAX, -f64::MAX, 9007199254740992.0, 9007199254740991.0,
		4503599627370496.5, 1e19, 1.8446744073709552e19, 0.1, 0.2, 0.3, 1.0 / 3.0, 12.0, 120.0, 0.9999999999999999,
	]
}
pub fn gen_f64(r: &mut Rng) -> f64 {
	match r.below(10) {
		0 | 1 => *r.pick(&special64()),
		2 => f64::from_bits(r.next()),
		3 => r.dyadic_unit(10) * (1u64 << r.below(12)) as f64,
		4 => -(r.dyadic_unit(10) * (1u64 << r.below(12)) as f64),
		5 => r.unit_f64(),
		6 => r.unit_f64() * 1000.0,
		7 => -r.unit_f64() * 1000.0,
		8 => (r.below(1 << 20) as f64) + r.unit_f64(),
		_ => {
			let e = r.range(-60, 70);
			(r.unit_f64() + 0.5) * (2.0f64).powi(e as i32) * if r.chance(1, 4) { -1.0 } else { 1.0 }
		}
	}
}
fn gen_finite(r: &mut Rng) -> f64 {
	loop {
		let x = gen_f64(r);
		if x.is_finite() {
			return x;
		}
	}
}
fn gen_fraction(r: &mut Rng) -> f64 {
	match r.below(8) {
		0 => 0.0,
		1 => 1.0 - f64::EPSILON / 2.0,
		2 => f64::EPSILON,
		3 => 5e-324,
		4 => r.dyadic_unit(8),
		5 => 0.5,
		_ => r.unit_f64(),
	}
}
fn gen_ticks(r: &mut Rng) -> u64 {
	match r.below(8) {
		0 => 0,
		1 => 1,
		2 => (1u64 << 53) - r.below(3),
		3 => r.below(1 << 53),
		4 => u64::MAX - r.below(3),
		_ => r.below(1000),
	}
}
fn special32() -> Vec<f32> {
	vec![
		0.0, -0.0, 1.0, -1.0, 0.5, -0.5, -60.0, -59.999996, -60.000004, -100.0, 3.0, 6.0, -6.0, 20.0, -20.0, 40.0, 770.0, 771.0,
		f32::MAX, -f32::MAX, f32::MIN_POSITIVE, 1e-45, -1e-45, f32::INFINITY, f32::NEG_INFINITY, f32::NAN, 0.99999994, 1.0000001,
		-0.99999994, 2.0, -2.0, 0.70710677,
	]
}
fn gen_f32(r: &mut Rng) -> f32 {
	match r.below(8) {
		0 | 1 => *r.pick(&special32()),
		2 => f32::from_bits(r.next() as u32),
		3 => (r.unit_f64() * 2.0 - 1.0) as f32,
		4 => (r.unit_f64() * 120.0 - 80.0) as f32,
		5 => (r.dyadic_unit(8) * 2.0 - 1.0) as f32,
		_ => ((r.unit_f64() - 0.5) * 200.0) as f32,
	}
}

fn ulp(x: f64) -> f64 {
	let x = x.abs().max(f64::MIN_POSITIVE);
	let b = x.to_bits();
	f64::from_bits(b + 1) - x
}

fn ct_obs(c: ClockTime) -> Vec<i128> {
	vec![c.ticks as i128, obs64(c.fraction)]
}

fn easing_code(e: Easing) -> (i128, i128) {
	match e {
		Easing::Linear => (0, 0),
		Easing::InPowi(p) => (1, p as i128),
		Easing::OutPowi(p) => (2, p as i128),
		Easing::InOutPowi(p) => (3, p as i128),
		Easing::InPowf(p) => (4, obs64(p)),
		Easing::OutPowf(p) => (5, obs64(p)),
		Easing::InOutPowf(p) => (6, obs64(p)),
	}
}
/// the libm calls the model will make for `ease(e, x)`: (x, p, x.powf(p)) triples
fn easing_oracle(e: Easing, x: f64) -> Vec<(f64, f64, f64)> {
	match e {
		Easing::InPowf(p) => vec![(x, p, x.powf(p))],
		Easing::OutPowf(p) => vec![(1.0 - x, p, (1.0 - x).powf(p))],
		Easing::InOutPowf(p) => {
			let x2 = x * 2.0;
			if x2 < 1.0 {
				vec![(x2, p, x2.powf(p))]
			} else {
				let y = 2.0 - x2;
				vec![(y, p, y.powf(p))]
			}
		}
		_ => vec![],
	}
}
fn tab64(t: &[(f64, f64, f64)]) -> String {
	format!("[{}]", t.iter().map(|(a, b, c)| format!("({}, {}, {})", f64_bits_z(*a), f64_bits_z(*b), f64_bits_z(*c))).collect::<Vec<_>>().join("; "))
}
fn gen_easing(r: &mut Rng, boundary: bool) -> Easing {
	let pi = if boundary { r.range(-3, 8) as i32 } else { r.range(1, 8) as i32 };
	let pf = if boundary {
		*r.pick(&[0.0, -1.0, 0.5, 1.0, 2.0, 1e-3, 50.0])
	} else {
		*r.pick(&[0.25, 0.5, 1.0, 1.5, 2.0, 3.0, 7.5, 0.1])
	};
	match r.below(7) {
		0 => Easing::Linear,
		1 => Easing::InPowi(pi),
		2 => Easing::OutPowi(pi),
		3 => Easing::InOutPowi(pi),
		4 => Easing::InPowf(pf),
		5 => Easing::OutPowf(pf),
		_ => Easing::InOutPowf(pf),
	}
}
fn apply_easing(e: Easing, x: f64) -> f64 {
	// Easing::apply is crate-private; Mapping::map over the identity ranges exposes it exactly:
	// amount = (x - 0)/(1 - 0) = x, clamp (x in [0,1]), ease, 0 + (1 - 0) * e = e.
	Mapping { input_range: (0.0, 1.0), output_range: (0.0f64, 1.0f64), easing: e }.map(x)
}

pub fn run(args: &Args) {
	let mut rng = Rng::new(args.seed ^ 0xC19);
	let n: u64 = (if args.thorough { 20_000 } else { 1_200 }) * args.budget_mul;
	let mut s = Session::new(
		"C19",
		&args.out,
		"From Coq Require Import ZArith List. Import ListNotations. Open Scope Z_scope.\nFrom KV Require Import Base.Corr C19.Run.",
		"run",
		400,
		"one case = one call of a public unit/clock-time function on generated arguments (special values, random bit patterns, dyadics, near-boundary fractions); distinct = distinct (function, argument bits); non-trivial = arguments are not all zero",
	);
	let mut info = MockInfoBuilder::new();
	let cid = info.add_clock(true, 0, 0.0);

	// ---------- clock time ----------
	for i in 0..n {
		let tk = gen_ticks(&mut rng);
		let fr = gen_fraction(&mut rng);
		let boundary = i % 5 == 4;
		let mut t = if boundary { gen_f64(&mut rng) } else { gen_finite(&mut rng).abs() % 1.0e6 };
		if !boundary && rng.chance(1, 3) {
			t = (t * 256.0).round() / 256.0;
		}
		let c = ClockTime { clock: cid, ticks: tk, fraction: fr };
		let key = |k: &str| Some(format!("{k}:{tk}:{}:{}", fr.to_bits(), t.to_bits()));
		// Add<f64>
		let o = catch(|| ct_obs(c + t));
		s.case("ct_add_f64", format!("CAddF {} {} {}", tk, f64_bits_z(fr), f64_bits_z(t)), &encode_outcome(&o), key("a"));
		if let Outcome::Ok(_) = o {
			let c1 = c + t;
			if t.is_finite() {
				if !(c1.fraction >= 0.0 && c1.fraction < 1.0) {
					s.fail(format!("ClockTime({tk},{fr:?}) + {t:?}"), format!("fraction {:?} outside [0,1)", c1.fraction), None);
				}
				// add then subtract returns the original time to rounding
				if t >= 0.0 && tk < (1u64 << 53) && t < 1e15 {
					if let Outcome::Ok(c2) = catch(|| c1 - t) {
						let d = (c2.ticks as i128 - tk as i128) as f64 + (c2.fraction - fr);
						let tol = 4.0 * ulp(t.max(1.0));
						if !(d.abs() <= tol) {
							s.fail(format!("(ClockTime({tk},{fr:?}) + {t:?}) - {t:?}"), format!("returned ({}, {:?}): off by {d:e} > {tol:e}", c2.ticks, c2.fraction), None);
						}
						s.eval_only("ct_roundtrip");
					}
				}
			}
		}
		// Sub<f64>
		let o = catch(|| ct_obs(c - t));
		s.case("ct_sub_f64", format!("CSubF {} {} {}", tk, f64_bits_z(fr), f64_bits_z(t)), &encode_outcome(&o), key("s"));
		if let Outcome::Ok(_) = o {
			let c1 = c - t;
			if t.is_finite() {
				if !(c1.fraction >= 0.0 && c1.fraction < 1.0) {
					s.fail(format!("ClockTime({tk},{fr:?}) - {t:?}"), format!("fraction {:?} outside [0,1)", c1.fraction), None);
				}
				if t >= 0.0 {
					// never wraps below zero / never ends up later than it started (to rounding)
					let d = (c1.ticks as i128 - tk as i128) as f64 + (c1.fraction - fr);
					if d > 4.0 * f64::EPSILON {
						s.fail(
							format!("ClockTime({tk},{fr:?}) - {t:?}"),
							format!("result ({}, {:?}) is later than the original time", c1.ticks, c1.fraction),
							None,
						);
					}
					// exact difference to rounding when the amount does not exceed the time
					if tk < (1u64 << 52) && t <= tk as f64 {
						let e = (c1.ticks as f64 - (tk as f64 - t.trunc())) + (c1.fraction - (fr - t.fract()));
						let tol = 4.0 * ulp(t.max(1.0));
						if !(e.abs() <= tol) {
							s.fail(format!("ClockTime({tk},{fr:?}) - {t:?}"), format!("result ({}, {:?}) is off by {e:e} > {tol:e}", c1.ticks, c1.fraction), None);
						}
					}
				}
			}
		}
		// u64 ops
		let k = match rng.below(4) {
			0 => 0,
			1 => rng.below(10),
			2 => tk,
			_ => gen_ticks(&mut rng),
		};
		let o = catch(|| ct_obs(c + k));
		s.case("ct_add_u64", format!("CAddU {} {} {}", tk, f64_bits_z(fr), k), &encode_outcome(&o), key("au"));
		let o = catch(|| ct_obs(c - k));
		s.case("ct_sub_u64", format!("CSubU {} {} {}", tk, f64_bits_z(fr), k), &encode_outcome(&o), key("su"));
		// from_ticks_f64
		let x = gen_f64(&mut rng);
		let c3 = ClockTime::from_ticks_f64(cid, x);
		s.case("ct_from_ticks", format!("CFromTicks {}", f64_bits_z(x)), &ct_obs(c3), Some(format!("ft:{}", x.to_bits())));
		if x.is_finite() && x >= 0.0 && !(c3.fraction >= 0.0 && c3.fraction < 1.0) {
			s.fail(format!("from_ticks_f64({x:?})"), format!("fraction {:?} outside [0,1)", c3.fraction), None);
		}
		// partial_cmp
		let (tk2, fr2) = match rng.below(4) {
			0 => (tk, fr),
			1 => (tk, gen_fraction(&mut rng)),
			2 => (tk.wrapping_add(1), gen_fraction(&mut rng)),
			_ => (gen_ticks(&mut rng), gen_fraction(&mut rng)),
		};
		let c2 = ClockTime { clock: cid, ticks: tk2, fraction: fr2 };
		let got = c.partial_cmp(&c2);
		let code = match got {
			Some(std::cmp::Ordering::Less) => 0,
			Some(std::cmp::Ordering::Equal) => 1,
			Some(std::cmp::Ordering::Greater) => 2,
			None => 3,
		};
		s.case("ct_cmp", format!("CCmp {} {} {} {}", tk, f64_bits_z(fr), tk2, f64_bits_z(fr2)), &[code], Some(format!("cmp:{tk}:{}:{tk2}:{}", fr.to_bits(), fr2.to_bits())));
		// ordering agrees with ticks + fraction, computed exactly in integers (fraction < 1 => scaled by 2^1074 would be exact; compare lexicographically on (ticks, fraction) only after checking fraction range)
		let exact = (tk as u128, fr).partial_cmp(&(tk2 as u128, fr2));
		if got != exact {
			s.fail(format!("({tk},{fr:?}) cmp ({tk2},{fr2:?})"), format!("partial_cmp = {:?}, ticks+fraction order = {:?}", got, exact), None);
		}
	}

	// ---------- clock speed ----------
	for _ in 0..n / 2 {
		let kind = rng.below(3);
		let x = if rng.chance(1, 6) { gen_f64(&mut rng) } else { gen_finite(&mut rng).abs().max(1e-6).min(1e9) };
		let sp = match kind {
			0 => ClockSpeed::SecondsPerTick(x),
			1 => ClockSpeed::TicksPerSecond(x),
			_ => ClockSpeed::TicksPerMinute(x),
		};
		let (a, b, c) = (sp.as_seconds_per_tick(), sp.as_ticks_per_second(), sp.as_ticks_per_minute());
		s.case("clock_speed", format!("CSpeed {} {}", kind, f64_bits_z(x)), &[obs64(a), obs64(b), obs64(c)], Some(format!("sp:{kind}:{}", x.to_bits())));
		if x.is_finite() && x > 1e-6 && x < 1e9 {
			// the three units convert consistently: tps = 1/spt, tpm = 60 tps (to rounding)
			let ok = ((a * b) - 1.0).abs() <= 4.0 * f64::EPSILON && ((c / b) - 60.0).abs() <= 60.0 * 4.0 * f64::EPSILON;
			if !ok {
				s.fail(format!("{sp:?}"), format!("inconsistent conversions spt={a:?} tps={b:?} tpm={c:?}"), None);
			}
			// identity on the diagonal
			let d = match kind {
				0 => a,
				1 => b,
				_ => c,
			};
			if d.to_bits() != x.to_bits() {
				s.fail(format!("{sp:?}"), format!("own unit not returned exactly: {d:?}"), None);
			}
		}
		let kind2 = rng.below(3);
		let y = gen_finite(&mut rng).abs().max(1e-6).min(1e9);
		let sp2 = match kind2 {
			0 => ClockSpeed::SecondsPerTick(y),
			1 => ClockSpeed::TicksPerSecond(y),
			_ => ClockSpeed::TicksPerMinute(y),
		};
		let amt = if rng.chance(1, 4) { *rng.pick(&[0.0, 1.0, 0.5]) } else { rng.unit_f64() };
		let r = ClockSpeed::interpolate(sp, sp2, amt);
		let (rk, rv) = match r {
			ClockSpeed::SecondsPerTick(v) => (0, v),
			ClockSpeed::TicksPerSecond(v) => (1, v),
			ClockSpeed::TicksPerMinute(v) => (2, v),
		};
		s.case(
			"clock_speed_interpolate",
			format!("CSpeedLerp {} {} {} {} {}", kind, f64_bits_z(x), kind2, f64_bits_z(y), f64_bits_z(amt)),
			&[rk, obs64(rv)],
			Some(format!("spl:{kind}:{}:{kind2}:{}:{}", x.to_bits(), y.to_bits(), amt.to_bits())),
		);
	}

	// ---------- witnesses of the `_refuted` theorems, replayed on the implementation ----------
	{
		let y0 = apply_easing(Easing::InPowi(0), 0.0);
		if y0 != 0.0 {
			s.fail("Easing::InPowi(0) at 0".into(), format!("maps 0 to {y0:?}"), Some("easing_power_nonpositive"));
		}
		let y1 = apply_easing(Easing::InPowi(-1), 0.5);
		if !(0.0..=1.0).contains(&y1) {
			s.fail("Easing::InPowi(-1) at 0.5".into(), format!("value {y1:?} outside [0, 1]"), Some("easing_power_nonpositive"));
		}
		let m = Mapping { input_range: (2.0, 2.0), output_range: (0.0f64, 1.0f64), easing: Easing::Linear };
		let v = m.map(2.0);
		if !v.is_finite() {
			s.fail("Mapping { input_range: (2.0, 2.0), output_range: (0.0, 1.0), Linear }.map(2.0)".into(), format!("{v:?}: not finite for finite arguments (0/0)"), Some("mapping_zero_width_input_range"));
		}
	}
	// ---------- easing and mapping ----------
	for i in 0..n {
		let boundary = i % 6 == 5;
		let e = gen_easing(&mut rng, boundary);
		let (ek, ep) = easing_code(e);
		let mut xs: Vec<f64> = vec![0.0, 1.0, 0.5];
		for _ in 0..5 {
			xs.push(if rng.chance(1, 3) { rng.dyadic_unit(6) } else { rng.unit_f64() });
		}
		xs.sort_by(|a, b| a.partial_cmp(b).unwrap());
		let mut prev: Option<(f64, f64)> = None;
		for &x in &xs {
			let y = apply_easing(e, x);
			let tab = easing_oracle(e, x);
			s.case("easing", format!("CEase {} {} {} {}", ek, z(ep), f64_bits_z(x), tab64(&tab)), &[obs64(y)], Some(format!("e:{ek}:{ep}:{}", x.to_bits())));
			// the laws are monitored on EVERY easing; a power <= 0 is the listed class F36 (and only that)
			let nonpos = match e {
				Easing::InPowi(p) | Easing::OutPowi(p) | Easing::InOutPowi(p) => p <= 0,
				Easing::InPowf(p) | Easing::OutPowf(p) | Easing::InOutPowf(p) => p <= 0.0,
				_ => false,
			};
			let class = if nonpos { Some("easing_power_nonpositive") } else { None };
			{
				if x == 0.0 && y != 0.0 {
					s.fail(format!("{e:?} at 0"), format!("maps 0 to {y:?}"), class);
				}
				if x == 1.0 && y != 1.0 {
					s.fail(format!("{e:?} at 1"), format!("maps 1 to {y:?}"), class);
				}
				if !(0.0..=1.0).contains(&y) {
					s.fail(format!("{e:?} at {x:?}"), format!("value {y:?} outside [0, 1]"), class);
				}
				if let Some((px, py)) = prev {
					// monotone on [0,1] (to rounding of the libm / multiplication chain)
					if y < py - 4.0 * f64::EPSILON {
						s.fail(format!("{e:?} at {px:?} < {x:?}"), format!("not monotone: {py:?} > {y:?}"), class);
					}
				}
				prev = Some((x, y));
			}
		}
		// Mapping::map clamps its input to the input range
		let (lo, hi) = if boundary && rng.chance(1, 2) { (gen_finite(&mut rng), gen_finite(&mut rng)) } else {
			let a = (rng.unit_f64() - 0.5) * 20.0;
			let w = rng.unit_f64() * 10.0 + 0.01;
			if rng.chance(1, 4) { (a + w, a) } else { (a, a + w) }
		};
		let (olo, ohi) = ((rng.unit_f64() - 0.5) * 100.0, (rng.unit_f64() - 0.5) * 100.0);
		let m = Mapping { input_range: (lo, hi), output_range: (olo, ohi), easing: e };
		let inputs = [lo, hi, lo - 1.0, hi + 1.0, lo + (hi - lo) * rng.unit_f64(), gen_finite(&mut rng)];
		for &input in &inputs {
			let out = catch(|| m.map(input));
			let out = match out {
				Outcome::Ok(v) => v,
				_ => {
					s.fail(format!("{m:?}.map({input:?})"), "panicked".into(), None);
					continue;
				}
			};
			let amount = ((input - lo) / (hi - lo)).clamp(0.0, 1.0);
			// (a NaN amount, from a zero-width range, goes through libm too: powf(NaN, p))
			let tab = easing_oracle(e, amount);
			s.case(
				"mapping",
				format!("CMap {} {} {} {} {} {} {} {}", f64_bits_z(lo), f64_bits_z(hi), f64_bits_z(olo), f64_bits_z(ohi), ek, z(ep), f64_bits_z(input), tab64(&tab)),
				&[obs64(out)],
				Some(format!("m:{}:{}:{}", lo.to_bits(), hi.to_bits(), input.to_bits())),
			);
			// monitored on every mapping; the listed classes: a zero-width input range (F41), an easing power <= 0 (F36)
			let nonpos = match e {
				Easing::InPowi(p) | Easing::OutPowi(p) | Easing::InOutPowi(p) => p <= 0,
				Easing::InPowf(p) | Easing::OutPowf(p) | Easing::InOutPowf(p) => p <= 0.0,
				_ => false,
			};
			let class = if lo == hi { Some("mapping_zero_width_input_range") } else if nonpos { Some("easing_power_nonpositive") } else { None };
			if (hi - lo).is_finite() {
				let (a, b) = if lo <= hi { (lo, hi) } else { (hi, lo) };
				let clamped = input.clamp(a, b);
				let out2 = m.map(clamped);
				if obs64(out2) != obs64(out) {
					s.fail(format!("{m:?}.map({input:?})"), format!("{out:?} differs from map of the clamped input {clamped:?} = {out2:?}"), class);
				}
			}
		}
	}

	// ---------- decibels, panning, mono, semitones ----------
	let mut dbs: Vec<f32> = (0..n).map(|_| gen_f32(&mut rng)).collect();
	dbs.extend(special32());
	dbs.retain(|x| !x.is_nan());
	dbs.sort_by(|a, b| a.partial_cmp(b).unwrap());
	let mut prev: Option<(f32, f32)> = None;
	for &db in &dbs {
		let a = Decibels(db).as_amplitude();
		let arg = db / 20.0;
		let tab = format!("[({}, {}, {})]", f32_bits_z(10.0), f32_bits_z(arg), f32_bits_z(10.0f32.powf(arg)));
		s.case("decibels", format!("CDb {} {}", f32_bits_z(db), tab), &[obs32(a)], Some(format!("db:{}", db.to_bits())));
		if db == 0.0 && a != 1.0 {
			s.fail(format!("Decibels({db:?})"), format!("0 dB maps to {a:?}"), None);
		}
		if db <= -60.0 && a != 0.0 {
			s.fail(format!("Decibels({db:?})"), format!("<= -60 dB maps to {a:?}"), None);
		}
		if db > -60.0 && db.is_finite() && db != 0.0 {
			let want = 10f64.powf(db as f64 / 20.0);
			if want < 3.0e38 && want > 1e-37 && ((a as f64 - want) / want).abs() > 2e-6 {
				s.fail(format!("Decibels({db:?})"), format!("amplitude {a:?} but 10^(dB/20) = {want:?}"), None);
			}
		}
		if let Some((pdb, pa)) = prev {
			if a < pa {
				s.fail(format!("Decibels({pdb:?}) vs Decibels({db:?})"), format!("not monotone: {pa:?} > {a:?}"), None);
			}
		}
		prev = Some((db, a));
	}
	{
		let a = Decibels(f32::NAN).as_amplitude();
		let tab = format!("[({}, (-1), {})]", f32_bits_z(10.0), f32_bits_z(10.0f32.powf(f32::NAN)));
		s.case("decibels", format!("CDb (-1) {}", tab), &[obs32(a)], None);
	}
	for _ in 0..n {
		let (l, r) = (gen_f32(&mut rng), gen_f32(&mut rng));
		let p = if rng.chance(1, 5) { gen_f32(&mut rng) } else { (rng.unit_f64() * 2.0 - 1.0) as f32 };
		let f = Frame::new(l, r).panned(Panning(p));
		s.case("panned", format!("CPan {} {} {}", f32_bits_z(l), f32_bits_z(r), f32_bits_z(p)), &[obs32(f.left), obs32(f.right)], Some(format!("pan:{}:{}:{}", l.to_bits(), r.to_bits(), p.to_bits())));
		let m = Frame::new(l, r).as_mono();
		s.case("as_mono", format!("CMono {} {}", f32_bits_z(l), f32_bits_z(r)), &[obs32(m.left), obs32(m.right)], Some(format!("mono:{}:{}", l.to_bits(), r.to_bits())));
		// panning keeps centre level and the total power of a centred signal
		let x = (rng.unit_f64() * 2.0 - 1.0) as f32;
		let c = Frame::new(x, x).panned(Panning(0.0));
		if c.left.to_bits() != x.to_bits() || c.right.to_bits() != x.to_bits() {
			s.fail(format!("Frame({x:?},{x:?}).panned(0)"), format!("centre changes the level: {c:?}"), None);
		}
		if p.is_finite() {
			let q = Frame::new(x, x).panned(Panning(p));
			let pw = (q.left as f64).powi(2) + (q.right as f64).powi(2);
			let want = 2.0 * (x as f64).powi(2);
			if (pw - want).abs() > 1e-5 * want.max(1e-30) {
				s.fail(format!("Frame({x:?},{x:?}).panned({p:?})"), format!("power {pw:?} != {want:?}"), None);
			}
			s.eval_only("pan_power");
		}
	}
	for _ in 0..n / 2 {
		let sm = if rng.chance(1, 6) { gen_f64(&mut rng) } else { (rng.unit_f64() - 0.5) * 96.0 };
		let r: PlaybackRate = Semitones(sm).into();
		let arg = sm / 12.0;
		let tab = format!("[({}, {}, {})]", f64_bits_z(2.0), f64_bits_z(arg), f64_bits_z(2.0f64.powf(arg)));
		s.case("semitones", format!("CSemi {} {}", f64_bits_z(sm), tab), &[obs64(r.0)], Some(format!("semi:{}", sm.to_bits())));
		if sm.is_finite() && sm.abs() < 1000.0 {
			let r2: PlaybackRate = Semitones(sm + 12.0).into();
			if ((r2.0 / r.0) - 2.0).abs() > 1e-12 {
				s.fail(format!("Semitones({sm:?})"), format!("rate(s+12)/rate(s) = {:?}", r2.0 / r.0), None);
			}
		}
	}
	// platform libm hypotheses used by db_monotone (validated here, stated as hypotheses in Coq)
	{
		let mut bad = 0u64;
		let mut prev = 0.0f32;
		let count: u32 = if args.thorough { 1 << 24 } else { 1 << 18 };
		// args of powf(10, .) range over db/20 for db in (-60, +inf): sweep ordered positive and negative floats
		let lo = (-3.0f32).to_bits();
		// negative side: from -3.0 up to -0.0 (bit patterns decreasing)
		let step = ((lo - 0x8000_0000) / count).max(1);
		let mut b = lo;
		while b >= 0x8000_0000 + step {
			let v = 10f32.powf(f32::from_bits(b));
			if !(v >= prev) || !(v >= 0.0) {
				bad += 1;
			}
			prev = v;
			b -= step;
		}
		let v0 = 10f32.powf(-0.0);
		let v1 = 10f32.powf(0.0);
		if v0 != 1.0 || v1 != 1.0 || !(v0 >= prev) {
			bad += 1;
		}
		prev = 1.0;
		let hi = f32::INFINITY.to_bits();
		let step = (hi / count).max(1);
		let mut b = 0u32;
		while b <= hi - step {
			let v = 10f32.powf(f32::from_bits(b));
			if !(v >= prev) {
				bad += 1;
			}
			prev = v;
			b += step;
		}
		s.hist.insert("libm_powf10_monotone_samples".into(), 2 * count as u64);
		if bad > 0 {
			s.fail("powf(10, x) sweep".into(), format!("{bad} violations of the oracle hypotheses (monotone, >= 0, 1 at zero)"), None);
		}
	}
	s.finish();
}
