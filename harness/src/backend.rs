//! A `Backend` that owns the `Renderer`, so the harness can run callbacks of any size and
//! channel count, change the sample rate, and observe panics — through the public API only.
#![allow(dead_code)]
use kira::backend::{Backend, Renderer};
use kira::{AudioManager, AudioManagerSettings, Capacities, Frame};
use kira::sound::static_sound::{StaticSoundData, StaticSoundSettings};
use kira::track::MainTrackBuilder;
use std::sync::Arc;

pub struct VBackend {
	pub sample_rate: u32,
	pub renderer: Option<Renderer>,
}
pub struct VSettings {
	pub sample_rate: u32,
}
impl Backend for VBackend {
	type Settings = VSettings;
	type Error = ();
	fn setup(settings: VSettings, _internal_buffer_size: usize) -> Result<(Self, u32), ()> {
		Ok((VBackend { sample_rate: settings.sample_rate, renderer: None }, settings.sample_rate))
	}
	fn start(&mut self, renderer: Renderer) -> Result<(), ()> {
		self.renderer = Some(renderer);
		Ok(())
	}
}
impl VBackend {
	pub fn r(&mut self) -> &mut Renderer {
		self.renderer.as_mut().unwrap()
	}
	/// one device callback: `on_start_processing` then `process` of `frames` frames
	pub fn callback(&mut self, frames: usize, channels: u16) -> Vec<f32> {
		let mut out = vec![f32::from_bits(0x7FC0_1234); frames * channels as usize];
		self.r().on_start_processing();
		self.r().process(&mut out, channels);
		out
	}
	pub fn callback_stereo(&mut self, frames: usize) -> Vec<Frame> {
		let v = self.callback(frames, 2);
		v.chunks(2).map(|c| Frame::new(c[0], c[1])).collect()
	}
	pub fn set_sample_rate(&mut self, sr: u32) {
		self.sample_rate = sr;
		self.r().on_change_sample_rate(sr);
	}
}

pub type Mgr = AudioManager<VBackend>;

pub fn manager(sample_rate: u32, internal_buffer_size: usize, capacities: Capacities, main: MainTrackBuilder) -> Mgr {
	AudioManager::<VBackend>::new(AudioManagerSettings {
		capacities,
		main_track_builder: main,
		internal_buffer_size,
		backend_settings: VSettings { sample_rate },
	})
	.unwrap()
}
pub fn simple_manager(sample_rate: u32, internal_buffer_size: usize) -> Mgr {
	manager(sample_rate, internal_buffer_size, Capacities::default(), MainTrackBuilder::new())
}

/// static sound whose frames are given explicitly
pub fn sound_from_frames(sample_rate: u32, frames: Vec<Frame>) -> StaticSoundData {
	StaticSoundData { sample_rate, frames: Arc::from(frames), settings: StaticSoundSettings::default(), slice: None }
}
/// index-coded sound: frame i is ((i+1) * 2^-16, -(i+1) * 2^-16 + 2^-20): exactly representable,
/// so the index that was played can be read back from the output
pub fn indexed_sound(sample_rate: u32, n: usize) -> StaticSoundData {
	sound_from_frames(sample_rate, (0..n).map(|i| indexed_frame(i)).collect())
}
pub fn indexed_frame(i: usize) -> Frame {
	let x = (i as f32 + 1.0) / 65536.0;
	Frame::new(x, -x + 1.0 / 1048576.0)
}
