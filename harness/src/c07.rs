//! C07 — handle commands reach the audio thread exactly once; last write wins; none torn.
//!
//! (a)  `kira::command::{command_writer_and_reader, CommandWriter, CommandReader}` driven
//!      single-threaded with all interleavings of whole `write`/`read` calls up to a bound and
//!      random longer ones, compared with the model under the corresponding coarse schedules;
//!      (a') the `triple_buffer` crate itself driven at the granularity fill / fill / publish /
//!      update / copy / copy, observing the dirty bit and the contents of the input and output
//!      slots after every step (this pins the slot rotation of the model);
//! (b)  handle level through a real `AudioManager<VBackend>`: for each covered command kind a
//!      probe scene in which the command's effect is observable, bursts of 0-4 writes between
//!      callbacks and before the first callback, checked against `callback_semantics`;
//! (c)  a free-running stress with two real threads;
//! (x)  the multi-kind layer (`Multi.v`) on real handles: every ordered pair / triple of distinct
//!      commands of a static sound, a streaming sound, a sub-track, and of main track + sub-track +
//!      sound together, issued in ONE interval and followed by quiet callbacks; random histories
//!      over several intervals; in ten contexts, most of them NOT advancing (sound on a paused
//!      track, on a sub-track of a paused track, paused itself, waiting for its start time, on a
//!      track waiting to resume, played on an already paused track).  Compared with the model
//!      (`CMulti`), with a Rust mirror of `multi_state_is_composition` / `playback_commands_table`,
//!      with a twin run in which each kind gets its own `on_start_processing`, and by absolute
//!      probes (relative seeks issued in different intervals add up; stop leaves Playing at the
//!      next callback; the first command of a sound played on a paused track is not lost).
use crate::util::*;
use kira::command::{command_writer_and_reader, CommandReader, CommandWriter};
use std::collections::BTreeSet;

// ------------------------------------------------------------------------------------------
// (a) coarse schedules on kira's CommandWriter / CommandReader
// ------------------------------------------------------------------------------------------
#[derive(Clone, Copy, Debug)]
enum Op {
	Write(usize, i64, i64),
	Callback,
}
fn ops_term(k: usize, ops: &[Op]) -> String {
	let body: Vec<String> = ops
		.iter()
		.map(|o| match o {
			Op::Write(c, x, y) => format!("({}, {}, {})", c, z(*x as i128), z(*y as i128)),
			Op::Callback => "((-1), 0, 0)".to_string(),
		})
		.collect();
	format!("CCoarse {} [{}]", k, body.join("; "))
}
/// runs the real writers/readers; returns the observable and evaluates the property predicate
/// (the coarse-schedule instance of `callback_semantics`): a callback applies, for each kind,
/// exactly the last value written since the previous callback, or nothing if none was written
fn run_coarse(s: &mut Session, k: usize, ops: &[Op]) -> Vec<i128> {
	let mut ws: Vec<CommandWriter<(i64, i64)>> = vec![];
	let mut rs: Vec<CommandReader<(i64, i64)>> = vec![];
	for _ in 0..k {
		let (w, r) = command_writer_and_reader();
		ws.push(w);
		rs.push(r);
	}
	let mut per_kind: Vec<Vec<i128>> = vec![vec![-1]; k];
	let mut pending: Vec<Option<(i64, i64)>> = vec![None; k];
	let mut cb = 0i128;
	for (i, o) in ops.iter().enumerate() {
		match *o {
			Op::Write(c, x, y) => {
				ws[c].write((x, y));
				pending[c] = Some((x, y));
			}
			Op::Callback => {
				cb += 1;
				for c in 0..k {
					let got = rs[c].read();
					match got {
						None => per_kind[c].extend_from_slice(&[cb, 0]),
						Some((x, y)) => per_kind[c].extend_from_slice(&[cb, 1, x as i128, y as i128]),
					}
					if got != pending[c] {
						s.fail(
							format!("{} (op #{i}, kind {c})", ops_term(k, ops)),
							format!("callback {cb} read {:?} but the last value written since the previous callback is {:?}", got, pending[c]),
							None,
						);
					}
					pending[c] = None;
				}
			}
		}
	}
	per_kind.concat()
}

fn part_a(s: &mut Session, r: &mut Rng, args: &Args) {
	// exhaustive: one kind, every sequence of 12 whole calls (prefix-closed: the observable of a
	// prefix is a prefix of the observable)
	let n1 = if args.thorough { 14 } else { 12 };
	for bits in 0u32..(1 << n1) {
		let mut seq = 0i64;
		let ops: Vec<Op> = (0..n1)
			.map(|i| {
				if bits >> i & 1 == 1 {
					seq += 1;
					Op::Write(0, seq, seq * 1000 + 7)
				} else {
					Op::Callback
				}
			})
			.collect();
		let obs = run_coarse(s, 1, &ops);
		s.case("coarse_k1_exhaustive", ops_term(1, &ops), &obs, Some(format!("a1:{bits}")));
	}
	// exhaustive: two kinds, every sequence of 7 calls over {write kind 0, write kind 1, callback}
	let n2 = if args.thorough { 9 } else { 7 };
	let total = 3u32.pow(n2);
	for code in 0..total {
		let mut x = code;
		let mut seq = 0i64;
		let ops: Vec<Op> = (0..n2)
			.map(|_| {
				let d = x % 3;
				x /= 3;
				if d < 2 {
					seq += 1;
					Op::Write(d as usize, seq, -seq)
				} else {
					Op::Callback
				}
			})
			.collect();
		let obs = run_coarse(s, 2, &ops);
		s.case("coarse_k2_exhaustive", ops_term(2, &ops), &obs, Some(format!("a2:{code}")));
	}
	// random longer ones, 1-5 kinds, bursts
	let n = (if args.thorough { 3000 } else { 400 }) * args.budget_mul;
	for i in 0..n {
		let k = r.range(1, 5) as usize;
		let len = r.range(10, 60) as usize;
		let mut ops = vec![];
		let mut seq = 0i64;
		let burst = r.range(1, 5) as u64;
		while ops.len() < len {
			if r.chance(1, 1 + burst) {
				ops.push(Op::Callback);
			} else {
				seq += 1;
				let v = if r.chance(1, 8) { (r.next() as i64, r.next() as i64) } else { (seq, r.range(-5, 5)) };
				ops.push(Op::Write(r.below(k as u64) as usize, v.0, v.1));
			}
		}
		let obs = run_coarse(s, k, &ops);
		s.case("coarse_random", ops_term(k, &ops), &obs, Some(format!("ar:{i}")));
	}
}

// ------------------------------------------------------------------------------------------
// (a') the triple_buffer crate at step granularity
// ------------------------------------------------------------------------------------------
#[derive(Clone, Copy, Debug, PartialEq)]
struct Cell {
	some: bool,
	w1: i64,
	w2: i64,
}
fn part_semi(s: &mut Session, r: &mut Rng, args: &Args) {
	let n = (if args.thorough { 4000 } else { 1500 }) * args.budget_mul;
	for i in 0..n {
		let nprog = r.range(1, 8) as usize;
		let prog: Vec<(i64, i64)> = (0..nprog).map(|j| (j as i64 + 1, r.range(-9, 9) * 100 + j as i64)).collect();
		let len = r.range(5, 50) as usize;
		let (mut input, mut output) = triple_buffer::triple_buffer(&Cell { some: false, w1: 0, w2: 0 });
		let mut wpc = 0usize; // 0 idle, 1 after fill1, 2 after fill2
		let mut next = 0usize;
		let mut rpc = 0usize; // 0 between reads, 1 swapped (copy 1 pending), 2 half copied
		let mut half = (false, 0i64);
		let mut toks = vec![];
		let mut obs: Vec<i128> = vec![];
		let mut rets: Vec<i128> = vec![-1];
		let mut reads = 0i128;
		let mut last_seq = 0i64;
		let wbias = r.range(1, 4) as u64;
		for _ in 0..len {
			let tok = if r.chance(wbias, wbias + 2) { 0 } else if rpc == 0 { 1 } else { 2 };
			toks.push(tok);
			match tok {
				0 => match wpc {
					0 => {
						if next < prog.len() {
							let b = input.input_buffer_mut();
							b.some = true;
							b.w1 = prog[next].0;
							wpc = 1;
						}
					}
					1 => {
						input.input_buffer_mut().w2 = prog[next].1;
						wpc = 2;
					}
					_ => {
						input.publish();
						next += 1;
						wpc = 0;
					}
				},
				1 => {
					reads += 1;
					if output.update() {
						rpc = 1;
					} else {
						rets.extend_from_slice(&[reads, 0]);
					}
				}
				_ => {
					if rpc == 1 {
						let c = output.peek_output_buffer();
						half = (c.some, c.w1);
						rpc = 2;
					} else {
						let w2 = output.peek_output_buffer().w2;
						rpc = 0;
						if half.0 {
							rets.extend_from_slice(&[reads, 1, half.1 as i128, w2 as i128]);
							// monitor: whole, strictly newer than anything returned before
							let whole = prog.iter().any(|p| *p == (half.1, w2));
							if !whole || half.1 <= last_seq {
								s.fail(
									format!("CSemi {:?} {:?}", prog, toks),
									format!("read #{reads} returned ({}, {w2}): {}", half.1, if !whole { "not a value that was written (torn)" } else { "not newer than an earlier read" }),
									None,
								);
							}
							last_seq = half.1;
						} else {
							rets.extend_from_slice(&[reads, 0]);
							s.fail(format!("CSemi {:?} {:?}", prog, toks), format!("read #{reads}: update() reported a new value but the slot holds None"), None);
						}
					}
				}
			}
			let dirty = output.updated();
			let ic = *input.input_buffer_mut();
			let oc = *output.peek_output_buffer();
			obs.extend_from_slice(&[dirty as i128, ic.some as i128, ic.w1 as i128, ic.w2 as i128, oc.some as i128, oc.w1 as i128, oc.w2 as i128]);
		}
		obs.extend_from_slice(&rets);
		let term = format!(
			"CSemi [{}] [{}]",
			prog.iter().map(|(a, b)| format!("({}, {})", z(*a as i128), z(*b as i128))).collect::<Vec<_>>().join("; "),
			toks.iter().map(|t| t.to_string()).collect::<Vec<_>>().join("; ")
		);
		s.case("triple_buffer_steps", term, &obs, Some(format!("s:{i}")));
	}
}

// ------------------------------------------------------------------------------------------
// (c) free-running stress: two real threads
// ------------------------------------------------------------------------------------------
fn part_stress(s: &mut Session, args: &Args) {
	let rounds = if args.thorough { 8 } else { 3 };
	let n: u64 = (if args.thorough { 1_000_000 } else { 200_000 }) * args.budget_mul;
	for round in 0..rounds {
		let (mut w, mut r) = command_writer_and_reader::<(u64, u64, u64, u64)>();
		let done = std::sync::Arc::new(std::sync::atomic::AtomicBool::new(false));
		let done2 = done.clone();
		let pace = round % 3;
		let wt = std::thread::spawn(move || {
			for i in 1..=n {
				w.write((i, !i, i.wrapping_mul(0x9E3779B97F4A7C15), i));
				if pace == 1 && i % 64 == 0 {
					std::thread::yield_now();
				}
				if pace == 2 && i % 4096 == 0 {
					std::thread::sleep(std::time::Duration::from_micros(50));
				}
			}
			done2.store(true, std::sync::atomic::Ordering::SeqCst);
		});
		let mut last = 0u64;
		let mut somes = 0u64;
		let mut reads = 0u64;
		let mut bad: Option<String> = None;
		loop {
			let quiescent = done.load(std::sync::atomic::Ordering::SeqCst);
			let got = r.read();
			reads += 1;
			if let Some((a, b, c, d)) = got {
				somes += 1;
				if b != !a || c != a.wrapping_mul(0x9E3779B97F4A7C15) || d != a {
					bad.get_or_insert(format!("torn value ({a}, {b:#x}, {c:#x}, {d})"));
				}
				if a <= last {
					bad.get_or_insert(format!("value {a} returned after {last} (twice or out of order)"));
				}
				last = a;
			}
			if quiescent {
				// this read started after the writer finished: it, or an earlier one, must have delivered n
				if last != n {
					bad.get_or_insert(format!("writer finished with {n} but the last value delivered is {last}"));
				}
				// and nothing further may arrive
				for _ in 0..3 {
					if let Some(x) = r.read() {
						bad.get_or_insert(format!("a read after delivery of the final value returned {:?} again", x));
					}
				}
				break;
			}
		}
		wt.join().unwrap();
		s.eval_only("stress_round");
		*s.hist.entry("stress_writes".into()).or_insert(0) += n;
		*s.hist.entry("stress_reads".into()).or_insert(0) += reads;
		*s.hist.entry("stress_values_delivered".into()).or_insert(0) += somes;
		if let Some(b) = bad {
			s.fail(format!("two-thread stress round {round}: {n} writes of (i, !i, i*phi, i) against a free-running reader"), b, None);
		}
	}
}

// ------------------------------------------------------------------------------------------
// the command kinds that exist in /repo (grepped at run time) vs. the ones covered in (b)
// ------------------------------------------------------------------------------------------
fn kinds_in_repo() -> BTreeSet<String> {
	let mut out = BTreeSet::new();
	fn walk(dir: &std::path::Path, f: &mut dyn FnMut(&std::path::Path)) {
		if let Ok(rd) = std::fs::read_dir(dir) {
			let mut es: Vec<_> = rd.flatten().map(|e| e.path()).collect();
			es.sort();
			for p in es {
				if p.is_dir() {
					walk(&p, f);
				} else if p.extension().map(|e| e == "rs").unwrap_or(false) {
					f(&p);
				}
			}
		}
	}
	let repo = std::env::var("KIRA_REPO").unwrap_or_else(|_| "/repo".to_string());
	let root_s = format!("{}/crates/kira/src", repo);
	let root = std::path::Path::new(&root_s);
	walk(root, &mut |p| {
		let Ok(src) = std::fs::read_to_string(p) else { return };
		let rel = p.strip_prefix(root).unwrap().with_extension("").to_string_lossy().replace('/', "::");
		if rel == "command" {
			return; // the macro definition and its doc example
		}
		// command_writers_and_readers! { name: Type, ... }  (either bracket style)
		let mut rest = src.as_str();
		while let Some(i) = rest.find("command_writers_and_readers!") {
			rest = &rest[i + "command_writers_and_readers!".len()..];
			let open = rest.find(|c| c == '{' || c == '(').unwrap_or(0);
			let close_ch = if rest[open..].starts_with('{') { '}' } else { ')' };
			// fields end at the first closing bracket at depth 0
			let mut depth = 0i32;
			let mut end = rest.len();
			for (j, ch) in rest[open..].char_indices() {
				match ch {
					'{' | '(' | '<' => depth += 1,
					'}' | ')' | '>' => {
						depth -= 1;
						if depth == 0 && ch == close_ch {
							end = open + j;
							break;
						}
					}
					_ => {}
				}
			}
			let body = &rest[open + 1..end];
			// split at top-level commas
			let mut depth = 0i32;
			let mut cur = String::new();
			let mut fields = vec![];
			for ch in body.chars() {
				match ch {
					'(' | '<' | '{' => {
						depth += 1;
						cur.push(ch)
					}
					')' | '>' | '}' => {
						depth -= 1;
						cur.push(ch)
					}
					',' if depth == 0 => {
						fields.push(std::mem::take(&mut cur));
					}
					_ => cur.push(ch),
				}
			}
			fields.push(cur);
			for f in fields {
				if let Some((name, _)) = f.split_once(':') {
					let name = name.trim();
					if !name.is_empty() && name.chars().all(|c| c.is_alphanumeric() || c == '_') {
						out.insert(format!("{rel}::{name}"));
					}
				}
			}
			rest = &rest[end.min(rest.len())..];
		}
		// hand-written pairs:  let (x_writer, x_reader) = command_writer_and_reader();
		for line in src.lines() {
			let l = line.trim();
			if l.starts_with("let (") && l.contains("command_writer_and_reader()") {
				if let Some(name) = l.strip_prefix("let (").and_then(|x| x.split(',').next()) {
					let name = name.trim().trim_end_matches("_writer").trim_end_matches("_command");
					out.insert(format!("{rel}::{name}"));
				}
			}
		}
		// pairs whose `let` is split over two lines (track builders)
		let flat: String = src.split_whitespace().collect::<Vec<_>>().join(" ");
		let mut rest = flat.as_str();
		while let Some(i) = rest.find("_writer, ") {
			let head = &rest[..i];
			let tail = &rest[i..];
			if let Some(j) = tail.find(") = command_writer_and_reader();") {
				if j < 80 {
					if let Some(st) = head.rfind("let (") {
						let name = head[st + 5..].trim().trim_end_matches("_command");
						if name.chars().all(|c| c.is_alphanumeric() || c == '_') && !name.is_empty() {
							out.insert(format!("{rel}::{name}"));
						}
					}
				}
			}
			rest = &rest[i + 9..];
		}
	});
	out
}

pub fn run(args: &Args) {
	let mut r = Rng::new(args.seed ^ 0xC07);
	let mut s = Session::new(
		"C07",
		&args.out,
		"From Coq Require Import ZArith List.\nFrom KV Require Import Base.Corr C07.Run.\nImport ListNotations.\nLocal Open Scope Z_scope.",
		"run",
		400,
		"distinct schedules (coarse call sequences, triple_buffer step sequences) and handle-level (kind, burst pattern) scenes in which at least one command is applied",
	);
	// (w) runs first on every run: its directed scenarios do not depend on args.seed
	let mut covered_w = BTreeSet::new();
	let t_w = std::time::Instant::now();
	part_w(&mut s, args, &mut covered_w);
	s.notes.push(format!("(w) commands to waiting sounds / to effects in a delay's feedback loop: directed + seeded took {} ms", t_w.elapsed().as_millis()));
	// the fixed corpus of (m) runs first on every run
	let mut covered_m = BTreeSet::new();
	let t_m = std::time::Instant::now();
	part_m(&mut s, args, &mut covered_m);
	s.notes.push(format!("(m) mid-callback writes: fixed corpus + seeded scripts took {} ms", t_m.elapsed().as_millis()));
	part_a(&mut s, &mut r, args);
	part_semi(&mut s, &mut r, args);
	let mut covered = crate::c07::part_b(&mut s, &mut r, args);
	covered.extend(covered_m);
	covered.extend(covered_w);
	part_x(&mut s, &mut r, args);
	part_d(&mut s, args);
	part_stress(&mut s, args);
	let in_repo = kinds_in_repo();
	let uncovered: Vec<String> = in_repo.iter().filter(|k| !covered.contains(*k)).cloned().collect();
	let unknown: Vec<String> = covered.iter().filter(|k| !in_repo.contains(*k)).cloned().collect();
	s.notes.push(format!("command kinds found in /repo at run time: {}", in_repo.len()));
	s.notes.push(format!("covered at handle level ({}): {}", covered.len(), covered.iter().cloned().collect::<Vec<_>>().join(", ")));
	s.notes.push(format!("NOT covered at handle level ({}): {}", uncovered.len(), uncovered.join(", ")));
	if !unknown.is_empty() {
		s.notes.push(format!("covered kinds no longer found by the grep (renamed?): {}", unknown.join(", ")));
	}
	s.notes.push("multi-kind layer (x): contexts MainFresh, Main, SelfPaused, SubFresh, Sub, SubPaused, ParentPaused, WaitStart, SubWaiting, PlayedOnPaused; static and streaming sounds, sub-track, main track; monitors X-model / X-mirror / X-twin / X-abs (see histogram x_*)".to_string());
	*s.hist.entry("kinds_in_repo".into()).or_insert(0) += in_repo.len() as u64;
	*s.hist.entry("kinds_covered_handle_level".into()).or_insert(0) += covered.iter().filter(|k| in_repo.contains(*k)).count() as u64;
	s.finish();
}

// ------------------------------------------------------------------------------------------
// (b) handle level
// ------------------------------------------------------------------------------------------
// A scene is a real AudioManager<VBackend> with one or more resources and the handles of their
// command kinds.  `issue(kind, id)` performs the handle call of that kind with a value derived
// from `id`; `callback()` runs one device callback and returns everything observable (output
// sample bits, handle states, positions, clock times).
//
// Monitors, for every (scene, pattern of bursts):
//   M1  the run with bursts is observably IDENTICAL, callback by callback, to the twin run in
//       which, in every interval, only the last command of each kind is issued (exactly once,
//       last write wins, none applied late or twice, kinds independent);
//   M2  against the run with no commands at all, the first observable difference is in the
//       callback that immediately follows the first command (takes effect at the start of the
//       next callback; a command issued before the resource's first callback is not lost);
//   sensitivity (counted, not a failure): the twin that issues the FIRST command of each burst
//   instead of the last, and the twin that issues every command one interval late, differ.
use crate::backend::*;
use glam::{Quat, Vec3};
use kira::clock::{ClockHandle, ClockSpeed};
use kira::effect::compressor::{CompressorBuilder, CompressorHandle};
use kira::effect::delay::{DelayBuilder, DelayHandle};
use kira::effect::distortion::{DistortionBuilder, DistortionHandle, DistortionKind};
use kira::effect::eq_filter::{EqFilterBuilder, EqFilterHandle, EqFilterKind};
use kira::effect::filter::{FilterBuilder, FilterHandle, FilterMode};
use kira::effect::panning_control::{PanningControlBuilder, PanningControlHandle};
use kira::effect::reverb::{ReverbBuilder, ReverbHandle};
use kira::effect::volume_control::{VolumeControlBuilder, VolumeControlHandle};
use kira::listener::ListenerHandle;
use kira::modulator::lfo::{LfoBuilder, LfoHandle, Waveform};
use kira::modulator::tweener::{TweenerBuilder, TweenerHandle};
use kira::sound::static_sound::StaticSoundHandle;
use kira::sound::PlaybackState;
use kira::track::{MainTrackBuilder, SendTrackBuilder, SendTrackHandle, SpatialTrackBuilder, SpatialTrackHandle, TrackBuilder, TrackHandle, TrackPlaybackState};
use kira::{Capacities, Decibels, Easing, Frame, Mapping, Mix, Panning, PlaybackRate, StartTime, Tween, Value};
use std::time::Duration;

const SR: u32 = 1000;
const IBS: usize = 4;
const CB_FRAMES: usize = 12;

trait Scene {
	fn kinds(&self) -> Vec<&'static str>;
	fn issue(&mut self, kind: usize, id: i64);
	fn mgr(&mut self) -> &mut Mgr;
	fn extra(&mut self) -> Vec<i128> {
		vec![]
	}
	/// called before the commands of an interval are issued
	fn settle(&mut self) {}
	/// kinds whose handle method ALSO changes what the handle itself reports, at once and on the caller's
	/// side (a documented courtesy, not an effect on the audio thread): `ClockHandle::stop` stores
	/// time 0 in the shared cell so that a `time()` right after `stop()` does not report the old time
	fn handle_side_preview(&self, _kind: usize) -> bool {
		false
	}
	/// called after the last callback of the pattern: observables that need more audio time
	fn finish(&mut self) -> Vec<i128> {
		vec![]
	}
	fn callback(&mut self) -> Vec<i128> {
		let out = self.mgr().backend_mut().callback(CB_FRAMES, 2);
		let mut v: Vec<i128> = out.iter().map(|x| obs32(*x)).collect();
		v.extend(self.extra());
		v
	}
}

fn u(id: i64) -> f64 {
	((id % 29) + 1) as f64 / 32.0
}
fn tw(id: i64) -> Tween {
	Tween { start_time: StartTime::Immediate, duration: Duration::from_millis(((id % 4) * 7) as u64), easing: Easing::Linear }
}
fn noise_sound(n: usize) -> kira::sound::static_sound::StaticSoundData {
	let mut x = 0x2545F491u32;
	let frames: Vec<Frame> = (0..n)
		.map(|_| {
			x ^= x << 13;
			x ^= x >> 17;
			x ^= x << 5;
			let a = ((x & 0xFFFF) as f32 / 65536.0 - 0.5) * 0.8;
			let b = (((x >> 16) & 0xFFFF) as f32 / 65536.0 - 0.5) * 0.8;
			Frame::new(a, b)
		})
		.collect();
	sound_from_frames(SR, frames)
}
fn pstate(s: PlaybackState) -> i128 {
	match s {
		PlaybackState::Playing => 0,
		PlaybackState::Pausing => 1,
		PlaybackState::Paused => 2,
		PlaybackState::WaitingToResume => 3,
		PlaybackState::Resuming => 4,
		PlaybackState::Stopping => 5,
		PlaybackState::Stopped => 6,
	}
}
fn tstate(s: TrackPlaybackState) -> i128 {
	match s {
		TrackPlaybackState::Playing => 0,
		TrackPlaybackState::Pausing => 1,
		TrackPlaybackState::Paused => 2,
		TrackPlaybackState::WaitingToResume => 3,
		TrackPlaybackState::Resuming => 4,
	}
}

// ---- static sound -------------------------------------------------------------------------
struct StaticSc {
	mgr: Mgr,
	h: StaticSoundHandle,
}
impl StaticSc {
	fn new(variant: u64) -> Self {
		let mut mgr = simple_manager(SR, IBS);
		let mut h = mgr.play(indexed_sound(SR, 60000)).unwrap();
		if variant == 1 {
			// a paused sound, so that `resume` is observable; the warm-up is not part of the pattern
			h.pause(Tween { duration: Duration::ZERO, ..Default::default() });
			for _ in 0..2 {
				mgr.backend_mut().callback(CB_FRAMES, 2);
			}
		}
		StaticSc { mgr, h }
	}
}
impl Scene for StaticSc {
	fn kinds(&self) -> Vec<&'static str> {
		vec![
			"sound::static_sound::set_volume",
			"sound::static_sound::set_playback_rate",
			"sound::static_sound::set_panning",
			"sound::static_sound::set_loop_region",
			"sound::static_sound::pause",
			"sound::static_sound::resume",
			"sound::static_sound::stop",
			"sound::static_sound::seek_by",
			"sound::static_sound::seek_to",
		]
	}
	fn issue(&mut self, kind: usize, id: i64) {
		match kind {
			0 => self.h.set_volume(Decibels(-(u(id) * 24.0) as f32), tw(id)),
			1 => self.h.set_playback_rate(PlaybackRate(0.5 + u(id) * 3.0), tw(id)),
			2 => self.h.set_panning(Panning((u(id) * 2.0 - 1.0) as f32), tw(id)),
			3 => {
				let st = 0.02 + u(id) * 0.05;
				self.h.set_loop_region(st..(st + 0.02 + u(id) * 0.02))
			}
			4 => self.h.pause(tw(id + 1)),
			5 => self.h.resume(tw(id + 1)),
			6 => self.h.stop(tw(id + 1)),
			7 => self.h.seek_by(u(id) * 4.0),
			_ => self.h.seek_to(u(id) * 40.0),
		}
	}
	fn mgr(&mut self) -> &mut Mgr {
		&mut self.mgr
	}
	fn extra(&mut self) -> Vec<i128> {
		vec![pstate(self.h.state()), obs64(self.h.position())]
	}
}

// ---- two static sounds: commands to different resources --------------------------------------
struct TwoSoundsSc {
	mgr: Mgr,
	a: StaticSoundHandle,
	b: StaticSoundHandle,
}
impl TwoSoundsSc {
	fn new(_variant: u64) -> Self {
		let mut mgr = simple_manager(SR, IBS);
		let a = mgr.play(indexed_sound(SR, 30000)).unwrap();
		let b = mgr.play(noise_sound(30000)).unwrap();
		TwoSoundsSc { mgr, a, b }
	}
}
impl Scene for TwoSoundsSc {
	fn kinds(&self) -> Vec<&'static str> {
		vec!["sound::static_sound::set_volume", "sound::static_sound::seek_by", "sound::static_sound::set_volume", "sound::static_sound::seek_by"]
	}
	fn issue(&mut self, kind: usize, id: i64) {
		match kind {
			0 => self.a.set_volume(Decibels(-(u(id) * 24.0) as f32), tw(id)),
			1 => self.a.seek_by(u(id) * 4.0),
			2 => self.b.set_volume(Decibels(-(u(id) * 24.0) as f32), tw(id)),
			_ => self.b.seek_by(u(id) * 4.0),
		}
	}
	fn mgr(&mut self) -> &mut Mgr {
		&mut self.mgr
	}
	fn extra(&mut self) -> Vec<i128> {
		vec![obs64(self.a.position()), obs64(self.b.position())]
	}
}

// ---- tracks: sub track, main track, send track, send route, spatial track, listener -----------
struct TrackSc {
	mgr: Mgr,
	sub: TrackHandle,
	send: SendTrackHandle,
	spatial: SpatialTrackHandle,
	listener: ListenerHandle,
	_sounds: Vec<StaticSoundHandle>,
}
impl TrackSc {
	fn new(variant: u64) -> Self {
		let mut mgr = simple_manager(SR, IBS);
		let send = mgr.add_send_track(SendTrackBuilder::new()).unwrap();
		let mut sub = mgr.add_sub_track(TrackBuilder::new().with_send(send.id(), Decibels(-6.0))).unwrap();
		let listener = mgr.add_listener(Vec3::new(0.0, 0.0, 0.0), Quat::IDENTITY).unwrap();
		let mut spatial = mgr
			.add_spatial_sub_track(listener.id(), Vec3::new(3.0, 0.0, -2.0), SpatialTrackBuilder::new().distances((1.0, 50.0)).spatialization_strength(0.8))
			.unwrap();
		let s1 = sub.play(noise_sound(30000)).unwrap();
		let s2 = spatial.play(indexed_sound(SR, 30000)).unwrap();
		if variant == 1 {
			sub.pause(Tween { duration: Duration::ZERO, ..Default::default() });
			for _ in 0..2 {
				mgr.backend_mut().callback(CB_FRAMES, 2);
			}
		}
		TrackSc { mgr, sub, send, spatial, listener, _sounds: vec![s1, s2] }
	}
}
impl Scene for TrackSc {
	fn kinds(&self) -> Vec<&'static str> {
		vec![
			"track::sub::set_volume",
			"track::sub::pause",
			"track::sub::resume",
			"track::main::builder::set_volume",
			"track::send::builder::set_volume",
			"track::sub::builder::set_volume",
			"track::sub::set_position",
			"track::sub::set_spatialization_strength",
			"listener::set_position",
			"listener::set_orientation",
			"track::sub::spatial_builder::set_volume",
		]
	}
	fn issue(&mut self, kind: usize, id: i64) {
		let db = Decibels(-(u(id) * 24.0) as f32);
		match kind {
			0 => self.sub.set_volume(db, tw(id)),
			1 => self.sub.pause(tw(id + 1)),
			2 => self.sub.resume(tw(id + 1)),
			3 => self.mgr.main_track().set_volume(db, tw(id)),
			4 => self.send.set_volume(db, tw(id)),
			5 => self.sub.set_send(self.send.id(), db, tw(id)).unwrap(),
			6 => self.spatial.set_position(Vec3::new((u(id) * 20.0 - 10.0) as f32, 1.0, (u(id) * 7.0 - 9.0) as f32), tw(id)),
			7 => self.spatial.set_spatialization_strength(u(id) as f32, tw(id)),
			8 => self.listener.set_position(Vec3::new((u(id) * 10.0 - 5.0) as f32, 0.5, (u(id) * 3.0) as f32), tw(id)),
			9 => self.listener.set_orientation(Quat::from_rotation_y((u(id) * 3.0) as f32), tw(id)),
			_ => {
				// a spatial track has no send route here; its own volume command (same kind list as track::sub)
				self.spatial.set_volume(db, tw(id))
			}
		}
	}
	fn mgr(&mut self) -> &mut Mgr {
		&mut self.mgr
	}
	fn extra(&mut self) -> Vec<i128> {
		vec![tstate(self.sub.state())]
	}
}

// ---- clock ----------------------------------------------------------------------------------
struct ClockSc {
	mgr: Mgr,
	c: ClockHandle,
}
impl ClockSc {
	fn new(variant: u64) -> Self {
		let mut mgr = simple_manager(SR, IBS);
		let mut c = mgr.add_clock(ClockSpeed::TicksPerSecond(1700.0)).unwrap();
		if variant == 1 {
			c.start();
			for _ in 0..2 {
				mgr.backend_mut().callback(CB_FRAMES, 2);
			}
		}
		ClockSc { mgr, c }
	}
}
impl Scene for ClockSc {
	fn kinds(&self) -> Vec<&'static str> {
		// `start`/`pause` write the kind set_ticking; `stop` writes set_ticking AND reset (the
		// relative order of the commands of an interval is kept in the twin runs, which makes the
		// "last of each kind" prediction exact for this overlap too)
		vec!["clock::set_speed", "clock::set_ticking", "clock::reset"]
	}
	fn issue(&mut self, kind: usize, id: i64) {
		match kind {
			0 => self.c.set_speed(ClockSpeed::TicksPerSecond(500.0 + u(id) * 4000.0), tw(id)),
			1 => {
				if id % 2 == 0 {
					self.c.start()
				} else {
					self.c.pause()
				}
			}
			_ => self.c.stop(),
		}
	}
	fn mgr(&mut self) -> &mut Mgr {
		&mut self.mgr
	}
	fn extra(&mut self) -> Vec<i128> {
		let t = self.c.time();
		vec![self.c.ticking() as i128, t.ticks as i128, obs64(t.fraction)]
	}
	fn handle_side_preview(&self, kind: usize) -> bool {
		kind == 2
	}
}

// ---- modulators (observed through a linked sound volume) ---------------------------------------
struct ModSc {
	mgr: Mgr,
	tweener: TweenerHandle,
	lfo: LfoHandle,
	_sounds: Vec<StaticSoundHandle>,
}
impl ModSc {
	fn new(_variant: u64) -> Self {
		let mut mgr = simple_manager(SR, IBS);
		let tweener = mgr.add_modulator(TweenerBuilder { initial_value: 0.25 }).unwrap();
		let lfo = mgr.add_modulator(LfoBuilder::new().waveform(Waveform::Sine).frequency(13.0).amplitude(0.4).offset(0.5)).unwrap();
		let map = |id| Value::FromModulator {
			id,
			mapping: Mapping { input_range: (0.0, 1.0), output_range: (Decibels(-30.0), Decibels(0.0)), easing: Easing::Linear },
		};
		let s1 = mgr.play(noise_sound(30000).volume(map(tweener.id()))).unwrap();
		let s2 = mgr.play(indexed_sound(SR, 30000).volume(map(lfo.id()))).unwrap();
		ModSc { mgr, tweener, lfo, _sounds: vec![s1, s2] }
	}
}
impl Scene for ModSc {
	fn kinds(&self) -> Vec<&'static str> {
		vec![
			"modulator::tweener::set",
			"modulator::lfo::set_waveform",
			"modulator::lfo::set_frequency",
			"modulator::lfo::set_amplitude",
			"modulator::lfo::set_offset",
			"modulator::lfo::set_phase",
		]
	}
	fn issue(&mut self, kind: usize, id: i64) {
		match kind {
			0 => self.tweener.set(u(id), tw(id + 1)),
			1 => self.lfo.set_waveform([Waveform::Sine, Waveform::Triangle, Waveform::Saw, Waveform::Pulse { width: 0.3 }][(id % 4) as usize]),
			2 => self.lfo.set_frequency(5.0 + u(id) * 40.0, tw(id)),
			3 => self.lfo.set_amplitude(u(id) * 0.5, tw(id)),
			4 => self.lfo.set_offset(0.3 + u(id) * 0.4, tw(id)),
			_ => self.lfo.set_phase(u(id) * 6.0),
		}
	}
	fn mgr(&mut self) -> &mut Mgr {
		&mut self.mgr
	}
}

// ---- effects ---------------------------------------------------------------------------------
struct FxSc {
	mgr: Mgr,
	filter: FilterHandle,
	eq: EqFilterHandle,
	vol: VolumeControlHandle,
	pan: PanningControlHandle,
	reverb: ReverbHandle,
	comp: CompressorHandle,
	delay: DelayHandle,
	dist: DistortionHandle,
	_tracks: Vec<TrackHandle>,
	_sounds: Vec<StaticSoundHandle>,
}
impl FxSc {
	fn new(_variant: u64) -> Self {
		let mut mgr = simple_manager(SR, IBS);
		// one track per effect so that each effect's output is separately audible in the sum
		let mut tracks = vec![];
		let mut sounds = vec![];
		macro_rules! track_with {
			($b:expr) => {{
				let mut tb = TrackBuilder::new().volume(Decibels(-12.0));
				let h = tb.add_effect($b);
				let mut t = mgr.add_sub_track(tb).unwrap();
				sounds.push(t.play(noise_sound(30000)).unwrap());
				tracks.push(t);
				h
			}};
		}
		let filter = track_with!(FilterBuilder::new().cutoff(200.0));
		let eq = track_with!(EqFilterBuilder::new(EqFilterKind::Bell, 150.0, Decibels(6.0), 1.0));
		let vol = track_with!(VolumeControlBuilder::new(Decibels(-3.0)));
		let pan = track_with!(PanningControlBuilder(Value::Fixed(Panning(0.2))));
		let reverb = track_with!(ReverbBuilder::new().mix(Mix(0.5)));
		let comp = track_with!(CompressorBuilder::new().threshold(-30.0).ratio(4.0));
		let delay = track_with!(DelayBuilder::new().delay_time(Duration::from_millis(20)).feedback(Decibels(-6.0)).mix(Mix(0.5)));
		let dist = track_with!(DistortionBuilder::new().drive(Decibels(12.0)).mix(Mix(0.7)));
		FxSc { mgr, filter, eq, vol, pan, reverb, comp, delay, dist, _tracks: tracks, _sounds: sounds }
	}
}
impl Scene for FxSc {
	fn kinds(&self) -> Vec<&'static str> {
		vec![
			"effect::filter::set_mode",
			"effect::filter::set_cutoff",
			"effect::filter::set_resonance",
			"effect::filter::set_mix",
			"effect::eq_filter::set_kind",
			"effect::eq_filter::set_frequency",
			"effect::eq_filter::set_gain",
			"effect::eq_filter::set_q",
			"effect::volume_control::set_volume",
			"effect::panning_control::set_panning",
			"effect::reverb::set_feedback",
			"effect::reverb::set_damping",
			"effect::reverb::set_stereo_width",
			"effect::reverb::set_mix",
			"effect::compressor::set_threshold",
			"effect::compressor::set_ratio",
			"effect::compressor::set_attack_duration",
			"effect::compressor::set_release_duration",
			"effect::compressor::set_makeup_gain",
			"effect::compressor::set_mix",
			"effect::delay::set_feedback",
			"effect::delay::set_mix",
			"effect::distortion::set_kind",
			"effect::distortion::set_drive",
			"effect::distortion::set_mix",
		]
	}
	fn issue(&mut self, kind: usize, id: i64) {
		let x = u(id);
		let t = tw(id);
		let db = Decibels(-(x * 18.0) as f32);
		match kind {
			0 => self.filter.set_mode([FilterMode::LowPass, FilterMode::BandPass, FilterMode::HighPass, FilterMode::Notch][(id % 4) as usize]),
			1 => self.filter.set_cutoff(50.0 + x * 300.0, t),
			2 => self.filter.set_resonance(x * 0.9, t),
			3 => self.filter.set_mix(Mix(x as f32), t),
			4 => self.eq.set_kind([EqFilterKind::Bell, EqFilterKind::LowShelf, EqFilterKind::HighShelf][(id % 3) as usize]),
			5 => self.eq.set_frequency(40.0 + x * 300.0, t),
			6 => self.eq.set_gain(Decibels((x * 18.0 - 9.0) as f32), t),
			7 => self.eq.set_q(0.3 + x * 3.0, t),
			8 => self.vol.set_volume(db, t),
			9 => self.pan.set_panning(Panning((x * 2.0 - 1.0) as f32), t),
			10 => self.reverb.set_feedback(x * 0.95, t),
			11 => self.reverb.set_damping(x, t),
			12 => self.reverb.set_stereo_width(x, t),
			13 => self.reverb.set_mix(Mix(x as f32), t),
			14 => self.comp.set_threshold(-50.0 + x * 40.0, t),
			15 => self.comp.set_ratio(1.0 + x * 9.0, t),
			16 => self.comp.set_attack_duration(Duration::from_micros((x * 20000.0) as u64), t),
			17 => self.comp.set_release_duration(Duration::from_micros((x * 50000.0) as u64), t),
			18 => self.comp.set_makeup_gain(Decibels((x * 12.0) as f32), t),
			19 => self.comp.set_mix(Mix(x as f32), t),
			20 => self.delay.set_feedback(db, t),
			21 => self.delay.set_mix(Mix(x as f32), t),
			22 => self.dist.set_kind([DistortionKind::HardClip, DistortionKind::SoftClip][(id % 2) as usize]),
			23 => self.dist.set_drive(Decibels((x * 24.0) as f32), t),
			_ => self.dist.set_mix(Mix(x as f32), t),
		}
	}
	fn mgr(&mut self) -> &mut Mgr {
		&mut self.mgr
	}
}

// ---- streaming sound ---------------------------------------------------------------------------
// The decoder runs on kira's own thread.  To make runs repeatable the scene waits, before the
// commands of an interval are issued, until the decoder has refilled the frame ring and sleeps
// (it reads seek / loop-region commands only when the ring has room, i.e. after the next
// callback consumed frames); the effect of the decoder-side commands is heard one ring
// (16384 frames) later, so the scene ends with a long flush whose output is part of the
// observable.
struct IdxDecoder {
	pos: usize,
	n: usize,
	decoded: std::sync::Arc<std::sync::atomic::AtomicUsize>,
}
impl kira::sound::streaming::Decoder for IdxDecoder {
	type Error = String;
	fn sample_rate(&self) -> u32 {
		SR
	}
	fn num_frames(&self) -> usize {
		self.n
	}
	fn decode(&mut self) -> Result<Vec<Frame>, String> {
		let k = 64.min(self.n - self.pos).max(1);
		let v: Vec<Frame> = (self.pos..self.pos + k).map(|i| indexed_frame(i % 60000)).collect();
		self.pos += k;
		self.decoded.fetch_add(k, std::sync::atomic::Ordering::SeqCst);
		Ok(v)
	}
	fn seek(&mut self, index: usize) -> Result<usize, String> {
		self.pos = index.min(self.n - 1);
		self.decoded.fetch_add(1, std::sync::atomic::Ordering::SeqCst);
		Ok(self.pos)
	}
}
struct StreamSc {
	mgr: Mgr,
	h: kira::sound::streaming::StreamingSoundHandle<String>,
	decoded: std::sync::Arc<std::sync::atomic::AtomicUsize>,
	flush: bool,
}
impl StreamSc {
	fn new(variant: u64) -> Self {
		let mut mgr = simple_manager(SR, IBS);
		let decoded = std::sync::Arc::new(std::sync::atomic::AtomicUsize::new(0));
		let data = kira::sound::streaming::StreamingSoundData::from_decoder(IdxDecoder { pos: 0, n: 150000, decoded: decoded.clone() });
		let mut h = mgr.play(data).unwrap();
		let mut sc = StreamSc { mgr, decoded, flush: variant >= 2, h: { h.set_volume(Decibels(0.0), Tween::default()); h } };
		if variant == 1 {
			sc.h.pause(Tween { duration: Duration::ZERO, ..Default::default() });
			for _ in 0..2 {
				sc.settle();
				sc.mgr.backend_mut().callback(CB_FRAMES, 2);
			}
		}
		sc
	}
}
impl Scene for StreamSc {
	fn kinds(&self) -> Vec<&'static str> {
		vec![
			"sound::streaming::set_volume",
			"sound::streaming::set_playback_rate",
			"sound::streaming::set_panning",
			"sound::streaming::pause",
			"sound::streaming::resume",
			"sound::streaming::stop",
			"sound::streaming::seek_by",
			"sound::streaming::seek_to",
			"sound::streaming::set_loop_region",
		]
	}
	fn issue(&mut self, kind: usize, id: i64) {
		match kind {
			0 => self.h.set_volume(Decibels(-(u(id) * 24.0) as f32), tw(id)),
			1 => self.h.set_playback_rate(PlaybackRate(0.5 + u(id) * 3.0), tw(id)),
			2 => self.h.set_panning(Panning((u(id) * 2.0 - 1.0) as f32), tw(id)),
			3 => self.h.pause(tw(id + 1)),
			4 => self.h.resume(tw(id + 1)),
			5 => self.h.stop(tw(id + 1)),
			6 => self.h.seek_by(u(id) * 4.0),
			7 => self.h.seek_to(u(id) * 40.0),
			_ => {
				let st = 17.0 + u(id) * 3.0;
				self.h.set_loop_region(st..(st + 0.5 + u(id)))
			}
		}
	}
	fn mgr(&mut self) -> &mut Mgr {
		&mut self.mgr
	}
	fn extra(&mut self) -> Vec<i128> {
		vec![pstate(self.h.state()), obs64(self.h.position())]
	}
	fn settle(&mut self) {
		// the decoder decodes continuously while the ring has room and polls every millisecond
		// while it is full: wait until its progress counter stands still
		let mut last = usize::MAX;
		let mut still = 0;
		let t0 = std::time::Instant::now();
		while still < 4 && t0.elapsed() < Duration::from_secs(2) {
			std::thread::sleep(Duration::from_micros(1500));
			let d = self.decoded.load(std::sync::atomic::Ordering::SeqCst);
			if d == last && d > 0 {
				still += 1;
			} else {
				still = 0;
			}
			last = d;
		}
	}
	fn finish(&mut self) -> Vec<i128> {
		if !self.flush {
			return vec![];
		}
		// two rings of audio: every seek / loop region the decoder applied becomes audible
		let mut hash: u64 = 0xcbf29ce484222325;
		let mut jumps: Vec<i128> = vec![];
		let mut prev: Option<f32> = None;
		let mut pos = 0i128;
		for _ in 0..10 {
			self.settle();
			let out = self.mgr.backend_mut().callback(4096, 2);
			for fr in out.chunks(2) {
				hash = (hash ^ fr[0].to_bits() as u64).wrapping_mul(0x100000001b3);
				hash = (hash ^ fr[1].to_bits() as u64).wrapping_mul(0x100000001b3);
				let idx = (fr[0] * 65536.0).round();
				if let Some(p) = prev {
					if idx != p + 1.0 && jumps.len() < 60 {
						jumps.extend_from_slice(&[pos, p as i128, idx as i128]);
					}
				}
				prev = Some(idx);
				pos += 1;
			}
		}
		let mut v = vec![(hash >> 1) as i128, pstate(self.h.state()), obs64(self.h.position())];
		v.extend(jumps);
		v
	}
}

// ---- driver -----------------------------------------------------------------------------------
type Pattern = Vec<Vec<(usize, i64)>>; // per interval (before callback j+1): the commands issued, in order

fn run_pattern(mk: &dyn Fn() -> Box<dyn Scene>, pat: &Pattern) -> Vec<Vec<i128>> {
	let mut sc = mk();
	let mut out = vec![];
	for burst in pat {
		sc.settle();
		for (k, id) in burst {
			sc.issue(*k, *id);
		}
		out.push(sc.callback());
	}
	let fin = sc.finish();
	if !fin.is_empty() {
		out.push(fin);
	}
	out
}
/// what `callback_semantics` says is applied: per interval, the last command of each kind
fn last_only(pat: &Pattern) -> Pattern {
	pat.iter()
		.map(|burst| {
			let mut keep: Vec<(usize, i64)> = vec![];
			for (i, (k, id)) in burst.iter().enumerate() {
				if !burst[i + 1..].iter().any(|(k2, _)| k2 == k) {
					keep.push((*k, *id));
				}
			}
			keep
		})
		.collect()
}
fn first_only(pat: &Pattern) -> Pattern {
	pat.iter()
		.map(|burst| {
			let mut keep: Vec<(usize, i64)> = vec![];
			for (k, id) in burst.iter() {
				if !keep.iter().any(|(k2, _)| k2 == k) {
					keep.push((*k, *id));
				}
			}
			keep
		})
		.collect()
}
fn one_late(pat: &Pattern) -> Pattern {
	let mut out: Pattern = vec![vec![]];
	out.extend(last_only(pat));
	out.pop();
	out
}

fn pattern_term(nk: usize, pat: &Pattern) -> (String, Vec<Op>) {
	let mut ops = vec![];
	for burst in pat {
		for (k, id) in burst {
			ops.push(Op::Write(*k, *id, 0));
		}
		ops.push(Op::Callback);
	}
	(ops_term(nk, &ops), ops)
}

#[allow(clippy::too_many_arguments)]
fn check_scene(s: &mut Session, name: &str, mk: &dyn Fn() -> Box<dyn Scene>, pat: &Pattern, kinds: &[&'static str], covered: &mut BTreeSet<String>, retries: usize) {
	let nk = kinds.len();
	let (term, _ops) = pattern_term(nk, pat);
	let desc = format!("scene {name} kinds {:?}: {}", kinds, term);
	let pred = last_only(pat);
	let mut attempt = 0;
	let (a, b) = loop {
		let a = run_pattern(mk, pat);
		let b = run_pattern(mk, &pred);
		if a == b || attempt >= retries {
			break (a, b);
		}
		attempt += 1;
	};
	let mut ok = true;
	if a != b {
		ok = false;
		let j = (0..a.len()).find(|j| a[*j] != b[*j]).unwrap();
		let w = (0..a[j].len().min(b[j].len())).find(|i| a[j][*i] != b[j][*i]).unwrap_or(0);
		s.fail(
			desc.clone(),
			format!(
				"M1: the run with bursts differs from the run in which only the last command of each kind per interval is issued, first in callback {} (observable #{w}: {} vs {}); interval contents: {:?}",
				j + 1,
				a[j].get(w).copied().unwrap_or(-7),
				b[j].get(w).copied().unwrap_or(-7),
				pat[j]
			),
			None,
		);
	}
	// M2: first difference from the command-free run
	let none: Pattern = pat.iter().map(|_| vec![]).collect();
	let n = run_pattern(mk, &none);
	let first_cmd = pat.iter().position(|b| !b.is_empty());
	let first_diff = (0..a.len()).find(|j| a[*j] != n[*j]);
	let mut sensitive_timing = false;
	match (first_cmd, first_diff) {
		(Some(fc), Some(fd)) => {
			if fd < fc {
				ok = false;
				s.fail(desc.clone(), format!("M2: observable change in callback {} before any command was issued (first command precedes callback {})", fd + 1, fc + 1), None);
			} else if fd > fc {
				// only a violation if the command issued alone is normally visible at once: decided by
				// the single-command probe below
				let mut solo: Pattern = pat.iter().map(|_| vec![]).collect();
				solo[fc] = pred[fc].clone();
				let so = run_pattern(mk, &solo);
				let solo_diff = (0..so.len()).find(|j| so[*j] != n[*j]);
				if solo_diff == Some(fc) {
					ok = false;
					s.fail(desc.clone(), format!("M2: commands issued before callback {} show their first effect only in callback {} (alone they act in callback {})", fc + 1, fd + 1, fc + 1), None);
				} else {
					s.count("b_effect_not_immediately_observable");
					for k in pat.iter().flatten().map(|(k, _)| *k).collect::<BTreeSet<usize>>() {
						s.count(&format!("insensitive_late:{name}:{}", kinds[k]));
					}
				}
			} else {
				sensitive_timing = true;
			}
		}
		(Some(_), None) => {
			s.count("b_no_observable_effect");
			for k in pat.iter().flatten().map(|(k, _)| *k).collect::<BTreeSet<usize>>() {
				s.count(&format!("insensitive_none:{name}:{}", kinds[k]));
			}
		}
		(None, Some(fd)) => {
			ok = false;
			s.fail(desc.clone(), format!("M2: nondeterministic scene: two command-free runs differ in callback {}", fd + 1), None);
		}
		(None, None) => {}
	}
	// sensitivity of the check itself
	let has_burst = pat.iter().any(|b| b.iter().enumerate().any(|(i, (k, _))| b[i + 1..].iter().any(|(k2, _)| k2 == k)));
	if has_burst {
		let f = run_pattern(mk, &first_only(pat));
		if f != a {
			s.count("b_distinguishes_last_from_first");
		} else {
			s.count("b_cannot_distinguish_last_from_first");
		}
	}
	if first_cmd.is_some() {
		let l = run_pattern(mk, &one_late(pat));
		if l != a {
			s.count("b_distinguishes_on_time_from_one_callback_late");
		} else {
			s.count("b_cannot_distinguish_late");
		}
	}
	// the model case: what was applied in each callback.  If M1 holds the run IS the run of the
	// predicted single commands, so the applied command of kind c in callback j is pred[j][c];
	// otherwise a marker that the model will not reproduce.
	let mut per_kind: Vec<Vec<i128>> = vec![vec![-1]; nk];
	for (j, burst) in pred.iter().enumerate() {
		for c in 0..nk {
			match burst.iter().find(|(k, _)| *k == c) {
				Some((_, id)) if ok || a == b => per_kind[c].extend_from_slice(&[j as i128 + 1, 1, *id as i128, 0]),
				Some(_) => per_kind[c].extend_from_slice(&[j as i128 + 1, -99]),
				None => per_kind[c].extend_from_slice(&[j as i128 + 1, 0]),
			}
		}
	}
	let used: BTreeSet<usize> = pat.iter().flatten().map(|(k, _)| *k).collect();
	let key = if sensitive_timing || first_cmd.is_none() { Some(format!("b:{name}:{term}")) } else { None };
	s.case(&format!("handle_{name}"), term, &per_kind.concat(), key);
	for k in used {
		covered.insert(kinds[k].to_string());
		s.count(&format!("kind:{}", kinds[k]));
	}
}

fn gen_pattern(r: &mut Rng, kinds_pick: &[usize], intervals: usize, next_id: &mut i64) -> Pattern {
	(0..intervals)
		.map(|j| {
			let mut burst = vec![];
			for &k in kinds_pick {
				// bursts of 0-4 writes of this kind in this interval; the first interval (before the
				// resource's first callback) is used more often
				let n = if j == 0 && r.chance(1, 2) { r.range(1, 4) } else if r.chance(1, 2) { 0 } else { r.range(1, 4) };
				for _ in 0..n {
					*next_id += 1;
					burst.push((k, *next_id));
				}
			}
			// interleave the kinds
			for i in (1..burst.len()).rev() {
				let j = r.below(i as u64 + 1) as usize;
				burst.swap(i, j);
			}
			// ids increasing in issue order (value numbers are issue numbers)
			let mut ids: Vec<i64> = burst.iter().map(|(_, id)| *id).collect();
			ids.sort();
			for (x, id) in burst.iter_mut().zip(ids) {
				x.1 = id;
			}
			burst
		})
		.collect()
}

// ---- absolute probes: the effect itself is decoded, no twin run -------------------------------
fn part_b_abs(s: &mut Session, r: &mut Rng, args: &Args) {
	let n = (if args.thorough { 200 } else { 40 }) * args.budget_mul;
	let zero = Tween { start_time: StartTime::Immediate, duration: Duration::ZERO, easing: Easing::Linear };
	for i in 0..n {
		let intervals = r.range(3, 7) as usize;
		let target = r.below(intervals as u64) as usize; // the interval that holds the burst
		let burst = r.range(1, 4) as usize;
		let kind = (i % 3) as usize;
		// baseline: same scene, no command
		let base: Vec<Vec<f32>> = {
			let mut mgr = simple_manager(SR, IBS);
			let _h = mgr.play(indexed_sound(SR, 60000)).unwrap();
			(0..intervals).map(|_| mgr.backend_mut().callback(CB_FRAMES, 2)).collect()
		};
		let mut mgr = simple_manager(SR, IBS);
		let mut h = mgr.play(indexed_sound(SR, 60000)).unwrap();
		let vals: Vec<f64> = (0..burst).map(|_| (r.range(1, 200) as f64) / 10.0).collect();
		let desc = format!("absolute probe kind {} burst {:?} before callback {} of {}", ["seek_by", "set_volume", "pause"][kind], vals, target + 1, intervals);
		let mut bad: Option<String> = None;
		for j in 0..intervals {
			if j == target {
				for v in &vals {
					match kind {
						0 => h.seek_by(*v),
						1 => h.set_volume(Decibels(-*v as f32), zero),
						_ => h.pause(zero),
					}
				}
			}
			let out = mgr.backend_mut().callback(CB_FRAMES, 2);
			let last = out[2 * (CB_FRAMES - 1)];
			let blast = base[j][2 * (CB_FRAMES - 1)];
			let applied = j >= target;
			match kind {
				0 => {
					// the heard index has moved by the LAST amount, once (measured from the push position:
					// up to 4 frames more, see F19), and not at all before
					let off = ((last - blast) * 65536.0).round() as i64;
					let want = if applied { (vals[burst - 1] * SR as f64).round() as i64 } else { 0 };
					// (the seek arithmetic itself is C04's subject: one frame of rounding either way is not a C07 matter)
					let (lo, hi) = if applied { (want - 1, want + 4) } else { (0, 0) };
					if !(off >= lo && off <= hi) {
						bad.get_or_insert(format!("after callback {}: heard index is {off} frames ahead of the command-free run, expected {want}", j + 1));
					}
				}
				1 => {
					let ratio = last / blast;
					let want = if applied { Decibels(-vals[burst - 1] as f32).as_amplitude() } else { 1.0 };
					if (ratio - want).abs() > 1e-4 * want.max(1e-3) {
						bad.get_or_insert(format!("after callback {}: level is {ratio} of the command-free run, expected {want}", j + 1));
					}
				}
				_ => {
					let st = h.state();
					let want = if applied { PlaybackState::Paused } else { PlaybackState::Playing };
					if st != want {
						bad.get_or_insert(format!("after callback {}: state {:?}, expected {:?}", j + 1, st, want));
					}
				}
			}
		}
		s.eval_only("handle_absolute_probe");
		s.nontrivial.insert(format!("abs:{i}"));
		if let Some(b) = bad {
			s.fail(desc, b, None);
		}
	}
}

pub fn part_b(s: &mut Session, r: &mut Rng, args: &Args) -> BTreeSet<String> {
	let mut covered = BTreeSet::new();
	part_b_abs(s, r, args);
	type Mk = (&'static str, fn(u64) -> Box<dyn Scene>, u64);
	let scenes: Vec<Mk> = vec![
		("static", |v| Box::new(StaticSc::new(v)), 2),
		("two_sounds", |v| Box::new(TwoSoundsSc::new(v)), 1),
		("tracks", |v| Box::new(TrackSc::new(v)), 2),
		("clock", |v| Box::new(ClockSc::new(v)), 2),
		("modulators", |v| Box::new(ModSc::new(v)), 1),
		("effects", |v| Box::new(FxSc::new(v)), 1),
		("streaming", |v| Box::new(StreamSc::new(v)), 3),
	];
	let reps = (if args.thorough { 12 } else { 5 }) * args.budget_mul;
	for (name, mk, variants) in scenes {
		for variant in 0..variants {
			let mkb = move || mk(variant);
			let kinds = mkb().kinds();
			let nm = format!("{name}{variant}");
			let streaming = name == "streaming";
			// streaming: variants 0/1 exercise the kinds read by the audio thread, variant 2 (with the
			// long flush) the kinds read by the decoder thread
			let allowed: Vec<usize> = if !streaming {
				(0..kinds.len()).collect()
			} else if variant < 2 {
				(0..6).collect()
			} else {
				vec![6, 7, 8, 0]
			};
			let (reps_k, retries) = if streaming { ((reps / 3).max(1), 2) } else { (reps, 0) };
			// every kind alone: single writes and bursts, including before the first callback
			for &k in &allowed {
				for _ in 0..reps_k {
					let mut id = r.range(0, 20);
					let iv = r.range(3, 6) as usize;
					let pat = gen_pattern(r, &[k], iv, &mut id);
					check_scene(s, &nm, &mkb, &pat, &kinds, &mut covered, retries);
				}
			}
			// several kinds of the same resource / of different resources in the same intervals
			for _ in 0..(if streaming { reps_k } else { 3 * reps_k }) {
				let n = r.range(2, 4.min(allowed.len() as i64)) as usize;
				let mut pick: Vec<usize> = vec![];
				while pick.len() < n {
					let k = *r.pick(&allowed);
					if !pick.contains(&k) {
						pick.push(k);
					}
				}
				let mut id = r.range(0, 20);
				let iv = r.range(3, 6) as usize;
				let pat = gen_pattern(r, &pick, iv, &mut id);
				check_scene(s, &nm, &mkb, &pat, &kinds, &mut covered, retries);
			}
		}
	}
	let _ = (Capacities::default(), MainTrackBuilder::new());
	covered
}

// ------------------------------------------------------------------------------------------
// (x) the multi-kind layer on real handles (model: coq/theories/C07/Multi.v)
// ------------------------------------------------------------------------------------------
// A history is a list of intervals; an interval is the list of handle calls made between two
// callbacks.  For every history:
//   X-model   the handle-visible playback states (and, for a playing static sound, the position in
//             whole seconds) after every callback are compared with the Coq model (`CMulti`);
//   X-mirror  the same prediction computed here (Rust mirror of `multi_state_is_composition` +
//             `playback_commands_table`): per interval, the last command of each kind, applied in
//             the order of `read_commands`; quiet callbacks change nothing;
//   X-twin    the run is observably identical (states, output bits, positions) to the twin in which
//             the commands of the interval are handed over one kind at a time, in the code's order,
//             each followed by its own `on_start_processing` (so every reader holds at most one
//             command whenever it is read): "the state reached by applying each kind once in the
//             code's order", then nothing more;
//   X-abs     resources that are not advancing (sound on a paused track, on a sub-track of a paused
//             track, paused itself, waiting for its start time, on a track waiting to resume, played
//             on an already paused track): every command still takes effect at the next callback,
//             exactly once (relative seeks issued in different intervals add up).
const LONG_NS: i64 = 10_000_000_000;

#[derive(Clone, Copy, Debug, PartialEq, Eq)]
enum Cmd {
	Volume(i64),
	Rate(i64),
	Pan(i64),
	/// loop region in whole seconds; `Loop(0, 0)`: none
	Loop(i64, i64),
	Pause(i64),
	Resume(i64),
	ResumeAt(i64),
	Stop(i64),
	SeekBy(i64),
	SeekTo(i64),
	TVolume(i64),
	TPause(i64),
	TResume(i64),
	TResumeAt(i64),
	MainVolume(i64),
}
impl Cmd {
	/// (resource: 0 main track, 1 sub-track, 2 sound; kind index in the resource's `read_commands`)
	fn slot(&self) -> (u8, usize) {
		match self {
			Cmd::MainVolume(_) => (0, 0),
			Cmd::TVolume(_) => (1, 0),
			Cmd::TPause(_) => (1, 1),
			Cmd::TResume(_) | Cmd::TResumeAt(_) => (1, 2),
			Cmd::Volume(_) => (2, 0),
			Cmd::Rate(_) => (2, 1),
			Cmd::Pan(_) => (2, 2),
			Cmd::Loop(..) => (2, 3),
			Cmd::Pause(_) => (2, 4),
			Cmd::Resume(_) | Cmd::ResumeAt(_) => (2, 5),
			Cmd::Stop(_) => (2, 6),
			Cmd::SeekBy(_) => (2, 7),
			Cmd::SeekTo(_) => (2, 8),
		}
	}
	/// the value of the model's command
	fn val(&self) -> (i64, i64) {
		match *self {
			Cmd::Pause(i) | Cmd::Resume(i) | Cmd::Stop(i) | Cmd::TPause(i) | Cmd::TResume(i) => (LONG_NS + i, 0),
			Cmd::ResumeAt(i) | Cmd::TResumeAt(i) => (LONG_NS + i, LONG_NS),
			Cmd::Loop(a, b) => (a, b),
			Cmd::Volume(i) | Cmd::Rate(i) | Cmd::Pan(i) | Cmd::SeekBy(i) | Cmd::SeekTo(i) | Cmd::TVolume(i) | Cmd::MainVolume(i) => (i, 0),
		}
	}
}
fn long_tween(i: i64) -> Tween {
	Tween { start_time: StartTime::Immediate, duration: Duration::from_nanos((LONG_NS + i) as u64), easing: Easing::Linear }
}
const ZERO_TWEEN: Tween = Tween { start_time: StartTime::Immediate, duration: Duration::ZERO, easing: Easing::Linear };
fn db_of(i: i64) -> Decibels {
	Decibels(-((i % 20) as f32) * 0.5)
}

enum SndH {
	Static(StaticSoundHandle),
	Stream(kira::sound::streaming::StreamingSoundHandle<String>),
}
impl SndH {
	fn state(&self) -> i128 {
		match self {
			SndH::Static(h) => pstate(h.state()),
			SndH::Stream(h) => pstate(h.state()),
		}
	}
	fn position(&self) -> f64 {
		match self {
			SndH::Static(h) => h.position(),
			SndH::Stream(h) => h.position(),
		}
	}
	fn issue(&mut self, c: Cmd) {
		macro_rules! both {
			($h:ident, $e:expr) => {
				match self {
					SndH::Static($h) => $e,
					SndH::Stream($h) => $e,
				}
			};
		}
		match c {
			Cmd::Volume(i) => both!(h, h.set_volume(db_of(i), ZERO_TWEEN)),
			Cmd::Rate(i) => both!(h, h.set_playback_rate(PlaybackRate(0.5 + (i % 3) as f64 * 0.5), ZERO_TWEEN)),
			Cmd::Pan(i) => both!(h, h.set_panning(Panning(((i % 5) as f32 - 2.0) / 2.0), ZERO_TWEEN)),
			Cmd::Loop(a, b) => {
				if b > a {
					both!(h, h.set_loop_region(a as f64..b as f64))
				} else {
					both!(h, h.set_loop_region(None::<kira::sound::Region>))
				}
			}
			Cmd::Pause(i) => both!(h, h.pause(long_tween(i))),
			Cmd::Resume(i) => both!(h, h.resume(long_tween(i))),
			Cmd::ResumeAt(i) => both!(h, h.resume_at(StartTime::Delayed(Duration::from_nanos(LONG_NS as u64)), long_tween(i))),
			Cmd::Stop(i) => both!(h, h.stop(long_tween(i))),
			Cmd::SeekBy(a) => both!(h, h.seek_by(a as f64)),
			Cmd::SeekTo(p) => both!(h, h.seek_to(p as f64)),
			_ => unreachable!(),
		}
	}
}

#[derive(Clone, Copy, Debug, PartialEq, Eq)]
enum Ctx {
	/// sound on the main track, commands before its first callback
	MainFresh,
	/// sound on the main track, playing
	Main,
	/// sound on the main track, itself paused
	SelfPaused,
	/// sound on a playing sub-track, commands before the first callback of track and sound
	SubFresh,
	/// sound on a playing sub-track
	Sub,
	/// sound on a paused sub-track
	SubPaused,
	/// sound on a playing sub-track of a paused track
	ParentPaused,
	/// sound whose start time (10 s from now) has not come
	WaitStart,
	/// sound on a sub-track that waits to resume (10 s from now)
	SubWaiting,
	/// sound played on an already paused sub-track, commands before its first callback
	PlayedOnPaused,
}
impl Ctx {
	fn has_track(&self) -> bool {
		!matches!(self, Ctx::MainFresh | Ctx::Main | Ctx::SelfPaused | Ctx::WaitStart)
	}
}

struct World {
	mgr: Mgr,
	ptrk: Option<TrackHandle>,
	trk: Option<TrackHandle>,
	snd: SndH,
}
fn cached_indexed() -> kira::sound::static_sound::StaticSoundData {
	static CACHE: std::sync::OnceLock<kira::sound::static_sound::StaticSoundData> = std::sync::OnceLock::new();
	CACHE.get_or_init(|| indexed_sound(SR, 60000)).clone()
}
impl World {
	fn cb(&mut self) -> Vec<f32> {
		self.mgr.backend_mut().callback(CB_FRAMES, 2)
	}
	fn build(ctx: Ctx, stream: bool, start_delay: Option<Duration>, loop0: Option<(i64, i64)>) -> World {
		let mut mgr = simple_manager(SR, IBS);
		let mut ptrk = None;
		let mut trk = None;
		if ctx.has_track() {
			if ctx == Ctx::ParentPaused {
				let mut p = mgr.add_sub_track(TrackBuilder::new()).unwrap();
				trk = Some(p.add_sub_track(TrackBuilder::new()).unwrap());
				ptrk = Some(p);
			} else {
				trk = Some(mgr.add_sub_track(TrackBuilder::new()).unwrap());
			}
		}
		if ctx == Ctx::PlayedOnPaused {
			trk.as_mut().unwrap().pause(ZERO_TWEEN);
			for _ in 0..2 {
				mgr.backend_mut().callback(CB_FRAMES, 2);
			}
		}
		let st = match (ctx, start_delay) {
			(_, Some(d)) => StartTime::Delayed(d),
			(Ctx::WaitStart, None) => StartTime::Delayed(Duration::from_nanos(LONG_NS as u64)),
			_ => StartTime::Immediate,
		};
		let snd = if stream {
			let decoded = std::sync::Arc::new(std::sync::atomic::AtomicUsize::new(0));
			let data = kira::sound::streaming::StreamingSoundData::from_decoder(IdxDecoder { pos: 0, n: 150000, decoded }).start_time(st);
			SndH::Stream(match trk.as_mut() {
				Some(t) => t.play(data).unwrap(),
				None => mgr.play(data).unwrap(),
			})
		} else {
			let mut data = cached_indexed().start_time(st);
			if let Some((a, b)) = loop0 {
				data = data.loop_region(a as f64..b as f64);
			}
			SndH::Static(match trk.as_mut() {
				Some(t) => t.play(data).unwrap(),
				None => mgr.play(data).unwrap(),
			})
		};
		let mut w = World { mgr, ptrk, trk, snd };
		match ctx {
			Ctx::MainFresh | Ctx::SubFresh | Ctx::PlayedOnPaused => {}
			_ => {
				for _ in 0..2 {
					w.cb();
				}
			}
		}
		match ctx {
			Ctx::SelfPaused => {
				match &mut w.snd {
					SndH::Static(h) => h.pause(ZERO_TWEEN),
					SndH::Stream(h) => h.pause(ZERO_TWEEN),
				}
				w.cb();
				w.cb();
			}
			Ctx::SubPaused => {
				w.trk.as_mut().unwrap().pause(ZERO_TWEEN);
				w.cb();
				w.cb();
			}
			Ctx::ParentPaused => {
				w.ptrk.as_mut().unwrap().pause(ZERO_TWEEN);
				w.cb();
				w.cb();
			}
			Ctx::SubWaiting => {
				w.trk.as_mut().unwrap().pause(ZERO_TWEEN);
				w.cb();
				w.cb();
				w.trk.as_mut().unwrap().resume_at(StartTime::Delayed(Duration::from_nanos(LONG_NS as u64)), ZERO_TWEEN);
				w.cb();
				w.cb();
			}
			_ => {}
		}
		w
	}
	fn issue(&mut self, c: Cmd) {
		match c {
			Cmd::MainVolume(i) => self.mgr.main_track().set_volume(db_of(i), ZERO_TWEEN),
			Cmd::TVolume(i) => self.trk.as_mut().unwrap().set_volume(db_of(i), ZERO_TWEEN),
			Cmd::TPause(i) => self.trk.as_mut().unwrap().pause(long_tween(i)),
			Cmd::TResume(i) => self.trk.as_mut().unwrap().resume(long_tween(i)),
			Cmd::TResumeAt(i) => self.trk.as_mut().unwrap().resume_at(StartTime::Delayed(Duration::from_nanos(LONG_NS as u64)), long_tween(i)),
			c => self.snd.issue(c),
		}
	}
	fn tstate(&self) -> i128 {
		self.trk.as_ref().map(|t| tstate(t.state())).unwrap_or(-1)
	}
}

#[derive(Clone, Debug, PartialEq)]
struct XObs {
	snd: i128,
	trk: i128,
	pos: f64,
	out: Vec<u32>,
}
type Hist = Vec<Vec<Cmd>>;

/// the run as issued: every interval's commands, then one callback
fn run_joint(ctx: Ctx, stream: bool, hist: &Hist, loop0: Option<(i64, i64)>) -> (i128, i128, Vec<XObs>) {
	let mut w = World::build(ctx, stream, None, loop0);
	let start = (w.tstate(), w.snd.state());
	let mut obs = vec![];
	for iv in hist {
		for c in iv {
			w.issue(*c);
		}
		let out = w.cb();
		obs.push(XObs { snd: w.snd.state(), trk: w.tstate(), pos: w.snd.position(), out: out.iter().map(|x| x.to_bits()).collect() });
	}
	(start.0, start.1, obs)
}
/// the twin: within an interval the commands are handed over one (resource, kind) at a time in the
/// order in which `on_start_processing` visits them, each followed by its own `on_start_processing`;
/// one `process` per interval
fn run_split(ctx: Ctx, stream: bool, hist: &Hist, loop0: Option<(i64, i64)>) -> Vec<XObs> {
	let mut w = World::build(ctx, stream, None, loop0);
	let mut obs = vec![];
	for iv in hist {
		let mut slots: Vec<(u8, usize)> = iv.iter().map(|c| c.slot()).collect();
		slots.sort();
		slots.dedup();
		for sl in &slots {
			for c in iv.iter().filter(|c| c.slot() == *sl) {
				w.issue(*c);
			}
			w.mgr.backend_mut().r().on_start_processing();
		}
		if slots.is_empty() {
			w.mgr.backend_mut().r().on_start_processing();
		}
		let mut out = vec![f32::from_bits(0x7FC0_1234); CB_FRAMES * 2];
		w.mgr.backend_mut().r().process(&mut out, 2);
		obs.push(XObs { snd: w.snd.state(), trk: w.tstate(), pos: w.snd.position(), out: out.iter().map(|x| x.to_bits()).collect() });
	}
	obs
}

/// Rust mirror of the theorem: the playback state after one interval
fn mirror_psm(state: i128, cmds: &[Cmd], res: u8) -> i128 {
	if state == 6 {
		return 6;
	}
	let mine: Vec<&Cmd> = cmds.iter().filter(|c| c.slot().0 == res).collect();
	let (pause_k, resume_k, stop_k) = if res == 2 { (4, 5, 6) } else { (1, 2, 99) };
	let last = |k: usize| mine.iter().rev().find(|c| c.slot().1 == k).copied();
	if last(stop_k).is_some() {
		5
	} else if let Some(c) = last(resume_k) {
		if matches!(c, Cmd::ResumeAt(_) | Cmd::TResumeAt(_)) {
			3
		} else {
			4
		}
	} else if last(pause_k).is_some() {
		1
	} else {
		state
	}
}
fn advancing(state: i128) -> bool {
	matches!(state, 0 | 1 | 4 | 5)
}

fn hist_text(ctx: Ctx, stream: bool, hist: &Hist) -> String {
	format!("{} sound, context {:?}, per interval (each followed by one callback of {CB_FRAMES} frames at {SR} Hz): {:?}", if stream { "streaming" } else { "static" }, ctx, hist)
}
fn model_term(rk: u8, start: i128, hist: &Hist) -> String {
	let mut ops = vec![];
	for iv in hist {
		for c in iv {
			let (res, k) = c.slot();
			let k = match (rk, res) {
				(4, 1) => k,
				(4, 2) => k + 3,
				(3, 1) => k,
				(0..=2, 2) => k,
				_ => continue, // a command to a resource the model case does not contain
			};
			let (x, y) = c.val();
			ops.push(format!("({}, {}, {})", k, z(x as i128), z(y as i128)));
		}
		ops.push("((-1), 0, 0)".to_string());
	}
	format!("CMulti {} {} [{}]", rk, start, ops.join("; "))
}

struct XOpts {
	/// compare with the split twin
	twin: bool,
	/// the position (whole seconds) is part of the model case
	pos: bool,
	/// loop region (whole seconds) of the static sound's settings
	loop0: Option<(i64, i64)>,
}
/// Rust mirror of `Transport` (C04/Transport.v) as far as seeks and loop regions go
#[derive(Clone, Copy, Debug)]
struct Tr {
	pos: i64,
	lp: Option<(i64, i64)>,
}
impl Tr {
	fn new(pos: i64, lp: Option<(i64, i64)>) -> Tr {
		Tr { pos, lp: lp.filter(|(a, b)| b > a) }
	}
	fn set_loop(&mut self, lp: Option<(i64, i64)>) {
		self.lp = lp.filter(|(a, b)| b > a);
	}
	fn seek(&mut self, mut p: i64) {
		if let Some((ls, le)) = self.lp {
			if p > self.pos {
				while p >= le {
					p -= le - ls;
				}
			} else {
				while p < ls {
					p += le - ls;
				}
			}
		}
		self.pos = p;
	}
	fn wrap(&mut self) {
		if let Some((ls, le)) = self.lp {
			while self.pos >= le {
				self.pos -= le - ls;
			}
		}
	}
	fn inc(&mut self) {
		self.pos += 1;
		self.wrap();
	}
}
/// runs one history on the real code and evaluates every monitor; `hist` should end with at least
/// one quiet interval (the position of callback j is read after callback j+1)
fn check_hist(s: &mut Session, kind: &str, ctx: Ctx, stream: bool, hist: &Hist, o: &XOpts) {
	let desc = hist_text(ctx, stream, hist);
	let (t0, s0, a) = run_joint(ctx, stream, hist, o.loop0);
	let n = hist.len();
	// X-mirror
	let mut st = s0;
	let mut tt = t0;
	let mut tr = Tr::new(0, o.loop0);
	let mut heard: i128 = 0;
	let mut want_s = vec![];
	let mut want_t = vec![];
	let mut want_h = vec![];
	for iv in hist {
		st = mirror_psm(st, iv, 2);
		if ctx.has_track() {
			tt = mirror_psm(tt, iv, 1);
		}
		// the transport kinds, in the code's order: loop region, (playback state,) seek_by, seek_to;
		// the last of each kind; a seek is wrapped into the region then in force
		if let Some(Cmd::Loop(a, b)) = iv.iter().rev().find(|c| matches!(c, Cmd::Loop(..))) {
			tr.set_loop(Some((*a, *b)));
		}
		if let Some(Cmd::SeekBy(x)) = iv.iter().rev().find(|c| matches!(c, Cmd::SeekBy(_))) {
			tr.seek(tr.pos + *x);
		}
		if let Some(Cmd::SeekTo(x)) = iv.iter().rev().find(|c| matches!(c, Cmd::SeekTo(_))) {
			tr.seek(*x);
		}
		if advancing(st) {
			tr.wrap();
			heard = tr.pos as i128;
		}
		want_s.push(st);
		want_t.push(tt);
		want_h.push(heard);
	}
	let mut bad = false;
	for j in 0..n {
		if a[j].snd != want_s[j] {
			bad = true;
			s.fail(
				desc.clone(),
				format!(
					"X-mirror: after callback {} the sound's state() is {} but applying the last command of each kind of every interval once, in the order of read_commands, gives {} (states after each callback: observed {:?}, predicted {:?})",
					j + 1,
					a[j].snd,
					want_s[j],
					a.iter().map(|x| x.snd).collect::<Vec<_>>(),
					want_s
				),
				None,
			);
			break;
		}
		if ctx.has_track() && a[j].trk != want_t[j] {
			bad = true;
			s.fail(desc.clone(), format!("X-mirror: after callback {} the track's state() is {} but the commands predict {} (observed {:?}, predicted {:?})", j + 1, a[j].trk, want_t[j], a.iter().map(|x| x.trk).collect::<Vec<_>>(), want_t), None);
			break;
		}
	}
	let mut obs_model: Vec<i128> = vec![];
	if o.pos {
		// the position reported after callback j+1 is the frame heard at the end of callback j
		for j in 0..n - 1 {
			let got = a[j + 1].pos.round() as i128;
			if got != want_h[j] && !bad {
				bad = true;
				s.fail(
					desc.clone(),
					format!("X-mirror: the position reported after callback {} is {:.3} s; the loop region, seek_by and seek_to commands applied once each in this order (last of each kind per interval; a seek wraps into the region then in force) put the sound at {} s (+ at most 0.4 s of playback)", j + 2, a[j + 1].pos, want_h[j]),
					None,
				);
			}
			obs_model.extend_from_slice(&[a[j].snd, got]);
		}
	} else if ctx.has_track() {
		for x in &a {
			obs_model.extend_from_slice(&[x.trk, x.snd]);
		}
	} else {
		for x in &a {
			obs_model.push(x.snd);
		}
	}
	// X-twin
	if o.twin {
		let e = run_split(ctx, stream, hist, o.loop0);
		for j in 0..n {
			let same_state = a[j].snd == e[j].snd && a[j].trk == e[j].trk;
			// (the reported position is refreshed by every on_start_processing, BEFORE the commands are
			// read: after an interval with commands the split twin may report a frame pushed by one of
			// its earlier hand-overs; after a quiet interval the two must agree to the bit)
			let same_rest = stream || (a[j].out == e[j].out && (!hist[j].is_empty() || a[j].pos.to_bits() == e[j].pos.to_bits()));
			if !(same_state && same_rest) {
				s.fail(
					desc.clone(),
					format!(
						"X-twin: callback {} differs from the run in which the commands of each interval are handed over one kind at a time in the code's order (each with its own on_start_processing): sound state {} vs {}, track state {} vs {}, position {} vs {}, output {}",
						j + 1,
						a[j].snd,
						e[j].snd,
						a[j].trk,
						e[j].trk,
						a[j].pos,
						e[j].pos,
						if stream { "not compared" } else if a[j].out == e[j].out { "equal" } else { "different" }
					),
					None,
				);
				break;
			}
		}
	}
	// X-model
	let (rk, start, hm): (u8, i128, Hist) = if o.pos {
		(1, s0 + 10 * o.loop0.map(|(a, b)| (a + 100 * b) as i128).unwrap_or(0), hist[..n - 1].to_vec())
	} else if ctx.has_track() {
		(4, t0 * 10 + s0, hist.clone())
	} else if stream {
		(2, s0, hist.clone())
	} else {
		(0, s0, hist.clone())
	};
	let term = model_term(rk, start, &hm);
	let key = if hist.iter().any(|iv| !iv.is_empty()) { Some(format!("x:{:?}:{stream}:{term}", ctx)) } else { None };
	s.case(kind, term, &obs_model, key);
}

/// a sub-track alone (with a sound on it so that its output is audible): the track's own kinds
fn check_track_hist(s: &mut Session, kind: &str, paused: bool, hist: &Hist) {
	let ctx = if paused { Ctx::SubPaused } else { Ctx::Sub };
	let desc = format!("sub-track ({}), per interval: {:?}", if paused { "paused" } else { "playing" }, hist);
	let (t0, _s0, a) = run_joint(ctx, false, hist, None);
	let e = run_split(ctx, false, hist, None);
	let mut tt = t0;
	let mut want = vec![];
	for iv in hist {
		tt = mirror_psm(tt, iv, 1);
		want.push(tt);
	}
	let got: Vec<i128> = a.iter().map(|x| x.trk).collect();
	if got != want {
		s.fail(desc.clone(), format!("X-mirror: track states after each callback {:?}, predicted {:?}", got, want), None);
	}
	if let Some(j) = (0..a.len()).find(|j| a[*j].trk != e[*j].trk || a[*j].out != e[*j].out || a[*j].snd != e[*j].snd) {
		s.fail(desc.clone(), format!("X-twin: callback {} differs from the run in which the kinds are handed over one at a time (track state {} vs {}, output {})", j + 1, a[j].trk, e[j].trk, if a[j].out == e[j].out { "equal" } else { "different" }), None);
	}
	let term = model_term(3, t0, hist);
	s.case(kind, term.clone(), &got, Some(format!("xt:{paused}:{term}")));
}

fn quiet(hist: &mut Hist, n: usize) {
	for _ in 0..n {
		hist.push(vec![]);
	}
}

/// X-abs: absolute probes in non-advancing contexts
fn part_x_abs(s: &mut Session) {
	let ctxs = [Ctx::SelfPaused, Ctx::SubPaused, Ctx::ParentPaused, Ctx::WaitStart, Ctx::SubWaiting, Ctx::PlayedOnPaused];
	for stream in [false, true] {
		for ctx in ctxs {
			// (1) a playback-state command reaches the sound at the next callback
			for (c, want) in [(Cmd::Stop(1), 5), (Cmd::Pause(2), 1), (Cmd::Resume(3), 4), (Cmd::ResumeAt(4), 3)] {
				for idle in [0usize, 1, 3] {
					let mut w = World::build(ctx, stream, None, None);
					for _ in 0..idle {
						w.cb();
					}
					let before = w.snd.state();
					w.issue(c);
					w.cb();
					let after1 = w.snd.state();
					w.cb();
					let after2 = w.snd.state();
					s.eval_only("x_abs_state");
					s.nontrivial.insert(format!("xabs:{ctx:?}:{stream}:{c:?}:{idle}"));
					if after1 != want || after2 != want {
						s.fail(
							format!("{} sound, context {:?}, {idle} callbacks, then {:?}, then two callbacks", if stream { "streaming" } else { "static" }, ctx, c),
							format!("X-abs: state() was {before}, is {after1} after the next callback and {after2} after one more; the command must have been applied exactly at the next callback (expected {want})"),
							None,
						);
					}
				}
			}
			if stream {
				continue; // a streaming sound's seeks are read by its decoder, which sleeps while the ring is full
			}
			// (2) relative seeks issued in different intervals add up; (3) seek_to then seek_by keep their order
			let progs: [(&str, Vec<Vec<Cmd>>, f64, bool); 4] = [
				("seek_by(1), callback, seek_by(1), callback", vec![vec![Cmd::SeekBy(1)], vec![Cmd::SeekBy(1)]], 2.0, true),
				("seek_by(1), callback, seek_by(2), callback, seek_by(3), callback", vec![vec![Cmd::SeekBy(1)], vec![Cmd::SeekBy(2)], vec![Cmd::SeekBy(3)]], 6.0, true),
				("seek_to(5), callback, seek_by(2), callback", vec![vec![Cmd::SeekTo(5)], vec![Cmd::SeekBy(2)]], 7.0, false),
				("seek_by(1), callback, callback, seek_by(1), callback", vec![vec![Cmd::SeekBy(1)], vec![], vec![Cmd::SeekBy(1)]], 2.0, true),
			];
			for (name, prog, amount, relative) in progs.iter() {
				// waiting for the start time: a start time the probe can wait for
				let delay = if ctx == Ctx::WaitStart { Some(Duration::from_millis(100)) } else { None };
				let mut w = World::build(ctx, false, delay, None);
				let p0 = w.snd.position();
				for iv in prog {
					for c in iv {
						w.issue(*c);
					}
					w.cb();
				}
				// let it advance
				match ctx {
					Ctx::SelfPaused => w.snd.issue_resume_now(),
					Ctx::SubPaused | Ctx::SubWaiting | Ctx::PlayedOnPaused => w.trk.as_mut().unwrap().resume(ZERO_TWEEN),
					Ctx::ParentPaused => w.ptrk.as_mut().unwrap().resume(ZERO_TWEEN),
					_ => {}
				}
				let extra = if ctx == Ctx::WaitStart { 12 } else { 4 };
				for _ in 0..extra {
					w.cb();
				}
				let p1 = w.snd.position();
				let want = if *relative { p0 + amount } else { *amount };
				s.eval_only("x_abs_seek");
				s.nontrivial.insert(format!("xabs_seek:{ctx:?}:{name}"));
				// up to `extra` callbacks of playback and the resampler's look-ahead: below 0.25 s
				if !(p1 >= want - 0.01 && p1 <= want + 0.25) {
					s.fail(
						format!("static sound, context {:?}: {name}, then the sound is allowed to advance for {extra} callbacks", ctx),
						format!("X-abs: position() was {p0:.3} s before the commands and is {p1:.3} s afterwards; every command applied exactly once at its next callback gives {want:.3} s (+ at most 0.25 s of playback)"),
						None,
					);
				}
			}
		}
	}
	// a streaming sound's decoder-side kinds in ONE interval, both issue orders: seek_by then seek_to in
	// the decoder's order, each once (the position is reported a ring of 16384 frames later).  The
	// decoder is a free-running thread: the probe waits until it has refilled the ring (its progress
	// counter says so) and is skipped, not failed, if the machine is too busy for that.
	for order in 0..2 {
		let mut sc = StreamSc::new(0);
		let ring_full = |sc: &mut StreamSc, consumed: usize| -> bool {
			let t0 = std::time::Instant::now();
			loop {
				sc.settle();
				if sc.decoded.load(std::sync::atomic::Ordering::SeqCst) + 128 >= 16384 + consumed {
					return true;
				}
				if t0.elapsed() > Duration::from_secs(4) {
					return false;
				}
			}
		};
		let mut ok = ring_full(&mut sc, 0);
		if order == 0 {
			sc.h.seek_by(10.0);
			sc.h.seek_to(30.0);
		} else {
			sc.h.seek_to(30.0);
			sc.h.seek_by(10.0);
		}
		for i in 0..6 {
			sc.mgr.backend_mut().callback(4096, 2);
			ok = ok && ring_full(&mut sc, 4096 * (i + 1));
		}
		if !ok {
			s.count("x_abs_stream_seek_skipped_decoder_too_slow");
			continue;
		}
		let p = sc.h.position();
		s.eval_only("x_abs_stream_seek");
		// reported at the start of callback 6: 5 * 4096 frames played, 16384 of them decoded before the
		// seek: 30 s + 4.1 s (the other order of application would give 44.1 s, twice 40 s or more)
		if !(p >= 33.5 && p <= 35.0) {
			s.fail(
				format!("streaming sound: {} in one interval, then 6 callbacks of 4096 frames", if order == 0 { "seek_by(10), seek_to(30)" } else { "seek_to(30), seek_by(10)" }),
				format!("X-abs: position() is {p:.3} s; seek_by then seek_to, each applied once at the decoder's next step, gives 30 s + 4.1 s of playback"),
				None,
			);
		}
	}
}
impl SndH {
	fn issue_resume_now(&mut self) {
		match self {
			SndH::Static(h) => h.resume(ZERO_TWEEN),
			SndH::Stream(h) => h.resume(ZERO_TWEEN),
		}
	}
}

fn part_x(s: &mut Session, r: &mut Rng, args: &Args) {
	part_x_abs(s);
	// ---- every ordered pair / triple of distinct commands in ONE interval, then quiet callbacks ----
	let snd_cmds: Vec<Cmd> = vec![Cmd::Pause(1), Cmd::Resume(2), Cmd::ResumeAt(3), Cmd::Stop(4), Cmd::SeekBy(2), Cmd::SeekTo(20), Cmd::Volume(5), Cmd::Pan(6), Cmd::Rate(7), Cmd::Loop(40, 45)];
	let stream_cmds: Vec<Cmd> = snd_cmds.iter().copied().filter(|c| !matches!(c, Cmd::SeekBy(_) | Cmd::SeekTo(_) | Cmd::Loop(..))).collect();
	let tuples = |cmds: &[Cmd], triples: bool| -> Vec<Vec<Cmd>> {
		let mut out = vec![];
		for a in cmds {
			for b in cmds {
				if a == b {
					continue;
				}
				out.push(vec![*a, *b]);
				if triples {
					for c in cmds {
						if c != a && c != b {
							out.push(vec![*a, *b, *c]);
						}
					}
				}
			}
		}
		out
	};
	let state_kinds = |iv: &Vec<Cmd>| iv.iter().filter(|c| matches!(c.slot(), (2, 4..=6))).count();
	// static sound
	for (ctx, triples) in [(Ctx::Main, true), (Ctx::MainFresh, true), (Ctx::SelfPaused, true), (Ctx::Sub, false), (Ctx::SubPaused, false), (Ctx::WaitStart, false)] {
		for iv in tuples(&snd_cmds, triples) {
			// quick tier: every pair; every triple with two or more playback-state commands; a third of the others
			if iv.len() == 3 && state_kinds(&iv) < 2 && !args.thorough && !r.chance(1, 3) {
				continue;
			}
			let pos = matches!(ctx, Ctx::Main | Ctx::MainFresh | Ctx::SelfPaused);
			let mut hist = vec![iv];
			quiet(&mut hist, if pos { 5 } else { 4 });
			check_hist(s, "x_one_interval_static", ctx, false, &hist, &XOpts { twin: true, pos, loop0: None });
		}
	}
	// static sound with a loop region in force (settings): a new region and seeks in ONE interval: the
	// seeks are wrapped into the NEW region (set_loop_region is read before the seeks)
	let loop_cmds: Vec<Cmd> = vec![Cmd::Loop(0, 0), Cmd::Loop(1, 3), Cmd::Loop(4, 8), Cmd::Loop(10, 12), Cmd::SeekTo(5), Cmd::SeekBy(3), Cmd::Pause(1), Cmd::Volume(5)];
	for ctx in [Ctx::Main, Ctx::MainFresh, Ctx::SelfPaused] {
		for loop0 in [(0, 2), (2, 6)] {
			for iv in tuples(&loop_cmds, true) {
				let transport_kinds = iv.iter().filter(|c| matches!(c.slot(), (2, 3) | (2, 7) | (2, 8))).count();
				if iv.len() == 3 && transport_kinds < 3 && !args.thorough && !r.chance(1, 3) {
					continue;
				}
				let mut hist = vec![iv];
				quiet(&mut hist, 5);
				check_hist(s, "x_one_interval_static_loop", ctx, false, &hist, &XOpts { twin: true, pos: true, loop0: Some(loop0) });
			}
		}
	}
	// streaming sound: the kinds read on the audio thread
	for (ctx, triples) in [(Ctx::Main, true), (Ctx::MainFresh, false), (Ctx::SelfPaused, false), (Ctx::SubPaused, false)] {
		for iv in tuples(&stream_cmds, triples) {
			if iv.len() == 3 && state_kinds(&iv) < 2 && !args.thorough && !r.chance(1, 4) {
				continue;
			}
			let mut hist = vec![iv];
			quiet(&mut hist, 4);
			check_hist(s, "x_one_interval_streaming", ctx, true, &hist, &XOpts { twin: true, pos: false, loop0: None });
		}
	}
	// sub-track: its own kinds; and the main track's volume / the track's kinds / the sound's kinds together
	let trk_cmds = [Cmd::TVolume(3), Cmd::TPause(1), Cmd::TResume(2), Cmd::TResumeAt(4)];
	for paused in [false, true] {
		for iv in tuples(&trk_cmds, true) {
			let mut hist = vec![iv];
			quiet(&mut hist, 4);
			check_track_hist(s, "x_one_interval_track", paused, &hist);
		}
	}
	let mixed: Vec<Cmd> = vec![Cmd::MainVolume(9), Cmd::TVolume(3), Cmd::TPause(1), Cmd::TResume(2), Cmd::Pause(1), Cmd::Resume(2), Cmd::Stop(4), Cmd::SeekBy(2), Cmd::Volume(5)];
	for ctx in [Ctx::Sub, Ctx::SubFresh, Ctx::SubPaused, Ctx::SubWaiting, Ctx::ParentPaused, Ctx::PlayedOnPaused] {
		for iv in tuples(&mixed, true) {
			let res: BTreeSet<u8> = iv.iter().map(|c| c.slot().0).collect();
			if res.len() < 2 || (iv.len() == 3 && !args.thorough && !r.chance(1, 6)) {
				continue; // (one resource: covered above)
			}
			let mut hist = vec![iv];
			quiet(&mut hist, 4);
			check_hist(s, "x_one_interval_cross_resource", ctx, false, &hist, &XOpts { twin: true, pos: false, loop0: None });
		}
	}
	// ---- random histories over several intervals, every context -------------------------------------
	let n = (if args.thorough { 150 } else { 25 }) * args.budget_mul;
	let all_ctx = [Ctx::MainFresh, Ctx::Main, Ctx::SelfPaused, Ctx::SubFresh, Ctx::Sub, Ctx::SubPaused, Ctx::ParentPaused, Ctx::WaitStart, Ctx::SubWaiting, Ctx::PlayedOnPaused];
	for ctx in all_ctx {
		for stream in [false, true] {
			for _ in 0..(if stream { n / 2 } else { n }) {
				let pos = !stream && matches!(ctx, Ctx::Main | Ctx::MainFresh | Ctx::SelfPaused);
				let intervals = r.range(2, 6) as usize;
				let mut id = 0i64;
				let mut hist: Hist = vec![];
				let mut total_seek = 0i64;
				for _ in 0..intervals {
					let k = if r.chance(1, 4) { 0 } else { r.range(1, 4) };
					let mut iv = vec![];
					for _ in 0..k {
						id += 1;
						let c = match r.below(if stream { 7 } else { 10 }) {
							0 => Cmd::Pause(id),
							1 => Cmd::Resume(id),
							2 => Cmd::ResumeAt(id),
							3 => Cmd::Stop(id),
							4 => Cmd::Volume(id),
							5 => Cmd::Pan(id),
							6 => Cmd::Rate(id),
							7 => {
								let a = r.range(1, 3);
								total_seek += a;
								Cmd::SeekBy(a)
							}
							8 => Cmd::SeekTo(r.range(1, 4) * 10),
							_ => *r.pick(&[Cmd::Loop(0, 0), Cmd::Loop(1, 3), Cmd::Loop(4, 8), Cmd::Loop(15, 25), Cmd::Loop(30, 50)]),
						};
						iv.push(c);
						if ctx.has_track() && r.chance(1, 4) {
							id += 1;
							iv.push(*r.pick(&[Cmd::TPause(id), Cmd::TResume(id), Cmd::TResumeAt(id), Cmd::TVolume(id), Cmd::MainVolume(id)]));
						}
					}
					hist.push(iv);
				}
				let _ = total_seek; // at most 6 intervals * 4 commands * 3 s after a seek_to(40): inside the 60 s sound
				quiet(&mut hist, if pos { 2 } else { 1 });
				let loop0 = if stream { None } else { *r.pick(&[None, None, Some((0, 2)), Some((2, 6))]) };
				check_hist(s, if stream { "x_random_streaming" } else { "x_random_static" }, ctx, stream, &hist, &XOpts { twin: true, pos, loop0 });
			}
		}
	}
}

// ------------------------------------------------------------------------------------------
// (m) commands written WHILE a callback is being rendered
// ------------------------------------------------------------------------------------------
// A device callback of CB_FRAMES frames is rendered in CB_FRAMES / IBS internal chunks.  A game thread
// that is not synchronised with the audio thread writes most of its commands while some chunk of some
// callback is being rendered, i.e. AFTER that callback's `on_start_processing` drained the readers.  The
// property says such a command takes effect at the start of the NEXT callback (not in the middle of the
// one being rendered, whose readers were already drained), exactly once, and that of several commands
// of one kind written before that next callback starts -- whether during different chunks of the
// running callback or after it -- only the last is applied.
//
// The interleaving is made deterministic through the public API: the `Renderer` is taken out of the
// harness backend (so that the scene, with the manager and all handles, is free while a callback
// runs) and a silent probe `Sound` on the main track, whose `process` runs once per chunk, performs
// the handle calls scripted for that chunk.
//
// Monitors, for every (scene, script):
//   MID-twin  the run is observably IDENTICAL (output bits, handle-visible state), callback by
//             callback, to the twin in which nothing is written during a callback and, before each
//             callback, only the LAST command of each kind written since the previous callback
//             started its rendering is issued;
//   MID-abs   (send scene) a send closed while callback N is rendered: callback N is heard entirely
//             with the send open and callback N+1 entirely with it closed; closed and re-opened during
//             two chunks of callback N: never heard closed.
//   The model case is the coarse schedule in which the mid-callback writes follow the drain of their
//   callback (`CCoarse`: write ops after the callback op).
use kira::info::Info;
use kira::sound::{Sound, SoundData};
use std::collections::VecDeque;
use std::sync::{Arc, Mutex};

const MID_CHUNKS: usize = CB_FRAMES / IBS;

#[derive(Clone, Debug, Default, PartialEq)]
struct MidStep {
	/// issued between the previous callback and this one
	before: Vec<(usize, i64)>,
	/// issued while chunk i of this callback is being rendered
	during: Vec<Vec<(usize, i64)>>,
}
type MidPattern = Vec<MidStep>;

struct SceneBox(Box<dyn Scene>);
// the harness drives everything from one thread; `Sound` merely demands the bound
unsafe impl Send for SceneBox {}
struct MidShared {
	scene: Option<SceneBox>,
	script: VecDeque<Vec<(usize, i64)>>,
	chunks: usize,
}
struct MidProbe(Arc<Mutex<MidShared>>);
impl Sound for MidProbe {
	fn process(&mut self, out: &mut [Frame], _dt: f64, _info: &Info) {
		out.fill(Frame::ZERO);
		let mut g = self.0.lock().unwrap();
		g.chunks += 1;
		if let Some(cmds) = g.script.pop_front() {
			if let Some(sc) = g.scene.as_mut() {
				for (k, id) in cmds {
					sc.0.issue(k, id);
				}
			}
		}
	}
	fn finished(&self) -> bool {
		false
	}
}
struct MidProbeData(Arc<Mutex<MidShared>>);
impl SoundData for MidProbeData {
	type Error = ();
	type Handle = ();
	fn into_sound(self) -> Result<(Box<dyn Sound>, ()), ()> {
		Ok((Box::new(MidProbe(self.0)), ()))
	}
}

/// runs the script on a fresh scene; per callback: output bits, then the scene's `extra()`
fn run_mid(mk: &dyn Fn() -> Box<dyn Scene>, pat: &MidPattern) -> Vec<Vec<i128>> {
	let mut sc = mk();
	let shared = Arc::new(Mutex::new(MidShared { scene: None, script: VecDeque::new(), chunks: 0 }));
	sc.mgr().play(MidProbeData(shared.clone())).unwrap();
	let mut renderer = sc.mgr().backend_mut().renderer.take().unwrap();
	shared.lock().unwrap().scene = Some(SceneBox(sc));
	let mut res = vec![];
	for step in pat {
		{
			let mut g = shared.lock().unwrap();
			let sc = &mut g.scene.as_mut().unwrap().0;
			sc.settle();
			for (k, id) in &step.before {
				sc.issue(*k, *id);
			}
			g.script = step.during.iter().cloned().collect();
			g.chunks = 0;
		}
		let mut out = vec![f32::from_bits(0x7FC0_1234); CB_FRAMES * 2];
		renderer.on_start_processing();
		renderer.process(&mut out, 2);
		let mut g = shared.lock().unwrap();
		assert!(g.chunks == MID_CHUNKS && g.script.is_empty(), "harness: the probe sound ran {} times in a callback of {} chunks", g.chunks, MID_CHUNKS);
		let mut v: Vec<i128> = out.iter().map(|x| obs32(*x)).collect();
		v.extend(g.scene.as_mut().unwrap().0.extra());
		res.push(v);
	}
	// the renderer (which owns the probe, which shares the scene) goes first
	drop(renderer);
	res
}
/// the same commands, each issued after the callback during which it was written (same order)
fn mid_deferred(pat: &MidPattern) -> Pattern {
	let mut out: Pattern = vec![];
	let mut carry: Vec<(usize, i64)> = vec![];
	for step in pat {
		let mut b = std::mem::take(&mut carry);
		b.extend(step.before.iter().cloned());
		out.push(b);
		carry = step.during.iter().flatten().cloned().collect();
	}
	assert!(carry.is_empty(), "harness: a mid-callback script must end with a quiet callback");
	out
}
fn mid_of(pat: &Pattern) -> MidPattern {
	pat.iter().map(|b| MidStep { before: b.clone(), during: vec![] }).collect()
}
fn mid_text(name: &str, kinds: &[&'static str], pat: &MidPattern) -> String {
	let used: BTreeSet<usize> = pat.iter().flat_map(|st| st.before.iter().chain(st.during.iter().flatten())).map(|(k, _)| *k).collect();
	let legend: Vec<String> = used.iter().map(|k| format!("{k}={}", kinds[*k])).collect();
	let steps: Vec<String> = pat
		.iter()
		.enumerate()
		.map(|(j, st)| {
			let mut parts = vec![];
			if !st.before.is_empty() {
				parts.push(format!("before it {:?}", st.before));
			}
			for (c, cmds) in st.during.iter().enumerate() {
				if !cmds.is_empty() {
					parts.push(format!("while its chunk {c} is rendered {:?}", cmds));
				}
			}
			format!("callback {}: {}", j + 1, if parts.is_empty() { "-".to_string() } else { parts.join(", ") })
		})
		.collect();
	format!(
		"mid-callback writes, scene {name} ({} frames per callback, internal buffer {} frames = {} chunks), commands (kind, id) with kinds {{{}}}: {}",
		CB_FRAMES,
		IBS,
		MID_CHUNKS,
		legend.join(", "),
		steps.join("; ")
	)
}

/// MID-twin + model case; returns (the run, the command-free run)
fn check_mid(s: &mut Session, name: &str, mk: &dyn Fn() -> Box<dyn Scene>, pat: &MidPattern, kinds: &[&'static str], covered: &mut BTreeSet<String>, tag: &str) -> (Vec<Vec<i128>>, Vec<Vec<i128>>) {
	let nk = kinds.len();
	let desc = mid_text(name, kinds, pat);
	let deferred = mid_deferred(pat);
	let pred = last_only(&deferred);
	// what the handle reports after a callback during which a kind with a caller-side preview was
	// written (ClockHandle::stop: time() reads 0 at once) is not an effect on the audio thread: for
	// that callback only the rendered output is compared
	let masked: Vec<bool> = {
		let probe = mk();
		pat.iter().map(|st| st.during.iter().flatten().any(|(k, _)| probe.handle_side_preview(*k))).collect()
	};
	let mask = |mut v: Vec<Vec<i128>>| -> Vec<Vec<i128>> {
		for (j, m) in masked.iter().enumerate() {
			if *m {
				v[j].truncate(CB_FRAMES * 2);
			}
		}
		v
	};
	if masked.iter().any(|m| *m) {
		s.count("m_handle_side_preview_masked");
	}
	let a = mask(run_mid(mk, pat));
	let c = mask(run_mid(mk, &mid_of(&pred)));
	let mut ok = true;
	if a != c {
		ok = false;
		let j = (0..a.len()).find(|j| a[*j] != c[*j]).unwrap();
		let w = (0..a[j].len().min(c[j].len())).find(|i| a[j][*i] != c[j][*i]).unwrap_or(0);
		let where_ = if w < CB_FRAMES * 2 { format!("output sample {} of frame {} (chunk {})", w % 2, w / 2, w / 2 / IBS) } else { format!("handle-visible observable #{}", w - CB_FRAMES * 2) };
		// diagnosis: is it the timing (the same commands issued after the callback behave differently)
		// or the burst rule (all of them issued after the callback differ from the last of each kind)?
		let b = mask(run_mid(mk, &mid_of(&deferred)));
		let mid_here = pat[j].during.iter().any(|c| !c.is_empty());
		let why = if b == c && mid_here {
			format!(
				"a command written while callback {} was being rendered took effect before the start of callback {} (or several of one kind written during it were all applied)",
				j + 1,
				j + 2
			)
		} else if b == c {
			"commands written while the previous callback was being rendered are not applied as if issued right after it".to_string()
		} else {
			"the same commands issued between the callbacks also differ from the last-of-each-kind twin (burst rule)".to_string()
		};
		s.fail(
			desc.clone(),
			format!(
				"MID-twin: callback {} differs from the twin in which nothing is written during a callback and only the last command of each kind is issued before the next one: {where_}: {} vs {}; {why}; written during callback {}: {:?}",
				j + 1,
				a[j].get(w).copied().unwrap_or(-7),
				c[j].get(w).copied().unwrap_or(-7),
				j + 1,
				pat[j].during
			),
			None,
		);
	}
	// sensitivity: is the effect of the commands observable at all, and at the predicted callback?
	let none: MidPattern = pat.iter().map(|_| MidStep::default()).collect();
	let n = mask(run_mid(mk, &none));
	let first_cmd = pred.iter().position(|b| !b.is_empty());
	let first_diff = (0..c.len()).find(|j| c[*j] != n[*j]);
	let sensitive = first_cmd.is_some() && first_cmd == first_diff;
	s.count(if sensitive { "m_effect_seen_at_the_predicted_callback" } else { "m_effect_not_seen_at_the_predicted_callback" });
	// the model case: the mid-callback writes follow the drain of their callback
	let (term, _) = pattern_term(nk, &deferred);
	let mut per_kind: Vec<Vec<i128>> = vec![vec![-1]; nk];
	for (j, burst) in pred.iter().enumerate() {
		for k in 0..nk {
			match burst.iter().find(|(k2, _)| *k2 == k) {
				Some((_, id)) if ok => per_kind[k].extend_from_slice(&[j as i128 + 1, 1, *id as i128, 0]),
				Some(_) => per_kind[k].extend_from_slice(&[j as i128 + 1, -99]),
				None => per_kind[k].extend_from_slice(&[j as i128 + 1, 0]),
			}
		}
	}
	let key = if sensitive { Some(format!("m:{name}:{tag}:{term}")) } else { None };
	s.case(&format!("mid_{name}"), term, &per_kind.concat(), key);
	for k in pat.iter().flat_map(|st| st.during.iter().flatten()).map(|(k, _)| *k).collect::<BTreeSet<usize>>() {
		covered.insert(kinds[k].to_string());
		s.count(&format!("mid_kind:{}", kinds[k]));
	}
	(a, n)
}

// ---- send routes: a sub-track (variant 0) or a spatial sub-track (variant 1) with a send at 0 dB ----
const SEND_SRC: f32 = 0.25;
struct SendSc {
	mgr: Mgr,
	sub: Option<TrackHandle>,
	spatial: Option<SpatialTrackHandle>,
	send: SendTrackHandle,
	_listener: Option<ListenerHandle>,
}
impl SendSc {
	fn new(variant: u64) -> Self {
		let mut mgr = simple_manager(SR, IBS);
		let send = mgr.add_send_track(SendTrackBuilder::new()).unwrap();
		let mut sc = if variant == 0 {
			let mut sub = mgr.add_sub_track(TrackBuilder::new().with_send(send.id(), Decibels::IDENTITY)).unwrap();
			sub.play(crate::inject::Dc(SEND_SRC)).unwrap();
			SendSc { mgr, sub: Some(sub), spatial: None, send, _listener: None }
		} else {
			let listener = mgr.add_listener(Vec3::new(0.0, 0.0, 0.0), Quat::IDENTITY).unwrap();
			let mut sp = mgr
				.add_spatial_sub_track(listener.id(), Vec3::new(1.0, 0.0, -2.0), SpatialTrackBuilder::new().distances((1.0, 50.0)).with_send(send.id(), Decibels::IDENTITY))
				.unwrap();
			sp.play(crate::inject::Dc(SEND_SRC)).unwrap();
			SendSc { mgr, sub: None, spatial: Some(sp), send, _listener: Some(listener) }
		};
		for _ in 0..2 {
			sc.mgr.backend_mut().callback(CB_FRAMES, 2);
		}
		sc
	}
}
/// value of a send command: ids 0, 1, 2 mod 3 are 0 dB, silence, -6 dB; the tween is `tw(id / 3)`
fn send_db(id: i64) -> Decibels {
	[Decibels::IDENTITY, Decibels::SILENCE, Decibels(-6.0)][(id.rem_euclid(3)) as usize]
}
impl Scene for SendSc {
	fn kinds(&self) -> Vec<&'static str> {
		if self.sub.is_some() {
			vec!["track::sub::builder::set_volume", "track::sub::set_volume", "track::send::builder::set_volume"]
		} else {
			vec!["track::sub::spatial_builder::set_volume", "track::sub::set_volume", "track::send::builder::set_volume"]
		}
	}
	fn issue(&mut self, kind: usize, id: i64) {
		let id3 = id / 3;
		match kind {
			0 => {
				if let Some(t) = self.sub.as_mut() {
					t.set_send(self.send.id(), send_db(id), tw(id3)).unwrap()
				}
				if let Some(t) = self.spatial.as_mut() {
					t.set_send(self.send.id(), send_db(id), tw(id3)).unwrap()
				}
			}
			1 => {
				if let Some(t) = self.sub.as_mut() {
					t.set_volume(send_db(id), tw(id3))
				}
				if let Some(t) = self.spatial.as_mut() {
					t.set_volume(send_db(id), tw(id3))
				}
			}
			_ => self.send.set_volume(send_db(id), tw(id3)),
		}
	}
	fn mgr(&mut self) -> &mut Mgr {
		&mut self.mgr
	}
}

fn mid_step(chunk_cmds: &[(usize, (usize, i64))]) -> MidStep {
	let mut during = vec![vec![]; MID_CHUNKS];
	for (c, cmd) in chunk_cmds {
		during[*c].push(*cmd);
	}
	MidStep { before: vec![], during }
}

type MkScene = (&'static str, fn(u64) -> Box<dyn Scene>, u64);
fn mid_scenes() -> Vec<MkScene> {
	vec![
		("sends", |v| Box::new(SendSc::new(v)), 2),
		("tracks", |v| Box::new(TrackSc::new(v)), 2),
		("static", |v| Box::new(StaticSc::new(v)), 2),
		("two_sounds", |v| Box::new(TwoSoundsSc::new(v)), 1),
		("clock", |v| Box::new(ClockSc::new(v)), 2),
		("modulators", |v| Box::new(ModSc::new(v)), 1),
		("effects", |v| Box::new(FxSc::new(v)), 1),
	]
}

/// the fixed corpus: identical on every run, whatever the seed
fn part_m_directed(s: &mut Session, covered: &mut BTreeSet<String>) {
	// MID-abs on the send scene: id 1 = silence, id 12 = 0 dB, both with a zero-length tween
	let open = vec![obs32(2.0 * SEND_SRC); CB_FRAMES * 2];
	let closed = vec![obs32(SEND_SRC); CB_FRAMES * 2];
	for chunk in 0..MID_CHUNKS {
		let mk = || -> Box<dyn Scene> { Box::new(SendSc::new(0)) };
		let kinds = mk().kinds();
		// (i) closed during chunk `chunk` of callback 2
		let pat = vec![MidStep::default(), mid_step(&[(chunk, (0, 1))]), MidStep::default(), MidStep::default()];
		let (a, _) = check_mid(s, "sends0", &mk, &pat, &kinds, covered, "d");
		let want = [&open, &open, &closed, &closed];
		for j in 0..4 {
			if a[j][..CB_FRAMES * 2] != want[j][..] {
				let heard: Vec<f32> = a[j][..CB_FRAMES * 2].iter().step_by(2).map(|b| f32::from_bits(*b as u32)).collect();
				s.fail(
					mid_text("sends0", &kinds, &pat),
					format!(
						"MID-abs: TrackHandle::set_send(SILENCE, zero tween) written while chunk {chunk} of callback 2 was being rendered (source {SEND_SRC}, send at 0 dB: {} with the send open, {} closed): callback {} must be heard entirely {}, left channel heard {:?}",
						2.0 * SEND_SRC,
						SEND_SRC,
						j + 1,
						if j < 2 { "open (the command takes effect at the start of callback 3)" } else { "closed" },
						heard
					),
					None,
				);
				break;
			}
		}
		// (ii) closed during chunk `chunk`, re-opened during the next chunk (or, from the last chunk, after the callback)
		let mut st = mid_step(&[(chunk, (0, 1))]);
		let mut after = MidStep::default();
		if chunk + 1 < MID_CHUNKS {
			st.during[chunk + 1].push((0, 12));
		} else {
			after.before.push((0, 12));
		}
		let pat = vec![MidStep::default(), st, after, MidStep::default()];
		let (a, _) = check_mid(s, "sends0", &mk, &pat, &kinds, covered, "d");
		for j in 0..4 {
			if a[j][..CB_FRAMES * 2] != open[..] {
				let heard: Vec<f32> = a[j][..CB_FRAMES * 2].iter().step_by(2).map(|b| f32::from_bits(*b as u32)).collect();
				s.fail(
					mid_text("sends0", &kinds, &pat),
					format!(
						"MID-abs: set_send(SILENCE) then set_send(0 dB), both written before callback 3 starts: only the last may be applied, the send must never be heard closed; callback {} left channel heard {:?}",
						j + 1,
						heard
					),
					None,
				);
				break;
			}
		}
		s.eval_only("mid_absolute_probe");
	}
	// every kind of every scene: one write during chunk 0 of callback 2; two writes of the kind during
	// chunks 0 and 1 of callback 2; one during the last chunk of callback 2 and one before callback 3
	for (name, mk, variants) in mid_scenes() {
		for variant in 0..variants {
			let mkb = move || mk(variant);
			let kinds = mkb().kinds();
			let nm = format!("{name}{variant}");
			for k in 0..kinds.len() {
				let pats = [
					vec![MidStep::default(), mid_step(&[(0, (k, 4))]), MidStep::default(), MidStep::default()],
					vec![MidStep::default(), mid_step(&[(0, (k, 7)), (1, (k, 12))]), MidStep::default(), MidStep::default()],
					vec![
						MidStep { before: vec![(k, 5)], during: vec![vec![]; MID_CHUNKS] },
						mid_step(&[(MID_CHUNKS - 1, (k, 10))]),
						MidStep { before: vec![(k, 16)], during: vec![] },
						MidStep::default(),
					],
				];
				for pat in pats.iter() {
					check_mid(s, &nm, &mkb, pat, &kinds, covered, "d");
				}
			}
		}
	}
}

fn gen_mid_pattern(r: &mut Rng, pick: &[usize]) -> MidPattern {
	let n = r.range(2, 5) as usize;
	let mut id = r.range(0, 40);
	let mut cmds = |r: &mut Rng, max: i64| -> Vec<(usize, i64)> {
		(0..r.range(1, max))
			.map(|_| {
				id += r.range(1, 3);
				(*r.pick(pick), id)
			})
			.collect()
	};
	let mut pat: MidPattern = (0..n)
		.map(|_| {
			let before = if r.chance(1, 3) { cmds(r, 2) } else { vec![] };
			// most callbacks have writes during at least one chunk that is not the last
			let during: Vec<Vec<(usize, i64)>> = (0..MID_CHUNKS).map(|c| if r.chance(if c + 1 < MID_CHUNKS { 3 } else { 1 }, 5) { cmds(r, 2) } else { vec![] }).collect();
			MidStep { before, during }
		})
		.collect();
	for _ in 0..r.range(1, 2) {
		pat.push(MidStep::default());
	}
	pat
}

fn part_m(s: &mut Session, args: &Args, covered: &mut BTreeSet<String>) {
	part_m_directed(s, covered);
	// random scripts; a generator of its own so that the other parts see the same stream as before
	let mut r = Rng::new(args.seed ^ 0xC07_0D1D);
	let reps = (if args.thorough { 120 } else { 24 }) * args.budget_mul;
	for (name, mk, variants) in mid_scenes() {
		for variant in 0..variants {
			let mkb = move || mk(variant);
			let kinds = mkb().kinds();
			let nm = format!("{name}{variant}");
			let all: Vec<usize> = (0..kinds.len()).collect();
			for i in 0..reps {
				let n = if i % 2 == 0 { 1 } else { r.range(2, 3.min(all.len() as i64)) as usize };
				let mut pick: Vec<usize> = vec![];
				while pick.len() < n {
					let k = *r.pick(&all);
					if !pick.contains(&k) {
						pick.push(k);
					}
				}
				let pat = gen_mid_pattern(&mut r, &pick);
				check_mid(s, &nm, &mkb, &pat, &kinds, covered, "r");
			}
		}
	}
}

// ------------------------------------------------------------------------------------------
// (d) the decoder-side kinds of a streaming sound (model: Multi.v `dec_apply`, case `CDec`)
// ------------------------------------------------------------------------------------------
// The decoder thread is paced through its own decoder: `decode()` returns one frame per call and
// blocks on a condvar until the harness grants it a permit, so the thread is parked in the middle of
// a step of `DecodeScheduler::run`, AFTER that step looked for commands.  Commands issued while it is
// parked are all found by the next step.  No audio callback runs before the end, so the ring is never
// full and `shared.position()` (the base of seek_by) is the start position.  The frames are
// index-coded: the frames heard at the end ARE the sequence of indices the steps pushed.
//   D-model   that sequence vs the Coq model (`CDec`);
//   D-mirror  vs the Rust mirror: per step the last set_loop_region, then the last seek_by, then the
//             last seek_to (each wrapped into the region then in force, i.e. the new one), push,
//             increment;
//   D-twin    the tail after the command step equals the tail of the twin in which the same commands
//             are handed over one kind per decoder step, in the code's order.
struct DGateSt {
	permits: usize,
	parked: bool,
}
struct DGate {
	st: std::sync::Mutex<DGateSt>,
	cv: std::sync::Condvar,
}
impl DGate {
	/// lets the decoder make `k` more `decode()` calls and waits until it is parked again
	fn grant_and_wait(&self, k: usize) -> bool {
		let mut st = self.st.lock().unwrap();
		st.permits += k;
		self.cv.notify_all();
		let deadline = std::time::Instant::now() + Duration::from_secs(20);
		while !(st.permits == 0 && st.parked) {
			let (g, _) = self.cv.wait_timeout(st, Duration::from_millis(200)).unwrap();
			st = g;
			if std::time::Instant::now() > deadline {
				return false;
			}
		}
		true
	}
	fn open(&self) {
		let mut st = self.st.lock().unwrap();
		st.permits = usize::MAX / 2;
		self.cv.notify_all();
	}
}
struct GatedDecoder {
	gate: std::sync::Arc<DGate>,
	pos: usize,
	n: usize,
}
impl kira::sound::streaming::Decoder for GatedDecoder {
	type Error = String;
	fn sample_rate(&self) -> u32 {
		SR
	}
	fn num_frames(&self) -> usize {
		self.n
	}
	fn decode(&mut self) -> Result<Vec<Frame>, String> {
		{
			let mut st = self.gate.st.lock().unwrap();
			while st.permits == 0 {
				st.parked = true;
				self.gate.cv.notify_all();
				st = self.gate.cv.wait(st).unwrap();
			}
			st.permits -= 1;
			st.parked = false;
		}
		let v = vec![indexed_frame(self.pos)];
		self.pos += 1;
		Ok(v)
	}
	fn seek(&mut self, index: usize) -> Result<usize, String> {
		self.pos = index.min(self.n - 1);
		Ok(self.pos)
	}
}

#[derive(Clone, Copy, Debug, PartialEq, Eq)]
enum DCmd {
	/// set_loop_region, in frames; (0, 0): none
	Loop(i64, i64),
	/// seek_to this frame
	To(i64),
	/// seek_by this many frames
	By(i64),
}
impl DCmd {
	fn kind(&self) -> usize {
		match self {
			DCmd::Loop(..) => 0,
			DCmd::By(_) => 1,
			DCmd::To(_) => 2,
		}
	}
}
const D_NF: usize = 150000;
const D_TAIL: usize = 12;
fn samples_region(a: i64, b: i64) -> kira::sound::Region {
	kira::sound::Region { start: kira::sound::PlaybackPosition::Samples(a as usize), end: kira::sound::EndPosition::Custom(kira::sound::PlaybackPosition::Samples(b as usize)) }
}
/// runs the real decoder: `pre` command-free steps complete and one more is parked after its look for
/// commands; then the groups of commands, one decoder step after each group; then enough steps for the
/// tail.  Returns the indices heard, or None if the machine was too busy to pace the decoder.
fn run_decoder(pos0: i64, loop0: Option<(i64, i64)>, pre: usize, groups: &[Vec<DCmd>]) -> Option<Vec<i64>> {
	let gate = std::sync::Arc::new(DGate { st: std::sync::Mutex::new(DGateSt { permits: 0, parked: false }), cv: std::sync::Condvar::new() });
	let mut mgr = simple_manager(SR, IBS);
	let mut data = kira::sound::streaming::StreamingSoundData::from_decoder(GatedDecoder { gate: gate.clone(), pos: 0, n: D_NF }).start_position(kira::sound::PlaybackPosition::Samples(pos0 as usize));
	if let Some((a, b)) = loop0 {
		data = data.loop_region(samples_region(a, b));
	}
	let mut h = mgr.play(data).unwrap();
	let mut ok = gate.grant_and_wait(0) && gate.grant_and_wait(pre);
	let base = h.position();
	for (i, g) in groups.iter().enumerate() {
		for c in g {
			match *c {
				DCmd::Loop(a, b) => {
					if b > a {
						h.set_loop_region(samples_region(a, b))
					} else {
						h.set_loop_region(None::<kira::sound::Region>)
					}
				}
				DCmd::To(p) => h.seek_to(p as f64 / SR as f64),
				DCmd::By(d) => h.seek_by(d as f64 / SR as f64),
			}
		}
		if i + 1 < groups.len() {
			ok = ok && gate.grant_and_wait(1);
		}
	}
	// (a step that seeks decodes from the requested index up to the wrapped one: several `decode()`
	// calls; a step whose frame is the one decoded last needs none: permits are not steps, so the
	// tail gets plenty and only a prefix of what comes out is compared)
	ok = ok && gate.grant_and_wait(D_TAIL + 80);
	let _ = base;
	let mut heard = vec![];
	if ok {
		let total = pre + groups.len() + D_TAIL + 4;
		let out = mgr.backend_mut().callback(total.div_ceil(IBS) * IBS, 2);
		for fr in out.chunks(2) {
			if fr[0] == 0.0 {
				break;
			}
			heard.push((fr[0] * 65536.0).round() as i64 - 1);
		}
	}
	gate.open();
	drop(h);
	drop(mgr);
	if ok {
		Some(heard)
	} else {
		None
	}
}
/// the mirror: the indices pushed by `pre + 1` command-free steps, then one step per group, then the tail
fn mirror_decoder(pos0: i64, loop0: Option<(i64, i64)>, pre: usize, groups: &[Vec<DCmd>], tail: usize) -> Vec<i64> {
	let mut tr = Tr::new(pos0, loop0);
	let mut seq = vec![];
	for _ in 0..pre + 1 {
		seq.push(tr.pos);
		tr.inc();
	}
	for g in groups {
		if let Some(DCmd::Loop(a, b)) = g.iter().rev().find(|c| c.kind() == 0) {
			tr.set_loop(Some((*a, *b)));
		}
		if let Some(DCmd::By(d)) = g.iter().rev().find(|c| c.kind() == 1) {
			// round((shared.position() + amount) * sample_rate), shared.position() = start position
			let target = ((pos0 as f64 / SR as f64 + *d as f64 / SR as f64) * SR as f64).round() as i64;
			tr.seek(target);
		}
		if let Some(DCmd::To(p)) = g.iter().rev().find(|c| c.kind() == 2) {
			tr.seek(((*p as f64 / SR as f64) * SR as f64).round() as i64);
		}
		seq.push(tr.pos);
		tr.inc();
	}
	for _ in 0..tail {
		seq.push(tr.pos);
		tr.inc();
	}
	seq
}
fn dec_term(pos0: i64, loop0: Option<(i64, i64)>, pre: usize, groups: &[Vec<DCmd>], tail: usize) -> String {
	let mut ops: Vec<String> = vec![];
	for _ in 0..pre + 1 {
		ops.push("((-1), 0, 0)".into());
	}
	for g in groups {
		for c in g {
			ops.push(match *c {
				DCmd::Loop(a, b) => format!("(0, {a}, {b})"),
				DCmd::By(d) => format!("(1, {}, 0)", pos0 + d),
				DCmd::To(p) => format!("(2, {p}, 0)"),
			});
		}
		ops.push("((-1), 0, 0)".into());
	}
	for _ in 0..tail {
		ops.push("((-1), 0, 0)".into());
	}
	let (a, b) = loop0.unwrap_or((0, 0));
	format!("CDec {} {} {} {} [{}]", D_NF, pos0, a, b, ops.join("; "))
}

fn part_d(s: &mut Session, args: &Args) {
	let items = [DCmd::Loop(0, 0), DCmd::Loop(1, 3), DCmd::Loop(4, 9), DCmd::Loop(10, 14), DCmd::To(5), DCmd::By(7)];
	let mut sets: Vec<Vec<DCmd>> = vec![];
	for a in items {
		sets.push(vec![a]);
		for b in items {
			if b == a {
				continue;
			}
			sets.push(vec![a, b]);
			for c in items {
				if c != a && c != b {
					sets.push(vec![a, b, c]);
				}
			}
		}
	}
	let mut worlds: Vec<(i64, Option<(i64, i64)>, usize)> = vec![(0, Some((0, 2)), 0), (0, Some((0, 2)), 1), (3, Some((2, 6)), 4), (0, None, 1)];
	if args.thorough {
		worlds.extend_from_slice(&[(3, Some((0, 2)), 1), (0, Some((2, 6)), 4), (8, Some((2, 6)), 0), (6, None, 3)]);
	}
	for (pos0, loop0, pre) in worlds {
		for set in &sets {
			let desc = format!(
				"streaming sound over a decoder paced from outside, {D_NF} frames at {SR} Hz, start frame {pos0}, loop region (frames) {:?}; {} decoder steps, then while the decoder is parked inside a step: {:?} (frames), then decoder steps; no audio callback before the end",
				loop0,
				pre + 1,
				set
			);
			let joint = run_decoder(pos0, loop0, pre, &[set.clone()]);
			// the twin: one kind per decoder step, in the order of DecodeScheduler::run
			let mut groups: Vec<Vec<DCmd>> = vec![];
			for k in 0..3 {
				let g: Vec<DCmd> = set.iter().copied().filter(|c| c.kind() == k).collect();
				if !g.is_empty() {
					groups.push(g);
				}
			}
			let twin = run_decoder(pos0, loop0, pre, &groups);
			let (Some(joint), Some(twin)) = (joint, twin) else {
				s.count("d_skipped_decoder_too_slow");
				continue;
			};
			let n = pre + 2 + D_TAIL;
			let want = mirror_decoder(pos0, loop0, pre, &[set.clone()], D_TAIL);
			let want_twin = mirror_decoder(pos0, loop0, pre, &groups, D_TAIL);
			if joint.len() < n || twin.len() < pre + 1 + groups.len() + D_TAIL {
				s.fail(desc.clone(), format!("D: only {} / {} frames came out (expected at least {n}): heard {:?}", joint.len(), twin.len(), joint), None);
				continue;
			}
			if joint[..n] != want[..] {
				s.fail(
					desc.clone(),
					format!("D-mirror: source frames heard {:?}; the step that finds the commands applies the last set_loop_region, then the last seek_by, then the last seek_to (wrapped into the region then in force), which gives {:?}", &joint[..n], want),
					None,
				);
			}
			let tn = pre + 1 + groups.len() + D_TAIL;
			// a step that pushes the very frame the previous step decoded calls `decode()` not at all and
			// the pacing by permits lets one more (command-free) step through: the twin is then not the
			// run described; decided on the prediction
			if (pre + 1..pre + 1 + groups.len()).any(|i| want_twin[i] == want_twin[i - 1]) && groups.len() > 1 {
				s.count("d_twin_not_paced_same_frame_twice");
				let obs: Vec<i128> = joint[..n].iter().map(|x| *x as i128).collect();
				let term = dec_term(pos0, loop0, pre, &[set.clone()], D_TAIL);
				s.case("d_decoder_one_step", term.clone(), &obs, Some(format!("d:{term}")));
				continue;
			}
			if twin[..tn] != want_twin[..] {
				s.fail(desc.clone(), format!("D-mirror (commands handed over one kind per decoder step {:?}): heard {:?}, expected {:?}", groups, &twin[..tn], want_twin), None);
			}
			// tails from the step of the last command on
			let jt = &joint[pre + 1..n];
			let tt = &twin[pre + groups.len()..tn];
			if jt != tt && want[pre + 1..] == want_twin[pre + groups.len()..] {
				s.fail(desc.clone(), format!("D-twin: after the commands the decoder continues with {:?}; with the same commands handed over one kind per decoder step, in the order of DecodeScheduler::run, it continues with {:?}", jt, tt), None);
			}
			let obs: Vec<i128> = joint[..n].iter().map(|x| *x as i128).collect();
			let term = dec_term(pos0, loop0, pre, &[set.clone()], D_TAIL);
			s.case("d_decoder_one_step", term.clone(), &obs, Some(format!("d:{term}")));
		}
	}
}

// ------------------------------------------------------------------------------------------
// (w) commands to resources that are not heard yet, or that sit inside another effect
// ------------------------------------------------------------------------------------------
// W-settled  a static sound waits for its start time (a delay or a clock time).  Parameter commands
//            (set_volume / set_playback_rate / set_panning) are issued during the wait, every tween
//            ending at least one callback before the sound starts.  "Takes effect at the start of the
//            next callback, none applied late" then says: when the sound starts, every parameter HAS its
//            last commanded value, so from its first audible frame on the run is observably identical
//            (output bits, state, position) to the twin in which the sound was built with those values
//            and no command was issued at all.
// W-shift    the same with a volume / panning tween that is still running when the sound starts: a
//            constant-signal sound must be heard, from its start on, exactly like the twin that was
//            started at once and given the same commands before the same callbacks (the tween's clock
//            runs from the callback after the command, not from the sound's start).
// W-next     effects in a delay's feedback loop (DelayBuilder::add_feedback_effect): against the
//            command-free run, the first observable difference is in the callback that immediately
//            follows the first command (all values differ from the builders'), and M1 of (b) holds.
use kira::clock::ClockTime;

#[derive(Clone, Debug)]
struct WCmd {
	/// issued before callback `iv + 1`
	iv: usize,
	/// 0 set_volume, 1 set_playback_rate, 2 set_panning
	kind: u8,
	id: i64,
	dur_ms: u64,
	silence: bool,
}
#[derive(Clone, Debug)]
struct WaitCase {
	/// start time on a clock (100 ticks per second, started before the first callback) instead of a delay
	clock: bool,
	/// the sound is played on a sub-track
	sub: bool,
	/// milliseconds (= frames at 1 kHz) until the start time
	wait_ms: u64,
	cmds: Vec<WCmd>,
	callbacks: usize,
}
fn w_db(c: &WCmd) -> Decibels {
	if c.silence {
		Decibels::SILENCE
	} else {
		Decibels(-(u(c.id) * 24.0 + 1.0) as f32)
	}
}
fn w_rate(c: &WCmd) -> PlaybackRate {
	PlaybackRate(0.5 + u(c.id) * 3.0)
}
fn w_pan(c: &WCmd) -> Panning {
	Panning((u(c.id) * 1.8 - 0.9) as f32)
}
fn w_tween(c: &WCmd) -> Tween {
	Tween { start_time: StartTime::Immediate, duration: Duration::from_millis(c.dur_ms), easing: Easing::Linear }
}
fn w_text(c: &WaitCase) -> String {
	let mut t = format!(
		"static sound (indexed frames, 1 kHz, callbacks of {CB_FRAMES} frames, internal buffer {IBS}) on {} with start time {}; ",
		if c.sub { "a sub-track" } else { "the main track" },
		if c.clock { format!("ClockTime(tick {} of a clock at 100 ticks/s started before the first callback)", c.wait_ms / 10) } else { format!("Delayed({} ms)", c.wait_ms) }
	);
	for j in 0..c.callbacks {
		for k in c.cmds.iter().filter(|k| k.iv == j) {
			match k.kind {
				0 => t += &format!("set_volume({:?}, linear {} ms); ", w_db(k), k.dur_ms),
				1 => t += &format!("set_playback_rate({:?}, linear {} ms); ", w_rate(k).0, k.dur_ms),
				_ => t += &format!("set_panning({:?}, linear {} ms); ", w_pan(k).0, k.dur_ms),
			}
		}
		t += &format!("callback {}; ", j + 1);
	}
	t
}
/// `twin`: no commands; the sound is built with the last commanded value of every kind
fn run_wait(c: &WaitCase, twin: bool) -> Vec<Vec<i128>> {
	let mut mgr = simple_manager(SR, IBS);
	let mut _clock = None;
	let st = if c.clock {
		let mut ck = mgr.add_clock(ClockSpeed::TicksPerSecond(100.0)).unwrap();
		ck.start();
		let t = ClockTime { clock: ck.id(), ticks: c.wait_ms / 10, fraction: 0.0 };
		_clock = Some(ck);
		StartTime::ClockTime(t)
	} else {
		StartTime::Delayed(Duration::from_millis(c.wait_ms))
	};
	let mut data = indexed_sound(SR, 60000).start_time(st);
	if twin {
		for k in &c.cmds {
			data = match k.kind {
				0 => data.volume(w_db(k)),
				1 => data.playback_rate(w_rate(k)),
				_ => data.panning(w_pan(k)),
			};
		}
	}
	let mut trk = if c.sub { Some(mgr.add_sub_track(TrackBuilder::new()).unwrap()) } else { None };
	let mut h = match trk.as_mut() {
		Some(t) => t.play(data).unwrap(),
		None => mgr.play(data).unwrap(),
	};
	let mut out = vec![];
	for j in 0..c.callbacks {
		if !twin {
			for k in c.cmds.iter().filter(|k| k.iv == j) {
				match k.kind {
					0 => h.set_volume(w_db(k), w_tween(k)),
					1 => h.set_playback_rate(w_rate(k), w_tween(k)),
					_ => h.set_panning(w_pan(k), w_tween(k)),
				}
			}
		}
		let o = mgr.backend_mut().callback(CB_FRAMES, 2);
		let mut v: Vec<i128> = o.iter().map(|x| obs32(*x)).collect();
		v.push(pstate(h.state()));
		v.push(obs64(h.position()));
		out.push(v);
	}
	out
}
fn check_wait(s: &mut Session, c: &WaitCase, tag: &str) {
	let a = run_wait(c, false);
	let b = run_wait(c, true);
	s.eval_only("w_settled_twin");
	s.nontrivial.insert(format!("w:{tag}:{c:?}"));
	for k in &c.cmds {
		s.count(&format!("w_settled_kind:{}", ["set_volume", "set_playback_rate", "set_panning"][k.kind as usize]));
	}
	// the twin must be a real test: the sound is heard before the end (unless silenced)
	let heard = b.iter().any(|v| v[..2 * CB_FRAMES].iter().any(|x| *x != 0 && *x != obs32(-0.0)));
	if heard {
		s.count("w_settled_sound_heard");
	}
	if a != b {
		let j = (0..a.len()).find(|j| a[*j] != b[*j]).unwrap();
		let w = (0..a[j].len()).find(|i| a[j][*i] != b[j][*i]).unwrap();
		let what_obs = if w < 2 * CB_FRAMES {
			format!("output frame {} channel {}: {} (twin {})", j * CB_FRAMES + w / 2, w % 2, f32::from_bits(a[j][w] as u32), f32::from_bits(b[j][w] as u32))
		} else if w == 2 * CB_FRAMES {
			format!("state() {} (twin {})", a[j][w], b[j][w])
		} else {
			format!("position() {} (twin {})", f64::from_bits(a[j][w] as u64), f64::from_bits(b[j][w] as u64))
		};
		let peak = a.iter().flat_map(|v| v[..2 * CB_FRAMES].iter()).map(|x| f32::from_bits(*x as u32).abs()).fold(0.0f32, f32::max);
		s.fail(
			w_text(c),
			format!(
				"W-settled: every command was issued while the sound waited for its start time and every tween ended at least one callback before the start, so from its first frame on the sound must be heard with the last commanded values, exactly like the twin built with those values and given no command; first difference in callback {}: {what_obs}; loudest output sample of the run {peak}",
				j + 1
			),
			None,
		);
	}
}

// W-shift: constant-signal sound, tweens that straddle the start
#[derive(Clone, Debug)]
struct ShiftCase {
	wait_ms: u64,
	cmds: Vec<WCmd>, // kinds 0 / 2 only
	callbacks: usize,
}
fn run_shift(c: &ShiftCase, delayed: bool) -> Vec<f32> {
	let mut mgr = simple_manager(SR, IBS);
	let frames: Vec<Frame> = (0..4000).map(|_| Frame::new(0.5, 0.25)).collect();
	let mut data = sound_from_frames(SR, frames);
	if delayed {
		data = data.start_time(StartTime::Delayed(Duration::from_millis(c.wait_ms)));
	}
	let mut h = mgr.play(data).unwrap();
	let mut out = vec![];
	for j in 0..c.callbacks {
		for k in c.cmds.iter().filter(|k| k.iv == j) {
			match k.kind {
				0 => h.set_volume(w_db(k), w_tween(k)),
				_ => h.set_panning(w_pan(k), w_tween(k)),
			}
		}
		out.extend(mgr.backend_mut().callback(CB_FRAMES, 2));
	}
	out
}
fn check_shift(s: &mut Session, c: &ShiftCase, tag: &str) {
	let a = run_shift(c, true);
	let b = run_shift(c, false);
	s.eval_only("w_shift_twin");
	s.nontrivial.insert(format!("ws:{tag}:{c:?}"));
	// first audible frame of the delayed sound, then a few frames for the resampler's start-up
	let Some(first) = a.chunks(2).position(|f| f[0] != 0.0 || f[1] != 0.0) else {
		// silenced before it started: the twin must be silent from there on as well
		let from = (c.wait_ms as usize + 2 * CB_FRAMES).min(b.len() / 2);
		if let Some(i) = (from..b.len() / 2).find(|i| b[2 * i].abs() > 1e-6 || b[2 * i + 1].abs() > 1e-6) {
			s.count("w_shift_delayed_silent_twin_not");
			let _ = i;
		}
		return;
	};
	let from = first + 8;
	let mut text = format!("static sound, constant frames (0.5, 0.25), 1 kHz, callbacks of {CB_FRAMES} frames, start time Delayed({} ms); ", c.wait_ms);
	for j in 0..c.callbacks {
		for k in c.cmds.iter().filter(|k| k.iv == j) {
			match k.kind {
				0 => text += &format!("set_volume({:?}, linear {} ms); ", w_db(k), k.dur_ms),
				_ => text += &format!("set_panning({:?}, linear {} ms); ", w_pan(k).0, k.dur_ms),
			}
		}
		text += &format!("callback {}; ", j + 1);
	}
	for i in from..a.len() / 2 {
		for ch in 0..2 {
			let (x, y) = (a[2 * i + ch], b[2 * i + ch]);
			if (x - y).abs() > 1e-5 {
				s.fail(
					text,
					format!(
						"W-shift: the tweens of commands issued during the wait run from the callback after the command, so once the sound is audible (first at frame {first}) it must be heard at the same level as the twin that started at once and got the same commands before the same callbacks; frame {i} channel {ch}: {x} (twin {y})"
					),
					None,
				);
				return;
			}
		}
	}
}

// ---- effects in a delay's feedback loop ----------------------------------------------------------
struct FbFxSc {
	mgr: Mgr,
	vol: VolumeControlHandle,
	filter: FilterHandle,
	pan: PanningControlHandle,
	delay: DelayHandle,
	_t: TrackHandle,
	_s: StaticSoundHandle,
}
impl FbFxSc {
	/// 0: 5 ms delay, warm; 1: 30 ms delay (longer than a callback), warm; 2: 5 ms delay, commands may
	/// precede the first callback
	fn new(variant: u64) -> Self {
		let mut mgr = simple_manager(SR, IBS);
		let mut d = DelayBuilder::new().delay_time(Duration::from_millis(if variant == 1 { 30 } else { 5 })).feedback(Decibels(-3.0)).mix(Mix(0.5));
		let vol = d.add_feedback_effect(VolumeControlBuilder::new(Decibels(-3.0)));
		let filter = d.add_feedback_effect(FilterBuilder::new().cutoff(123.0));
		let pan = d.add_feedback_effect(PanningControlBuilder(Value::Fixed(Panning(0.2))));
		let mut tb = TrackBuilder::new();
		let delay = tb.add_effect(d);
		let mut t = mgr.add_sub_track(tb).unwrap();
		let snd = t.play(noise_sound(30000)).unwrap();
		if variant != 2 {
			for _ in 0..5 {
				mgr.backend_mut().callback(CB_FRAMES, 2);
			}
		}
		FbFxSc { mgr, vol, filter, pan, delay, _t: t, _s: snd }
	}
}
impl Scene for FbFxSc {
	fn kinds(&self) -> Vec<&'static str> {
		vec!["effect::volume_control::set_volume", "effect::filter::set_cutoff", "effect::filter::set_mode", "effect::panning_control::set_panning", "effect::delay::set_feedback"]
	}
	fn issue(&mut self, kind: usize, id: i64) {
		let x = u(id);
		let t = tw(id);
		match kind {
			0 => self.vol.set_volume(Decibels(-(x * 18.0) as f32), t),
			1 => self.filter.set_cutoff(50.0 + x * 290.0, t),
			2 => self.filter.set_mode([FilterMode::BandPass, FilterMode::HighPass, FilterMode::Notch][(id % 3) as usize]),
			3 => self.pan.set_panning(Panning((x * 1.7 - 0.9) as f32), t),
			_ => self.delay.set_feedback(Decibels(-(x * 18.0) as f32), t),
		}
	}
	fn mgr(&mut self) -> &mut Mgr {
		&mut self.mgr
	}
}
fn check_next(s: &mut Session, name: &str, mk: &dyn Fn() -> Box<dyn Scene>, pat: &Pattern, kinds: &[&'static str]) {
	let (term, _) = pattern_term(kinds.len(), pat);
	let a = run_pattern(mk, pat);
	let none: Pattern = pat.iter().map(|_| vec![]).collect();
	let n = run_pattern(mk, &none);
	let Some(fc) = pat.iter().position(|b| !b.is_empty()) else { return };
	let fd = (0..a.len()).find(|j| a[*j] != n[*j]);
	s.eval_only("w_next_callback");
	if fd != Some(fc) {
		s.fail(
			format!("scene {name} (noise through a delay with feedback effects [volume control -3 dB, low-pass 123 Hz, panning 0.2], feedback -3 dB, mix 0.5) kinds {:?}: {}; first commands {:?}", kinds, term, pat[fc].iter().map(|(k, id)| format!("{}#{id}", kinds[*k])).collect::<Vec<_>>()),
			format!(
				"W-next: the first commands are issued before callback {} with values that differ from the builders'; against the command-free run the output must differ first in callback {}, it differs first in {}",
				fc + 1,
				fc + 1,
				match fd {
					Some(j) => format!("callback {}", j + 1),
					None => format!("no callback at all ({} callbacks run): the commands were never applied", a.len()),
				}
			),
			None,
		);
	}
}

fn part_w(s: &mut Session, args: &Args, covered: &mut BTreeSet<String>) {
	let c = |iv: usize, kind: u8, id: i64, dur_ms: u64, silence: bool| WCmd { iv, kind, id, dur_ms, silence };
	// ---- directed, independent of args.seed ----
	let directed: Vec<WaitCase> = vec![
		// a fade to silence that is over long before the sound starts
		WaitCase { clock: false, sub: false, wait_ms: 96, cmds: vec![c(1, 0, 3, 30, true)], callbacks: 14 },
		// an instant setter before the very first callback
		WaitCase { clock: false, sub: false, wait_ms: 48, cmds: vec![c(0, 0, 7, 0, false)], callbacks: 9 },
		WaitCase { clock: false, sub: false, wait_ms: 60, cmds: vec![c(2, 1, 11, 0, false)], callbacks: 10 },
		WaitCase { clock: false, sub: false, wait_ms: 72, cmds: vec![c(1, 2, 5, 14, false)], callbacks: 11 },
		WaitCase { clock: true, sub: false, wait_ms: 50, cmds: vec![c(1, 0, 9, 0, false)], callbacks: 10 },
		WaitCase { clock: true, sub: true, wait_ms: 80, cmds: vec![c(0, 1, 2, 21, false), c(2, 2, 4, 7, false)], callbacks: 12 },
		// bursts: the last of each kind is the value the sound starts with
		WaitCase { clock: false, sub: true, wait_ms: 84, cmds: vec![c(1, 0, 1, 7, false), c(1, 1, 2, 0, false), c(1, 0, 3, 14, false), c(3, 0, 6, 0, false)], callbacks: 12 },
	];
	for (i, w) in directed.iter().enumerate() {
		check_wait(s, w, &format!("d{i}"));
	}
	let directed_shift: Vec<ShiftCase> = vec![
		// a 60 ms fade-out issued 36 ms before the start: the sound comes in at 40 % of the fade
		ShiftCase { wait_ms: 60, cmds: vec![c(2, 0, 3, 60, true)], callbacks: 12 },
		ShiftCase { wait_ms: 48, cmds: vec![c(1, 0, 20, 80, false)], callbacks: 14 },
		ShiftCase { wait_ms: 48, cmds: vec![c(0, 2, 27, 90, false), c(2, 0, 10, 50, false)], callbacks: 14 },
	];
	for (i, w) in directed_shift.iter().enumerate() {
		check_shift(s, w, &format!("d{i}"));
	}
	type MkF = fn() -> Box<dyn Scene>;
	let fb: [(&str, MkF); 3] = [("fbfx0", || Box::new(FbFxSc::new(0))), ("fbfx1", || Box::new(FbFxSc::new(1))), ("fbfx2", || Box::new(FbFxSc::new(2)))];
	let kinds = FbFxSc::new(2).kinds();
	for (name, mk) in fb.iter() {
		let mkb = move || mk();
		let mut id = 0;
		for k in 0..kinds.len() {
			for first in [0usize, 2] {
				// one command of the kind, then a burst two intervals later
				let mut pat: Pattern = vec![vec![]; 5];
				id += 1;
				pat[first].push((k, id));
				for _ in 0..3 {
					id += 1;
					pat[first + 2].push((k, id));
				}
				check_next(s, name, &mkb, &pat, &kinds);
				check_scene(s, name, &mkb, &pat, &kinds, covered, 0);
			}
		}
	}
	// ---- seeded ----
	let mut r = Rng::new(args.seed ^ 0xC07_0077);
	let n = (if args.thorough { 400 } else { 60 }) * args.budget_mul;
	for i in 0..n {
		let clock = r.chance(1, 3);
		let wait_ms = if clock { 10 * r.range(4, 12) as u64 } else { r.range(36, 130) as u64 };
		let mut cmds = vec![];
		let last_iv = ((wait_ms as usize).saturating_sub(CB_FRAMES)) / CB_FRAMES; // iv * CB + CB <= wait
		for iv in 0..last_iv {
			if !r.chance(1, 3) {
				continue;
			}
			for _ in 0..r.range(1, 3) {
				let room = wait_ms - ((iv + 1) * CB_FRAMES) as u64;
				let dur = if r.chance(1, 3) { 0 } else { r.below(room + 1) };
				cmds.push(c(iv, r.below(3) as u8, r.range(0, 1000), dur, r.chance(1, 8)));
			}
		}
		if cmds.is_empty() {
			cmds.push(c(0, r.below(3) as u8, r.range(0, 1000), 0, false));
		}
		let w = WaitCase { clock, sub: r.chance(1, 3), wait_ms, cmds, callbacks: wait_ms as usize / CB_FRAMES + 5 };
		check_wait(s, &w, &format!("r{i}"));
	}
	for i in 0..n / 2 {
		let wait_ms = r.range(24, 100) as u64;
		let mut cmds = vec![];
		for iv in 0..(wait_ms as usize / CB_FRAMES) {
			if r.chance(1, 2) {
				cmds.push(c(iv, if r.chance(1, 2) { 0 } else { 2 }, r.range(0, 1000), r.range(0, 150) as u64, r.chance(1, 8)));
			}
		}
		if cmds.is_empty() {
			cmds.push(c(0, 0, r.range(0, 1000), wait_ms + 30, false));
		}
		let w = ShiftCase { wait_ms, cmds, callbacks: wait_ms as usize / CB_FRAMES + 8 };
		check_shift(s, &w, &format!("r{i}"));
	}
	let reps = (if args.thorough { 30 } else { 8 }) * args.budget_mul;
	for (name, mk) in fb.iter() {
		let mkb = move || mk();
		for _ in 0..reps {
			let nk = r.range(1, 3) as usize;
			let mut pick: Vec<usize> = vec![];
			while pick.len() < nk {
				let k = r.below(kinds.len() as u64) as usize;
				if !pick.contains(&k) {
					pick.push(k);
				}
			}
			let mut id = r.range(0, 20);
			let iv = r.range(3, 6) as usize;
			let pat = gen_pattern(&mut r, &pick, iv, &mut id);
			check_next(s, name, &mkb, &pat, &kinds);
			check_scene(s, name, &mkb, &pat, &kinds, covered, 0);
		}
	}
}
