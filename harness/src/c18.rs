//! C18 — decoding is faithful; streaming a file equals loading it; bad files give errors.
//!
//! Drives `StaticSoundData::from_cursor`, `StreamingSoundData::from_cursor` and playback of
//! the streaming sound through `AudioManager<VBackend>` (public API only):
//!  * valid PCM WAV files of every encoding from the harness's own encoder (the Rust twin of
//!    the Gallina `encode`; the model checks the bytes through their FNV hash) — frames,
//!    frame count and sample rate against an independent conversion and against the model;
//!  * streaming vs loading on those WAVs and on the assets shipped with the repository, from
//!    random start positions and under random seek sequences (output of the renderer at rate 1
//!    matched against the statically loaded frames);
//!  * all truncations, all single-byte header corruptions, sampled data corruptions;
//!  * a second format with a model, a FLAC subset (C18/ModelFlac.v): valid files from the harness's
//!    own FLAC encoder (the model re-derives the bytes), loaded and streamed; and the malformed
//!    stream that random corruption never reaches -- files that are INTACT at container level but
//!    contain one frame the codec or the demuxer must reject (reserved subframe type, reserved
//!    sample-size code, wasted-bits flag, CRC-16 / CRC-8 mismatch with everything else consistent)
//!    or that are cut inside a frame, for every frame index: error value or the valid prefix,
//!    never later audio moved up;
//!  * TERMINATION: truncated files (WAV with stale length fields, cut / damaged FLAC) streamed to the
//!    end: after the valid prefix the sound must reach Stopped by itself (end or a poppable error)
//!    within bounded time -- silence for ever is a hang -- and the decoder (observed through the
//!    drop of the bytes it owns) must be released once handle and manager are dropped.
use crate::backend::*;
use crate::util::*;
use kira::sound::static_sound::StaticSoundData;
use kira::sound::streaming::StreamingSoundData;
use kira::sound::{EndPosition, FromFileError, PlaybackPosition, PlaybackState, Region};
use kira::Tween;
use std::io::Cursor;
use std::sync::mpsc;
use std::time::{Duration, Instant};

// ------------------------------------------------------------------------------------------
// the independent encoder (twin of C18/Model.v `encode`)
// ------------------------------------------------------------------------------------------
#[derive(Clone, Copy, PartialEq, Eq, Debug, PartialOrd, Ord)]
pub enum Fmt {
	U8,
	I16,
	I24,
	I32,
	F32,
	F64,
}
const FMTS: [Fmt; 6] = [Fmt::U8, Fmt::I16, Fmt::I24, Fmt::I32, Fmt::F32, Fmt::F64];
impl Fmt {
	fn width(self) -> usize {
		match self {
			Fmt::U8 => 1,
			Fmt::I16 => 2,
			Fmt::I24 => 3,
			Fmt::I32 | Fmt::F32 => 4,
			Fmt::F64 => 8,
		}
	}
	fn bits(self) -> u16 {
		8 * self.width() as u16
	}
	fn tag(self) -> u16 {
		match self {
			Fmt::F32 | Fmt::F64 => 3,
			_ => 1,
		}
	}
	fn signed(self) -> bool {
		matches!(self, Fmt::I16 | Fmt::I24 | Fmt::I32)
	}
	fn range(self) -> (i128, i128) {
		let b = self.bits() as u32;
		if self.signed() {
			(-(1i128 << (b - 1)), (1i128 << (b - 1)) - 1)
		} else {
			(0, (1i128 << b) - 1)
		}
	}
}
/// `samples` are interleaved; a sample is the signed value (I16/I24/I32), the unsigned byte
/// (U8) or the IEEE bit pattern (F32/F64)
pub fn encode(fmt: Fmt, ch: u16, rate: u32, samples: &[i128]) -> Vec<u8> {
	let w = fmt.width();
	let dlen = samples.len() * w;
	let block = ch as usize * w;
	let mut out = Vec::with_capacity(44 + dlen + 1);
	out.extend_from_slice(b"RIFF");
	out.extend_from_slice(&((36 + dlen + dlen % 2) as u32).to_le_bytes());
	out.extend_from_slice(b"WAVE");
	out.extend_from_slice(b"fmt ");
	out.extend_from_slice(&16u32.to_le_bytes());
	out.extend_from_slice(&fmt.tag().to_le_bytes());
	out.extend_from_slice(&ch.to_le_bytes());
	out.extend_from_slice(&rate.to_le_bytes());
	out.extend_from_slice(&(((rate as u64 * block as u64) % (1u64 << 32)) as u32).to_le_bytes());
	out.extend_from_slice(&(block as u16).to_le_bytes());
	out.extend_from_slice(&fmt.bits().to_le_bytes());
	out.extend_from_slice(b"data");
	out.extend_from_slice(&(dlen as u32).to_le_bytes());
	for &x in samples {
		let u = x.rem_euclid(1i128 << (8 * w as u32)) as u128;
		for k in 0..w {
			out.push(((u >> (8 * k)) & 0xFF) as u8);
		}
	}
	if dlen % 2 == 1 {
		out.push(0);
	}
	out
}
/// the same audio under a WAVE_FORMAT_EXTENSIBLE header (fmt chunk of 40 bytes: cbSize 22, valid
/// bits = container bits, dwChannelMask, SubFormat GUID of PCM / IEEE float); twin of
/// C18/ModelWavExt.v `encode_ext`
pub fn encode_ext(fmt: Fmt, ch: u16, rate: u32, mask: u32, samples: &[i128]) -> Vec<u8> {
	let w = fmt.width();
	let dlen = samples.len() * w;
	let block = ch as usize * w;
	let mut out = Vec::with_capacity(68 + dlen + 1);
	out.extend_from_slice(b"RIFF");
	out.extend_from_slice(&((60 + dlen + dlen % 2) as u32).to_le_bytes());
	out.extend_from_slice(b"WAVE");
	out.extend_from_slice(b"fmt ");
	out.extend_from_slice(&40u32.to_le_bytes());
	out.extend_from_slice(&0xFFFEu16.to_le_bytes());
	out.extend_from_slice(&ch.to_le_bytes());
	out.extend_from_slice(&rate.to_le_bytes());
	out.extend_from_slice(&(((rate as u64 * block as u64) % (1u64 << 32)) as u32).to_le_bytes());
	out.extend_from_slice(&(block as u16).to_le_bytes());
	out.extend_from_slice(&fmt.bits().to_le_bytes());
	out.extend_from_slice(&22u16.to_le_bytes());
	out.extend_from_slice(&fmt.bits().to_le_bytes());
	out.extend_from_slice(&mask.to_le_bytes());
	out.extend_from_slice(&fmt.tag().to_le_bytes());
	out.extend_from_slice(&[0, 0, 0, 0, 0x10, 0, 0x80, 0, 0, 0xAA, 0, 0x38, 0x9B, 0x71]);
	out.extend_from_slice(b"data");
	out.extend_from_slice(&(dlen as u32).to_le_bytes());
	for &x in samples {
		let u = x.rem_euclid(1i128 << (8 * w as u32)) as u128;
		for k in 0..w {
			out.push(((u >> (8 * k)) & 0xFF) as u8);
		}
	}
	if dlen % 2 == 1 {
		out.push(0);
	}
	out
}
/// the value a sample is specified to decode to (computed in f64, independent of symphonia)
fn conv(fmt: Fmt, x: i128) -> f32 {
	match fmt {
		Fmt::U8 => ((x - 128) as f64 / 128.0) as f32,
		Fmt::I16 => (x as f64 / 32768.0) as f32,
		Fmt::I24 => (x as f64 / 8388608.0) as f32,
		Fmt::I32 => (x as f64 / 2147483648.0) as f32,
		Fmt::F32 => f32::from_bits(x as u32),
		Fmt::F64 => f64::from_bits(x as u64) as f32,
	}
}
fn dec_sample(fmt: Fmt, b: &[u8]) -> i128 {
	let mut u: i128 = 0;
	for (k, &x) in b.iter().enumerate() {
		u |= (x as i128) << (8 * k);
	}
	if fmt.signed() && u >= 1i128 << (fmt.bits() - 1) {
		u - (1i128 << fmt.bits())
	} else {
		u
	}
}
fn fnv(b: &[u8]) -> u64 {
	let mut h: u64 = 14695981039346656037;
	for &x in b {
		h = (h ^ x as u64).wrapping_mul(1099511628211);
	}
	h
}
fn gen_sample(r: &mut Rng, fmt: Fmt) -> i128 {
	let (lo, hi) = fmt.range();
	match fmt {
		Fmt::F32 => match r.below(8) {
			0 => *r.pick(&[0u32, 0x8000_0000, 0x3F80_0000, 0xBF80_0000, 0x7F80_0000, 0xFF80_0000, 0x7FC0_0000, 1, 0x007F_FFFF, 0x0080_0000, 0x7F7F_FFFF, 0x3F7F_FFFF]) as i128,
			1 => r.next() as u32 as i128,
			_ => ((r.unit_f64() * 2.0 - 1.0) as f32).to_bits() as i128,
		},
		Fmt::F64 => match r.below(10) {
			0 => *r.pick(&[
				0u64,
				0x8000_0000_0000_0000,
				0x3FF0_0000_0000_0000,
				0xBFF0_0000_0000_0000,
				0x7FF0_0000_0000_0000,
				0xFFF0_0000_0000_0000,
				0x7FF8_0000_0000_0000,
				1,
				0x47EF_FFFF_E000_0000, // f32::MAX
				0x47EF_FFFF_F000_0000, // halfway to 2^128: rounds to inf
				0x47EF_FFFF_EFFF_FFFF,
				0x36A0_0000_0000_0000, // 2^-149
				0x3690_0000_0000_0000, // 2^-150: ties to even -> 0
				0x3690_0000_0000_0001,
				0x3FF0_0000_1000_0000, // 1 + 2^-24: tie
				0x3FF0_0000_3000_0000, // 1 + 3*2^-24: tie, rounds up
				0x3FEF_FFFF_FFFF_FFFF,
				0x380F_FFFF_FFFF_FFFF, // just below the smallest normal f32
			]) as i128,
			1 => r.next() as i128,
			2 => {
				// a binary32 value plus a small perturbation (rounding cases)
				let f = ((r.unit_f64() * 2.0 - 1.0) as f32) as f64;
				(f.to_bits().wrapping_add(r.below(3) << 28).wrapping_sub(r.below(3))) as i128
			}
			_ => (r.unit_f64() * 2.0 - 1.0).to_bits() as i128,
		},
		_ => match r.below(8) {
			0 => *r.pick(&[lo, hi, 0, -1, 1, lo + 1, hi - 1, (hi + 1) / 2]).max(&lo).min(&hi),
			_ => lo + (r.next() as u128 % ((hi - lo + 1) as u128)) as i128,
		},
	}
}

// ------------------------------------------------------------------------------------------
// FLAC subset: the independent encoder (twin of C18/ModelFlac.v `flac_encode_bad`)
// ------------------------------------------------------------------------------------------
#[derive(Clone, Debug, PartialEq)]
pub enum Sub {
	Const(i64),
	Verb(Vec<i64>),
}
#[derive(Clone, Debug, PartialEq)]
pub struct FlFrame {
	pub n: usize, // block size of this frame
	pub subs: Vec<Sub>, // one per channel
}
#[derive(Clone, Copy, Debug, PartialEq)]
pub struct FlSpec {
	pub bps: u32, // 8, 16, 24
	pub ch: u32,
	pub rate: u32,
	pub bs: u32, // STREAMINFO min = max block size
}
/// a defect of ONE frame that leaves the container (sync code, frame lengths) intact
#[derive(Clone, Copy, Debug, PartialEq)]
pub enum Defect {
	/// the subframe of channel `.0` announces the type code `.1` (reserved in FLAC); CRCs correct
	ReservedSubframe(usize, u8),
	/// reserved sample-size code (3 or 7) in the frame header, CRC-8 and CRC-16 recomputed
	ReservedSampleSize(u8),
	/// "wasted bits" flag set in the subframe header of channel `.0` although nothing was removed, CRC-16 recomputed
	WastedFlag(usize),
	/// the frame's CRC-16 xor `d` (d != 0)
	BadCrc16(u16),
	/// the header's CRC-8 xor `d` (d != 0), CRC-16 recomputed over the changed frame
	BadCrc8(u8),
}
impl Defect {
	/// (kind, argument, channel) as in C18/Run.v `mk_defect`
	fn code(self) -> (i128, i128, i128) {
		match self {
			Defect::ReservedSubframe(c, t) => (1, t as i128, c as i128),
			Defect::ReservedSampleSize(c) => (2, c as i128, 0),
			Defect::WastedFlag(c) => (3, 0, c as i128),
			Defect::BadCrc16(d) => (4, d as i128, 0),
			Defect::BadCrc8(d) => (5, d as i128, 0),
		}
	}
	/// why the reference decoder stops there (C18/Run.v `stop_code`)
	fn stop_code(self) -> i128 {
		match self {
			Defect::ReservedSubframe(..) => 8,
			Defect::ReservedSampleSize(_) => 5,
			Defect::WastedFlag(_) => 10,
			Defect::BadCrc16(_) => 11,
			Defect::BadCrc8(_) => 6,
		}
	}
}
pub fn crc8(bytes: &[u8]) -> u8 {
	let mut crc = 0u8;
	for b in bytes {
		crc ^= b;
		for _ in 0..8 {
			crc = if crc & 0x80 != 0 { (crc << 1) ^ 0x07 } else { crc << 1 };
		}
	}
	crc
}
pub fn crc16(bytes: &[u8]) -> u16 {
	let mut crc = 0u16;
	for b in bytes {
		crc ^= (*b as u16) << 8;
		for _ in 0..8 {
			crc = if crc & 0x8000 != 0 { (crc << 1) ^ 0x8005 } else { crc << 1 };
		}
	}
	crc
}
fn ss_code(bps: u32) -> u8 {
	match bps {
		8 => 1,
		16 => 4,
		24 => 6,
		_ => panic!("bps"),
	}
}
fn be_sample(out: &mut Vec<u8>, w: usize, x: i64) {
	let u = x.rem_euclid(1i64 << (8 * w)) as u64;
	for k in (0..w).rev() {
		out.push(((u >> (8 * k)) & 0xFF) as u8);
	}
}
pub fn flac_stream_header(sp: &FlSpec, total: u64) -> Vec<u8> {
	let mut b = vec![];
	b.extend_from_slice(b"fLaC");
	b.extend_from_slice(&[0x80, 0, 0, 34]);
	b.extend_from_slice(&(sp.bs as u16).to_be_bytes());
	b.extend_from_slice(&(sp.bs as u16).to_be_bytes());
	b.extend_from_slice(&[0; 6]);
	let packed: u64 = ((sp.rate as u64) << 44) | (((sp.ch - 1) as u64) << 41) | (((sp.bps - 1) as u64) << 36) | total;
	b.extend_from_slice(&packed.to_be_bytes());
	b.extend_from_slice(&[0; 16]);
	b
}
pub fn flac_frame(sp: &FlSpec, idx: usize, fr: &FlFrame, d: Option<Defect>) -> Vec<u8> {
	assert!(idx < 128 && fr.n >= 1 && fr.n <= 256 && fr.subs.len() == sp.ch as usize);
	let w = (sp.bps / 8) as usize;
	let mut f = vec![0xFF, 0xF8, 0x60];
	let ss = match d {
		Some(Defect::ReservedSampleSize(c)) => c,
		_ => ss_code(sp.bps),
	};
	f.push((((sp.ch - 1) as u8) << 4) | (ss << 1));
	f.push(idx as u8);
	f.push((fr.n - 1) as u8);
	let mut c8 = crc8(&f);
	if let Some(Defect::BadCrc8(x)) = d {
		c8 ^= x;
	}
	f.push(c8);
	for (ci, s) in fr.subs.iter().enumerate() {
		let mut h: u8 = match s {
			Sub::Const(_) => 0,
			Sub::Verb(_) => 2,
		};
		match d {
			Some(Defect::ReservedSubframe(c, t)) if c == ci => h = t << 1,
			Some(Defect::WastedFlag(c)) if c == ci => h |= 1,
			_ => {}
		}
		f.push(h);
		match s {
			Sub::Const(v) => be_sample(&mut f, w, *v),
			Sub::Verb(xs) => {
				assert!(xs.len() == fr.n);
				for &x in xs {
					be_sample(&mut f, w, x);
				}
			}
		}
	}
	let mut c16 = crc16(&f);
	if let Some(Defect::BadCrc16(x)) = d {
		c16 ^= x;
	}
	f.extend_from_slice(&c16.to_be_bytes());
	f
}
/// returns the file and the byte offset of every frame (plus the end)
pub fn flac_encode(sp: &FlSpec, frames: &[FlFrame], bad: Option<(usize, Defect)>) -> (Vec<u8>, Vec<usize>) {
	let total: u64 = frames.iter().map(|f| f.n as u64).sum();
	let mut b = flac_stream_header(sp, total);
	let mut offs = vec![];
	for (i, fr) in frames.iter().enumerate() {
		offs.push(b.len());
		let d = match bad {
			Some((k, d)) if k == i => Some(d),
			_ => None,
		};
		b.extend(flac_frame(sp, i, fr, d));
	}
	offs.push(b.len());
	(b, offs)
}
/// the audio: per frame, `n` time steps of `ch` samples
pub fn flac_samples(fr: &FlFrame) -> Vec<Vec<i64>> {
	(0..fr.n)
		.map(|t| {
			fr.subs
				.iter()
				.map(|s| match s {
					Sub::Const(v) => *v,
					Sub::Verb(xs) => xs[t],
				})
				.collect()
		})
		.collect()
}
/// the float a FLAC sample is specified to load as: x / 2^(bps-1), exactly representable
fn flac_conv(bps: u32, x: i64) -> f32 {
	(x as f64 / (1u64 << (bps - 1)) as f64) as f32
}
pub fn flac_expected(sp: &FlSpec, frames: &[FlFrame]) -> Option<Vec<(f32, f32)>> {
	let mut v = vec![];
	for fr in frames {
		for s in flac_samples(fr) {
			match s.len() {
				1 => v.push((flac_conv(sp.bps, s[0]), flac_conv(sp.bps, s[0]))),
				2 => v.push((flac_conv(sp.bps, s[0]), flac_conv(sp.bps, s[1]))),
				_ => return None,
			}
		}
	}
	Some(v)
}

// ------------------------------------------------------------------------------------------
// running the real loaders (panic capture + watchdog)
// ------------------------------------------------------------------------------------------
#[derive(Clone, Debug, PartialEq)]
pub enum Load {
	Ok { rate: u32, frames: Vec<(f32, f32)> },
	ErrChannels,
	Err(String),
	Panic(String),
	Hang,
}
impl Load {
	fn obs(&self) -> Vec<i128> {
		match self {
			Load::Ok { rate, frames } => {
				let mut v = vec![0, *rate as i128, frames.len() as i128];
				for (l, r) in frames {
					v.push(obs32(*l));
					v.push(obs32(*r));
				}
				v
			}
			Load::ErrChannels => vec![1],
			Load::Err(_) => vec![2],
			Load::Panic(_) => vec![3],
			Load::Hang => vec![5],
		}
	}
	fn short(&self) -> String {
		match self {
			Load::Ok { rate, frames } => format!("Ok(rate {}, {} frames)", rate, frames.len()),
			Load::ErrChannels => "Err(UnsupportedChannelConfiguration)".into(),
			Load::Err(e) => format!("Err({})", e),
			Load::Panic(m) => format!("PANIC({})", m),
			Load::Hang => "HANG".into(),
		}
	}
}
fn with_watchdog<T: Send + 'static>(secs: u64, f: impl FnOnce() -> T + Send + 'static) -> Option<Result<T, String>> {
	let (tx, rx) = mpsc::channel();
	std::thread::spawn(move || {
		let r = match catch(f) {
			Outcome::Ok(v) => Ok(v),
			_ => Err(last_panic()),
		};
		let _ = tx.send(r);
	});
	rx.recv_timeout(Duration::from_secs(secs)).ok()
}
fn classify_err(e: FromFileError) -> Load {
	match e {
		FromFileError::UnsupportedChannelConfiguration => Load::ErrChannels,
		e => Load::Err(format!("{}", e)),
	}
}
fn load_inline(b: Vec<u8>) -> Load {
	match catch(move || StaticSoundData::from_cursor(Cursor::new(b))) {
		Outcome::Ok(Err(e)) => classify_err(e),
		Outcome::Ok(Ok(d)) => Load::Ok { rate: d.sample_rate, frames: d.frames.iter().map(|f| (f.left, f.right)).collect() },
		_ => Load::Panic(last_panic()),
	}
}
/// a worker thread that loads files; a load that does not answer within the watchdog time is a
/// hang (the worker is then abandoned and replaced)
struct Loader {
	tx: mpsc::Sender<Vec<u8>>,
	rx: mpsc::Receiver<Load>,
}
impl Loader {
	fn new() -> Loader {
		let (tx, jobs) = mpsc::channel::<Vec<u8>>();
		let (res, rx) = mpsc::channel::<Load>();
		std::thread::spawn(move || {
			while let Ok(b) = jobs.recv() {
				if res.send(load_inline(b)).is_err() {
					break;
				}
			}
		});
		Loader { tx, rx }
	}
}
thread_local! {
	static LOADER: std::cell::RefCell<Option<Loader>> = std::cell::RefCell::new(None);
}
pub fn load_static(bytes: &[u8]) -> Load {
	LOADER.with(|l| {
		let mut l = l.borrow_mut();
		if l.is_none() {
			*l = Some(Loader::new());
		}
		let ld = l.as_ref().unwrap();
		ld.tx.send(bytes.to_vec()).unwrap();
		match ld.rx.recv_timeout(Duration::from_secs(8)) {
			Ok(r) => r,
			Err(_) => {
				*l = None;
				Load::Hang
			}
		}
	})
}

/// What playing the streaming sound produced.
pub struct Played {
	pub open: Load, // result of from_cursor / play (frames empty)
	pub num_frames: usize,
	pub out: Vec<(f32, f32)>,
	pub issued_at: Vec<usize>,
	pub error: Option<String>,
	pub stopped: bool,
	pub hang: bool,
	/// termination monitor (only with an idle limit): nothing but silence came out for longer than
	/// the limit although the sound was not Stopped
	pub idle_timeout: bool,
	/// the media source (hence the decoder and its thread) was dropped within 2 s of the handle and
	/// the manager being dropped
	pub released: bool,
	/// process CPU time (ms) consumed while waiting for that release, and the wall time (ms) waited
	pub wait_cpu_ms: u64,
	pub wait_wall_ms: u64,
}
/// the bytes of the file, owned by the decoder: dropping them = the decoder (and the thread that
/// owns it) has been released
struct Tracked(Vec<u8>, std::sync::Arc<std::sync::atomic::AtomicBool>);
impl AsRef<[u8]> for Tracked {
	fn as_ref(&self) -> &[u8] {
		&self.0
	}
}
impl Drop for Tracked {
	fn drop(&mut self) {
		self.1.store(true, std::sync::atomic::Ordering::SeqCst);
	}
}
/// user + system CPU time of this process in ms (Linux; 0 if unavailable)
fn process_cpu_ms() -> u64 {
	let t = match std::fs::read_to_string("/proc/self/stat") {
		Ok(t) => t,
		Err(_) => return 0,
	};
	let rest = match t.rfind(')') {
		Some(i) => &t[i + 1..],
		None => return 0,
	};
	let f: Vec<&str> = rest.split_whitespace().collect();
	// after the command name: state is field 0, utime field 11, stime field 12 (clock ticks of 10 ms)
	let g = |i: usize| f.get(i).and_then(|x| x.parse::<u64>().ok()).unwrap_or(0);
	(g(11) + g(12)) * 10
}
const CH: usize = 64;
fn canon(x: f32) -> u32 {
	let y = x.clamp(-1.0, 1.0);
	if y == 0.0 {
		0
	} else {
		y.to_bits()
	}
}
/// Plays `bytes` as a streaming sound at rate 1 on a device running at the file's rate, from
/// `start`, issuing `seeks[k] = (after this many rendered frames, target index)`; renders until
/// the sound stops or `max_frames` were rendered (then the sound is stopped).
pub fn stream_play(bytes: &[u8], sr: u32, start: usize, seeks: &[(usize, usize)], max_frames: usize) -> Played {
	stream_play_ex(bytes, sr, start, seeks, max_frames, None)
}
/// With `idle_limit`: the TERMINATION monitor's run.  Rendering goes on until the sound is Stopped
/// by itself, or until nothing but silence has come out for `idle_limit` of wall time (the
/// harness renders far faster than a device, so by then the data has long run out); afterwards
/// the handle and the manager are dropped and the decoder must be released within 2 s.
thread_local! {
	/// the slice (in frames) the next streamed sounds are created with
	static STREAM_SLICE: std::cell::Cell<Option<(usize, usize)>> = std::cell::Cell::new(None);
}
pub fn stream_play_ex(bytes: &[u8], sr: u32, start: usize, seeks: &[(usize, usize)], max_frames: usize, idle_limit: Option<Duration>) -> Played {
	let slice = STREAM_SLICE.with(|c| c.get());
	let b = bytes.to_vec();
	let seeks = seeks.to_vec();
	let r = with_watchdog(60, move || {
		let mut p = Played { open: Load::Hang, num_frames: 0, out: vec![], issued_at: vec![], error: None, stopped: false, hang: false, idle_timeout: false, released: true, wait_cpu_ms: 0, wait_wall_ms: 0 };
		let dropped = std::sync::Arc::new(std::sync::atomic::AtomicBool::new(false));
		let data = match StreamingSoundData::from_cursor(Cursor::new(Tracked(b, dropped.clone()))) {
			Ok(d) => d,
			Err(e) => {
				p.open = classify_err(e);
				return p;
			}
		};
		p.num_frames = data.num_frames();
		let data = match slice {
			Some((a, b)) => data.slice(Region { start: PlaybackPosition::Samples(a), end: EndPosition::Custom(PlaybackPosition::Samples(b)) }),
			None => data,
		};
		let data = data.start_position(PlaybackPosition::Samples(start));
		let mut m = simple_manager(sr, CH);
		let mut h = match m.play(data) {
			Ok(h) => h,
			Err(kira::PlaySoundError::IntoSoundError(e)) => {
				p.open = classify_err(e);
				return p;
			}
			Err(_) => {
				p.open = Load::Err("sound limit".into());
				return p;
			}
		};
		p.open = Load::Ok { rate: sr, frames: vec![] };
		std::thread::sleep(Duration::from_millis(2));
		let t0 = Instant::now();
		let mut next_seek = 0;
		let mut zero_run = 0u32;
		let mut since_pause = 0usize;
		let mut last_sound = Instant::now();
		loop {
			// the harness renders much faster than a device would; give the decoder thread (which
			// sleeps 1 ms whenever its 16384-frame ring is full) time to keep ahead
			since_pause += CH;
			if since_pause >= 2048 {
				since_pause = 0;
				std::thread::sleep(Duration::from_micros(2000));
			}
			while next_seek < seeks.len() && p.out.len() >= seeks[next_seek].0 {
				let t = seeks[next_seek].1;
				let mut pos = t as f64 / sr as f64;
				// the scheduler computes (position * sr).round() as usize
				if (pos * sr as f64).round() as usize != t {
					pos = (t as f64 + 0.25) / sr as f64;
				}
				h.seek_to(pos);
				p.issued_at.push(p.out.len());
				next_seek += 1;
			}
			let c = m.backend_mut().callback_stereo(CH);
			let all_zero = c.iter().all(|f| f.left == 0.0 && f.right == 0.0);
			p.out.extend(c.iter().map(|f| (f.left, f.right)));
			if h.state() == PlaybackState::Stopped {
				p.stopped = true;
				break;
			}
			if !all_zero {
				last_sound = Instant::now();
			}
			if let Some(l) = idle_limit {
				if last_sound.elapsed() > l {
					p.idle_timeout = true;
					break;
				}
			}
			if all_zero {
				// either silence in the audio or the decoder thread has not caught up: give it time
				zero_run += 1;
				if zero_run > 2 {
					std::thread::sleep(Duration::from_micros(300));
				} else {
					std::thread::yield_now();
				}
			} else {
				zero_run = 0;
			}
			if p.out.len() >= max_frames {
				break;
			}
			if t0.elapsed() > Duration::from_secs(40) {
				p.hang = true;
				break;
			}
		}
		if !p.stopped {
			// end the decoder thread: stop and let the audio side reach Stopped
			h.stop(Tween { duration: Duration::ZERO, ..Default::default() });
			for _ in 0..2000 {
				let _ = m.backend_mut().callback_stereo(CH);
				if h.state() == PlaybackState::Stopped {
					break;
				}
			}
		}
		if let Some(e) = h.pop_error() {
			p.error = Some(format!("{}", e));
		}
		std::thread::sleep(Duration::from_millis(2)); // let the decoder thread see Stopped
		if idle_limit.is_some() {
			// release: with the handle and the manager gone the decoder thread must end and drop the decoder
			let cpu0 = process_cpu_ms();
			let w0 = Instant::now();
			drop(h);
			drop(m);
			while !dropped.load(std::sync::atomic::Ordering::SeqCst) && w0.elapsed() < Duration::from_secs(2) {
				std::thread::sleep(Duration::from_millis(5));
			}
			p.released = dropped.load(std::sync::atomic::Ordering::SeqCst);
			p.wait_wall_ms = w0.elapsed().as_millis() as u64;
			p.wait_cpu_ms = process_cpu_ms().saturating_sub(cpu0);
		}
		p
	});
	match r {
		Some(Ok(p)) => p,
		Some(Err(m)) => Played { open: Load::Panic(m), num_frames: 0, out: vec![], issued_at: vec![], error: None, stopped: false, hang: false, idle_timeout: false, released: true, wait_cpu_ms: 0, wait_wall_ms: 0 },
		None => Played { open: Load::Hang, num_frames: 0, out: vec![], issued_at: vec![], error: None, stopped: false, hang: true, idle_timeout: false, released: true, wait_cpu_ms: 0, wait_wall_ms: 0 },
	}
}

/// The property predicate for a played stream: the output must decompose into whole silent
/// buffers (the sound waiting for its decoder), and runs of consecutive frames of the loaded
/// audio, the first run starting at `start`, every later run starting at the target of a seek
/// issued earlier (in issue order; seeks may be superseded), zeros after the end.
/// Returns Err(description) or Ok(number of seeks honoured).
pub fn match_stream(stat: &[(f32, f32)], start: usize, seeks: &[(usize, usize)], p: &Played) -> Result<(usize, u32), String> {
	use std::collections::BTreeMap;
	let exp = |i: usize| -> (u32, u32) {
		if i < stat.len() {
			(canon(stat[i].0), canon(stat[i].1))
		} else {
			(0, 0)
		}
	};
	let n = stat.len();
	// state: (next index, seeks consumed) -> least number of starved frames (a zero frame in the
	// middle of a buffer that does not advance the position: the ring ran empty) on a reading
	let mut states: BTreeMap<(usize, usize), u32> = BTreeMap::new();
	states.insert((start, 0), 0);
	for (ci, chunk) in p.out.chunks(CH).enumerate() {
		let off0 = ci * CH;
		let c: Vec<(u32, u32)> = chunk.iter().map(|f| (canon(f.0), canon(f.1))).collect();
		let all_zero = c.iter().all(|f| *f == (0, 0));
		let mut next: BTreeMap<(usize, usize), u32> = BTreeMap::new();
		let put = |m: &mut BTreeMap<(usize, usize), u32>, k: (usize, usize), cost: u32| {
			let e = m.entry(k).or_insert(u32::MAX);
			if cost < *e {
				*e = cost;
			}
		};
		if all_zero {
			for (&(i, k), &cost) in &states {
				put(&mut next, (i, k), cost); // a whole buffer spent waiting for the decoder
			}
		}
		// first without starvation inside the buffer; only if no reading exists, allow it: the ring
		// ran empty in the middle of a buffer, the sound then emits silence and the position may
		// or may not advance (frames pushed meanwhile are consumed unheard) -- that is C10's
		// subject, here it is only tolerated and counted
		for allow_starve in [false, true] {
			if allow_starve && !next.is_empty() {
				break;
			}
			let mut seen: BTreeMap<(usize, usize, usize), u32> = BTreeMap::new();
			let mut stack: Vec<(usize, usize, usize, u32)> = states.iter().map(|(&(i, k), &cost)| (0usize, i, k, cost)).collect();
			while let Some((mut o, mut i, k, cost)) = stack.pop() {
				match seen.get(&(o, i, k)) {
					Some(&c0) if c0 <= cost => continue,
					_ => {
						seen.insert((o, i, k), cost);
					}
				}
				loop {
					if o == c.len() {
						put(&mut next, (i, k), cost);
						break;
					}
					if i < n {
						// a jump to a later seek target may happen at any offset while the audio has not ended
						for k2 in k..p.issued_at.len() {
							if p.issued_at[k2] <= off0 + o && exp(seeks[k2].1) == c[o] {
								stack.push((o + 1, seeks[k2].1 + 1, k2 + 1, cost));
							}
						}
						if allow_starve && c[o] == (0, 0) && cost < 256 {
							stack.push((o + 1, i, k, cost + 1));
							stack.push((o + 1, i + 1, k, cost + 1));
							// ... including the first frame after a seek
							for k2 in k..p.issued_at.len() {
								if p.issued_at[k2] <= off0 + o {
									stack.push((o + 1, seeks[k2].1 + 1, k2 + 1, cost + 1));
								}
							}
						}
					}
					if exp(i) != c[o] {
						break;
					}
					o += 1;
					i += 1;
				}
			}
		}
		if next.is_empty() {
			let (&(i0, k0), _) = states.iter().next().unwrap();
			let o = c.iter().enumerate().position(|(o, f)| *f != exp(i0 + o)).unwrap_or(0);
			// is it the loaded audio at a constant offset? (diagnosis only)
			let mut shift = None;
			for d in 1..6000usize {
				if (o..c.len()).all(|x| c[x] == exp(i0 + x + d)) && c.len() - o > 8 {
					shift = Some(d);
					break;
				}
			}
			return Err(format!(
				"output frame {} is not the next frame of the loaded audio: expected index {} = ({:#x},{:#x}), got ({:#x},{:#x}){} [seeks honoured so far {}, candidate readings {}]",
				off0 + o,
				i0 + o,
				exp(i0 + o).0,
				exp(i0 + o).1,
				c[o].0,
				c[o].1,
				match shift {
					Some(d) => format!(" = the loaded audio {} frames further on", d),
					None => String::new(),
				},
				k0,
				states.len()
			));
		}
		if next.len() > 4000 {
			return Ok((0, 0)); // hopelessly ambiguous audio (long silences): give up on this case
		}
		states = next;
	}
	// if the sound ended by itself, some reading must have reached the end of the audio
	if p.stopped && p.error.is_none() && !states.keys().any(|&(i, _)| i >= n) {
		let (&(i0, _), _) = states.iter().next().unwrap();
		return Err(format!("the sound stopped by itself at index {} of {}", i0, n));
	}
	let best = states.iter().min_by_key(|(_, &c)| c).map(|(&(_, k), &c)| (k, c)).unwrap_or((0, 0));
	Ok(best)
}

// ------------------------------------------------------------------------------------------
// cases
// ------------------------------------------------------------------------------------------
fn term_static(fmt: Fmt, ch: u16, rate: u32, samples: &[i128]) -> String {
	format!("CStatic {} {} {} {} {}", fmt.tag(), fmt.bits(), ch, rate, zs(samples))
}
fn term_bytes(b: &[u8]) -> String {
	let v: Vec<i128> = b.iter().map(|x| *x as i128).collect();
	format!("CBytes {}", zs(&v))
}
/// is the layout inside the region the Gallina `sym_load` predicts? (else it answers LUnmodelled)
fn modelled(b: &[u8]) -> bool {
	if b.len() < 4 || &b[0..4] != b"RIFF" {
		return false;
	}
	if b.len() < 44 {
		return true;
	}
	if &b[8..12] != b"WAVE" {
		return true;
	}
	&b[12..16] == b"fmt " && &b[36..40] == b"data" && b[16..20] == [16, 0, 0, 0]
}
fn expected_frames(fmt: Fmt, ch: u16, samples: &[i128]) -> Option<Vec<(f32, f32)>> {
	match ch {
		1 => Some(samples.iter().map(|&x| (conv(fmt, x), conv(fmt, x))).collect()),
		2 => Some(samples.chunks(2).map(|c| (conv(fmt, c[0]), conv(fmt, c[1]))).collect()),
		_ => None,
	}
}
/// reference decoding of raw data bytes: complete frames only
fn ref_frames(fmt: Fmt, ch: u16, data: &[u8]) -> Vec<(f32, f32)> {
	let w = fmt.width();
	let samples: Vec<i128> = data.chunks_exact(w * ch as usize).flat_map(|fr| fr.chunks_exact(w).map(|b| dec_sample(fmt, b)).collect::<Vec<_>>()).collect();
	expected_frames(fmt, ch, &samples).unwrap_or_default()
}
fn same_frames(a: &[(f32, f32)], b: &[(f32, f32)]) -> Option<usize> {
	if a.len() != b.len() {
		return Some(a.len().min(b.len()));
	}
	(0..a.len()).find(|&i| obs32(a[i].0) != obs32(b[i].0) || obs32(a[i].1) != obs32(b[i].1))
}
fn rate_exact(sr: u32) -> bool {
	sr as f64 * (1.0 / sr as f64) == 1.0
}
fn gen_rate(r: &mut Rng) -> u32 {
	match r.below(6) {
		0 => *r.pick(&[8000, 11025, 22050, 44100, 48000, 96000, 192000]),
		1 => *r.pick(&[1, 2, 255, 256, 65535, 65536, 0x7FFF_FFFF, 0xFFFF_FFFF, 0x0100_0000]),
		2 => r.next() as u32 | 1,
		_ => 1 + r.below(200_000) as u32,
	}
}

fn check_valid(s: &mut Session, fmt: Fmt, ch: u16, rate: u32, samples: &[i128], to_model: bool) -> (Vec<u8>, Load) {
	let bytes = encode(fmt, ch, rate, samples);
	let got = load_static(&bytes);
	let nframes = samples.len() / ch as usize;
	let desc = format!("valid WAV {:?} ch={} rate={} frames={} (hash {:#x})", fmt, ch, rate, nframes, fnv(&bytes));
	// property predicate
	match (&got, expected_frames(fmt, ch, samples)) {
		(Load::Ok { rate: r2, frames }, Some(e)) => {
			if *r2 != rate {
				s.fail(desc.clone(), format!("sample rate {} instead of {}", r2, rate), None);
			}
			if frames.len() != nframes {
				s.fail(desc.clone(), format!("{} frames instead of {}", frames.len(), nframes), None);
			} else if let Some(i) = same_frames(frames, &e) {
				s.fail(
					desc.clone(),
					format!("frame {} is ({:#x},{:#x}), the file encodes ({:#x},{:#x})", i, frames[i].0.to_bits(), frames[i].1.to_bits(), e[i].0.to_bits(), e[i].1.to_bits()),
					None,
				);
			}
		}
		(Load::Ok { frames, .. }, None) if nframes == 0 && frames.is_empty() => {}
		(Load::ErrChannels, None) if nframes > 0 => {}
		(g, _) => s.fail(desc.clone(), format!("loading gave {}", g.short()), None),
	}
	if to_model {
		let mut o = vec![fnv(&bytes) as i128];
		o.extend(got.obs());
		let key = format!("{:?}/{}/{}", fmt, ch.min(3), match nframes { 0 => 0, 1..=8 => 1, 9..=1151 => 2, 1152 => 3, _ => 4 });
		let idx = s.case("static_valid", term_static(fmt, ch, rate, samples), &o, if nframes > 0 { Some(key) } else { None });
		if samples.len() > 1000 || idx % 16 == 15 {
			s.flush(); // spread the expensive cases over shards (they are evaluated in parallel)
		}
	} else {
		s.eval_only("static_valid_monitor_only");
	}
	(bytes, got)
}

/// a valid file under a WAVE_FORMAT_EXTENSIBLE header: what is loaded depends on the channel COUNT
/// only, whatever speaker positions the mask names
fn check_valid_ext(s: &mut Session, fmt: Fmt, ch: u16, rate: u32, mask: u32, samples: &[i128]) -> (Vec<u8>, Load) {
	let bytes = encode_ext(fmt, ch, rate, mask, samples);
	let got = load_static(&bytes);
	let nframes = samples.len() / ch as usize;
	let desc = format!(
		"valid WAV (WAVE_FORMAT_EXTENSIBLE, dwChannelMask {:#x}) {:?} ch={} rate={} frames={}{}",
		mask,
		fmt,
		ch,
		rate,
		nframes,
		if bytes.len() <= 400 { format!(", file {}", hex(&bytes)) } else { format!(" (fnv {:#x})", fnv(&bytes)) }
	);
	match (&got, expected_frames(fmt, ch, samples)) {
		(Load::Ok { rate: r2, frames }, Some(e)) => {
			if *r2 != rate {
				s.fail(desc.clone(), format!("sample rate {} instead of {}", r2, rate), None);
			}
			if frames.len() != nframes {
				s.fail(desc.clone(), format!("{} frames instead of {}", frames.len(), nframes), None);
			} else if let Some(i) = same_frames(frames, &e) {
				s.fail(desc.clone(), format!("frame {} is ({:#x},{:#x}), the file encodes ({:#x},{:#x})", i, frames[i].0.to_bits(), frames[i].1.to_bits(), e[i].0.to_bits(), e[i].1.to_bits()), None);
			}
		}
		(Load::Ok { frames, .. }, None) if nframes == 0 && frames.is_empty() => {}
		(Load::ErrChannels, None) if nframes > 0 => {}
		(g, _) => s.fail(desc.clone(), format!("loading gave {} (a file with {} channel(s): the speaker mask must not matter)", g.short(), ch), None),
	}
	let mut o = vec![fnv(&bytes) as i128];
	o.extend(got.obs());
	s.case("static_valid_extensible", format!("CStaticExt {} {} {} {} {} {}", fmt.tag(), fmt.bits(), ch, rate, mask, zs(samples)), &o, Some(format!("ext/{:?}/{}/{:#x}", fmt, ch.min(3), mask)));
	(bytes, got)
}

fn check_stream(s: &mut Session, what: &str, bytes: &[u8], stat: &[(f32, f32)], sr: u32, start: usize, seeks: &[(usize, usize)], max_frames: usize) {
	let p = stream_play(bytes, sr, start, seeks, max_frames);
	let desc = format!("{}: stream from frame {} with seeks {:?} (at rendered frame -> target)", what, start, seeks);
	s.eval_only("stream_play");
	match &p.open {
		Load::Ok { .. } => {}
		o => {
			s.fail(desc, format!("streaming could not start although loading succeeded: {}", o.short()), None);
			return;
		}
	}
	if p.hang {
		s.fail(desc, "playback did not finish within the watchdog time".into(), None);
		return;
	}
	if p.num_frames != stat.len() {
		s.fail(desc.clone(), format!("streaming reports {} frames, loading gave {}", p.num_frames, stat.len()), None);
	}
	// known-finding class: an Ogg Vorbis file streamed from a non-zero start position or seeked
	let class = if what.contains(".ogg") && (start > 0 || !seeks.is_empty()) { Some("ogg_stream_seek_misaligned") } else { None };
	if let Some(e) = &p.error {
		s.fail(desc.clone(), format!("decoder error while streaming a file that loads: {}", e), class);
	}
	match match_stream(stat, start, seeks, &p) {
		Ok((k, starved)) => {
			s.count(&format!("stream_seeks_honoured_{}", k.min(5)));
			if starved > 0 {
				*s.hist.entry("stream_starved_frames_tolerated".to_string()).or_insert(0) += starved as u64;
			}
			s.nontrivial.insert(format!("{}/{}/{}", what, start, seeks.len()));
		}
		Err(e) => s.fail(desc, e, class),
	}
}

fn index_coded(n: usize) -> Vec<i128> {
	// 16-bit stereo, frame i = (low 15 bits of i+1, high bits + a marker): never (0,0), all distinct
	let mut v = Vec::with_capacity(2 * n);
	for i in 0..n {
		let j = i + 1;
		v.push((j % 32768) as i128 - 16384);
		v.push((j / 32768) as i128 + 1);
	}
	v
}


// ------------------------------------------------------------------------------------------
// FLAC: cases and monitors
// ------------------------------------------------------------------------------------------
/// the hash of C18/Run.v `fhash`
fn fhash(b: &[u8]) -> u64 {
	let mut h: u64 = 0;
	for &x in b {
		h = (h.wrapping_mul(257) + x as u64 + 1) & ((1u64 << 40) - 1);
	}
	h
}
fn hex(b: &[u8]) -> String {
	b.iter().map(|x| format!("{:02x}", x)).collect()
}
fn term_frames(frames: &[FlFrame]) -> String {
	let fr: Vec<String> = frames
		.iter()
		.map(|f| {
			let subs: Vec<String> = f
				.subs
				.iter()
				.map(|s| match s {
					Sub::Const(v) => format!("SConst {}", z(*v as i128)),
					Sub::Verb(xs) => format!("SVerb {}", zs(&xs.iter().map(|x| *x as i128).collect::<Vec<_>>())),
				})
				.collect();
			format!("FF {} [{}]", f.n, subs.join("; "))
		})
		.collect();
	format!("[{}]", fr.join("; "))
}
fn term_flac(ctor: &str, sp: &FlSpec, frames: &[FlFrame], bad: Option<(usize, Defect)>, cut: Option<usize>) -> String {
	let (k, dk, da, dc) = match bad {
		None => (-1, 0, 0, 0),
		Some((k, d)) => {
			let (dk, da, dc) = d.code();
			(k as i128, dk, da, dc)
		}
	};
	format!("{} {} {} {} {} {} {} {} {} {} {}", ctor, sp.bps, sp.ch, sp.rate, sp.bs, term_frames(frames), z(k), dk, da, dc, z(cut.map(|c| c as i128).unwrap_or(-1)))
}
/// what kira returned, samples as the integers the floats denote (the model side is Flocq-free;
/// the floats themselves are checked bit for bit by the monitor and by the CFlacConv cases)
fn flac_obs(sp: &FlSpec, bytes: &[u8], got: &Load) -> Vec<i128> {
	let mut v = vec![fhash(bytes) as i128];
	match got {
		Load::Ok { rate, frames } => {
			v.extend([0, *rate as i128, frames.len() as i128]);
			let sc = (1u64 << (sp.bps - 1)) as f64;
			for (l, r) in frames {
				for x in [*l, *r] {
					let y = x as f64 * sc;
					v.push(if y.fract() != 0.0 || y.abs() > sc { 1 << 40 } else { y as i128 });
				}
			}
		}
		Load::ErrChannels => v.push(1),
		Load::Err(_) => v.push(2),
		Load::Panic(_) => v.push(3),
		Load::Hang => v.push(5),
	}
	v
}
/// Could symphonia's frame scanner take a position that is not a frame start for one?  (a sync
/// code followed, at any header length, by a byte equal to the CRC-8 of what precedes it) --
/// such files are not used: the monitors below reason frame by frame
fn false_sync(bytes: &[u8], offs: &[usize]) -> bool {
	for q in 42..bytes.len().saturating_sub(1) {
		if bytes[q] == 0xFF && (bytes[q + 1] & 0xFC) == 0xF8 && !offs.contains(&q) {
			for l in 4..=16 {
				if q + l < bytes.len() && crc8(&bytes[q..q + l]) == bytes[q + l] {
					return true;
				}
			}
		}
	}
	false
}
fn gen_fl_sample(r: &mut Rng, bps: u32) -> i64 {
	let lo = -(1i64 << (bps - 1));
	let hi = (1i64 << (bps - 1)) - 1;
	match r.below(6) {
		0 => *r.pick(&[lo, hi, 0, -1, 1, lo + 1, hi - 1, (hi + 1) / 2, lo / 2]),
		_ => lo + (r.next() % ((hi - lo + 1) as u64)) as i64,
	}
}
/// `distinct`: every time step differs from every other and none is silent (for the monitors
/// that must tell WHICH part of the audio came out)
fn gen_flac(r: &mut Rng, bps: u32, ch: u32, rate: u32, bs: u32, nfr: usize, short_last: bool, distinct: bool) -> (FlSpec, Vec<FlFrame>) {
	let sp = FlSpec { bps, ch, rate, bs };
	let hi = (1i64 << (bps - 1)) - 1;
	let mut t: i64 = 0;
	let frames = (0..nfr)
		.map(|i| {
			let n = if short_last && i + 1 == nfr { 1 + r.below(bs as u64) as usize } else { bs as usize };
			let subs = (0..ch as usize)
				.map(|c| {
					if distinct {
						if c == 0 {
							// a counter in the first channel: 1, 2, 3, ... (wrapping inside the sample range, never 0)
							Sub::Verb((0..n).map(|_| { t += 1; let m = 2 * hi; let x = (t - 1) % m + 1; if x > hi { x - m - 1 } else { x } }).collect())
						} else if r.chance(1, 3) {
							Sub::Const(gen_fl_sample(r, bps))
						} else {
							Sub::Verb((0..n).map(|_| gen_fl_sample(r, bps)).collect())
						}
					} else if r.chance(1, 4) {
						Sub::Const(gen_fl_sample(r, bps))
					} else {
						Sub::Verb((0..n).map(|_| gen_fl_sample(r, bps)).collect())
					}
				})
				.collect();
			FlFrame { n, subs }
		})
		.collect();
	(sp, frames)
}
fn flac_desc(sp: &FlSpec, frames: &[FlFrame], bytes: &[u8]) -> String {
	let ns: Vec<String> = frames.iter().map(|f| f.n.to_string()).collect();
	let body = if bytes.len() <= 400 { format!("file {}", hex(bytes)) } else { format!("{}", term_frames(frames)) };
	format!("FLAC {} bit ch={} rate={} blocksize={} frames of [{}] samples ({} bytes, hash {:#x}; {})", sp.bps, sp.ch, sp.rate, sp.bs, ns.join(","), bytes.len(), fhash(bytes), body)
}
fn flac_rate(r: &mut Rng) -> u32 {
	match r.below(4) {
		0 => *r.pick(&[8000, 11025, 22050, 44100, 48000, 96000, 192000]),
		1 => *r.pick(&[1, 2, 255, 256, 65535, 65536, 655350, 655349]),
		_ => 1 + r.below(655_350) as u32,
	}
}

/// a valid file: loading gives exactly the encoded audio; the model agrees on bytes and samples
fn check_flac_valid(s: &mut Session, sp: &FlSpec, frames: &[FlFrame], to_model: bool) -> Option<(Vec<u8>, Vec<usize>, Vec<(f32, f32)>)> {
	let (bytes, offs) = flac_encode(sp, frames, None);
	if false_sync(&bytes, &offs) {
		s.count("flac_skipped_accidental_sync_code");
		return None;
	}
	let got = load_static(&bytes);
	let desc = format!("valid {}", flac_desc(sp, frames, &bytes));
	let total: usize = frames.iter().map(|f| f.n).sum();
	let exp = flac_expected(sp, frames);
	match (&got, &exp) {
		(Load::Ok { rate, frames: fr }, Some(e)) => {
			if *rate != sp.rate {
				s.fail(desc.clone(), format!("sample rate {} instead of {}", rate, sp.rate), None);
			}
			if fr.len() != total {
				s.fail(desc.clone(), format!("{} frames instead of {}", fr.len(), total), None);
			} else if let Some(i) = same_frames(fr, e) {
				s.fail(desc.clone(), format!("frame {} is ({:#x},{:#x}), the file encodes ({:#x},{:#x})", i, fr[i].0.to_bits(), fr[i].1.to_bits(), e[i].0.to_bits(), e[i].1.to_bits()), None);
			}
		}
		(Load::ErrChannels, None) => {}
		(g, _) => s.fail(desc.clone(), format!("loading gave {}", g.short()), None),
	}
	if to_model {
		let key = format!("flac/{}/{}/{}/{}", sp.bps, sp.ch.min(3), frames.len().min(4), frames.last().map(|f| f.n != sp.bs as usize).unwrap_or(false));
		s.case("flac_valid", term_flac("CFlac", sp, frames, None, None), &flac_obs(sp, &bytes, &got), Some(key));
		if bytes.len() > 1500 {
			s.flush();
		}
	} else {
		s.eval_only("flac_valid_monitor_only");
	}
	exp.map(|e| (bytes, offs, e))
}

enum Wasted {
	/// the frame read with the wasted-bits count it announces
	Reading(Vec<i64>),
	/// the announced count is not below the sample size: there is no such reading
	TooMany(u32),
	OutOfBits,
}
/// the bit-level reading of the subframe of channel `c` (the LAST channel) of frame `k` when its
/// wasted-bits flag is set: unary count, then samples of (bps - wasted) bits, shifted back
fn wasted_reading(sp: &FlSpec, fr: &FlFrame, frame_bytes: &[u8]) -> Wasted {
	let w = (sp.bps / 8) as usize;
	let mut off = 7;
	for s in &fr.subs[..fr.subs.len() - 1] {
		off += 1 + match s {
			Sub::Const(_) => w,
			Sub::Verb(_) => fr.n * w,
		};
	}
	let is_const = frame_bytes[off] >> 1 == 0;
	let bits = &frame_bytes[off + 1..];
	let mut pos = 0usize;
	let bit = |pos: &mut usize| -> Option<u64> {
		let b = bits.get(*pos / 8)?;
		let v = (b >> (7 - *pos % 8)) & 1;
		*pos += 1;
		Some(v as u64)
	};
	let mut zeros = 0u32;
	loop {
		match bit(&mut pos) {
			None => return Wasted::OutOfBits,
			Some(1) => break,
			Some(_) => zeros += 1,
		}
	}
	let wasted = zeros + 1;
	if wasted >= sp.bps {
		return Wasted::TooMany(wasted);
	}
	let b2 = sp.bps - wasted;
	let read = |pos: &mut usize| -> Option<i64> {
		let mut u: u64 = 0;
		for _ in 0..b2 {
			u = (u << 1) | bit(pos)?;
		}
		let v = if u >= 1u64 << (b2 - 1) { u as i64 - (1i64 << b2) } else { u as i64 };
		Some(v << wasted)
	};
	let xs: Option<Vec<i64>> = if is_const { read(&mut pos).map(|v| vec![v; fr.n]) } else { (0..fr.n).map(|_| read(&mut pos)).collect() };
	match xs {
		Some(xs) => Wasted::Reading(xs),
		None => Wasted::OutOfBits,
	}
}

/// is `class` listed (status known) in known_findings.json?  A deviation of a class that is not
/// listed yet is reported as a note (candidate finding) instead of a failure.
fn class_listed(class: &str) -> bool {
	let root = std::env::var("VERIF_DIR").unwrap_or_else(|_| "/verif".to_string());
	match std::fs::read_to_string(format!("{}/known_findings.json", root)) {
		Ok(t) => t.contains(&format!("\"class\": \"{}\"", class)) || t.contains(&format!("\"class\":\"{}\"", class)),
		Err(_) => false,
	}
}
fn report_class(s: &mut Session, desc: String, what: String, class: &str) {
	if class_listed(class) {
		s.fail(desc, what, Some(class));
	} else {
		let key = format!("candidate_finding_{}", class);
		if !s.hist.contains_key(&key) {
			s.notes.push(format!("CANDIDATE FINDING (class {} not listed in known_findings.json, so not raised): {}: {}", class, desc, what));
		}
		s.count(&key);
	}
}

static TERMINATION_FAILURES: std::sync::atomic::AtomicU32 = std::sync::atomic::AtomicU32::new(0);
/// TERMINATION monitor for a file whose data runs out before the announced end (or that is
/// damaged): once the valid audio has been heard, the sound must reach Stopped by itself (natural
/// end, or a decoder error that can be popped from the handle) -- silence for ever is a hang --
/// and the decoder must be released once handle and manager are gone.  What was heard must be a
/// prefix of `valid`.  `class`: known-finding class of a non-termination, if any.
fn check_termination(s: &mut Session, desc: String, bytes: &[u8], sr: u32, valid: &[(f32, f32)], loaded: &str, class: Option<&'static str>, class_prefix: Option<&'static str>) {
	// (a case of a known class that is expected not to terminate gets a shorter wait)
	let idle = if class.is_some() { 1 } else { 3 };
	use std::sync::atomic::Ordering;
	if TERMINATION_FAILURES.load(Ordering::SeqCst) >= 3 {
		// every failure leaves a spinning decoder thread behind: three failing inputs are enough
		s.count("stream_termination_skipped_after_3_failures");
		return;
	}
	let p = stream_play_ex(bytes, sr, 0, &[], usize::MAX, Some(Duration::from_secs(idle)));
	s.eval_only("stream_termination");
	let fail = |s: &mut Session, what: String, class: Option<&'static str>| match class {
		Some(c) => report_class(s, desc.clone(), what, c),
		None => s.fail(desc.clone(), what, None),
	};
	if matches!(p.open, Load::Panic(_) | Load::Hang) || p.hang {
		fail(s, format!("streaming gave {}{} (loading: {})", p.open.short(), if p.hang { " / playback did not finish within the watchdog time" } else { "" }, loaded), class);
		return;
	}
	if !matches!(p.open, Load::Ok { .. }) {
		return; // an error value
	}
	if let Err(e) = match_stream(valid, 0, &[], &p) {
		fail(s, format!("streaming does not agree with loading ({}): {}", loaded, e), class_prefix);
	}
	let heard = p.out.iter().filter(|f| f.0 != 0.0 || f.1 != 0.0).count();
	if p.idle_timeout || !p.stopped {
		TERMINATION_FAILURES.fetch_add(1, Ordering::SeqCst);
		fail(
			s,
			format!(
				"HANG: the stream never came to an end: after {} non-silent frames (the file holds {} valid frames, its header announces {}) nothing but silence was rendered for {} s of wall time ({} frames rendered), the sound is not Stopped and no error can be popped (error: {:?}); decoder released after dropping handle and manager: {} (the process used {} ms CPU in the {} ms waited for that)",
				heard,
				valid.len(),
				p.num_frames,
				idle,
				p.out.len(),
				p.error,
				p.released,
				p.wait_cpu_ms,
				p.wait_wall_ms
			),
			class,
		);
		return;
	}
	if !p.released {
		TERMINATION_FAILURES.fetch_add(1, Ordering::SeqCst);
		fail(
			s,
			format!("the sound stopped (error: {:?}) but its decoder was not released within 2 s of dropping the handle and the manager: the decoder thread is still alive ({} ms CPU in {} ms)", p.error, p.wait_cpu_ms, p.wait_wall_ms),
			class,
		);
	}
}

#[derive(Clone, Copy, Debug, PartialEq)]
enum Damage {
	Frame(Defect),
	/// the file is cut `j` bytes into frame k (0 = at its first byte)
	Cut(usize),
}

/// One malformed file: frame `k` of (sp, frames) damaged.  The property clause: loading gives an
/// error value or exactly a prefix of the audio that ends at a frame boundary at or before
/// frame k; never a panic, a hang, or anything else; streaming agrees with loading.
fn check_flac_bad(s: &mut Session, sp: &FlSpec, frames: &[FlFrame], orig: &[(f32, f32)], k: usize, dmg: Damage, stream: bool) {
	let (bytes, offs) = match dmg {
		Damage::Frame(d) => flac_encode(sp, frames, Some((k, d))),
		Damage::Cut(j) => {
			let (mut b, o) = flac_encode(sp, frames, None);
			b.truncate(o[k] + j);
			(b, o)
		}
	};
	if false_sync(&bytes, &offs) {
		s.count("flac_skipped_accidental_sync_code");
		return;
	}
	let what_dmg = match dmg {
		Damage::Frame(d) => format!("{:?}", d),
		Damage::Cut(j) => format!("cut {} bytes into the frame ({} of {} bytes kept)", j, bytes.len(), offs[offs.len() - 1]),
	};
	let desc = format!("malformed {} -- frame k={} damaged: {}", flac_desc(sp, frames, &bytes), k, what_dmg);
	// audio frames before frame i
	let mut before = vec![0usize];
	for f in frames {
		before.push(before.last().unwrap() + f.n);
	}
	let got = load_static(&bytes);
	// the cut removed nothing but (part of) the 2-byte CRC-16 field that ends frame k
	let footer_only = match dmg {
		Damage::Cut(j) => j + 2 >= offs[k + 1] - offs[k],
		_ => false,
	};
	// ---- the property clause on the static load
	let mut class_a = false;
	let verdict: Result<(), (String, Option<&'static str>)> = match &got {
		Load::Err(_) | Load::ErrChannels => Ok(()),
		Load::Panic(m) => {
			// a wasted-bits count above the sample size: symphonia subtracts without checking
			let too_many = match dmg {
				Damage::Frame(Defect::WastedFlag(_)) => matches!(wasted_reading(sp, &frames[k], &bytes[offs[k]..offs[k + 1]]), Wasted::TooMany(w) if w > sp.bps),
				_ => false,
			};
			let c = if too_many && m.contains("subtract with overflow") { Some("flac_wasted_bits_not_validated") } else { None };
			Err((format!("loading gave {}", got.short()), c))
		}
		Load::Hang => Err(("loading gave HANG".into(), None)),
		Load::Ok { rate, frames: fr } => {
			let is_prefix = fr.len() <= orig.len() && same_frames(fr, &orig[..fr.len()]).is_none();
			if *rate != sp.rate {
				Err((format!("sample rate {} instead of {}", rate, sp.rate), None))
			} else if is_prefix && fr.len() <= before[k] && before.contains(&fr.len()) {
				Ok(())
			} else if is_prefix && fr.len() == before[k + 1] && footer_only {
				// only (part of) the CRC-16 field of frame k is missing: all of its audio is in the file
				// (symphonia accepts such a frame when the byte it still sees happens to check out)
				s.count("flac_cut_in_crc_field_frame_delivered");
				Ok(())
			} else {
				// not the valid prefix.  What is it?
				let mut without_k: Vec<(f32, f32)> = orig[..before[k]].to_vec();
				without_k.extend_from_slice(&orig[before[k + 1]..]);
				let skipped = same_frames(fr, &without_k).is_none();
				let first_bad = (0..fr.len()).find(|&i| i >= orig.len() || obs32(fr[i].0) != obs32(orig[i].0) || obs32(fr[i].1) != obs32(orig[i].1));
				let what = format!(
					"loading gave {}: neither an error nor a prefix of the audio ending at a frame boundary <= {} (the start of the damaged frame){}{}",
					got.short(),
					before[k],
					match first_bad {
						Some(i) => format!("; output frame {} is not what the file holds there", i),
						None => format!("; it contains {} frames from the damaged frame on", fr.len() - before[k]),
					},
					if skipped { "; it is the audio with the damaged frame left out and everything after it moved up" } else { "" }
				);
				match dmg {
					// the demuxer (symphonia) rejects the frame and resynchronises: known class, only when
					// the outcome is exactly "frame k left out"
					Damage::Frame(Defect::BadCrc16(_)) | Damage::Frame(Defect::BadCrc8(_)) | Damage::Frame(Defect::ReservedSampleSize(_)) if skipped => {
						class_a = true;
						Err((what, Some("flac_damaged_frame_skipped")))
					}
					// wasted-bits flag: the frame still has ONE reading as FLAC (followed by surplus bits);
					// a lenient decoder that returns exactly that reading has not invented anything
					Damage::Frame(Defect::WastedFlag(c)) => {
						let fb = &bytes[offs[k]..offs[k + 1]];
						let with_block = |xs: &[i64]| -> Vec<(f32, f32)> {
							let mut e = orig.to_vec();
							for (t, x) in xs.iter().enumerate() {
								let v = flac_conv(sp.bps, *x);
								let i = before[k] + t;
								if sp.ch == 1 {
									e[i] = (v, v);
								} else if c == 0 {
									e[i].0 = v;
								} else {
									e[i].1 = v;
								}
							}
							e
						};
						match wasted_reading(sp, &frames[k], fb) {
							Wasted::Reading(xs) if same_frames(fr, &with_block(&xs)).is_none() => {
								s.count("flac_wasted_flag_lenient_reading_tolerated");
								Ok(())
							}
							// a count equal to the sample size is not rejected: the block comes out as silence
							Wasted::TooMany(w) if w == sp.bps && same_frames(fr, &with_block(&vec![0; frames[k].n])).is_none() => {
								Err((format!("{}; the subframe announces {} wasted bits of {}: the block is returned as silence", what, w, sp.bps), Some("flac_wasted_bits_not_validated")))
							}
							_ => Err((what, None)),
						}
					}
					_ => Err((what, None)),
				}
			}
		}
	};
	if let Err((what, class)) = &verdict {
		match class {
			Some(c) => report_class(s, desc.clone(), what.clone(), c),
			None => s.fail(desc.clone(), what.clone(), None),
		}
	}
	// ---- the model: bytes + the reference decoder's verdict; the outcome where kira is expected to follow it
	let follows_reference = match dmg {
		Damage::Frame(Defect::ReservedSubframe(..)) => true,
		// symphonia finds the end of a frame by locating the next frame header: with fewer than 16
		// bytes of frame k left the last complete frame may be lost too (still a prefix)
		Damage::Cut(j) => (j >= 16 || j == 0) && !(k == 0 && j == 0) && !footer_only,
		_ => false,
	};
	let (bad, cut) = match dmg {
		Damage::Frame(d) => (Some((k, d)), None),
		Damage::Cut(_) => (None, Some(bytes.len())),
	};
	if follows_reference && verdict.is_ok() {
		s.case("flac_malformed", term_flac("CFlac", sp, frames, bad, cut), &flac_obs(sp, &bytes, &got), Some(format!("flacbad/{}/{}/{}/{:?}", sp.bps, sp.ch, k, dmg)));
	} else {
		let stop = match dmg {
			Damage::Frame(d) => d.stop_code(),
			Damage::Cut(0) => 1,
			Damage::Cut(_) => 3,
		};
		s.case("flac_malformed_reference_verdict", term_flac("CFlacStop", sp, frames, bad, cut), &[fhash(&bytes) as i128, stop, k as i128], Some(format!("flacbad/{}/{}/{}/{:?}", sp.bps, sp.ch, k, dmg)));
	}
	// ---- streaming the same bytes: never a panic or a hang; what is heard is a prefix of what loading
	// returned (of the valid prefix, if loading gave an error), then silence
	if !stream || !rate_exact(sp.rate) {
		return;
	}
	s.count("flac_stream_malformed");
	let valid: Vec<(f32, f32)> = match &got {
		Load::Ok { frames, .. } => frames.clone(),
		_ => orig[..before[k]].to_vec(),
	};
	// a wasted-bits count above the sample size panics on the decoder thread (F44): the thread is gone
	// without an error and the sound waits for ever
	let panics = match dmg {
		Damage::Frame(Defect::WastedFlag(_)) => matches!(wasted_reading(sp, &frames[k], &bytes[offs[k]..offs[k + 1]]), Wasted::TooMany(w) if w > sp.bps),
		_ => false,
	};
	check_termination(
		s,
		format!("{} -- streamed", desc),
		&bytes,
		sp.rate,
		&valid,
		&got.short(),
		if panics { Some("flac_wasted_bits_not_validated") } else { None },
		if class_a { Some("flac_damaged_frame_skipped") } else { None },
	);
}

fn run_flac(s: &mut Session, rng: &mut Rng, args: &Args, mul: u64) {
	// ---------- valid files ----------------------------------------------------------------------
	// small enumeration: every sample size x mono/stereo x 1..3 frames x {full, short last frame}
	let mut bases: Vec<(FlSpec, Vec<FlFrame>, Vec<(f32, f32)>)> = vec![];
	for bps in [8u32, 16, 24] {
		for ch in [1u32, 2] {
			for nfr in [1usize, 2, 3] {
				for short in [false, true] {
					let rate = flac_rate(rng);
					let (sp, frames) = gen_flac(rng, bps, ch, rate, 16, nfr, short, false);
					check_flac_valid(s, &sp, &frames, true);
				}
			}
		}
		// the boundary samples of the size, and their float conversion through the model
		let lo = -(1i64 << (bps - 1));
		let hi = -lo - 1;
		let mut xs = vec![lo, lo + 1, -1, 0, 1, hi - 1, hi, (hi + 1) / 2, lo / 2, 3, -3];
		while xs.len() < 16 {
			xs.push(gen_fl_sample(rng, bps));
		}
		let sp = FlSpec { bps, ch: 1, rate: 44100, bs: 16 };
		let frames = vec![FlFrame { n: 16, subs: vec![Sub::Verb(xs.clone())] }];
		let (bytes, _) = flac_encode(&sp, &frames, None);
		if let Load::Ok { frames: fr, .. } = load_static(&bytes) {
			let o: Vec<i128> = fr.iter().map(|f| obs32(f.0)).collect();
			s.case("flac_conversion", format!("CFlacConv {} {}", bps, zs(&xs.iter().map(|x| *x as i128).collect::<Vec<_>>())), &o, Some(format!("flacconv/{}", bps)));
		}
		check_flac_valid(s, &sp, &frames, true);
	}
	// more than two channels: the documented error
	for ch in [3u32, 8] {
		let (sp, frames) = gen_flac(rng, 16, ch, 44100, 16, 2, false, false);
		check_flac_valid(s, &sp, &frames, true);
	}
	for i in 0..(40 * mul) {
		let bps = *rng.pick(&[8u32, 16, 24]);
		let ch = *rng.pick(&[1u32, 1, 2, 2, 2]);
		let bs = 16 + rng.below(49) as u32;
		let nfr = 1 + rng.below(8) as usize;
		let rate = flac_rate(rng);
		let short = rng.chance(1, 2);
		let (sp, frames) = gen_flac(rng, bps, ch, rate, bs, nfr, short, false);
		check_flac_valid(s, &sp, &frames, i % 2 == 0);
	}
	// ---------- streaming equals loading (valid files, random start positions and seeks) ---------
	for i in 0..(4 * mul) {
		let bps = [16u32, 24, 8, 16][(i % 4) as usize];
		let ch = 1 + (i % 2) as u32;
		let sr = *rng.pick(&[8000u32, 22050, 44100, 48000]);
		let (sp, frames) = gen_flac(rng, bps, ch, sr, 64, 8, i % 2 == 1, true);
		if let Some((bytes, _, exp)) = check_flac_valid(s, &sp, &frames, false) {
			let n = exp.len();
			let what = format!("generated FLAC {} bit ch={} rate={} frames={}", bps, ch, sr, n);
			check_stream(s, &what, &bytes, &exp, sr, 0, &[], usize::MAX);
			check_stream(s, &what, &bytes, &exp, sr, rng.below(n as u64) as usize, &[], usize::MAX);
			let seeks: Vec<(usize, usize)> = vec![(0, rng.below(n as u64) as usize)];
			check_stream(s, &what, &bytes, &exp, sr, rng.below(n as u64) as usize, &seeks, usize::MAX);
		}
	}
	// one- and two-frame files (the last FLAC frame may be as short as one sample) and a file without
	// any frame: loaded, and streamed to the end
	for (bps, ch, total) in [(16u32, 1u32, 1usize), (24, 2, 2), (8, 1, 2), (16, 2, 1), (16, 1, 0)] {
		let sp = FlSpec { bps, ch, rate: 44100, bs: 16 };
		let frames: Vec<FlFrame> = if total == 0 { vec![] } else { vec![FlFrame { n: total, subs: (0..ch).map(|c| Sub::Verb((0..total).map(|t| (5 + t + 3 * c as usize) as i64).collect())).collect() }] };
		let (bytes, _) = flac_encode(&sp, &frames, None);
		let got = load_static(&bytes);
		let desc = format!("valid {} -- streamed to the end", flac_desc(&sp, &frames, &bytes));
		let exp = flac_expected(&sp, &frames).unwrap_or_default();
		match &got {
			Load::Ok { frames: fr, rate } if *rate == 44100 && same_frames(fr, &exp).is_none() => check_termination(s, desc, &bytes, 44100, &exp, &got.short(), None, None),
			Load::Err(_) if total == 0 => check_termination(s, desc, &bytes, 44100, &[], &got.short(), None, None),
			g => s.fail(desc, format!("loading gave {}", g.short()), None),
		}
		if total > 0 {
			s.case("flac_valid", term_flac("CFlac", &sp, &frames, None, None), &flac_obs(&sp, &bytes, &got), Some(format!("flactiny/{}/{}/{}", bps, ch, total)));
		}
	}
	// ---------- malformed files: one damaged frame, container intact -----------------------------
	let nbases = 5 * mul as usize;
	let mut tries = 0;
	while bases.len() < nbases && tries < 200 {
		tries += 1;
		let i = bases.len();
		let bps = [16u32, 8, 24, 16, 24, 8][i % 6];
		let ch = [1u32, 2, 2, 2, 1, 1][i % 6];
		let bs = *rng.pick(&[16u32, 17, 24, 32, 48, 64]);
		let nfr = 3 + rng.below(6) as usize;
		let sr = *rng.pick(&[8000u32, 22050, 44100, 48000]);
		let short = rng.chance(1, 2);
		let (sp, frames) = gen_flac(rng, bps, ch, sr, bs, nfr, short, true);
		if let Some((_, _, exp)) = check_flac_valid(s, &sp, &frames, true) {
			bases.push((sp, frames, exp));
		}
	}
	for (bi, (sp, frames, orig)) in bases.iter().enumerate() {
		let (_, offs) = flac_encode(sp, frames, None);
		for k in 0..frames.len() {
			let last_ch = sp.ch as usize - 1;
			let mut dmg: Vec<Damage> = vec![
				Damage::Frame(Defect::ReservedSubframe(0, 2)),
				Damage::Frame(Defect::ReservedSubframe(rng.below(sp.ch as u64) as usize, *rng.pick(&[3u8, 7, 13, 15, 16, 31, 20]))),
				Damage::Frame(Defect::ReservedSampleSize(if rng.chance(1, 2) { 3 } else { 7 })),
				Damage::Frame(Defect::WastedFlag(last_ch)),
				Damage::Frame(Defect::BadCrc16(1 + rng.below(65535) as u16)),
				Damage::Frame(Defect::BadCrc8(1 + rng.below(255) as u8)),
			];
			if args.thorough {
				dmg.push(Damage::Frame(Defect::ReservedSampleSize(3)));
				dmg.push(Damage::Frame(Defect::ReservedSampleSize(7)));
				dmg.push(Damage::Frame(Defect::BadCrc16(1)));
				dmg.push(Damage::Frame(Defect::BadCrc16(0x8000)));
				dmg.push(Damage::Frame(Defect::BadCrc8(0x80)));
			}
			let len = offs[k + 1] - offs[k];
			let mut cuts = vec![0usize, 1, 7, 8, 16, len / 2, len - 2, len - 1];
			cuts.push(1 + rng.below(len as u64 - 1) as usize);
			cuts.sort();
			cuts.dedup();
			for j in cuts {
				if j < len {
					dmg.push(Damage::Cut(j));
				}
			}
			for (di, d) in dmg.iter().enumerate() {
				// every damaged file is loaded; a third of them is also streamed (playback is slow)
				let stream = (bi + k + di) % 3 == 0 || args.thorough;
				check_flac_bad(s, sp, frames, orig, k, *d, stream);
			}
		}
		s.flush();
	}
	// a subframe whose wasted-bits count exceeds the sample size (all-zero constant subframe)
	{
		let sp = FlSpec { bps: 16, ch: 1, rate: 44100, bs: 16 };
		let frames: Vec<FlFrame> = (0..4).map(|i| FlFrame { n: 16, subs: vec![if i == 2 { Sub::Const(0) } else { Sub::Verb((0..16).map(|t| (i * 16 + t + 1) as i64).collect()) }] }).collect();
		if let Some(orig) = flac_expected(&sp, &frames) {
			check_flac_bad(s, &sp, &frames, &orig, 2, Damage::Frame(Defect::WastedFlag(0)), true);
		}
	}
	s.notes.push("FLAC: files of the modelled subset (STREAMINFO + fixed-blocksize frames, CONSTANT / VERBATIM subframes, 8/16/24 bit, CRC-8 / CRC-16) from the harness's own encoder, whose bytes the model re-derives; malformed stream = one frame damaged with the container intact (reserved subframe type, reserved sample-size code, wasted-bits flag, CRC-16, CRC-8) or the file cut inside it, for every frame index; the monitor accepts an error value or a prefix of the audio ending at a frame boundary at or before the damaged frame. A frame whose wasted-bits flag was set still has one reading as FLAC (followed by surplus bits before the CRC); a loader returning exactly that reading is tolerated and counted (flac_wasted_flag_lenient_reading_tolerated). Ogg/MP3 'intact container, undecodable packet' files are not generated (a valid Ogg page around a corrupted Vorbis packet needs a Vorbis bitstream writer)".into());
}

// ------------------------------------------------------------------------------------------
// (f) faults of the MEDIUM between the file and the sound: directed, fixed scenarios
// ------------------------------------------------------------------------------------------
// The property quantifies over fault sequences; random corruption of the BYTES never produces the two
// faults below, which are faults in TIME and of a single OPERATION: the last packet of the file is slow
// to arrive (cold cache, network file system), and one seek fails after the reader was already
// repositioned (I/O fault / damaged page met while bisecting).  The harness cannot implement symphonia's
// `MediaSource` (kira does not re-export it), so the file is read through the other public entry point,
// `StreamingSoundData::from_decoder`, with a decoder that conforms to the `Decoder` contract over the
// frames LOADING the file gave, packetised as symphonia's WAV reader packetises it (1152 frames, the
// last packet shorter) -- the "any conforming decoder" of `streaming_equals_static`.
// These scenarios do not depend on args.seed and draw nothing from the generator.
const PKT: usize = 1152;
#[derive(Debug)]
struct MediumError(&'static str);
struct MediumCtl {
	/// `decode()` of the packet that starts at this frame blocks until `release`
	slow_packet_at: Option<usize>,
	entered_slow: std::sync::atomic::AtomicBool,
	release: std::sync::atomic::AtomicBool,
	/// when armed: the next `seek` moves the reader to `displace_to` and then returns an error (once)
	seek_fault_armed: std::sync::atomic::AtomicBool,
	displace_to: usize,
	seek_faults: std::sync::atomic::AtomicUsize,
	/// end of the last packet handed out
	decoded_upto: std::sync::atomic::AtomicUsize,
	/// number of calls of `seek` so far (the one made when the sound is created included)
	seeks: std::sync::atomic::AtomicUsize,
}
impl MediumCtl {
	fn new(slow_packet_at: Option<usize>, displace_to: usize) -> std::sync::Arc<MediumCtl> {
		std::sync::Arc::new(MediumCtl {
			slow_packet_at,
			entered_slow: Default::default(),
			release: Default::default(),
			seek_fault_armed: Default::default(),
			displace_to,
			seek_faults: Default::default(),
			decoded_upto: Default::default(),
			seeks: Default::default(),
		})
	}
}
struct FileDecoder {
	audio: std::sync::Arc<Vec<kira::Frame>>,
	sr: u32,
	next: usize,
	ctl: std::sync::Arc<MediumCtl>,
}
impl kira::sound::streaming::Decoder for FileDecoder {
	type Error = MediumError;
	fn sample_rate(&self) -> u32 {
		self.sr
	}
	fn num_frames(&self) -> usize {
		self.audio.len()
	}
	fn decode(&mut self) -> Result<Vec<kira::Frame>, MediumError> {
		use std::sync::atomic::Ordering::SeqCst;
		let n = self.audio.len();
		if self.next >= n {
			return Err(MediumError("end of stream"));
		}
		if self.ctl.slow_packet_at == Some(self.next) {
			// the medium is slow to deliver this packet
			self.ctl.entered_slow.store(true, SeqCst);
			let t0 = Instant::now();
			while !self.ctl.release.load(SeqCst) && t0.elapsed() < Duration::from_secs(30) {
				std::thread::sleep(Duration::from_micros(200));
			}
		}
		let end = (self.next + PKT).min(n);
		let v = self.audio[self.next..end].to_vec();
		self.next = end;
		self.ctl.decoded_upto.store(end, SeqCst);
		Ok(v)
	}
	fn seek(&mut self, index: usize) -> Result<usize, MediumError> {
		use std::sync::atomic::Ordering::SeqCst;
		self.ctl.seeks.fetch_add(1, SeqCst);
		if self.ctl.seek_fault_armed.swap(false, SeqCst) {
			// the reader was repositioned (as a bisecting container reader does) before the fault was met
			self.next = self.ctl.displace_to.min(self.audio.len());
			self.ctl.seek_faults.fetch_add(1, SeqCst);
			return Err(MediumError("I/O fault while seeking (reader already repositioned)"));
		}
		// lands on the packet grid at or before the wanted frame (C18/Run.v `wav_land`)
		let i = index.min(self.audio.len()) / PKT * PKT;
		self.next = i;
		Ok(i)
	}
}
/// the index an index-coded frame (see `index_coded`) carries
fn index_of(f: (f32, f32)) -> i128 {
	let lo = (f.0 * 32768.0) as i64 + 16384;
	let hi = (f.1 * 32768.0) as i64 - 1;
	(hi * 32768 + lo - 1) as i128
}
fn frames_of(stat: &[(f32, f32)]) -> std::sync::Arc<Vec<kira::Frame>> {
	std::sync::Arc::new(stat.iter().map(|f| kira::Frame::new(f.0, f.1)).collect())
}
struct MediumRun {
	out: Vec<(f32, f32)>,
	/// the slow packet was asked for / the seek fault was delivered
	reached: bool,
	/// Stopped was observed after this many rendered frames although the slow packet had not been delivered
	stopped_before_release: Option<usize>,
	stopped: bool,
	error: Option<String>,
	issued_at: Vec<usize>,
	state: String,
}
/// SLOW LAST PACKET.  The sound streams `stat` (index-coded, never silent) from `start`; the decoder's
/// final packet (one frame, starting at n-1) is held back; the audio callback plays everything that was
/// buffered (a whole number of buffers) and runs 3 more times, then the packet is delivered and rendering
/// goes on until the sound is Stopped.
fn slow_tail_run(stat: &[(f32, f32)], sr: u32, start: usize) -> Option<Result<MediumRun, String>> {
	use std::sync::atomic::Ordering::SeqCst;
	let audio = frames_of(stat);
	with_watchdog(60, move || {
		let n = audio.len();
		let ctl = MediumCtl::new(Some(n - 1), 0);
		let dec = FileDecoder { audio: audio.clone(), sr, next: 0, ctl: ctl.clone() };
		let data = StreamingSoundData::from_decoder(dec).start_position(PlaybackPosition::Samples(start));
		let mut m = simple_manager(sr, CH);
		let mut r = MediumRun { out: vec![], reached: false, stopped_before_release: None, stopped: false, error: None, issued_at: vec![], state: String::new() };
		let mut h = match m.play(data) {
			Ok(h) => h,
			Err(_) => {
				ctl.release.store(true, SeqCst);
				r.state = "play() failed".into();
				return r;
			}
		};
		// the decoder thread buffers everything before the last packet and then waits for the medium
		let t0 = Instant::now();
		while !ctl.entered_slow.load(SeqCst) && t0.elapsed() < Duration::from_secs(10) {
			std::thread::sleep(Duration::from_micros(500));
		}
		r.reached = ctl.entered_slow.load(SeqCst);
		let buffered = (n - 1).saturating_sub(start);
		for _ in 0..(buffered / CH + 3) {
			let c = m.backend_mut().callback_stereo(CH);
			r.out.extend(c.iter().map(|f| (f.left, f.right)));
			if r.stopped_before_release.is_none() && h.state() == PlaybackState::Stopped {
				r.stopped_before_release = Some(r.out.len());
			}
		}
		// the packet arrives
		ctl.release.store(true, SeqCst);
		let t1 = Instant::now();
		while t1.elapsed() < Duration::from_secs(3) {
			std::thread::sleep(Duration::from_micros(500));
			let c = m.backend_mut().callback_stereo(CH);
			r.out.extend(c.iter().map(|f| (f.left, f.right)));
			if h.state() == PlaybackState::Stopped {
				r.stopped = true;
				break;
			}
		}
		r.state = format!("{:?}", h.state());
		r.error = h.pop_error().map(|e| format!("{:?}", e));
		r
	})
}
fn check_slow_tail(s: &mut Session, n: usize, start: usize) {
	let sr = 48000;
	let bytes = encode(Fmt::I16, 2, sr, &index_coded(n));
	let stat = match load_static(&bytes) {
		Load::Ok { frames, .. } if frames.len() == n => frames,
		g => {
			s.fail(format!("index-coded WAV i16 stereo {} frames", n), format!("loading gave {}", g.short()), None);
			return;
		}
	};
	let desc = format!(
		"index-coded WAV i16 stereo rate={} frames={} (fnv {:#x}; {} whole packets of 1152 frames + a final packet holding the last frame alone), streamed from frame {} through a conforming decoder over the loaded frames whose FINAL packet is slow to arrive: the audio callback ({} frames per callback) plays the {} buffered frames, runs 3 more times, then the packet is delivered",
		sr,
		n,
		fnv(&bytes),
		(n - 1) / PKT,
		start,
		CH,
		(n - 1).saturating_sub(start)
	);
	s.eval_only("stream_slow_last_packet");
	let r = match slow_tail_run(&stat, sr, start) {
		Some(Ok(r)) => r,
		Some(Err(m)) => {
			s.fail(desc, format!("PANIC({})", m), None);
			return;
		}
		None => {
			s.fail(desc, "HANG: the scenario did not finish within 60 s".into(), None);
			return;
		}
	};
	if !r.reached {
		s.notes.push(format!("slow-last-packet scenario n={} start={}: the decoder thread did not ask for the last packet within 10 s (state {}); not evaluated", n, start, r.state));
		s.count("stream_slow_last_packet_not_reached");
		return;
	}
	// the clause: streaming yields the same frames as loading -- every frame from `start` on, in order,
	// exactly once; silence while the sound waits for its decoder is not a frame of the file
	let audible: Vec<(f32, f32)> = r.out.iter().copied().filter(|f| canon(f.0) != 0 || canon(f.1) != 0).collect();
	let expect = &stat[start.min(n)..];
	let first_diff = (0..audible.len().min(expect.len())).find(|&i| (canon(audible[i].0), canon(audible[i].1)) != (canon(expect[i].0), canon(expect[i].1)));
	if audible.len() != expect.len() || first_diff.is_some() {
		let what = match first_diff {
			Some(i) => format!("non-silent output frame {} is ({:#x},{:#x}) = index {} of the file; loading gives index {} there", i, audible[i].0.to_bits(), audible[i].1.to_bits(), index_of(audible[i]), start + i),
			None => format!(
				"loading gives {} frames from frame {} on, streaming played {} of them (last frame played: index {}; last frame of the file: index {})",
				expect.len(),
				start,
				audible.len(),
				audible.last().map(|f| index_of(*f)).unwrap_or(-1),
				n - 1
			),
		};
		s.fail(
			desc.clone(),
			format!(
				"{}; {}; state at the end {}, error {:?}",
				what,
				match r.stopped_before_release {
					Some(k) => format!("the sound was Stopped after {} rendered frames, while its last frame was still being read", k),
					None => "the sound was not Stopped before the packet arrived".into(),
				},
				r.state,
				r.error
			),
			None,
		);
	} else if let Some(k) = r.stopped_before_release {
		s.fail(desc.clone(), format!("the sound was declared finished (Stopped after {} rendered frames) while its last frame was still being read", k), None);
	} else if r.error.is_some() {
		s.fail(desc.clone(), format!("a decoder error was reported for a file that loads: {:?}", r.error), None);
	} else if !r.stopped {
		s.fail(desc.clone(), format!("HANG: every frame was played but the sound is not Stopped 3 s after the last packet arrived (state {})", r.state), None);
	}
	// the model: which indices reach the ring (hence the output) when n frames are streamed from start
	let idx: Vec<i128> = audible.iter().map(|f| index_of(*f)).collect();
	if !idx.is_empty() {
		// (an empty observation -- a monitor failure already -- would leave the shard's list type open)
		s.case("stream_slow_last_packet_indices", format!("CStreamStart {} {}", n, start), &idx, Some(format!("slowtail/{}/{}", n, start)));
		s.flush();
	}
}

/// FAILED SEEK.  A long index-coded file is streamed from the start; after 4 callbacks a `seek_to(target)`
/// is issued and -- if `fault` -- the decoder's seek fails once after having moved its reader elsewhere.
fn seek_fault_run(stat: &[(f32, f32)], sr: u32, target: usize, displace_to: usize, fault: bool) -> Option<Result<MediumRun, String>> {
	use std::sync::atomic::Ordering::SeqCst;
	let audio = frames_of(stat);
	with_watchdog(60, move || {
		let ctl = MediumCtl::new(None, displace_to);
		let dec = FileDecoder { audio: audio.clone(), sr, next: 0, ctl: ctl.clone() };
		let mut m = simple_manager(sr, CH);
		let mut r = MediumRun { out: vec![], reached: false, stopped_before_release: None, stopped: false, error: None, issued_at: vec![], state: String::new() };
		let mut h = match m.play(StreamingSoundData::from_decoder(dec)) {
			Ok(h) => h,
			Err(_) => {
				r.state = "play() failed".into();
				return r;
			}
		};
		// let the decoder thread fill its ring (16384 frames)
		let t0 = Instant::now();
		while ctl.decoded_upto.load(SeqCst) < 16384 && t0.elapsed() < Duration::from_secs(10) {
			std::thread::sleep(Duration::from_micros(500));
		}
		let render = |m: &mut Mgr, r: &mut MediumRun| -> bool {
			let c = m.backend_mut().callback_stereo(CH);
			r.out.extend(c.iter().map(|f| (f.left, f.right)));
			c.iter().all(|f| f.left == 0.0 && f.right == 0.0)
		};
		for _ in 0..4 {
			render(&mut m, &mut r);
		}
		if fault {
			ctl.seek_fault_armed.store(true, SeqCst);
		}
		let mut pos = target as f64 / sr as f64;
		if (pos * sr as f64).round() as usize != target {
			pos = (target as f64 + 0.25) / sr as f64;
		}
		h.seek_to(pos);
		r.issued_at.push(r.out.len());
		// everything that was buffered before the seek plays out first: render well past it
		let goal = r.out.len() + 16384 + 6 * PKT;
		let t1 = Instant::now();
		let mut since_pause = 0;
		while r.out.len() < goal && t1.elapsed() < Duration::from_secs(20) {
			since_pause += CH;
			if since_pause >= 2048 {
				since_pause = 0;
				std::thread::sleep(Duration::from_micros(2000));
			}
			let silent = render(&mut m, &mut r);
			if h.state() == PlaybackState::Stopped {
				r.stopped = true;
				break;
			}
			if silent {
				std::thread::sleep(Duration::from_micros(300));
			}
		}
		r.reached = ctl.seek_faults.load(SeqCst) > 0;
		r.state = format!("{:?}", h.state());
		if !r.stopped {
			h.stop(Tween { duration: Duration::ZERO, ..Default::default() });
			for _ in 0..2000 {
				let _ = m.backend_mut().callback_stereo(CH);
				if h.state() == PlaybackState::Stopped {
					break;
				}
			}
		}
		r.error = h.pop_error().map(|e| format!("{:?}", e));
		r
	})
}
fn check_seek_fault(s: &mut Session, n: usize, target: usize, displace_to: usize, fault: bool) {
	let sr = 48000;
	let bytes = encode(Fmt::I16, 2, sr, &index_coded(n));
	let stat = match load_static(&bytes) {
		Load::Ok { frames, .. } if frames.len() == n => frames,
		g => {
			s.fail(format!("index-coded WAV i16 stereo {} frames", n), format!("loading gave {}", g.short()), None);
			return;
		}
	};
	let desc = format!(
		"index-coded WAV i16 stereo rate={} frames={} (fnv {:#x}), streamed from frame 0 through a conforming decoder over the loaded frames (packets of 1152); after 256 rendered frames seek_to(frame {}) is issued{}",
		sr,
		n,
		fnv(&bytes),
		target,
		if fault { format!(" and the decoder's seek FAILS once: it moves its reader to frame {} and then returns Err (I/O fault met while seeking)", displace_to) } else { " (control: no fault)".into() }
	);
	s.eval_only(if fault { "stream_failed_seek" } else { "stream_failed_seek_control" });
	let r = match seek_fault_run(&stat, sr, target, displace_to, fault) {
		Some(Ok(r)) => r,
		Some(Err(m)) => {
			s.fail(desc, format!("PANIC({})", m), None);
			return;
		}
		None => {
			s.fail(desc, "HANG: the scenario did not finish within 60 s".into(), None);
			return;
		}
	};
	if fault && !r.reached {
		s.notes.push(format!("failed-seek scenario: the decoder's seek was never called after seek_to (state {}, {} frames rendered); not evaluated", r.state, r.out.len()));
		s.count("stream_failed_seek_not_reached");
		return;
	}
	// the clause: an error value or the valid audio -- what is heard is the loaded audio from the start,
	// continued at most by the loaded audio from the seek target; never audio from anywhere else
	let seeks = [(r.issued_at[0], target)];
	let p = Played { open: Load::Ok { rate: sr, frames: vec![] }, num_frames: n, out: r.out.clone(), issued_at: r.issued_at.clone(), error: r.error.clone(), stopped: r.stopped, hang: false, idle_timeout: false, released: true, wait_cpu_ms: 0, wait_wall_ms: 0 };
	let outcome = format!("state after rendering {}, pop_error() = {:?}", r.state, r.error);
	match match_stream(&stat, 0, &seeks, &p) {
		Err(e) => {
			// where did playback go?
			let idx: Vec<i128> = r.out.iter().filter(|f| canon(f.0) != 0 || canon(f.1) != 0).map(|f| index_of(*f)).collect();
			let jump = (1..idx.len()).find(|&i| idx[i] != idx[i - 1] + 1 && idx[i] != target as i128);
			let j = match jump {
				Some(i) => format!("; playback went from index {} to index {} of the file, which is neither the next frame nor the seek target {}", idx[i - 1], idx[i], target),
				None => String::new(),
			};
			s.fail(desc, format!("{}{}; {}", e, j, outcome), None);
		}
		Ok((k, _)) => {
			if fault && r.error.is_some() && !r.stopped {
				s.fail(desc, format!("a decoder error was reported but the sound did not stop: {}", outcome), None);
			} else if !fault && (r.error.is_some() || k != 1) {
				s.fail(desc, format!("a seek on a healthy stream was not honoured ({} seeks honoured): {}", k, outcome), None);
			} else {
				s.count(if r.error.is_some() { "stream_failed_seek_error_value" } else if k == 1 { "stream_seek_honoured_after_fault_or_control" } else { "stream_failed_seek_ignored" });
			}
		}
	}
}

// ------------------------------------------------------------------------------------------
// RELATIVE SEEKS.  "streaming the same file yields the same frames as loading it ... after any
// sequence of seeks": `seek_by(d)` on a sound that has been playing for a while (its decoder a full
// ring -- 16384 frames -- ahead of what is heard) must continue d after the frame that was PLAYING,
// as it does for the loaded sound, not d after the frame the decoder had got to.
// ------------------------------------------------------------------------------------------
struct SeekByRun {
	out: Vec<(f32, f32)>,
	issued_at: usize,
	/// frames the decoder was ahead of the start position when the command was issued (conforming decoder only)
	decoded_upto: Option<usize>,
	picked_up: Option<bool>,
	stopped: bool,
	error: Option<String>,
	state: String,
}
/// Streams the index-coded file (`via_file`: the WAV bytes through symphonia, else a conforming decoder
/// over the loaded frames) from `start`, renders `warm` callbacks, lets the decoder fill its ring,
/// issues `seek_by(d frames)`, and renders until everything buffered before the seek has played out.
fn seek_by_run(bytes: &[u8], stat: &[(f32, f32)], sr: u32, start: usize, warm: usize, d: i64, via_file: bool) -> Option<Result<SeekByRun, String>> {
	use std::sync::atomic::Ordering::SeqCst;
	let audio = frames_of(stat);
	let b = bytes.to_vec();
	with_watchdog(60, move || {
		let n = audio.len();
		let ctl = MediumCtl::new(None, 0);
		let mut m = simple_manager(sr, CH);
		let mut r = SeekByRun { out: vec![], issued_at: 0, decoded_upto: None, picked_up: None, stopped: false, error: None, state: String::new() };
		enum H {
			File(kira::sound::streaming::StreamingSoundHandle<FromFileError>),
			Dec(kira::sound::streaming::StreamingSoundHandle<MediumError>),
		}
		let mut h = if via_file {
			let data = match StreamingSoundData::from_cursor(Cursor::new(b)) {
				Ok(d) => d,
				Err(e) => {
					r.state = format!("from_cursor failed: {}", e);
					return r;
				}
			};
			match m.play(data.start_position(PlaybackPosition::Samples(start))) {
				Ok(h) => H::File(h),
				Err(_) => {
					r.state = "play() failed".into();
					return r;
				}
			}
		} else {
			let dec = FileDecoder { audio: audio.clone(), sr, next: 0, ctl: ctl.clone() };
			match m.play(StreamingSoundData::from_decoder(dec).start_position(PlaybackPosition::Samples(start))) {
				Ok(h) => H::Dec(h),
				Err(_) => {
					r.state = "play() failed".into();
					return r;
				}
			}
		};
		let state = |h: &H| match h {
			H::File(h) => h.state(),
			H::Dec(h) => h.state(),
		};
		let full = (start + 16384).min(n);
		let wait_full = |ctl: &MediumCtl| {
			if via_file {
				std::thread::sleep(Duration::from_millis(40));
			} else {
				let t0 = Instant::now();
				while ctl.decoded_upto.load(SeqCst) < full && t0.elapsed() < Duration::from_secs(10) {
					std::thread::sleep(Duration::from_micros(500));
				}
				std::thread::sleep(Duration::from_millis(5));
			}
		};
		wait_full(&ctl);
		let render = |m: &mut Mgr, r: &mut SeekByRun| -> bool {
			let c = m.backend_mut().callback_stereo(CH);
			r.out.extend(c.iter().map(|f| (f.left, f.right)));
			c.iter().all(|f| f.left == 0.0 && f.right == 0.0)
		};
		let mut since_pause = 0;
		for _ in 0..warm {
			since_pause += CH;
			if since_pause >= 2048 {
				since_pause = 0;
				std::thread::sleep(Duration::from_micros(2000));
			}
			render(&mut m, &mut r);
		}
		// the decoder thread refills its ring: it is as far ahead of playback as it ever gets
		std::thread::sleep(Duration::from_millis(if via_file { 40 } else { 25 }));
		if !via_file {
			r.decoded_upto = Some(ctl.decoded_upto.load(SeqCst));
		}
		let seeks0 = ctl.seeks.load(SeqCst);
		let amount = d as f64 / sr as f64;
		match &mut h {
			H::File(h) => h.seek_by(amount),
			H::Dec(h) => h.seek_by(amount),
		}
		r.issued_at = r.out.len();
		// the decoder thread looks at its commands once there is room in the ring again: render slowly
		// until it has picked the command up (at most 4 callbacks)
		for _ in 0..4 {
			render(&mut m, &mut r);
			let t0 = Instant::now();
			let limit = Duration::from_millis(if via_file { 40 } else { 2000 });
			while t0.elapsed() < limit {
				if !via_file && ctl.seeks.load(SeqCst) > seeks0 {
					break;
				}
				std::thread::sleep(Duration::from_micros(500));
			}
			if !via_file && ctl.seeks.load(SeqCst) > seeks0 {
				break;
			}
		}
		if !via_file {
			r.picked_up = Some(ctl.seeks.load(SeqCst) > seeks0);
		}
		let goal = r.out.len() + 16384 + 4 * PKT;
		let t1 = Instant::now();
		while r.out.len() < goal && t1.elapsed() < Duration::from_secs(20) {
			since_pause += CH;
			if since_pause >= 2048 {
				since_pause = 0;
				std::thread::sleep(Duration::from_micros(2000));
			}
			let silent = render(&mut m, &mut r);
			if state(&h) == PlaybackState::Stopped {
				r.stopped = true;
				break;
			}
			if silent {
				std::thread::sleep(Duration::from_micros(300));
			}
		}
		r.state = format!("{:?}", state(&h));
		if !r.stopped {
			let tw = Tween { duration: Duration::ZERO, ..Default::default() };
			match &mut h {
				H::File(h) => h.stop(tw),
				H::Dec(h) => h.stop(tw),
			}
			for _ in 0..2000 {
				let _ = m.backend_mut().callback_stereo(CH);
				if state(&h) == PlaybackState::Stopped {
					break;
				}
			}
		}
		r.error = match &mut h {
			H::File(h) => h.pop_error().map(|e| format!("{}", e)),
			H::Dec(h) => h.pop_error().map(|e| format!("{:?}", e)),
		};
		r
	})
}
/// The monitor.  `n` frames, index-coded; the play position when the command is issued is the frame after
/// the last one heard; the sound must go on, gap-free, from (a play position it had between the callback
/// before the call and 4 callbacks after it) + d -- where the loaded sound goes on from (the play
/// position at the next callback) + d.  Everything buffered before the seek may play out first.
fn check_seek_by(s: &mut Session, n: usize, start: usize, warm: usize, d: i64, via_file: bool) {
	let sr = 48000;
	let bytes = encode(Fmt::I16, 2, sr, &index_coded(n));
	let stat = match load_static(&bytes) {
		Load::Ok { frames, .. } if frames.len() == n => frames,
		g => {
			s.fail(format!("index-coded WAV i16 stereo {} frames", n), format!("loading gave {}", g.short()), None);
			return;
		}
	};
	let desc = format!(
		"index-coded WAV i16 stereo rate={} frames={} (fnv {:#x}), streamed {} from frame {} on a device at the file's rate ({} frames per callback); after {} callbacks ({} frames heard) and a pause that lets the decoder thread fill its ring, seek_by({} frames = {:?} s) is issued on the handle; rendering goes on for 16384 + 4*1152 frames",
		sr,
		n,
		fnv(&bytes),
		if via_file { "with StreamingSoundData::from_cursor (symphonia)" } else { "through a conforming decoder over the loaded frames (packets of 1152)" },
		start,
		CH,
		warm,
		warm * CH,
		d,
		d as f64 / sr as f64
	);
	s.eval_only(if via_file { "stream_seek_by_file" } else { "stream_seek_by_decoder" });
	let r = match seek_by_run(&bytes, &stat, sr, start, warm, d, via_file) {
		Some(Ok(r)) => r,
		Some(Err(m)) => {
			s.fail(desc, format!("PANIC({})", m), None);
			return;
		}
		None => {
			s.fail(desc, "HANG: the scenario did not finish within 60 s".into(), None);
			return;
		}
	};
	if r.out.is_empty() {
		s.fail(desc, format!("the sound could not be played: {}", r.state), None);
		return;
	}
	if let Some(e) = &r.error {
		s.fail(desc, format!("a relative seek inside a healthy file produced a decoder error: {}", e), None);
		return;
	}
	// every frame heard is a frame of the file or silence (no invented samples)
	let lookup: std::collections::HashMap<(u32, u32), usize> = stat.iter().enumerate().map(|(i, f)| ((canon(f.0), canon(f.1)), i)).collect();
	let mut heard: Vec<(usize, usize)> = vec![]; // (offset in the output, index in the file)
	for (k, f) in r.out.iter().enumerate() {
		let c = (canon(f.0), canon(f.1));
		if c == (0, 0) {
			continue;
		}
		match lookup.get(&c) {
			Some(&i) => heard.push((k, i)),
			None => {
				s.fail(desc, format!("output frame {} = ({:?}, {:?}) is not a frame of the file", k, f.0, f.1), None);
				return;
			}
		}
	}
	// before the call: consecutive from `start`
	let before: Vec<&(usize, usize)> = heard.iter().filter(|x| x.0 < r.issued_at).collect();
	for (j, x) in before.iter().enumerate() {
		if x.1 != start + j {
			s.fail(desc, format!("before any seek, the {}th audible frame (output offset {}) is frame {} of the file, expected {}", j, x.0, x.1, start + j), None);
			return;
		}
	}
	if before.is_empty() {
		s.notes.push(format!("seek_by scenario (start {}, warm {}): nothing was heard before the command; not evaluated", start, warm));
		s.count("stream_seek_by_not_evaluated");
		return;
	}
	let base = start + before.len(); // the play position at the next callback: where a loaded sound measures from
	let first_after = before.len();
	// the jump
	let jump = (first_after.max(1)..heard.len()).find(|&j| heard[j].1 != heard[j - 1].1 + 1);
	let ahead = match r.decoded_upto {
		Some(u) => format!("; the decoder had delivered up to frame {} when the command was issued ({} ahead of playback)", u, u as i64 - base as i64),
		None => String::new(),
	};
	let j = match jump {
		Some(j) => j,
		None => {
			s.fail(
				desc,
				format!(
					"the relative seek never became audible: playback went on from frame {} to frame {} without a jump (a loaded sound continues at frame {}){}; state {}, picked up by the decoder: {:?}",
					base,
					heard.last().unwrap().1,
					base as i64 + d,
					ahead,
					r.state,
					r.picked_up
				),
				None,
			);
			return;
		}
	};
	let landed = heard[j].1 as i64;
	let off = landed - d - base as i64;
	// gap-free afterwards (up to the end of what was rendered)
	if let Some(k) = (j + 1..heard.len()).find(|&k| heard[k].1 != heard[k - 1].1 + 1) {
		s.fail(desc, format!("after the seek landed on frame {} playback is not consecutive: output offset {} is frame {} after frame {}", landed, heard[k].0, heard[k].1, heard[k - 1].1), None);
		return;
	}
	if off < -(CH as i64) || off > 4 * CH as i64 {
		s.fail(
			desc,
			format!(
				"STREAMING != LOADING after a relative seek: frame {} was the next to be played when seek_by({}) was issued (output offset {}), a loaded sound given the same commands continues at frame {}; the streamed sound played on up to frame {} and then continued at frame {} = {} + {} + {}: the seek was measured from a position {} frames away from any position the sound was playing around the call (allowed: {} before .. {} after){}",
				base,
				d,
				r.issued_at,
				base as i64 + d,
				heard[j - 1].1,
				landed,
				base,
				d,
				off,
				off,
				CH,
				4 * CH,
				ahead
			),
			None,
		);
		return;
	}
	s.count(if off == 0 { "stream_seek_by_exact" } else { "stream_seek_by_within_callbacks" });
}

pub fn run(args: &Args) {
	let mut rng = Rng::new(args.seed ^ 0xC18);
	let mul = args.budget_mul * if args.thorough { 8 } else { 1 };
	let mut s = Session::new(
		"C18",
		&args.out,
		"From Coq Require Import ZArith List. Import ListNotations. Open Scope Z_scope.\nFrom KV Require Import Base.Corr C18.ModelFlac C18.Run.",
		"run",
		120,
		"one case = one file (valid WAV of a given encoding/channels/length class, a truncation, a header or data corruption; valid FLAC of the modelled subset, or one with a single damaged frame / cut inside a frame) loaded with StaticSoundData::from_cursor, or one streaming playback (file, start, seek sequence); distinct = distinct (encoding, channel class, length class) / (file, corrupted offset, value) / (file, start, seeks) / (FLAC sample size, channels, damaged frame index, damage); non-trivial = at least one frame decoded or an error produced",
	);
	s.keep_case_text = true;
	let t_start = Instant::now();
	let lap = |what: &str| eprintln!("[C18 {:7.2}s] {}", t_start.elapsed().as_secs_f64(), what);

	// ---------- (0) relative seeks on a stream that is under way: directed, the same on every run ----
	check_seek_by(&mut s, 60_000, 0, 8, 20_000, false);
	check_seek_by(&mut s, 60_000, 40_000, 16, -30_000, false);
	check_seek_by(&mut s, 60_000, 5_000, 12, 25_000, true);
	check_seek_by(&mut s, 60_000, 30_000, 3, -2_000, true);
	lap("relative seeks (directed) done");

	// ---------- (a) valid files, every encoding ------------------------------------------------
	let mut small_valid: Vec<(Fmt, u16, u32, Vec<i128>, Vec<u8>)> = vec![];
	for &fmt in &FMTS {
		for ch in [1u16, 2, 3, 6] {
			for n in [0usize, 1, 2, 5] {
				let rate = gen_rate(&mut rng);
				let samples: Vec<i128> = (0..n * ch as usize).map(|_| gen_sample(&mut rng, fmt)).collect();
				let (b, _) = check_valid(&mut s, fmt, ch, rate, &samples, true);
				if ch <= 2 && n == 5 {
					small_valid.push((fmt, ch, rate, samples, b));
				}
			}
		}
		// boundary samples of the encoding, mono
		let (lo, hi) = fmt.range();
		let b: Vec<i128> = match fmt {
			Fmt::F32 | Fmt::F64 => (0..24).map(|_| gen_sample(&mut rng, fmt)).collect(),
			_ => [lo, lo + 1, -1, 0, 1, hi - 1, hi, (hi + 1) / 2, (hi + lo) / 2].iter().map(|x| (*x).max(lo).min(hi)).collect(),
		};
		check_valid(&mut s, fmt, 1, 44100, &b, true);
	}
	let n_random = 60 * mul;
	for _ in 0..n_random {
		let fmt = *rng.pick(&FMTS);
		let ch = *rng.pick(&[1u16, 1, 2, 2, 2, 3, 4, 8, 26]);
		let n = match rng.below(6) {
			0 => rng.below(4) as usize,
			1 | 2 | 3 => rng.below(40) as usize,
			_ => rng.below(200) as usize,
		};
		let rate = gen_rate(&mut rng);
		let samples: Vec<i128> = (0..n * ch as usize).map(|_| gen_sample(&mut rng, fmt)).collect();
		check_valid(&mut s, fmt, ch, rate, &samples, true);
	}
	// lengths around the packet size of symphonia's WAV reader (1152 frames) and a few thousand frames
	let mut long_lengths = vec![1151usize, 1152, 1153, 2304, 3000 + rng.below(2000) as usize, 2305];
	if args.thorough {
		long_lengths.extend([3456, 3457, 4608, 5000]); // (longer literals overflow coqc's parser stack)
	}
	for (k, &n) in long_lengths.iter().enumerate() {
		let fmt = FMTS[k % 6];
		let ch = if k % 2 == 0 { 1 } else { 2 };
		let samples: Vec<i128> = (0..n * ch as usize).map(|_| gen_sample(&mut rng, fmt)).collect();
		check_valid(&mut s, fmt, ch, 48000, &samples, true);
	}
	// many more through the monitor only (cheap): every encoding x lengths 0..several thousand
	for _ in 0..(150 * mul) {
		let fmt = *rng.pick(&FMTS);
		let ch = *rng.pick(&[1u16, 2]);
		let n = match rng.below(4) {
			0 => rng.below(64) as usize,
			1 => 1100 + rng.below(120) as usize,
			2 => rng.below(6000) as usize,
			_ => rng.below(1200) as usize,
		};
		let rate = gen_rate(&mut rng);
		let samples: Vec<i128> = (0..n * ch as usize).map(|_| gen_sample(&mut rng, fmt)).collect();
		check_valid(&mut s, fmt, ch, rate, &samples, false);
	}
	// the exhaustive small enumerations: every u8 value, every i16 value
	{
		let all8: Vec<i128> = (0..256).collect();
		check_valid(&mut s, Fmt::U8, 1, 8000, &all8, true);
		let all16: Vec<i128> = (-32768..32768).collect();
		check_valid(&mut s, Fmt::I16, 2, 44100, &all16, false);
	}

	lap("valid files done");
	// ---------- (a') WAVE_FORMAT_EXTENSIBLE headers: the speaker mask must not matter ----------------
	{
		const FL: u32 = 0x1; const FR: u32 = 0x2; const FC: u32 = 0x4; const LFE: u32 = 0x8; const BL: u32 = 0x10; const BR: u32 = 0x20;
		const BC: u32 = 0x100; const SL: u32 = 0x200; const SR: u32 = 0x400; const TBR: u32 = 0x20000;
		let masks1 = [0, FL, FC, FR, LFE, BC, TBR, FL | FR];
		let masks2 = [0, FL | FR, FC | LFE, BL | BR, SL | SR, FL | FC, FL, FL | FR | FC, BC | TBR];
		let masks_n = [0, FL | FR | FC, 0x3F, 0x63F];
		let mut ext_stream: Vec<(String, Vec<u8>, Vec<(f32, f32)>, u32)> = vec![];
		for &fmt in &FMTS {
			for (ch, masks) in [(1u16, &masks1[..]), (2, &masks2[..]), (3, &masks_n[..]), (6, &masks_n[..])] {
				for &mask in masks {
					let n = if ch <= 2 { 1 + rng.below(6) as usize } else { 2 };
					let rate = gen_rate(&mut rng);
					let samples: Vec<i128> = (0..n * ch as usize).map(|_| gen_sample(&mut rng, fmt)).collect();
					check_valid_ext(&mut s, fmt, ch, rate, mask, &samples);
				}
			}
			// an empty file, and one longer than a packet of symphonia's reader
			check_valid_ext(&mut s, fmt, 1, 44100, FC, &[]);
			let long: Vec<i128> = (0..1200 * 2).map(|_| gen_sample(&mut rng, fmt)).collect();
			check_valid_ext(&mut s, fmt, 2, 48000, BL | BR, &long);
			s.flush();
			// streamed: mono "front centre" and a pair that is not left/right
			if matches!(fmt, Fmt::I16 | Fmt::I24 | Fmt::F32) {
				for (ch, mask) in [(1u16, FC), (2u16, FC | LFE), (1, 0), (2, SL | SR)] {
					let n = 300 + rng.below(1500) as usize;
					let samples: Vec<i128> = (0..n * ch as usize)
						.map(|_| match fmt {
							Fmt::F32 => ((rng.unit_f64() * 2.0 - 1.0) as f32).to_bits() as i128,
							_ => gen_sample(&mut rng, fmt),
						})
						.collect();
					let sr = *rng.pick(&[8000u32, 22050, 44100, 48000]);
					let bytes = encode_ext(fmt, ch, sr, mask, &samples);
					if let Some(e) = expected_frames(fmt, ch, &samples) {
						ext_stream.push((format!("generated WAV (WAVE_FORMAT_EXTENSIBLE, dwChannelMask {:#x}) {:?} ch={} rate={} frames={} (fnv {:#x})", mask, fmt, ch, sr, n, fnv(&bytes)), bytes, e, sr));
					}
				}
			}
		}
		for (what, bytes, e, sr) in ext_stream {
			// (the expected frames are the encoded ones: a file that does not load is reported above)
			let start = if rng.chance(1, 2) { 0 } else { rng.below(e.len() as u64) as usize };
			check_stream(&mut s, &what, &bytes, &e, sr, start, &[], usize::MAX);
		}
	}
	lap("extensible WAV headers done");
	// ---------- (b) streaming equals loading ---------------------------------------------------
	// generated WAVs (integer encodings and in-range floats: the renderer clamps to [-1, 1])
	for k in 0..(6 * mul) {
		let fmt = FMTS[(k % 6) as usize];
		let ch = if rng.chance(1, 2) { 1 } else { 2 };
		let n = match k % 3 {
			0 => rng.below(300) as usize,
			1 => 1100 + rng.below(1400) as usize,
			_ => 3000 + rng.below(3000) as usize,
		};
		let sr = loop {
			let r = gen_rate(&mut rng);
			if rate_exact(r) {
				break r;
			}
		};
		let samples: Vec<i128> = (0..n * ch as usize)
			.map(|_| match fmt {
				Fmt::F32 => ((rng.unit_f64() * 2.0 - 1.0) as f32).to_bits() as i128,
				Fmt::F64 => (rng.unit_f64() * 2.0 - 1.0).to_bits() as i128,
				_ => gen_sample(&mut rng, fmt),
			})
			.collect();
		let bytes = encode(fmt, ch, sr, &samples);
		if let Load::Ok { frames, .. } = load_static(&bytes) {
			let start = if k % 2 == 0 { 0 } else { rng.below(n as u64 + 1) as usize };
			check_stream(&mut s, &format!("generated WAV {:?} ch={} rate={} frames={}", fmt, ch, sr, n), &bytes, &frames, sr, start, &[], usize::MAX);
		}
	}
	// a long index-coded WAV: seeks can take effect only after the 16384-frame ring was drained
	{
		let n = 60_000;
		let bytes = encode(Fmt::I16, 2, 48000, &index_coded(n));
		if let Load::Ok { frames, .. } = load_static(&bytes) {
			for k in 0..(4 * mul) {
				let start = if k == 0 { 0 } else { rng.below(n as u64) as usize };
				let nseeks = 1 + rng.below(4) as usize;
				let mut at = 0usize;
				let seeks: Vec<(usize, usize)> = (0..nseeks)
					.map(|_| {
						at += CH * rng.below(400) as usize;
						(at, rng.below(n as u64) as usize)
					})
					.collect();
				check_stream(&mut s, "index-coded WAV i16 stereo 60000 frames", &bytes, &frames, 48000, start, &seeks, at + 40_000);
			}
			// multichannel: the documented error, also when streaming
		}
		let mc = encode(Fmt::I16, 3, 48000, &vec![7i128; 3 * 100]);
		let p = stream_play(&mc, 48000, 0, &[], 4096);
		s.eval_only("stream_multichannel");
		let ok = matches!(p.open, Load::ErrChannels) || p.error.as_deref().map(|e| e.contains("mono and stereo")).unwrap_or(false);
		if !ok || p.out.iter().any(|f| f.0 != 0.0 || f.1 != 0.0) {
			s.fail("3-channel WAV streamed".into(), format!("expected UnsupportedChannelConfiguration and silence, got open={} error={:?}", p.open.short(), p.error), None);
		}
	}
	lap("generated WAV streaming done");
	// ---------- (f) faults of the medium: directed scenarios, the same on every run ---------------
	// the last packet (one frame: lengths = 1 mod 1152) is slow to arrive; the number of frames buffered
	// before it is a whole number of callbacks, so that the sound starves between callbacks (starving in
	// the middle of a callback is C10's subject)
	for (n, start) in [(2 * PKT + 1, 0usize), (PKT + 1, 0), (2 * PKT + 1, 2 * PKT), (1, 0), (2 * PKT + 1, PKT + 10 * CH), (3 * PKT + 1, 5 * CH)] {
		check_slow_tail(&mut s, n, start);
	}
	// a seek that fails after the reader was moved: forward target beyond the buffered audio, reader
	// displaced further on / back to the start (with more than a ring of audio left behind the displaced
	// reader: a reader that runs into the end of the file reports an error before anything it delivered
	// is heard); and the same seek on a healthy stream
	check_seek_fault(&mut s, 60_000, 20_000, 25 * PKT, true);
	check_seek_fault(&mut s, 60_000, 40_000, 0, true);
	check_seek_fault(&mut s, 60_000, 30_000, 39 * PKT, false);
	lap("medium faults (slow last packet, failed seek) done");
	// relative seeks, generated: start, time under way, amount (forwards / backwards; the landing stays
	// inside the file and away from the frame the ring ends at, so that the seek is audible as a jump)
	for k in 0..(6 * mul) {
		let n = 90_000usize;
		let start = rng.below(40_000) as usize;
		let warm = 1 + rng.below(48) as usize;
		let pos = (start + warm * CH) as i64;
		let d = loop {
			let mag = 1_000 + rng.below(34_000) as i64;
			let d = if rng.below(2) == 0 { mag } else { -mag };
			if (15_000..=17_500).contains(&d) {
				continue;
			}
			if pos + d >= 1_000 && pos + d + 25_000 < n as i64 {
				break d;
			}
		};
		check_seek_by(&mut s, n, start, warm, d, k % 3 == 2);
	}
	lap("relative seeks (generated) done");
	// the assets shipped with the repository
	let assets = ["sine.wav", "blip.ogg", "score.ogg", "drums.ogg", "dynamic/arp.ogg", "dynamic/bass.ogg", "dynamic/drums.ogg", "dynamic/lead.ogg", "dynamic/pad.ogg"];
	for (ai, a) in assets.iter().enumerate() {
		if ai >= 4 && !args.thorough && ai != 4 + (args.seed as usize % 5) {
			continue; // quick tier: one of the five long stems, chosen by the seed
		}
		let path = format!("{}/crates/examples/assets/{}", std::env::var("KIRA_REPO").unwrap_or_else(|_| "/repo".to_string()), a);
		let bytes = match std::fs::read(&path) {
			Ok(b) => b,
			Err(_) => {
				s.notes.push(format!("asset {} not found", a));
				continue;
			}
		};
		let st = load_static(&bytes);
		s.eval_only("asset_static");
		let (sr, frames) = match st {
			Load::Ok { rate, frames } => (rate, frames),
			o => {
				s.fail(format!("asset {}", a), format!("loading a shipped asset gave {}", o.short()), None);
				continue;
			}
		};
		let n = frames.len();
		s.notes.push(format!("asset {}: {} frames at {} Hz", a, n, sr));
		if !rate_exact(sr) {
			continue;
		}
		// from the start (whole file if short), from random start positions, with seeks
		check_stream(&mut s, &format!("asset {}", a), &bytes, &frames, sr, 0, &[], if n < 200_000 { usize::MAX } else { 60_000 });
		for _ in 0..(2 * mul) {
			let start = rng.below(n as u64) as usize;
			check_stream(&mut s, &format!("asset {}", a), &bytes, &frames, sr, start, &[], 30_000);
		}
		if n > 40_000 {
			for _ in 0..(2 * mul) {
				let start = rng.below(n as u64) as usize;
				let nseeks = 1 + rng.below(3) as usize;
				let mut at = 0usize;
				let seeks: Vec<(usize, usize)> = (0..nseeks)
					.map(|_| {
						at += CH * rng.below(300) as usize;
						(at, rng.below(n as u64) as usize)
					})
					.collect();
				check_stream(&mut s, &format!("asset {}", a), &bytes, &frames, sr, start, &seeks, at + 36_000);
			}
		}
	}

	lap("assets done");
	// ---------- (c) truncations and corruptions ------------------------------------------------
	// boundary: a sample-rate field of 0 (an unsupported file: must be an error value)
	for &fmt in &[Fmt::I16, Fmt::F32] {
		let samples: Vec<i128> = (0..8).map(|_| gen_sample(&mut rng, fmt)).collect();
		let b = encode(fmt, 1, 0, &samples);
		let got = load_static(&b);
		match &got {
			Load::Err(_) | Load::ErrChannels => {}
			g => s.fail(format!("WAV {:?} ch=1 frames=8 with the sample-rate field 0", fmt), format!("loading gave {}", g.short()), Some("wav_sample_rate_zero_panics")),
		}
		s.case("rate_zero", term_bytes(&b), &got.obs(), Some(format!("rate0/{:?}", fmt)));
		let p = stream_play(&b, 48000, 0, &[], 1024);
		s.eval_only("stream_rate_zero");
		if matches!(p.open, Load::Panic(_) | Load::Hang | Load::Ok { .. }) {
			s.fail(format!("WAV {:?} ch=1 frames=8 with the sample-rate field 0, streamed", fmt), format!("streaming gave {}", p.open.short()), Some("wav_sample_rate_zero_panics"));
		}
	}
	// a longer base file so that truncation crosses packet boundaries
	{
		let n = 2500;
		let samples: Vec<i128> = (0..n).map(|_| gen_sample(&mut rng, Fmt::U8)).collect();
		let b = encode(Fmt::U8, 1, 8000, &samples);
		small_valid.push((Fmt::U8, 1, 8000, samples, b));
	}
	for (bi, (fmt, ch, rate, samples, bytes)) in small_valid.iter().enumerate() {
		let orig = expected_frames(*fmt, *ch, samples).unwrap();
		let base = format!("WAV {:?} ch={} rate={} frames={}", fmt, ch, rate, orig.len());
		// all truncation points
		let step = if bytes.len() > 400 && !args.thorough { 7 } else { 1 };
		let mut cut = 0;
		while cut < bytes.len() {
			let t = &bytes[..cut];
			let got = load_static(t);
			let desc = format!("{} truncated to {} of {} bytes", base, cut, bytes.len());
			let mut fine = true;
			match &got {
				Load::Err(_) | Load::ErrChannels => {}
				Load::Ok { rate: r2, frames } => {
					if r2 != rate || frames.len() > orig.len() || same_frames(frames, &orig[..frames.len()]).is_some() {
						fine = false;
						s.fail(desc.clone(), format!("{} is not a prefix of the audio", got.short()), None);
					}
				}
				g => {
					fine = false;
					s.fail(desc.clone(), format!("loading gave {}", g.short()), None)
				}
			}
			let near_packet = cut >= 44 && matches!((cut - 44) % 1152, 0 | 1 | 1151);
			let to_model = modelled(t) && (bytes.len() < 400 || cut % 397 == 0 || cut < 50 || near_packet) && fine;
			if to_model {
				s.case("truncation", term_bytes(t), &got.obs(), Some(format!("trunc/{}/{}", bi, cut)));
			} else {
				s.eval_only("truncation_monitor_only");
			}
			cut += if cut < 64 { 1 } else { step };
		}
		// header corruptions: every byte of the header, every other value
		let full_model = (bi < 1 || args.thorough) && bytes.len() < 400;
		for off in 0..44usize {
			for v in 0..=255u8 {
				if v == bytes[off] {
					continue;
				}
				let mut c = bytes.clone();
				c[off] = v;
				let got = load_static(&c);
				let desc = format!("{} with header byte {} changed from {:#04x} to {:#04x}", base, off, bytes[off], v);
				let mut bad: Option<String> = None;
				match &got {
					Load::Panic(_) | Load::Hang => bad = Some(format!("loading gave {}", got.short())),
					Load::Err(_) | Load::ErrChannels => {}
					Load::Ok { rate: r2, frames } => {
						let same = frames.len() == orig.len() && same_frames(frames, &orig).is_none();
						let databytes = bytes.len() - 44;
						match off {
							0..=3 | 8..=19 | 36..=39 => bad = Some(format!("a file whose chunk structure is destroyed loaded as {}", got.short())),
							4..=7 | 28..=31 => {
								if !(same && r2 == rate) {
									bad = Some(format!("{} differs from the audio although only a redundant field changed", got.short()))
								}
							}
							24..=27 => {
								let newrate = u32::from_le_bytes([c[24], c[25], c[26], c[27]]);
								if !(same && *r2 == newrate) {
									bad = Some(format!("{}: expected the same frames at rate {}", got.short(), newrate))
								}
							}
							40..=43 => {
								// the data length announced: the audio is the complete frames among the
								// announced bytes that are present (possibly including the pad byte)
								let dl = u32::from_le_bytes([c[40], c[41], c[42], c[43]]) as usize;
								let avail = &c[44..c.len().min(44usize.saturating_add(dl))];
								let e = ref_frames(*fmt, *ch, avail);
								if !(r2 == rate && same_frames(frames, &e).is_none()) {
									bad = Some(format!("{} is not the audio in the {} announced data bytes", got.short(), dl))
								}
							}
							_ => {
								if frames.len() > databytes {
									bad = Some(format!("{} frames from {} data bytes", frames.len(), databytes))
								}
							}
						}
					}
				}
				let is_class_rate0 = matches!(got, Load::Panic(_)) && c[24..28] == [0, 0, 0, 0];
				if let Some(w) = bad {
					s.fail(desc, w, if is_class_rate0 { Some("wav_sample_rate_zero_panics") } else { None });
				}
				if modelled(&c) && ((full_model && (v % 3 == 0 || v < 40 || v > 250)) || rng.chance(1, if bytes.len() < 400 { 40 } else { 1500 })) {
					s.case("header_corruption", term_bytes(&c), &got.obs(), Some(format!("hdr/{}/{}/{}", bi, off, v)));
				} else {
					s.eval_only("header_corruption_monitor_only");
				}
			}
		}
		// data corruptions
		let w = fmt.width();
		let nd = samples.len() * w;
		for _ in 0..(if nd == 0 { 0 } else { 30.min(nd * 3) }) {
			let off = rng.below(nd as u64) as usize;
			let v = loop {
				let v = rng.next() as u8;
				if v != bytes[44 + off] {
					break v;
				}
			};
			let mut c = bytes.clone();
			c[44 + off] = v;
			let got = load_static(&c);
			let si = off / w;
			let mut samples2 = samples.clone();
			samples2[si] = dec_sample(*fmt, &c[44 + si * w..44 + si * w + w]);
			let e = expected_frames(*fmt, *ch, &samples2).unwrap();
			let desc = format!("{} with data byte {} changed to {:#04x}", base, off, v);
			match &got {
				Load::Ok { rate: r2, frames } if r2 == rate && same_frames(frames, &e).is_none() => {}
				g => s.fail(desc, format!("{} is not the audio the corrupted bytes encode", g.short()), None),
			}
			if bytes.len() < 400 {
				s.case("data_corruption", term_bytes(&c), &got.obs(), Some(format!("data/{}/{}/{}", bi, off, v)));
			} else {
				s.eval_only("data_corruption_monitor_only");
			}
		}
		// streaming the corrupted / truncated file: same outcome class as loading, never panic / hang
		for _ in 0..(6 * mul) {
			let mut c = bytes.clone();
			match rng.below(3) {
				0 => {
					let off = rng.below(44) as usize;
					c[off] = rng.next() as u8;
				}
				1 => c.truncate(rng.below(bytes.len() as u64) as usize),
				_ => {
					let off = 44 + rng.below((bytes.len() - 44).max(1) as u64) as usize;
					if off < c.len() {
						c[off] ^= 1 << rng.below(8);
					}
				}
			}
			let st = load_static(&c);
			let sr = if c.len() >= 28 { u32::from_le_bytes([c[24], c[25], c[26], c[27]]) } else { 0 };
			if sr == 0 || !rate_exact(sr) {
				continue;
			}
			let p = stream_play(&c, sr, 0, &[], 20_000);
			s.eval_only("stream_corrupted");
			let desc = format!("{} corrupted ({} bytes, fnv {:#x}) streamed", base, c.len(), fnv(&c));
			if matches!(p.open, Load::Panic(_) | Load::Hang) || p.hang {
				s.fail(desc, format!("streaming gave {} (loading: {})", p.open.short(), st.short()), None);
				continue;
			}
			let tame = |fr: &[(f32, f32)]| fr.iter().all(|f| f.0.is_finite() && f.1.is_finite() && f.0.abs() < 1e18 && f.1.abs() < 1e18);
			if let (Load::Ok { frames, .. }, Load::Ok { .. }, None) = (&st, &p.open, &p.error) {
				if !tame(frames) {
					continue; // playback of infinities / NaN is not a faithful observation of the ring
				}
				// streaming plays what the header announces: the loaded frames must be its prefix,
				// and nothing but silence may follow
				let mut pp = Played { open: p.open.clone(), num_frames: p.num_frames, out: p.out.clone(), issued_at: vec![], error: None, stopped: false, hang: false, idle_timeout: false, released: true, wait_cpu_ms: 0, wait_wall_ms: 0 };
				pp.stopped = false;
				if let Err(e) = match_stream(frames, 0, &[], &pp).map(|_| ()) {
					s.fail(desc, format!("streaming differs from loading: {}", e), None);
				}
			}
		}
	}

	lap("corruptions done");
	// ---------- (c') truncated files, streamed to the END: the stream must terminate ------------------
	// the length fields of the header are left as they were (an interrupted copy): the header announces
	// more frames than the file holds
	{
		let mut cases: Vec<(Fmt, u16, u32, usize, usize)> = vec![
			(Fmt::I16, 1, 8000, 6000, 3500),    // the data runs out inside the decoder's first burst
			(Fmt::I16, 2, 48000, 24000, 20000), // ... after the 16384-frame ring was filled once
			(Fmt::U8, 1, 44100, 1152, 1151),
			(Fmt::I24, 2, 44100, 1300, 1152),   // exactly at a packet boundary of the WAV reader
		];
		for &fmt in &FMTS {
			let announced = 200 + rng.below(3000) as usize;
			cases.push((fmt, 1 + rng.below(2) as u16, *rng.pick(&[8000u32, 22050, 44100, 48000]), announced, rng.below(announced as u64) as usize));
		}
		for (fmt, ch, sr, announced, present) in cases {
			let w = fmt.width();
			// index-like content: never silent, so that the end of the audio can be told from silence
			let samples: Vec<i128> = (0..announced * ch as usize)
				.map(|i| match fmt {
					Fmt::F32 => (0.25f32 + (i % 1000) as f32 / 4096.0).to_bits() as i128,
					Fmt::F64 => (0.25f64 + (i % 1000) as f64 / 4096.0).to_bits() as i128,
					Fmt::U8 => (1 + i % 100) as i128,
					_ => (100 + (i * 37) % 20000) as i128,
				})
				.collect();
			let mut b = encode(fmt, ch, sr, &samples);
			// cut in the middle of a frame as well as at a frame boundary
			let extra = if rng.chance(1, 2) { rng.below((w * ch as usize) as u64) as usize } else { 0 };
			b.truncate(44 + present * w * ch as usize + extra);
			let st = load_static(&b);
			let valid = match &st {
				Load::Ok { frames, .. } => frames.clone(),
				_ => ref_frames(fmt, ch, &b[44..]),
			};
			let desc = format!(
				"WAV {:?} ch={} rate={} whose header announces {} frames, cut to {} bytes ({} whole frames present; stale RIFF/data length fields){} -- streamed to the end",
				fmt,
				ch,
				sr,
				announced,
				b.len(),
				present,
				if b.len() <= 400 { format!(", file {}", hex(&b)) } else { format!(
						", fnv {:#x}; interleaved sample i = {}",
						fnv(&b),
						match fmt {
							Fmt::F32 | Fmt::F64 => "0.25 + (i mod 1000)/4096",
							Fmt::U8 => "1 + i mod 100",
							_ => "100 + (37 i mod 20000)",
						}
					) }
			);
			check_termination(&mut s, desc, &b, sr, &valid, &st.short(), None, None);
		}
		// zero-, one- and two-frame sounds (valid files, a fully truncated one, empty / tiny slices): the
		// stream must come to an end all the same
		for (fmt, ch) in [(Fmt::I16, 1u16), (Fmt::U8, 2), (Fmt::F32, 1), (Fmt::I24, 2)] {
			for n in [0usize, 1, 2] {
				let sr = *rng.pick(&[8000u32, 44100, 48000]);
				let samples: Vec<i128> = (0..n * ch as usize).map(|i| if matches!(fmt, Fmt::F32) { (0.5f32 + i as f32 / 8.0).to_bits() as i128 } else { (50 + i) as i128 }).collect();
				for ext in [false, true] {
					let b = if ext { encode_ext(fmt, ch, sr, if ch == 1 { 4 } else { 3 }, &samples) } else { encode(fmt, ch, sr, &samples) };
					let st = load_static(&b);
					let desc = format!("valid {}WAV {:?} ch={} rate={} with {} frame(s), file {} -- streamed to the end", if ext { "extensible " } else { "" }, fmt, ch, sr, n, hex(&b));
					match &st {
						Load::Ok { frames, .. } if frames.len() == n => check_termination(&mut s, desc, &b, sr, frames, &st.short(), None, None),
						Load::Err(_) if n == 0 => check_termination(&mut s, desc, &b, sr, &[], &st.short(), None, None),
						g => s.fail(desc, format!("loading gave {}", g.short()), None),
					}
				}
			}
			// the header announces 500 frames, nothing of the data is there
			let sr = 44100;
			let mut b = encode(fmt, ch, sr, &vec![if matches!(fmt, Fmt::F32) { 0x3F00_0000 } else { 77 }; 500 * ch as usize]);
			b.truncate(44);
			let st = load_static(&b);
			check_termination(&mut s, format!("WAV {:?} ch={} rate={} whose header announces 500 frames, cut after the 44-byte header, file {} -- streamed to the end", fmt, ch, sr, hex(&b)), &b, sr, &[], &st.short(), None, None);
		}
		// slices of a valid file: empty, one frame, two frames, at the start, inside and at the very end
		{
			let n = 2000usize;
			let samples: Vec<i128> = (0..n).map(|i| (100 + (i * 37) % 20000) as i128).collect();
			let b = encode(Fmt::I16, 1, 8000, &samples);
			if let Load::Ok { frames, .. } = load_static(&b) {
				for (a, e) in [(0usize, 0usize), (700, 700), (n, n), (n + 5, n + 9), (0, 1), (1999, 2000), (700, 702), (1999, 2500), (900, 300)] {
					STREAM_SLICE.with(|c| c.set(Some((a, e))));
					let lo = a.min(n);
					let hi = e.min(n).max(lo);
					check_termination(&mut s, format!("WAV I16 mono 8000 Hz 2000 frames (sample i = 100 + (37 i mod 20000)), slice of frames {}..{} -- streamed to the end", a, e), &b, 8000, &frames[lo..hi], "Ok", None, None);
					STREAM_SLICE.with(|c| c.set(None));
				}
			}
		}
		// and an intact file through the same monitor: natural end, decoder released
		let samples: Vec<i128> = (0..3000).map(|i| (100 + (i * 37) % 20000) as i128).collect();
		let b = encode(Fmt::I16, 1, 8000, &samples);
		if let Load::Ok { frames, .. } = load_static(&b) {
			check_termination(&mut s, "intact WAV I16 mono 8000 Hz 3000 frames -- streamed to the end".into(), &b, 8000, &frames, "Ok", None, None);
		}
	}
	lap("stream termination (truncated WAV) done");
	// ---------- (e) a second format with a model: the FLAC subset ---------------------------------
	// (the stream of util::Rng for seed s+2 is the stream for seed s two draws later, and the two can
	// fall into step again: the FLAC cases get a generator whose state also depends on the seed itself)
	let mut frng = Rng::new(rng.next() ^ args.seed.wrapping_mul(0xD6E8_FEB8_6659_FD93).rotate_left(17));
	run_flac(&mut s, &mut frng, args, mul);
	lap("FLAC done");
	// ---------- (d) the scheduler model on symphonia's WAV packetisation -------------------------
	for _ in 0..(3 * mul) {
		let n = 1 + rng.below(1500) as usize;
		let start = rng.below(n as u64 + 2) as usize;
		let bytes = encode(Fmt::I16, 2, 48000, &index_coded(n));
		let p = stream_play(&bytes, 48000, start, &[], usize::MAX);
		// read the indices back from the index-coded output (gaps = whole silent buffers are dropped)
		let mut idx: Vec<i128> = vec![];
		for c in p.out.chunks(CH) {
			if c.iter().all(|f| f.0 == 0.0 && f.1 == 0.0) {
				continue;
			}
			for f in c {
				if f.0 == 0.0 && f.1 == 0.0 {
					continue;
				}
				let lo = (f.0 * 32768.0) as i64 + 16384;
				let hi = (f.1 * 32768.0) as i64 - 1;
				idx.push((hi * 32768 + lo - 1) as i128);
			}
		}
		s.case("stream_start_indices", format!("CStreamStart {} {}", n, start), &idx, Some(format!("ss/{}/{}", n, start)));
	}
	s.notes.push("streaming is observed through AudioManager<VBackend> at rate 1 (device rate = file rate, rates with sr*(1/sr)=1 in binary64), output clamped to [-1,1] and -0 = +0; whole silent buffers are accepted as 'waiting for the decoder thread'".into());
	lap("all done");
	s.finish();
}
