//! C11 — rendered audio does not depend on buffer sizes.
//! (1) Probe scenes (the machinery of c02.rs) rebuilt identically and rendered under several
//! (internal buffer size, callback partition) configurations: every rendering is a case for the
//! buffer-level Gallina model (`C11/Run.v` = C02's model under each configuration), and the
//! renderings must be equal to each other bit-for-bit (monitor).
//! (2) Steady scenes of REAL sounds (static sounds: noise, various sample rates, playback rates,
//! loops, pans, reverse) on real tracks / send tracks with all seven built-in effects (a delay with
//! feedback effects included), fixed parameters, rendered under 4-8 configurations including
//! b = 1, b = 4096, one-frame callbacks and sizes that are not a multiple of b, on 1..8 channels:
//! renderings compared with each other bit-for-bit; on a difference the first differing frame is
//! reported and the scene is bisected (effects removed / kept one at a time) to name the element.
//! (3) Steady scenes whose constancy is NOT spelled `Value::Fixed` and whose past is not empty: send levels
//! mapped from a tweener modulator that is never tweened or from the distance of a spatial track to a
//! listener that never moves; recursive effects (delay / reverb) on the send tracks; and a history in which
//! the device changed its sample rate BEFORE the compared stretch (scene built at another rate, 0..n
//! callbacks, `Renderer::on_change_sample_rate`, then nothing any more).  Same monitor: all renderings equal.
use crate::backend::*;
use crate::c02::{gen_cbs, hash_key, pick_b, scaled, Scene};
use crate::util::*;
use kira::effect::compressor::CompressorBuilder;
use kira::effect::delay::DelayBuilder;
use kira::effect::distortion::{DistortionBuilder, DistortionKind};
use kira::effect::eq_filter::{EqFilterBuilder, EqFilterKind};
use kira::effect::filter::{FilterBuilder, FilterMode};
use kira::effect::panning_control::PanningControlBuilder;
use kira::effect::reverb::ReverbBuilder;
use kira::effect::volume_control::VolumeControlBuilder;
use kira::effect::{Effect, EffectBuilder};
use kira::sound::static_sound::{StaticSoundData, StaticSoundSettings};
use kira::listener::ListenerId;
use kira::modulator::tweener::TweenerBuilder;
use kira::modulator::ModulatorId;
use kira::track::{MainTrackBuilder, SendTrackBuilder, SendTrackId, SpatialTrackBuilder, SpatialTrackHandle, TrackBuilder, TrackHandle};
use kira::{Capacities, Decibels, Easing, Frame, Mapping, Panning, Value};
use std::any::Any;
use std::sync::Arc;
use std::time::Duration;

const SR: u32 = 48000;

#[derive(Clone, Debug)]
enum Fx {
	Vol(f32),
	Pan(f32),
	Dist { hard: bool, db: f32, mix: f32 },
	Filter { mode: u8, cutoff: f64, res: f64, mix: f32 },
	Eq { kind: u8, freq: f64, gain: f32, q: f64 },
	Comp { thr: f64, ratio: f64, att_ms: u64, rel_ms: u64, mk: f32, mix: f32 },
	Delay { frames: u64, fb: f32, mix: f32, inner: Vec<Fx> },
	Reverb { fb: f64, damp: f64, width: f64, mix: f32 },
}
impl Fx {
	fn build(&self) -> Box<dyn Effect> {
		match self {
			Fx::Vol(db) => VolumeControlBuilder::new(*db).build().0,
			Fx::Pan(p) => PanningControlBuilder(Value::Fixed(Panning(*p))).build().0,
			Fx::Dist { hard, db, mix } => DistortionBuilder::new()
				.kind(if *hard { DistortionKind::HardClip } else { DistortionKind::SoftClip })
				.drive(*db)
				.mix(*mix)
				.build()
				.0,
			Fx::Filter { mode, cutoff, res, mix } => FilterBuilder::new()
				.mode(match mode {
					0 => FilterMode::LowPass,
					1 => FilterMode::BandPass,
					2 => FilterMode::HighPass,
					_ => FilterMode::Notch,
				})
				.cutoff(*cutoff)
				.resonance(*res)
				.mix(*mix)
				.build()
				.0,
			Fx::Eq { kind, freq, gain, q } => EqFilterBuilder::new(
				match kind {
					0 => EqFilterKind::Bell,
					1 => EqFilterKind::LowShelf,
					_ => EqFilterKind::HighShelf,
				},
				*freq,
				*gain,
				*q,
			)
			.build()
			.0,
			Fx::Comp { thr, ratio, att_ms, rel_ms, mk, mix } => CompressorBuilder::new()
				.threshold(*thr)
				.ratio(*ratio)
				.attack_duration(Duration::from_millis(*att_ms))
				.release_duration(Duration::from_millis(*rel_ms))
				.makeup_gain(*mk)
				.mix(*mix)
				.build()
				.0,
			Fx::Delay { frames, fb, mix, inner } => {
				// delay_time * sample_rate truncates to `frames`
				let mut b = DelayBuilder::new().delay_time(Duration::from_secs_f64((*frames as f64 + 0.5) / SR as f64)).feedback(*fb).mix(*mix);
				for d in inner {
					b = b.with_feedback_effect(Built(d.clone()));
				}
				b.build().0
			}
			Fx::Reverb { fb, damp, width, mix } => ReverbBuilder::new().feedback(*fb).damping(*damp).stereo_width(*width).mix(*mix).build().0,
		}
	}
}
struct Built(Fx);
impl EffectBuilder for Built {
	type Handle = ();
	fn build(self) -> (Box<dyn Effect>, ()) {
		(self.0.build(), ())
	}
}
#[derive(Clone)]
struct Snd {
	frames: Arc<[Frame]>,
	sr: u32,
	rate: f64,
	looped: Option<(f64, f64)>,
	pan: f32,
	vol: f32,
	reverse: bool,
}
impl std::fmt::Debug for Snd {
	fn fmt(&self, f: &mut std::fmt::Formatter<'_>) -> std::fmt::Result {
		write!(f, "Snd{{{} frames @{} Hz, rate {}, loop {:?}, pan {}, vol {} dB, reverse {}}}", self.frames.len(), self.sr, self.rate, self.looped, self.pan, self.vol, self.reverse)
	}
}
/// a send level that never changes
#[derive(Clone, Debug)]
enum Lvl {
	Fixed(f32),
	/// mapped (linearly, input 0..1) from tweener modulator `m` of the scene, which is never tweened
	Tweener { m: usize, lo: f32, hi: f32 },
	/// mapped (linearly, input 1..100) from the distance of the enclosing spatial track to the listener; neither moves
	Distance { lo: f32, hi: f32 },
}
#[derive(Clone, Debug)]
struct Trk {
	vol: f32,
	fx: Vec<Fx>,
	snds: Vec<Snd>,
	subs: Vec<Trk>,
	routes: Vec<(usize, Lvl)>,
	/// a spatial track at this fixed position (needs `SceneD::listener`)
	spatial: Option<[f32; 3]>,
}
/// what happened BEFORE the compared stretch: the manager was created (and the scene built) at `sr0`, the prelude
/// callbacks ran, then the device reported `SR`; sounds are played before the prelude or after the change
#[derive(Clone, Debug)]
struct Hist {
	sr0: u32,
	late_play: bool,
}
#[derive(Clone, Debug)]
struct SceneD {
	main_vol: f32,
	main_fx: Vec<Fx>,
	main_snds: Vec<Snd>,
	tracks: Vec<Trk>,
	sends: Vec<(f32, Vec<Fx>)>,
	/// initial values of the scene's tweener modulators (never tweened)
	mods: Vec<f64>,
	/// position of the scene's listener (never moved)
	listener: Option<[f32; 3]>,
	hist: Option<Hist>,
}

fn snd_data(s: &Snd) -> StaticSoundData {
	let mut d = StaticSoundData { sample_rate: s.sr, frames: s.frames.clone(), settings: StaticSoundSettings::default(), slice: None };
	d = d.playback_rate(s.rate).panning(Panning(s.pan)).volume(s.vol).reverse(s.reverse);
	if let Some((a, b)) = s.looped {
		d = d.loop_region(a..b);
	}
	d
}
struct Ctx {
	sends: Vec<SendTrackId>,
	mods: Vec<ModulatorId>,
	listener: Option<ListenerId>,
}
fn lvl_value(l: &Lvl, cx: &Ctx) -> Value<Decibels> {
	match l {
		Lvl::Fixed(db) => Value::Fixed(Decibels(*db)),
		Lvl::Tweener { m, lo, hi } => Value::FromModulator { id: cx.mods[*m], mapping: Mapping { input_range: (0.0, 1.0), output_range: (Decibels(*lo), Decibels(*hi)), easing: Easing::Linear } },
		Lvl::Distance { lo, hi } => Value::FromListenerDistance(Mapping { input_range: (1.0, 100.0), output_range: (Decibels(*lo), Decibels(*hi)), easing: Easing::Linear }),
	}
}
enum H {
	P(TrackHandle),
	S(SpatialTrackHandle),
}
fn v3(p: [f32; 3]) -> mint::Vector3<f32> {
	mint::Vector3 { x: p[0], y: p[1], z: p[2] }
}
/// builds the track and its sub-tracks; the handles and the sounds to play on them go to `built`
fn build_track(t: &Trk, cx: &Ctx, parent: Result<&mut H, &mut Mgr>, built: &mut Vec<(H, Vec<Snd>)>) {
	let mut h = match (t.spatial, cx.listener) {
		(Some(pos), Some(lis)) => {
			let mut b = SpatialTrackBuilder::new().volume(t.vol);
			for f in &t.fx {
				b.add_built_effect(f.build());
			}
			for (i, l) in &t.routes {
				b = b.with_send(cx.sends[*i], lvl_value(l, cx));
			}
			H::S(match parent {
				Ok(H::P(p)) => p.add_spatial_sub_track(lis, v3(pos), b).unwrap(),
				Ok(H::S(p)) => p.add_spatial_sub_track(lis, v3(pos), b).unwrap(),
				Err(m) => m.add_spatial_sub_track(lis, v3(pos), b).unwrap(),
			})
		}
		_ => {
			let mut b = TrackBuilder::new().volume(t.vol);
			for f in &t.fx {
				b.add_built_effect(f.build());
			}
			for (i, l) in &t.routes {
				b = b.with_send(cx.sends[*i], lvl_value(l, cx));
			}
			H::P(match parent {
				Ok(H::P(p)) => p.add_sub_track(b).unwrap(),
				Ok(H::S(p)) => p.add_sub_track(b).unwrap(),
				Err(m) => m.add_sub_track(b).unwrap(),
			})
		}
	};
	for c in &t.subs {
		build_track(c, cx, Ok(&mut h), built);
	}
	built.push((h, t.snds.clone()));
}
fn render(d: &SceneD, b: usize, cuts: &[usize], ch: u16) -> Vec<f32> {
	render_h(d, b, &[], cuts, ch)
}
/// `pre`: the callbacks before the sample-rate change of `d.hist` (must be empty without a history); their output
/// is part of the rendering
fn render_h(d: &SceneD, b: usize, pre: &[usize], cuts: &[usize], ch: u16) -> Vec<f32> {
	let mut main = MainTrackBuilder::new().volume(d.main_vol);
	for f in &d.main_fx {
		main.add_built_effect(f.build());
	}
	let mut mgr = manager(d.hist.as_ref().map_or(SR, |h| h.sr0), b, Capacities::default(), main);
	let mut keep: Vec<Box<dyn Any>> = vec![];
	let mut cx = Ctx { sends: vec![], mods: vec![], listener: None };
	for (vol, fx) in &d.sends {
		let mut sb = SendTrackBuilder::new().volume(*vol);
		for f in fx {
			sb.add_built_effect(f.build());
		}
		let h = mgr.add_send_track(sb).unwrap();
		cx.sends.push(h.id());
		keep.push(Box::new(h));
	}
	for init in &d.mods {
		let h = mgr.add_modulator(TweenerBuilder { initial_value: *init }).unwrap();
		cx.mods.push(h.id());
		keep.push(Box::new(h));
	}
	if let Some(p) = d.listener {
		let h = mgr.add_listener(v3(p), mint::Quaternion { v: mint::Vector3 { x: 0.0f32, y: 0.0, z: 0.0 }, s: 1.0 }).unwrap();
		cx.listener = Some(h.id());
		keep.push(Box::new(h));
	}
	let mut built: Vec<(H, Vec<Snd>)> = vec![];
	for t in &d.tracks {
		build_track(t, &cx, Err(&mut mgr), &mut built);
	}
	let play = |mgr: &mut Mgr, built: &mut Vec<(H, Vec<Snd>)>, keep: &mut Vec<Box<dyn Any>>| {
		for s in &d.main_snds {
			keep.push(Box::new(mgr.play(snd_data(s)).unwrap()));
		}
		for (h, snds) in built.iter_mut() {
			for s in snds.iter() {
				keep.push(match h {
					H::P(h) => Box::new(h.play(snd_data(s)).unwrap()),
					H::S(h) => Box::new(h.play(snd_data(s)).unwrap()),
				});
			}
		}
	};
	let mut out = vec![];
	match &d.hist {
		None => {
			assert!(pre.is_empty());
			play(&mut mgr, &mut built, &mut keep);
		}
		Some(h) => {
			if !h.late_play {
				play(&mut mgr, &mut built, &mut keep);
			}
			for n in pre {
				out.extend(mgr.backend_mut().callback(*n, ch));
			}
			mgr.backend_mut().set_sample_rate(SR);
			if h.late_play {
				play(&mut mgr, &mut built, &mut keep);
			}
		}
	}
	for n in cuts {
		out.extend(mgr.backend_mut().callback(*n, ch));
	}
	drop(keep);
	drop(built);
	out
}

fn gen_fx(r: &mut Rng, depth: u32) -> Fx {
	match r.below(if depth == 0 { 9 } else { 6 }) {
		0 => Fx::Vol(*r.pick(&[-6.0, -3.5, 0.0, 2.0])),
		1 => Fx::Pan((r.dyadic_unit(4) * 2.0 - 1.0) as f32),
		2 => Fx::Dist { hard: r.chance(1, 2), db: *r.pick(&[0.0, 6.0, 12.0]), mix: *r.pick(&[0.5, 1.0]) },
		3 => Fx::Filter { mode: r.below(4) as u8, cutoff: *r.pick(&[200.0, 1000.0, 5000.0]), res: *r.pick(&[0.0, 0.3, 0.7]), mix: *r.pick(&[0.5, 1.0]) },
		4 => Fx::Eq { kind: r.below(3) as u8, freq: *r.pick(&[300.0, 2000.0, 8000.0]), gain: *r.pick(&[-6.0, 3.0]), q: *r.pick(&[0.7, 1.5]) },
		5 => Fx::Comp { thr: *r.pick(&[-24.0, -12.0, -3.0]), ratio: *r.pick(&[2.0, 4.0, 8.0]), att_ms: *r.pick(&[1, 5, 20]), rel_ms: *r.pick(&[20, 100]), mk: *r.pick(&[0.0, 3.0]), mix: *r.pick(&[0.5, 1.0]) },
		6 | 7 => {
			let frames = match r.below(5) {
				0 => r.range(1, 5) as u64,
				1 => r.range(6, 70) as u64,
				2 => 64,
				_ => r.range(71, 1500) as u64,
			};
			let inner = (0..r.below(3)).map(|_| gen_fx(r, depth + 1)).collect();
			Fx::Delay { frames, fb: *r.pick(&[-6.0, -12.0, -3.0]), mix: *r.pick(&[0.3, 0.5, 1.0]), inner }
		}
		_ => Fx::Reverb { fb: *r.pick(&[0.5, 0.8, 0.9]), damp: *r.pick(&[0.1, 0.5]), width: *r.pick(&[0.0, 0.5, 1.0]), mix: *r.pick(&[0.3, 0.5]) },
	}
}
fn gen_snd(r: &mut Rng) -> Snd {
	let n = r.range(40, 1200) as usize;
	let frames: Vec<Frame> = (0..n).map(|_| Frame::new((r.unit_f64() - 0.5) as f32 * 0.4, (r.unit_f64() - 0.5) as f32 * 0.4)).collect();
	let sr = *r.pick(&[48000u32, 48000, 44100, 22050, 96000, 8000]);
	let rate = *r.pick(&[1.0, 1.0, 0.5, 2.0, 0.73, 1.37, 3.1]);
	let dur = n as f64 / sr as f64;
	let looped = if r.chance(1, 2) {
		let a = r.unit_f64() * 0.5 * dur;
		let b = a + (0.1 + r.unit_f64() * 0.4) * dur;
		Some((a, b))
	} else {
		None
	};
	Snd { frames: Arc::from(frames), sr, rate, looped, pan: (r.dyadic_unit(4) * 2.0 - 1.0) as f32, vol: *r.pick(&[0.0, -3.0, -7.5]), reverse: r.chance(1, 6) }
}
fn gen_trk(r: &mut Rng, depth: u32, nsends: usize) -> Trk {
	let mut routes = vec![];
	for i in 0..nsends {
		if r.chance(1, 2) {
			routes.push((i, Lvl::Fixed(*r.pick(&[0.0, -6.0, -12.0]))));
		}
	}
	Trk {
		vol: *r.pick(&[0.0, -2.0, -9.0]),
		fx: (0..r.below(3)).map(|_| gen_fx(r, 0)).collect(),
		snds: (0..r.below(3)).map(|_| gen_snd(r)).collect(),
		subs: if depth < 3 { (0..r.below(if depth == 0 { 3 } else { 2 })).map(|_| gen_trk(r, depth + 1, nsends)).collect() } else { vec![] },
		routes,
		spatial: None,
	}
}
fn gen_scene(r: &mut Rng) -> SceneD {
	let nsends = r.below(3) as usize;
	SceneD {
		main_vol: *r.pick(&[0.0, -1.0, -6.0]),
		main_fx: (0..r.below(2)).map(|_| gen_fx(r, 0)).collect(),
		main_snds: (0..r.below(2)).map(|_| gen_snd(r)).collect(),
		tracks: (0..r.range(1, 3)).map(|_| gen_trk(r, 0, nsends)).collect(),
		sends: (0..nsends).map(|_| (*r.pick(&[0.0, -4.0]), (0..r.below(2)).map(|_| gen_fx(r, 0)).collect())).collect(),
		mods: vec![],
		listener: None,
		hist: None,
	}
}
fn gen_rec_fx(r: &mut Rng) -> Fx {
	if r.chance(2, 3) {
		let frames = match r.below(4) {
			0 => r.range(1, 5) as u64,
			1 => r.range(6, 70) as u64,
			_ => r.range(71, 400) as u64,
		};
		let inner = (0..r.below(2)).map(|_| gen_fx(r, 1)).collect();
		Fx::Delay { frames, fb: *r.pick(&[-6.0, -12.0, -3.0]), mix: *r.pick(&[0.3, 0.5, 1.0]), inner }
	} else {
		Fx::Reverb { fb: *r.pick(&[0.5, 0.8, 0.9]), damp: *r.pick(&[0.1, 0.5]), width: *r.pick(&[0.0, 0.5, 1.0]), mix: *r.pick(&[0.3, 0.5, 1.0]) }
	}
}
fn gen_lvl(r: &mut Rng, nmods: usize, in_space: bool) -> Lvl {
	let (lo, hi) = *r.pick(&[(-30.0f32, -3.0f32), (-40.0, 0.0), (-12.0, 6.0), (0.0, -24.0)]);
	match r.below(3) {
		0 if nmods > 0 => Lvl::Tweener { m: r.below(nmods as u64) as usize, lo, hi },
		1 if in_space => Lvl::Distance { lo, hi },
		0 | 1 if nmods > 0 && r.chance(1, 2) => Lvl::Tweener { m: r.below(nmods as u64) as usize, lo, hi },
		_ => Lvl::Fixed(*r.pick(&[0.0, -6.0, -12.0])),
	}
}
fn gen_trk3(r: &mut Rng, depth: u32, nsends: usize, nmods: usize, listener: bool, in_space: bool) -> Trk {
	let spatial = if listener && r.chance(1, 2) { Some([r.range(-30, 30) as f32, r.range(-5, 5) as f32, r.range(-60, -2) as f32]) } else { None };
	let in_space = in_space || spatial.is_some();
	let mut routes = vec![];
	for i in 0..nsends {
		if r.chance(3, 4) {
			routes.push((i, gen_lvl(r, nmods, in_space)));
		}
	}
	Trk {
		vol: *r.pick(&[0.0, -2.0, -9.0]),
		fx: (0..r.below(2)).map(|_| gen_fx(r, 0)).collect(),
		snds: (0..if depth == 0 { r.range(1, 2) } else { r.range(0, 2) }).map(|_| gen_snd(r)).collect(),
		subs: if depth < 2 { (0..r.below(2)).map(|_| gen_trk3(r, depth + 1, nsends, nmods, listener, in_space)).collect() } else { vec![] },
		routes,
		spatial,
	}
}
/// scenes of part (3): constant-but-not-`Fixed` send levels, recursive effects on the sends, a sample-rate change in the past
fn gen_scene3(r: &mut Rng) -> SceneD {
	let nsends = r.range(1, 2) as usize;
	let nmods = r.below(3) as usize;
	// the listener stands at the origin: elsewhere `ListenerInfo::interpolated_position` (glam's a*(1-t) + b*t with a == b)
	// rounds differently at different positions inside a chunk -- see `listener_lerp_probe`
	let listener = if r.chance(1, 2) { Some([0.0, 0.0, 0.0]) } else { None };
	SceneD {
		main_vol: *r.pick(&[0.0, -1.0, -6.0]),
		main_fx: (0..r.below(2)).map(|_| if r.chance(1, 2) { gen_rec_fx(r) } else { gen_fx(r, 0) }).collect(),
		main_snds: (0..r.below(2)).map(|_| gen_snd(r)).collect(),
		tracks: (0..r.range(1, 3)).map(|_| gen_trk3(r, 0, nsends, nmods, listener.is_some(), false)).collect(),
		sends: (0..nsends).map(|_| (*r.pick(&[0.0, -4.0]), (0..r.range(0, 2)).map(|_| if r.chance(3, 4) { gen_rec_fx(r) } else { gen_fx(r, 0) }).collect())).collect(),
		mods: (0..nmods).map(|_| *r.pick(&[0.0, 0.25, 0.5, 0.8125, 1.0])).collect(),
		listener,
		hist: if r.chance(3, 5) { Some(Hist { sr0: *r.pick(&[44100u32, 44100, 22050, 96000, 48000]), late_play: r.chance(1, 2) }) } else { None },
	}
}
/// small hand-written scenes of part (3), rendered first (a failure on one of them is the readable witness)
fn directed3(r: &mut Rng) -> Vec<SceneD> {
	let mut noise = |n: usize| -> Snd {
		let frames: Vec<Frame> = (0..n).map(|_| Frame::new((r.unit_f64() - 0.5) as f32 * 0.6, (r.unit_f64() - 0.5) as f32 * 0.6)).collect();
		Snd { frames: Arc::from(frames), sr: SR, rate: 1.0, looped: None, pan: 0.0, vol: 0.0, reverse: false }
	};
	let trk = |snd: Snd, lvl: Lvl, spatial: Option<[f32; 3]>| Trk { vol: -2.0, fx: vec![], snds: vec![snd], subs: vec![], routes: vec![(0, lvl)], spatial };
	let scene = |t: Trk, send_fx: Vec<Fx>, mods: Vec<f64>, listener: Option<[f32; 3]>, hist: Option<Hist>| SceneD { main_vol: 0.0, main_fx: vec![], main_snds: vec![], tracks: vec![t], sends: vec![(-1.5, send_fx)], mods, listener, hist };
	let echo = Fx::Delay { frames: 240, fb: -3.0, mix: 1.0, inner: vec![] };
	let verb = Fx::Reverb { fb: 0.9, damp: 0.1, width: 1.0, mix: 1.0 };
	vec![
		// send level mapped from a tweener that is never tweened / from the distance to a listener that never moves
		scene(trk(noise(500), Lvl::Tweener { m: 0, lo: -40.0, hi: 0.0 }, None), vec![], vec![0.25], None, None),
		scene(trk(noise(500), Lvl::Distance { lo: -30.0, hi: -3.0 }, Some([3.0, 0.0, -40.0])), vec![], vec![], Some([0.0; 3]), None),
		// an echo / a reverb on a send track that has lived through a sample-rate change
		scene(trk(noise(48), Lvl::Fixed(0.0), None), vec![echo.clone()], vec![], None, Some(Hist { sr0: 44100, late_play: true })),
		scene(trk(noise(900), Lvl::Fixed(-6.0), None), vec![verb], vec![], None, Some(Hist { sr0: 22050, late_play: false })),
		scene(trk(noise(48), Lvl::Tweener { m: 0, lo: -12.0, hi: 6.0 }, None), vec![echo], vec![0.5], None, Some(Hist { sr0: 96000, late_play: true })),
	]
}
/// NOT a monitor (nothing is raised): records in the notes whether a listener that stands still away from the origin
/// makes a spatial track's output depend on the internal buffer size (glam's `lerp(a, a, t)` = a*(1-t) + a*t rounds
/// differently for different t = i / chunk length).  To be turned into `s.fail(.., Some(class))` once the class is listed.
fn listener_lerp_probe(s: &mut Session, r: &mut Rng) {
	let frames: Vec<Frame> = (0..400).map(|_| Frame::new((r.unit_f64() - 0.5) as f32 * 0.6, (r.unit_f64() - 0.5) as f32 * 0.6)).collect();
	let snd = Snd { frames: Arc::from(frames), sr: SR, rate: 1.0, looped: None, pan: 0.0, vol: 0.0, reverse: false };
	let d = SceneD {
		main_vol: 0.0,
		main_fx: vec![],
		main_snds: vec![],
		tracks: vec![Trk { vol: 0.0, fx: vec![], snds: vec![snd], subs: vec![], routes: vec![], spatial: Some([9.0, 1.0, -41.0]) }],
		sends: vec![],
		mods: vec![],
		listener: Some([-3.0, 0.0, -1.0]),
		hist: None,
	};
	let a = render(&d, 1, &[400], 2);
	let b = render(&d, 4096, &[400], 2);
	if let Some(p) = first_diff(&a, &b) {
		let maxdiff = a.iter().zip(b.iter()).map(|(x, y)| (x - y).abs()).fold(0.0f32, f32::max);
		s.count("listener_lerp_probe_differs");
		s.notes.push(format!(
			"finding candidate (not raised): listener fixed at (-3, 0, -1), identity orientation; spatial track fixed at (9, 1, -41) playing 400 frames of noise; one 400-frame callback with internal buffer size 1 vs 4096: first differing sample {p} (frame {}): {:?} vs {:?}, max abs difference {maxdiff:e}",
			p / 2,
			a[p],
			b[p]
		));
	}
}
fn split(r: &mut Rng, mut total: usize, max: usize) -> Vec<usize> {
	let mut v = vec![];
	while total > 0 {
		let k = (r.below(max as u64) as usize + 1).min(total);
		v.push(k);
		total -= k;
	}
	v
}
fn gen_configs(r: &mut Rng, total: usize, k: usize) -> Vec<(usize, Vec<usize>)> {
	let mut v: Vec<(usize, Vec<usize>)> = vec![(1, vec![total]), (4096, vec![total])];
	let b1 = r.range(2, 100) as usize;
	v.push((b1, vec![1; total])); // one-frame callbacks
	let b2 = *r.pick(&[64usize, 128, 256, 512]);
	v.push((b2, split(r, total, 2 * b2 + 37))); // sizes that are not a multiple of b
	while v.len() < k {
		let b = match r.below(4) {
			0 => r.range(2, 9) as usize,
			1 => r.range(10, 700) as usize,
			2 => 4096,
			_ => *r.pick(&[16usize, 32, 480, 1024]),
		};
		let cuts = match r.below(3) {
			0 => split(r, total, 3 * b),
			1 => split(r, total, 7),
			_ => split(r, total, 1000),
		};
		v.push((b, cuts));
	}
	v
}
/// number of effect slots (top-level effects of every chain, in a fixed traversal order)
fn count_fx(d: &SceneD) -> usize {
	fn t(x: &Trk) -> usize {
		x.fx.len() + x.subs.iter().map(t).sum::<usize>()
	}
	d.main_fx.len() + d.tracks.iter().map(t).sum::<usize>() + d.sends.iter().map(|s| s.1.len()).sum::<usize>()
}
/// the scene with every effect removed except slot `keep`
fn only_fx(d: &SceneD, keep: Option<usize>) -> (SceneD, Option<Fx>) {
	let mut k = 0usize;
	let mut kept = None;
	let mut filt = |v: &Vec<Fx>| -> Vec<Fx> {
		let mut o = vec![];
		for f in v {
			if Some(k) == keep {
				o.push(f.clone());
				kept = Some(f.clone());
			}
			k += 1;
		}
		o
	};
	fn t(x: &Trk, filt: &mut dyn FnMut(&Vec<Fx>) -> Vec<Fx>) -> Trk {
		let fx = filt(&x.fx);
		Trk { vol: x.vol, fx, snds: x.snds.clone(), subs: x.subs.iter().map(|c| t(c, filt)).collect(), routes: x.routes.clone(), spatial: x.spatial }
	}
	let main_fx = filt(&d.main_fx);
	let tracks = d.tracks.iter().map(|x| t(x, &mut filt)).collect();
	let sends = d.sends.iter().map(|(v, fx)| (*v, filt(fx))).collect();
	(SceneD { main_vol: d.main_vol, main_fx, main_snds: d.main_snds.clone(), tracks, sends, mods: d.mods.clone(), listener: d.listener, hist: d.hist.clone() }, kept)
}
fn first_diff(a: &[f32], b: &[f32]) -> Option<usize> {
	if a.len() != b.len() {
		return Some(a.len().min(b.len()));
	}
	(0..a.len()).find(|i| a[*i].to_bits() != b[*i].to_bits() && !(a[*i].is_nan() && b[*i].is_nan()))
}

type Cfg = (usize, Vec<usize>, Vec<usize>);
/// THE MONITOR: all renderings of one steady scene are the same; on a difference the scene is bisected
fn compare(s: &mut Session, d: &SceneD, cfgs: &[Cfg], ch: u16, total: usize, outs: &[Vec<f32>]) -> bool {
	for j in 1..outs.len() {
		let Some(p) = first_diff(&outs[0], &outs[j]) else { continue };
		// bisect: which element keeps the difference alive?
		let mut blame = String::from("not reproduced by any single element (interaction)");
		let (bare, _) = only_fx(d, None);
		let a = render_h(&bare, cfgs[0].0, &cfgs[0].1, &cfgs[0].2, ch);
		let b = render_h(&bare, cfgs[j].0, &cfgs[j].1, &cfgs[j].2, ch);
		if let Some(q) = first_diff(&a, &b) {
			blame = format!("sounds / tracks / sends alone (all effects removed) already differ at sample {q}");
		} else {
			for slot in 0..count_fx(d) {
				let (one, kept) = only_fx(d, Some(slot));
				let a = render_h(&one, cfgs[0].0, &cfgs[0].1, &cfgs[0].2, ch);
				let b = render_h(&one, cfgs[j].0, &cfgs[j].1, &cfgs[j].2, ch);
				if let Some(q) = first_diff(&a, &b) {
					blame = format!("effect {:?} alone (slot {slot}) already differs at sample {q} (frame {})", kept.unwrap(), q / ch as usize);
					break;
				}
			}
		}
		let maxdiff = outs[0].iter().zip(outs[j].iter()).map(|(x, y)| (x - y).abs()).fold(0.0f32, f32::max);
		let hist = match &d.hist {
			None => String::new(),
			Some(h) => format!(
				"; history: manager and scene created at {} Hz, sounds played {}, callbacks {:?} resp. {:?}, then Renderer::on_change_sample_rate({SR}), then the callbacks given",
				h.sr0,
				if h.late_play { "after the sample-rate change" } else { "at once" },
				short(&cfgs[0].1),
				short(&cfgs[j].1)
			),
		};
		s.fail(
			format!("steady scene {:?} on {ch} channels, {total} frames, (b, callbacks) = ({}, {:?}) vs ({}, {:?}){hist}", d, cfgs[0].0, short(&cfgs[0].2), cfgs[j].0, short(&cfgs[j].2)),
			format!("renderings differ first at sample {p} (frame {}): {:?} vs {:?}; max abs difference {maxdiff:e}; responsible: {blame}", p / ch as usize, outs[0][p], outs[j][p]),
			None,
		);
		return false;
	}
	true
}

pub fn run(args: &Args) {
	let mut rng = Rng::new(args.seed ^ 0xC11);
	let n: u64 = (if args.thorough { 5000 } else { 600 }) * args.budget_mul;
	let mut s = Session::new(
		"C11",
		&args.out,
		"From Coq Require Import ZArith List. Import ListNotations. Open Scope Z_scope.\nFrom KV Require Import Base.Corr C02.Run C11.Run.",
		"C11.Run.run",
		40,
		"model case = one probe scene (random tree, sends, probe effects, pauses, mutes) rebuilt identically and rendered by a real AudioManager under 3-4 (internal buffer size, callback partition) configurations, every rendering predicted by the buffer-level model; monitor-only case = one steady scene of real static sounds / tracks / sends / built-in effects rendered under 4-8 configurations (b = 1, b = 4096, one-frame callbacks, non-multiples of b) and compared bit-for-bit, and one steady scene with send levels mapped from an idle tweener / a fixed listener distance, recursive effects on the sends and a sample-rate change in the past (partition of the callbacks before the change varied too), same comparison; distinct = distinct scene text",
	);

	// ---- (1) probe scenes under several configurations: model cases + equality monitor
	for _ in 0..n {
		let seed = rng.next();
		let total = 4 + (seed % 28) as usize;
		let ch = *rng.pick(&[2u16, 2, 1, 3, 6]);
		let k = rng.range(3, 4) as usize;
		let mut cfgs: Vec<(usize, Vec<usize>)> = vec![(1, vec![total]), (pick_b(&mut rng), vec![1; total])];
		while cfgs.len() < k {
			let b = if rng.chance(1, 8) { 4096 } else { pick_b(&mut rng) };
			let cuts = split(&mut rng, total, 2 * b.min(16) + 1);
			cfgs.push((b, cuts));
		}
		let mut terms = vec![];
		let mut obs_all: Vec<i128> = vec![];
		let mut outs: Vec<Vec<f32>> = vec![];
		let mut ok = true;
		let mut nontrivial = false;
		for (b, cuts) in &cfgs {
			let mut r = Rng(seed);
			let mut sc = Scene::new(&mut r, *b, false);
			sc.populate(&mut r);
			sc.render(2, &[1]);
			for _ in 0..r.below(4) {
				sc.random_edit(&mut r);
			}
			sc.render(2, &[1]); // gain ramps of mute / resume end inside this one-frame chunk
			let term = sc.snapshot_term(ch, cuts);
			let out = sc.render(ch, cuts);
			nontrivial = sc.num_nodes() >= 1 && sc.num_sounds() >= 1;
			match scaled(&out) {
				Some(mut o) => {
					o.insert(0, 0);
					o.push(0);
					for l in sc.logs_since_mark() {
						o.push(l.len() as i128);
						o.extend(l.iter().map(|x| *x as i128));
					}
					obs_all.extend(o);
				}
				None => {
					s.fail(term.clone(), "a device sample is not an exact multiple of 2^-24 in [-1, 1]".into(), None);
					ok = false;
				}
			}
			if let Some(e) = sc.check_logs(cuts) {
				s.fail(term.clone(), e, None);
			}
			terms.push(term);
			outs.push(out);
		}
		for i in 1..outs.len() {
			if let Some(p) = first_diff(&outs[0], &outs[i]) {
				s.fail(
					format!("probe scene {} rendered with (b, callbacks) = {:?} and {:?}", terms[0], cfgs[0], cfgs[i]),
					format!("device sample {p} (frame {}) differs: {:?} vs {:?}", p / ch as usize, outs[0].get(p), outs[i].get(p)),
					None,
				);
				break;
			}
		}
		if ok {
			let t = format!("CMulti [{}]", terms.join("; "));
			let key = hash_key(&terms[0]);
			s.case("probe_multi", t, &obs_all, if nontrivial { Some(key) } else { None });
		}
	}
	let _ = gen_cbs;

	// ---- (2) real sounds and effects
	let scenes = (if args.thorough { 3000 } else { 300 }) * args.budget_mul;
	for i in 0..scenes {
		let d = gen_scene(&mut rng);
		let total = if args.thorough && i % 10 == 0 { rng.range(3000, 9000) } else { rng.range(300, 1800) } as usize;
		let ch = rng.range(1, 8) as u16;
		let k = rng.range(4, 8) as usize;
		let cfgs = gen_configs(&mut rng, total, k);
		let outs: Vec<Vec<f32>> = cfgs.iter().map(|(b, cuts)| render(&d, *b, cuts, ch)).collect();
		s.eval_only("real_scene");
		s.count(&format!("real_scene_{}_effects", count_fx(&d).min(6)));
		if outs[0].iter().any(|x| *x != 0.0) {
			s.nontrivial.insert(format!("real{i}"));
		}
		if outs[0].iter().any(|x| x.is_nan()) {
			s.count("real_scene_nan");
			if s.notes.len() < 2 {
				// not a C11 matter (the NaN is the same in every rendering); recorded for C01 / C13
				let mut blame = String::new();
				for slot in 0..count_fx(&d) {
					let (one, kept) = only_fx(&d, Some(slot));
					if render(&one, cfgs[0].0, &cfgs[0].1, ch).iter().any(|x| x.is_nan()) {
						blame = format!("{:?}", kept.unwrap());
						break;
					}
				}
				if blame.is_empty() {
					let mut t = format!("{:?}", d);
					t.truncate(1500);
					blame = format!("none (interaction); scene: {t}");
				}
				s.notes.push(format!("a steady scene renders NaN (identically under every configuration); effect alone reproducing it: {blame}"));
			}
		}
		let cfgs3: Vec<Cfg> = cfgs.iter().map(|(b, cuts)| (*b, vec![], cuts.clone())).collect();
		compare(&mut s, &d, &cfgs3, ch, total, &outs);
	}

	// ---- (3) constant parameters that are not `Fixed`, recursive effects on sends, a sample-rate change in the past
	// (own stream, hashed once more: `Rng::new(s)` and `Rng::new(s + 1)` are the same SplitMix sequence one draw apart)
	let mut rng = Rng(Rng::new(args.seed.wrapping_mul(0x2545_F491_4F6C_DD1D) ^ 0xC113).next());
	let scenes3 = (if args.thorough { 3000 } else { 300 }) * args.budget_mul;
	let directed = directed3(&mut rng);
	for i in 0..scenes3 {
		let d = if (i as usize) < directed.len() { directed[i as usize].clone() } else { gen_scene3(&mut rng) };
		// a reverb says nothing during its first ~1200 frames (shortest comb line): render past that, or what its
		// state went through before cannot be heard
		let send_reverb = d.sends.iter().any(|(_, fx)| fx.iter().any(|f| matches!(f, Fx::Reverb { .. })));
		let total = if send_reverb && ((i as usize) < directed.len() || rng.chance(1, 2)) { rng.range(2600, 4000) } else { rng.range(200, 1200) } as usize;
		let pre = if d.hist.is_none() || rng.chance(1, 4) { 0 } else { rng.range(1, 300) as usize };
		let ch = *rng.pick(&[2u16, 2, 1, 5]);
		let k = rng.range(4, 5) as usize;
		let cfgs: Vec<Cfg> = gen_configs(&mut rng, total, k)
			.into_iter()
			.enumerate()
			.map(|(j, (b, cuts))| {
				let p = match j {
					0 | 1 => if pre > 0 { vec![pre] } else { vec![] },
					2 => vec![1; pre],
					_ => split(&mut rng, pre, 2 * b.min(200) + 3),
				};
				(b, p, cuts)
			})
			.collect();
		let outs: Vec<Vec<f32>> = cfgs.iter().map(|(b, p, cuts)| render_h(&d, *b, p, cuts, ch)).collect();
		s.eval_only("steady_history_scene");
		if d.hist.is_some() {
			s.count("steady_history_scene_rate_changed");
		}
		if outs[0].iter().any(|x| *x != 0.0) {
			s.nontrivial.insert(format!("hist{i}"));
		}
		compare(&mut s, &d, &cfgs, ch, total + pre, &outs);
	}
	listener_lerp_probe(&mut s, &mut rng);
	s.notes.push("real scenes are compared rendering-against-rendering (bit patterns); the probe scenes also against the model".into());
	s.finish();
}
fn short(v: &[usize]) -> String {
	if v.len() <= 12 {
		format!("{:?}", v)
	} else {
		format!("{:?}.. ({} callbacks)", &v[..12], v.len())
	}
}
