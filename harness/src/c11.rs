//! C11 — rendered audio does not depend on buffer sizes.
//! (1) Probe scenes (the machinery of c02.rs) rebuilt identically and rendered under several
//! (internal buffer size, callback partition) configurations: every rendering is a case for the
//! buffer-level Gallina model (`C11/Run.v` = C02's model under each configuration), and the
//! renderings must be equal to each other bit-for-bit (monitor).
//! (2) Steady scenes of REAL sounds (static sounds: noise, various sample rates, playback rates,
//! loops, pans, reverse) on real tracks / send tracks with all seven built-in effects (a delay with
//! feedback effects included), fixed parameters, rendered under 4-8 configurations including
//! b = 1, b = 4096, one-frame callbacks and sizes that are not a multiple of b, on 1..8 channels:
//! renderings compared with each other bit-for-bit; on a difference the first differing frame is
//! reported and the scene is bisected (effects removed / kept one at a time) to name the element.
use crate::backend::*;
use crate::c02::{gen_cbs, hash_key, pick_b, scaled, Scene};
use crate::util::*;
use kira::effect::compressor::CompressorBuilder;
use kira::effect::delay::DelayBuilder;
use kira::effect::distortion::{DistortionBuilder, DistortionKind};
use kira::effect::eq_filter::{EqFilterBuilder, EqFilterKind};
use kira::effect::filter::{FilterBuilder, FilterMode};
use kira::effect::panning_control::PanningControlBuilder;
use kira::effect::reverb::ReverbBuilder;
use kira::effect::volume_control::VolumeControlBuilder;
use kira::effect::{Effect, EffectBuilder};
use kira::sound::static_sound::{StaticSoundData, StaticSoundSettings};
use kira::track::{MainTrackBuilder, SendTrackBuilder, SendTrackId, TrackBuilder, TrackHandle};
use kira::{Capacities, Frame, Panning, Value};
use std::any::Any;
use std::sync::Arc;
use std::time::Duration;

const SR: u32 = 48000;

#[derive(Clone, Debug)]
enum Fx {
	Vol(f32),
	Pan(f32),
	Dist { hard: bool, db: f32, mix: f32 },
	Filter { mode: u8, cutoff: f64, res: f64, mix: f32 },
	Eq { kind: u8, freq: f64, gain: f32, q: f64 },
	Comp { thr: f64, ratio: f64, att_ms: u64, rel_ms: u64, mk: f32, mix: f32 },
	Delay { frames: u64, fb: f32, mix: f32, inner: Vec<Fx> },
	Reverb { fb: f64, damp: f64, width: f64, mix: f32 },
}
impl Fx {
	fn build(&self) -> Box<dyn Effect> {
		match self {
			Fx::Vol(db) => VolumeControlBuilder::new(*db).build().0,
			Fx::Pan(p) => PanningControlBuilder(Value::Fixed(Panning(*p))).build().0,
			Fx::Dist { hard, db, mix } => DistortionBuilder::new()
				.kind(if *hard { DistortionKind::HardClip } else { DistortionKind::SoftClip })
				.drive(*db)
				.mix(*mix)
				.build()
				.0,
			Fx::Filter { mode, cutoff, res, mix } => FilterBuilder::new()
				.mode(match mode {
					0 => FilterMode::LowPass,
					1 => FilterMode::BandPass,
					2 => FilterMode::HighPass,
					_ => FilterMode::Notch,
				})
				.cutoff(*cutoff)
				.resonance(*res)
				.mix(*mix)
				.build()
				.0,
			Fx::Eq { kind, freq, gain, q } => EqFilterBuilder::new(
				match kind {
					0 => EqFilterKind::Bell,
					1 => EqFilterKind::LowShelf,
					_ => EqFilterKind::HighShelf,
				},
				*freq,
				*gain,
				*q,
			)
			.build()
			.0,
			Fx::Comp { thr, ratio, att_ms, rel_ms, mk, mix } => CompressorBuilder::new()
				.threshold(*thr)
				.ratio(*ratio)
				.attack_duration(Duration::from_millis(*att_ms))
				.release_duration(Duration::from_millis(*rel_ms))
				.makeup_gain(*mk)
				.mix(*mix)
				.build()
				.0,
			Fx::Delay { frames, fb, mix, inner } => {
				// delay_time * sample_rate truncates to `frames`
				let mut b = DelayBuilder::new().delay_time(Duration::from_secs_f64((*frames as f64 + 0.5) / SR as f64)).feedback(*fb).mix(*mix);
				for d in inner {
					b = b.with_feedback_effect(Built(d.clone()));
				}
				b.build().0
			}
			Fx::Reverb { fb, damp, width, mix } => ReverbBuilder::new().feedback(*fb).damping(*damp).stereo_width(*width).mix(*mix).build().0,
		}
	}
}
struct Built(Fx);
impl EffectBuilder for Built {
	type Handle = ();
	fn build(self) -> (Box<dyn Effect>, ()) {
		(self.0.build(), ())
	}
}
#[derive(Clone)]
struct Snd {
	frames: Arc<[Frame]>,
	sr: u32,
	rate: f64,
	looped: Option<(f64, f64)>,
	pan: f32,
	vol: f32,
	reverse: bool,
}
impl std::fmt::Debug for Snd {
	fn fmt(&self, f: &mut std::fmt::Formatter<'_>) -> std::fmt::Result {
		write!(f, "Snd{{{} frames @{} Hz, rate {}, loop {:?}, pan {}, vol {} dB, reverse {}}}", self.frames.len(), self.sr, self.rate, self.looped, self.pan, self.vol, self.reverse)
	}
}
#[derive(Clone, Debug)]
struct Trk {
	vol: f32,
	fx: Vec<Fx>,
	snds: Vec<Snd>,
	subs: Vec<Trk>,
	routes: Vec<(usize, f32)>,
}
#[derive(Clone, Debug)]
struct SceneD {
	main_vol: f32,
	main_fx: Vec<Fx>,
	main_snds: Vec<Snd>,
	tracks: Vec<Trk>,
	sends: Vec<(f32, Vec<Fx>)>,
}

fn snd_data(s: &Snd) -> StaticSoundData {
	let mut d = StaticSoundData { sample_rate: s.sr, frames: s.frames.clone(), settings: StaticSoundSettings::default(), slice: None };
	d = d.playback_rate(s.rate).panning(Panning(s.pan)).volume(s.vol).reverse(s.reverse);
	if let Some((a, b)) = s.looped {
		d = d.loop_region(a..b);
	}
	d
}
fn build_track(t: &Trk, sends: &[SendTrackId], parent: Result<&mut TrackHandle, &mut Mgr>, keep: &mut Vec<Box<dyn Any>>) {
	let mut b = TrackBuilder::new().volume(t.vol);
	for f in &t.fx {
		b.add_built_effect(f.build());
	}
	for (i, db) in &t.routes {
		b = b.with_send(sends[*i], *db);
	}
	let mut h = match parent {
		Ok(p) => p.add_sub_track(b).unwrap(),
		Err(m) => m.add_sub_track(b).unwrap(),
	};
	for s in &t.snds {
		keep.push(Box::new(h.play(snd_data(s)).unwrap()));
	}
	for c in &t.subs {
		build_track(c, sends, Ok(&mut h), keep);
	}
	keep.push(Box::new(h));
}
fn render(d: &SceneD, b: usize, cuts: &[usize], ch: u16) -> Vec<f32> {
	let mut main = MainTrackBuilder::new().volume(d.main_vol);
	for f in &d.main_fx {
		main.add_built_effect(f.build());
	}
	let mut mgr = manager(SR, b, Capacities::default(), main);
	let mut keep: Vec<Box<dyn Any>> = vec![];
	let mut ids = vec![];
	for (vol, fx) in &d.sends {
		let mut sb = SendTrackBuilder::new().volume(*vol);
		for f in fx {
			sb.add_built_effect(f.build());
		}
		let h = mgr.add_send_track(sb).unwrap();
		ids.push(h.id());
		keep.push(Box::new(h));
	}
	for s in &d.main_snds {
		keep.push(Box::new(mgr.play(snd_data(s)).unwrap()));
	}
	for t in &d.tracks {
		build_track(t, &ids, Err(&mut mgr), &mut keep);
	}
	let mut out = vec![];
	for n in cuts {
		out.extend(mgr.backend_mut().callback(*n, ch));
	}
	drop(keep);
	out
}

fn gen_fx(r: &mut Rng, depth: u32) -> Fx {
	match r.below(if depth == 0 { 9 } else { 6 }) {
		0 => Fx::Vol(*r.pick(&[-6.0, -3.5, 0.0, 2.0])),
		1 => Fx::Pan((r.dyadic_unit(4) * 2.0 - 1.0) as f32),
		2 => Fx::Dist { hard: r.chance(1, 2), db: *r.pick(&[0.0, 6.0, 12.0]), mix: *r.pick(&[0.5, 1.0]) },
		3 => Fx::Filter { mode: r.below(4) as u8, cutoff: *r.pick(&[200.0, 1000.0, 5000.0]), res: *r.pick(&[0.0, 0.3, 0.7]), mix: *r.pick(&[0.5, 1.0]) },
		4 => Fx::Eq { kind: r.below(3) as u8, freq: *r.pick(&[300.0, 2000.0, 8000.0]), gain: *r.pick(&[-6.0, 3.0]), q: *r.pick(&[0.7, 1.5]) },
		5 => Fx::Comp { thr: *r.pick(&[-24.0, -12.0, -3.0]), ratio: *r.pick(&[2.0, 4.0, 8.0]), att_ms: *r.pick(&[1, 5, 20]), rel_ms: *r.pick(&[20, 100]), mk: *r.pick(&[0.0, 3.0]), mix: *r.pick(&[0.5, 1.0]) },
		6 | 7 => {
			let frames = match r.below(5) {
				0 => r.range(1, 5) as u64,
				1 => r.range(6, 70) as u64,
				2 => 64,
				_ => r.range(71, 1500) as u64,
			};
			let inner = (0..r.below(3)).map(|_| gen_fx(r, depth + 1)).collect();
			Fx::Delay { frames, fb: *r.pick(&[-6.0, -12.0, -3.0]), mix: *r.pick(&[0.3, 0.5, 1.0]), inner }
		}
		_ => Fx::Reverb { fb: *r.pick(&[0.5, 0.8, 0.9]), damp: *r.pick(&[0.1, 0.5]), width: *r.pick(&[0.0, 0.5, 1.0]), mix: *r.pick(&[0.3, 0.5]) },
	}
}
fn gen_snd(r: &mut Rng) -> Snd {
	let n = r.range(40, 1200) as usize;
	let frames: Vec<Frame> = (0..n).map(|_| Frame::new((r.unit_f64() - 0.5) as f32 * 0.4, (r.unit_f64() - 0.5) as f32 * 0.4)).collect();
	let sr = *r.pick(&[48000u32, 48000, 44100, 22050, 96000, 8000]);
	let rate = *r.pick(&[1.0, 1.0, 0.5, 2.0, 0.73, 1.37, 3.1]);
	let dur = n as f64 / sr as f64;
	let looped = if r.chance(1, 2) {
		let a = r.unit_f64() * 0.5 * dur;
		let b = a + (0.1 + r.unit_f64() * 0.4) * dur;
		Some((a, b))
	} else {
		None
	};
	Snd { frames: Arc::from(frames), sr, rate, looped, pan: (r.dyadic_unit(4) * 2.0 - 1.0) as f32, vol: *r.pick(&[0.0, -3.0, -7.5]), reverse: r.chance(1, 6) }
}
fn gen_trk(r: &mut Rng, depth: u32, nsends: usize) -> Trk {
	let mut routes = vec![];
	for i in 0..nsends {
		if r.chance(1, 2) {
			routes.push((i, *r.pick(&[0.0, -6.0, -12.0])));
		}
	}
	Trk {
		vol: *r.pick(&[0.0, -2.0, -9.0]),
		fx: (0..r.below(3)).map(|_| gen_fx(r, 0)).collect(),
		snds: (0..r.below(3)).map(|_| gen_snd(r)).collect(),
		subs: if depth < 3 { (0..r.below(if depth == 0 { 3 } else { 2 })).map(|_| gen_trk(r, depth + 1, nsends)).collect() } else { vec![] },
		routes,
	}
}
fn gen_scene(r: &mut Rng) -> SceneD {
	let nsends = r.below(3) as usize;
	SceneD {
		main_vol: *r.pick(&[0.0, -1.0, -6.0]),
		main_fx: (0..r.below(2)).map(|_| gen_fx(r, 0)).collect(),
		main_snds: (0..r.below(2)).map(|_| gen_snd(r)).collect(),
		tracks: (0..r.range(1, 3)).map(|_| gen_trk(r, 0, nsends)).collect(),
		sends: (0..nsends).map(|_| (*r.pick(&[0.0, -4.0]), (0..r.below(2)).map(|_| gen_fx(r, 0)).collect())).collect(),
	}
}
fn split(r: &mut Rng, mut total: usize, max: usize) -> Vec<usize> {
	let mut v = vec![];
	while total > 0 {
		let k = (r.below(max as u64) as usize + 1).min(total);
		v.push(k);
		total -= k;
	}
	v
}
fn gen_configs(r: &mut Rng, total: usize, k: usize) -> Vec<(usize, Vec<usize>)> {
	let mut v: Vec<(usize, Vec<usize>)> = vec![(1, vec![total]), (4096, vec![total])];
	let b1 = r.range(2, 100) as usize;
	v.push((b1, vec![1; total])); // one-frame callbacks
	let b2 = *r.pick(&[64usize, 128, 256, 512]);
	v.push((b2, split(r, total, 2 * b2 + 37))); // sizes that are not a multiple of b
	while v.len() < k {
		let b = match r.below(4) {
			0 => r.range(2, 9) as usize,
			1 => r.range(10, 700) as usize,
			2 => 4096,
			_ => *r.pick(&[16usize, 32, 480, 1024]),
		};
		let cuts = match r.below(3) {
			0 => split(r, total, 3 * b),
			1 => split(r, total, 7),
			_ => split(r, total, 1000),
		};
		v.push((b, cuts));
	}
	v
}
/// number of effect slots (top-level effects of every chain, in a fixed traversal order)
fn count_fx(d: &SceneD) -> usize {
	fn t(x: &Trk) -> usize {
		x.fx.len() + x.subs.iter().map(t).sum::<usize>()
	}
	d.main_fx.len() + d.tracks.iter().map(t).sum::<usize>() + d.sends.iter().map(|s| s.1.len()).sum::<usize>()
}
/// the scene with every effect removed except slot `keep`
fn only_fx(d: &SceneD, keep: Option<usize>) -> (SceneD, Option<Fx>) {
	let mut k = 0usize;
	let mut kept = None;
	let mut filt = |v: &Vec<Fx>| -> Vec<Fx> {
		let mut o = vec![];
		for f in v {
			if Some(k) == keep {
				o.push(f.clone());
				kept = Some(f.clone());
			}
			k += 1;
		}
		o
	};
	fn t(x: &Trk, filt: &mut dyn FnMut(&Vec<Fx>) -> Vec<Fx>) -> Trk {
		let fx = filt(&x.fx);
		Trk { vol: x.vol, fx, snds: x.snds.clone(), subs: x.subs.iter().map(|c| t(c, filt)).collect(), routes: x.routes.clone() }
	}
	let main_fx = filt(&d.main_fx);
	let tracks = d.tracks.iter().map(|x| t(x, &mut filt)).collect();
	let sends = d.sends.iter().map(|(v, fx)| (*v, filt(fx))).collect();
	(SceneD { main_vol: d.main_vol, main_fx, main_snds: d.main_snds.clone(), tracks, sends }, kept)
}
fn first_diff(a: &[f32], b: &[f32]) -> Option<usize> {
	if a.len() != b.len() {
		return Some(a.len().min(b.len()));
	}
	(0..a.len()).find(|i| a[*i].to_bits() != b[*i].to_bits() && !(a[*i].is_nan() && b[*i].is_nan()))
}

pub fn run(args: &Args) {
	let mut rng = Rng::new(args.seed ^ 0xC11);
	let n: u64 = (if args.thorough { 5000 } else { 600 }) * args.budget_mul;
	let mut s = Session::new(
		"C11",
		&args.out,
		"From Coq Require Import ZArith List. Import ListNotations. Open Scope Z_scope.\nFrom KV Require Import Base.Corr C02.Run C11.Run.",
		"C11.Run.run",
		40,
		"model case = one probe scene (random tree, sends, probe effects, pauses, mutes) rebuilt identically and rendered by a real AudioManager under 3-4 (internal buffer size, callback partition) configurations, every rendering predicted by the buffer-level model; monitor-only case = one steady scene of real static sounds / tracks / sends / built-in effects rendered under 4-8 configurations (b = 1, b = 4096, one-frame callbacks, non-multiples of b) and compared bit-for-bit; distinct = distinct scene text",
	);

	// ---- (1) probe scenes under several configurations: model cases + equality monitor
	for _ in 0..n {
		let seed = rng.next();
		let total = 4 + (seed % 28) as usize;
		let ch = *rng.pick(&[2u16, 2, 1, 3, 6]);
		let k = rng.range(3, 4) as usize;
		let mut cfgs: Vec<(usize, Vec<usize>)> = vec![(1, vec![total]), (pick_b(&mut rng), vec![1; total])];
		while cfgs.len() < k {
			let b = if rng.chance(1, 8) { 4096 } else { pick_b(&mut rng) };
			let cuts = split(&mut rng, total, 2 * b.min(16) + 1);
			cfgs.push((b, cuts));
		}
		let mut terms = vec![];
		let mut obs_all: Vec<i128> = vec![];
		let mut outs: Vec<Vec<f32>> = vec![];
		let mut ok = true;
		let mut nontrivial = false;
		for (b, cuts) in &cfgs {
			let mut r = Rng(seed);
			let mut sc = Scene::new(&mut r, *b, false);
			sc.populate(&mut r);
			sc.render(2, &[1]);
			for _ in 0..r.below(4) {
				sc.random_edit(&mut r);
			}
			sc.render(2, &[1]); // gain ramps of mute / resume end inside this one-frame chunk
			let term = sc.snapshot_term(ch, cuts);
			let out = sc.render(ch, cuts);
			nontrivial = sc.num_nodes() >= 1 && sc.num_sounds() >= 1;
			match scaled(&out) {
				Some(mut o) => {
					o.insert(0, 0);
					o.push(0);
					for l in sc.logs_since_mark() {
						o.push(l.len() as i128);
						o.extend(l.iter().map(|x| *x as i128));
					}
					obs_all.extend(o);
				}
				None => {
					s.fail(term.clone(), "a device sample is not an exact multiple of 2^-24 in [-1, 1]".into(), None);
					ok = false;
				}
			}
			if let Some(e) = sc.check_logs(cuts) {
				s.fail(term.clone(), e, None);
			}
			terms.push(term);
			outs.push(out);
		}
		for i in 1..outs.len() {
			if let Some(p) = first_diff(&outs[0], &outs[i]) {
				s.fail(
					format!("probe scene {} rendered with (b, callbacks) = {:?} and {:?}", terms[0], cfgs[0], cfgs[i]),
					format!("device sample {p} (frame {}) differs: {:?} vs {:?}", p / ch as usize, outs[0].get(p), outs[i].get(p)),
					None,
				);
				break;
			}
		}
		if ok {
			let t = format!("CMulti [{}]", terms.join("; "));
			let key = hash_key(&terms[0]);
			s.case("probe_multi", t, &obs_all, if nontrivial { Some(key) } else { None });
		}
	}
	let _ = gen_cbs;

	// ---- (2) real sounds and effects
	let scenes = (if args.thorough { 3000 } else { 300 }) * args.budget_mul;
	for i in 0..scenes {
		let d = gen_scene(&mut rng);
		let total = if args.thorough && i % 10 == 0 { rng.range(3000, 9000) } else { rng.range(300, 1800) } as usize;
		let ch = rng.range(1, 8) as u16;
		let k = rng.range(4, 8) as usize;
		let cfgs = gen_configs(&mut rng, total, k);
		let outs: Vec<Vec<f32>> = cfgs.iter().map(|(b, cuts)| render(&d, *b, cuts, ch)).collect();
		s.eval_only("real_scene");
		s.count(&format!("real_scene_{}_effects", count_fx(&d).min(6)));
		if outs[0].iter().any(|x| *x != 0.0) {
			s.nontrivial.insert(format!("real{i}"));
		}
		if outs[0].iter().any(|x| x.is_nan()) {
			s.count("real_scene_nan");
			if s.notes.len() < 2 {
				// not a C11 matter (the NaN is the same in every rendering); recorded for C01 / C13
				let mut blame = String::new();
				for slot in 0..count_fx(&d) {
					let (one, kept) = only_fx(&d, Some(slot));
					if render(&one, cfgs[0].0, &cfgs[0].1, ch).iter().any(|x| x.is_nan()) {
						blame = format!("{:?}", kept.unwrap());
						break;
					}
				}
				if blame.is_empty() {
					let mut t = format!("{:?}", d);
					t.truncate(1500);
					blame = format!("none (interaction); scene: {t}");
				}
				s.notes.push(format!("a steady scene renders NaN (identically under every configuration); effect alone reproducing it: {blame}"));
			}
		}
		for j in 1..outs.len() {
			let Some(p) = first_diff(&outs[0], &outs[j]) else { continue };
			// bisect: which element keeps the difference alive?
			let mut blame = String::from("not reproduced by any single element (interaction)");
			let (bare, _) = only_fx(&d, None);
			let a = render(&bare, cfgs[0].0, &cfgs[0].1, ch);
			let b = render(&bare, cfgs[j].0, &cfgs[j].1, ch);
			if let Some(q) = first_diff(&a, &b) {
				blame = format!("sounds / tracks / sends alone (all effects removed) already differ at sample {q}");
			} else {
				for slot in 0..count_fx(&d) {
					let (one, kept) = only_fx(&d, Some(slot));
					let a = render(&one, cfgs[0].0, &cfgs[0].1, ch);
					let b = render(&one, cfgs[j].0, &cfgs[j].1, ch);
					if let Some(q) = first_diff(&a, &b) {
						blame = format!("effect {:?} alone (slot {slot}) already differs at sample {q} (frame {})", kept.unwrap(), q / ch as usize);
						break;
					}
				}
			}
			let maxdiff = outs[0].iter().zip(outs[j].iter()).map(|(x, y)| (x - y).abs()).fold(0.0f32, f32::max);
			s.fail(
				format!("steady scene {:?} on {ch} channels, {total} frames, (b, callbacks) = ({}, {:?}) vs ({}, {:?})", d, cfgs[0].0, short(&cfgs[0].1), cfgs[j].0, short(&cfgs[j].1)),
				format!("renderings differ first at sample {p} (frame {}): {:?} vs {:?}; max abs difference {maxdiff:e}; responsible: {blame}", p / ch as usize, outs[0][p], outs[j][p]),
				None,
			);
			break;
		}
	}
	s.notes.push("real scenes are compared rendering-against-rendering (bit patterns); the probe scenes also against the model".into());
	s.finish();
}
fn short(v: &[usize]) -> String {
	if v.len() <= 12 {
		format!("{:?}", v)
	} else {
		format!("{:?}.. ({} callbacks)", &v[..12], v.len())
	}
}
