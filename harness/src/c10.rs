//! C10 — decoder threads always end; decode errors stop the sound and reach the handle.
//!
//! The REAL streaming sound (public API: `Decoder` trait, `StreamingSoundData::from_decoder`,
//! `TrackHandle::play`, a manager over `VBackend`) is driven with a scripted decoder:
//! frames carry their own index, packet sizes are scripted, the k-th `decode`/`seek` call can fail,
//! calls are counted, `Drop` records the thread, and (paced mode) every call except seek #1 waits for
//! a permit from the harness, so the decoder thread is paced deterministically without hooks.
//! The model (coq/theories/C10) is run on the same scenario under the schedule pacing enforces.
use crate::backend::*;
use crate::util::*;
use kira::sound::static_sound::StaticSoundSettings;
use kira::sound::streaming::{Decoder, StreamingSoundData, StreamingSoundHandle};
use kira::sound::{PlaybackPosition, PlaybackState, Region};
use kira::track::{MainTrackBuilder, TrackBuilder, TrackHandle};
use kira::clock::ClockSpeed;
use kira::{Capacities, Frame, PlaySoundError, StartTime, Tween};
use std::sync::{Arc, Condvar, Mutex};
use std::thread::ThreadId;
use std::time::{Duration, Instant};

const SR: u32 = 512; // dt = 2^-9 s = 1953125 ns: sample_rate * rate * dt is exactly 1
const FRAME_NS: u64 = 1_953_125;
const CAP: usize = 16_384; // decode_scheduler.rs BUFFER_SIZE

// ------------------------------------------------------------------------------------------------
// the scripted decoder
// ------------------------------------------------------------------------------------------------
#[derive(Default)]
struct CtlState {
	free: bool,
	kill: bool,
	permits: u64,
	waiting: bool,
	started: u64,
	ndec: u64,
	nseek: u64,
	/// decode calls made when the stream had already been delivered completely
	neos: u64,
	dropped: bool,
	dropped_on_other_thread: bool,
	first_err: Option<i128>,
	errs: Vec<i128>,
}
struct Ctl {
	m: Mutex<CtlState>,
	cv: Condvar,
	creator: ThreadId,
}
impl Ctl {
	fn new(free: bool) -> Arc<Ctl> {
		Arc::new(Ctl { m: Mutex::new(CtlState { free, ..Default::default() }), cv: Condvar::new(), creator: std::thread::current().id() })
	}
	/// blocks the calling decoder method until the harness allows it
	fn gate(&self, exempt: bool) {
		let mut g = self.m.lock().unwrap();
		if !exempt {
			if !g.free || g.kill {
				g.waiting = true;
				self.cv.notify_all();
				while g.kill || (g.permits == 0 && !g.free) {
					g = self.cv.wait(g).unwrap();
				}
				if !g.free {
					g.permits -= 1;
				}
				g.waiting = false;
			}
		}
		g.started += 1;
	}
	fn snapshot(&self) -> (u64, u64, u64, bool, bool, bool) {
		let g = self.m.lock().unwrap();
		(g.started, g.ndec, g.nseek, g.dropped, g.dropped_on_other_thread, g.waiting)
	}
	/// paced mode: grant one permit and wait until the thread is blocked again (next call) or has ended.
	/// Returns false if neither happened within the time limit.
	fn permit(&self) -> bool {
		let mut g = self.m.lock().unwrap();
		if g.dropped || !g.waiting {
			return true; // nothing is waiting (thread ended, or asleep on a full ring): the permit would not be consumed
		}
		let gen = g.started;
		g.permits += 1;
		self.cv.notify_all();
		let deadline = Instant::now() + Duration::from_secs(5);
		while !(g.started > gen && (g.waiting || g.dropped)) {
			let left = deadline.saturating_duration_since(Instant::now());
			if left.is_zero() {
				return false;
			}
			g = self.cv.wait_timeout(g, left).unwrap().0;
		}
		true
	}
	/// paced mode: wait until the thread is blocked in a call or has ended
	fn wait_blocked(&self, limit: Duration) -> bool {
		let mut g = self.m.lock().unwrap();
		let deadline = Instant::now() + limit;
		while !(g.waiting || g.dropped) {
			let left = deadline.saturating_duration_since(Instant::now());
			if left.is_zero() {
				return false;
			}
			g = self.cv.wait_timeout(g, left).unwrap().0;
		}
		true
	}
	fn wait_dropped(&self, limit: Duration) -> bool {
		let mut g = self.m.lock().unwrap();
		let deadline = Instant::now() + limit;
		while !g.dropped {
			let left = deadline.saturating_duration_since(Instant::now());
			if left.is_zero() {
				return false;
			}
			g = self.cv.wait_timeout(g, left).unwrap().0;
		}
		true
	}
	fn set_free(&self) {
		let mut g = self.m.lock().unwrap();
		g.free = true;
		self.cv.notify_all();
	}
	/// every further decoder call parks for ever (a thread the library leaked or that spins is put to rest)
	fn kill(&self) {
		let mut g = self.m.lock().unwrap();
		g.kill = true;
		self.cv.notify_all();
	}
}

#[derive(Clone, Debug)]
struct Script {
	packets: Vec<usize>,
	gran: usize,
	dec_at: Vec<u64>,
	dec_from: u64,
	seek_at: Vec<u64>,
	seek_from: u64,
	start: usize,
	lp: Option<(usize, usize)>,
	/// busy-wait this long in every decode call (not part of the model: used by the free-running probe only)
	slow_ns: u64,
	/// (not in the model) the sound's region `StreamingSoundData::slice`, in frames of the decoder's audio; it may reach
	/// beyond the audio, be empty or inverted
	slice: Option<(usize, usize)>,
	/// the slice is given through the `.slice(region)` builder instead of the public field
	slice_via_builder: bool,
	/// (not in the model) the decoder answers a call at end-of-stream with an empty packet instead of error 999
	eos_empty: bool,
	/// the scenario, by construction, gives the decoder every call it needs and plays beyond the end of the sound's
	/// region with no loop, seek, pause or stop: the sound must have finished by the end
	must_finish: bool,
}
impl Script {
	fn plain(packets: Vec<usize>) -> Script {
		Script { packets, gran: 1, dec_at: vec![], dec_from: 0, seek_at: vec![], seek_from: 0, start: 0, lp: None, slow_ns: 0, slice: None, slice_via_builder: false, eos_empty: false, must_finish: false }
	}
	fn n(&self) -> usize {
		self.packets.iter().sum()
	}
	/// (first source frame, number of frames) of the sound: the slice fitted to the audio that exists
	fn region(&self) -> (usize, usize) {
		match self.slice {
			Some((a, b)) => (a, b.min(self.n()).saturating_sub(a)),
			None => (0, self.n()),
		}
	}
	fn term(&self) -> String {
		let l = |v: &Vec<u64>| v.iter().map(|x| x.to_string()).collect::<Vec<_>>().join("; ");
		format!(
			"(RCfg [{}] {} [{}] {} [{}] {} {} {} {})",
			self.packets.iter().map(|x| x.to_string()).collect::<Vec<_>>().join("; "),
			self.gran,
			l(&self.dec_at),
			self.dec_from,
			l(&self.seek_at),
			self.seek_from,
			self.start,
			match self.lp {
				Some((a, b)) => format!("(Some ({}, {}))", a, b),
				None => "None".into(),
			},
			CAP
		)
	}
}

fn src_frame(i: usize) -> Frame {
	Frame::new((i as f32 + 1.0) / 65536.0, 0.5)
}

struct ScriptDecoder {
	ctl: Arc<Ctl>,
	sc: Script,
	cursor: usize,
	seeks_made: u64,
}
impl ScriptDecoder {
	fn pstart(&self, k: usize) -> usize {
		self.sc.packets[..k].iter().sum()
	}
	fn fail(&self, e: i128) -> i128 {
		let mut g = self.ctl.m.lock().unwrap();
		if g.first_err.is_none() {
			g.first_err = Some(e);
		}
		if g.errs.len() < 16 {
			g.errs.push(e);
		}
		e
	}
}
impl Decoder for ScriptDecoder {
	type Error = i128;
	fn sample_rate(&self) -> u32 {
		SR
	}
	fn num_frames(&self) -> usize {
		self.sc.n()
	}
	fn decode(&mut self) -> Result<Vec<Frame>, i128> {
		self.ctl.gate(false);
		let call = {
			let mut g = self.ctl.m.lock().unwrap();
			g.ndec += 1;
			g.ndec
		};
		if self.sc.dec_at.contains(&call) || (self.sc.dec_from > 0 && call >= self.sc.dec_from) {
			return Err(self.fail(1000 + call as i128));
		}
		if self.cursor >= self.sc.packets.len() {
			self.ctl.m.lock().unwrap().neos += 1;
			if self.sc.eos_empty {
				return Ok(vec![]);
			}
			return Err(self.fail(999));
		}
		if self.sc.slow_ns > 0 {
			let t0 = Instant::now();
			while (t0.elapsed().as_nanos() as u64) < self.sc.slow_ns {
				std::hint::spin_loop();
			}
		}
		let st = self.pstart(self.cursor);
		let len = self.sc.packets[self.cursor];
		self.cursor += 1;
		Ok((st..st + len).map(src_frame).collect())
	}
	fn seek(&mut self, index: usize) -> Result<usize, i128> {
		let first = self.seeks_made == 0;
		self.seeks_made += 1;
		self.ctl.gate(first);
		let call = {
			let mut g = self.ctl.m.lock().unwrap();
			g.nseek += 1;
			g.nseek
		};
		if self.sc.seek_at.contains(&call) || (self.sc.seek_from > 0 && call >= self.sc.seek_from) {
			return Err(self.fail(2000 + call as i128));
		}
		// packet containing `index` (number of packets beyond the end), rounded down to the granularity
		let mut k = 0;
		let mut i = index;
		while k < self.sc.packets.len() && i >= self.sc.packets[k] {
			i -= self.sc.packets[k];
			k += 1;
		}
		let g = self.sc.gran.max(1);
		let land = k / g * g;
		self.cursor = land;
		Ok(self.pstart(land))
	}
}
impl Drop for ScriptDecoder {
	fn drop(&mut self) {
		let mut g = self.ctl.m.lock().unwrap();
		g.dropped = true;
		g.dropped_on_other_thread = std::thread::current().id() != self.ctl.creator;
		self.ctl.cv.notify_all();
	}
}

// ------------------------------------------------------------------------------------------------
// scenarios
// ------------------------------------------------------------------------------------------------
#[derive(Clone, Debug, PartialEq)]
enum Ev {
	Permit,
	/// a device callback of this many frames (split into internal chunks by the renderer)
	Cb(usize),
	/// pause the parent track (takes effect in the next callback, which then does not process the sound)
	TrackPause,
	TrackResume,
	Stop(u64),
	Pause(u64),
	Resume(u64),
	SeekTo(usize),
	PopError,
	/// (not in the model) `resume_at(clock.time() + ticks, tween)` on the scenario's clock: the sound becomes WaitingToResume
	ResumeAtClock(u64, u64),
	/// (not in the model) start the scenario's clock
	ClockStart,
	DropHandle,
	DropTrack,
	/// the application adds another sub-track: the manager's controller drains its unused-resource queue
	Drain,
	DropManager,
	/// stop pacing: the decoder thread runs freely from now on
	Free,
	ObsH,
	ObsD,
	ObsF,
}
#[derive(Clone, Debug)]
struct Scenario {
	free: bool,
	script: Script,
	ibs: usize,
	/// play on a full track
	reject: bool,
	reject_cap0: bool,
	/// the parent track is already paused when the sound is played
	start_paused: bool,
	/// (not in the model) the sound is given the start time `clock.time() + ticks` on a clock that is created stopped
	/// (one tick per frame once started)
	clock_start: Option<u64>,
	evs: Vec<Ev>,
}
impl Scenario {
	/// does the scenario use something the model has no notion of (a clock)?
	fn beyond_model(&self) -> bool {
		self.script.slice.is_some() || self.script.eos_empty || self.clock_start.is_some() || self.evs.iter().any(|e| matches!(e, Ev::ResumeAtClock(..) | Ev::ClockStart))
	}
}

fn state_code(s: PlaybackState) -> i128 {
	match s {
		PlaybackState::Playing => 0,
		PlaybackState::Pausing => 1,
		PlaybackState::Paused => 2,
		PlaybackState::WaitingToResume => 3,
		PlaybackState::Resuming => 4,
		PlaybackState::Stopping => 5,
		PlaybackState::Stopped => 6,
	}
}
fn tween(frames: u64) -> Tween {
	Tween { duration: Duration::from_nanos(frames * FRAME_NS), ..Default::default() }
}

/// decoded output frame: -1 = exact zero, otherwise the source index; `exact` = unit gain and exact coding
fn decode_out(l: f32, r: f32) -> (i128, bool, bool) {
	if l == 0.0 && r == 0.0 {
		return (-1, true, true);
	}
	if r == 0.0 || !l.is_finite() || !r.is_finite() {
		return (-2, false, false);
	}
	let g = r / 0.5;
	let x = (l / g) as f64 * 65536.0;
	let idx = x.round() as i128 - 1;
	let exact = g == 1.0;
	let wellformed = (x - x.round()).abs() < 1e-2 && idx >= 0 && (!exact || x == x.round());
	(idx, exact, wellformed)
}

/// everything the monitors need to know about one run on the implementation
#[derive(Default)]
struct Trace {
	obs: Vec<i128>,
	/// model events actually issued
	model_evs: Vec<String>,
	/// output frames while the sound was on a live track, in order: (decoded index, callback number)
	outs: Vec<(i128, usize)>,
	malformed_frame: Option<String>,
	/// output of callbacks after the sound was dropped with its track: must be silent
	nonzero_after_drop: bool,
	/// (event number, state code) for every ObsH
	states: Vec<(usize, i128, i128)>,
	/// callback numbers at which a processed callback started, with the error flag known to be raised before
	first_err: Option<i128>,
	errs: Vec<i128>,
	/// number of callbacks (processed) that started after the first error was raised
	err_seen_at_cb: Option<usize>,
	pops: Vec<(usize, i128)>,
	play_err: i128,
	rejected: bool,
	sound_dropped: bool,
	/// the sound's track was dropped and removed by a callback, but the removed track has not been drained
	in_limbo: bool,
	reject_pending: bool,
	gone: bool,
	limbo_pending: bool,
	handle_dropped: bool,
	final_state: Option<i128>,
	ended_in_time: bool,
	expect_end: bool,
	lingering: bool,
	dropped_on_decoder_thread: bool,
	never_spawned: bool,
	/// free-mode classes observed: (event number, class, calls in the window)
	classes: Vec<(usize, i128, u64)>,
	/// the track was paused (sound not processed) at that event
	paused_at: Vec<bool>,
	pacing_timeout: bool,
	assumed_asleep: bool,
	panicked: bool,
	cb_count: usize,
	/// per processed callback: was the error flag raised before it started
	cb_after_err: Vec<bool>,
	cb_outputs: Vec<Vec<i128>>,
	cb_paused: Vec<bool>,
	/// per callback: its event number
	cb_ev: Vec<usize>,
	/// per PopError: (event number, the error had been raised and the thread had come to rest before the call)
	pop_due: Vec<(usize, bool)>,
	/// (event number, what) for the non-model part of a scenario (clock start time, resume_at)
	extra: Vec<String>,
	/// decode calls made after the whole stream had been delivered
	eos_calls: u64,
	/// `num_frames()` of the data object before it was played
	data_num_frames: Option<usize>,
}

/// free mode: wait until the thread is quiescent and classify: 1 ended, 0 asleep/blocked, 2 spinning
fn classify_free(ctl: &Ctl) -> (i128, u64) {
	let t0 = Instant::now();
	let (start_calls, ..) = ctl.snapshot();
	let mut last = start_calls;
	let mut last_change = Instant::now();
	loop {
		std::thread::sleep(Duration::from_millis(3));
		let (calls, _, _, dropped, _, _) = ctl.snapshot();
		if dropped {
			return (1, 0);
		}
		if calls != last {
			last = calls;
			last_change = Instant::now();
		}
		if last_change.elapsed() >= Duration::from_millis(40) {
			return (0, 0);
		}
		if t0.elapsed() >= Duration::from_millis(400) && calls - start_calls > 100_000 {
			// still calling the decoder flat out after 400 ms: measure a 50 ms window
			let (a, ..) = ctl.snapshot();
			std::thread::sleep(Duration::from_millis(50));
			let (b, ..) = ctl.snapshot();
			return (2, b - a);
		}
		if t0.elapsed() >= Duration::from_secs(20) {
			return (0, 0);
		}
	}
}

fn run_scenario(sc: &Scenario) -> Trace {
	let mut tr = Trace::default();
	let ctl = Ctl::new(sc.free);
	let r = catch(|| {
		let mut t = Trace::default();
		let mut mgr = manager(SR, sc.ibs, Capacities::default(), MainTrackBuilder::new());
		let cap = if sc.reject { if sc.reject_cap0 { 0 } else { 1 } } else { 8 };
		let mut track: Option<TrackHandle> = Some(mgr.add_sub_track(TrackBuilder::new().sound_capacity(cap)).unwrap());
		if sc.reject && !sc.reject_cap0 {
			// fill the track with a silent static sound
			let filler = kira::sound::static_sound::StaticSoundData {
				sample_rate: SR,
				frames: Arc::from(vec![Frame::ZERO; 4]),
				settings: StaticSoundSettings::new().loop_region(Region::from(..)),
				slice: None,
			};
			track.as_mut().unwrap().play(filler).unwrap();
		}
		// one warm-up callback: the sub-track is adopted by the main track
		mgr.backend_mut().callback_stereo(1);
		let mut track_paused = false;
		if sc.start_paused {
			track.as_mut().unwrap().pause(tween(0));
			mgr.backend_mut().callback_stereo(2);
			track_paused = true;
		}
		let dec = ScriptDecoder { ctl: ctl.clone(), sc: sc.script.clone(), cursor: 0, seeks_made: 0 };
		let mut data = StreamingSoundData::from_decoder(dec).start_position(PlaybackPosition::Samples(sc.script.start));
		if let Some((a, b)) = sc.script.lp {
			data = data.loop_region(Region { start: PlaybackPosition::Samples(a), end: kira::sound::EndPosition::Custom(PlaybackPosition::Samples(b)) });
		}
		if let Some((a, b)) = sc.script.slice {
			if sc.script.slice_via_builder {
				data = data.slice(Region { start: PlaybackPosition::Samples(a), end: kira::sound::EndPosition::Custom(PlaybackPosition::Samples(b)) });
			} else {
				data.slice = Some((a, b));
			}
			t.data_num_frames = Some(data.num_frames());
			t.extra.push(format!(
				"slice = Some(({a}, {b})) given through {} on {} frames of audio (the sound is source frames [{}, {})); at end-of-stream decode() returns {}",
				if sc.script.slice_via_builder { "the .slice(region) builder" } else { "the public field StreamingSoundData::slice" },
				sc.script.n(),
				sc.script.region().0,
				sc.script.region().0 + sc.script.region().1,
				if sc.script.eos_empty { "an empty packet" } else { "error 999" }
			));
		} else if sc.script.eos_empty {
			t.extra.push("at end-of-stream decode() returns an empty packet".into());
		}
		let mut clock = if sc.clock_start.is_some() || sc.evs.iter().any(|e| matches!(e, Ev::ResumeAtClock(..) | Ev::ClockStart)) { Some(mgr.add_clock(ClockSpeed::TicksPerSecond(SR as f64)).unwrap()) } else { None };
		if let (Some(ticks), Some(c)) = (sc.clock_start, clock.as_ref()) {
			data = data.start_time(c.time() + ticks);
			t.extra.push(format!("start_time = clock.time() + {ticks} (clock stopped, one tick per frame)"));
		}
		let mut handle: Option<StreamingSoundHandle<i128>> = None;
		t.play_err = -1;
		match track.as_mut().unwrap().play(data) {
			Ok(h) => handle = Some(h),
			Err(PlaySoundError::IntoSoundError(e)) => {
				t.play_err = e;
				t.never_spawned = true;
				t.sound_dropped = true;
				t.handle_dropped = true;
			}
			Err(PlaySoundError::SoundLimitReached) => {
				t.rejected = true;
				t.gone = true;
				t.sound_dropped = true;
				t.handle_dropped = true;
				t.reject_pending = true;
			}
			Err(_) => {
				t.play_err = -7;
			}
		}
		if sc.reject && !t.rejected && t.play_err == -1 {
			t.play_err = -8; // a full track accepted the sound
		}
		let settle = |t: &mut Trace| {
			if !t.never_spawned {
				// a thread that loops inside its cached chunk makes no decoder call: it fills the ring and
				// sleeps; the harness can only see that by waiting
				let limit = if t.assumed_asleep { 60 } else { 600 };
				if !ctl.wait_blocked(Duration::from_millis(limit)) {
					t.assumed_asleep = true;
				}
			}
		};
		settle(&mut t);
		if t.reject_pending {
			// the new thread's first is_abandoned test races with the rejection: report what happened
			if sc.free {
				let _ = classify_free(&ctl);
			}
			let (started, _, _, dropped, _, _) = ctl.snapshot();
			if dropped && started <= 1 {
				t.model_evs.push("RRejectEarly".into());
			} else {
				t.model_evs.push("RG GDropSound".into());
				t.model_evs.push("RG GDropHandle".into());
			}
		}
		let mut free = sc.free;
		let mut mgr = Some(mgr);
		for (k, ev) in sc.evs.iter().enumerate() {
			t.paused_at.push(track_paused);
			match ev {
				Ev::Permit => {
					if !ctl.permit() {
						t.pacing_timeout = true;
					}
					t.model_evs.push("RPermit".into());
				}
				Ev::Cb(n) => {
					let Some(m) = mgr.as_mut() else { continue };
					let err_before = ctl.m.lock().unwrap().first_err.is_some();
					let out = m.backend_mut().callback_stereo(*n);
					let mut dec = vec![];
					for f in &out {
						let (idx, _exact, ok) = decode_out(f.left, f.right);
						if !ok && t.malformed_frame.is_none() {
							t.malformed_frame = Some(format!("event {k}: output frame ({:e}, {:e}) is not a source frame times a gain", f.left, f.right));
						}
						dec.push(idx);
					}
					if t.sound_dropped && dec.iter().any(|x| *x != -1) {
						t.nonzero_after_drop = true;
					}
					if track_paused {
						if dec.iter().any(|x| *x != -1) {
							t.malformed_frame = Some(format!("event {k}: audio from a paused track"));
						}
						t.model_evs.push(format!("RCbPaused {}", n));
					} else {
						let mut chunks = vec![];
						let mut left = *n;
						while left > 0 {
							let c = left.min(sc.ibs);
							chunks.push(c.to_string());
							left -= c;
						}
						t.model_evs.push(format!("RCb [{}]", chunks.join("; ")));
					}
					// what the model logs: one value per output frame
					for x in &dec {
						t.obs.push(*x);
						t.outs.push((*x, t.cb_count));
					}
					if t.limbo_pending {
						t.limbo_pending = false;
						t.in_limbo = true;
					}
					t.cb_after_err.push(err_before);
					t.cb_outputs.push(dec);
					t.cb_paused.push(track_paused || t.sound_dropped);
					t.cb_ev.push(k);
					t.cb_count += 1;
				}
				Ev::TrackPause => {
					if let Some(tk) = track.as_mut() {
						tk.pause(tween(0));
						track_paused = true;
					}
				}
				Ev::TrackResume => {
					if let Some(tk) = track.as_mut() {
						tk.resume(tween(0));
						track_paused = false;
					}
				}
				Ev::Stop(f) => {
					// a fade-out that starts from silence (Paused) advances playback at zero gain; the model has no gains
					if let Some(h) = handle.as_mut().filter(|h| *f == 0 || h.state() == PlaybackState::Playing) {
						h.stop(tween(*f));
						t.model_evs.push(format!("RG (GStop {})", f));
					}
				}
				Ev::Pause(f) => {
					if let Some(h) = handle.as_mut().filter(|h| h.state() == PlaybackState::Playing) {
						h.pause(tween(*f));
						t.model_evs.push(format!("RG (GPause {})", f));
					}
				}
				Ev::Resume(f) => {
					if let Some(h) = handle.as_mut() {
						h.resume(tween(*f));
						t.model_evs.push(format!("RG (GResume {})", f));
					}
				}
				Ev::SeekTo(i) => {
					if let Some(h) = handle.as_mut() {
						h.seek_to(*i as f64 / SR as f64);
						t.model_evs.push(format!("RG (GSeekTo {})", i));
					}
				}
				Ev::PopError => {
					if let Some(h) = handle.as_mut() {
						let due = {
							let g = ctl.m.lock().unwrap();
							g.first_err.is_some() && (g.dropped || g.waiting)
						};
						let e = h.pop_error().unwrap_or(-1);
						t.obs.push(e);
						t.pops.push((k, e));
						t.pop_due.push((k, due));
						t.model_evs.push("RG GPopError".into());
					}
				}
				Ev::ResumeAtClock(ticks, f) => {
					if let (Some(h), Some(c)) = (handle.as_mut(), clock.as_ref()) {
						h.resume_at(StartTime::ClockTime(c.time() + *ticks), tween(*f));
						t.extra.push(format!("event {k}: resume_at(clock.time() + {ticks}, {f} frames)"));
					}
				}
				Ev::ClockStart => {
					if let Some(c) = clock.as_mut() {
						c.start();
						t.extra.push(format!("event {k}: clock.start()"));
					}
				}
				Ev::DropHandle => {
					if handle.take().is_some() {
						t.handle_dropped = true;
						t.model_evs.push("RG GDropHandle".into());
					}
				}
				Ev::DropTrack => {
					if track.take().is_some() && !t.sound_dropped {
						// the track is removed (and its sounds with it) by the next callback, before the
						// sound's on_start_processing; the removed Track then waits in the unused-resource queue
						t.sound_dropped = true;
						t.limbo_pending = true;
						t.model_evs.push("RG GDropTrack".into());
					}
				}
				Ev::Drain => {
					if let Some(m) = mgr.as_mut() {
						let extra = m.add_sub_track(TrackBuilder::new());
						drop(extra);
						if t.in_limbo {
							t.in_limbo = false;
							t.model_evs.push("RG GDrain".into());
						}
					}
				}
				Ev::DropManager => {
					if mgr.take().is_some() {
						// the application lets go of the manager and of the track handles it got from it
						track = None;
						t.in_limbo = false;
						t.limbo_pending = false;
						if !t.sound_dropped || !t.gone {
							t.sound_dropped = true;
							t.model_evs.push("RG GDropSound".into());
						}
						t.gone = true;
					}
				}
				Ev::Free => {
					if !free {
						free = true;
						ctl.set_free();
						t.model_evs.push("RFree".into());
					}
				}
				Ev::ObsH => {
					if let (Some(h), Some(tk)) = (handle.as_ref(), track.as_ref()) {
						let st = state_code(h.state());
						let pos = (h.position() * SR as f64).round() as i128;
						let loaded = tk.num_sounds() as i128 - if sc.reject && !sc.reject_cap0 { 1 } else { 0 };
						t.obs.extend_from_slice(&[st, pos, loaded]);
						t.states.push((k, st, loaded));
						t.model_evs.push("RG GObsH".into());
					}
				}
				Ev::ObsD => {
					let (_, ndec, nseek, dropped, _, _) = ctl.snapshot();
					let status = if t.never_spawned { 4 } else if dropped { 1 } else { 0 };
					t.obs.extend_from_slice(&[status, ndec as i128, nseek as i128]);
					t.model_evs.push("RG GObsD".into());
				}
				Ev::ObsF => {
					let (class, window) = if t.never_spawned { (4, 0) } else { classify_free(&ctl) };
					t.obs.push(class);
					t.classes.push((k, class, window));
					t.model_evs.push("RObsF".into());
				}
			}
			// the real thread runs on by itself until it blocks, sleeps, ends or spins
			match ev {
				Ev::ObsH | Ev::ObsD | Ev::ObsF | Ev::Permit => {}
				_ => {
					if free {
						if !t.never_spawned {
							let _ = classify_free(&ctl);
						}
					} else {
						settle(&mut t);
					}
				}
			}
		}
		t.final_state = handle.as_ref().map(|h| state_code(h.state()));
		// the end: let the thread run freely and see whether it ends (bounded time)
		if !t.never_spawned {
			ctl.set_free();
			t.expect_end = t.final_state == Some(6) || t.sound_dropped || ctl.m.lock().unwrap().first_err.is_some() || sc.script.must_finish;
			t.lingering = t.in_limbo || t.limbo_pending;
			if t.expect_end {
				t.ended_in_time = ctl.wait_dropped(Duration::from_millis(if t.lingering { 300 } else { 3000 }));
			} else {
				t.ended_in_time = ctl.snapshot().3;
			}
			let (_, _, _, _, other, _) = ctl.snapshot();
			t.dropped_on_decoder_thread = other;
		}
		{
			let g = ctl.m.lock().unwrap();
			t.first_err = g.first_err;
			t.errs = g.errs.clone();
			t.eos_calls = g.neos;
		}
		ctl.kill();
		drop(handle);
		drop(track);
		drop(clock);
		drop(mgr);
		t
	});
	match r {
		Outcome::Ok(t) => tr = t,
		_ => {
			tr.panicked = true;
			ctl.kill();
		}
	}
	tr
}

fn term(sc: &Scenario, tr: &Trace) -> String {
	format!("CRun {} {} [{}]", if sc.free { "true" } else { "false" }, sc.script.term(), tr.model_evs.join("; "))
}

// ------------------------------------------------------------------------------------------------
// monitors: the clauses of the property, evaluated on what the implementation did
// ------------------------------------------------------------------------------------------------
fn transport_order(sc: &Script, limit: usize) -> Vec<i128> {
	// positions pushed by the scheduler when no seek command is given
	let (off, n) = sc.region();
	let lp = sc.lp.filter(|(a, b)| b > a);
	let mut pos = sc.start;
	let mut v = vec![];
	let mut playing = true;
	while v.len() < limit {
		v.push(if pos < n { (off + pos) as i128 } else { -1 });
		if !playing {
			break;
		}
		pos += 1;
		if let Some((a, b)) = lp {
			while pos >= b {
				pos -= b - a;
			}
		}
		if pos >= n {
			playing = false;
			break;
		}
	}
	v
}

fn monitors(s: &mut Session, desc: &str, sc: &Scenario, tr: &Trace) {
	if tr.panicked {
		s.fail(desc.to_string(), "panic while driving the streaming sound".into(), None);
		return;
	}
	if tr.pacing_timeout {
		s.fail(desc.to_string(), "paced decoder thread neither reached its next decoder call nor ended within 5 s".into(), None);
	}
	if tr.play_err == -8 {
		s.fail(desc.to_string(), "a full track accepted the sound".into(), None);
	}
	if let Some(m) = &tr.malformed_frame {
		s.fail(desc.to_string(), format!("foreign frame: {m}"), None);
	}
	if tr.nonzero_after_drop {
		s.fail(desc.to_string(), "audio after the sound's track was dropped".into(), None);
	}
	let has_seek = sc.evs.iter().any(|e| matches!(e, Ev::SeekTo(_)));
	// --- slow decoder: heard indices strictly increasing along the transport order; gaps only
	if !has_seek {
		let order = transport_order(&sc.script, 200_000);
		let mut p = 0usize;
		let mut last_pos: Option<usize> = None;
		for (idx, cb) in tr.outs.iter().filter(|(i, _)| *i >= 0) {
			let mut q = p;
			while q < order.len() && order[q] != *idx {
				q += 1;
			}
			if q >= order.len() {
				s.fail(desc.to_string(), format!("callback {cb}: heard source frame {idx} out of transport order (repeated, reordered or foreign)"), None);
				break;
			}
			if let Some(lp) = last_pos {
				// paced scenarios never let the decoder push during a callback: at most one frame may be lost at a gap.
				// A fade is not a gap: while Pausing / Stopping / Resuming the sound advances, and the frames it plays
				// at a gain of exactly zero (the last frame of a fade-out reaches -60 dB = silence) are heard as
				// silence although they were played: one more frame of slack per command that carries a fade
				let fades = sc.evs.iter().filter(|e| matches!(e, Ev::Pause(f) | Ev::Resume(f) | Ev::Stop(f) | Ev::ResumeAtClock(_, f) if *f > 0)).count();
				if !sc.free && q - lp > 2 + fades {
					s.fail(desc.to_string(), format!("callback {cb}: playback resumed {} frames after where it stopped", q - lp - 1), None);
				}
			}
			last_pos = Some(q);
			p = q + 1;
		}
	}
	// --- Stopped is silent and final; errors
	let mut stopped_at: Option<usize> = None;
	for (k, st, _) in &tr.states {
		if let Some(k0) = stopped_at {
			if *st != 6 {
				s.fail(desc.to_string(), format!("event {k}: state {st} after Stopped at event {k0}"), None);
			}
		} else if *st == 6 {
			stopped_at = Some(*k);
		}
	}
	// the same clause at every observation, whatever the sound was doing when the decoder failed (playing, fading,
	// Paused, WaitingToResume, waiting for its start time): once a callback has processed the sound with the error
	// raised, every later observation finds it Stopped; one callback later it has left its track
	if let Some(c0) = (0..tr.cb_count).find(|&c| tr.cb_after_err[c] && !tr.cb_paused[c]) {
		let e0 = tr.cb_ev[c0];
		for (k, st, loaded) in &tr.states {
			if *k <= e0 {
				continue;
			}
			if *st != 6 {
				s.fail(
					desc.to_string(),
					format!(
						"event {k}: the decoder had reported error {:?} before the callback of event {e0}, which processed the sound, but the handle still reports state {st} (0 Playing, 1 Pausing, 2 Paused, 3 WaitingToResume, 4 Resuming, 5 Stopping), not Stopped",
						tr.first_err
					),
					None,
				);
				break;
			}
			if *loaded != 0 && tr.cb_ev.iter().any(|e| *e > e0 && e < k) {
				s.fail(
					desc.to_string(),
					format!("event {k}: the sound failed with decoder error {:?} (processed by the callback of event {e0}) and another callback has run, but it still occupies a slot of its track", tr.first_err),
					None,
				);
				break;
			}
		}
	}
	// error path: the first processed (non-paused-track) callback that starts after the error was raised
	// must leave the sound Stopped and be silent, as must all later ones
	let mut seen = false;
	for (c, after) in tr.cb_after_err.iter().enumerate() {
		if *after && !tr.cb_paused[c] {
			seen = true;
		}
		if seen && tr.cb_outputs[c].iter().any(|x| *x != -1) {
			s.fail(desc.to_string(), format!("callback {c}: audio after a decoder error had been reported (first error {:?})", tr.first_err), None);
			break;
		}
	}
	if seen && !tr.handle_dropped {
		if tr.final_state != Some(6) {
			s.fail(desc.to_string(), format!("decoder error {:?} raised and a callback processed the sound, but the final state is {:?}", tr.first_err, tr.final_state), None);
		}
	}
	// the error can be popped from the handle as soon as the decoder has reported it (whether or not the audio
	// thread has noticed it yet)
	{
		let mut got = false;
		for ((k, e), (_, due)) in tr.pops.iter().zip(tr.pop_due.iter()) {
			if *e != -1 {
				got = true;
			} else if *due && !got {
				s.fail(desc.to_string(), format!("event {k}: the decoder had reported error {:?} but pop_error returned nothing", tr.first_err), None);
				break;
			}
		}
	}
	// the first successful pop_error returns the first error
	if let Some((k, e)) = tr.pops.iter().find(|(_, e)| *e != -1) {
		if Some(*e) != tr.first_err {
			s.fail(desc.to_string(), format!("event {k}: pop_error returned {e} but the first decoder error was {:?}", tr.first_err), None);
		}
	}
	if tr.never_spawned && tr.first_err != Some(tr.play_err) {
		s.fail(desc.to_string(), format!("play returned error {} but the decoder's first error was {:?}", tr.play_err, tr.first_err), None);
	}
	// --- thread ends
	if !tr.never_spawned {
		if tr.ended_in_time && !tr.dropped_on_decoder_thread {
			s.fail(desc.to_string(), "the decoder was dropped, but not by the decoder thread".into(), None);
		}
		if tr.expect_end && !tr.ended_in_time {
			if tr.lingering {
				s.fail(
					desc.to_string(),
					"the sound's track handle was dropped and a callback removed the track, but the decoder thread did not end (decoder not dropped after 300 ms): the removed track waits in the unused-resource queue until the next add_sub_track or the manager's drop".into(),
					Some("decoder_thread_lingers_in_unused_track_queue"),
				);
			} else {
				s.fail(
					desc.to_string(),
					format!(
						"the sound {} but its decoder thread did not end (decoder not dropped within 3 s)",
						if tr.rejected {
							"was rejected by a full track"
						} else if sc.script.must_finish && tr.final_state != Some(6) && !tr.sound_dropped {
							"was played beyond the end of its region"
						} else if tr.sound_dropped {
							"was dropped with its track/manager"
						} else if tr.final_state == Some(6) {
							"is Stopped"
						} else {
							"had a decoder error"
						}
					),
					None,
				);
			}
		}
	}
	// --- no busy spin
	for (k, class, window) in &tr.classes {
		if *class == 2 {
			let paused = tr.paused_at.get(*k).copied().unwrap_or(false);
			s.fail(
				desc.to_string(),
				format!(
					"event {k}: decoder thread busy-spins {} ({window} decoder calls in 50 ms, first error {:?}, {} decode calls beyond the end of the stream, parent track {})",
					if tr.first_err.is_some() { "after a decoder error" } else { "although it has nothing to do" },
					tr.first_err,
					tr.eos_calls,
					if paused { "paused" } else if tr.first_err.is_some() { "not yet processed" } else { "live" }
				),
				None,
			);
		}
	}
	// --- a sound whose region (slice) is shorter than, reaches beyond, or lies outside the audio
	let has_cmd = sc.evs.iter().any(|e| matches!(e, Ev::SeekTo(_) | Ev::Pause(_) | Ev::Stop(_) | Ev::TrackPause | Ev::ResumeAtClock(..)));
	let (off, len) = sc.script.region();
	if let Some(nf) = tr.data_num_frames {
		if nf != len {
			s.fail(desc.to_string(), format!("StreamingSoundData::num_frames() = {nf}, but the slice covers {len} frames of the audio"), None);
		}
	}
	if sc.script.must_finish && !has_cmd && sc.script.lp.is_none() && !tr.never_spawned && !tr.rejected {
		// "once the sound has finished": all the audio of the region was played (the callbacks went beyond its end and the
		// decoder was given every call it needed), so the sound is Stopped and unloaded, without an error
		if !tr.handle_dropped && !tr.sound_dropped {
			if tr.final_state != Some(6) {
				s.fail(
					desc.to_string(),
					format!(
						"the callbacks played {} frames, beyond the end of the sound (source frames [{off}, {}), start position {}), and the decoder was allowed every call, but the sound never finished: final state {:?} (0 = Playing), {} decode calls beyond the end of the stream",
						tr.outs.len(),
						off + len,
						sc.script.start,
						tr.final_state,
						tr.eos_calls
					),
					None,
				);
			} else if let Some((k, _, loaded)) = tr.states.last() {
				if *loaded != 0 {
					s.fail(desc.to_string(), format!("event {k}: the sound finished but still occupies a slot of its track"), None);
				}
			}
		}
		// nothing outside the region is ever heard
		if len > 0 {
			let last = tr.outs.iter().filter(|(i, _)| *i >= 0).map(|(i, _)| *i).max();
			if last.map_or(false, |l| l >= (off + len) as i128) {
				s.fail(desc.to_string(), format!("heard source frame {:?}, which lies outside the sound's region [{off}, {})", last, off + len), None);
			}
		}
	}
	// the thread has nothing to do once the decoder has delivered the whole stream: asking it again and again for audio
	// that does not exist is a busy spin (paced scenarios: every permit is answered by another such call)
	if !sc.evs.iter().any(|e| matches!(e, Ev::SeekTo(_))) && tr.eos_calls > 1 {
		s.fail(
			desc.to_string(),
			format!(
				"the decoder thread kept asking the decoder for audio beyond the end of the stream ({} decode calls after all {} frames had been delivered; the sound's region ends at source frame {})",
				tr.eos_calls,
				sc.script.n(),
				off + len
			),
			None,
		);
	}
}

// ------------------------------------------------------------------------------------------------
// generators
// ------------------------------------------------------------------------------------------------
/// a loop over [a, b) makes the scheduler call the decoder again on every wrap iff the region spans two packets
/// (otherwise it is served from the cached chunk for ever: no decoder calls, the ring fills, the thread sleeps)
fn loop_needs_calls(packets: &[usize], a: usize, b: usize) -> bool {
	if b <= a + 1 {
		return false;
	}
	let pk = |i: usize| {
		let mut k = 0;
		let mut i = i;
		while k < packets.len() && i >= packets[k] {
			i -= packets[k];
			k += 1;
		}
		k
	};
	pk(a) != pk(b - 1)
}

fn gen_packets(r: &mut Rng, max_packets: usize) -> Vec<usize> {
	let k = r.range(1, max_packets as i64) as usize;
	(0..k).map(|_| if r.chance(1, 12) { 0 } else { r.range(1, 5) as usize }).collect()
}

/// the standard adaptive drive: rounds of (permits, callback, observation)
fn drive(pace: &[usize], cb: usize, rounds: usize) -> Vec<Ev> {
	let mut evs = vec![];
	for k in 0..rounds {
		for _ in 0..pace[k % pace.len()] {
			evs.push(Ev::Permit);
		}
		evs.push(Ev::Cb(cb));
		evs.push(Ev::ObsH);
	}
	evs
}

fn submit(s: &mut Session, kind: &str, sc: &Scenario) -> Trace {
	let tr = run_scenario(sc);
	let t = term(sc, &tr);
	if sc.beyond_model() {
		// a clock is involved (start time / resume_at): the model has no clocks; the property clauses are evaluated
		// on the implementation only.  The description lists the model events plus the clock operations.
		let desc = format!("{kind}: {t} with {}; events {:?}", tr.extra.join(", "), sc.evs);
		monitors(s, &desc, sc, &tr);
		s.eval_only(kind);
		return tr;
	}
	let desc = format!("{kind}: {t}");
	monitors(s, &desc, sc, &tr);
	if tr.panicked {
		s.eval_only(kind);
		return tr;
	}
	let mut obs = vec![tr.play_err];
	obs.extend_from_slice(&tr.obs);
	let key = format!(
		"{}|{:?}|{}|{:?}|{}",
		kind,
		sc.script.packets.len(),
		tr.errs.len().min(3),
		tr.final_state,
		tr.outs.iter().filter(|(i, _)| *i >= 0).count().min(20)
	);
	let nontrivial = tr.first_err.is_some() || tr.sound_dropped || tr.final_state == Some(6) || tr.outs.iter().any(|(i, _)| *i == -1);
	s.case(kind, t, &obs, if nontrivial { Some(key) } else { None });
	tr
}

pub fn run(args: &Args) {
	let mut s = Session::new(
		"C10",
		&args.out,
		"From Coq Require Import ZArith List Bool.\nFrom KV Require Import Base.Corr C10.Model C10.Run.\nImport ListNotations.\nLocal Open Scope Z_scope.",
		"run",
		60,
		"distinct (scenario kind, #packets, #errors, final state, #frames heard) among scenarios with an error, a drop/reject, a natural or commanded stop, or a gap",
	);
	let mut r = Rng::new(args.seed);
	let mul = args.budget_mul as usize * if args.thorough { 8 } else { 1 };

	// ---- 0. fixed corpus (no random draws): the decoder fails while the sound is NOT advancing ---------
	not_advancing_corpus(&mut s);
	// ---- 0b. fixed corpus: sounds whose region (slice) reaches beyond / lies outside the audio ----------
	slice_corpus(&mut s);
	// ---- 0c. fixed corpus: files that end before the length their header announces (symphonia decoder) ----
	truncated_file_corpus(&mut s);

	// ---- 1. faults at the k-th decode / seek call, exhaustively for short streams -------------------
	for npk in 1..=(if args.thorough { 12 } else { 6 }) {
		for variant in 0..(2 * mul) {
			let packets: Vec<usize> = if variant == 0 { vec![2; npk] } else { gen_packets(&mut r, npk).into_iter().chain(std::iter::repeat(1)).take(npk).collect() };
			let total = packets.iter().sum::<usize>();
			let lp = if variant % 2 == 1 && loop_needs_calls(&packets, 0, total) { Some((0usize, total)) } else { None };
			let max_call = npk as u64 + 2;
			for k in 1..=max_call {
				for persistent in [false, true] {
					let mut script = Script::plain(packets.clone());
					script.lp = lp;
					script.gran = 1 + (variant % 3);
					if persistent {
						script.dec_from = k;
					} else {
						script.dec_at = vec![k];
					}
					let mut evs = drive(&[1, 2, 0, 3], 3, npk + 6);
					evs.push(Ev::PopError);
					evs.push(Ev::PopError);
					evs.push(Ev::Cb(2));
					evs.push(Ev::ObsH);
					evs.push(Ev::ObsD);
					let sc = Scenario { free: false, script, ibs: 4, reject: false, reject_cap0: false, start_paused: false, clock_start: None, evs };
					submit(&mut s, "fault_decode_k", &sc);
				}
			}
			// seek faults: seek #1 is made by play itself; later seeks come from loop wraps and seek commands
			for k in 1..=4u64 {
				let mut script = Script::plain(packets.clone());
				script.lp = if loop_needs_calls(&packets, 0, total) { Some((0, total)) } else { None };
				script.gran = 1 + (variant % 2);
				script.seek_at = vec![k];
				let mut evs = drive(&[2, 1, 3], 4, npk + 4);
				evs.insert(5.min(evs.len()), Ev::SeekTo(r.below(packets.iter().sum::<usize>() as u64 + 1) as usize));
				evs.push(Ev::PopError);
				evs.push(Ev::Cb(2));
				evs.push(Ev::ObsH);
				evs.push(Ev::ObsD);
				let sc = Scenario { free: false, script, ibs: 8, reject: false, reject_cap0: false, start_paused: false, clock_start: None, evs };
				submit(&mut s, "fault_seek_k", &sc);
			}
		}
	}

	// ---- 2. stop / drop / reject at every point relative to the decoder's progress (paced) -----------
	let mut lingering_budget = 3usize;
	for base in 0..(2 * mul) {
		let packets = if base == 0 { vec![2, 3, 1, 2] } else { gen_packets(&mut r, 5) };
		let total: usize = packets.iter().sum();
		let mut script = Script::plain(packets.clone());
		if base % 2 == 1 && loop_needs_calls(&packets, 0, total) {
			script.lp = Some((0, total));
		}
		script.gran = 1 + base % 2;
		let pace: Vec<usize> = match base % 3 {
			0 => vec![2, 1],
			1 => vec![1, 0, 3],
			_ => vec![1],
		};
		let base_evs = drive(&pace, 3, packets.len() + 3);
		for pos in 0..=base_evs.len() {
			for kind in 0..7 {
				let mut evs = base_evs.clone();
				let mut tail = vec![Ev::Permit, Ev::Cb(3), Ev::ObsD, Ev::Permit, Ev::Permit, Ev::Cb(3), Ev::ObsD];
				let ins: Vec<Ev> = match kind {
					0 => vec![Ev::Stop(0)],
					1 => vec![Ev::Stop(4)],
					2 => vec![Ev::DropHandle],
					3 => vec![Ev::DropManager],
					4 => {
						tail.push(Ev::Drain);
						tail.push(Ev::ObsD);
						vec![Ev::DropTrack]
					}
					5 => {
						if lingering_budget == 0 || pos % 5 != 2 {
							continue;
						}
						lingering_budget -= 1;
						vec![Ev::DropTrack] // never drained: F31
					}
					_ => {
						tail.push(Ev::DropManager);
						vec![Ev::DropTrack, Ev::DropHandle]
					}
				};
				for (j, e) in ins.into_iter().enumerate() {
					evs.insert(pos + j, e);
				}
				evs.extend(tail);
				let sc = Scenario { free: false, script: script.clone(), ibs: 2 + base % 3, reject: false, reject_cap0: false, start_paused: false, clock_start: None, evs };
				submit(&mut s, ["stop_at", "stop_fade_at", "drop_handle_at", "drop_manager_at", "drop_track_drain_at", "drop_track_at", "drop_track_then_manager_at"][kind], &sc);
			}
		}
		// rejected by a full track, then the decoder is allowed to go on
		for cap0 in [false, true] {
			let evs = vec![Ev::ObsD, Ev::Permit, Ev::ObsD, Ev::Permit, Ev::Cb(3), Ev::ObsD];
			submit(&mut s, "rejected_paced", &Scenario { free: false, script: script.clone(), ibs: 4, reject: true, reject_cap0: cap0, start_paused: false, clock_start: None, evs });
		}
	}

	// ---- 3. paces: ahead, starving, stalled; random interleavings with commands ----------------------
	for k in 0..(60 * mul) {
		let packets = gen_packets(&mut r, 8);
		let total: usize = packets.iter().sum();
		let mut script = Script::plain(packets.clone());
		if r.chance(1, 4) && loop_needs_calls(&packets, 0, total) {
			let a = r.below(total as u64 / 2) as usize;
			if loop_needs_calls(&packets, a, total) {
				script.lp = Some((a, total));
			}
		}
		script.gran = r.range(1, 3) as usize;
		script.start = if r.chance(1, 4) { r.below(total as u64 + 1) as usize } else { 0 };
		if r.chance(1, 5) {
			script.dec_at = vec![r.range(1, 6) as u64];
		}
		if r.chance(1, 10) {
			script.seek_at = vec![r.range(1, 3) as u64];
		}
		let ibs = *r.pick(&[1usize, 2, 3, 4, 8, 64]);
		let mut evs = vec![];
		let style = k % 4; // 0 ahead, 1 starving, 2 stalled then released, 3 random
		let rounds = r.range(4, 12) as usize;
		for round in 0..rounds {
			let permits = match style {
				0 => 6,
				1 => 1,
				2 => {
					if round < rounds / 2 {
						0
					} else {
						5
					}
				}
				_ => r.below(4) as usize,
			};
			for _ in 0..permits {
				evs.push(Ev::Permit);
			}
			if style == 3 || r.chance(1, 5) {
				match r.below(12) {
					0 => evs.push(Ev::Stop(r.below(6))),
					1 => evs.push(Ev::Pause(r.below(4))),
					2 => evs.push(Ev::Resume(r.below(4))),
					3 | 4 => evs.push(Ev::SeekTo(r.below(total as u64 + 2) as usize)),
					5 => evs.push(Ev::PopError),
					6 => evs.push(Ev::TrackPause),
					7 => evs.push(Ev::TrackResume),
					8 => {
						if r.chance(1, 3) {
							evs.push(Ev::DropHandle)
						}
					}
					_ => {}
				}
			}
			evs.push(Ev::Cb(r.range(1, 6) as usize));
			evs.push(Ev::ObsH);
			if r.chance(1, 3) {
				evs.push(Ev::ObsD);
			}
		}
		if style == 2 && r.chance(1, 2) {
			evs.push(Ev::Free);
			evs.push(Ev::Cb(total + 6));
			evs.push(Ev::ObsH);
			evs.push(Ev::ObsF);
		}
		evs.push(Ev::PopError);
		evs.push(Ev::ObsD);
		let sc = Scenario { free: false, script, ibs, reject: false, reject_cap0: false, start_paused: false, clock_start: None, evs };
		submit(&mut s, ["pace_ahead", "pace_starving", "pace_stalled", "pace_random"][style], &sc);
	}

	// ---- 3b. the decoder fails (k-th decode call, or a seek) while the sound is Paused / Pausing / WaitingToResume /
	//          waiting for its start time; afterwards the sound may be resumed / the clock started ------
	for k in 0..(24 * mul) {
		let packets: Vec<usize> = (0..r.range(1, 5)).map(|_| r.range(1, 4) as usize).collect();
		let total: usize = packets.iter().sum();
		let npk = packets.len();
		let mut script = Script::plain(packets.clone());
		script.gran = r.range(1, 2) as usize;
		let mode = k % 4; // 0, 1 Paused (model), 2 WaitingToResume, 3 start time on a stopped clock
		let by_seek = mode != 3 && r.chance(1, 4);
		let j = r.range(1, npk as i64 + 1) as u64; // failing decode call
		if by_seek {
			script.seek_at = vec![2];
		} else if r.chance(1, 2) {
			script.dec_at = vec![j];
		} else {
			script.dec_from = j;
		}
		let ibs = *r.pick(&[1usize, 2, 4, 8]);
		let before = if by_seek { r.below(npk as u64 + 1) } else { r.below(j) }; // decoder calls allowed before the pause
		let fade = r.below(4);
		let mut evs = vec![];
		for _ in 0..before {
			evs.push(Ev::Permit);
		}
		if mode == 3 {
			evs.push(Ev::Cb(r.range(1, 4) as usize));
			evs.push(Ev::ObsH);
		} else {
			if r.chance(2, 3) {
				evs.push(Ev::Cb(r.range(1, 3) as usize));
				evs.push(Ev::ObsH);
			}
			evs.push(Ev::Pause(fade));
			// usually long enough for the fade-out to complete (else the error finds the sound Pausing)
			evs.push(Ev::Cb(if r.chance(1, 5) { 1 } else { fade as usize + 1 + r.below(2) as usize }));
			evs.push(Ev::ObsH);
			if mode == 2 {
				evs.push(Ev::ResumeAtClock(r.range(1, 6) as u64, r.below(3)));
				evs.push(Ev::Cb(r.range(1, 3) as usize));
				evs.push(Ev::ObsH);
			}
		}
		if by_seek {
			evs.push(Ev::SeekTo(r.below(total as u64 + 1) as usize));
		}
		// the decoder goes on until it fails
		for _ in 0..(npk + 3) {
			evs.push(Ev::Permit);
		}
		evs.push(Ev::ObsD);
		if r.chance(1, 3) {
			evs.push(Ev::PopError);
		}
		evs.push(Ev::Cb(r.range(1, 4) as usize));
		evs.push(Ev::ObsH);
		match r.below(4) {
			0 => evs.push(Ev::Resume(r.below(3))),
			1 if mode >= 2 => evs.push(Ev::ClockStart),
			_ => {}
		}
		evs.push(Ev::Cb(r.range(1, 8) as usize));
		evs.push(Ev::ObsH);
		evs.push(Ev::PopError);
		evs.push(Ev::Cb(2));
		evs.push(Ev::ObsH);
		evs.push(Ev::ObsD);
		let sc = Scenario { free: false, script, ibs, reject: false, reject_cap0: false, start_paused: false, clock_start: if mode == 3 { Some(r.range(1, 6) as u64) } else { None }, evs };
		submit(&mut s, ["error_while_paused", "error_while_paused", "error_while_waiting_to_resume", "error_before_start_time"][mode], &sc);
	}

	// ---- 3c. random regions (slices) over random packetisations ----------------------------------------
	slice_scenarios(&mut s, &mut r, mul);
	for _ in 0..(3 * mul) {
		let promised = r.range(1, 5000) as usize;
		let present = if r.chance(1, 5) { promised } else { r.below(promised as u64) as usize };
		truncated_file(&mut s, promised, present, *r.pick(&[16usize, 64, 128]));
	}

	// ---- 4. free-running: thread end, abandoned sounds, errors ----------------------------------------
	free_scenarios(&mut s, &mut r, mul);

	s.notes.push(format!("sample rate {SR}, ring capacity {CAP}"));
	s.finish();
}

/// Fixed corpus, run first on every run whatever the seed: the decoder reports its error while the sound is not
/// advancing.  `process` must still turn the error into Stopped in the next callback that processes the sound, the
/// track must unload it one callback later, and the error must be poppable.
///  * Paused (pause fade 0 / 2 frames; one-off and persistent faults; first packet, mid-stream, failing seek): the
///    model has these states, so they are model cases too (`error_reaches_handle` holds for every playback state);
///  * Pausing (fade-out not finished) - model case;
///  * WaitingToResume (`resume_at` on a clock that is not ticking) and a start time on a clock that is never
///    started, or started afterwards: monitor only (the model has no clocks).
fn not_advancing_corpus(s: &mut Session) {
	let mk = |script: Script, ibs: usize, clock_start: Option<u64>, evs: Vec<Ev>| Scenario { free: false, script, ibs, reject: false, reject_cap0: false, start_paused: false, clock_start, evs };
	let tail = |evs: &mut Vec<Ev>, resume: Option<Ev>| {
		evs.extend([Ev::ObsD, Ev::Cb(2), Ev::ObsH, Ev::ObsD]);
		if let Some(e) = resume {
			evs.push(e);
		}
		evs.extend([Ev::Cb(1), Ev::ObsH, Ev::PopError, Ev::PopError, Ev::Cb(3), Ev::ObsH, Ev::ObsD]);
	};
	for ibs in [1usize, 4] {
		for fade in [0u64, 2] {
			for persistent in [false, true] {
				// mid-stream: one packet is played, the sound is paused, the 2nd decode call fails
				let mut script = Script::plain(vec![2, 2, 2]);
				if persistent {
					script.dec_from = 2;
				} else {
					script.dec_at = vec![2];
				}
				let mut evs = vec![Ev::Permit, Ev::Cb(1), Ev::ObsH, Ev::Pause(fade), Ev::Cb(fade as usize + 1), Ev::ObsH, Ev::ObsD, Ev::Permit];
				tail(&mut evs, None);
				submit(s, "error_while_paused", &mk(script.clone(), ibs, None, evs));
				// the same, and the application resumes the sound after the failure was processed
				let mut evs = vec![Ev::Permit, Ev::Cb(1), Ev::ObsH, Ev::Pause(fade), Ev::Cb(fade as usize + 1), Ev::ObsH, Ev::Permit];
				tail(&mut evs, Some(Ev::Resume(fade)));
				submit(s, "error_while_paused", &mk(script.clone(), ibs, None, evs));
				// first packet: paused before anything was decoded
				let mut script1 = Script::plain(vec![3, 1]);
				if persistent {
					script1.dec_from = 1;
				} else {
					script1.dec_at = vec![1];
				}
				let mut evs = vec![Ev::Pause(fade), Ev::Cb(fade as usize + 1), Ev::ObsH, Ev::Permit];
				tail(&mut evs, None);
				submit(s, "error_while_paused", &mk(script1.clone(), ibs, None, evs));
				// WaitingToResume on a clock that does not tick
				let mut evs = vec![Ev::Permit, Ev::Cb(1), Ev::Pause(fade), Ev::Cb(fade as usize + 1), Ev::ObsH, Ev::ResumeAtClock(3, fade), Ev::Cb(2), Ev::ObsH, Ev::Permit];
				tail(&mut evs, if persistent { Some(Ev::ClockStart) } else { None });
				submit(s, "error_while_waiting_to_resume", &mk(script.clone(), ibs, None, evs));
				// start time on a clock that is never started / started after the failure: first packet and 2nd packet
				for sc1 in [script1.clone(), script.clone()] {
					let mut evs = vec![Ev::Cb(2), Ev::ObsH, Ev::Permit, Ev::Permit];
					tail(&mut evs, if fade == 2 { Some(Ev::ClockStart) } else { None });
					submit(s, "error_before_start_time", &mk(sc1, ibs, Some(2 + fade), evs));
				}
			}
			// a seek that fails while the sound is paused (seek #1 is made by play, #2 by the seek command)
			let mut script = Script::plain(vec![2, 2, 2]);
			script.seek_at = vec![2];
			let mut evs = vec![Ev::Permit, Ev::Cb(1), Ev::ObsH, Ev::Pause(fade), Ev::Cb(fade as usize + 1), Ev::ObsH, Ev::SeekTo(4), Ev::Permit, Ev::Permit, Ev::Permit];
			tail(&mut evs, None);
			submit(s, "error_while_paused", &mk(script, ibs, None, evs));
		}
		// Pausing: the fade-out (6 frames) is still running when the failure is processed
		let mut script = Script::plain(vec![4, 4, 4]);
		script.dec_at = vec![3];
		let mut evs = vec![Ev::Permit, Ev::Permit, Ev::Cb(1), Ev::Pause(6), Ev::Cb(2), Ev::ObsH, Ev::Permit];
		tail(&mut evs, None);
		submit(s, "error_while_paused", &mk(script, ibs, None, evs));
	}
}

/// one scenario over a sliced sound.  `mode`: 0 paced, played to the end; 1 free-running, played to the end;
/// 2 paced, stopped after the decoder has run to the end of the audio; 3 paced, manager dropped at that point;
/// 4 free-running, stopped after the end of the audio was reached by the decoder but not by playback
fn slice_scenario(s: &mut Session, packets: Vec<usize>, slice: (usize, usize), via_builder: bool, eos_empty: bool, start: usize, ibs: usize, cb: usize, mode: usize) {
	let mut script = Script::plain(packets.clone());
	script.slice = Some(slice);
	script.slice_via_builder = via_builder;
	script.eos_empty = eos_empty;
	script.start = start;
	let (_, len) = script.region();
	let npk = packets.len();
	let cb = cb.max(1);
	let mut evs = vec![];
	let kind;
	match mode {
		0 => {
			kind = "slice_paced_to_end";
			script.must_finish = true;
			let rounds = (len.saturating_sub(start) + 6) / cb + 2;
			let per = (npk + 4) / rounds + 1;
			for _ in 0..rounds {
				for _ in 0..per {
					evs.push(Ev::Permit);
				}
				evs.push(Ev::Cb(cb));
				evs.push(Ev::ObsH);
			}
			evs.extend([Ev::Permit, Ev::Permit, Ev::Cb(cb), Ev::ObsH, Ev::ObsD, Ev::PopError, Ev::Cb(2), Ev::ObsH]);
		}
		1 => {
			kind = "slice_free_to_end";
			script.must_finish = true;
			evs.extend([Ev::Cb(len.saturating_sub(start) / 2 + 1), Ev::ObsH, Ev::Cb(len + 4), Ev::ObsH, Ev::ObsF, Ev::Cb(2), Ev::ObsH, Ev::ObsD, Ev::PopError]);
		}
		2 | 3 => {
			kind = if mode == 2 { "slice_stop_after_decoder_reached_end" } else { "slice_drop_manager_after_decoder_reached_end" };
			evs.extend([Ev::Permit, Ev::Cb(1), Ev::ObsH]);
			for _ in 0..(npk + 4) {
				evs.push(Ev::Permit);
			}
			evs.push(Ev::ObsD);
			evs.push(if mode == 2 { Ev::Stop(0) } else { Ev::DropManager });
			evs.extend([Ev::Cb(2), Ev::ObsH, Ev::Permit, Ev::Permit, Ev::Cb(2), Ev::ObsH, Ev::ObsD]);
		}
		_ => {
			kind = "slice_free_stop_after_decoder_reached_end";
			evs.extend([Ev::Cb(1), Ev::ObsH, Ev::ObsF, Ev::Stop(0), Ev::Cb(2), Ev::ObsH, Ev::ObsF, Ev::ObsD]);
		}
	}
	let free = mode == 1 || mode == 4;
	submit(s, kind, &Scenario { free, script, ibs, reject: false, reject_cap0: false, start_paused: false, clock_start: None, evs });
}

/// Fixed corpus, run first on every run whatever the seed: a streaming sound whose `slice` (set through the public
/// field, as an application that copies a region computed for another file, or an "open ended" `(start, usize::MAX)`,
/// would) reaches beyond the audio, ends exactly at it, lies inside it, is empty, inverted or wholly outside.  The
/// sound is the part of the region that exists: it plays those frames in order, finishes (Stopped, unloaded, no
/// error), its thread ends and releases the decoder, and the thread never asks the decoder again and again for audio
/// beyond the end of the stream - whether the decoder answers end-of-stream with an empty packet or with an error.
/// Monitor only (the model has no slices).
fn slice_corpus(s: &mut Session) {
	let packets = vec![4usize, 4, 2]; // 10 frames
	for eos_empty in [true, false] {
		for (slice, start) in [
			((2usize, 50usize), 0usize),
			((0, usize::MAX), 0),
			((3, 11), 0),
			((2, 50), 3),
			((0, 10), 0),
			((2, 8), 0),
			((2, 8), 7),
			((9, 12), 0),
			((10, 50), 0),
			((12, 50), 0),
			((7, 3), 0),
			((5, 5), 0),
		] {
			for mode in 0..5 {
				if mode >= 2 && !(slice.1 > 10 && slice.0 < 10) {
					continue;
				}
				slice_scenario(s, packets.clone(), slice, false, eos_empty, start, if mode == 0 { 4 } else { 16 }, 3, mode);
			}
		}
		// the same region given through the builder
		slice_scenario(s, packets.clone(), (2, 50), true, eos_empty, 0, 4, 3, 0);
		slice_scenario(s, packets.clone(), (2, 50), true, eos_empty, 0, 16, 3, 1);
	}
	// one-frame packets, an empty packet in mid-stream, one big packet
	for pk in [vec![1usize; 6], vec![3, 0, 3], vec![6]] {
		slice_scenario(s, pk.clone(), (1, 7), false, true, 0, 2, 2, 0);
		slice_scenario(s, pk, (1, usize::MAX), false, true, 0, 2, 2, 2);
	}
}

/// seeded: random packetisations, random regions around the end of the audio, random start positions
fn slice_scenarios(s: &mut Session, r: &mut Rng, mul: usize) {
	for k in 0..(16 * mul) {
		let packets = gen_packets(r, 6);
		let n: usize = packets.iter().sum();
		let a = r.below(n as u64 + 2) as usize;
		let b = match r.below(6) {
			0 => usize::MAX,
			1 => n + 1,
			2 => n,
			3 => r.below(n as u64 + 1) as usize,
			_ => n + r.range(1, 40) as usize,
		};
		let start = if r.chance(1, 3) { r.below(n as u64 + 2) as usize } else { 0 };
		let eos_empty = !r.chance(1, 4);
		let via_builder = r.chance(1, 6);
		let ibs = *r.pick(&[1usize, 2, 4, 16]);
		let cb = r.range(1, 5) as usize;
		let mode = if b > n && a < n { [0usize, 0, 2, 1, 3, 0, 4, 0][k % 8] } else { k % 2 };
		slice_scenario(s, packets, (a, b), via_builder, eos_empty, start, ibs, cb, mode);
	}
}

/// the bytes of a file; counts how often the decoder looks at them (`Cursor<T>` calls `as_ref` for every read), records
/// their release, and parks a thread that still reads after the scenario is over (a leaked, spinning decoder thread)
struct FileBytes {
	bytes: Vec<u8>,
	st: Arc<FileState>,
}
#[derive(Default)]
struct FileState {
	reads: std::sync::atomic::AtomicU64,
	released: std::sync::atomic::AtomicBool,
	kill: std::sync::atomic::AtomicBool,
}
impl AsRef<[u8]> for FileBytes {
	fn as_ref(&self) -> &[u8] {
		use std::sync::atomic::Ordering::SeqCst;
		self.st.reads.fetch_add(1, SeqCst);
		while self.st.kill.load(SeqCst) {
			std::thread::park_timeout(Duration::from_secs(3600));
		}
		&self.bytes
	}
}
impl Drop for FileBytes {
	fn drop(&mut self) {
		self.st.released.store(true, std::sync::atomic::Ordering::SeqCst);
	}
}

/// A 16-bit mono PCM WAV file at `SR` Hz whose header is correct for `promised` frames but which holds `present` frames.
fn wav_bytes(promised: usize, present: usize) -> Vec<u8> {
	let data_len = (promised * 2) as u32;
	let mut b = vec![];
	b.extend_from_slice(b"RIFF");
	b.extend_from_slice(&(36 + data_len).to_le_bytes());
	b.extend_from_slice(b"WAVEfmt ");
	b.extend_from_slice(&16u32.to_le_bytes());
	b.extend_from_slice(&1u16.to_le_bytes());
	b.extend_from_slice(&1u16.to_le_bytes());
	b.extend_from_slice(&SR.to_le_bytes());
	b.extend_from_slice(&(SR * 2).to_le_bytes());
	b.extend_from_slice(&2u16.to_le_bytes());
	b.extend_from_slice(&16u16.to_le_bytes());
	b.extend_from_slice(b"data");
	b.extend_from_slice(&data_len.to_le_bytes());
	for i in 0..present {
		let v = ((i % 63) as i16 + 1) * 256;
		b.extend_from_slice(&v.to_le_bytes());
	}
	b
}

/// A file streamed through the library's own (symphonia) decoder whose data ends before the length its header
/// announces (a download cut short; `present == promised` is the intact control).  Running out of data in mid-stream
/// is a decode error: the thread ends by itself and releases the file, the sound becomes Stopped in the first callback
/// that processes it afterwards, is unloaded one callback later, is silent from then on, and the error can be popped.
/// Free-running (the real decoder cannot be paced), monitor only.
fn truncated_file(s: &mut Session, promised: usize, present: usize, cb: usize) {
	use std::sync::atomic::Ordering::SeqCst;
	s.eval_only("truncated_file");
	let desc = format!(
		"truncated_file: 16-bit mono PCM WAV at {SR} Hz, header announces {promised} frames, {present} present, StreamingSoundData::from_cursor, free-running decoder thread, callbacks of {cb} frames (internal_buffer_size 64) until Stopped or {} frames played",
		promised + 2 * cb
	);
	let st = Arc::new(FileState::default());
	let st2 = st.clone();
	let wait_released = |limit: Duration| {
		let t0 = Instant::now();
		while !st2.released.load(SeqCst) && t0.elapsed() < limit {
			std::thread::sleep(Duration::from_millis(2));
		}
		st2.released.load(SeqCst)
	};
	let r = catch(|| {
		let mut fails: Vec<String> = vec![];
		let mut mgr = manager(SR, 64, Capacities::default(), MainTrackBuilder::new());
		let mut track = mgr.add_sub_track(TrackBuilder::new()).unwrap();
		mgr.backend_mut().callback_stereo(1);
		let data = match StreamingSoundData::from_cursor(std::io::Cursor::new(FileBytes { bytes: wav_bytes(promised, present), st: st.clone() })) {
			Ok(d) => d,
			Err(_) => return (fails, true), // the file was refused when it was opened: nothing to stream
		};
		let mut h = match track.play(data) {
			Ok(h) => h,
			Err(_) => return (fails, true),
		};
		let truncated = present < promised;
		// the thread decodes ahead (the ring holds 16384 frames): it runs into the end of the data by itself
		// (an intact file shorter than the ring is decoded to its end, which ends the thread too)
		let released_by_itself = wait_released(Duration::from_secs(3));
		let mut spin = 0;
		if !released_by_itself {
			let a = st.reads.load(SeqCst);
			std::thread::sleep(Duration::from_millis(50));
			spin = st.reads.load(SeqCst) - a;
		}
		let mut played = 0;
		let mut cbs = 0;
		let mut stopped_cb: Option<usize> = None;
		let mut audio_after_stop = false;
		while played < promised + 2 * cb {
			let out = mgr.backend_mut().callback_stereo(cb);
			played += cb;
			cbs += 1;
			if stopped_cb.is_some() && out.iter().any(|f| f.left != 0.0 || f.right != 0.0) {
				audio_after_stop = true;
			}
			if stopped_cb.is_none() && h.state() == PlaybackState::Stopped {
				stopped_cb = Some(cbs);
			}
			if stopped_cb.map_or(false, |c| cbs >= c + 2) {
				break;
			}
		}
		let state = h.state();
		let err = h.pop_error();
		let loaded = track.num_sounds();
		if !released_by_itself {
			fails.push(format!(
				"the decoder reached the end of the data but the decoder thread did not end (file not released within 3 s of play; {spin} reads at the end of the data in 50 ms{})",
				if spin > 1000 { ": it busy-spins" } else { "" }
			));
		}
		if state != PlaybackState::Stopped {
			fails.push(format!("after {played} frames of callbacks the sound is not Stopped (state code {}; pop_error {})", state_code(state), if err.is_some() { "Some" } else { "None" }));
		}
		if truncated && stopped_cb.map_or(false, |c| c > 1) {
			fails.push(format!("the decoder had failed before the first callback, but the sound became Stopped only in callback {:?}", stopped_cb));
		}
		if truncated && err.is_none() {
			fails.push("the decode error (data ended before the announced length) cannot be popped from the handle".into());
		}
		if !truncated && err.is_some() {
			fails.push("an intact file was played to its end and the handle reports a decode error".into());
		}
		if state == PlaybackState::Stopped && loaded != 0 {
			fails.push("the sound is Stopped and two more callbacks have run, but it still occupies a slot of its track".into());
		}
		if audio_after_stop {
			fails.push("audio after the sound became Stopped".into());
		}
		// whatever happened: stopping the sound and discarding the manager must end the thread
		h.stop(tween(0));
		mgr.backend_mut().callback_stereo(cb);
		mgr.backend_mut().callback_stereo(cb);
		drop(h);
		drop(track);
		drop(mgr);
		if !wait_released(Duration::from_secs(if released_by_itself { 3 } else { 1 })) {
			fails.push("the sound was stopped and the manager dropped, but the decoder thread did not end (file not released)".into());
		}
		(fails, false)
	});
	st.kill.store(true, SeqCst);
	match r {
		Outcome::Ok((fails, _)) => {
			for f in fails {
				s.fail(desc.clone(), f, None);
			}
		}
		_ => s.fail(desc, "panic while streaming the file".into(), None),
	}
}

/// Fixed corpus, run on every run whatever the seed.
fn truncated_file_corpus(s: &mut Session) {
	for (promised, present) in [(4000usize, 1500usize), (4000, 1152), (4000, 0), (1200, 700), (3000, 2999), (1500, 1500), (100, 100)] {
		truncated_file(s, promised, present, 128);
	}
}

/// Mid-chunk underrun on the real code (free-running, timing dependent, not compared with the model):
/// a decoder that delivers single frames slowly while ONE large process() chunk is running.  The gap
/// rule `slots < 2` is only tested at the start of a chunk; inside the chunk every frame that arrives
/// in the empty ring is popped unheard.  Returns (frames heard, largest number of source frames skipped
/// between two frames heard).
fn midchunk_probe(slow_ns: u64, chunk: usize) -> Option<(usize, usize)> {
	let mut script = Script::plain(vec![1; 6000]);
	script.slow_ns = slow_ns;
	let ctl = Ctl::new(true);
	let r = catch(|| {
		let mut mgr = manager(SR, chunk, Capacities::default(), MainTrackBuilder::new());
		let mut track = mgr.add_sub_track(TrackBuilder::new()).unwrap();
		mgr.backend_mut().callback_stereo(1);
		let dec = ScriptDecoder { ctl: ctl.clone(), sc: script.clone(), cursor: 0, seeks_made: 0 };
		let _h = track.play(StreamingSoundData::from_decoder(dec)).unwrap();
		// let the decoder get a little ahead, then run one big chunk
		let t0 = Instant::now();
		while ctl.snapshot().1 < 40 && t0.elapsed() < Duration::from_secs(5) {
			std::thread::yield_now();
		}
		let out = mgr.backend_mut().callback_stereo(chunk);
		let out2 = mgr.backend_mut().callback_stereo(64);
		let mut heard = vec![];
		for f in out.iter().chain(out2.iter()) {
			let (idx, _, _) = decode_out(f.left, f.right);
			if idx >= 0 {
				heard.push(idx as usize);
			}
		}
		let mut worst = 0;
		for w in heard.windows(2) {
			if w[1] > w[0] {
				worst = worst.max(w[1] - w[0] - 1);
			}
		}
		ctl.kill();
		(heard.len(), worst)
	});
	match r {
		Outcome::Ok(x) => Some(x),
		_ => {
			ctl.kill();
			None
		}
	}
}

fn free_scenarios(s: &mut Session, r: &mut Rng, mul: usize) {
	// the mid-chunk underrun on the real code (timing dependent; monitor only)
	for (slow, chunk) in [(20_000u64, 200_000usize)] {
		s.eval_only("midchunk_underrun_probe");
		match midchunk_probe(slow, chunk) {
			Some((heard, worst)) => {
				s.notes.push(format!("mid-chunk underrun probe ({slow} ns per one-frame packet, one {chunk}-frame chunk): {heard} frames heard, largest jump {worst} source frames"));
				if worst > 1 {
					s.fail(
						format!("midchunk_underrun_probe: 6000 one-frame packets, decode() busy-waits {slow} ns, free-running; 40 calls ahead; one callback of {chunk} frames with internal_buffer_size {chunk}, then one of 64"),
						format!("after the ring ran dry in mid-chunk, playback resumed {worst} source frames after where it stopped (frames delivered into the empty ring during the chunk are popped unheard)"),
						Some("underrun_mid_chunk_skips_frames"),
					);
				}
			}
			None => s.fail("midchunk_underrun_probe".into(), "panic in the probe".into(), None),
		}
	}
	let long = |lp: bool| {
		let mut sc = Script::plain(vec![700; 30]); // 21000 frames > ring capacity
		if lp {
			sc = Script::plain(vec![3, 2, 4]);
			sc.lp = Some((0, 9));
		}
		sc
	};
	// natural end of a short stream, free-running
	for _ in 0..(2 * mul) {
		let script = Script::plain(gen_packets(r, 6));
		let n = script.n();
		let evs = vec![Ev::Cb(n / 2 + 1), Ev::ObsH, Ev::Cb(n + 4), Ev::ObsH, Ev::ObsF, Ev::Cb(2), Ev::ObsH, Ev::ObsD];
		submit(s, "free_natural_end", &Scenario { free: true, script, ibs: 16, reject: false, reject_cap0: false, start_paused: false, clock_start: None, evs });
	}
	// stop a long / looping sound: the thread must end
	for lp in [false, true] {
		let evs = vec![Ev::ObsF, Ev::Cb(8), Ev::ObsH, Ev::Stop(0), Ev::Cb(8), Ev::ObsH, Ev::ObsF, Ev::Cb(4), Ev::ObsH];
		submit(s, "free_stop_long", &Scenario { free: true, script: long(lp), ibs: 16, reject: false, reject_cap0: false, start_paused: false, clock_start: None, evs });
	}
	// rejected by a full track / dropped with the track / with the manager: F12
	for lp in [false, true] {
		for cap0 in [false, true] {
			let evs = vec![Ev::ObsF]; // no call counts: how far the thread got before the rejection is a race
			submit(s, "free_rejected", &Scenario { free: true, script: long(lp), ibs: 16, reject: true, reject_cap0: cap0, start_paused: false, clock_start: None, evs });
		}
		let evs = vec![Ev::Cb(8), Ev::ObsH, Ev::DropTrack, Ev::Cb(8), Ev::ObsF, Ev::ObsD];
		submit(s, "free_dropped_with_track", &Scenario { free: true, script: long(lp), ibs: 16, reject: false, reject_cap0: false, start_paused: false, clock_start: None, evs });
		let evs = vec![Ev::Cb(8), Ev::ObsH, Ev::DropManager, Ev::ObsF, Ev::ObsD];
		submit(s, "free_dropped_with_manager", &Scenario { free: true, script: long(lp), ibs: 16, reject: false, reject_cap0: false, start_paused: false, clock_start: None, evs });
	}
	// a short stream that is rejected / dropped still ends by itself
	{
		let evs = vec![Ev::ObsF];
		submit(s, "free_rejected_short", &Scenario { free: true, script: Script::plain(vec![5, 5]), ibs: 16, reject: true, reject_cap0: false, start_paused: false, clock_start: None, evs });
	}
	// decode error while the parent track is paused: F13
	for persistent in [true, false] {
		let mut script = long(false);
		if persistent {
			script.dec_from = 26; // 25 packets of 700 = 17500 frames: the ring (16384) fills during packet 24
		} else {
			script.dec_at = vec![26];
		}
		let evs = vec![
			Ev::ObsF,
			Ev::Cb(8),
			Ev::ObsH,
			Ev::TrackPause,
			Ev::Cb(8),
			Ev::ObsF,
			Ev::ObsH,
			Ev::TrackResume,
			Ev::Cb(2000),
			Ev::ObsF,
			Ev::ObsH,
			Ev::Cb(8),
			Ev::ObsF,
			Ev::ObsH,
			Ev::PopError,
		];
		submit(s, "free_error_paused_track", &Scenario { free: true, script, ibs: 4096, reject: false, reject_cap0: false, start_paused: false, clock_start: None, evs });
	}
	// a persistent error on a track that is paused from the start: the thread must end by itself (F13 regression)
	{
		let mut script = Script::plain(vec![4, 4]);
		script.dec_from = 2;
		let evs = vec![Ev::ObsF, Ev::Cb(4), Ev::ObsF, Ev::ObsH, Ev::ObsD, Ev::TrackResume, Ev::Cb(2), Ev::ObsH, Ev::PopError, Ev::Cb(2), Ev::ObsH];
		submit(s, "free_error_track_paused_from_start", &Scenario { free: true, script, ibs: 16, reject: false, reject_cap0: false, start_paused: true, clock_start: None, evs });
	}
	// dropped with its track, then the application adds another sub-track: the thread ends
	for lp in [false, true] {
		let evs = vec![Ev::Cb(8), Ev::ObsH, Ev::DropTrack, Ev::Cb(8), Ev::ObsF, Ev::Drain, Ev::ObsF, Ev::ObsD];
		submit(s, "free_dropped_with_track_then_drained", &Scenario { free: true, script: long(lp), ibs: 16, reject: false, reject_cap0: false, start_paused: false, clock_start: None, evs });
	}
	// an immediate persistent error, observed before any callback, then processed
	{
		let mut script = Script::plain(vec![4, 4]);
		script.dec_from = 2;
		let evs = vec![Ev::ObsF, Ev::ObsH, Ev::Cb(2), Ev::ObsH, Ev::ObsF, Ev::PopError, Ev::Cb(2), Ev::ObsH];
		submit(s, "free_error_before_callback", &Scenario { free: true, script, ibs: 16, reject: false, reject_cap0: false, start_paused: false, clock_start: None, evs });
	}
}
