//! Shared infrastructure of the correspondence harness: one PRNG, case-file writer
//! (Gallina terms evaluated by `coqc`), summary writer, panic capture.
#![allow(dead_code)]
use std::collections::{BTreeMap, BTreeSet};
use std::fmt::Write as _;
use std::io::Write as _;
use std::panic::{catch_unwind, AssertUnwindSafe};
use std::path::{Path, PathBuf};
use std::sync::Mutex;

/// SplitMix64: every random choice of a run derives from one state seeded by VERIF_SEED.
#[derive(Clone)]
pub struct Rng(pub u64);
impl Rng {
	pub fn new(seed: u64) -> Self {
		// The state is a SplitMix64 counter: seeds must not map to neighbouring counter values, or the streams of
		// VERIF_SEED = 0, 1, 2 .. are the same stream shifted by one draw (and re-synchronise after a few
		// variable-length draws).  Hash the seed first.
		let mut z = seed.wrapping_add(0x1234_5678_9ABC_DEF1).wrapping_mul(0x9E3779B97F4A7C15);
		z = (z ^ (z >> 32)).wrapping_mul(0xD6E8FEB86659FD93);
		z = (z ^ (z >> 32)).wrapping_mul(0xD6E8FEB86659FD93);
		Rng(z ^ (z >> 32))
	}
	pub fn next(&mut self) -> u64 {
		self.0 = self.0.wrapping_add(0x9E3779B97F4A7C15);
		let mut z = self.0;
		z = (z ^ (z >> 30)).wrapping_mul(0xBF58476D1CE4E5B9);
		z = (z ^ (z >> 27)).wrapping_mul(0x94D049BB133111EB);
		z ^ (z >> 31)
	}
	pub fn below(&mut self, n: u64) -> u64 {
		if n == 0 {
			0
		} else {
			self.next() % n
		}
	}
	pub fn range(&mut self, lo: i64, hi: i64) -> i64 {
		lo + self.below((hi - lo + 1) as u64) as i64
	}
	pub fn chance(&mut self, num: u64, den: u64) -> bool {
		self.below(den) < num
	}
	pub fn pick<'a, T>(&mut self, xs: &'a [T]) -> &'a T {
		&xs[self.below(xs.len() as u64) as usize]
	}
	pub fn unit_f64(&mut self) -> f64 {
		(self.next() >> 11) as f64 / (1u64 << 53) as f64
	}
	/// a dyadic rational k / 2^bits in [0, 1)
	pub fn dyadic_unit(&mut self, bits: u32) -> f64 {
		self.below(1 << bits) as f64 / (1u64 << bits) as f64
	}
	pub fn fork(&mut self) -> Rng {
		Rng(self.next())
	}
}

pub fn f64_bits_z(x: f64) -> String {
	if x.is_nan() {
		"(-1)".to_string()
	} else {
		format!("{}", x.to_bits())
	}
}
pub fn f32_bits_z(x: f32) -> String {
	if x.is_nan() {
		"(-1)".to_string()
	} else {
		format!("{}", x.to_bits())
	}
}
/// canonical observable of a float: bit pattern, all NaNs mapped to -1
pub fn obs64(x: f64) -> i128 {
	if x.is_nan() {
		-1
	} else {
		x.to_bits() as i128
	}
}
pub fn obs32(x: f32) -> i128 {
	if x.is_nan() {
		-1
	} else {
		x.to_bits() as i128
	}
}
pub fn zs(v: &[i128]) -> String {
	let mut s = String::from("[");
	for (i, x) in v.iter().enumerate() {
		if i > 0 {
			s.push_str("; ");
		}
		if *x < 0 {
			let _ = write!(s, "({})", x);
		} else {
			let _ = write!(s, "{}", x);
		}
	}
	s.push(']');
	s
}
pub fn z(x: i128) -> String {
	if x < 0 {
		format!("({})", x)
	} else {
		format!("{}", x)
	}
}

#[derive(Debug, Clone, PartialEq)]
pub enum Outcome<T> {
	Ok(T),
	Panic(i128),
	Hang,
}
static LAST_PANIC: Mutex<String> = Mutex::new(String::new());
pub fn install_panic_hook() {
	std::panic::set_hook(Box::new(|info| {
		let msg = if let Some(s) = info.payload().downcast_ref::<&str>() {
			s.to_string()
		} else if let Some(s) = info.payload().downcast_ref::<String>() {
			s.clone()
		} else {
			"?".to_string()
		};
		*LAST_PANIC.lock().unwrap() = msg;
	}));
}
pub fn last_panic() -> String {
	LAST_PANIC.lock().unwrap().clone()
}
/// panic message -> the small enum of Base/Outcome.v
pub fn panic_code(msg: &str) -> i128 {
	if msg.contains("overflow") {
		1
	} else if msg.contains("out of bounds") || msg.contains("out of range") {
		2
	} else if msg.contains("chunk size must be non-zero") {
		3
	} else if msg.contains("min > max") || msg.contains("min <= max") {
		4
	} else if msg.contains("Invalid playback state") {
		5
	} else if msg.contains("is full") {
		6
	} else {
		7
	}
}
pub fn catch<T>(f: impl FnOnce() -> T) -> Outcome<T> {
	match catch_unwind(AssertUnwindSafe(f)) {
		Ok(v) => Outcome::Ok(v),
		Err(_) => Outcome::Panic(panic_code(&last_panic())),
	}
}
pub fn encode_outcome(o: &Outcome<Vec<i128>>) -> Vec<i128> {
	match o {
		Outcome::Ok(v) => {
			let mut r = vec![0];
			r.extend_from_slice(v);
			r
		}
		Outcome::Panic(c) => vec![1, *c],
		Outcome::Hang => vec![2],
	}
}

pub fn json_str(s: &str) -> String {
	let mut o = String::from("\"");
	for c in s.chars() {
		match c {
			'"' => o.push_str("\\\""),
			'\\' => o.push_str("\\\\"),
			'\n' => o.push_str("\\n"),
			'\t' => o.push_str("\\t"),
			c if (c as u32) < 0x20 => {
				let _ = write!(o, "\\u{:04x}", c as u32);
			}
			c => o.push(c),
		}
	}
	o.push('"');
	o
}

/// A monitor failure: the property predicate evaluated on an implementation trace said no.
pub struct Failure {
	pub case: String,
	pub what: String,
	/// name of the executable class predicate of a known finding that this case satisfies, if any
	pub class: Option<String>,
}

/// Collects cases for one property: writes Gallina case shards, counts coverage.
pub struct Session {
	pub prop: String,
	pub out: PathBuf,
	pub header: String,
	pub run_fn: String,
	pub shard_size: usize,
	cur: Vec<String>,
	pub shards: Vec<String>,
	pub evaluations: u64,
	pub nontrivial: BTreeSet<String>,
	pub hist: BTreeMap<String, u64>,
	pub samples: Vec<String>,
	pub failures: Vec<Failure>,
	pub case_text: Vec<String>,
	pub rule: String,
	pub notes: Vec<String>,
	pub model_cases: u64,
	pub keep_case_text: bool,
}
impl Session {
	pub fn new(prop: &str, out: &Path, header: &str, run_fn: &str, shard_size: usize, rule: &str) -> Self {
		std::fs::create_dir_all(out).unwrap();
		Session {
			prop: prop.to_string(),
			out: out.to_path_buf(),
			header: header.to_string(),
			run_fn: run_fn.to_string(),
			shard_size,
			cur: vec![],
			shards: vec![],
			evaluations: 0,
			nontrivial: BTreeSet::new(),
			hist: BTreeMap::new(),
			samples: vec![],
			failures: vec![],
			case_text: vec![],
			rule: rule.to_string(),
			notes: vec![],
			model_cases: 0,
			keep_case_text: true,
		}
	}
	pub fn count(&mut self, key: &str) {
		*self.hist.entry(key.to_string()).or_insert(0) += 1;
	}
	/// record one evaluated case that is NOT sent to the model (monitor-only)
	pub fn eval_only(&mut self, kind: &str) {
		self.evaluations += 1;
		self.count(kind);
	}
	/// add a case for the model: `term` is a Gallina term of the property's case type,
	/// `expected` the observable the implementation produced.
	pub fn case(&mut self, kind: &str, term: String, expected: &[i128], nontrivial_key: Option<String>) -> u64 {
		let idx = self.model_cases;
		self.model_cases += 1;
		self.evaluations += 1;
		self.count(kind);
		if let Some(k) = nontrivial_key {
			self.nontrivial.insert(k);
		}
		if self.samples.len() < 6 || (self.samples.len() < 12 && idx % 97 == 0) {
			self.samples.push(format!("{} => {}", term, zs(expected)));
		}
		self.cur.push(format!("({}, {}, {})", idx, term, zs(expected)));
		if self.keep_case_text {
			// term and what the implementation did (tab separated), so that a replay file can show both sides
			self.case_text.push(format!("{}\t{}", term, zs(expected)));
		}
		if self.cur.len() >= self.shard_size {
			self.flush();
		}
		idx
	}
	pub fn fail(&mut self, case: String, what: String, class: Option<&str>) {
		self.failures.push(Failure { case, what, class: class.map(|s| s.to_string()) });
	}
	pub fn flush(&mut self) {
		if self.cur.is_empty() {
			return;
		}
		let name = format!("cases_{}_{}.v", self.prop, self.shards.len());
		let mut f = std::io::BufWriter::new(std::fs::File::create(self.out.join(&name)).unwrap());
		writeln!(f, "{}", self.header).unwrap();
		writeln!(f, "Set Printing Width 1000000. Set Printing Depth 1000000.").unwrap();
		writeln!(f, "Definition cases := [").unwrap();
		for (i, c) in self.cur.iter().enumerate() {
			writeln!(f, "  {}{}", c, if i + 1 < self.cur.len() { ";" } else { "" }).unwrap();
		}
		writeln!(f, "].").unwrap();
		writeln!(f, "Eval vm_compute in (mismatches {} cases).", self.run_fn).unwrap();
		self.cur.clear();
		self.shards.push(name);
	}
	pub fn finish(mut self) {
		self.flush();
		let mut s = String::new();
		s.push_str("{\n");
		let _ = writeln!(s, "  \"property\": {},", json_str(&self.prop));
		let _ = writeln!(s, "  \"evaluations\": {},", self.evaluations);
		let _ = writeln!(s, "  \"model_cases\": {},", self.model_cases);
		let _ = writeln!(s, "  \"distinct_nontrivial\": {},", self.nontrivial.len());
		let _ = writeln!(s, "  \"rule\": {},", json_str(&self.rule));
		let _ = writeln!(s, "  \"shards\": [{}],", self.shards.iter().map(|x| json_str(x)).collect::<Vec<_>>().join(", "));
		let _ = writeln!(s, "  \"samples\": [{}],", self.samples.iter().map(|x| json_str(x)).collect::<Vec<_>>().join(", "));
		let _ = writeln!(s, "  \"notes\": [{}],", self.notes.iter().map(|x| json_str(x)).collect::<Vec<_>>().join(", "));
		let _ = writeln!(
			s,
			"  \"histogram\": {{{}}},",
			self.hist.iter().map(|(k, v)| format!("{}: {}", json_str(k), v)).collect::<Vec<_>>().join(", ")
		);
		let _ = writeln!(
			s,
			"  \"failures\": [{}]",
			self.failures
				.iter()
				.map(|f| format!(
					"{{\"case\": {}, \"what\": {}, \"class\": {}}}",
					json_str(&f.case),
					json_str(&f.what),
					match &f.class {
						Some(c) => json_str(c),
						None => "null".to_string(),
					}
				))
				.collect::<Vec<_>>()
				.join(",\n    ")
		);
		s.push_str("}\n");
		std::fs::write(self.out.join("summary.json"), s).unwrap();
		// the case terms, one per line, so that a mismatch index can be turned into a replay file
		if self.keep_case_text {
			let mut f = std::io::BufWriter::new(std::fs::File::create(self.out.join("cases.txt")).unwrap());
			for (i, c) in self.case_text.iter().enumerate() {
				writeln!(f, "{}\t{}", i, c).unwrap();
			}
		}
	}
}

pub struct Args {
	pub prop: String,
	pub seed: u64,
	pub thorough: bool,
	pub out: PathBuf,
	pub replay: Option<String>,
	pub budget_mul: u64,
}
pub fn parse_args() -> Args {
	let a: Vec<String> = std::env::args().collect();
	let mut args = Args { prop: String::new(), seed: 0, thorough: false, out: PathBuf::from("/verif/work/tmp"), replay: None, budget_mul: 1 };
	let mut i = 1;
	while i < a.len() {
		match a[i].as_str() {
			"--seed" => {
				args.seed = a[i + 1].parse().unwrap_or(0);
				i += 1;
			}
			"--tier" => {
				args.thorough = a[i + 1] == "thorough";
				i += 1;
			}
			"--out" => {
				args.out = PathBuf::from(&a[i + 1]);
				i += 1;
			}
			"--replay" => {
				args.replay = Some(a[i + 1].clone());
				i += 1;
			}
			"--budget-mul" => {
				args.budget_mul = a[i + 1].parse().unwrap_or(1);
				i += 1;
			}
			s => {
				if args.prop.is_empty() {
					args.prop = s.to_string();
				}
			}
		}
		i += 1;
	}
	args
}
