//! C09 — a streaming sound behaves exactly like a static sound of the same audio.
//!
//! One case = one frame vector, one group of settings, one scripted `Decoder` over the same vector (random packet
//! sizes, random seek-landing granularity), one history of commands and callbacks.  A real static sound
//! (`StaticSoundData` of the vector) and a real streaming sound (`StreamingSoundData::from_decoder`, its real decoder
//! thread) are driven side by side — as `Box<dyn Sound>` with `MockInfoBuilder` infos, or through two real
//! `AudioManager<VBackend>`s — and compared with each other (the property itself) and, each, with the Coq model.
//!
//! "The decoder keeps ahead" is arranged through the two cfg(kira_verif) yield points in
//! `DecodeScheduler::run` ("decode_scheduler_run" at its top, "decode_scheduler_full" where it finds the ring full):
//!  * free mode: the thread runs by itself; before a callback the harness waits until it has seen the ring full
//!    (or the thread end) recently enough that at least `pops + 4` entries must be there;
//!  * paced mode: the thread is held at the top of `run` and granted an exact number of iterations, so the ring
//!    holds an exactly known number of entries at every callback (tight leads, and deliberately starving ones for
//!    the model-vs-implementation comparison outside the property's hypothesis).
//!
//! Callback boundaries at the physical end of the frame ring (16384 slots): a directed corpus that is the same on every
//! run (`wrap_corpus`) and seeded histories (`wrap_random`) end callbacks exactly where 16383 (mod 16384) ring entries
//! have been popped, so that the next callback's `update_current_frame` reads a chunk lying in two pieces of memory; the
//! ordinary monitors (positions within one frame, states, outputs) are evaluated there.
use crate::backend::*;
use crate::util::*;
use kira::clock::{ClockId, ClockTime};
use kira::info::MockInfoBuilder;
use kira::modulator::ModulatorId;
use kira::sound::static_sound::{StaticSoundData, StaticSoundHandle, StaticSoundSettings};
use kira::sound::streaming::{Decoder, StreamingSoundData, StreamingSoundHandle, StreamingSoundSettings};
use kira::sound::{EndPosition, PlaybackPosition, PlaybackState, Region, Sound, SoundData};
use kira::{Decibels, Easing, Frame, Mapping, Panning, PlaybackRate, StartTime, Tween, Value};
use std::sync::{Arc, Condvar, Mutex, OnceLock};
use std::time::{Duration, Instant};

const RING: i64 = 16384;

// ------------------------------------------------------------------------------------------
// decoder-thread control through the yield points
// ------------------------------------------------------------------------------------------
#[derive(Clone, Copy, PartialEq, Debug)]
enum Mode {
	Free,
	Paced,
}
struct CtlState {
	mode: Mode,
	permits: u64,
	at_yield: bool,
	full_events: u64,
	ended: bool,
}
struct Ctl {
	/// fast path of the free mode: the "decode_scheduler_run" yield point returns at once
	paced: std::sync::atomic::AtomicBool,
	/// iterations of the decoder loop begun (each pushes at most one frame)
	iters: std::sync::atomic::AtomicU64,
	m: Mutex<CtlState>,
	cv: Condvar,
}
impl Ctl {
	fn new(mode: Mode) -> Arc<Ctl> {
		Arc::new(Ctl {
			paced: std::sync::atomic::AtomicBool::new(mode == Mode::Paced),
			iters: std::sync::atomic::AtomicU64::new(0),
			m: Mutex::new(CtlState { mode, permits: 0, at_yield: false, full_events: 0, ended: false }),
			cv: Condvar::new(),
		})
	}
	fn at_run(&self) {
		self.iters.fetch_add(1, std::sync::atomic::Ordering::Relaxed);
		if !self.paced.load(std::sync::atomic::Ordering::SeqCst) {
			return;
		}
		let mut g = self.m.lock().unwrap();
		g.at_yield = true;
		self.cv.notify_all();
		while g.mode == Mode::Paced && g.permits == 0 {
			g = self.cv.wait(g).unwrap();
		}
		if g.mode == Mode::Paced {
			g.permits -= 1;
		}
		g.at_yield = false;
	}
	fn at_full(&self) {
		let mut g = self.m.lock().unwrap();
		g.full_events += 1;
		self.cv.notify_all();
	}
	fn mark_ended(&self) {
		let mut g = self.m.lock().unwrap();
		g.ended = true;
		self.cv.notify_all();
	}
	fn ended(&self) -> bool {
		self.m.lock().unwrap().ended
	}
	fn set_free(&self) {
		let mut g = self.m.lock().unwrap();
		g.mode = Mode::Free;
		self.paced.store(false, std::sync::atomic::Ordering::SeqCst);
		self.cv.notify_all();
	}
	/// paced: let the thread do `k` more iterations of its loop and wait until it stands at the top of the next
	/// one (or has ended)
	fn grant(&self, k: u64) {
		let mut g = self.m.lock().unwrap();
		assert!(g.mode == Mode::Paced);
		g.permits += k;
		self.cv.notify_all();
		let deadline = Instant::now() + Duration::from_secs(20);
		while !(g.ended || (g.at_yield && g.permits == 0)) {
			let left = deadline.saturating_duration_since(Instant::now());
			if left.is_zero() {
				panic!("C09 harness: the paced decoder thread neither reached the next decode_scheduler_run yield point nor ended within 20 s (is the cfg(kira_verif) hook in DecodeScheduler::run missing?)");
			}
			g = self.cv.wait_timeout(g, left).unwrap().0;
		}
	}
	/// free: wait until the thread reports a full ring (after this call began) or has ended; true = ended
	fn wait_full_or_end(&self) -> bool {
		let mut g = self.m.lock().unwrap();
		let gen0 = g.full_events;
		let deadline = Instant::now() + Duration::from_secs(20);
		while !(g.ended || g.full_events > gen0) {
			let left = deadline.saturating_duration_since(Instant::now());
			if left.is_zero() {
				panic!("C09 harness: the decoder thread neither filled its ring (decode_scheduler_full yield point) nor ended within 20 s (is the cfg(kira_verif) hook in DecodeScheduler::run missing?)");
			}
			g = self.cv.wait_timeout(g, left).unwrap().0;
		}
		g.ended
	}
	/// paced: wait for the thread to arrive at its first yield point
	fn wait_arrival(&self) {
		let mut g = self.m.lock().unwrap();
		let deadline = Instant::now() + Duration::from_secs(20);
		while !(g.ended || g.at_yield) {
			let left = deadline.saturating_duration_since(Instant::now());
			if left.is_zero() {
				panic!("C09 harness: the decoder thread never reached the decode_scheduler_run yield point (cfg(kira_verif) hook missing?)");
			}
			g = self.cv.wait_timeout(g, left).unwrap().0;
		}
	}
}

/// the control block of the streaming sound that is being created: claimed by its decoder thread at that
/// thread's first yield point (the harness creates one streaming sound at a time)
fn pending() -> &'static Mutex<Option<Arc<Ctl>>> {
	static R: OnceLock<Mutex<Option<Arc<Ctl>>>> = OnceLock::new();
	R.get_or_init(|| Mutex::new(None))
}
/// every control block handed out, to check at the end that all decoder threads have ended
fn all_ctls() -> &'static Mutex<Vec<Arc<Ctl>>> {
	static R: OnceLock<Mutex<Vec<Arc<Ctl>>>> = OnceLock::new();
	R.get_or_init(|| Mutex::new(Vec::new()))
}
thread_local! {
	static MY_CTL: std::cell::RefCell<Option<Arc<Ctl>>> = const { std::cell::RefCell::new(None) };
}
fn hook(name: &'static str) {
	if name != "decode_scheduler_run" && name != "decode_scheduler_full" {
		return;
	}
	let ctl = MY_CTL.with(|c| {
		let mut c = c.borrow_mut();
		if c.is_none() {
			*c = pending().lock().unwrap().take();
		}
		c.clone()
	});
	let Some(ctl) = ctl else { return };
	if name == "decode_scheduler_run" {
		ctl.at_run();
	} else {
		ctl.at_full();
	}
}
fn install_hook() {
	kira::verif::set_yield_hook(Some(Arc::new(hook)));
}

// ------------------------------------------------------------------------------------------
// the scripted decoder
// ------------------------------------------------------------------------------------------
struct ScriptDecoder {
	sr: u32,
	frames: Arc<Vec<Frame>>,
	packets: Arc<Vec<usize>>,
	gran: usize,
	cursor: usize, // number of the next packet
	ctl: Arc<Ctl>,
}
impl ScriptDecoder {
	fn pstart(&self, k: usize) -> usize {
		self.packets[..k].iter().sum()
	}
	fn find_packet(&self, i: usize) -> usize {
		let mut acc = 0;
		for (k, p) in self.packets.iter().enumerate() {
			if i < acc + p {
				return k;
			}
			acc += p;
		}
		self.packets.len()
	}
}
impl Decoder for ScriptDecoder {
	type Error = i128;
	fn sample_rate(&self) -> u32 {
		self.sr
	}
	fn num_frames(&self) -> usize {
		self.frames.len()
	}
	fn decode(&mut self) -> Result<Vec<Frame>, i128> {
		if self.cursor >= self.packets.len() {
			return Err(999);
		}
		let s = self.pstart(self.cursor);
		let l = self.packets[self.cursor];
		self.cursor += 1;
		Ok(self.frames[s..s + l].to_vec())
	}
	fn seek(&mut self, index: usize) -> Result<usize, i128> {
		let k = self.find_packet(index);
		let g = self.gran.max(1);
		let land = k / g * g;
		self.cursor = land;
		Ok(self.pstart(land))
	}
}
impl Drop for ScriptDecoder {
	fn drop(&mut self) {
		self.ctl.mark_ended();
	}
}

// ------------------------------------------------------------------------------------------
// scenarios
// ------------------------------------------------------------------------------------------
#[derive(Clone, Debug)]
enum Start {
	Imm,
	Del(u64),
	Clk { clock: usize, ticks: u64, fr: f64 },
}
#[derive(Clone, Debug)]
struct Tw {
	start: Start,
	dur_ns: u64,
	easing: Easing,
}
#[derive(Clone, Copy, Debug)]
enum Pos {
	Smp(usize),
	Sec(f64),
}
#[derive(Clone, Copy, Debug)]
enum End {
	End,
	Cus(Pos),
}
/// a `Value<_>`: fixed (f64 for the rate, f32 widened for volume / panning) or linked to a mock modulator
#[derive(Clone, Debug)]
enum Tgt {
	Fixed(f64),
	Mod { id: usize, lo: f64, hi: f64, olo: f64, ohi: f64, easing: Easing },
}
#[derive(Clone, Debug, Default)]
struct Cmds {
	vol: Option<(Tgt, Tw)>,
	rate: Option<(Tgt, Tw)>,
	pan: Option<(Tgt, Tw)>,
	pause: Option<Tw>,
	resume: Option<(Start, Tw)>,
	stop: Option<Tw>,
}
impl Cmds {
	fn any_state_cmd(&self) -> bool {
		self.pause.is_some() || self.resume.is_some() || self.stop.is_some()
	}
	fn any(&self) -> bool {
		self.any_state_cmd() || self.vol.is_some() || self.rate.is_some() || self.pan.is_some()
	}
}
#[derive(Clone, Debug)]
struct Cb {
	cmds: Cmds,
	lens: Vec<usize>,
	clocks: Vec<(bool, bool, u64, f64)>,
	mods: Vec<(bool, f64)>,
	/// paced mode: iterations granted to the decoder thread before this callback (filled in while running)
	grant: u64,
}
#[derive(Clone, Copy, Debug, PartialEq)]
enum Lead {
	Free,
	Tight,
	Generous,
	Starve,
	/// exactly `Cb::grant` iterations before each callback
	Script,
}
#[derive(Clone, Debug)]
struct Scenario {
	sr: u32,
	dt: f64,
	frames: Vec<(u32, u32)>,
	slice: Option<(usize, usize)>,
	start: Pos,
	lp: Option<(Pos, End)>,
	st: Start,
	vol: Tgt,
	rate: Tgt,
	pan: Tgt,
	fade_in: Option<Tw>,
	packets: Vec<usize>,
	gran: usize,
	lead: Lead,
	cbs: Vec<Cb>,
	/// deliberately outside the property's guard (witness replays): no streaming-vs-static monitor
	outside: bool,
}

struct Ids {
	clocks: Vec<ClockId>,
	mods: Vec<ModulatorId>,
}
fn ids() -> Ids {
	let mut b = MockInfoBuilder::new();
	let clocks = vec![b.add_clock(false, 0, 0.0), b.add_clock(false, 0, 0.0)];
	let mods = vec![b.add_modulator(0.0), b.add_modulator(0.0)];
	Ids { clocks, mods }
}
fn build_info(ids: &Ids, clocks: &[(bool, bool, u64, f64)], mods: &[(bool, f64)]) -> kira::info::Info<'static> {
	let mut b = MockInfoBuilder::new();
	for (k, (present, ticking, tk, fr)) in clocks.iter().enumerate() {
		if !*present {
			break;
		}
		let id = b.add_clock(*ticking, *tk, *fr);
		assert!(id == ids.clocks[k]);
	}
	for (k, (present, v)) in mods.iter().enumerate() {
		if !*present {
			break;
		}
		let id = b.add_modulator(*v);
		assert!(id == ids.mods[k]);
	}
	b.build()
}
fn state_code(s: PlaybackState) -> i128 {
	match s {
		PlaybackState::Playing => 0,
		PlaybackState::Pausing => 1,
		PlaybackState::Paused => 2,
		PlaybackState::WaitingToResume => 3,
		PlaybackState::Resuming => 4,
		PlaybackState::Stopping => 5,
		PlaybackState::Stopped => 6,
	}
}
fn easing_code(e: Easing) -> (i128, i128) {
	match e {
		Easing::Linear => (0, 0),
		Easing::InPowi(p) => (1, p as i128),
		Easing::OutPowi(p) => (2, p as i128),
		Easing::InOutPowi(p) => (3, p as i128),
		_ => unreachable!(),
	}
}
fn mk_start(ids: &Ids, s: &Start) -> StartTime {
	match s {
		Start::Imm => StartTime::Immediate,
		Start::Del(ns) => StartTime::Delayed(Duration::from_nanos(*ns)),
		Start::Clk { clock, ticks, fr } => StartTime::ClockTime(ClockTime { clock: ids.clocks[*clock], ticks: *ticks, fraction: *fr }),
	}
}
fn mk_tween(ids: &Ids, t: &Tw) -> Tween {
	Tween { start_time: mk_start(ids, &t.start), duration: Duration::from_nanos(t.dur_ns), easing: t.easing }
}
fn mk_pos(p: Pos) -> PlaybackPosition {
	match p {
		Pos::Smp(n) => PlaybackPosition::Samples(n),
		Pos::Sec(s) => PlaybackPosition::Seconds(s),
	}
}
fn mk_region(s: Pos, e: End) -> Region {
	Region {
		start: mk_pos(s),
		end: match e {
			End::End => EndPosition::EndOfAudio,
			End::Cus(p) => EndPosition::Custom(mk_pos(p)),
		},
	}
}
fn mk_rate(ids: &Ids, t: &Tgt) -> Value<PlaybackRate> {
	match t {
		Tgt::Fixed(x) => Value::Fixed(PlaybackRate(*x)),
		Tgt::Mod { id, lo, hi, olo, ohi, easing } => Value::FromModulator {
			id: ids.mods[*id],
			mapping: Mapping { input_range: (*lo, *hi), output_range: (PlaybackRate(*olo), PlaybackRate(*ohi)), easing: *easing },
		},
	}
}
fn mk_db(ids: &Ids, t: &Tgt) -> Value<Decibels> {
	match t {
		Tgt::Fixed(x) => Value::Fixed(Decibels(*x as f32)),
		Tgt::Mod { id, lo, hi, olo, ohi, easing } => Value::FromModulator {
			id: ids.mods[*id],
			mapping: Mapping { input_range: (*lo, *hi), output_range: (Decibels(*olo as f32), Decibels(*ohi as f32)), easing: *easing },
		},
	}
}
fn mk_pan(ids: &Ids, t: &Tgt) -> Value<Panning> {
	match t {
		Tgt::Fixed(x) => Value::Fixed(Panning(*x as f32)),
		Tgt::Mod { id, lo, hi, olo, ohi, easing } => Value::FromModulator {
			id: ids.mods[*id],
			mapping: Mapping { input_range: (*lo, *hi), output_range: (Panning(*olo as f32), Panning(*ohi as f32)), easing: *easing },
		},
	}
}

// ---- Gallina terms ------------------------------------------------------------------------
fn start_term(s: &Start) -> String {
	match s {
		Start::Imm => "SImm".into(),
		Start::Del(ns) => format!("(SDel {})", ns),
		Start::Clk { clock, ticks, fr } => format!("(SClk {} {} {})", clock, ticks, f64_bits_z(*fr)),
	}
}
fn tw_term(t: &Tw) -> String {
	let (ek, ep) = easing_code(t.easing);
	format!("({}, {}, {}, {})", start_term(&t.start), t.dur_ns, ek, z(ep))
}
fn opt<T>(o: &Option<T>, f: impl Fn(&T) -> String) -> String {
	match o {
		Some(x) => format!("(Some {})", f(x)),
		None => "None".into(),
	}
}
fn pos_term(p: Pos) -> String {
	match p {
		Pos::Smp(n) => format!("(R4.PSmp {})", n),
		Pos::Sec(s) => format!("(R4.PSec {})", f64_bits_z(s)),
	}
}
fn end_term(e: End) -> String {
	match e {
		End::End => "R4.EEnd".into(),
		End::Cus(p) => format!("(R4.ECus {})", pos_term(p)),
	}
}
fn tgt_term(t: &Tgt, wide: bool) -> String {
	let b = |x: f64| if wide { f64_bits_z(x) } else { f32_bits_z(x as f32) };
	match t {
		Tgt::Fixed(x) => format!("(TFixed {})", b(*x)),
		Tgt::Mod { id, lo, hi, olo, ohi, easing } => {
			let (ek, ep) = easing_code(*easing);
			format!("(TMod {} {} {} {} {} {} {})", id, f64_bits_z(*lo), f64_bits_z(*hi), b(*olo), b(*ohi), ek, z(ep))
		}
	}
}
fn cmds_term(c: &Cmds) -> String {
	format!(
		"{{| r_vol := {}; r_rate := {}; r_pan := {}; r_pause := {}; r_resume := {}; r_stop := {} |}}",
		opt(&c.vol, |(t, w)| format!("({}, {})", tgt_term(t, false), tw_term(w))),
		opt(&c.rate, |(t, w)| format!("({}, {})", tgt_term(t, true), tw_term(w))),
		opt(&c.pan, |(t, w)| format!("({}, {})", tgt_term(t, false), tw_term(w))),
		opt(&c.pause, tw_term),
		opt(&c.resume, |(s, w)| format!("({}, {})", start_term(s), tw_term(w))),
		opt(&c.stop, tw_term)
	)
}
fn term(sc: &Scenario, fast: bool, decs: &[u64], tab: &[(u32, u32, u32)]) -> String {
	let mut t: Vec<(u32, u32, u32)> = tab.to_vec();
	t.sort();
	t.dedup();
	let mut evs = vec![];
	for (k, cb) in sc.cbs.iter().enumerate() {
		evs.push(format!("RDec {}", decs.get(k).copied().unwrap_or(0)));
		evs.push(format!("RStart {}", cmds_term(&cb.cmds)));
		for len in &cb.lens {
			evs.push(format!(
				"RProc {} {} [{}] [{}]",
				len,
				f64_bits_z(sc.dt),
				cb.clocks.iter().map(|(p, t, k, f)| format!("({}, {}, {}, {})", *p as u8, *t as u8, k, f64_bits_z(*f))).collect::<Vec<_>>().join("; "),
				cb.mods.iter().map(|(p, v)| format!("({}, {})", *p as u8, f64_bits_z(*v))).collect::<Vec<_>>().join("; ")
			));
		}
	}
	format!(
		"CPair {} {} [{}] {} {} {} {} {} {} {} {} [{}] {} [{}] [{}]",
		fast,
		sc.sr,
		sc.frames.iter().map(|(l, r)| format!("({}, {})", l, r)).collect::<Vec<_>>().join("; "),
		opt(&sc.slice, |(a, b)| format!("({}, {})", a, b)),
		pos_term(sc.start),
		opt(&sc.lp, |(s, e)| format!("({}, {})", pos_term(*s), end_term(*e))),
		start_term(&sc.st),
		tgt_term(&sc.vol, false),
		tgt_term(&sc.rate, true),
		tgt_term(&sc.pan, false),
		opt(&sc.fade_in, tw_term),
		sc.packets.iter().map(|p| p.to_string()).collect::<Vec<_>>().join("; "),
		sc.gran,
		evs.join("; "),
		t.iter().map(|(a, b, c)| format!("({}, {}, {})", a, b, c)).collect::<Vec<_>>().join("; ")
	)
}

// ------------------------------------------------------------------------------------------
// running one scenario on the real code (both sounds side by side)
// ------------------------------------------------------------------------------------------
#[derive(Clone, Debug, Default)]
struct Side {
	/// per callback: position reported after on_start_processing, state then
	pos: Vec<(f64, PlaybackState)>,
	/// per process call: (callback, output, state after, finished)
	calls: Vec<(usize, Vec<Frame>, PlaybackState, bool)>,
	obs: Vec<i128>,
}
struct Trace {
	st: Side,
	sm: Side,
	tab: Vec<(u32, u32, u32)>,
	panicked: Option<i128>,
	/// decoder-loop iterations the model is to run before each callback
	decs: Vec<u64>,
	/// the harness's own bookkeeping says the decoder kept ahead throughout (paced mode: exact; free mode: by construction)
	ahead: bool,
	/// (position, state) of the static and of the streaming handle before the first callback
	initial: Option<((f64, PlaybackState), (f64, PlaybackState))>,
	/// iterations of the decoder loop (an upper bound of the frames pushed; above the ring size the ring wrapped around)
	iters: u64,
}

fn frames_of(sc: &Scenario) -> Vec<Frame> {
	sc.frames.iter().map(|(l, r)| Frame::new(f32::from_bits(*l), f32::from_bits(*r))).collect()
}
fn static_data(ids: &Ids, sc: &Scenario) -> StaticSoundData {
	let mut settings = StaticSoundSettings::new().start_time(mk_start(ids, &sc.st)).start_position(mk_pos(sc.start));
	settings.loop_region = sc.lp.map(|(s, e)| mk_region(s, e));
	settings.volume = mk_db(ids, &sc.vol);
	settings.playback_rate = mk_rate(ids, &sc.rate);
	settings.panning = mk_pan(ids, &sc.pan);
	settings.fade_in_tween = sc.fade_in.as_ref().map(|t| mk_tween(ids, t));
	StaticSoundData { sample_rate: sc.sr, frames: Arc::from(frames_of(sc)), settings, slice: sc.slice }
}
fn streaming_data(ids: &Ids, sc: &Scenario, ctl: &Arc<Ctl>) -> StreamingSoundData<i128> {
	let dec = ScriptDecoder { sr: sc.sr, frames: Arc::new(frames_of(sc)), packets: Arc::new(sc.packets.clone()), gran: sc.gran, cursor: 0, ctl: ctl.clone() };
	let mut settings = StreamingSoundSettings::new().start_time(mk_start(ids, &sc.st)).start_position(mk_pos(sc.start));
	settings.loop_region = sc.lp.map(|(s, e)| mk_region(s, e));
	settings.volume = mk_db(ids, &sc.vol);
	settings.playback_rate = mk_rate(ids, &sc.rate);
	settings.panning = mk_pan(ids, &sc.pan);
	settings.fade_in_tween = sc.fade_in.as_ref().map(|t| mk_tween(ids, t));
	let mut d = StreamingSoundData::from_decoder(dec).with_settings(settings);
	d.slice = sc.slice;
	d
}

/// upper bound of the rate values a `Tgt` can produce
fn tgt_max(t: &Tgt) -> f64 {
	match t {
		Tgt::Fixed(x) => *x,
		Tgt::Mod { olo, ohi, .. } => olo.max(*ohi),
	}
}
fn rate_bound(sc: &Scenario) -> f64 {
	let mut m = tgt_max(&sc.rate).max(1.0);
	for cb in &sc.cbs {
		if let Some((t, _)) = &cb.cmds.rate {
			m = m.max(tgt_max(t));
		}
	}
	m
}
/// upper bound of the ring entries one callback can pop
fn pops_bound(sc: &Scenario, cb: &Cb, rmax: f64) -> i64 {
	let frames: usize = cb.lens.iter().sum();
	(frames as f64 * sc.sr as f64 * rmax * sc.dt * 1.000001).ceil() as i64 + cb.lens.len() as i64 + 2
}

/// paced mode with a constant rate: the exact pops of each frame of a process call (the code's own f64 arithmetic)
fn exact_pops(sc: &Scenario, fpos: &mut f64, len: usize) -> Vec<u64> {
	let rate = match &sc.rate {
		Tgt::Fixed(x) => *x,
		_ => unreachable!(),
	};
	let mut v = vec![];
	for _ in 0..len {
		*fpos += sc.sr as f64 * rate.max(0.0) * sc.dt;
		let mut k = 0;
		while *fpos >= 1.0 {
			*fpos -= 1.0;
			k += 1;
		}
		v.push(k);
	}
	v
}

fn apply_cmds<E>(ids: &Ids, c: &Cmds, hs: &mut StaticSoundHandle, hy: &mut StreamingSoundHandle<E>) {
	if let Some((t, w)) = &c.vol {
		hs.set_volume(mk_db(ids, t), mk_tween(ids, w));
		hy.set_volume(mk_db(ids, t), mk_tween(ids, w));
	}
	if let Some((t, w)) = &c.rate {
		hs.set_playback_rate(mk_rate(ids, t), mk_tween(ids, w));
		hy.set_playback_rate(mk_rate(ids, t), mk_tween(ids, w));
	}
	if let Some((t, w)) = &c.pan {
		hs.set_panning(mk_pan(ids, t), mk_tween(ids, w));
		hy.set_panning(mk_pan(ids, t), mk_tween(ids, w));
	}
	if let Some(w) = &c.pause {
		hs.pause(mk_tween(ids, w));
		hy.pause(mk_tween(ids, w));
	}
	if let Some((s, w)) = &c.resume {
		hs.resume_at(mk_start(ids, s), mk_tween(ids, w));
		hy.resume_at(mk_start(ids, s), mk_tween(ids, w));
	}
	if let Some(w) = &c.stop {
		hs.stop(mk_tween(ids, w));
		hy.stop(mk_tween(ids, w));
	}
}

fn push_out(obs: &mut Vec<i128>, buf: &[Frame], st: PlaybackState, fin: bool) {
	for f in buf {
		obs.push(obs32(f.left));
		obs.push(obs32(f.right));
	}
	obs.push(state_code(st));
	obs.push(fin as i128);
}

/// creates the streaming sound with its decoder thread under the control of a fresh `Ctl`
fn spawn_streaming(ids: &Ids, sc: &Scenario, mode: Mode) -> (Arc<Ctl>, StreamingSoundData<i128>) {
	let ctl = Ctl::new(mode);
	let data = streaming_data(ids, sc, &ctl);
	*pending().lock().unwrap() = Some(ctl.clone());
	all_ctls().lock().unwrap().push(ctl.clone());
	(ctl, data)
}

/// both sounds as `Box<dyn Sound>`
fn run_direct(ids: &Ids, sc: &Scenario) -> Trace {
	let _ = kira::verif::take_powf32_log();
	let paced = sc.lead != Lead::Free;
	let (ctl, ydata) = spawn_streaming(ids, sc, if paced { Mode::Paced } else { Mode::Free });
	let ctl2 = ctl.clone();
	let mut decs: Vec<u64> = vec![];
	let mut ahead = true;
	let mut st = Side::default();
	let mut sm = Side::default();
	let mut created = false;
	let mut initial = None;
	let r = catch(|| {
		let (mut xs, mut hs) = static_data(ids, sc).into_sound().unwrap();
		let (mut ys, mut hy) = ydata.into_sound().unwrap();
		created = true;
		// what the handles report before the first callback
		st.obs.push(obs64(hs.position()));
		st.obs.push(state_code(hs.state()));
		sm.obs.push(obs64(hy.position()));
		sm.obs.push(state_code(hy.state()));
		initial = Some(((hs.position(), hs.state()), (hy.position(), hy.state())));
		st.obs.push(0);
		sm.obs.push(0);
		let rmax = rate_bound(sc);
		// free mode bookkeeping: a lower bound of the ring's entries; paced mode: the exact number
		let mut lb: i64 = 1;
		let mut finished = false;
		let mut fpos = 0.0f64; // paced: mirror of fractional_position
		let mut starved_before = false;
		if paced {
			ctl.wait_arrival();
		}
		for (cbi, cb) in sc.cbs.iter().enumerate() {
			apply_cmds(ids, &cb.cmds, &mut hs, &mut hy);
			// ---- the decoder keeps ahead (or, paced Starve, deliberately does not)
			if !paced {
				let need = pops_bound(sc, cb, rmax) + 4;
				assert!(need < RING - 8);
				while !finished && lb < need {
					if ctl.wait_full_or_end() {
						finished = true;
					} else {
						lb = RING;
					}
				}
				lb -= need - 4;
				decs.push((need as u64).min(RING as u64));
			} else {
				// exact pops of every frame of this callback
				let mut f2 = fpos;
				let mut r_min: i64 = 0; // least ring length at the start of the callback with which no frame is starved
				let mut popped: i64 = 0;
				for len in &cb.lens {
					for k in exact_pops(sc, &mut f2, *len) {
						r_min = r_min.max(popped + (k as i64).max(4));
						popped += k as i64;
					}
				}
				let target = match sc.lead {
					Lead::Tight => r_min,
					Lead::Generous => r_min + (cbi as i64 * 7 + 3) % 23,
					_ => {
						if cbi % 3 == 1 {
							(r_min - 1 - (cbi as i64 % 3)).max(0)
						} else {
							r_min + 1
						}
					}
				};
				let g = if sc.lead == Lead::Script { cb.grant } else { (target - lb).max(0) as u64 };
				ctl.grant(g);
				decs.push(g);
				if ctl.ended() {
					finished = true;
				}
				lb += g as i64; // exact unless the thread ended (then the ring holds all there is)
				if !finished && lb < r_min {
					starved_before = true;
				}
				if starved_before {
					ahead = false;
				}
				// the ring after this callback (exact while nothing was starved)
				lb = (lb - popped).max(0);
				fpos = f2;
			}
			// ---- the callback
			xs.on_start_processing();
			ys.on_start_processing();
			st.pos.push((hs.position(), hs.state()));
			sm.pos.push((hy.position(), hy.state()));
			st.obs.push(obs64(hs.position()));
			st.obs.push(state_code(hs.state()));
			sm.obs.push(obs64(hy.position()));
			sm.obs.push(state_code(hy.state()));
			let info = build_info(ids, &cb.clocks, &cb.mods);
			for len in &cb.lens {
				let mut bx = vec![Frame::new(7.0, 7.0); *len];
				let mut by = vec![Frame::new(7.0, 7.0); *len];
				xs.process(&mut bx, sc.dt, &info);
				ys.process(&mut by, sc.dt, &info);
				push_out(&mut st.obs, &bx, hs.state(), xs.finished());
				push_out(&mut sm.obs, &by, hy.state(), ys.finished());
				st.calls.push((cbi, bx, hs.state(), xs.finished()));
				sm.calls.push((cbi, by, hy.state(), ys.finished()));
			}
		}
		ctl.set_free();
		drop(ys);
		drop(hy);
	});
	ctl2.set_free();
	let tab = kira::verif::take_powf32_log();
	let panicked = match r {
		Outcome::Ok(()) => None,
		Outcome::Panic(c) => Some(c),
		Outcome::Hang => Some(-1),
	};
	if panicked.is_some() && !created {
		// creation failed: the model predicts [1; code] for the side that panicked
		*pending().lock().unwrap() = None;
	}
	let iters = ctl2.iters.load(std::sync::atomic::Ordering::Relaxed);
	Trace { st, sm, tab, panicked, decs, ahead, initial, iters }
}

// ------------------------------------------------------------------------------------------
// monitors: the property itself, evaluated on the two implementation traces
// ------------------------------------------------------------------------------------------
fn num_frames_of(sc: &Scenario) -> usize {
	match sc.slice {
		Some((a, b)) => b.min(sc.frames.len()).saturating_sub(a),
		None => sc.frames.len(),
	}
}
fn monitors(s: &mut Session, desc: &str, sc: &Scenario, tr: &Trace) -> bool {
	let mut ok = true;
	let mut fail = |s: &mut Session, what: String| {
		if ok {
			s.fail(desc.to_string(), what, None);
		}
		ok = false;
	};
	if let Some(c) = tr.panicked {
		fail(s, format!("panic (code {c}) while driving the two sounds: {}", last_panic()));
		return false;
	}
	if !tr.ahead || sc.outside {
		return true; // outside the hypothesis (deliberately starved): model comparison only
	}
	// before the first callback: the same position and state
	if let Some(((ps, ss), (py, sy))) = tr.initial {
		if obs64(ps) != obs64(py) || ss != sy {
			fail(s, format!("before the first callback: static handle reports position {ps} state {ss:?}, streaming handle position {py} state {sy:?}"));
		}
	}
	// same output frames, same state and finished() after every process call
	for (k, (a, b)) in tr.st.calls.iter().zip(tr.sm.calls.iter()).enumerate() {
		for (i, (fa, fb)) in a.1.iter().zip(b.1.iter()).enumerate() {
			if obs32(fa.left) != obs32(fb.left) || obs32(fa.right) != obs32(fb.right) {
				fail(s, format!("process call {k} (callback {}), frame {i}: static sound emitted ({:?}, {:?}), streaming sound ({:?}, {:?})", a.0, fa.left, fa.right, fb.left, fb.right));
				break;
			}
		}
		if a.2 != b.2 {
			fail(s, format!("process call {k} (callback {}): static state {:?}, streaming state {:?}", a.0, a.2, b.2));
		}
		if a.3 != b.3 {
			fail(s, format!("process call {k} (callback {}): static finished() = {}, streaming finished() = {}", a.0, a.3, b.3));
		}
	}
	// same state at the start of every callback; positions within one frame until the sound ends
	let n = num_frames_of(sc) as f64;
	for (k, (a, b)) in tr.st.pos.iter().zip(tr.sm.pos.iter()).enumerate() {
		if a.1 != b.1 {
			fail(s, format!("callback {k}: static state {:?}, streaming state {:?} after on_start_processing", a.1, b.1));
		}
		let idx = a.0 * sc.sr as f64;
		let ended = a.1 == PlaybackState::Stopped || b.1 == PlaybackState::Stopped || idx >= n - 1e-9;
		if !ended {
			let d = (b.0 - a.0) * sc.sr as f64;
			if !(d >= -1e-9 && d <= 1.0 + 1e-9) {
				fail(s, format!("callback {k}: static position {} s (frame {}), streaming position {} s: {} frames apart", a.0, idx, b.0, d));
			}
		}
	}
	ok
}

// ------------------------------------------------------------------------------------------
// generators
// ------------------------------------------------------------------------------------------
fn gen_easing(r: &mut Rng) -> Easing {
	match r.below(7) {
		0 => Easing::InPowi(r.range(1, 4) as i32),
		1 => Easing::OutPowi(r.range(1, 4) as i32),
		2 => Easing::InOutPowi(r.range(1, 3) as i32),
		_ => Easing::Linear,
	}
}
fn gen_start(r: &mut Rng, frame_ns: u64) -> Start {
	match r.below(8) {
		0 => Start::Del(r.below(12) * frame_ns + r.below(2) * (frame_ns / 3)),
		1 => Start::Del((r.below(6) + 1) * 8 * frame_ns),
		2 | 3 => Start::Clk { clock: r.below(2) as usize, ticks: r.below(4), fr: if r.chance(1, 2) { 0.0 } else { 0.5 } },
		_ => Start::Imm,
	}
}
fn gen_tw(r: &mut Rng, allow_start: bool, frame_ns: u64) -> Tw {
	let dur_ns = match r.below(6) {
		0 => 0,
		1 => r.below(frame_ns.max(2) - 1),
		2 => (r.below(30) + 1) * frame_ns + frame_ns / 2,
		3 => (r.below(12) + 1) * 8 * frame_ns,
		_ => r.below(40 * frame_ns) + 1,
	};
	Tw { start: if allow_start && r.chance(1, 4) { gen_start(r, frame_ns) } else { Start::Imm }, dur_ns, easing: gen_easing(r) }
}
fn gen_clocks(r: &mut Rng, t: u64) -> Vec<(bool, bool, u64, f64)> {
	let present0 = !r.chance(1, 12);
	let present1 = present0 && r.chance(2, 3);
	vec![(present0, !r.chance(1, 6), t / 2, if t % 2 == 1 { 0.5 } else { 0.0 }), (present1, true, t / 5, 0.0)]
}
fn gen_sample(r: &mut Rng) -> u32 {
	match r.below(6) {
		0 => (r.range(-8, 8) as f32 / 8.0).to_bits(),
		1 => 0,
		_ => ((r.unit_f64() * 2.0 - 1.0) as f32).to_bits(),
	}
}
fn gen_frames(r: &mut Rng, n: usize) -> Vec<(u32, u32)> {
	if r.chance(1, 3) {
		(0..n).map(|i| {
			let f = indexed_frame(i);
			(f.left.to_bits(), f.right.to_bits())
		}).collect()
	} else {
		(0..n).map(|_| (gen_sample(r), gen_sample(r))).collect()
	}
}
fn gen_packets(r: &mut Rng, n: usize) -> Vec<usize> {
	let style = r.below(5);
	let mut v = vec![];
	let mut left = n;
	while left > 0 {
		let p = match style {
			0 => 1,
			1 => r.range(1, 3) as usize,
			2 => r.range(1, 9) as usize,
			3 => r.range(1, (n as i64).max(1)) as usize,
			_ => n, // one packet holds everything
		}
		.min(left)
		.max(1);
		v.push(p);
		left -= p;
	}
	v
}
/// sprinkles EMPTY packets (the `Decoder` contract allows them) into a packet script: at the very start, at the end of
/// the stream, in runs of 1-3 at random places, and around the packets that hold the given frames of interest (the
/// start position, the loop start and the frame before the loop end: where seeks land and where the loop wraps)
fn sprinkle_empties(r: &mut Rng, packets: &[usize], interest: &[usize]) -> Vec<usize> {
	let run = |r: &mut Rng| vec![0usize; r.range(1, 3) as usize];
	// packet numbers before which a run of empties goes
	let mut at: Vec<usize> = vec![];
	if r.chance(1, 2) {
		at.push(0);
	}
	if r.chance(1, 2) {
		at.push(packets.len());
	}
	for _ in 0..r.below(4) {
		at.push(r.below(packets.len() as u64 + 1) as usize);
	}
	for &f in interest {
		// the packet holding frame f, and the one after it
		let mut acc = 0;
		for (k, p) in packets.iter().enumerate() {
			if f < acc + p {
				if r.chance(2, 3) {
					at.push(k);
				}
				if r.chance(1, 2) {
					at.push(k + 1);
				}
				break;
			}
			acc += p;
		}
	}
	let mut out = vec![];
	for k in 0..=packets.len() {
		if at.contains(&k) {
			out.extend(run(r));
		}
		if k < packets.len() {
			out.push(packets[k]);
		}
	}
	out
}
fn gen_rate_value(r: &mut Rng, big: bool) -> f64 {
	match r.below(12) {
		0 => {
			if r.chance(1, 3) {
				-0.0 // a non-negative rate: stands still, forwards
			} else {
				0.0
			}
		}
		1 => 0.25,
		2 => 0.5,
		3 | 4 => 1.0,
		5 => 1.5,
		6 => 2.0,
		7 => 3.0,
		8 => r.unit_f64() * 4.0,
		9 => r.unit_f64(),
		10 => {
			if big {
				17.5 + r.below(100) as f64
			} else {
				4.75
			}
		}
		_ => 1.0 + r.dyadic_unit(4),
	}
}
fn gen_rate(r: &mut Rng, big: bool) -> Tgt {
	if r.chance(1, 10) {
		let a = gen_rate_value(r, false);
		let b = gen_rate_value(r, false);
		Tgt::Mod { id: r.below(2) as usize, lo: 0.0, hi: 1.0, olo: a, ohi: b, easing: gen_easing(r) }
	} else {
		Tgt::Fixed(gen_rate_value(r, big))
	}
}
fn gen_db(r: &mut Rng) -> Tgt {
	let v = |r: &mut Rng| match r.below(8) {
		0 | 1 | 2 => 0.0,
		3 => -6.0,
		4 => -60.0,
		5 => -75.0,
		6 => 3.5,
		_ => -(r.unit_f64() * 40.0),
	};
	if r.chance(1, 12) {
		Tgt::Mod { id: r.below(2) as usize, lo: 0.0, hi: 1.0, olo: v(r), ohi: v(r), easing: gen_easing(r) }
	} else {
		Tgt::Fixed(v(r))
	}
}
fn gen_pan(r: &mut Rng) -> Tgt {
	Tgt::Fixed(match r.below(8) {
		0 | 1 | 2 | 3 => 0.0,
		4 => -1.0,
		5 => 1.0,
		6 => 0.5,
		_ => r.unit_f64() * 2.4 - 1.2,
	})
}
fn gen_pos(r: &mut Rng, sr: u32, max: usize) -> Pos {
	let k = r.below(max as u64 + 1) as usize;
	if r.chance(1, 4) {
		Pos::Sec(k as f64 / sr as f64 + if r.chance(1, 2) { 0.0 } else { (r.unit_f64() - 0.5) / sr as f64 })
	} else {
		Pos::Smp(k)
	}
}

/// `model`: small enough for the Coq model; otherwise monitor-only sizes
fn gen_scenario(r: &mut Rng, model: bool, lead: Lead) -> Scenario {
	let (sr, dev) = *r.pick(&[(4u32, 4u32), (1, 1), (1000, 1000), (1000, 500), (48000, 48000), (44100, 48000), (22050, 44100), (8, 16), (48000, 44100)]);
	let dt = 1.0 / dev as f64;
	let frame_ns = (1_000_000_000u64 / dev as u64).max(1);
	// the history first (its length decides how long a sound is interesting)
	let paced_exact = lead != Lead::Free;
	let big = !model && !paced_exact;
	let rate = if paced_exact { Tgt::Fixed(gen_rate_value(r, false)) } else { gen_rate(r, big) };
	let ncb = if model { r.range(2, 6) as usize } else { r.range(3, 14) as usize };
	let mut budget: i64 = if model { 44 } else { i64::MAX };
	let mut cbs = vec![];
	for k in 0..ncb {
		let mut c = Cmds::default();
		if r.chance(1, 3) {
			match r.below(6) {
				0 => c.vol = Some((gen_db(r), gen_tw(r, true, frame_ns))),
				1 => c.pan = Some((gen_pan(r), gen_tw(r, true, frame_ns))),
				2 | 3 if !paced_exact => c.rate = Some((gen_rate(r, big), gen_tw(r, true, frame_ns))),
				_ => {
					c.vol = Some((gen_db(r), gen_tw(r, false, frame_ns)));
					c.pan = Some((gen_pan(r), gen_tw(r, false, frame_ns)));
				}
			}
		}
		if !paced_exact && r.chance(1, 3) {
			match r.below(10) {
				0 | 1 | 2 => c.pause = Some(gen_tw(r, true, frame_ns)),
				3 | 4 | 5 => c.resume = Some((if r.chance(1, 2) { gen_start(r, frame_ns) } else { Start::Imm }, gen_tw(r, false, frame_ns))),
				6 => c.stop = Some(gen_tw(r, true, frame_ns)),
				7 | 8 => {
					c.pause = Some(gen_tw(r, false, frame_ns));
					c.resume = Some((Start::Imm, gen_tw(r, false, frame_ns)));
				}
				_ => {
					c.stop = Some(gen_tw(r, false, frame_ns));
					c.pause = Some(gen_tw(r, false, frame_ns));
				}
			}
		}
		let mut lens = vec![];
		for _ in 0..r.range(1, 2) {
			let l = if model { *r.pick(&[1usize, 2, 3, 4, 5, 8]) } else { *r.pick(&[1usize, 2, 3, 5, 8, 16, 64, 100, 256]) };
			let l = (l as i64).min(budget.max(1)) as usize;
			budget -= l as i64;
			lens.push(l);
		}
		let m0 = !r.chance(1, 10);
		let mods = vec![(m0, r.dyadic_unit(3)), (m0 && r.chance(3, 4), r.unit_f64())];
		cbs.push(Cb { cmds: c, lens, clocks: gen_clocks(r, k as u64), mods, grant: 0 });
		if budget <= 0 {
			break;
		}
	}
	// source frames the history would consume at its first rate
	let total: usize = cbs.iter().map(|c| c.lens.iter().sum::<usize>()).sum();
	let consume = ((total as f64 * sr as f64 * dt * tgt_max(&rate).max(0.1)).ceil() as usize).clamp(1, 60_000);
	let n = match r.below(10) {
		0 => r.below(4) as usize,
		1 => r.range(1, 6) as usize,
		2 if !model => r.range(16000, 40000) as usize,
		// around what the history consumes: sometimes the sound ends inside it, sometimes not
		_ => (consume / 2 + r.below(consume as u64 + 2) as usize + 3).min(if model { 48 } else { 60_000 }),
	};
	let frames = gen_frames(r, n);
	let slice = if r.chance(1, 4) {
		let a = r.below(n as u64 + 1) as usize;
		let b = r.range(a as i64, n as i64) as usize;
		match r.below(8) {
			// reaching beyond the audio, inverted, starting beyond it: clipped to the audio by both sounds
			0 => Some((a, n + r.below(5) as usize + 1)),
			1 => Some((b, a)),
			2 => Some((n + r.below(3) as usize, n + 4)),
			_ => Some((a, b)),
		}
	} else {
		None
	};
	let nf = match slice {
		Some((a, b)) => b.min(n).saturating_sub(a),
		None => n,
	};
	let start = match r.below(6) {
		0 | 1 | 2 => Pos::Smp(0),
		3 => gen_pos(r, sr, nf + 3),
		_ => gen_pos(r, sr, nf.saturating_sub(1)),
	};
	let lp = match r.below(10) {
		0 | 1 | 2 => None,
		3 | 4 => Some((Pos::Smp(0), End::End)),
		5 => Some((gen_pos(r, sr, nf), End::End)),
		6 => {
			// possibly empty / inverted / beyond the end: must be handled alike
			Some((gen_pos(r, sr, nf + 2), End::Cus(gen_pos(r, sr, nf + 2))))
		}
		_ => {
			let a = r.below(nf as u64 + 1) as usize;
			let b = r.range(a as i64, nf as i64) as usize;
			Some((Pos::Smp(a), End::Cus(Pos::Smp(b))))
		}
	};
	let st = if !paced_exact && r.chance(1, 5) { gen_start(r, frame_ns) } else { Start::Imm };
	let fade_in = if r.chance(1, 6) { Some(gen_tw(r, false, frame_ns)) } else { None };
	let mut packets = gen_packets(r, n);
	if r.chance(1, 2) {
		// empty packets, in particular where the first seek lands and where the loop wraps
		let off = slice.map(|(a, _)| a).unwrap_or(0);
		let frame_of = |p: Pos| match p {
			Pos::Smp(k) => k,
			Pos::Sec(x) => (x * sr as f64).round().max(0.0) as usize,
		};
		let mut interest = vec![off + frame_of(start)];
		if let Some((ls, le)) = lp {
			interest.push(off + frame_of(ls));
			let e = match le {
				End::End => nf,
				End::Cus(p) => frame_of(p),
			};
			interest.push(off + e.saturating_sub(1));
		}
		packets = sprinkle_empties(r, &packets, &interest);
	}
	let gran = *r.pick(&[1usize, 1, 2, 3, 7, 1000]);
	let mut sc = Scenario { sr, dt, frames, slice, start, lp, st, vol: gen_db(r), rate, pan: gen_pan(r), fade_in, packets, gran, lead, cbs, outside: false };
	// keep a callback's consumption well inside the ring
	let rmax = rate_bound(&sc);
	for cb in &mut sc.cbs {
		while pops_bound(&sc_view(sr, dt), cb, rmax) + 4 >= RING - 64 && cb.lens.iter().sum::<usize>() > 1 {
			for l in &mut cb.lens {
				*l = (*l / 2).max(1);
			}
		}
	}
	sc
}
/// a scenario shell that carries only what `pops_bound` reads
fn sc_view(sr: u32, dt: f64) -> Scenario {
	Scenario { sr, dt, frames: vec![], slice: None, start: Pos::Smp(0), lp: None, st: Start::Imm, vol: Tgt::Fixed(0.0), rate: Tgt::Fixed(1.0), pan: Tgt::Fixed(0.0), fade_in: None, packets: vec![], gran: 1, lead: Lead::Free, cbs: vec![], outside: false }
}

fn key_of(t: &str) -> String {
	let mut h = 1469598103934665603u64;
	for b in t.bytes() {
		h = (h ^ b as u64).wrapping_mul(1099511628211);
	}
	format!("{h:x}")
}

fn describe(sc: &Scenario) -> String {
	if sc.frames.len() <= 48 {
		return format!("{:?}", sc);
	}
	// long audio: the frames are abbreviated (first 4 and an FNV hash); `subseed` regenerates the scenario
	let mut h = 1469598103934665603u64;
	for (l, r) in &sc.frames {
		h = (h ^ *l as u64).wrapping_mul(1099511628211);
		h = (h ^ *r as u64).wrapping_mul(1099511628211);
	}
	let mut c = sc.clone();
	c.frames.truncate(4);
	let mut p = c.packets.clone();
	p.truncate(12);
	c.packets = p;
	format!("[{} frames, fnv {h:x}, {} packets; first frames/packets shown] {:?}", sc.frames.len(), sc.packets.len(), c)
}

fn submit(s: &mut Session, ids: &Ids, kind: &str, sc: &Scenario, to_model: bool) -> Trace {
	let tr = run_direct(ids, sc);
	let fast = s.model_cases % 8 != 7;
	let t = term(sc, fast, &tr.decs, &tr.tab);
	let ok = monitors(s, &if to_model { t.clone() } else { describe(sc) }, sc, &tr);
	let nontrivial = sc.cbs.iter().any(|c| c.cmds.any()) || sc.lp.is_some() || sc.slice.is_some() || tr.st.calls.iter().any(|c| c.2 == PlaybackState::Stopped);
	if to_model && tr.panicked.is_none() {
		let mut obs = tr.st.obs.clone();
		obs.push(777777);
		obs.extend_from_slice(&tr.sm.obs);
		s.case(kind, t, &obs, if nontrivial { Some(key_of(&describe(sc))) } else { None });
	} else {
		s.eval_only(kind);
		if nontrivial {
			s.nontrivial.insert(key_of(&describe(sc)));
		}
	}
	if ok {
		s.count(if tr.ahead { "pairs_equal" } else { "pairs_starved_model_only" });
	}
	if tr.iters > 2 * RING as u64 {
		s.count("ring_wrapped_around");
	}
	for c in &tr.st.calls {
		s.count(&format!("state_{:?}", c.2));
		s.count(&format!("{}_{}", kind, if c.2 == PlaybackState::Stopped { "stopped_calls" } else { "live_calls" }));
	}
	tr
}

// ------------------------------------------------------------------------------------------
// through two real AudioManagers
// ------------------------------------------------------------------------------------------
fn manager_pair(s: &mut Session, ids: &Ids, r: &mut Rng) {
	let mut sc = gen_scenario(r, false, Lead::Free);
	fix_for_manager(&mut sc);
	let ibs = *r.pick(&[1usize, 3, 16, 128]);
	run_manager_pair(s, ids, &sc, ibs, "manager_pair");
}
/// a scenario for `run_direct` made playable by a real manager
fn fix_for_manager(sc: &mut Scenario) {
	// values linked to mock modulators / clocks cannot be resolved by a real manager: keep to fixed values and plain start times
	let fix = |t: &mut Tgt| {
		if let Tgt::Mod { olo, .. } = t {
			*t = Tgt::Fixed(*olo);
		}
	};
	let fix_start = |st: &mut Start| {
		if let Start::Clk { .. } = st {
			*st = Start::Imm;
		}
	};
	fix(&mut sc.vol);
	fix(&mut sc.rate);
	fix_start(&mut sc.st);
	for cb in &mut sc.cbs {
		for x in [&mut cb.cmds.vol, &mut cb.cmds.rate, &mut cb.cmds.pan] {
			if let Some((t, w)) = x {
				fix(t);
				fix_start(&mut w.start);
			}
		}
		for w in [&mut cb.cmds.pause, &mut cb.cmds.stop] {
			if let Some(w) = w {
				fix_start(&mut w.start);
			}
		}
		if let Some((st, w)) = &mut cb.cmds.resume {
			fix_start(st);
			fix_start(&mut w.start);
		}
	}
	if let Some(w) = &mut sc.fade_in {
		fix_start(&mut w.start);
	}
}
/// the static sound on one real `AudioManager`, the streaming sound on another, driven in lock step (one device callback
/// per `Cb`: `on_start_processing`, then `process` in chunks of the internal buffer size)
fn run_manager_pair(s: &mut Session, ids: &Ids, sc: &Scenario, ibs: usize, kind: &str) {
	let dev = (1.0 / sc.dt).round() as u32;
	let desc = format!("two managers (device rate {dev}, internal buffer {ibs}): {}", describe(sc));
	let (ctl, ydata) = spawn_streaming(ids, sc, Mode::Free);
	let ctl2 = ctl.clone();
	let mut diffs: Vec<String> = vec![];
	let res = catch(|| {
		let mut ms = simple_manager(dev, ibs);
		let mut my = simple_manager(dev, ibs);
		let mut hs = ms.play(static_data(ids, sc)).unwrap();
		let mut hy = my.play(ydata).unwrap();
		if obs64(hs.position()) != obs64(hy.position()) || hs.state() != hy.state() {
			diffs.push(format!("before the first callback: static handle reports position {} state {:?}, streaming handle position {} state {:?}", hs.position(), hs.state(), hy.position(), hy.state()));
		}
		let rmax = rate_bound(sc);
		let mut lb: i64 = 1;
		let mut finished = false;
		for (cbi, cb) in sc.cbs.iter().enumerate() {
			apply_cmds(ids, &cb.cmds, &mut hs, &mut hy);
			let need = pops_bound(sc, cb, rmax) + 4;
			while !finished && lb < need {
				if ctl.wait_full_or_end() {
					finished = true;
				} else {
					lb = RING;
				}
			}
			lb -= need - 4;
			let frames: usize = cb.lens.iter().sum();
			let a = ms.backend_mut().callback(frames, 2);
			let b = my.backend_mut().callback(frames, 2);
			if let Some(i) = (0..a.len()).find(|i| obs32(a[*i]) != obs32(b[*i])) {
				diffs.push(format!("callback {cbi}: output sample {i} (frame {}): static manager {:?}, streaming manager {:?}", i / 2, a[i], b[i]));
			}
			if hs.state() != hy.state() {
				diffs.push(format!("callback {cbi}: static state {:?}, streaming state {:?}", hs.state(), hy.state()));
			}
			let idx = hs.position() * sc.sr as f64;
			let ended = hs.state() == PlaybackState::Stopped || hy.state() == PlaybackState::Stopped || idx >= num_frames_of(sc) as f64 - 1e-9;
			let d = (hy.position() - hs.position()) * sc.sr as f64;
			if !ended && !(d >= -1e-9 && d <= 1.0 + 1e-9) {
				diffs.push(format!("callback {cbi}: static position {}, streaming position {}: {d} frames apart", hs.position(), hy.position()));
			}
			if ms.main_track().num_sounds() != my.main_track().num_sounds() {
				diffs.push(format!("callback {cbi}: {} sounds on the static manager's main track, {} on the streaming manager's", ms.main_track().num_sounds(), my.main_track().num_sounds()));
			}
		}
		ctl.set_free();
	});
	ctl2.set_free();
	s.eval_only(kind);
	match res {
		Outcome::Ok(()) => {
			if let Some(d) = diffs.first() {
				s.fail(desc, d.clone(), None);
			} else {
				s.count("pairs_equal");
			}
		}
		_ => s.fail(desc, format!("panic while driving the two managers: {}", last_panic()), None),
	}
}

/// the `*_refuted` witnesses of C09/Props.v on the implementation: each lies outside one clause of the guard, the
/// model says the two sounds differ there; the case goes to the model comparison, and whether the implementation
/// diverges as well is recorded
fn witnesses(s: &mut Session, ids: &Ids) {
	let frames8: Vec<(u32, u32)> = (1..=8).map(|k| ((k as f32).to_bits(), (-(k as f32)).to_bits())).collect();
	let plain = |len: usize| Cb { cmds: Cmds::default(), lens: vec![len], clocks: vec![], mods: vec![], grant: 0 };
	let base = |rate: f64, slice: Option<(usize, usize)>, start: usize, lead: Lead, cbs: Vec<Cb>| Scenario {
		sr: 4,
		dt: 0.25,
		frames: frames8.clone(),
		slice,
		start: Pos::Smp(start),
		lp: None,
		st: Start::Imm,
		vol: Tgt::Fixed(0.0),
		rate: Tgt::Fixed(rate),
		pan: Tgt::Fixed(0.0),
		fade_in: None,
		packets: vec![1, 2, 3, 2],
		gran: 2,
		lead,
		cbs,
		outside: true,
	};
	let mut set_rate_one = plain(3);
	set_rate_one.cmds.rate = Some((Tgt::Fixed(1.0), Tw { start: Start::Imm, dur_ns: 0, easing: Easing::Linear }));
	let list: Vec<(&str, Scenario)> = vec![
		// the decoder does not keep ahead: the starving lead of the paced mode on the witness's settings
		("starved", base(1.5, None, 0, Lead::Script, vec![Cb { grant: 3, ..plain(4) }, Cb { grant: 20, ..plain(4) }])),
		// the gap rule itself: one entry in the ring (not the seed), data not at its end, fraction 0.5: a silent chunk
		("gap_one_entry", base(0.5, None, 0, Lead::Script, vec![Cb { grant: 3, ..plain(7) }, Cb { grant: 0, ..plain(2) }, Cb { grant: 9, ..plain(2) }])),
		// a negative rate
		("negative_rate", base(-1.0, None, 4, Lead::Free, vec![plain(4)])),
	];
	// REGRESSION cases of the repaired findings F46 / F47, inside the guard now (monitors on, plain failures):
	// slices reaching beyond the audio, inverted, starting beyond it, empty; a rate of -0.0 followed by set_playback_rate(1.0)
	for (k, slice) in [(5usize, 11usize), (6, 2), (9, 20), (3, 3), (0, 100), (7, 8)].into_iter().enumerate() {
		for lead in [Lead::Free, Lead::Tight] {
			let mut sc = base(1.5, Some(slice), 0, lead, vec![plain(4), plain(4)]);
			sc.outside = false;
			let tr = submit(s, ids, &format!("regression_F46_slice_{k}"), &sc, true);
			if slice == (5, 11) && !tr.st.calls.first().map(|c| c.1.iter().map(|f| f.left).collect::<Vec<_>>() == vec![6.0, 8.0625, 0.0, 0.0]).unwrap_or(false) {
				s.fail(describe(&sc), "regression F46: the slice (5, 11) of 8 frames is not heard as [6.0, 8.0625, 0, 0]".into(), None);
			}
		}
	}
	for start in [2usize, 0, 5] {
		let mut sc = base(-0.0, None, start, Lead::Free, vec![set_rate_one.clone(), plain(3)]);
		sc.outside = false;
		let tr = submit(s, ids, "regression_F47_negative_zero_rate", &sc, true);
		if start == 2 && !tr.st.calls.first().map(|c| c.1.iter().map(|f| f.left).collect::<Vec<_>>() == vec![3.0, 3.4814816, 4.0]).unwrap_or(false) {
			s.fail(describe(&sc), "regression F47: rate -0.0 then 1.0 from frame 2 is not heard as [3.0, 3.4814816, 4.0] (forwards)".into(), None);
		}
	}
	// inside the guard: empty packets at the start, in runs, where the first seek lands, at the loop wrap, at the end
	for (k, (packets, gran, start, lp)) in [
		(vec![0usize, 0, 1, 0, 2, 0, 0, 0, 3, 0, 2, 0], 2usize, 1usize, Some((2usize, 6usize))),
		(vec![0, 3, 0, 0, 1, 0, 4, 0, 0], 3, 4, Some((0, 8))),
		(vec![2, 0, 0, 0, 2, 0, 2, 0, 2, 0, 0], 1, 0, None),
		(vec![0, 0, 0, 8], 7, 3, Some((3, 5))),
	]
	.into_iter()
	.enumerate()
	{
		for lead in [Lead::Free, Lead::Tight] {
			let mut sc = base(1.5, None, start, lead, vec![plain(4), plain(3), plain(5), plain(4)]);
			sc.packets = packets.clone();
			sc.gran = gran;
			sc.lp = lp.map(|(a, b)| (Pos::Smp(a), End::Cus(Pos::Smp(b))));
			sc.outside = false;
			submit(s, ids, &format!("empty_packets_{k}"), &sc, true);
		}
	}
	for (name, sc) in list {
		let tr = submit(s, ids, &format!("witness_{name}"), &sc, true);
		let differ = tr.st.calls.iter().zip(tr.sm.calls.iter()).any(|(a, b)| {
			a.2 != b.2 || a.1.iter().zip(b.1.iter()).any(|(x, y)| obs32(x.left) != obs32(y.left) || obs32(x.right) != obs32(y.right))
		});
		s.count(&format!("witness_{name}_{}", if differ { "diverges" } else { "does_not_diverge" }));
		if differ {
			let k = tr.st.calls.iter().zip(tr.sm.calls.iter()).position(|(a, b)| a.1.iter().zip(b.1.iter()).any(|(x, y)| obs32(x.left) != obs32(y.left))).unwrap_or(0);
			s.notes.push(format!(
				"outside the guard ({name}): static and streaming sound differ on the implementation as the model says, e.g. process call {k}: static {:?} streaming {:?}",
				tr.st.calls[k].1.iter().map(|f| f.left).collect::<Vec<_>>(),
				tr.sm.calls[k].1.iter().map(|f| f.left).collect::<Vec<_>>()
			));
		}
	}
}

// ------------------------------------------------------------------------------------------
// callbacks that START while the ring's read position stands at its last physical slot
// ------------------------------------------------------------------------------------------
// The frame ring has RING = 16384 physical slots; the consumer's read position is (entries popped so far) mod RING.
// When a callback starts with RING - 1 (mod RING) entries popped, the entries that `update_current_frame` and the first
// `next_frames` look at do not lie in one piece of memory: the "previous" frame is the last physical slot, the frame
// that is playing is slot 0 (`rtrb::ReadChunk::as_slices` returns two non-empty halves).  The property says nothing of
// the ring: the position reported at that callback has to be the static sound's like at any other.  A history whose
// callback boundaries fall anywhere hits such a boundary once in 16384 callbacks or never (equal sample rates, rate 1,
// even buffer sizes: the popped count is even at every boundary), so these histories are BUILT to end callbacks there.
struct WrapCbs {
	cbs: Vec<Cb>,
	/// (number of the callback, entries popped before it) of every callback that starts at such a boundary
	at: Vec<(usize, u64)>,
	/// entries popped by all the callbacks together
	pops: u64,
}
/// Callbacks for a sound that plays from the first callback on at the fixed rate `rate`, never pauses and does not
/// end: the pops of every frame are computed with the code's own arithmetic (`exact_pops`), and a callback is cut short
/// right after the frame whose pops bring the total to RING - 1 modulo RING; `hits` such boundaries, then `tail` more
/// callbacks.  None: no boundary within `max_pops` entries (a rate above 1 can step over the value at every wrap-around).
fn wrap_cbs(r: &mut Rng, sr: u32, dt: f64, rate: f64, hits: usize, tail: usize, max_pops: u64, deco: bool) -> Option<WrapCbs> {
	let view = Scenario { rate: Tgt::Fixed(rate), ..sc_view(sr, dt) };
	let per = sr as f64 * rate.max(0.0) * dt;
	if !(per >= 0.01) {
		return None;
	}
	let frame_ns = ((dt * 1e9) as u64).max(1);
	// a callback pops about 4000 entries at most (a quarter of the ring)
	let max_len = ((4000.0 / per) as usize).clamp(1, 4000);
	let mut w = WrapCbs { cbs: vec![], at: vec![], pops: 0 };
	let mut fpos = 0.0f64;
	let mut hits_left = hits;
	let mut tail_left = tail;
	loop {
		let after_hits = hits_left == 0;
		if after_hits && tail_left == 0 {
			break;
		}
		let want = if after_hits {
			tail_left -= 1;
			*r.pick(&[1usize, 2, 5, 64, 100, 1000])
		} else {
			*r.pick(&[4000usize, 4000, 4000, 2000, 1000, 383, 256, 100, 64, 7, 1])
		}
		.min(max_len);
		let mut done = 0usize;
		let mut cut = false;
		while done < want && !cut {
			let k = exact_pops(&view, &mut fpos, 1)[0];
			done += 1;
			w.pops += k;
			if k > 0 && w.pops % RING as u64 == RING as u64 - 1 {
				cut = true;
			}
		}
		let lens = if done >= 2 && r.chance(1, 3) {
			let a = r.range(1, done as i64 - 1) as usize;
			vec![a, done - a]
		} else {
			vec![done]
		};
		let mut c = Cmds::default();
		if deco && r.chance(1, 4) {
			match r.below(3) {
				0 => c.vol = Some((gen_db(r), gen_tw(r, true, frame_ns))),
				1 => c.pan = Some((gen_pan(r), gen_tw(r, true, frame_ns))),
				_ => {
					c.vol = Some((gen_db(r), gen_tw(r, false, frame_ns)));
					c.pan = Some((gen_pan(r), gen_tw(r, false, frame_ns)));
				}
			}
		}
		let k = w.cbs.len() as u64;
		let (clocks, mods) = if deco { (gen_clocks(r, k), vec![(true, r.dyadic_unit(3)), (true, r.unit_f64())]) } else { (vec![], vec![]) };
		w.cbs.push(Cb { cmds: c, lens, clocks, mods, grant: 0 });
		if cut {
			// the NEXT callback starts at the boundary (there always is one: a hit is followed by the tail or by more hits)
			w.at.push((w.cbs.len(), w.pops));
			hits_left = hits_left.saturating_sub(1);
			if hits_left == 0 && tail_left == 0 {
				tail_left = 1;
			}
		}
		if w.pops > max_pops && hits_left > 0 {
			return None;
		}
	}
	Some(w)
}
/// what of the sound is drawn at random around a `wrap_cbs` history (`deco`), or kept plain
struct WrapScenario {
	sc: Scenario,
	at: Vec<(usize, u64)>,
	/// the static sound's position at a boundary callback is start + pops (no loop, no slice, start in samples)
	plain_positions: Option<usize>,
}
fn wrap_scenario(r: &mut Rng, sr: u32, dev: u32, rate: f64, hits: usize, max_pops: u64, deco: bool) -> Option<WrapScenario> {
	let dt = 1.0 / dev as f64;
	let tail = 2 + r.below(3) as usize;
	let w = wrap_cbs(r, sr, dt, rate, hits, tail, max_pops, deco)?;
	let need = w.pops as usize + 8;
	// the audio: long enough to be played through once, or shorter and looping (the ring carries on across the loop wrap)
	let (nf, lp, start) = if need + 500 <= 60_000 && r.chance(1, 2) {
		let start = if r.chance(1, 2) { 0 } else { r.below(40) as usize };
		(need + start + r.range(4, 400) as usize, None, start)
	} else {
		let nf = r.range(1200, 9000) as usize;
		let a = r.below(nf as u64 / 2) as usize;
		let (b, e) = if r.chance(1, 2) { (nf, End::End) } else {
			let b = r.range(a as i64 + 600, nf as i64) as usize;
			(b, End::Cus(Pos::Smp(b)))
		};
		(nf, Some((Pos::Smp(a), e)), r.below(b as u64 - 1) as usize)
	};
	let (n, slice) = if deco && r.chance(1, 4) {
		let off = r.range(1, 100) as usize;
		(off + nf + r.below(50) as usize, Some((off, off + nf)))
	} else {
		(nf, None)
	};
	let frames = if deco { gen_frames(r, n) } else {
		(0..n).map(|i| {
			let f = indexed_frame(i);
			(f.left.to_bits(), f.right.to_bits())
		}).collect()
	};
	// packets of tens to thousands of frames (the scripted decoder finds a packet's start by summing: keep them few)
	let mut packets = vec![];
	let style = r.below(4);
	let fixed = *r.pick(&[64usize, 480, 1000, 4096]);
	let mut left = n;
	while left > 0 {
		let p = match style {
			0 => fixed,
			1 => r.range(100, 2000) as usize,
			2 => n,
			_ => r.range(50, 300) as usize,
		}
		.min(left);
		packets.push(p);
		left -= p;
	}
	let gran = *r.pick(&[1usize, 1, 2, 3, 7]);
	let (vol, pan) = if deco { (gen_db(r), gen_pan(r)) } else { (Tgt::Fixed(0.0), Tgt::Fixed(0.0)) };
	let vol = match vol {
		Tgt::Mod { olo, .. } => Tgt::Fixed(olo),
		v => v,
	};
	let sc = Scenario { sr, dt, frames, slice, start: Pos::Smp(start), lp, st: Start::Imm, vol, rate: Tgt::Fixed(rate), pan, fade_in: None, packets, gran, lead: Lead::Free, cbs: w.cbs, outside: false };
	let plain_positions = if lp.is_none() { Some(start) } else { None };
	Some(WrapScenario { sc, at: w.at, plain_positions })
}
/// runs a boundary scenario on the two `Box<dyn Sound>` (and, `mgr`, on two managers); counts the boundaries reached
fn submit_wrap(s: &mut Session, ids: &Ids, kind: &str, ws: &WrapScenario, mgr: Option<usize>) {
	let tr = submit(s, ids, kind, &ws.sc, false);
	for (cb, pops) in &ws.at {
		s.count("callbacks_starting_at_the_last_ring_slot");
		// the bookkeeping is right: the static sound stands at start + pops there (sounds played straight through)
		if let (Some(start), Some((p, st))) = (ws.plain_positions, tr.st.pos.get(*cb)) {
			let idx = p * ws.sc.sr as f64;
			if *st != PlaybackState::Stopped && (idx - (start as f64 + *pops as f64)).abs() < 1.0 {
				s.count("callbacks_starting_at_the_last_ring_slot_confirmed_by_static_position");
			} else {
				s.count("callbacks_starting_at_the_last_ring_slot_NOT_confirmed");
				s.notes.push(format!("{kind}: callback {cb} was built to start with {pops} entries popped (start {start}), the static sound reports frame {idx} state {st:?}"));
			}
		}
	}
	if let Some(ibs) = mgr {
		let mut sc = ws.sc.clone();
		fix_for_manager(&mut sc);
		run_manager_pair(s, ids, &sc, ibs, &format!("{kind}_managers"));
		for _ in &ws.at {
			s.count("manager_callbacks_starting_at_the_last_ring_slot");
		}
	}
}
/// DIRECTED corpus, the same on every run (its own fixed generator state, not `args.seed`): callback boundaries at
/// 16383, 32767, 49151 .. popped entries for equal and unequal sample rates, rates below, at and above 1, plain and
/// looping sounds, as `Box<dyn Sound>` and through two managers
fn wrap_corpus(s: &mut Session, ids: &Ids) {
	let plain = |len: usize| Cb { cmds: Cmds::default(), lens: vec![len], clocks: vec![], mods: vec![], grant: 0 };
	// 40000 frames at 1 kHz, rate 1, packets of 480, callbacks of unequal sizes: the 4th, 5th, 10th and 11th end with
	// 16383, 16483 (no boundary), 32767 .. entries popped
	let n = 40_000usize;
	let lens = [4000usize, 4000, 4000, 4383, 100, 100, 3801, 4000, 4000, 4383, 100, 100];
	let mut packets = vec![480usize; n / 480];
	packets.push(n % 480);
	let sc = Scenario {
		sr: 1000,
		dt: 1.0 / 1000.0,
		frames: (0..n).map(|i| {
			let f = indexed_frame(i);
			(f.left.to_bits(), f.right.to_bits())
		}).collect(),
		slice: None,
		start: Pos::Smp(0),
		lp: None,
		st: Start::Imm,
		vol: Tgt::Fixed(0.0),
		rate: Tgt::Fixed(1.0),
		pan: Tgt::Fixed(0.0),
		fade_in: None,
		packets,
		gran: 1,
		lead: Lead::Free,
		cbs: lens.iter().map(|l| plain(*l)).collect(),
		outside: false,
	};
	let ws = WrapScenario { sc, at: vec![(4, 16383), (10, 32767)], plain_positions: Some(0) };
	submit_wrap(s, ids, "wrap_directed_unequal_callbacks", &ws, Some(128));
	let mut r = Rng::new(0xC09_16383);
	for (k, (sr, dev, rate, hits, mgr)) in [
		(48000u32, 48000u32, 1.0f64, 3usize, Some(128usize)),
		(48000, 48000, 1.5, 2, None),
		(44100, 48000, 1.0, 2, Some(16)),
		(22050, 44100, 1.0, 1, None),
		(48000, 44100, 1.0, 2, None),
		(4, 4, 3.0, 2, Some(3)),
		(1000, 500, 0.75, 1, None),
		(48000, 48000, 0.25, 1, None),
		(8, 16, 1.25, 2, None),
		(48000, 48000, 17.5, 1, None),
	]
	.into_iter()
	.enumerate()
	{
		match wrap_scenario(&mut r, sr, dev, rate, hits, 40 * RING as u64, k % 2 == 1) {
			Some(ws) => submit_wrap(s, ids, &format!("wrap_directed_{k}"), &ws, mgr),
			None => s.fail(format!("directed boundary history {k}: sound rate {sr}, device rate {dev}, playback rate {rate}"), "harness: no callback boundary with 16383 (mod 16384) entries popped found for these fixed settings".into(), None),
		}
	}
}
/// the same, drawn from the run's generator
fn wrap_random(s: &mut Session, ids: &Ids, r: &mut Rng, mgr: bool) {
	for _ in 0..8 {
		let (sr, dev) = *r.pick(&[(4u32, 4u32), (1000, 1000), (1000, 500), (48000, 48000), (48000, 48000), (44100, 48000), (22050, 44100), (8, 16), (48000, 44100)]);
		let rate = match r.below(10) {
			0 | 1 | 2 => 1.0,
			3 => 0.5,
			4 => 1.5,
			5 => 0.25 + r.dyadic_unit(4),
			6 => 0.2 + r.unit_f64() * 1.5,
			7 => 3.0,
			8 => 1.0 + r.dyadic_unit(3) * 4.0,
			_ => 5.0 + r.below(30) as f64 + r.dyadic_unit(1),
		};
		let hits = r.range(1, 3) as usize;
		if let Some(ws) = wrap_scenario(r, sr, dev, rate, hits, 12 * RING as u64, true) {
			let ibs = *r.pick(&[1usize, 3, 16, 128]);
			submit_wrap(s, ids, "pair_wrap", &ws, if mgr { Some(ibs) } else { None });
			return;
		}
		s.count("pair_wrap_no_boundary_for_this_rate");
	}
}

pub fn run(args: &Args) {
	let mut rng = Rng::new(args.seed ^ 0xC09);
	install_hook();
	if std::env::var("C09_DEBUG").is_ok() {
		std::panic::set_hook(Box::new(|info| eprintln!("C09 panic: {info}")));
	}
	let mul = args.budget_mul;
	let n_model: u64 = (if args.thorough { 6_000 } else { 500 }) * mul;
	let n_paced: u64 = (if args.thorough { 2_400 } else { 200 }) * mul;
	let n_big: u64 = (if args.thorough { 15_000 } else { 1_200 }) * mul;
	let n_mgr: u64 = (if args.thorough { 4_000 } else { 300 }) * mul;
	let n_wrap: u64 = (if args.thorough { 600 } else { 64 }) * mul;
	let mut s = Session::new(
		"C09",
		&args.out,
		"From Coq Require Import ZArith List. Import ListNotations. Open Scope Z_scope.\nFrom KV Require Import Base.Corr C06.Run C09.Run.\nModule R4 := KV.C04.Run.",
		"run",
		24,
		"one case = one frame vector (random / index-coded samples; 0-48 frames for model cases, up to 60000 for monitor-only ones), settings (sound and device rates, start position in samples or seconds incl. beyond the end, slice, loop region incl. empty / inverted / beyond the end, start time, volume / rate / panning fixed or modulator-linked, fade-in), a scripted decoder over the same vector (packet sizes 1..all, seek granularity 1..1000 packets), and a history of callbacks (1-2 process calls of 1-256 frames) with volume / rate / panning / pause / resume / resume_at / stop commands; the real static and the real streaming sound (real decoder thread, kept ahead through the decode_scheduler yield points: free-running, or paced with exactly tight / generous / starving leads) are driven side by side as Box<dyn Sound> (and through two real AudioManagers); monitors = the property (position and state before the first callback identical; outputs bit-identical, states and finished() identical after every call, state identical after every on_start_processing, positions within one frame until the end); model cases compare both traces with the Coq model bit for bit (every 8th without the checked fast paths); the *_refuted witnesses of the Coq development are replayed; a directed corpus (identical on every run) and seeded histories end callbacks exactly where 16383 (mod 16384) ring entries have been popped (the next callback reads the ring across its physical end; equal and unequal sample rates, rates 0.2..35, plain and looping sounds, both drivers), counted under callbacks_starting_at_the_last_ring_slot; distinct = distinct scenarios with a command, loop, slice or natural end",
	);
	let ids = ids();
	// 0. directed, the same on every run: callbacks that start while the ring's read position stands at its last slot
	let t_wrap = Instant::now();
	wrap_corpus(&mut s, &ids);
	if std::env::var("C09_DEBUG").is_ok() {
		eprintln!("C09: directed boundary corpus {:?}", t_wrap.elapsed());
	}
	// 1. model cases, free-running decoder
	for _ in 0..n_model {
		let sc = gen_scenario(&mut rng, true, Lead::Free);
		submit(&mut s, &ids, "pair_free", &sc, true);
	}
	// 2. model cases, paced decoder: exactly tight, generous, starving leads
	for i in 0..n_paced {
		let lead = match i % 4 {
			0 | 1 => Lead::Tight,
			2 => Lead::Generous,
			_ => Lead::Starve,
		};
		let sc = gen_scenario(&mut rng, true, lead);
		submit(&mut s, &ids, &format!("pair_paced_{lead:?}"), &sc, true);
	}
	// 3. monitor-only: long sounds, large rates, big buffers (ring wrap-around, refills while playing)
	for _ in 0..n_big {
		let sc = gen_scenario(&mut rng, false, Lead::Free);
		submit(&mut s, &ids, "pair_big", &sc, false);
	}
	// 3a. heavy consumers: tens of thousands of frames per case, so that the 16384-entry ring wraps around several
	// times and is refilled while the sound plays
	for _ in 0..(n_big / 20) {
		let mut sc = gen_scenario(&mut rng, false, Lead::Free);
		sc.rate = Tgt::Fixed(20.0 + rng.below(40) as f64 + rng.dyadic_unit(2));
		sc.dt = 1.0 / sc.sr as f64;
		sc.st = Start::Imm;
		for cb in &mut sc.cbs {
			cb.cmds.rate = None;
			cb.cmds.stop = None;
			cb.lens = vec![*rng.pick(&[64usize, 100, 256])];
		}
		if sc.lp.is_none() && sc.frames.len() > 8 {
			sc.lp = Some((Pos::Smp(1), End::End));
		}
		submit(&mut s, &ids, "pair_heavy", &sc, false);
	}
	// 3a'. callback boundaries at 16383 (mod 16384) popped entries, drawn from the run's generator (every 4th also through
	// two managers)
	let t_wrap = Instant::now();
	for i in 0..n_wrap {
		wrap_random(&mut s, &ids, &mut rng, i % 4 == 3);
	}
	if std::env::var("C09_DEBUG").is_ok() {
		eprintln!("C09: seeded boundary histories {:?}", t_wrap.elapsed());
	}
	// 3b. the Coq witnesses (`*_refuted`) replayed on the real code: outside the guard the two sounds do differ
	witnesses(&mut s, &ids);
	// 4. through two real managers
	for _ in 0..n_mgr {
		manager_pair(&mut s, &ids, &mut rng);
	}
	// every decoder thread must have ended now that its sound is gone (C10 proves it; checked here because a
	// thread left behind would also mean a control block that no longer reports)
	let t0 = Instant::now();
	loop {
		let live = all_ctls().lock().unwrap().iter().filter(|c| !c.ended()).count();
		if live == 0 {
			break;
		}
		if t0.elapsed() > Duration::from_secs(5) {
			s.fail(format!("{live} of {} streaming sounds", all_ctls().lock().unwrap().len()), "decoder threads still alive 5 s after their sounds were dropped".into(), None);
			break;
		}
		std::thread::sleep(Duration::from_millis(1));
	}
	kira::verif::set_yield_hook(None);
	s.finish();
}
