//! C17 — modulators produce their configured curves; linked parameters follow in-chunk.
//! A real `AudioManager<VBackend>` is driven through whole histories (modulators / clocks /
//! probes added, commands, drops, callbacks of any size).  Observation is exact: probe effects
//! (public `Effect` trait) on sub-tracks record `info.modulator_value(id)`, the value of a
//! `Parameter<f64>` linked through `Value::FromModulator`, and `info.clock_info`; probe modulators
//! (public `Modulator` trait) record every `update` call with its `dt` and what they read.
//! Strengthened (see the three sections before `run`): (A) a tweener's command histories with delayed and
//! clock-timed starts, sets to the present value / previous target / initial value, overwritten sets, read once per
//! chunk and compared bit for bit with the tween law; (B) listeners whose position is linked to a modulator or waits
//! for a clock time, read IN THE SAME CHUNK by probe effects on spatial tracks (`listener_info`, `listener_distance`);
//! (C) `add_modulator` + a reader linked to it created inside one `Renderer::on_start_processing` at every point
//! where user code runs there (hook effects / sounds / modulators): the reader follows the modulator for ever.
use crate::backend::*;
use crate::util::*;
use kira::clock::{ClockHandle, ClockId, ClockSpeed};
use kira::effect::Effect;
use kira::info::Info;
use kira::modulator::lfo::{LfoBuilder, LfoHandle, Waveform};
use kira::modulator::tweener::{TweenerBuilder, TweenerHandle};
use kira::modulator::{Modulator, ModulatorBuilder, ModulatorId};
use kira::track::{MainTrackBuilder, TrackBuilder, TrackHandle};
use kira::{Capacities, Decibels, Easing, Frame, Mapping, Parameter, StartTime, Tween, Value};
use std::collections::BTreeMap;
use std::f64::consts::TAU;
use std::sync::atomic::{AtomicBool, Ordering};
use std::sync::{Arc, Mutex};
use std::time::Duration;

// ------------------------------------------------------------------------------------------
// scenario syntax
// ------------------------------------------------------------------------------------------
#[derive(Clone, Debug)]
enum Val {
	Fixed(f64),
	Mod { id: usize, lo: f64, hi: f64, olo: f64, ohi: f64, e: Easing },
}
#[derive(Clone, Debug)]
struct Tw {
	delay_ns: i64, // < 0: StartTime::Immediate
	dur_ns: u64,
	e: Easing,
}
#[derive(Clone, Copy, Debug, PartialEq)]
enum Wave {
	Sine,
	Triangle,
	Saw,
	Pulse(f64),
}
#[derive(Clone, Debug)]
enum Op {
	AddLfo { w: Wave, f: Val, a: Val, o: Val, phase: f64 },
	AddTweener { init: f64 },
	/// watch: -1 nothing, -2 its own id, otherwise a modulator index
	AddProbeMod { watch: i64 },
	Drop { id: usize },
	SetTweener { id: usize, target: f64, tw: Tw },
	SetLfoParam { id: usize, which: u8, target: Val, tw: Tw },
	SetPhase { id: usize, phase: f64 },
	SetWave { id: usize, w: Wave },
	AddClock { speed: Val },
	AddProbe { watch: usize, v: Val },
	AddClockProbe { cid: usize },
	/// DC sound on a sub-track whose VOLUME (track: false = the sound's, true = the track's) is
	/// linked to modulator `watch` (monitor only, not sent to the model)
	AddDcSound { watch: usize, lo: f64, hi: f64, db_lo: f32, db_hi: f32, track: bool },
	Cb { frames: usize },
}
#[derive(Clone, Debug)]
struct Scen {
	sr: u32,
	ibs: usize,
	ops: Vec<Op>,
}

#[derive(Clone, Debug)]
enum Ev {
	Mod { id: usize, dt: f64, seen: Option<f64> },
	Probe { pid: usize, len: usize, raw: Option<f64>, v: f64 },
	ProbeClock { pid: usize, len: usize, info: Option<(bool, u64, f64)> },
}
type Log = Arc<Mutex<Vec<Ev>>>;

// ------------------------------------------------------------------------------------------
// probes (ordinary user code on top of the public traits)
// ------------------------------------------------------------------------------------------
struct ProbeModBuilder {
	idx: usize,
	watch: i64,
	ids: Vec<ModulatorId>,
	log: Log,
}
struct ProbeModHandle {
	id: ModulatorId,
	removed: Arc<AtomicBool>,
}
impl Drop for ProbeModHandle {
	fn drop(&mut self) {
		self.removed.store(true, Ordering::SeqCst);
	}
}
struct ProbeMod {
	idx: usize,
	watch: Option<ModulatorId>,
	count: u64,
	log: Log,
	removed: Arc<AtomicBool>,
}
impl ModulatorBuilder for ProbeModBuilder {
	type Handle = ProbeModHandle;
	fn build(self, id: ModulatorId) -> (Box<dyn Modulator>, ProbeModHandle) {
		let removed = Arc::new(AtomicBool::new(false));
		let watch = match self.watch {
			-1 => None,
			-2 => Some(id),
			k => Some(self.ids[k as usize]),
		};
		(Box::new(ProbeMod { idx: self.idx, watch, count: 0, log: self.log, removed: removed.clone() }), ProbeModHandle { id, removed })
	}
}
impl Modulator for ProbeMod {
	fn update(&mut self, dt: f64, info: &Info) {
		let seen = self.watch.and_then(|w| info.modulator_value(w));
		self.count += 1;
		self.log.lock().unwrap().push(Ev::Mod { id: self.idx, dt, seen });
	}
	fn value(&self) -> f64 {
		self.count as f64
	}
	fn finished(&self) -> bool {
		self.removed.load(Ordering::SeqCst)
	}
}

enum ProbeKind {
	Param { watch: ModulatorId, param: Parameter<f64> },
	Clock { cid: ClockId },
}
struct ProbeEffect {
	pid: usize,
	kind: ProbeKind,
	log: Log,
}
impl Effect for ProbeEffect {
	fn process(&mut self, input: &mut [Frame], dt: f64, info: &Info) {
		let len = input.len();
		match &mut self.kind {
			ProbeKind::Param { watch, param } => {
				let raw = info.modulator_value(*watch);
				param.update(dt * len as f64, info);
				self.log.lock().unwrap().push(Ev::Probe { pid: self.pid, len, raw, v: param.value() });
			}
			ProbeKind::Clock { cid } => {
				let ci = info.clock_info(*cid).map(|c| (c.ticking, c.time.ticks, c.time.fraction));
				self.log.lock().unwrap().push(Ev::ProbeClock { pid: self.pid, len, info: ci });
			}
		}
	}
}

enum ModHandle {
	Lfo(LfoHandle),
	Tweener(TweenerHandle),
	Probe(ProbeModHandle),
}

fn to_value(v: &Val, ids: &[ModulatorId]) -> Value<f64> {
	match v {
		Val::Fixed(x) => Value::Fixed(*x),
		Val::Mod { id, lo, hi, olo, ohi, e } => {
			Value::FromModulator { id: ids[*id], mapping: Mapping { input_range: (*lo, *hi), output_range: (*olo, *ohi), easing: *e } }
		}
	}
}
fn to_speed(v: &Val, ids: &[ModulatorId]) -> Value<ClockSpeed> {
	match v {
		Val::Fixed(x) => Value::Fixed(ClockSpeed::TicksPerSecond(*x)),
		Val::Mod { id, lo, hi, olo, ohi, e } => Value::FromModulator {
			id: ids[*id],
			mapping: Mapping { input_range: (*lo, *hi), output_range: (ClockSpeed::TicksPerSecond(*olo), ClockSpeed::TicksPerSecond(*ohi)), easing: *e },
		},
	}
}
fn to_tween(t: &Tw) -> Tween {
	Tween {
		start_time: if t.delay_ns < 0 { StartTime::Immediate } else { StartTime::Delayed(Duration::from_nanos(t.delay_ns as u64)) },
		duration: Duration::from_nanos(t.dur_ns),
		easing: t.e,
	}
}
fn to_wave(w: Wave) -> Waveform {
	match w {
		Wave::Sine => Waveform::Sine,
		Wave::Triangle => Waveform::Triangle,
		Wave::Saw => Waveform::Saw,
		Wave::Pulse(width) => Waveform::Pulse { width },
	}
}

struct DcInfo {
	watch: usize,
	lo: f64,
	hi: f64,
	db_lo: f32,
	db_hi: f32,
	added_at_cb: usize,
	_track: TrackHandle,
}
struct Trace {
	log: Vec<Ev>,
	/// for each DC sound: the frames of every callback after it was added, concatenated per callback
	dc: Vec<(DcInfo, Vec<Vec<f32>>)>,
}

/// run one history on the real code
fn execute(sc: &Scen) -> Trace {
	let log: Log = Arc::new(Mutex::new(vec![]));
	let caps = Capacities { sub_track_capacity: 128, send_track_capacity: 4, clock_capacity: 16, modulator_capacity: 32, listener_capacity: 2 };
	let mut mgr = manager(sc.sr, sc.ibs, caps, MainTrackBuilder::new());
	let mut ids: Vec<ModulatorId> = vec![];
	let mut handles: Vec<Option<ModHandle>> = vec![];
	let mut clocks: Vec<ClockHandle> = vec![];
	let mut tracks: Vec<TrackHandle> = vec![];
	let mut npid = 0usize;
	let mut dc: Vec<(DcInfo, Vec<Vec<f32>>)> = vec![];
	let mut ncb = 0usize;
	for op in &sc.ops {
		match op {
			Op::AddLfo { w, f, a, o, phase } => {
				let b = LfoBuilder::new().waveform(to_wave(*w)).frequency(to_value(f, &ids)).amplitude(to_value(a, &ids)).offset(to_value(o, &ids)).starting_phase(*phase);
				let h = mgr.add_modulator(b).unwrap();
				ids.push(h.id());
				handles.push(Some(ModHandle::Lfo(h)));
			}
			Op::AddTweener { init } => {
				let h = mgr.add_modulator(TweenerBuilder { initial_value: *init }).unwrap();
				ids.push(h.id());
				handles.push(Some(ModHandle::Tweener(h)));
			}
			Op::AddProbeMod { watch } => {
				let h = mgr.add_modulator(ProbeModBuilder { idx: ids.len(), watch: *watch, ids: ids.clone(), log: log.clone() }).unwrap();
				ids.push(h.id);
				handles.push(Some(ModHandle::Probe(h)));
			}
			Op::Drop { id } => {
				handles[*id] = None;
			}
			Op::SetTweener { id, target, tw } => {
				if let Some(ModHandle::Tweener(h)) = &mut handles[*id] {
					h.set(*target, to_tween(tw));
				}
			}
			Op::SetLfoParam { id, which, target, tw } => {
				let v = to_value(target, &ids);
				if let Some(ModHandle::Lfo(h)) = &mut handles[*id] {
					match which {
						0 => h.set_frequency(v, to_tween(tw)),
						1 => h.set_amplitude(v, to_tween(tw)),
						_ => h.set_offset(v, to_tween(tw)),
					}
				}
			}
			Op::SetPhase { id, phase } => {
				if let Some(ModHandle::Lfo(h)) = &mut handles[*id] {
					h.set_phase(*phase);
				}
			}
			Op::SetWave { id, w } => {
				if let Some(ModHandle::Lfo(h)) = &mut handles[*id] {
					h.set_waveform(to_wave(*w));
				}
			}
			Op::AddClock { speed } => {
				let mut h = mgr.add_clock(to_speed(speed, &ids)).unwrap();
				h.start();
				clocks.push(h);
			}
			Op::AddProbe { watch, v } => {
				let param = Parameter::new(to_value(v, &ids), 0.0);
				let mut tb = TrackBuilder::new();
				tb.add_built_effect(Box::new(ProbeEffect { pid: npid, kind: ProbeKind::Param { watch: ids[*watch], param }, log: log.clone() }));
				tracks.push(mgr.add_sub_track(tb).unwrap());
				npid += 1;
			}
			Op::AddClockProbe { cid } => {
				let mut tb = TrackBuilder::new();
				tb.add_built_effect(Box::new(ProbeEffect { pid: npid, kind: ProbeKind::Clock { cid: clocks[*cid].id() }, log: log.clone() }));
				tracks.push(mgr.add_sub_track(tb).unwrap());
				npid += 1;
			}
			Op::AddDcSound { watch, lo, hi, db_lo, db_hi, track } => {
				let vol: Value<Decibels> =
					Value::FromModulator { id: ids[*watch], mapping: Mapping { input_range: (*lo, *hi), output_range: (Decibels(*db_lo), Decibels(*db_hi)), easing: Easing::Linear } };
				let mut tb = TrackBuilder::new();
				if *track {
					tb = tb.volume(vol);
				}
				let mut th = mgr.add_sub_track(tb).unwrap();
				let mut sd = sound_from_frames(sc.sr, vec![Frame::new(0.5, 0.5); 100_000]);
				if !*track {
					sd = sd.volume(vol);
				}
				let _ = th.play(sd).unwrap();
				dc.push((DcInfo { watch: *watch, lo: *lo, hi: *hi, db_lo: *db_lo, db_hi: *db_hi, added_at_cb: ncb, _track: th }, vec![]));
			}
			Op::Cb { frames } => {
				// solo the DC tracks is not possible; instead every DC sound scenario has exactly one DC sound
				let out = mgr.backend_mut().callback(*frames, 2);
				for d in dc.iter_mut() {
					d.1.push(out.iter().step_by(2).copied().collect());
				}
				ncb += 1;
			}
		}
	}
	let l = log.lock().unwrap().clone();
	drop(handles);
	drop(tracks);
	Trace { log: l, dc }
}

// ------------------------------------------------------------------------------------------
// Gallina terms
// ------------------------------------------------------------------------------------------
fn easing_code(e: Easing) -> (i128, i128) {
	match e {
		Easing::Linear => (0, 0),
		Easing::InPowi(p) => (1, p as i128),
		Easing::OutPowi(p) => (2, p as i128),
		Easing::InOutPowi(p) => (3, p as i128),
		Easing::InPowf(p) => (4, obs64(p)),
		Easing::OutPowf(p) => (5, obs64(p)),
		Easing::InOutPowf(p) => (6, obs64(p)),
	}
}
fn easing_oracle(e: Easing, x: f64) -> Vec<(f64, f64, f64)> {
	match e {
		Easing::InPowf(p) => vec![(x, p, x.powf(p))],
		Easing::OutPowf(p) => vec![(1.0 - x, p, (1.0 - x).powf(p))],
		Easing::InOutPowf(p) => {
			let x2 = x * 2.0;
			if x2 < 1.0 {
				vec![(x2, p, x2.powf(p))]
			} else {
				let y = 2.0 - x2;
				vec![(y, p, y.powf(p))]
			}
		}
		_ => vec![],
	}
}
fn is_powf(e: Easing) -> bool {
	matches!(e, Easing::InPowf(_) | Easing::OutPowf(_) | Easing::InOutPowf(_))
}
fn g_val(v: &Val) -> String {
	match v {
		Val::Fixed(x) => format!("(RFixed {})", f64_bits_z(*x)),
		Val::Mod { id, lo, hi, olo, ohi, e } => {
			let (ek, ep) = easing_code(*e);
			format!("(RMod {} {} {} {} {} {} {})", id, f64_bits_z(*lo), f64_bits_z(*hi), f64_bits_z(*olo), f64_bits_z(*ohi), ek, z(ep))
		}
	}
}
fn g_tw(t: &Tw) -> String {
	let (ek, ep) = easing_code(t.e);
	format!("(RTween {} {} {} {})", z(t.delay_ns as i128), t.dur_ns, ek, z(ep))
}
fn g_wave(w: Wave) -> String {
	match w {
		Wave::Sine => "RSine".into(),
		Wave::Triangle => "RTriangle".into(),
		Wave::Saw => "RSaw".into(),
		Wave::Pulse(x) => format!("(RPulse {})", f64_bits_z(x)),
	}
}
fn g_case(sc: &Scen, sin_tab: &[(f64, f64)], pow_tab: &[(f64, f64, f64)]) -> String {
	let mut ops = vec![];
	let (mut nid, mut npid, mut ncid) = (0usize, 0usize, 0usize);
	for op in &sc.ops {
		ops.push(match op {
			Op::AddLfo { w, f, a, o, phase } => {
				nid += 1;
				format!("RAddLfo {} {} {} {} {} {}", nid - 1, g_wave(*w), g_val(f), g_val(a), g_val(o), f64_bits_z(*phase))
			}
			Op::AddTweener { init } => {
				nid += 1;
				format!("RAddTweener {} {}", nid - 1, f64_bits_z(*init))
			}
			Op::AddProbeMod { watch } => {
				nid += 1;
				let w = if *watch == -2 { (nid - 1) as i128 } else { *watch as i128 };
				format!("RAddProbeMod {} {}", nid - 1, z(w))
			}
			Op::Drop { id } => format!("RDrop {}", id),
			Op::SetTweener { id, target, tw } => format!("RSetTweener {} {} {}", id, f64_bits_z(*target), g_tw(tw)),
			Op::SetLfoParam { id, which, target, tw } => format!("RSetLfoParam {} {} {} {}", id, which, g_val(target), g_tw(tw)),
			Op::SetPhase { id, phase } => format!("RSetPhase {} {}", id, f64_bits_z(*phase)),
			Op::SetWave { id, w } => format!("RSetWave {} {}", id, g_wave(*w)),
			Op::AddClock { speed } => {
				ncid += 1;
				format!("RAddClock {} {}", ncid - 1, g_val(speed))
			}
			Op::AddProbe { watch, v } => {
				npid += 1;
				format!("RAddProbe {} {} {}", npid - 1, watch, g_val(v))
			}
			Op::AddClockProbe { cid } => {
				npid += 1;
				format!("RAddClockProbe {} {}", npid - 1, cid)
			}
			Op::AddDcSound { .. } => continue,
			Op::Cb { frames } => format!("RCb {}", frames),
		});
	}
	let st = sin_tab.iter().map(|(a, b)| format!("({}, {})", f64_bits_z(*a), f64_bits_z(*b))).collect::<Vec<_>>().join("; ");
	let pt = pow_tab.iter().map(|(a, b, c)| format!("({}, {}, {})", f64_bits_z(*a), f64_bits_z(*b), f64_bits_z(*c))).collect::<Vec<_>>().join("; ");
	format!("CScen {} {} [{}] [{}] [{}]", sc.sr, sc.ibs, ops.join("; "), st, pt)
}
fn enc_opt(o: Option<f64>) -> [i128; 2] {
	match o {
		Some(v) => [1, obs64(v)],
		None => [0, 0],
	}
}
/// the observable, in the layout of `C17.Run.run`: per observer in creation order, its stream
fn observable(sc: &Scen, log: &[Ev]) -> Vec<i128> {
	let mut out = vec![];
	let (mut nid, mut npid) = (0usize, 0usize);
	for op in &sc.ops {
		match op {
			Op::AddLfo { .. } | Op::AddTweener { .. } => nid += 1,
			Op::AddProbeMod { .. } => {
				for e in log {
					if let Ev::Mod { id, dt, seen } = e {
						if *id == nid {
							out.push(obs64(*dt));
							out.extend(enc_opt(*seen));
						}
					}
				}
				nid += 1;
			}
			Op::AddProbe { .. } | Op::AddClockProbe { .. } => {
				for e in log {
					match e {
						Ev::Probe { pid, len, raw, v } if *pid == npid => {
							out.push(*len as i128);
							out.extend(enc_opt(*raw));
							out.push(obs64(*v));
						}
						Ev::ProbeClock { pid, len, info } if *pid == npid => {
							out.push(*len as i128);
							match info {
								Some((t, k, f)) => out.extend([1, *t as i128, *k as i128, obs64(*f)]),
								None => out.extend([0, 0, 0, 0]),
							}
						}
						_ => {}
					}
				}
				npid += 1;
			}
			_ => {}
		}
	}
	out
}

fn chunk_lens(ibs: usize, frames: usize) -> Vec<usize> {
	let mut v = vec![ibs; frames / ibs];
	if frames % ibs != 0 {
		v.push(frames % ibs);
	}
	v
}

// ------------------------------------------------------------------------------------------
// mirror of the history (what is alive, in which order) + property monitors + libm tables
// ------------------------------------------------------------------------------------------
#[derive(Clone)]
enum MKind {
	Lfo {
		w: Wave,
		f: Val,
		a: Val,
		o: Val,
		/// phase mirror (only meaningful while `f_simple`)
		phase: f64,
		f_simple: bool,
		/// amplitude / offset were never the target of a `set_` command
		a_simple: bool,
		o_simple: bool,
		/// amplitude is exactly 0 and the offset is an idle link to modulator `.0`: value = map(what it read)
		chain: Option<(usize, f64, f64, f64, f64, Easing)>,
		updates: u64,
	},
	Tweener {
		value_known: Option<f64>,
		/// (v0, target, tween, time, remaining delay, started counting)
		tw: Option<(Option<f64>, f64, Tw, f64, Duration)>,
		holding: Option<f64>,
	},
	Probe {
		count: u64,
		/// index of the modulator it reads (its own index for "self"), if any
		watch: Option<usize>,
	},
}
struct MMod {
	kind: MKind,
	/// the handle has not been dropped
	alive: bool,
	/// part of the arena (a callback has started since the add, and none since the drop)
	in_arena: bool,
	pending: bool,
}
struct MProbe {
	watch: Option<usize>,
	v: Option<Val>,
	cid: Option<usize>,
	last_v: Option<f64>,
}
struct MClock {
	speed: Val,
	/// mirror of the clock: ticks, tick timer; the speed it holds when its modulator does not resolve
	ticks: u64,
	timer: f64,
	held_tps: f64,
	ok: bool,
}

fn hull(v: &Val, default: f64, simple: bool) -> Option<(f64, f64)> {
	if !simple {
		return None;
	}
	match v {
		Val::Fixed(x) => Some((*x, *x)),
		Val::Mod { lo, hi, olo, ohi, e, .. } => {
			if lo == hi || is_powf(*e) {
				return None;
			}
			if let Easing::InPowi(p) | Easing::OutPowi(p) | Easing::InOutPowi(p) = e {
				if *p < 1 {
					return None;
				}
			}
			Some((olo.min(*ohi).min(default), olo.max(*ohi).max(default)))
		}
	}
}

struct Analysis {
	sin_tab: Vec<(f64, f64)>,
	pow_tab: Vec<(f64, f64, f64)>,
	/// the model can be given the libm values it needs
	modelable: bool,
	fails: Vec<(String, Option<&'static str>)>,
	lag_notes: Vec<String>,
	features: Vec<&'static str>,
}

fn analyse(sc: &Scen, tr: &Trace) -> Analysis {
	let mut an = Analysis { sin_tab: vec![], pow_tab: vec![], modelable: true, fails: vec![], lag_notes: vec![], features: vec![] };
	let dt = 1.0 / sc.sr as f64;
	let log = &tr.log;
	let mut pos = 0usize;
	let mut mods: Vec<MMod> = vec![];
	let mut probes: Vec<MProbe> = vec![];
	let mut clocks: Vec<MClock> = vec![];
	// clock mirrors: (ticks, timer, started) per clock, driven by the values a sibling parameter probe saw
	let mut order: Vec<usize> = vec![]; // modulator update order (insertion order of the alive ones)
	macro_rules! fail {
		($cls:expr, $($arg:tt)*) => { an.fails.push((format!($($arg)*), $cls)) };
	}
	for op in &sc.ops {
		match op {
			Op::AddLfo { w, f, a, o, phase } => {
				let chain = match (a, o) {
					(Val::Fixed(z), Val::Mod { id, lo, hi, olo, ohi, e }) if *z == 0.0 => Some((*id, *lo, *hi, *olo, *ohi, *e)),
					_ => None,
				};
				mods.push(MMod {
					kind: MKind::Lfo {
						w: *w,
						f: f.clone(),
						a: a.clone(),
						o: o.clone(),
						phase: *phase / TAU,
						f_simple: matches!(f, Val::Fixed(_)),
						a_simple: true,
						o_simple: true,
						chain,
						updates: 0,
					},
					alive: true,
					in_arena: false,
					pending: true,
				});
			}
			Op::AddTweener { init } => {
				mods.push(MMod { kind: MKind::Tweener { value_known: Some(*init), tw: None, holding: Some(*init) }, alive: true, in_arena: false, pending: true });
			}
			Op::AddProbeMod { watch } => {
				let w = match *watch {
					-1 => None,
					-2 => Some(mods.len()),
					k => Some(k as usize),
				};
				mods.push(MMod { kind: MKind::Probe { count: 0, watch: w }, alive: true, in_arena: false, pending: true });
			}
			Op::Drop { id } => {
				mods[*id].alive = false;
			}
			Op::SetTweener { id, target, tw } => {
				let alive = mods[*id].alive;
				if let MKind::Tweener { value_known, tw: t, holding } = &mut mods[*id].kind {
					if alive {
						*t = Some((*value_known, *target, tw.clone(), 0.0, Duration::from_nanos(tw.delay_ns.max(0) as u64)));
						*holding = None;
					}
				}
			}
			Op::SetLfoParam { id, which, target, tw } => {
				if !mods[*id].alive {
					continue;
				}
				if let MKind::Lfo { f_simple, a_simple, o_simple, chain, a, .. } = &mut mods[*id].kind {
					match which {
						0 => *f_simple = false,
						1 => {
							*a_simple = false;
							*chain = None;
						}
						_ => {
							*o_simple = false;
							*chain = match (&*a, target) {
								(Val::Fixed(z), Val::Mod { id: w, lo, hi, olo, ohi, e }) if *z == 0.0 && *a_simple && tw.delay_ns < 0 && tw.dur_ns == 0 => Some((*w, *lo, *hi, *olo, *ohi, *e)),
								_ => None,
							};
						}
					}
				}
			}
			Op::SetPhase { id, phase } => {
				if !mods[*id].alive {
					continue;
				}
				if let MKind::Lfo { phase: ph, .. } = &mut mods[*id].kind {
					*ph = *phase / TAU;
				}
			}
			Op::SetWave { id, w } => {
				if !mods[*id].alive {
					continue;
				}
				if let MKind::Lfo { w: ww, .. } = &mut mods[*id].kind {
					*ww = *w;
				}
			}
			Op::AddClock { speed } => clocks.push(MClock { speed: speed.clone(), ticks: 0, timer: 0.0, held_tps: 2.0, ok: true }),
			Op::AddProbe { watch, v } => probes.push(MProbe { watch: Some(*watch), v: Some(v.clone()), cid: None, last_v: None }),
			Op::AddClockProbe { cid } => probes.push(MProbe { watch: None, v: None, cid: Some(*cid), last_v: None }),
			Op::AddDcSound { .. } => {}
			Op::Cb { frames } => {
				// on_start_processing: finished modulators leave, then the queued ones join (in order)
				for mi in 0..mods.len() {
					if mods[mi].in_arena && !mods[mi].alive {
						mods[mi].in_arena = false;
						order.retain(|x| *x != mi);
					}
				}
				for mi in 0..mods.len() {
					if mods[mi].pending {
						mods[mi].pending = false;
						mods[mi].in_arena = true;
						order.push(mi);
					}
				}
				for len in chunk_lens(sc.ibs, *frames) {
					let dtc = dt * len as f64;
					// ---- once per chunk, modulators first, in insertion order, with dt * len ----
					let mut mod_new: BTreeMap<usize, f64> = BTreeMap::new();
					let mut seen_by: BTreeMap<usize, Option<f64>> = BTreeMap::new();
					for &mi in &order {
						// mirrors of what each modulator does in this chunk
						match &mut mods[mi].kind {
							MKind::Probe { count, .. } => {
								match log.get(pos) {
									Some(Ev::Mod { id, dt: d, seen }) if *id == mi => {
										seen_by.insert(mi, *seen);
										if d.to_bits() != dtc.to_bits() {
											fail!(None, "once_per_chunk: probe modulator {mi} updated with dt {d:?}, expected dt*len = {dtc:?}");
										}
										pos += 1;
									}
									other => {
										fail!(None, "once_per_chunk: expected the update of probe modulator {mi} (chunk of {len} frames), log has {other:?}");
										return an;
									}
								}
								*count += 1;
								mod_new.insert(mi, *count as f64);
							}
							MKind::Lfo { w, phase, f, f_simple, updates, .. } => {
								*updates += 1;
								if *f_simple {
									if let Val::Fixed(fr) = f {
										*phase += dtc * *fr;
										*phase = phase.rem_euclid(1.0);
										if *w == Wave::Sine {
											let arg = *phase * TAU;
											an.sin_tab.push((arg, arg.sin()));
										}
									}
								} else if *w == Wave::Sine {
									an.modelable = false;
								}
							}
							MKind::Tweener { tw, holding, .. } => {
								if let Some((_, target, t, time, remaining)) = tw {
									if is_powf(t.e) {
										an.modelable = false;
									}
									let started = if t.delay_ns < 0 {
										true
									} else if remaining.is_zero() {
										true
									} else {
										*remaining = remaining.saturating_sub(Duration::from_secs_f64(dtc));
										false
									};
									if started {
										*time += dtc;
										if *time >= Duration::from_nanos(t.dur_ns).as_secs_f64() {
											*holding = Some(*target);
											*tw = None;
										}
									}
								}
							}
						}
					}
					// a modulator event that the mirror does not expect = an extra update call
					if let Some(Ev::Mod { id, .. }) = log.get(pos) {
						fail!(None, "once_per_chunk: unexpected extra update of probe modulator {id} in a chunk of {len} frames");
						return an;
					}
					// ---- then the mixer: every probe exactly once, same chunk length ----
					let mut seen: BTreeMap<usize, Ev> = BTreeMap::new();
					for _ in 0..probes.len() {
						match log.get(pos) {
							Some(e @ Ev::Probe { pid, len: l, .. }) | Some(e @ Ev::ProbeClock { pid, len: l, .. }) => {
								if *l != len {
									fail!(None, "probe {pid} processed {l} frames in a chunk of {len}");
								}
								if seen.insert(*pid, e.clone()).is_some() {
									fail!(None, "probe {pid} processed twice in one chunk");
								}
								pos += 1;
							}
							other => {
								fail!(None, "mixer did not process every probe after the modulators: log has {other:?}");
								return an;
							}
						}
					}
					// ---- value monitors ----
					// the value each modulator has in this chunk, as far as a probe read it
					let mut raw_of: BTreeMap<usize, f64> = BTreeMap::new();
					for (pid, e) in &seen {
						if let Ev::Probe { raw, v, .. } = e {
							let p = &mut probes[*pid];
							let w = p.watch.unwrap();
							let val = p.v.clone().unwrap();
							match raw {
								Some(x) => {
									raw_of.insert(w, *x);
									if !mods[w].in_arena {
										fail!(None, "stale id: modulator {w} was removed before this callback but still resolves to {x:?}");
									}
								}
								None => {
									if mods[w].in_arena {
										fail!(None, "modulator {w} is alive but does not resolve in the mixer");
									}
								}
							}
							// linked parameter = mapping(current modulator value), in the same chunk; holds when unresolved
							match &val {
								Val::Fixed(x) => {
									if v.to_bits() != x.to_bits() {
										fail!(None, "fixed probe parameter changed: {v:?} != {x:?}");
									}
								}
								Val::Mod { id, lo, hi, olo, ohi, e } => {
									let m = Mapping { input_range: (*lo, *hi), output_range: (*olo, *ohi), easing: *e };
									let src = if id == &w { *raw } else { None };
									if id == &w {
										match src {
											Some(x) => {
												let want = m.map(x);
												if obs64(want) != obs64(*v) {
													fail!(None, "same-chunk: parameter linked to modulator {w} is {v:?} but map({x:?}) = {want:?}");
												}
												if is_powf(*e) {
													let amount = ((x - lo) / (hi - lo)).clamp(0.0, 1.0);
													an.pow_tab.extend(easing_oracle(*e, amount));
												}
											}
											None => match p.last_v {
												Some(lv) => {
													if obs64(lv) != obs64(*v) {
														fail!(None, "hold after removal: parameter linked to removed modulator {w} moved from {lv:?} to {v:?}");
													}
												}
												None => {
													if *v != 0.0 {
														fail!(None, "parameter linked to an unresolvable modulator left its default: {v:?}");
													}
												}
											},
										}
									}
								}
							}
							p.last_v = Some(*v);
						}
					}
					for (&mi, &x) in &raw_of {
						match &mut mods[mi].kind {
							MKind::Probe { count, .. } => {
								if x != *count as f64 {
									fail!(None, "same-chunk: the mixer read {x:?} from probe modulator {mi} whose update count in this chunk is {count}");
								}
							}
							MKind::Lfo { a, o, a_simple, o_simple, .. } => {
								// any phase, any frequency (F15 repaired): offset +/- |amplitude|
								if let (Some((alo, ahi)), Some((olo, ohi))) = (hull(a, 1.0, *a_simple), hull(o, 0.0, *o_simple)) {
									let amax = alo.abs().max(ahi.abs());
									let exact = alo == ahi && olo == ohi;
									let slack = if exact { 0.0 } else { 1e-9 * (1.0 + amax + olo.abs() + ohi.abs()) };
									let (lo, hi) = (olo - amax - slack, ohi + amax + slack);
									if x.is_finite() && lo.is_finite() && hi.is_finite() && !(x >= lo && x <= hi) {
										fail!(None, "LFO range: modulator {mi} has value {x:?} outside offset +/- |amplitude| = [{lo:?}, {hi:?}]");
									}
								}
							}
							MKind::Tweener { value_known, tw, holding } => {
								if let Some(h) = holding {
									if obs64(*h) != obs64(x) {
										fail!(None, "tweener {mi}: value {x:?} but it must hold {h:?} exactly (tween finished / idle)");
									}
								}
								if let Some((Some(v0), target, t, time, _remaining)) = tw {
									let monotone = match t.e {
										Easing::Linear => true,
										Easing::InPowi(p) | Easing::OutPowi(p) | Easing::InOutPowi(p) => p >= 1,
										_ => false,
									};
									if *time == 0.0 {
										// a delayed start that has not begun to count: still exactly the old value
										if obs64(*v0) != obs64(x) {
											fail!(None, "tweener {mi}: moved to {x:?} before its delayed start (was {v0:?})");
										}
									} else if monotone && v0.is_finite() && target.is_finite() {
										let (lo, hi) = (v0.min(*target), v0.max(*target));
										let slack = 1e-9 * (1.0 + lo.abs() + hi.abs());
										if !(x >= lo - slack && x <= hi + slack) {
											fail!(None, "tweener {mi}: value {x:?} outside [{lo:?}, {hi:?}] during the tween");
										}
									}
								}
								*value_known = Some(x);
							}
						}
					}
					// ---- modulator -> modulator: a parameter of a modulator linked to modulator w must equal
					// map(w's value of THIS chunk); when the reader is updated before w (or w is itself) it cannot
					let posn = |m: usize| order.iter().position(|x| *x == m);
					for &ri in &order {
						let cls_for = |w: usize| -> Option<&'static str> {
							match (posn(ri), posn(w)) {
								(Some(pr), Some(pw)) if pw >= pr => Some("modulator_chain_reader_updated_first"),
								_ => None,
							}
						};
						match &mods[ri].kind {
							MKind::Probe { watch: Some(w), .. } => {
								if let (Some(Some(sv)), Some(xm)) = (seen_by.get(&ri), raw_of.get(w)) {
									if mods[*w].in_arena && !(sv == xm || (sv.is_nan() && xm.is_nan())) {
										an.fails.push((format!("chain: probe modulator {ri} read {sv:?} from modulator {w} whose value in this chunk is {xm:?}"), cls_for(*w)));
									}
								}
							}
							MKind::Lfo { chain: Some((w, lo, hi, olo, ohi, e)), f, f_simple, .. } => {
								if let (Some(xr), Some(xm)) = (raw_of.get(&ri), raw_of.get(w)) {
									let freq_ok = *f_simple && matches!(f, Val::Fixed(x) if x.is_finite());
									let want = Mapping { input_range: (*lo, *hi), output_range: (*olo, *ohi), easing: *e }.map(*xm);
									if mods[*w].in_arena && freq_ok && lo != hi && !(*xr == want || (xr.is_nan() && want.is_nan())) {
										an.fails.push((format!("chain: LFO {ri} (amplitude 0, offset linked to modulator {w}) has value {xr:?} but map(value of {w} in this chunk = {xm:?}) = {want:?}"), cls_for(*w)));
									}
								}
							}
							_ => {}
						}
					}
					// modulators nobody read in this chunk: their value is no longer known to the mirror
					for &mi in &order {
						if !raw_of.contains_key(&mi) {
							if let MKind::Tweener { value_known, holding, .. } = &mut mods[mi].kind {
								*value_known = *holding;
							}
						}
					}
					let _ = &mod_new;
					// ---- a clock whose speed is linked to a modulator ticks at map(value of THIS chunk) ----
					for (pid, e) in &seen {
						if let Ev::ProbeClock { info, .. } = e {
							let cid = probes[*pid].cid.unwrap();
							// the sibling parameter probe (same mapping, same modulator) is the next probe
							let sib = seen.get(&(pid + 1));
							let c = &mut clocks[cid];
							let tps = match (&c.speed, sib) {
								(Val::Fixed(x), _) => Some(*x),
								(Val::Mod { .. }, Some(Ev::Probe { raw: Some(_), v, .. })) => Some(*v),
								(Val::Mod { .. }, Some(Ev::Probe { raw: None, .. })) => Some(c.held_tps),
								_ => None,
							};
							match (tps, info) {
								(Some(tps), Some((ticking, ticks, frac))) if c.ok => {
									c.held_tps = tps;
									if !(tps.is_finite() && tps >= 0.0 && tps * dtc < 1000.0) {
										c.ok = false;
										continue;
									}
									c.timer += tps * dtc;
									while c.timer >= 1.0 {
										c.timer -= 1.0;
										c.ticks += 1;
									}
									if !*ticking || *ticks != c.ticks || frac.to_bits() != c.timer.to_bits() {
										fail!(None, "same-chunk (clock): clock {cid} is at ({ticks}, {frac:?}) but with the speed map(modulator value of this chunk) = {tps:?} ticks/s it must be at ({}, {:?})", c.ticks, c.timer);
										c.ok = false;
									}
								}
								(_, None) => fail!(None, "clock {cid} does not resolve in the mixer"),
								_ => {}
							}
						}
					}
				}
			}
		}
	}
	let _ = &clocks;
	if pos != log.len() {
		fail!(None, "the log has {} more events than the history explains (first: {:?})", log.len() - pos, log.get(pos));
	}
	an
}

// ------------------------------------------------------------------------------------------
// generators
// ------------------------------------------------------------------------------------------
struct Gen<'a> {
	r: &'a mut Rng,
	dyadic: bool,
	boundary: bool,
	sr: u32,
	ibs: usize,
}
impl<'a> Gen<'a> {
	fn chunk_secs(&self) -> f64 {
		self.ibs as f64 / self.sr as f64
	}
	fn small(&mut self, scale: f64) -> f64 {
		if self.dyadic {
			(self.r.range(-32, 32) as f64) / 8.0 * scale
		} else {
			(self.r.unit_f64() * 2.0 - 1.0) * 4.0 * scale
		}
	}
	fn freq(&mut self) -> f64 {
		let per_chunk = if self.dyadic {
			*self.r.pick(&[0.0, 1.0 / 16.0, 1.0 / 8.0, 3.0 / 16.0, 0.25, 0.5, 1.0, 1.25, 33.0 / 32.0])
		} else {
			self.r.unit_f64() * 1.3
		};
		let f = per_chunk / self.chunk_secs();
		if self.boundary && self.r.chance(1, 6) {
			-f
		} else {
			f
		}
	}
	fn phase(&mut self) -> f64 {
		let turns = if self.boundary && self.r.chance(1, 2) {
			*self.r.pick(&[-0.9, -0.25, -2.5, -0.5, -1e-9])
		} else if self.dyadic {
			*self.r.pick(&[0.0, 0.25, 0.5, 0.75, 0.125, 1.5, 3.25])
		} else {
			self.r.unit_f64() * 2.0
		};
		turns * TAU
	}
	fn wave(&mut self, allow_sine: bool) -> Wave {
		match self.r.below(if allow_sine { 5 } else { 4 }) {
			0 => Wave::Triangle,
			1 => Wave::Saw,
			2 => Wave::Pulse(*self.r.pick(&[0.5, 0.25, 0.0, 1.0, 0.75])),
			3 => Wave::Pulse(self.r.unit_f64()),
			_ => Wave::Sine,
		}
	}
	fn easing(&mut self, powf_ok: bool) -> Easing {
		match self.r.below(if powf_ok { 7 } else { 4 }) {
			0 => Easing::Linear,
			1 => Easing::InPowi(self.r.range(1, 4) as i32),
			2 => Easing::OutPowi(self.r.range(1, 4) as i32),
			3 => Easing::InOutPowi(self.r.range(1, 4) as i32),
			4 => Easing::InPowf(*self.r.pick(&[0.5, 1.5, 2.0, 3.0])),
			5 => Easing::OutPowf(*self.r.pick(&[0.5, 1.5, 2.0, 3.0])),
			_ => Easing::InOutPowf(*self.r.pick(&[0.5, 1.5, 2.0, 3.0])),
		}
	}
	/// a link to modulator `id` with an input range that suits the values it produces
	fn link(&mut self, id: usize, out_scale: f64, out_nonneg: bool, powf_ok: bool) -> Val {
		let (mut lo, mut hi) = match self.r.below(4) {
			0 => (-1.0, 1.0),
			1 => (0.0, 1.0),
			2 => (0.0, 4.0),
			_ => {
				let a = self.small(1.0);
				(a, a + 0.5 + self.r.below(8) as f64 / 2.0)
			}
		};
		if self.r.chance(1, 3) {
			std::mem::swap(&mut lo, &mut hi); // inverted input range
		}
		if self.boundary && self.r.chance(1, 5) {
			hi = lo; // degenerate
		}
		let (mut olo, mut ohi) = (self.small(out_scale), self.small(out_scale));
		if out_nonneg {
			olo = olo.abs();
			ohi = ohi.abs();
		}
		let e = self.easing(powf_ok);
		Val::Mod { id, lo, hi, olo, ohi, e }
	}
	fn tween(&mut self) -> Tw {
		let cns = self.chunk_secs() * 1e9;
		let k = *self.r.pick(&[0.0, 0.5, 1.0, 1.0, 2.0, 2.0, 3.0, 3.5, 5.0]);
		let dur_ns = if self.dyadic { (k * cns).round() as u64 } else { (self.r.unit_f64() * 4.0 * cns) as u64 };
		let delay_ns = match self.r.below(4) {
			0 => {
				let j = *self.r.pick(&[0.0, 0.5, 1.0, 2.0, 2.5]);
				if self.dyadic {
					(j * cns).round() as i64
				} else {
					(self.r.unit_f64() * 3.0 * cns) as i64
				}
			}
			_ => -1,
		};
		Tw { delay_ns, dur_ns, e: self.easing(false) }
	}
}

fn gen_scenario(r: &mut Rng, dyadic: bool, boundary: bool) -> Scen {
	let sr = if dyadic { *r.pick(&[1u32, 2, 4, 8, 64, 1000, 1024]) } else { *r.pick(&[44100u32, 48000, 22050, 7, 1000, 96000]) };
	let ibs = *r.pick(&[1usize, 2, 3, 4, 8, 16, 128]);
	let mut g = Gen { r, dyadic, boundary, sr, ibs };
	let mut ops: Vec<Op> = vec![];
	// kinds of the modulators so far: 0 lfo, 1 tweener, 2 probe
	let mut kinds: Vec<u8> = vec![];
	let mut alive: Vec<bool> = vec![];
	// LFOs built with amplitude exactly 0 (their value is their offset: chain-checkable)
	let mut zamp: Vec<bool> = vec![];
	let mut nclocks = 0usize;
	// a sentinel probe so that chunk boundaries are visible in the log even with nothing else
	let mut need_sentinel = true;
	let add_mod = |g: &mut Gen, ops: &mut Vec<Op>, kinds: &mut Vec<u8>, alive: &mut Vec<bool>, zamp: &mut Vec<bool>| {
		let mut is_zamp = false;
		let n = kinds.len();
		let existing: Vec<usize> = (0..n).collect();
		let k = g.r.below(10);
		if k < 5 {
			// LFO; parameters may be linked to any earlier modulator (alive or already dropped)
			let pick_val = |g: &mut Gen, scale: f64, nonneg: bool, fixed: f64| -> Val {
				if !existing.is_empty() && g.r.chance(1, 3) {
					let id = *g.r.pick(&existing);
					g.link(id, scale, nonneg, false)
				} else {
					Val::Fixed(fixed)
				}
			};
			let fr = g.freq();
			let mut f = pick_val(g, 0.25 / g.chunk_secs(), true, fr);
			let am = g.small(1.0);
			let mut a = pick_val(g, 1.0, false, am);
			let of = g.small(1.0);
			let mut o = pick_val(g, 1.0, false, of);
			if g.r.chance(1, 3) {
				// value = offset: a modulator -> modulator chain that can be checked exactly
				is_zamp = true;
				f = Val::Fixed(fr);
				a = Val::Fixed(0.0);
				if !existing.is_empty() {
					let id = *g.r.pick(&existing);
					o = g.link(id, 1.0, false, false);
				}
			}
			let allow_sine = matches!(f, Val::Fixed(_));
			let w = g.wave(allow_sine);
			let phase = g.phase();
			ops.push(Op::AddLfo { w, f, a, o, phase });
			kinds.push(0);
		} else if k < 8 {
			ops.push(Op::AddTweener { init: g.small(1.0) });
			kinds.push(1);
		} else {
			let watch = if n > 0 && g.r.chance(2, 3) { g.r.below(n as u64) as i64 } else if g.r.chance(1, 2) { -2 } else { -1 };
			ops.push(Op::AddProbeMod { watch });
			kinds.push(2);
		}
		alive.push(true);
		zamp.push(is_zamp);
		// a mixer-side reader for it
		let id = kinds.len() - 1;
		let v = g.link(id, 2.0, false, true);
		ops.push(Op::AddProbe { watch: id, v });
	};
	let nmods0 = g.r.range(1, 3);
	for _ in 0..nmods0 {
		add_mod(&mut g, &mut ops, &mut kinds, &mut alive, &mut zamp);
		need_sentinel = false;
	}
	let _ = need_sentinel;
	let steps = g.r.range(3, 6);
	let mut chunks_left: i64 = 14;
	for _ in 0..steps {
		// commands
		let ncmd = g.r.below(3);
		for _ in 0..ncmd {
			let n = kinds.len();
			match g.r.below(10) {
				0 if n < 6 => add_mod(&mut g, &mut ops, &mut kinds, &mut alive, &mut zamp),
				1 => {
					let id = g.r.below(n as u64) as usize;
					if alive[id] && g.r.chance(1, 2) {
						alive[id] = false;
						ops.push(Op::Drop { id });
					}
				}
				2 | 3 | 4 => {
					// retarget a tweener (at most one command per modulator between callbacks is guaranteed by `cmd_done`)
					let cands: Vec<usize> = (0..n).filter(|i| kinds[*i] == 1 && alive[*i]).collect();
					if !cands.is_empty() {
						let id = *g.r.pick(&cands);
						let target = g.small(1.0);
						let tw = g.tween();
						ops.push(Op::SetTweener { id, target, tw });
					}
				}
				5 | 6 => {
					let cands: Vec<usize> = (0..n).filter(|i| kinds[*i] == 0 && alive[*i]).collect();
					if !cands.is_empty() {
						let id = *g.r.pick(&cands);
						if zamp[id] && g.r.chance(2, 3) {
							// link the offset of a zero-amplitude LFO to ANY modulator (earlier, later, itself), at once
							let m = g.r.below(n as u64) as usize;
							let target = g.link(m, 1.0, false, false);
							ops.push(Op::SetLfoParam { id, which: 2, target, tw: Tw { delay_ns: -1, dur_ns: 0, e: Easing::Linear } });
							continue;
						}
						let which = g.r.below(3) as u8;
						let target = if g.r.chance(1, 2) {
							// link to ANY modulator: earlier, later, or itself
							let m = g.r.below(n as u64) as usize;
							if which == 0 { g.link(m, 0.25 / g.chunk_secs(), true, false) } else { g.link(m, 1.0, false, false) }
						} else if which == 0 {
							Val::Fixed(g.freq())
						} else {
							Val::Fixed(g.small(1.0))
						};
						let tw = g.tween();
						ops.push(Op::SetLfoParam { id, which, target, tw });
					}
				}
				7 => {
					let cands: Vec<usize> = (0..n).filter(|i| kinds[*i] == 0 && alive[*i]).collect();
					if !cands.is_empty() {
						let id = *g.r.pick(&cands);
						let phase = g.phase();
						ops.push(Op::SetPhase { id, phase });
					}
				}
				8 => {
					let cands: Vec<usize> = (0..n).filter(|i| kinds[*i] == 0 && alive[*i]).collect();
					if !cands.is_empty() {
						let id = *g.r.pick(&cands);
						let w = g.wave(true);
						ops.push(Op::SetWave { id, w });
					}
				}
				_ => {
					if nclocks < 2 && n > 0 {
						let m = g.r.below(n as u64) as usize;
						let speed = g.link(m, 0.5 / g.chunk_secs(), true, false);
						ops.push(Op::AddClock { speed: speed.clone() });
						ops.push(Op::AddClockProbe { cid: nclocks });
						// a sibling parameter probe with the same mapping: what the clock's speed must be
						ops.push(Op::AddProbe { watch: m, v: speed });
						nclocks += 1;
					}
				}
			}
		}
		// at most one command of each kind per modulator between two callbacks (last write wins is C07's business)
		dedup_commands(&mut ops);
		let max_chunks = chunks_left.min(4).max(1);
		let frames = match g.r.below(6) {
			0 => 0,
			1 => g.ibs,
			2 => g.ibs * g.r.range(1, max_chunks) as usize,
			_ => (g.r.range(1, (g.ibs as i64 * max_chunks).max(1))) as usize,
		};
		chunks_left -= chunk_lens(g.ibs, frames).len() as i64;
		ops.push(Op::Cb { frames });
		if chunks_left <= 0 {
			break;
		}
	}
	Scen { sr, ibs, ops }
}
/// between two callbacks keep only the first command of each (modulator, kind)
fn dedup_commands(ops: &mut Vec<Op>) {
	let start = ops.iter().rposition(|o| matches!(o, Op::Cb { .. })).map(|i| i + 1).unwrap_or(0);
	let mut seen: Vec<(usize, u8)> = vec![];
	let mut i = start;
	while i < ops.len() {
		let key = match &ops[i] {
			Op::SetTweener { id, .. } => Some((*id, 10)),
			Op::SetLfoParam { id, which, .. } => Some((*id, *which)),
			Op::SetPhase { id, .. } => Some((*id, 11)),
			Op::SetWave { id, .. } => Some((*id, 12)),
			_ => None,
		};
		if let Some(k) = key {
			if seen.contains(&k) {
				ops.remove(i);
				continue;
			}
			seen.push(k);
		}
		i += 1;
	}
}

fn ident() -> (f64, f64, f64, f64, Easing) {
	(0.0, 100.0, 0.0, 100.0, Easing::Linear)
}
fn ident_link(id: usize) -> Val {
	let (lo, hi, olo, ohi, e) = ident();
	Val::Mod { id, lo, hi, olo, ohi, e }
}

/// fixed scenarios: the witnesses of the `_refuted` theorems and the chain-lag example
fn fixed_scenarios() -> Vec<(&'static str, Scen)> {
	let mut v = vec![];
	// F15: Saw, frequency 0, starting phase -0.9 turns, amplitude 1, offset 0
	v.push((
		"f15_negative_starting_phase",
		Scen {
			sr: 4,
			ibs: 2,
			ops: vec![
				Op::AddLfo { w: Wave::Saw, f: Val::Fixed(0.0), a: Val::Fixed(1.0), o: Val::Fixed(0.0), phase: -0.9 * TAU },
				Op::AddProbe { watch: 0, v: Val::Mod { id: 0, lo: -2.0, hi: 2.0, olo: -2.0, ohi: 2.0, e: Easing::Linear } },
				Op::Cb { frames: 4 },
			],
		},
	));
	// chain, reader AFTER the modulator it reads: probe modulator P (value = update count), then an LFO whose
	// offset is linked to P with the identity mapping and amplitude 0
	v.push((
		"chain_reader_after",
		Scen {
			sr: 4,
			ibs: 1,
			ops: vec![
				Op::AddProbeMod { watch: -1 },
				Op::AddLfo { w: Wave::Saw, f: Val::Fixed(0.0), a: Val::Fixed(0.0), o: ident_link(0), phase: 0.0 },
				Op::AddProbe { watch: 0, v: ident_link(0) },
				Op::AddProbe { watch: 1, v: ident_link(1) },
				Op::Cb { frames: 4 },
			],
		},
	));
	// chain, reader BEFORE the modulator it reads: the LFO is added first and linked by a command
	v.push((
		"chain_reader_before",
		Scen {
			sr: 4,
			ibs: 1,
			ops: vec![
				Op::AddLfo { w: Wave::Saw, f: Val::Fixed(0.0), a: Val::Fixed(0.0), o: Val::Fixed(0.0), phase: 0.0 },
				Op::AddProbeMod { watch: 0 },
				Op::SetLfoParam { id: 0, which: 2, target: ident_link(1), tw: Tw { delay_ns: -1, dur_ns: 0, e: Easing::Linear } },
				Op::AddProbe { watch: 0, v: ident_link(0) },
				Op::AddProbe { watch: 1, v: ident_link(1) },
				Op::Cb { frames: 4 },
			],
		},
	));
	// a modulator reading its own id sees the dummy (0.0)
	v.push((
		"chain_self",
		Scen {
			sr: 4,
			ibs: 1,
			ops: vec![
				Op::AddLfo { w: Wave::Pulse(0.5), f: Val::Fixed(0.0), a: Val::Fixed(1.0), o: Val::Fixed(3.0), phase: 0.0 },
				Op::SetLfoParam { id: 0, which: 2, target: Val::Mod { id: 0, lo: 0.0, hi: 8.0, olo: 10.0, ohi: 18.0, e: Easing::Linear }, tw: Tw { delay_ns: -1, dur_ns: 0, e: Easing::Linear } },
				Op::AddProbeMod { watch: -2 },
				Op::AddProbe { watch: 0, v: ident_link(0) },
				Op::Cb { frames: 3 },
			],
		},
	));
	// Duration::from_secs_f64 tie: dt = 2^-10 s = 976562.5 ns (delay of exactly 976562 ns is used up in one update)
	v.push((
		"delay_tie_rounding",
		Scen {
			sr: 1024,
			ibs: 1,
			ops: vec![
				Op::AddTweener { init: 0.0 },
				Op::AddProbe { watch: 0, v: ident_link(0) },
				Op::SetTweener { id: 0, target: 8.0, tw: Tw { delay_ns: 976_563, dur_ns: 4 * 976_562, e: Easing::Linear } },
				Op::Cb { frames: 8 },
				Op::SetTweener { id: 0, target: 1.0, tw: Tw { delay_ns: 976_562, dur_ns: 2 * 976_563, e: Easing::Linear } },
				Op::Cb { frames: 8 },
			],
		},
	));
	// the `>=` finish test on an exact boundary, and holding afterwards; removal; hold after removal
	v.push((
		"tween_boundary_hold_drop",
		Scen {
			sr: 8,
			ibs: 2,
			ops: vec![
				Op::AddTweener { init: 1.0 },
				Op::AddProbe { watch: 0, v: Val::Mod { id: 0, lo: 5.0, hi: 1.0, olo: -1.0, ohi: 1.0, e: Easing::InPowi(2) } },
				Op::SetTweener { id: 0, target: 5.0, tw: Tw { delay_ns: -1, dur_ns: 1_000_000_000, e: Easing::Linear } },
				Op::Cb { frames: 7 },
				Op::Cb { frames: 3 },
				Op::Drop { id: 0 },
				Op::AddTweener { init: 77.0 },
				Op::Cb { frames: 5 },
			],
		},
	));
	v
}

/// DC sound whose (sound or track) volume is linked to a modulator: the envelope is read from the output
fn dc_scenario(r: &mut Rng) -> Scen {
	let sr = *r.pick(&[8u32, 64, 1000]);
	let ibs = *r.pick(&[2usize, 4, 8]);
	let mut ops = vec![];
	let track = r.chance(1, 2);
	if r.chance(1, 2) {
		ops.push(Op::AddTweener { init: 0.0 });
		ops.push(Op::AddProbe { watch: 0, v: ident_link(0) });
		ops.push(Op::AddDcSound { watch: 0, lo: 0.0, hi: 1.0, db_lo: -12.0, db_hi: 0.0, track });
		ops.push(Op::Cb { frames: 4 * ibs });
		ops.push(Op::SetTweener { id: 0, target: 1.0, tw: Tw { delay_ns: -1, dur_ns: (3.0 * ibs as f64 / sr as f64 * 1e9) as u64, e: Easing::Linear } });
	} else {
		let f = 0.125 * sr as f64 / ibs as f64;
		ops.push(Op::AddLfo { w: *r.pick(&[Wave::Triangle, Wave::Saw, Wave::Pulse(0.5), Wave::Sine]), f: Val::Fixed(f), a: Val::Fixed(1.0), o: Val::Fixed(0.0), phase: 0.0 });
		ops.push(Op::AddProbe { watch: 0, v: ident_link(0) });
		ops.push(Op::AddDcSound { watch: 0, lo: -1.0, hi: 1.0, db_lo: -12.0, db_hi: 0.0, track });
		ops.push(Op::Cb { frames: 4 * ibs });
	}
	ops.push(Op::Cb { frames: 3 * ibs });
	ops.push(Op::Cb { frames: 2 * ibs + 1 });
	ops.push(Op::Drop { id: 0 });
	ops.push(Op::Cb { frames: 2 * ibs });
	Scen { sr, ibs, ops }
}
/// monitor: at the last frame of every chunk the DC output is 0.5 * amplitude(map(modulator value of that chunk));
/// after the modulator is removed the volume holds
fn check_dc(sc: &Scen, tr: &Trace, fails: &mut Vec<(String, Option<&'static str>)>) {
	for (d, outs) in &tr.dc {
		// the modulator values per chunk, from the probe watching the same modulator (pid 0 in these scenarios)
		let vals: Vec<(usize, Option<f64>)> = tr
			.log
			.iter()
			.filter_map(|e| match e {
				Ev::Probe { pid: 0, len, raw, .. } => Some((*len, *raw)),
				_ => None,
			})
			.collect();
		let flat: Vec<f32> = outs.iter().flatten().copied().collect();
		let _ = d.added_at_cb;
		let mut at = 0usize;
		let mut last_amp: Option<f32> = None;
		let m = Mapping { input_range: (d.lo, d.hi), output_range: (Decibels(d.db_lo), Decibels(d.db_hi)), easing: Easing::Linear };
		for (k, (len, raw)) in vals.iter().enumerate() {
			at += len;
			if at > flat.len() {
				break;
			}
			let got = flat[at - 1];
			let want_amp = match raw {
				Some(x) => m.map(*x).as_amplitude(),
				None => match last_amp {
					Some(a) => a,
					None => continue,
				},
			};
			last_amp = Some(want_amp);
			// the first chunks contain the resampler's start-up; skip them
			if k < 2 {
				continue;
			}
			let want = 0.5 * want_amp;
			if (got - want).abs() > 1e-5 {
				fails.push((
					format!("DC sound with {} volume linked to modulator {}: chunk {k} ends at {got:?}, expected 0.5 * amplitude(map(value {raw:?})) = {want:?}", if sc.ops.iter().any(|o| matches!(o, Op::AddDcSound { track: true, .. })) { "track" } else { "sound" }, d.watch),
					None,
				));
			}
		}
	}
}

// ==========================================================================================
// (A) the tweener's command histories: `set` while an earlier transition is pending (delayed or
//     clock-timed start) or running; sets to the present value, to the previous target, to the
//     initial value; repeated sets between callbacks.  The history is built ADAPTIVELY (a "set to
//     the present value" takes the value the probe read last); what is checked and sent to the
//     model is the resulting concrete history.
// ==========================================================================================
#[derive(Clone, Copy, Debug, PartialEq)]
enum XSt {
	Imm,
	Delay(u64),
	Clock { ticks: u64, frac: f64 },
}
#[derive(Clone, Copy, Debug)]
struct XTw {
	st: XSt,
	dur_ns: u64,
	e: Easing,
}
#[derive(Clone, Copy, Debug)]
enum TwTarget {
	Val(f64),
	/// the value the tweener has right now (read by the probe in the last chunk)
	Current,
	/// the target of the previous command
	Previous,
	Initial,
}
#[derive(Clone, Debug)]
enum TwPlan {
	Set(TwTarget, XTw),
	/// the previous command once more through the same handle, bit for bit (same target, same `Tween`)
	Resend,
	Ticking(bool),
	Cb(usize),
}
#[derive(Clone, Debug)]
enum TwOp {
	Set { target: f64, tw: XTw },
	Ticking(bool),
	Cb { frames: usize },
}
#[derive(Clone, Debug)]
struct TwScen {
	sr: u32,
	ibs: usize,
	init: f64,
	clock_tps: Option<f64>,
	ops: Vec<TwOp>,
}
#[derive(Clone, Debug)]
struct TwRec {
	len: usize,
	value: Option<f64>,
	clock: Option<(bool, u64, f64)>,
}
struct TwProbe {
	watch: ModulatorId,
	clock: Option<ClockId>,
	log: Arc<Mutex<Vec<TwRec>>>,
}
impl Effect for TwProbe {
	fn process(&mut self, input: &mut [Frame], _dt: f64, info: &Info) {
		let clock = self.clock.and_then(|c| info.clock_info(c)).map(|c| (c.ticking, c.time.ticks, c.time.fraction));
		self.log.lock().unwrap().push(TwRec { len: input.len(), value: info.modulator_value(self.watch), clock });
	}
}
fn to_start(st: XSt, clock: Option<ClockId>) -> StartTime {
	match st {
		XSt::Imm => StartTime::Immediate,
		XSt::Delay(ns) => StartTime::Delayed(Duration::from_nanos(ns)),
		XSt::Clock { ticks, frac } => StartTime::ClockTime(kira::clock::ClockTime { clock: clock.expect("a clock start time needs a clock"), ticks, fraction: frac }),
	}
}
fn to_xtween(t: &XTw, clock: Option<ClockId>) -> Tween {
	Tween { start_time: to_start(t.st, clock), duration: Duration::from_nanos(t.dur_ns), easing: t.e }
}
/// runs the plan on the real code; returns the concrete history and what the probe read, one record per chunk
fn exec_tw(sr: u32, ibs: usize, init: f64, clock_tps: Option<f64>, plan: &[TwPlan]) -> (TwScen, Vec<TwRec>) {
	let mut mgr = manager(sr, ibs, Capacities::default(), MainTrackBuilder::new());
	let mut tw = mgr.add_modulator(TweenerBuilder { initial_value: init }).unwrap();
	let mut clock = clock_tps.map(|tps| mgr.add_clock(ClockSpeed::TicksPerSecond(tps)).unwrap());
	let cid = clock.as_ref().map(|c| c.id());
	let log: Arc<Mutex<Vec<TwRec>>> = Arc::default();
	let mut tb = TrackBuilder::new();
	tb.add_built_effect(Box::new(TwProbe { watch: tw.id(), clock: cid, log: log.clone() }));
	let _track = mgr.add_sub_track(tb).unwrap();
	let mut ops = vec![];
	let (mut current, mut previous) = (init, init);
	let mut last_cmd: Option<(f64, XTw)> = None;
	for p in plan {
		match p {
			TwPlan::Set(t, x) => {
				let target = match t {
					TwTarget::Val(v) => *v,
					TwTarget::Current => current,
					TwTarget::Previous => previous,
					TwTarget::Initial => init,
				};
				tw.set(target, to_xtween(x, cid));
				previous = target;
				last_cmd = Some((target, *x));
				ops.push(TwOp::Set { target, tw: *x });
			}
			TwPlan::Resend => {
				if let Some((target, x)) = last_cmd {
					tw.set(target, to_xtween(&x, cid));
					ops.push(TwOp::Set { target, tw: x });
				}
			}
			TwPlan::Ticking(b) => {
				if let Some(c) = &mut clock {
					if *b {
						c.start()
					} else {
						c.pause()
					}
					ops.push(TwOp::Ticking(*b));
				}
			}
			TwPlan::Cb(frames) => {
				let _ = mgr.backend_mut().callback(*frames, 2);
				if let Some(TwRec { value: Some(v), .. }) = log.lock().unwrap().last() {
					current = *v;
				}
				ops.push(TwOp::Cb { frames: *frames });
			}
		}
	}
	let recs = log.lock().unwrap().clone();
	(TwScen { sr, ibs, init, clock_tps, ops }, recs)
}
fn apply_easing(e: Easing, x: f64) -> f64 {
	// Easing::apply is crate-private; Mapping::map over the identity ranges exposes it exactly for x in [0,1]
	Mapping { input_range: (0.0, 1.0), output_range: (0.0f64, 1.0f64), easing: e }.map(x)
}
/// Rust mirror of `tweener_command_law` / `tweener_set_supersedes` / `tweener_pending_holds` /
/// `tweener_finish_exact`: from the callback that reads a `set(v, tw)` the value is what it was until the
/// start time has come, then v0 + (v - v0) * ease(time / duration) with time accumulated per chunk, then
/// exactly v, held until the next command is read -- bit for bit, whatever was going on before.
fn check_tw(sc: &TwScen, recs: &[TwRec]) -> (Vec<String>, Vec<(f64, f64, f64)>) {
	struct Run {
		v0: f64,
		target: f64,
		tw: XTw,
		time: f64,
		remaining: Duration,
		no: usize,
		at_cb: usize,
	}
	let dt = 1.0 / sc.sr as f64;
	let mut fails = vec![];
	let mut pow_tab = vec![];
	let mut value = sc.init;
	let mut cur: Option<Run> = None;
	let mut last_done: Option<(usize, usize, f64)> = None;
	let mut pending: Option<(f64, XTw, usize)> = None;
	let mut pend_tick: Option<bool> = None;
	let mut ticking = false;
	let mut ck: (u64, f64) = (0, 0.0);
	let (mut pos, mut nset, mut ncb, mut nchunk) = (0usize, 0usize, 0usize, 0usize);
	for op in &sc.ops {
		match op {
			TwOp::Set { target, tw } => {
				nset += 1;
				pending = Some((*target, *tw, nset));
			}
			TwOp::Ticking(b) => pend_tick = Some(*b),
			TwOp::Cb { frames } => {
				if let Some(b) = pend_tick.take() {
					ticking = b;
				}
				if let Some((target, tw, no)) = pending.take() {
					let remaining = match tw.st {
						XSt::Delay(ns) => Duration::from_nanos(ns),
						_ => Duration::ZERO,
					};
					cur = Some(Run { v0: value, target, tw, time: 0.0, remaining, no, at_cb: ncb });
				}
				for len in chunk_lens(sc.ibs, *frames) {
					let dtc = dt * len as f64;
					let Some(rec) = recs.get(pos) else {
						fails.push(format!("callback {ncb}: the probe was not processed in every chunk ({} records for at least {} chunks)", recs.len(), pos + 1));
						return (fails, pow_tab);
					};
					pos += 1;
					if rec.len != len {
						fails.push(format!("callback {ncb}: chunk of {} frames where {len} were expected", rec.len));
						return (fails, pow_tab);
					}
					let mut phase = "idle: holds".to_string();
					if let Some(r) = &mut cur {
						let started = match r.tw.st {
							XSt::Imm => true,
							XSt::Delay(_) => {
								if r.remaining.is_zero() {
									true
								} else {
									r.remaining = r.remaining.saturating_sub(Duration::from_secs_f64(dtc));
									false
								}
							}
							XSt::Clock { ticks, frac } => ticking && (ck.0 > ticks || (ck.0 == ticks && ck.1 >= frac)),
						};
						phase = format!("command {} (read in callback {}): set({:?}, {:?}) from {:?}; ", r.no, r.at_cb, r.target, r.tw, r.v0);
						if started {
							r.time += dtc;
							let d = Duration::from_nanos(r.tw.dur_ns).as_secs_f64();
							if r.time >= d {
								value = r.target;
								phase += &format!("finished (time {:?} >= {:?}): exactly the target", r.time, d);
								last_done = Some((r.no, r.at_cb, r.target));
								cur = None;
							} else {
								let x = r.time / d;
								pow_tab.extend(easing_oracle(r.tw.e, x));
								value = r.v0 + (r.target - r.v0) * apply_easing(r.tw.e, x);
								phase += &format!("running, time {:?} of {:?}", r.time, d);
							}
						} else {
							phase += "pending (start time not reached): holds the value it had";
						}
					} else if let Some((no, at, t)) = last_done {
						phase = format!("after command {no} (read in callback {at}) finished: holds its target {t:?}");
					}
					match rec.value {
						Some(x) if obs64(x) == obs64(value) => {}
						Some(x) => {
							fails.push(format!("tweener command history: chunk {nchunk} (callback {ncb}): the tweener is at {x:?}, the tween law gives {value:?} [{phase}]"));
							return (fails, pow_tab);
						}
						None => {
							fails.push(format!("chunk {nchunk}: the tweener does not resolve in the mixer"));
							return (fails, pow_tab);
						}
					}
					if let Some((_, k, f)) = rec.clock {
						ck = (k, f);
					}
					nchunk += 1;
				}
				ncb += 1;
			}
		}
	}
	if pos != recs.len() {
		fails.push(format!("the probe was processed {} times, the history explains {pos}", recs.len()));
	}
	(fails, pow_tab)
}
fn g_xtw(t: &XTw) -> String {
	let (ek, ep) = easing_code(t.e);
	let st = match t.st {
		XSt::Imm => "RSImm".to_string(),
		XSt::Delay(ns) => format!("(RSDelay {ns})"),
		XSt::Clock { ticks, frac } => format!("(RSClock 0 {} {})", ticks, f64_bits_z(frac)),
	};
	format!("(RXTween {} {} {} {})", st, t.dur_ns, ek, z(ep))
}
fn g_pow_tab(pow_tab: &[(f64, f64, f64)]) -> String {
	pow_tab.iter().map(|(a, b, c)| format!("({}, {}, {})", f64_bits_z(*a), f64_bits_z(*b), f64_bits_z(*c))).collect::<Vec<_>>().join("; ")
}
fn g_tw_case(sc: &TwScen, pow_tab: &[(f64, f64, f64)]) -> String {
	let ops: Vec<String> = sc
		.ops
		.iter()
		.map(|o| match o {
			TwOp::Set { target, tw } => format!("RTwSet {} {}", f64_bits_z(*target), g_xtw(tw)),
			TwOp::Ticking(b) => format!("RTwTicking {}", *b as u8),
			TwOp::Cb { frames } => format!("RTwCb {frames}"),
		})
		.collect();
	let clock = match sc.clock_tps {
		Some(t) => format!("(Some {})", f64_bits_z(t)),
		None => "None".to_string(),
	};
	format!("CTw {} {} {} {} [{}] [{}]", sc.sr, sc.ibs, f64_bits_z(sc.init), clock, ops.join("; "), g_pow_tab(pow_tab))
}
fn run_tw_one(s: &mut Session, kind: &str, sr: u32, ibs: usize, init: f64, clock_tps: Option<f64>, plan: &[TwPlan]) {
	let (sc, recs) = match catch(|| exec_tw(sr, ibs, init, clock_tps, plan)) {
		Outcome::Ok(x) => x,
		_ => {
			s.fail(format!("sr {sr} ibs {ibs} init {init:?} clock {clock_tps:?} plan {plan:?}"), format!("panicked: {}", last_panic()), None);
			return;
		}
	};
	let (fails, pow_tab) = check_tw(&sc, &recs);
	for f in fails {
		s.fail(format!("{sc:?}"), f, None);
	}
	let obs: Vec<i128> = recs.iter().map(|r| r.value.map(obs64).unwrap_or(-2)).collect();
	let key = if obs.is_empty() { None } else { Some(format!("{:?}", sc)) };
	s.case(kind, g_tw_case(&sc, &pow_tab), &obs, key);
	for p in plan {
		match p {
			TwPlan::Set(TwTarget::Current, _) => s.count("tw_set_to_current_value"),
			TwPlan::Set(TwTarget::Previous, _) => s.count("tw_set_to_previous_target"),
			TwPlan::Set(TwTarget::Initial, _) => s.count("tw_set_to_initial_value"),
			TwPlan::Set(TwTarget::Val(_), _) => s.count("tw_set_to_new_value"),
			TwPlan::Resend => s.count("tw_identical_command_resent"),
			_ => {}
		}
		if let TwPlan::Set(_, x) = p {
			match x.st {
				XSt::Imm => s.count("tw_start_immediate"),
				XSt::Delay(_) => s.count("tw_start_delayed"),
				XSt::Clock { .. } => s.count("tw_start_clock_time"),
			}
		}
	}
}
fn run_tw(s: &mut Session, rng: &mut Rng, n_random: u64) {
	// ---- the witness of `set_to_current_value_dropped_refuted` (and of the seeded change's demonstration) ----
	{
		let later = XTw { st: XSt::Delay(1_000_000_000), dur_ns: 500_000_000, e: Easing::Linear };
		let now0 = XTw { st: XSt::Imm, dur_ns: 0, e: Easing::Linear };
		let mut plan = vec![TwPlan::Cb(128), TwPlan::Cb(128), TwPlan::Set(TwTarget::Val(1.0), later)];
		plan.extend((0..3).map(|_| TwPlan::Cb(128)));
		plan.push(TwPlan::Set(TwTarget::Val(0.0), now0));
		plan.extend((0..30).map(|_| TwPlan::Cb(128)));
		plan.push(TwPlan::Set(TwTarget::Val(1.0), XTw { st: XSt::Imm, dur_ns: 500_000_000, e: Easing::Linear }));
		plan.extend((0..8).map(|_| TwPlan::Cb(128)));
		run_tw_one(s, "tw_fixed", 1280, 128, 0.0, None, &plan);
	}
	// ---- exhaustive small enumeration: first command x when the second arrives x its target x its tween ----
	let mut k = 0u64;
	for first_st in 0..3 {
		for first_dur in [0.0f64, 3.0] {
			for after in [1usize, 2, 4, 7] {
				for tkind in 0..4 {
					for second in 0..4 {
						k += 1;
						let (sr, ibs) = *rng.pick(&[(1000u32, 4usize), (48000, 128), (8, 2), (44100, 64), (1024, 16)]);
						let cs = ibs as f64 / sr as f64;
						let cns = cs * 1e9;
						let per_chunk = *rng.pick(&[0.5f64, 1.0, 0.75, 1.25]);
						let tps = per_chunk / cs;
						let init = *rng.pick(&[0.0f64, 0.25, -1.5, 3.0]);
						let a = init + *rng.pick(&[1.0f64, -2.0, 0.3]);
						let st1 = match first_st {
							0 => XSt::Imm,
							1 => XSt::Delay((2.5 * cns) as u64),
							_ => XSt::Clock { ticks: 2, frac: *rng.pick(&[0.0, 0.5]) },
						};
						let e1 = *rng.pick(&[Easing::Linear, Easing::InPowi(2), Easing::OutPowi(3), Easing::InOutPowi(2), Easing::OutPowf(1.5)]);
						let tw1 = XTw { st: st1, dur_ns: (first_dur * cns) as u64, e: e1 };
						let t2 = match tkind {
							0 => TwTarget::Current,
							1 => TwTarget::Previous,
							2 => TwTarget::Initial,
							_ => TwTarget::Val(init - 0.75),
						};
						let tw2 = match second {
							0 => XTw { st: XSt::Imm, dur_ns: 0, e: Easing::Linear },
							1 => XTw { st: XSt::Imm, dur_ns: (2.0 * cns) as u64, e: Easing::Linear },
							2 => XTw { st: XSt::Delay((1.5 * cns) as u64), dur_ns: (2.0 * cns) as u64, e: Easing::InPowi(2) },
							_ => XTw { st: XSt::Clock { ticks: 6, frac: 0.25 }, dur_ns: (2.0 * cns) as u64, e: Easing::Linear },
						};
						let mut plan = vec![TwPlan::Ticking(true), TwPlan::Cb(ibs), TwPlan::Set(TwTarget::Val(a), tw1)];
						plan.extend((0..after).map(|_| TwPlan::Cb(ibs)));
						if k % 3 == 0 {
							// an overwritten command first: only the last one before the callback counts
							plan.push(TwPlan::Set(TwTarget::Val(a + 5.0), XTw { st: XSt::Imm, dur_ns: 0, e: Easing::Linear }));
						}
						plan.push(TwPlan::Set(t2, tw2));
						plan.extend((0..4).map(|_| TwPlan::Cb(ibs)));
						plan.push(TwPlan::Cb(ibs * 3 + ibs / 2));
						plan.extend((0..3).map(|_| TwPlan::Cb(ibs)));
						run_tw_one(s, "tw_enumerated", sr, ibs, init, Some(tps), &plan);
					}
				}
			}
		}
	}
	// ---- the identical command once more (same target, same Tween, same handle) in a LATER interval: every read
	// command restarts the transition from the present value with time 0 and a fresh start time ----
	{
		// the seeded change's demonstration: 0 -> 1 in 2 s, re-sent after 1 s
		let t = XTw { st: XSt::Imm, dur_ns: 2_000_000_000, e: Easing::Linear };
		let mut plan = vec![TwPlan::Cb(1), TwPlan::Set(TwTarget::Val(1.0), t)];
		plan.extend((0..4).map(|_| TwPlan::Cb(1)));
		plan.push(TwPlan::Resend);
		plan.extend((0..10).map(|_| TwPlan::Cb(1)));
		run_tw_one(s, "tw_resend", 4, 1, 0.0, None, &plan);
	}
	for first_st in 0..3 {
		for dur in [3.0f64, 6.0] {
			for after in [1usize, 2, 4, 8, 12] {
				for repeats in [1usize, 3] {
					let (sr, ibs) = *rng.pick(&[(1000u32, 4usize), (48000, 128), (8, 2), (4, 1), (1024, 16)]);
					let cs = ibs as f64 / sr as f64;
					let cns = cs * 1e9;
					let tps = *rng.pick(&[0.5f64, 1.0, 0.75]) / cs;
					let init = *rng.pick(&[0.0f64, 0.25, -1.5]);
					let st = match first_st {
						0 => XSt::Imm,
						1 => XSt::Delay((2.5 * cns) as u64),
						_ => XSt::Clock { ticks: 2, frac: *rng.pick(&[0.0, 0.5]) },
					};
					let e = *rng.pick(&[Easing::Linear, Easing::InPowi(2), Easing::OutPowi(3), Easing::InOutPowi(2)]);
					let t = XTw { st, dur_ns: (dur * cns) as u64, e };
					let mut plan = vec![TwPlan::Ticking(true), TwPlan::Cb(ibs), TwPlan::Set(TwTarget::Val(init + 1.0), t)];
					plan.extend((0..after).map(|_| TwPlan::Cb(ibs)));
					for r in 0..repeats {
						plan.push(TwPlan::Resend);
						if r % 2 == 1 {
							plan.push(TwPlan::Resend); // twice in one interval: read once
						}
						plan.push(TwPlan::Cb(ibs));
						plan.push(TwPlan::Cb(ibs + ibs / 2));
					}
					plan.extend((0..8).map(|_| TwPlan::Cb(ibs)));
					run_tw_one(s, "tw_resend", sr, ibs, init, Some(tps), &plan);
				}
			}
		}
	}
	// ---- random histories ----
	for _ in 0..n_random {
		let (sr, ibs) = *rng.pick(&[(1000u32, 4usize), (48000, 128), (8, 2), (44100, 64), (1024, 16), (22050, 3), (7, 1)]);
		let cs = ibs as f64 / sr as f64;
		let cns = cs * 1e9;
		let tps = (0.3 + rng.unit_f64()) / cs;
		let init = (rng.range(-16, 16) as f64) / 4.0;
		let mut plan = vec![];
		let mut ticking = false;
		let mut chunks = 0usize;
		let steps = rng.range(3, 7);
		for _ in 0..steps {
			if rng.chance(1, 3) {
				ticking = !ticking || rng.chance(1, 2);
				plan.push(TwPlan::Ticking(ticking));
			}
			if rng.chance(1, 5) {
				plan.push(TwPlan::Resend);
			}
			for _ in 0..rng.below(3) {
				let target = match rng.below(6) {
					0 | 1 => TwTarget::Current,
					2 => TwTarget::Previous,
					3 => TwTarget::Initial,
					_ => TwTarget::Val((rng.range(-16, 16) as f64) / 4.0 + if rng.chance(1, 2) { 0.0 } else { rng.unit_f64() }),
				};
				let st = match rng.below(5) {
					0 | 1 => XSt::Imm,
					2 => XSt::Delay((rng.unit_f64() * 4.0 * cns) as u64),
					3 => XSt::Delay((*rng.pick(&[0.0f64, 1.0, 2.0, 0.5]) * cns).round() as u64),
					_ => XSt::Clock { ticks: rng.below(8), frac: *rng.pick(&[0.0, 0.5, 0.25, 0.999]) },
				};
				let dur_ns = match rng.below(4) {
					0 => 0,
					1 => (*rng.pick(&[1.0f64, 2.0, 3.0]) * cns).round() as u64,
					_ => (rng.unit_f64() * 5.0 * cns) as u64,
				};
				let e = match rng.below(6) {
					0 | 1 => Easing::Linear,
					2 => Easing::InPowi(rng.range(1, 4) as i32),
					3 => Easing::OutPowi(rng.range(1, 4) as i32),
					4 => Easing::InOutPowi(rng.range(1, 4) as i32),
					_ => Easing::InOutPowf(*rng.pick(&[0.5, 1.5, 2.0])),
				};
				plan.push(TwPlan::Set(target, XTw { st, dur_ns, e }));
			}
			let frames = match rng.below(4) {
				0 => ibs,
				1 => ibs * rng.range(1, 3) as usize,
				_ => rng.range(1, ibs as i64 * 3) as usize,
			};
			chunks += chunk_lens(ibs, frames).len();
			plan.push(TwPlan::Cb(frames));
			if chunks > 16 {
				break;
			}
		}
		run_tw_one(s, "tw_random", sr, ibs, init, Some(tps), &plan);
	}
}

// ---- (A') the same for the LFO's parameter commands: set_frequency / set_amplitude / set_offset with a tween,
// re-sent bit for bit in a later interval, restart the parameter's transition from its present value ----
fn lfo_resend_scenarios(rng: &mut Rng) -> Vec<Scen> {
	let mut v = vec![];
	for which in 0u8..3 {
		for delayed in [false, true] {
			for after in [1usize, 2, 6] {
				for repeats in [1usize, 2] {
					let (sr, ibs) = *rng.pick(&[(1000u32, 4usize), (8, 2), (4, 1), (1024, 16)]);
					let cs = ibs as f64 / sr as f64;
					let cns = cs * 1e9;
					let w = if which == 0 { *rng.pick(&[Wave::Saw, Wave::Triangle]) } else { *rng.pick(&[Wave::Pulse(1.0), Wave::Saw, Wave::Sine]) };
					let f0 = *rng.pick(&[0.0, 0.125, 0.0625]) / cs;
					let (a0, o0) = (*rng.pick(&[1.0, 0.5]), *rng.pick(&[0.0, 0.25]));
					let target = match which {
						0 => f0 + 0.25 / cs,
						1 => a0 + 1.5,
						_ => o0 - 2.0,
					};
					let tw = Tw { delay_ns: if delayed { (1.5 * cns) as i64 } else { -1 }, dur_ns: (4.0 * cns) as u64, e: *rng.pick(&[Easing::Linear, Easing::InPowi(2), Easing::OutPowi(2)]) };
					let mut ops = vec![
						Op::AddLfo { w, f: Val::Fixed(f0), a: Val::Fixed(a0), o: Val::Fixed(o0), phase: 0.0 },
						Op::AddProbe { watch: 0, v: ident_link(0) },
						Op::Cb { frames: ibs },
						Op::SetLfoParam { id: 0, which, target: Val::Fixed(target), tw: tw.clone() },
					];
					ops.extend((0..after).map(|_| Op::Cb { frames: ibs }));
					for _ in 0..repeats {
						ops.push(Op::SetLfoParam { id: 0, which, target: Val::Fixed(target), tw: tw.clone() });
						ops.push(Op::Cb { frames: ibs });
						ops.push(Op::Cb { frames: ibs + ibs / 2 });
					}
					ops.extend((0..6).map(|_| Op::Cb { frames: ibs }));
					v.push(Scen { sr, ibs, ops });
				}
			}
		}
	}
	v
}
/// exact mirror of one LFO (id 0) whose three parameters are fixed values moved by commands with tweens; the probe
/// (pid 0) reads its value once per chunk.  Every command that is read starts a transition from the parameter's
/// present value with time 0 and a fresh delay -- also a command identical to the one before.
fn check_lfo_hist(sc: &Scen, tr: &Trace, fails: &mut Vec<(String, Option<&'static str>)>) {
	struct P {
		raw: f64,
		tw: Option<(f64, f64, Tw, f64, Duration)>,
		pending: Option<(f64, Tw)>,
	}
	impl P {
		fn update(&mut self, dtc: f64) {
			if let Some((start, target, t, time, remaining)) = &mut self.tw {
				let started = if t.delay_ns < 0 || remaining.is_zero() {
					true
				} else {
					*remaining = remaining.saturating_sub(Duration::from_secs_f64(dtc));
					false
				};
				let d = Duration::from_nanos(t.dur_ns).as_secs_f64();
				if started {
					*time += dtc;
					if *time >= d {
						self.raw = *target;
						self.tw = None;
						return;
					}
				}
				if t.dur_ns != 0 {
					self.raw = *start + (*target - *start) * apply_easing(t.e, *time / d);
				}
			}
		}
	}
	let Some(Op::AddLfo { w, f: Val::Fixed(f0), a: Val::Fixed(a0), o: Val::Fixed(o0), phase }) = sc.ops.first() else { return };
	let mut ps = [P { raw: *f0, tw: None, pending: None }, P { raw: *a0, tw: None, pending: None }, P { raw: *o0, tw: None, pending: None }];
	let mut ph = *phase / TAU;
	let dt = 1.0 / sc.sr as f64;
	let vals: Vec<Option<f64>> = tr.log.iter().filter_map(|e| match e { Ev::Probe { pid: 0, raw, .. } => Some(*raw), _ => None }).collect();
	let (mut pos, mut ncb) = (0usize, 0usize);
	for op in &sc.ops {
		match op {
			Op::SetLfoParam { id: 0, which, target: Val::Fixed(t), tw } => ps[*which as usize].pending = Some((*t, tw.clone())),
			Op::Cb { frames } => {
				for p in ps.iter_mut() {
					if let Some((t, tw)) = p.pending.take() {
						let rem = Duration::from_nanos(tw.delay_ns.max(0) as u64);
						p.tw = Some((p.raw, t, tw, 0.0, rem));
					}
				}
				for len in chunk_lens(sc.ibs, *frames) {
					let dtc = dt * len as f64;
					for p in ps.iter_mut() {
						p.update(dtc);
					}
					ph += dtc * ps[0].raw;
					ph = ph.rem_euclid(1.0);
					let wave = match w {
						Wave::Sine => (ph * TAU).sin(),
						Wave::Triangle => ((ph + 0.75).fract() - 0.5).abs() * 4.0 - 1.0,
						Wave::Saw => (ph + 0.5).fract() * 2.0 - 1.0,
						Wave::Pulse(width) => {
							if ph < *width {
								1.0
							} else {
								-1.0
							}
						}
					};
					let want = ps[2].raw + ps[1].raw * wave;
					match vals.get(pos) {
						Some(Some(x)) if obs64(*x) == obs64(want) => {}
						other => {
							fails.push((
								format!("LFO parameter command history: chunk {pos} (callback {ncb}): the LFO is at {other:?}; with every read command (also one identical to the one before) restarting the parameter's transition from its present value, frequency {:?}, amplitude {:?}, offset {:?}, phase {ph:?} give {want:?}", ps[0].raw, ps[1].raw, ps[2].raw),
								None,
							));
							return;
						}
					}
					pos += 1;
				}
				ncb += 1;
			}
			_ => {}
		}
	}
}

// ==========================================================================================
// (B) listeners are readers of modulators and clocks; a spatial track reads the listener in the same chunk
// ==========================================================================================
#[derive(Clone, Debug)]
enum VVal {
	Fixed([f32; 3]),
	Mod { id: usize, lo: f64, hi: f64, a: [f32; 3], b: [f32; 3], e: Easing },
}
#[derive(Clone, Debug)]
enum LOp {
	AddTweener { init: f64 },
	AddLfo { w: Wave, f: f64, a: f64, o: f64, phase: f64 },
	SetTweener { id: usize, target: f64, tw: Tw },
	/// fixed speed in ticks per second; started at once
	AddClock { tps: f64 },
	Ticking { cid: usize, on: bool },
	AddListener { pos: VVal },
	SetListener { lid: usize, target: VVal, tw: XTw, cid: usize },
	/// spatial track at a fixed position whose probe effect watches modulator `watch` and clock `cid`
	AddSpat { lid: usize, e: [f32; 3], watch: usize, cid: usize },
	Cb { frames: usize },
}
#[derive(Clone, Debug)]
struct LScen {
	sr: u32,
	ibs: usize,
	ops: Vec<LOp>,
}
#[derive(Clone, Debug)]
struct SpRec {
	sid: usize,
	len: usize,
	modv: Option<f64>,
	clock: Option<(bool, u64, f64)>,
	pos: Option<([f32; 3], [f32; 3])>,
	dist: Option<f32>,
}
struct SpProbe {
	sid: usize,
	watch: Option<ModulatorId>,
	clock: Option<ClockId>,
	log: Arc<Mutex<Vec<SpRec>>>,
}
impl Effect for SpProbe {
	fn process(&mut self, input: &mut [Frame], _dt: f64, info: &Info) {
		let clock = self.clock.and_then(|c| info.clock_info(c)).map(|c| (c.ticking, c.time.ticks, c.time.fraction));
		let pos = info.listener_info().map(|l| ([l.position.x, l.position.y, l.position.z], [l.previous_position.x, l.previous_position.y, l.previous_position.z]));
		self.log.lock().unwrap().push(SpRec { sid: self.sid, len: input.len(), modv: self.watch.and_then(|w| info.modulator_value(w)), clock, pos, dist: info.listener_distance() });
	}
}
fn mv3(a: [f32; 3]) -> mint::Vector3<f32> {
	mint::Vector3 { x: a[0], y: a[1], z: a[2] }
}
fn gv3(a: [f32; 3]) -> glam::Vec3 {
	glam::Vec3::new(a[0], a[1], a[2])
}
fn av3(v: glam::Vec3) -> [f32; 3] {
	[v.x, v.y, v.z]
}
fn to_vvalue(v: &VVal, ids: &[ModulatorId]) -> Value<mint::Vector3<f32>> {
	match v {
		VVal::Fixed(p) => Value::Fixed(mv3(*p)),
		VVal::Mod { id, lo, hi, a, b, e } => Value::FromModulator { id: ids[*id], mapping: Mapping { input_range: (*lo, *hi), output_range: (mv3(*a), mv3(*b)), easing: *e } },
	}
}
fn exec_lis(sc: &LScen) -> Vec<SpRec> {
	let caps = Capacities { sub_track_capacity: 16, send_track_capacity: 4, clock_capacity: 8, modulator_capacity: 16, listener_capacity: 8 };
	let mut mgr = manager(sc.sr, sc.ibs, caps, MainTrackBuilder::new());
	let log: Arc<Mutex<Vec<SpRec>>> = Arc::default();
	let mut ids: Vec<ModulatorId> = vec![];
	let mut tweeners: BTreeMap<usize, TweenerHandle> = BTreeMap::new();
	let mut lfos: Vec<LfoHandle> = vec![];
	let mut clocks: Vec<ClockHandle> = vec![];
	let mut listeners: Vec<kira::listener::ListenerHandle> = vec![];
	let mut tracks: Vec<kira::track::SpatialTrackHandle> = vec![];
	for op in &sc.ops {
		match op {
			LOp::AddTweener { init } => {
				let h = mgr.add_modulator(TweenerBuilder { initial_value: *init }).unwrap();
				ids.push(h.id());
				tweeners.insert(ids.len() - 1, h);
			}
			LOp::AddLfo { w, f, a, o, phase } => {
				let h = mgr.add_modulator(LfoBuilder::new().waveform(to_wave(*w)).frequency(*f).amplitude(*a).offset(*o).starting_phase(*phase)).unwrap();
				ids.push(h.id());
				lfos.push(h);
			}
			LOp::SetTweener { id, target, tw } => {
				if let Some(h) = tweeners.get_mut(id) {
					h.set(*target, to_tween(tw));
				}
			}
			LOp::AddClock { tps } => {
				let mut h = mgr.add_clock(ClockSpeed::TicksPerSecond(*tps)).unwrap();
				h.start();
				clocks.push(h);
			}
			LOp::Ticking { cid, on } => {
				if *on {
					clocks[*cid].start()
				} else {
					clocks[*cid].pause()
				}
			}
			LOp::AddListener { pos } => {
				let q = mint::Quaternion { v: mint::Vector3 { x: 0.0, y: 0.0, z: 0.0 }, s: 1.0 };
				listeners.push(mgr.add_listener(to_vvalue(pos, &ids), q).unwrap());
			}
			LOp::SetListener { lid, target, tw, cid } => {
				let c = clocks.get(*cid).map(|c| c.id());
				listeners[*lid].set_position(to_vvalue(target, &ids), to_xtween(tw, c));
			}
			LOp::AddSpat { lid, e, watch, cid } => {
				let sid = tracks.len();
				let mut b = kira::track::SpatialTrackBuilder::new();
				b.add_built_effect(Box::new(SpProbe { sid, watch: ids.get(*watch).copied(), clock: clocks.get(*cid).map(|c| c.id()), log: log.clone() }));
				tracks.push(mgr.add_spatial_sub_track(listeners[*lid].id(), mv3(*e), b).unwrap());
			}
			LOp::Cb { frames } => {
				let _ = mgr.backend_mut().callback(*frames, 2);
			}
		}
	}
	let l = log.lock().unwrap().clone();
	drop(lfos);
	l
}
/// Rust mirror of `listener_linked_same_chunk`, `listener_clock_same_chunk`, `spatial_distance_same_chunk`
fn check_lis(sc: &LScen, recs: &[SpRec]) -> (Vec<String>, Vec<(f64, f64)>, Vec<(f64, f64, f64)>, bool) {
	#[derive(Clone)]
	enum LState {
		Idle(VVal),
		Tween { start: glam::Vec3, target: VVal, time: f64, tw: XTw, remaining: Duration, cid: usize },
	}
	struct ML {
		state: LState,
		raw: glam::Vec3,
		prev: glam::Vec3,
		stagnant: bool,
		updates: usize,
		pending: Option<(VVal, XTw, usize)>,
	}
	struct MS {
		lid: usize,
		e: glam::Vec3,
		watch: usize,
		cid: usize,
	}
	let dt = 1.0 / sc.sr as f64;
	let mut fails: Vec<String> = vec![];
	let sin_tab: Vec<(f64, f64)> = vec![];
	let mut pow_tab: Vec<(f64, f64, f64)> = vec![];
	let modelable = true;
	let mut ls: Vec<ML> = vec![];
	let mut sp: Vec<MS> = vec![];
	let mut pos = 0usize;
	let mut nchunk = 0usize;
	let vmap = |id_val: Option<f64>, lo: f64, hi: f64, a: [f32; 3], b: [f32; 3], e: Easing| -> Option<glam::Vec3> {
		id_val.map(|x| Mapping { input_range: (lo, hi), output_range: (gv3(a), gv3(b)), easing: e }.map(x))
	};
	for op in &sc.ops {
		match op {
			LOp::AddListener { pos: p } => {
				let raw = match p {
					VVal::Fixed(x) => gv3(*x),
					_ => glam::Vec3::ZERO,
				};
				ls.push(ML { state: LState::Idle(p.clone()), raw, prev: raw, stagnant: matches!(p, VVal::Fixed(_)), updates: 0, pending: None });
			}
			LOp::SetListener { lid, target, tw, cid } => ls[*lid].pending = Some((target.clone(), *tw, *cid)),
			LOp::AddSpat { lid, e, watch, cid } => sp.push(MS { lid: *lid, e: gv3(*e), watch: *watch, cid: *cid }),
			LOp::Cb { frames } => {
				for l in ls.iter_mut() {
					if let Some((target, tw, cid)) = l.pending.take() {
						let remaining = match tw.st {
							XSt::Delay(ns) => Duration::from_nanos(ns),
							_ => Duration::ZERO,
						};
						l.state = LState::Tween { start: l.raw, target, time: 0.0, tw, remaining, cid };
						l.stagnant = false;
					}
				}
				for len in chunk_lens(sc.ibs, *frames) {
					let dtc = dt * len as f64;
					// the records of this chunk, one per spatial track
					let mut by_sid: BTreeMap<usize, SpRec> = BTreeMap::new();
					for _ in 0..sp.len() {
						match recs.get(pos) {
							Some(r) => {
								if r.len != len {
									fails.push(format!("chunk {nchunk}: spatial probe {} processed {} frames in a chunk of {len}", r.sid, r.len));
									return (fails, sin_tab, pow_tab, modelable);
								}
								if by_sid.insert(r.sid, r.clone()).is_some() {
									fails.push(format!("chunk {nchunk}: spatial probe {} processed twice", r.sid));
									return (fails, sin_tab, pow_tab, modelable);
								}
								pos += 1;
							}
							None => {
								fails.push(format!("chunk {nchunk}: not every spatial probe was processed"));
								return (fails, sin_tab, pow_tab, modelable);
							}
						}
					}
					// what this chunk's modulator / clock updates produced, as read in the mixer of THIS chunk
					let mod_now = |m: usize| -> Option<Option<f64>> { sp.iter().enumerate().find(|(_, s)| s.watch == m).and_then(|(i, _)| by_sid.get(&i)).map(|r| r.modv) };
					let clock_now = |c: usize| -> Option<Option<(bool, u64, f64)>> { sp.iter().enumerate().find(|(_, s)| s.cid == c).and_then(|(i, _)| by_sid.get(&i)).map(|r| r.clock) };
					// listeners: updated after the modulators and after the clocks of this chunk
					for (li, l) in ls.iter_mut().enumerate() {
						l.prev = l.raw;
						l.updates += 1;
						if l.stagnant {
							continue;
						}
						let mut unknown = false;
						if let LState::Tween { target, time, tw, remaining, cid, .. } = &mut l.state {
							let started = match tw.st {
								XSt::Imm => true,
								XSt::Delay(_) => {
									if remaining.is_zero() {
										true
									} else {
										*remaining = remaining.saturating_sub(Duration::from_secs_f64(dtc));
										false
									}
								}
								XSt::Clock { ticks, frac } => match clock_now(*cid) {
									Some(Some((t, k, f))) => t && (k > ticks || (k == ticks && f >= frac)),
									Some(None) => false,
									None => {
										unknown = true;
										false
									}
								},
							};
							if started {
								*time += dtc;
								if *time >= Duration::from_nanos(tw.dur_ns).as_secs_f64() {
									let t = target.clone();
									if matches!(t, VVal::Fixed(_)) {
										l.stagnant = true;
									}
									l.state = LState::Idle(t);
								}
							}
						}
						if unknown {
							fails.push(format!("listener {li}: no probe watches its clock (generator error)"));
							return (fails, sin_tab, pow_tab, modelable);
						}
						let raw_of = |v: &VVal, pow_tab: &mut Vec<(f64, f64, f64)>| -> Option<Option<glam::Vec3>> {
							match v {
								VVal::Fixed(x) => Some(Some(gv3(*x))),
								VVal::Mod { id, lo, hi, a, b, e } => mod_now(*id).map(|mv| {
									if let (Some(x), true) = (mv, is_powf(*e)) {
										pow_tab.extend(easing_oracle(*e, ((x - lo) / (hi - lo)).clamp(0.0, 1.0)));
									}
									vmap(mv, *lo, *hi, *a, *b, *e)
								}),
							}
						};
						let new_raw = match &l.state {
							LState::Idle(v) => raw_of(v, &mut pow_tab),
							LState::Tween { start, target, time, tw, .. } => {
								if tw.dur_ns == 0 {
									Some(None)
								} else {
									let x = *time / Duration::from_nanos(tw.dur_ns).as_secs_f64();
									pow_tab.extend(easing_oracle(tw.e, x));
									let amount = apply_easing(tw.e, x);
									raw_of(target, &mut pow_tab).map(|t| t.map(|t| <glam::Vec3 as kira::Tweenable>::interpolate(*start, t, amount)))
								}
							}
						};
						match new_raw {
							Some(Some(v)) => l.raw = v,
							Some(None) => {}
							None => {
								fails.push(format!("listener {li}: no probe watches its modulator (generator error)"));
								return (fails, sin_tab, pow_tab, modelable);
							}
						}
					}
					// the mixer: every spatial track reads the listener of THIS chunk
					for (si, sdef) in sp.iter().enumerate() {
						let r = &by_sid[&si];
						let l = &ls[sdef.lid];
						let describe_l = |l: &ML| match &l.state {
							LState::Idle(VVal::Mod { id, .. }) => format!("position linked to modulator {id} whose value in this chunk is {:?}", mod_now(*id).flatten()),
							LState::Idle(VVal::Fixed(_)) => "position fixed".to_string(),
							LState::Tween { tw, time, cid, .. } => format!("position in a transition {tw:?} (time {time:?}); clock {cid} in this chunk: {:?}", clock_now(*cid).flatten()),
						};
						if l.updates == 0 {
							continue;
						}
						match r.pos {
							Some((p, pp)) => {
								let (want, wantp) = (av3(l.raw), av3(l.prev));
								let same = |a: [f32; 3], b: [f32; 3]| (0..3).all(|i| obs32(a[i]) == obs32(b[i]));
								if !same(p, want) {
									fails.push(format!("same-chunk (listener): chunk {nchunk}: spatial track {si} reads listener {} at {p:?}; updated after this chunk's modulators and clocks it is at {want:?} [{}]", sdef.lid, describe_l(l)));
									return (fails, sin_tab, pow_tab, modelable);
								}
								if !same(pp, wantp) {
									fails.push(format!("chunk {nchunk}: spatial track {si} reads previous position {pp:?} of listener {}, expected {wantp:?}", sdef.lid));
									return (fails, sin_tab, pow_tab, modelable);
								}
								let wd = gv3(p).distance(sdef.e);
								match r.dist {
									Some(d) if obs32(d) == obs32(wd) => {}
									other => {
										fails.push(format!("chunk {nchunk}: spatial track {si}: listener_distance() = {other:?}, listener at {p:?}, emitter at {:?}: {wd:?}", sdef.e));
										return (fails, sin_tab, pow_tab, modelable);
									}
								}
								let wl = l.raw.distance(sdef.e);
								if r.dist.map(obs32) != Some(obs32(wl)) {
									fails.push(format!("same-chunk (distance): chunk {nchunk}: spatial track {si} hears distance {:?}; for the modulator value / clock time of this chunk it is {wl:?} [{}]", r.dist, describe_l(l)));
									return (fails, sin_tab, pow_tab, modelable);
								}
							}
							None => {
								fails.push(format!("chunk {nchunk}: spatial track {si} has no listener info although listener {} exists", sdef.lid));
								return (fails, sin_tab, pow_tab, modelable);
							}
						}
					}
					nchunk += 1;
				}
			}
			_ => {}
		}
	}
	if pos != recs.len() {
		fails.push(format!("{} spatial probe records, the history explains {pos}", recs.len()));
	}
	(fails, sin_tab, pow_tab, modelable)
}
fn f32z(x: f32) -> String {
	f32_bits_z(x)
}
fn g_vval(v: &VVal) -> String {
	match v {
		VVal::Fixed(p) => format!("(RVFixed {} {} {})", f32z(p[0]), f32z(p[1]), f32z(p[2])),
		VVal::Mod { id, lo, hi, a, b, e } => {
			let (ek, ep) = easing_code(*e);
			format!("(RVMod {} {} {} {} {} {} {} {} {} {} {})", id, f64_bits_z(*lo), f64_bits_z(*hi), f32z(a[0]), f32z(a[1]), f32z(a[2]), f32z(b[0]), f32z(b[1]), f32z(b[2]), ek, z(ep))
		}
	}
}
fn g_lis_case(sc: &LScen, sin_tab: &[(f64, f64)], pow_tab: &[(f64, f64, f64)]) -> String {
	let mut ops = vec![];
	let (mut nid, mut ncid, mut nlid, mut nsid) = (0usize, 0usize, 0usize, 0usize);
	for op in &sc.ops {
		ops.push(match op {
			LOp::AddTweener { init } => {
				nid += 1;
				format!("RXBase (RAddTweener {} {})", nid - 1, f64_bits_z(*init))
			}
			LOp::AddLfo { w, f, a, o, phase } => {
				nid += 1;
				format!("RXBase (RAddLfo {} {} {} {} {} {})", nid - 1, g_wave(*w), g_val(&Val::Fixed(*f)), g_val(&Val::Fixed(*a)), g_val(&Val::Fixed(*o)), f64_bits_z(*phase))
			}
			LOp::SetTweener { id, target, tw } => format!("RXBase (RSetTweener {} {} {})", id, f64_bits_z(*target), g_tw(tw)),
			LOp::AddClock { tps } => {
				ncid += 1;
				format!("RXBase (RAddClock {} {})", ncid - 1, g_val(&Val::Fixed(*tps)))
			}
			LOp::Ticking { cid, on } => format!("RXTicking {} {}", cid, *on as u8),
			LOp::AddListener { pos } => {
				nlid += 1;
				format!("RXAddListener {} {}", nlid - 1, g_vval(pos))
			}
			LOp::SetListener { lid, target, tw, cid } => {
				let t = match tw.st {
					XSt::Clock { ticks, frac } => {
						let (ek, ep) = easing_code(tw.e);
						format!("(RXTween (RSClock {} {} {}) {} {} {})", cid, ticks, f64_bits_z(frac), tw.dur_ns, ek, z(ep))
					}
					_ => g_xtw(tw),
				};
				format!("RXSetListener {} {} {}", lid, g_vval(target), t)
			}
			LOp::AddSpat { lid, e, watch, cid } => {
				nsid += 1;
				format!("RXAddSpat {} {} {} {} {} {} {}", nsid - 1, lid, f32z(e[0]), f32z(e[1]), f32z(e[2]), watch, cid)
			}
			LOp::Cb { frames } => format!("RXCb {frames}"),
		});
	}
	let st = sin_tab.iter().map(|(a, b)| format!("({}, {})", f64_bits_z(*a), f64_bits_z(*b))).collect::<Vec<_>>().join("; ");
	format!("CLis {} {} [{}] [{}] [{}]", sc.sr, sc.ibs, ops.join("; "), st, g_pow_tab(pow_tab))
}
fn lis_observable(recs: &[SpRec]) -> Vec<i128> {
	let mut out = vec![];
	// per spatial track in creation order (the mixer's iteration order over its sub-tracks is the arena's)
	let mut order: Vec<&SpRec> = recs.iter().collect();
	order.sort_by_key(|r| r.sid);
	for r in order {
		out.push(r.sid as i128);
		out.push(r.len as i128);
		out.extend(enc_opt(r.modv));
		match r.clock {
			Some((t, k, f)) => out.extend([1, t as i128, k as i128, obs64(f)]),
			None => out.extend([0, 0, 0, 0]),
		}
		match r.pos {
			Some((p, pp)) => {
				out.push(1);
				out.extend(p.iter().map(|x| obs32(*x)));
				out.extend(pp.iter().map(|x| obs32(*x)));
			}
			None => out.extend([0; 7]),
		}
		match r.dist {
			Some(d) => out.extend([1, obs32(d)]),
			None => out.extend([0, 0]),
		}
	}
	out
}
fn run_lis_one(s: &mut Session, kind: &str, sc: &LScen) {
	let recs = match catch(|| exec_lis(sc)) {
		Outcome::Ok(r) => r,
		_ => {
			s.fail(format!("{sc:?}"), format!("panicked: {}", last_panic()), None);
			return;
		}
	};
	let (fails, sin_tab, pow_tab, modelable) = check_lis(sc, &recs);
	for f in fails {
		s.fail(format!("{sc:?}"), f, None);
	}
	// libm sin for the LFOs the model has to run
	let mut sin_tab = sin_tab;
	let mut ok = modelable;
	{
		// mirror of the phase of every sine LFO (fixed frequency): per chunk phase += dt*len*f; rem_euclid
		let dt = 1.0 / sc.sr as f64;
		let mut lf: Vec<(f64, f64)> = vec![];
		for op in &sc.ops {
			match op {
				LOp::AddLfo { w: Wave::Sine, f, phase, .. } => lf.push((*phase / TAU, *f)),
				LOp::Cb { frames } => {
					for len in chunk_lens(sc.ibs, *frames) {
						for (ph, f) in lf.iter_mut() {
							*ph += dt * len as f64 * *f;
							*ph = ph.rem_euclid(1.0);
							let arg = *ph * TAU;
							sin_tab.push((arg, arg.sin()));
						}
					}
				}
				_ => {}
			}
		}
		// a sine LFO added after a callback would start later than this mirror assumes: such histories are not generated
		let mut seen_cb = false;
		for op in &sc.ops {
			match op {
				LOp::Cb { .. } => seen_cb = true,
				LOp::AddLfo { w: Wave::Sine, .. } if seen_cb => ok = false,
				_ => {}
			}
		}
	}
	if ok {
		// grouped per spatial track, as `C17.Run.run` does
		let obs = lis_observable(&recs);
		let key = if obs.is_empty() { None } else { Some(format!("{sc:?}")) };
		s.case(kind, g_lis_case(sc, &sin_tab, &pow_tab), &obs, key);
	} else {
		s.eval_only(&format!("{kind}_monitor_only"));
	}
	for op in &sc.ops {
		match op {
			LOp::AddListener { pos: VVal::Mod { .. } } => s.count("lis_position_linked_at_creation"),
			LOp::SetListener { target: VVal::Mod { .. }, .. } => s.count("lis_position_linked_by_command"),
			LOp::SetListener { tw: XTw { st: XSt::Clock { .. }, .. }, .. } => s.count("lis_position_tween_at_clock_time"),
			LOp::SetListener { .. } => s.count("lis_position_tween"),
			_ => {}
		}
	}
}
fn run_lis(s: &mut Session, rng: &mut Rng, n_random: u64) {
	let gen = |rng: &mut Rng, variant: u64| -> LScen {
		let (sr, ibs) = *rng.pick(&[(1000u32, 4usize), (48000, 128), (8, 2), (44100, 64), (1024, 16), (22050, 3)]);
		let cs = ibs as f64 / sr as f64;
		let cns = cs * 1e9;
		let mut ops = vec![];
		let v = |rng: &mut Rng| -> [f32; 3] { [rng.range(-40, 40) as f32 / 4.0, rng.range(-40, 40) as f32 / 8.0, rng.range(-40, 40) as f32 / 4.0 + 0.125] };
		let e = *rng.pick(&[Easing::Linear, Easing::Linear, Easing::InPowi(2), Easing::OutPowi(2), Easing::InOutPowi(3), Easing::InPowf(1.5)]);
		// modulator 0: a tweener that is moved, or an LFO
		let lfo = variant % 3 == 1;
		if lfo {
			let w = *rng.pick(&[Wave::Triangle, Wave::Saw, Wave::Sine, Wave::Pulse(0.5)]);
			ops.push(LOp::AddLfo { w, f: *rng.pick(&[0.125, 0.0625, 0.3]) / cs, a: *rng.pick(&[1.0, 0.5, 2.0]), o: *rng.pick(&[0.0, 0.25]), phase: 0.0 });
		} else {
			ops.push(LOp::AddTweener { init: *rng.pick(&[0.0, 0.5, -1.0]) });
		}
		let tps = *rng.pick(&[0.4, 1.0, 1.7, 0.75]) / cs;
		ops.push(LOp::AddClock { tps });
		let (lo, hi) = *rng.pick(&[(-1.0f64, 1.0f64), (0.0, 1.0), (1.0, -1.0), (0.0, 4.0)]);
		let link = VVal::Mod { id: 0, lo, hi, a: v(rng), b: v(rng), e };
		let clock_tw = |rng: &mut Rng| XTw { st: XSt::Clock { ticks: rng.range(1, 4) as u64, frac: *rng.pick(&[0.0, 0.5, 0.25]) }, dur_ns: (*rng.pick(&[0.0f64, 2.5, 1.0, 3.0]) * cns) as u64, e: *rng.pick(&[Easing::Linear, Easing::OutPowi(2)]) };
		match variant % 4 {
			0 | 1 => {
				// listener 0 linked at creation; listener 1 fixed, then sent to a fixed place at a clock time
				ops.push(LOp::AddListener { pos: link.clone() });
				ops.push(LOp::AddListener { pos: VVal::Fixed(v(rng)) });
				ops.push(LOp::AddSpat { lid: 0, e: v(rng), watch: 0, cid: 0 });
				ops.push(LOp::AddSpat { lid: 1, e: v(rng), watch: 0, cid: 0 });
				let t = clock_tw(rng);
				ops.push(LOp::SetListener { lid: 1, target: VVal::Fixed(v(rng)), tw: t, cid: 0 });
			}
			2 => {
				// fixed at first, linked later by a command (instant, or over a transition)
				ops.push(LOp::AddListener { pos: VVal::Fixed(v(rng)) });
				ops.push(LOp::AddSpat { lid: 0, e: v(rng), watch: 0, cid: 0 });
				ops.push(LOp::Cb { frames: ibs });
				let tw = if rng.chance(1, 2) { XTw { st: XSt::Imm, dur_ns: 0, e: Easing::Linear } } else { XTw { st: XSt::Delay((1.5 * cns) as u64), dur_ns: (2.0 * cns) as u64, e: Easing::Linear } };
				ops.push(LOp::SetListener { lid: 0, target: link.clone(), tw, cid: 0 });
			}
			_ => {
				// a linked listener sent towards ANOTHER link at a clock time
				ops.push(LOp::AddListener { pos: link.clone() });
				ops.push(LOp::AddSpat { lid: 0, e: v(rng), watch: 0, cid: 0 });
				ops.push(LOp::Cb { frames: ibs + 1 });
				let t = clock_tw(rng);
				ops.push(LOp::SetListener { lid: 0, target: VVal::Mod { id: 0, lo: hi, hi: lo, a: v(rng), b: v(rng), e: Easing::Linear }, tw: t, cid: 0 });
			}
		}
		if !lfo {
			let tw = match rng.below(3) {
				0 => Tw { delay_ns: -1, dur_ns: (5.0 * cns) as u64, e: Easing::Linear },
				1 => Tw { delay_ns: (1.5 * cns) as i64, dur_ns: (3.0 * cns) as u64, e: Easing::InPowi(2) },
				_ => Tw { delay_ns: -1, dur_ns: (rng.unit_f64() * 6.0 * cns) as u64, e: Easing::OutPowi(2) },
			};
			ops.push(LOp::SetTweener { id: 0, target: *rng.pick(&[1.0, -1.0, 4.0]), tw });
		}
		ops.push(LOp::Cb { frames: ibs * 2 });
		if rng.chance(1, 3) {
			ops.push(LOp::Ticking { cid: 0, on: false });
			ops.push(LOp::Cb { frames: ibs });
			ops.push(LOp::Ticking { cid: 0, on: true });
		}
		ops.push(LOp::Cb { frames: ibs * 2 + ibs / 2 });
		ops.push(LOp::Cb { frames: ibs });
		if !lfo && rng.chance(1, 2) {
			ops.push(LOp::SetTweener { id: 0, target: 0.25, tw: Tw { delay_ns: -1, dur_ns: (2.0 * cns) as u64, e: Easing::Linear } });
		}
		ops.push(LOp::Cb { frames: ibs * 2 });
		LScen { sr, ibs, ops }
	};
	// ---- the witness of `listeners_first_refuted`: a tweener on its way 0 -> 8 in one second (chunks of 0.25 s),
	// listener linked with the identity on the x axis, emitter at x = 10; a second listener waits for tick 1 of a
	// clock at 4 ticks per second ----
	{
		let ops = vec![
			LOp::AddTweener { init: 0.0 },
			LOp::AddClock { tps: 4.0 },
			LOp::AddListener { pos: VVal::Mod { id: 0, lo: 0.0, hi: 8.0, a: [0.0, 0.0, 0.0], b: [8.0, 0.0, 0.0], e: Easing::Linear } },
			LOp::AddListener { pos: VVal::Fixed([0.0, 0.0, 0.0]) },
			LOp::AddSpat { lid: 0, e: [10.0, 0.0, 0.0], watch: 0, cid: 0 },
			LOp::AddSpat { lid: 1, e: [10.0, 0.0, 0.0], watch: 0, cid: 0 },
			LOp::SetTweener { id: 0, target: 8.0, tw: Tw { delay_ns: -1, dur_ns: 1_000_000_000, e: Easing::Linear } },
			LOp::SetListener { lid: 1, target: VVal::Fixed([6.0, 0.0, 0.0]), tw: XTw { st: XSt::Clock { ticks: 1, frac: 0.0 }, dur_ns: 1_000_000_000, e: Easing::Linear }, cid: 0 },
			LOp::Cb { frames: 6 },
		];
		run_lis_one(s, "lis_fixed", &LScen { sr: 4, ibs: 1, ops });
	}
	for i in 0..n_random {
		let sc = gen(rng, i);
		run_lis_one(s, "lis_generated", &sc);
	}
}

// ==========================================================================================
// (C) the start of a callback: `add_modulator` + a reader linked to it, both created INSIDE one
//     `Renderer::on_start_processing`, at every point user code can run there
// ==========================================================================================
struct HookMod(crate::inject::Hook);
impl Modulator for HookMod {
	fn on_start_processing(&mut self) {
		let h = self.0.lock().unwrap().take();
		if let Some(h) = h {
			h();
		}
	}
	fn update(&mut self, _dt: f64, _info: &Info) {}
	fn value(&self) -> f64 {
		0.0
	}
	fn finished(&self) -> bool {
		false
	}
}
struct HookModBuilder(crate::inject::Hook);
impl ModulatorBuilder for HookModBuilder {
	type Handle = ();
	fn build(self, _id: ModulatorId) -> (Box<dyn Modulator>, ()) {
		(Box::new(HookMod(self.0)), ())
	}
}
/// (chunk length, what the probe's modulator id resolves to, the linked parameter after `update`)
type WinLog = Arc<Mutex<Vec<(usize, Option<f64>, f64)>>>;
struct WinProbe {
	watch: ModulatorId,
	param: Parameter<f64>,
	log: WinLog,
}
impl Effect for WinProbe {
	fn process(&mut self, input: &mut [Frame], dt: f64, info: &Info) {
		let len = input.len();
		let raw = info.modulator_value(self.watch);
		self.param.update(dt * len as f64, info);
		self.log.lock().unwrap().push((len, raw, self.param.value()));
	}
}
fn run_window(s: &mut Session) {
	use crate::inject::{callback, shared_manager, Hook, HookFxBuilder, HookSound};
	use kira::sound::static_sound::StaticSoundHandle;
	#[derive(Default)]
	struct Keep {
		tweener: Option<TweenerHandle>,
		tracks: Vec<TrackHandle>,
		sounds: Vec<StaticSoundHandle>,
	}
	let points = [
		"between two callbacks",
		"a probe sound on the main track (main track's sounds drained; sub-tracks were drained before)",
		"an effect of sub-track A (inside the mixer's sub-track loop, before the main track's sounds are drained)",
		"a probe sound on sub-track A (A's sounds drained, A's sub-tracks not yet)",
		"an effect of the main track (end of the mixer's turn, before clocks, listeners and modulators)",
		"a modulator's on_start_processing (after the modulator queue was drained: the end of on_start_processing)",
	];
	let readers = [
		"play(DC sound, volume linked) on the main track",
		"play(DC sound, volume linked) on existing sub-track B",
		"A.add_sub_track(volume linked) + play(DC sound) on it",
		"add_sub_track with a probe effect whose Parameter<f64> is linked",
	];
	let (db_lo, db_hi) = (-24.0f32, 0.0f32);
	for (pi, point) in points.iter().enumerate() {
		for (ri, reader) in readers.iter().enumerate() {
			for (b, init, later) in [(4usize, 0.25f64, 1.0f64), (128, 0.75, 0.0)] {
				let sr = 1000u32;
				let hook = Hook::default();
				let main = if pi == 4 { MainTrackBuilder::new().with_effect(HookFxBuilder(hook.clone())) } else { MainTrackBuilder::new() };
				let (m, r) = shared_manager(sr, b, main);
				let keep: Arc<Mutex<Keep>> = Arc::default();
				let plog: WinLog = Arc::default();
				let (a, bt) = {
					let mut g = m.lock().unwrap();
					let ta = if pi == 2 { TrackBuilder::new().with_effect(HookFxBuilder(hook.clone())) } else { TrackBuilder::new() };
					let mut a = g.add_sub_track(ta).unwrap();
					let bt = g.add_sub_track(TrackBuilder::new()).unwrap();
					match pi {
						1 => {
							g.play(HookSound(hook.clone())).unwrap();
						}
						3 => {
							a.play(HookSound(hook.clone())).unwrap();
						}
						5 => {
							g.add_modulator(HookModBuilder(hook.clone())).unwrap();
						}
						_ => {}
					}
					(Arc::new(Mutex::new(a)), Arc::new(Mutex::new(bt)))
				};
				let _ = callback(&r, b, 2);
				let _ = callback(&r, b, 2);
				let work: Box<dyn FnOnce() + Send> = Box::new({
					let (m, keep, a, bt, plog) = (m.clone(), keep.clone(), a.clone(), bt.clone(), plog.clone());
					move || {
						let mut g = m.lock().unwrap();
						let mut k = keep.lock().unwrap();
						let tw = g.add_modulator(TweenerBuilder { initial_value: init }).unwrap();
						let vol: Value<Decibels> = Value::FromModulator { id: tw.id(), mapping: Mapping { input_range: (0.0, 1.0), output_range: (Decibels(db_lo), Decibels(db_hi)), easing: Easing::Linear } };
						let dc = || sound_from_frames(sr, vec![Frame::new(0.5, 0.5); 200_000]);
						match ri {
							0 => k.sounds.push(g.play(dc().volume(vol)).unwrap()),
							1 => k.sounds.push(bt.lock().unwrap().play(dc().volume(vol)).unwrap()),
							2 => {
								let mut t = a.lock().unwrap().add_sub_track(TrackBuilder::new().volume(vol)).unwrap();
								k.sounds.push(t.play(dc()).unwrap());
								k.tracks.push(t);
							}
							_ => {
								let param = Parameter::new(Value::FromModulator { id: tw.id(), mapping: Mapping { input_range: (0.0, 1.0), output_range: (10.0, 20.0), easing: Easing::Linear } }, 0.0);
								let mut tb = TrackBuilder::new();
								tb.add_built_effect(Box::new(WinProbe { watch: tw.id(), param, log: plog.clone() }));
								k.tracks.push(g.add_sub_track(tb).unwrap());
							}
						}
						k.tweener = Some(tw);
					}
				});
				if pi == 0 {
					work();
				} else {
					*hook.lock().unwrap() = Some(work);
				}
				let desc = format!(
					"internal buffer {b}, 1000 Hz; tweener T (initial value {init:?}) and a reader linked to it are both created from {point}: add_modulator(T); {reader} (volume map 0..1 -> {db_lo}..{db_hi} dB, DC 0.5); 6 callbacks of {} frames; T.set({later:?}, immediately); 5 more callbacks",
					2 * b + 1
				);
				let frames = 2 * b + 1;
				let amp = |x: f64| 0.5 * Mapping { input_range: (0.0, 1.0), output_range: (Decibels(db_lo), Decibels(db_hi)), easing: Easing::Linear }.map(x).as_amplitude();
				let mut bad: Option<String> = None;
				let mut judge = |n: usize, out: &[f32], value: f64, bad: &mut Option<String>| {
					if ri == 3 || bad.is_some() {
						return;
					}
					// the last frame of every chunk carries the volume of that chunk
					let left: Vec<f32> = out.iter().step_by(2).copied().collect();
					let mut at = 0;
					for len in chunk_lens(b, frames) {
						at += len;
						let (got, want) = (left[at - 1], amp(value));
						if (got - want).abs() > 1e-5 {
							*bad = Some(format!("callback {n} after the one that created them: a chunk ends at amplitude {got:?}; T is at {value:?}, so the linked volume gives {want:?} (unlinked 0 dB would be 0.5): the reader does not follow its modulator"));
							return;
						}
					}
				};
				for n in 0..6 {
					let out = callback(&r, frames, 2);
					// callbacks 0 and 1 are not judged: the reader may become live one callback after the modulator, and a
					// sound's first chunk interpolates its volume from the parameter's default
					if n >= 2 {
						judge(n, &out, init, &mut bad);
					}
				}
				if let Some(t) = keep.lock().unwrap().tweener.as_mut() {
					t.set(later, Tween { duration: Duration::ZERO, ..Default::default() });
				}
				for n in 6..11 {
					let out = callback(&r, frames, 2);
					if n >= 8 {
						judge(n, &out, later, &mut bad);
					}
				}
				if ri == 3 {
					// exact: whenever the reader is live its modulator resolves ("not yet" never happens: readers_never_ahead),
					// and the parameter is the mapping of the value resolved in the same chunk
					let l = plog.lock().unwrap().clone();
					let m10 = Mapping { input_range: (0.0, 1.0), output_range: (10.0f64, 20.0f64), easing: Easing::Linear };
					for (i, (_len, raw, v)) in l.iter().enumerate() {
						match raw {
							None => {
								bad = Some(format!("chunk {i} of the reader's life: it is live but its modulator, created BEFORE it, does not resolve yet (parameter {v:?})"));
								break;
							}
							Some(x) => {
								if obs64(m10.map(*x)) != obs64(*v) {
									bad = Some(format!("chunk {i} of the reader's life: the linked parameter is {v:?}, the modulator's value in this chunk {x:?} maps to {:?}", m10.map(*x)));
									break;
								}
							}
						}
					}
					let last = l.last().copied();
					if bad.is_none() {
						match last {
							Some((_, Some(x), _)) if x == later => {}
							other => bad = Some(format!("at the end the probe reads {other:?} from the tweener that was sent to {later:?}")),
						}
					}
				}
				s.eval_only("window_modulator_and_reader_in_one_on_start_processing");
				if hook.lock().unwrap().is_some() {
					s.fail(desc.clone(), "the hook never ran".into(), None);
				} else if let Some(w) = bad {
					s.fail(desc.clone(), w, None);
				}
				let mut k = keep.lock().unwrap();
				k.sounds.clear();
				k.tracks.clear();
				k.tweener = None;
			}
		}
	}
}

fn describe(sc: &Scen) -> String {
	format!("{:?}", sc)
}

pub fn run(args: &Args) {
	let mut rng = Rng::new(args.seed ^ 0xC17);
	let n: u64 = (if args.thorough { 12_000 } else { 1_500 }) * args.budget_mul;
	let mut s = Session::new(
		"C17",
		&args.out,
		"From Coq Require Import ZArith List. Import ListNotations. Open Scope Z_scope.\nFrom KV Require Import Base.Corr C17.Run.",
		"run",
		60,
		"one case = one whole history of a real AudioManager (modulators, clocks, listeners, spatial tracks, probe effects added; commands incl. tweener sets with delayed / clock start times arriving while a transition is pending or running; drops; callbacks of any size) observed exactly through probe effects / probe modulators; distinct = distinct history text; non-trivial = at least one modulator update observed; the start-of-callback window scenarios are monitor-only",
	);
	let mut lag_noted = false;
	let mut f15_noted = false;
	let mut run_one = |s: &mut Session, kind: &str, sc: &Scen, rngless_note: Option<&str>| {
		let tr = match catch(|| execute(sc)) {
			Outcome::Ok(t) => t,
			_ => {
				s.fail(describe(sc), format!("panicked: {}", last_panic()), None);
				return;
			}
		};
		let mut an = analyse(sc, &tr);
		check_dc(sc, &tr, &mut an.fails);
		if kind == "lfo_resend" {
			check_lfo_hist(sc, &tr, &mut an.fails);
		}
		// per history: every unclassified failure, but only the first one of a known class
		let mut classes_seen: Vec<&'static str> = vec![];
		for (what, cls) in &an.fails {
			if let Some(c) = cls {
				if classes_seen.contains(c) {
					continue;
				}
				classes_seen.push(c);
			}
			s.fail(describe(sc), what.clone(), *cls);
		}
		let has_dc = sc.ops.iter().any(|o| matches!(o, Op::AddDcSound { .. }));
		if an.modelable {
			let obs = observable(sc, &tr.log);
			let nontrivial = if obs.is_empty() { None } else { Some(format!("{:?}", sc.ops)) };
			s.case(kind, g_case(sc, &an.sin_tab, &an.pow_tab), &obs, nontrivial);
		} else {
			s.eval_only(&format!("{kind}_monitor_only"));
		}
		if has_dc {
			s.count("dc_volume_linked");
		}
		// histogram of what the history contains
		for op in &sc.ops {
			let k = match op {
				Op::AddLfo { w, .. } => match w {
					Wave::Sine => "op_add_lfo_sine",
					Wave::Triangle => "op_add_lfo_triangle",
					Wave::Saw => "op_add_lfo_saw",
					Wave::Pulse(_) => "op_add_lfo_pulse",
				},
				Op::AddTweener { .. } => "op_add_tweener",
				Op::AddProbeMod { .. } => "op_add_probe_modulator",
				Op::Drop { .. } => "op_drop_modulator",
				Op::SetTweener { .. } => "op_set_tweener",
				Op::SetLfoParam { target: Val::Mod { .. }, .. } => "op_set_lfo_param_linked",
				Op::SetLfoParam { .. } => "op_set_lfo_param_fixed",
				Op::SetPhase { .. } => "op_set_phase",
				Op::SetWave { .. } => "op_set_waveform",
				Op::AddClock { .. } => "op_add_clock_linked",
				Op::AddProbe { .. } => "op_add_param_probe",
				Op::AddClockProbe { .. } => "op_add_clock_probe",
				Op::AddDcSound { .. } => "op_add_dc_sound",
				Op::Cb { .. } => "op_callback",
			};
			s.count(k);
		}
		if let Some(tag) = rngless_note {
			// the named scenarios: put what the real code did into the notes
			let vals = |pid: usize| -> Vec<String> {
				tr.log
					.iter()
					.filter_map(|e| match e {
						Ev::Probe { pid: p, raw, .. } if *p == pid => Some(match raw {
							Some(x) => format!("{x:?}"),
							None => "None".into(),
						}),
						_ => None,
					})
					.collect()
			};
			match tag {
				"chain_reader_before" if !lag_noted => {
					lag_noted = true;
					s.notes.push(format!(
						"modulator chain, reader updated BEFORE the modulator it reads (LFO added first, offset linked by set_offset to a probe modulator added second whose value is its update count; identity mapping, amplitude 0; 4 chunks): mixer reads LFO = [{}], probe modulator = [{}] -- the reader lags one chunk (in chunk k it holds map(value of chunk k-1); in its first chunk it sees the initial value)",
						vals(0).join(", "),
						vals(1).join(", ")
					));
				}
				"chain_reader_after" => {
					s.notes.push(format!(
						"modulator chain, reader updated AFTER the modulator it reads (probe modulator added first, LFO offset linked to it at build time): mixer reads probe modulator = [{}], LFO = [{}] -- same chunk",
						vals(0).join(", "),
						vals(1).join(", ")
					));
				}
				"chain_self" => {
					s.notes.push(format!("a modulator linked to its OWN id reads the dummy value 0.0: LFO (Pulse, amplitude 1, offset linked to itself with map 0..8 -> 10..18) = [{}]", vals(0).join(", ")));
				}
				"f15_negative_starting_phase" if !f15_noted => {
					f15_noted = true;
					s.notes.push(format!("F15 regression witness on the implementation (Saw, frequency 0, starting_phase -0.9*TAU, amplitude 1, offset 0; gave -1.8 before the repair): modulator value per chunk = [{}]", vals(0).join(", ")));
				}
				_ => {}
			}
		}
	};

	for (name, sc) in fixed_scenarios() {
		run_one(&mut s, "fixed", &sc, Some(name));
	}
	for i in 0..n {
		let boundary = i % 5 == 4;
		let dyadic = i % 2 == 0;
		let sc = gen_scenario(&mut rng, dyadic, boundary);
		let kind = match (dyadic, boundary) {
			(true, false) => "history_dyadic",
			(false, false) => "history_arbitrary",
			(true, true) => "history_dyadic_boundary",
			(false, true) => "history_arbitrary_boundary",
		};
		run_one(&mut s, kind, &sc, None);
	}
	for _ in 0..n / 10 {
		let sc = dc_scenario(&mut rng);
		run_one(&mut s, "dc_volume", &sc, None);
	}
	let mut rng2 = Rng::new(Rng::new(args.seed ^ 0xC17A).next());
	for sc in lfo_resend_scenarios(&mut Rng::new(Rng::new(args.seed ^ 0xC17B).next())) {
		run_one(&mut s, "lfo_resend", &sc, None);
	}
	drop(run_one);
	// the strengthened parts draw from their own stream, so the histories above stay what they were for a given seed
	run_tw(&mut s, &mut rng2, (if args.thorough { 4_000 } else { 120 }) * args.budget_mul);
	run_lis(&mut s, &mut rng2, (if args.thorough { 3_000 } else { 100 }) * args.budget_mul);
	run_window(&mut s);
	s.finish();
}
