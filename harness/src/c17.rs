//! C17 — modulators produce their configured curves; linked parameters follow in-chunk.
//! A real `AudioManager<VBackend>` is driven through whole histories (modulators / clocks /
//! probes added, commands, drops, callbacks of any size).  Observation is exact: probe effects
//! (public `Effect` trait) on sub-tracks record `info.modulator_value(id)`, the value of a
//! `Parameter<f64>` linked through `Value::FromModulator`, and `info.clock_info`; probe modulators
//! (public `Modulator` trait) record every `update` call with its `dt` and what they read.
use crate::backend::*;
use crate::util::*;
use kira::clock::{ClockHandle, ClockId, ClockSpeed};
use kira::effect::Effect;
use kira::info::Info;
use kira::modulator::lfo::{LfoBuilder, LfoHandle, Waveform};
use kira::modulator::tweener::{TweenerBuilder, TweenerHandle};
use kira::modulator::{Modulator, ModulatorBuilder, ModulatorId};
use kira::track::{MainTrackBuilder, TrackBuilder, TrackHandle};
use kira::{Capacities, Decibels, Easing, Frame, Mapping, Parameter, StartTime, Tween, Value};
use std::collections::BTreeMap;
use std::f64::consts::TAU;
use std::sync::atomic::{AtomicBool, Ordering};
use std::sync::{Arc, Mutex};
use std::time::Duration;

// ------------------------------------------------------------------------------------------
// scenario syntax
// ------------------------------------------------------------------------------------------
#[derive(Clone, Debug)]
enum Val {
	Fixed(f64),
	Mod { id: usize, lo: f64, hi: f64, olo: f64, ohi: f64, e: Easing },
}
#[derive(Clone, Debug)]
struct Tw {
	delay_ns: i64, // < 0: StartTime::Immediate
	dur_ns: u64,
	e: Easing,
}
#[derive(Clone, Copy, Debug, PartialEq)]
enum Wave {
	Sine,
	Triangle,
	Saw,
	Pulse(f64),
}
#[derive(Clone, Debug)]
enum Op {
	AddLfo { w: Wave, f: Val, a: Val, o: Val, phase: f64 },
	AddTweener { init: f64 },
	/// watch: -1 nothing, -2 its own id, otherwise a modulator index
	AddProbeMod { watch: i64 },
	Drop { id: usize },
	SetTweener { id: usize, target: f64, tw: Tw },
	SetLfoParam { id: usize, which: u8, target: Val, tw: Tw },
	SetPhase { id: usize, phase: f64 },
	SetWave { id: usize, w: Wave },
	AddClock { speed: Val },
	AddProbe { watch: usize, v: Val },
	AddClockProbe { cid: usize },
	/// DC sound on a sub-track whose VOLUME (track: false = the sound's, true = the track's) is
	/// linked to modulator `watch` (monitor only, not sent to the model)
	AddDcSound { watch: usize, lo: f64, hi: f64, db_lo: f32, db_hi: f32, track: bool },
	Cb { frames: usize },
}
#[derive(Clone, Debug)]
struct Scen {
	sr: u32,
	ibs: usize,
	ops: Vec<Op>,
}

#[derive(Clone, Debug)]
enum Ev {
	Mod { id: usize, dt: f64, seen: Option<f64> },
	Probe { pid: usize, len: usize, raw: Option<f64>, v: f64 },
	ProbeClock { pid: usize, len: usize, info: Option<(bool, u64, f64)> },
}
type Log = Arc<Mutex<Vec<Ev>>>;

// ------------------------------------------------------------------------------------------
// probes (ordinary user code on top of the public traits)
// ------------------------------------------------------------------------------------------
struct ProbeModBuilder {
	idx: usize,
	watch: i64,
	ids: Vec<ModulatorId>,
	log: Log,
}
struct ProbeModHandle {
	id: ModulatorId,
	removed: Arc<AtomicBool>,
}
impl Drop for ProbeModHandle {
	fn drop(&mut self) {
		self.removed.store(true, Ordering::SeqCst);
	}
}
struct ProbeMod {
	idx: usize,
	watch: Option<ModulatorId>,
	count: u64,
	log: Log,
	removed: Arc<AtomicBool>,
}
impl ModulatorBuilder for ProbeModBuilder {
	type Handle = ProbeModHandle;
	fn build(self, id: ModulatorId) -> (Box<dyn Modulator>, ProbeModHandle) {
		let removed = Arc::new(AtomicBool::new(false));
		let watch = match self.watch {
			-1 => None,
			-2 => Some(id),
			k => Some(self.ids[k as usize]),
		};
		(Box::new(ProbeMod { idx: self.idx, watch, count: 0, log: self.log, removed: removed.clone() }), ProbeModHandle { id, removed })
	}
}
impl Modulator for ProbeMod {
	fn update(&mut self, dt: f64, info: &Info) {
		let seen = self.watch.and_then(|w| info.modulator_value(w));
		self.count += 1;
		self.log.lock().unwrap().push(Ev::Mod { id: self.idx, dt, seen });
	}
	fn value(&self) -> f64 {
		self.count as f64
	}
	fn finished(&self) -> bool {
		self.removed.load(Ordering::SeqCst)
	}
}

enum ProbeKind {
	Param { watch: ModulatorId, param: Parameter<f64> },
	Clock { cid: ClockId },
}
struct ProbeEffect {
	pid: usize,
	kind: ProbeKind,
	log: Log,
}
impl Effect for ProbeEffect {
	fn process(&mut self, input: &mut [Frame], dt: f64, info: &Info) {
		let len = input.len();
		match &mut self.kind {
			ProbeKind::Param { watch, param } => {
				let raw = info.modulator_value(*watch);
				param.update(dt * len as f64, info);
				self.log.lock().unwrap().push(Ev::Probe { pid: self.pid, len, raw, v: param.value() });
			}
			ProbeKind::Clock { cid } => {
				let ci = info.clock_info(*cid).map(|c| (c.ticking, c.time.ticks, c.time.fraction));
				self.log.lock().unwrap().push(Ev::ProbeClock { pid: self.pid, len, info: ci });
			}
		}
	}
}

enum ModHandle {
	Lfo(LfoHandle),
	Tweener(TweenerHandle),
	Probe(ProbeModHandle),
}

fn to_value(v: &Val, ids: &[ModulatorId]) -> Value<f64> {
	match v {
		Val::Fixed(x) => Value::Fixed(*x),
		Val::Mod { id, lo, hi, olo, ohi, e } => {
			Value::FromModulator { id: ids[*id], mapping: Mapping { input_range: (*lo, *hi), output_range: (*olo, *ohi), easing: *e } }
		}
	}
}
fn to_speed(v: &Val, ids: &[ModulatorId]) -> Value<ClockSpeed> {
	match v {
		Val::Fixed(x) => Value::Fixed(ClockSpeed::TicksPerSecond(*x)),
		Val::Mod { id, lo, hi, olo, ohi, e } => Value::FromModulator {
			id: ids[*id],
			mapping: Mapping { input_range: (*lo, *hi), output_range: (ClockSpeed::TicksPerSecond(*olo), ClockSpeed::TicksPerSecond(*ohi)), easing: *e },
		},
	}
}
fn to_tween(t: &Tw) -> Tween {
	Tween {
		start_time: if t.delay_ns < 0 { StartTime::Immediate } else { StartTime::Delayed(Duration::from_nanos(t.delay_ns as u64)) },
		duration: Duration::from_nanos(t.dur_ns),
		easing: t.e,
	}
}
fn to_wave(w: Wave) -> Waveform {
	match w {
		Wave::Sine => Waveform::Sine,
		Wave::Triangle => Waveform::Triangle,
		Wave::Saw => Waveform::Saw,
		Wave::Pulse(width) => Waveform::Pulse { width },
	}
}

struct DcInfo {
	watch: usize,
	lo: f64,
	hi: f64,
	db_lo: f32,
	db_hi: f32,
	added_at_cb: usize,
	_track: TrackHandle,
}
struct Trace {
	log: Vec<Ev>,
	/// for each DC sound: the frames of every callback after it was added, concatenated per callback
	dc: Vec<(DcInfo, Vec<Vec<f32>>)>,
}

/// run one history on the real code
fn execute(sc: &Scen) -> Trace {
	let log: Log = Arc::new(Mutex::new(vec![]));
	let caps = Capacities { sub_track_capacity: 128, send_track_capacity: 4, clock_capacity: 16, modulator_capacity: 32, listener_capacity: 2 };
	let mut mgr = manager(sc.sr, sc.ibs, caps, MainTrackBuilder::new());
	let mut ids: Vec<ModulatorId> = vec![];
	let mut handles: Vec<Option<ModHandle>> = vec![];
	let mut clocks: Vec<ClockHandle> = vec![];
	let mut tracks: Vec<TrackHandle> = vec![];
	let mut npid = 0usize;
	let mut dc: Vec<(DcInfo, Vec<Vec<f32>>)> = vec![];
	let mut ncb = 0usize;
	for op in &sc.ops {
		match op {
			Op::AddLfo { w, f, a, o, phase } => {
				let b = LfoBuilder::new().waveform(to_wave(*w)).frequency(to_value(f, &ids)).amplitude(to_value(a, &ids)).offset(to_value(o, &ids)).starting_phase(*phase);
				let h = mgr.add_modulator(b).unwrap();
				ids.push(h.id());
				handles.push(Some(ModHandle::Lfo(h)));
			}
			Op::AddTweener { init } => {
				let h = mgr.add_modulator(TweenerBuilder { initial_value: *init }).unwrap();
				ids.push(h.id());
				handles.push(Some(ModHandle::Tweener(h)));
			}
			Op::AddProbeMod { watch } => {
				let h = mgr.add_modulator(ProbeModBuilder { idx: ids.len(), watch: *watch, ids: ids.clone(), log: log.clone() }).unwrap();
				ids.push(h.id);
				handles.push(Some(ModHandle::Probe(h)));
			}
			Op::Drop { id } => {
				handles[*id] = None;
			}
			Op::SetTweener { id, target, tw } => {
				if let Some(ModHandle::Tweener(h)) = &mut handles[*id] {
					h.set(*target, to_tween(tw));
				}
			}
			Op::SetLfoParam { id, which, target, tw } => {
				let v = to_value(target, &ids);
				if let Some(ModHandle::Lfo(h)) = &mut handles[*id] {
					match which {
						0 => h.set_frequency(v, to_tween(tw)),
						1 => h.set_amplitude(v, to_tween(tw)),
						_ => h.set_offset(v, to_tween(tw)),
					}
				}
			}
			Op::SetPhase { id, phase } => {
				if let Some(ModHandle::Lfo(h)) = &mut handles[*id] {
					h.set_phase(*phase);
				}
			}
			Op::SetWave { id, w } => {
				if let Some(ModHandle::Lfo(h)) = &mut handles[*id] {
					h.set_waveform(to_wave(*w));
				}
			}
			Op::AddClock { speed } => {
				let mut h = mgr.add_clock(to_speed(speed, &ids)).unwrap();
				h.start();
				clocks.push(h);
			}
			Op::AddProbe { watch, v } => {
				let param = Parameter::new(to_value(v, &ids), 0.0);
				let mut tb = TrackBuilder::new();
				tb.add_built_effect(Box::new(ProbeEffect { pid: npid, kind: ProbeKind::Param { watch: ids[*watch], param }, log: log.clone() }));
				tracks.push(mgr.add_sub_track(tb).unwrap());
				npid += 1;
			}
			Op::AddClockProbe { cid } => {
				let mut tb = TrackBuilder::new();
				tb.add_built_effect(Box::new(ProbeEffect { pid: npid, kind: ProbeKind::Clock { cid: clocks[*cid].id() }, log: log.clone() }));
				tracks.push(mgr.add_sub_track(tb).unwrap());
				npid += 1;
			}
			Op::AddDcSound { watch, lo, hi, db_lo, db_hi, track } => {
				let vol: Value<Decibels> =
					Value::FromModulator { id: ids[*watch], mapping: Mapping { input_range: (*lo, *hi), output_range: (Decibels(*db_lo), Decibels(*db_hi)), easing: Easing::Linear } };
				let mut tb = TrackBuilder::new();
				if *track {
					tb = tb.volume(vol);
				}
				let mut th = mgr.add_sub_track(tb).unwrap();
				let mut sd = sound_from_frames(sc.sr, vec![Frame::new(0.5, 0.5); 100_000]);
				if !*track {
					sd = sd.volume(vol);
				}
				let _ = th.play(sd).unwrap();
				dc.push((DcInfo { watch: *watch, lo: *lo, hi: *hi, db_lo: *db_lo, db_hi: *db_hi, added_at_cb: ncb, _track: th }, vec![]));
			}
			Op::Cb { frames } => {
				// solo the DC tracks is not possible; instead every DC sound scenario has exactly one DC sound
				let out = mgr.backend_mut().callback(*frames, 2);
				for d in dc.iter_mut() {
					d.1.push(out.iter().step_by(2).copied().collect());
				}
				ncb += 1;
			}
		}
	}
	let l = log.lock().unwrap().clone();
	drop(handles);
	drop(tracks);
	Trace { log: l, dc }
}

// ------------------------------------------------------------------------------------------
// Gallina terms
// ------------------------------------------------------------------------------------------
fn easing_code(e: Easing) -> (i128, i128) {
	match e {
		Easing::Linear => (0, 0),
		Easing::InPowi(p) => (1, p as i128),
		Easing::OutPowi(p) => (2, p as i128),
		Easing::InOutPowi(p) => (3, p as i128),
		Easing::InPowf(p) => (4, obs64(p)),
		Easing::OutPowf(p) => (5, obs64(p)),
		Easing::InOutPowf(p) => (6, obs64(p)),
	}
}
fn easing_oracle(e: Easing, x: f64) -> Vec<(f64, f64, f64)> {
	match e {
		Easing::InPowf(p) => vec![(x, p, x.powf(p))],
		Easing::OutPowf(p) => vec![(1.0 - x, p, (1.0 - x).powf(p))],
		Easing::InOutPowf(p) => {
			let x2 = x * 2.0;
			if x2 < 1.0 {
				vec![(x2, p, x2.powf(p))]
			} else {
				let y = 2.0 - x2;
				vec![(y, p, y.powf(p))]
			}
		}
		_ => vec![],
	}
}
fn is_powf(e: Easing) -> bool {
	matches!(e, Easing::InPowf(_) | Easing::OutPowf(_) | Easing::InOutPowf(_))
}
fn g_val(v: &Val) -> String {
	match v {
		Val::Fixed(x) => format!("(RFixed {})", f64_bits_z(*x)),
		Val::Mod { id, lo, hi, olo, ohi, e } => {
			let (ek, ep) = easing_code(*e);
			format!("(RMod {} {} {} {} {} {} {})", id, f64_bits_z(*lo), f64_bits_z(*hi), f64_bits_z(*olo), f64_bits_z(*ohi), ek, z(ep))
		}
	}
}
fn g_tw(t: &Tw) -> String {
	let (ek, ep) = easing_code(t.e);
	format!("(RTween {} {} {} {})", z(t.delay_ns as i128), t.dur_ns, ek, z(ep))
}
fn g_wave(w: Wave) -> String {
	match w {
		Wave::Sine => "RSine".into(),
		Wave::Triangle => "RTriangle".into(),
		Wave::Saw => "RSaw".into(),
		Wave::Pulse(x) => format!("(RPulse {})", f64_bits_z(x)),
	}
}
fn g_case(sc: &Scen, sin_tab: &[(f64, f64)], pow_tab: &[(f64, f64, f64)]) -> String {
	let mut ops = vec![];
	let (mut nid, mut npid, mut ncid) = (0usize, 0usize, 0usize);
	for op in &sc.ops {
		ops.push(match op {
			Op::AddLfo { w, f, a, o, phase } => {
				nid += 1;
				format!("RAddLfo {} {} {} {} {} {}", nid - 1, g_wave(*w), g_val(f), g_val(a), g_val(o), f64_bits_z(*phase))
			}
			Op::AddTweener { init } => {
				nid += 1;
				format!("RAddTweener {} {}", nid - 1, f64_bits_z(*init))
			}
			Op::AddProbeMod { watch } => {
				nid += 1;
				let w = if *watch == -2 { (nid - 1) as i128 } else { *watch as i128 };
				format!("RAddProbeMod {} {}", nid - 1, z(w))
			}
			Op::Drop { id } => format!("RDrop {}", id),
			Op::SetTweener { id, target, tw } => format!("RSetTweener {} {} {}", id, f64_bits_z(*target), g_tw(tw)),
			Op::SetLfoParam { id, which, target, tw } => format!("RSetLfoParam {} {} {} {}", id, which, g_val(target), g_tw(tw)),
			Op::SetPhase { id, phase } => format!("RSetPhase {} {}", id, f64_bits_z(*phase)),
			Op::SetWave { id, w } => format!("RSetWave {} {}", id, g_wave(*w)),
			Op::AddClock { speed } => {
				ncid += 1;
				format!("RAddClock {} {}", ncid - 1, g_val(speed))
			}
			Op::AddProbe { watch, v } => {
				npid += 1;
				format!("RAddProbe {} {} {}", npid - 1, watch, g_val(v))
			}
			Op::AddClockProbe { cid } => {
				npid += 1;
				format!("RAddClockProbe {} {}", npid - 1, cid)
			}
			Op::AddDcSound { .. } => continue,
			Op::Cb { frames } => format!("RCb {}", frames),
		});
	}
	let st = sin_tab.iter().map(|(a, b)| format!("({}, {})", f64_bits_z(*a), f64_bits_z(*b))).collect::<Vec<_>>().join("; ");
	let pt = pow_tab.iter().map(|(a, b, c)| format!("({}, {}, {})", f64_bits_z(*a), f64_bits_z(*b), f64_bits_z(*c))).collect::<Vec<_>>().join("; ");
	format!("CScen {} {} [{}] [{}] [{}]", sc.sr, sc.ibs, ops.join("; "), st, pt)
}
fn enc_opt(o: Option<f64>) -> [i128; 2] {
	match o {
		Some(v) => [1, obs64(v)],
		None => [0, 0],
	}
}
/// the observable, in the layout of `C17.Run.run`: per observer in creation order, its stream
fn observable(sc: &Scen, log: &[Ev]) -> Vec<i128> {
	let mut out = vec![];
	let (mut nid, mut npid) = (0usize, 0usize);
	for op in &sc.ops {
		match op {
			Op::AddLfo { .. } | Op::AddTweener { .. } => nid += 1,
			Op::AddProbeMod { .. } => {
				for e in log {
					if let Ev::Mod { id, dt, seen } = e {
						if *id == nid {
							out.push(obs64(*dt));
							out.extend(enc_opt(*seen));
						}
					}
				}
				nid += 1;
			}
			Op::AddProbe { .. } | Op::AddClockProbe { .. } => {
				for e in log {
					match e {
						Ev::Probe { pid, len, raw, v } if *pid == npid => {
							out.push(*len as i128);
							out.extend(enc_opt(*raw));
							out.push(obs64(*v));
						}
						Ev::ProbeClock { pid, len, info } if *pid == npid => {
							out.push(*len as i128);
							match info {
								Some((t, k, f)) => out.extend([1, *t as i128, *k as i128, obs64(*f)]),
								None => out.extend([0, 0, 0, 0]),
							}
						}
						_ => {}
					}
				}
				npid += 1;
			}
			_ => {}
		}
	}
	out
}

fn chunk_lens(ibs: usize, frames: usize) -> Vec<usize> {
	let mut v = vec![ibs; frames / ibs];
	if frames % ibs != 0 {
		v.push(frames % ibs);
	}
	v
}

// ------------------------------------------------------------------------------------------
// mirror of the history (what is alive, in which order) + property monitors + libm tables
// ------------------------------------------------------------------------------------------
#[derive(Clone)]
enum MKind {
	Lfo {
		w: Wave,
		f: Val,
		a: Val,
		o: Val,
		/// phase mirror (only meaningful while `f_simple`)
		phase: f64,
		f_simple: bool,
		/// amplitude / offset were never the target of a `set_` command
		a_simple: bool,
		o_simple: bool,
		/// amplitude is exactly 0 and the offset is an idle link to modulator `.0`: value = map(what it read)
		chain: Option<(usize, f64, f64, f64, f64, Easing)>,
		updates: u64,
	},
	Tweener {
		value_known: Option<f64>,
		/// (v0, target, tween, time, remaining delay, started counting)
		tw: Option<(Option<f64>, f64, Tw, f64, Duration)>,
		holding: Option<f64>,
	},
	Probe {
		count: u64,
		/// index of the modulator it reads (its own index for "self"), if any
		watch: Option<usize>,
	},
}
struct MMod {
	kind: MKind,
	/// the handle has not been dropped
	alive: bool,
	/// part of the arena (a callback has started since the add, and none since the drop)
	in_arena: bool,
	pending: bool,
}
struct MProbe {
	watch: Option<usize>,
	v: Option<Val>,
	cid: Option<usize>,
	last_v: Option<f64>,
}
struct MClock {
	speed: Val,
	/// mirror of the clock: ticks, tick timer; the speed it holds when its modulator does not resolve
	ticks: u64,
	timer: f64,
	held_tps: f64,
	ok: bool,
}

fn hull(v: &Val, default: f64, simple: bool) -> Option<(f64, f64)> {
	if !simple {
		return None;
	}
	match v {
		Val::Fixed(x) => Some((*x, *x)),
		Val::Mod { lo, hi, olo, ohi, e, .. } => {
			if lo == hi || is_powf(*e) {
				return None;
			}
			if let Easing::InPowi(p) | Easing::OutPowi(p) | Easing::InOutPowi(p) = e {
				if *p < 1 {
					return None;
				}
			}
			Some((olo.min(*ohi).min(default), olo.max(*ohi).max(default)))
		}
	}
}

struct Analysis {
	sin_tab: Vec<(f64, f64)>,
	pow_tab: Vec<(f64, f64, f64)>,
	/// the model can be given the libm values it needs
	modelable: bool,
	fails: Vec<(String, Option<&'static str>)>,
	lag_notes: Vec<String>,
	features: Vec<&'static str>,
}

fn analyse(sc: &Scen, tr: &Trace) -> Analysis {
	let mut an = Analysis { sin_tab: vec![], pow_tab: vec![], modelable: true, fails: vec![], lag_notes: vec![], features: vec![] };
	let dt = 1.0 / sc.sr as f64;
	let log = &tr.log;
	let mut pos = 0usize;
	let mut mods: Vec<MMod> = vec![];
	let mut probes: Vec<MProbe> = vec![];
	let mut clocks: Vec<MClock> = vec![];
	// clock mirrors: (ticks, timer, started) per clock, driven by the values a sibling parameter probe saw
	let mut order: Vec<usize> = vec![]; // modulator update order (insertion order of the alive ones)
	macro_rules! fail {
		($cls:expr, $($arg:tt)*) => { an.fails.push((format!($($arg)*), $cls)) };
	}
	for op in &sc.ops {
		match op {
			Op::AddLfo { w, f, a, o, phase } => {
				let chain = match (a, o) {
					(Val::Fixed(z), Val::Mod { id, lo, hi, olo, ohi, e }) if *z == 0.0 => Some((*id, *lo, *hi, *olo, *ohi, *e)),
					_ => None,
				};
				mods.push(MMod {
					kind: MKind::Lfo {
						w: *w,
						f: f.clone(),
						a: a.clone(),
						o: o.clone(),
						phase: *phase / TAU,
						f_simple: matches!(f, Val::Fixed(_)),
						a_simple: true,
						o_simple: true,
						chain,
						updates: 0,
					},
					alive: true,
					in_arena: false,
					pending: true,
				});
			}
			Op::AddTweener { init } => {
				mods.push(MMod { kind: MKind::Tweener { value_known: Some(*init), tw: None, holding: Some(*init) }, alive: true, in_arena: false, pending: true });
			}
			Op::AddProbeMod { watch } => {
				let w = match *watch {
					-1 => None,
					-2 => Some(mods.len()),
					k => Some(k as usize),
				};
				mods.push(MMod { kind: MKind::Probe { count: 0, watch: w }, alive: true, in_arena: false, pending: true });
			}
			Op::Drop { id } => {
				mods[*id].alive = false;
			}
			Op::SetTweener { id, target, tw } => {
				let alive = mods[*id].alive;
				if let MKind::Tweener { value_known, tw: t, holding } = &mut mods[*id].kind {
					if alive {
						*t = Some((*value_known, *target, tw.clone(), 0.0, Duration::from_nanos(tw.delay_ns.max(0) as u64)));
						*holding = None;
					}
				}
			}
			Op::SetLfoParam { id, which, target, tw } => {
				if !mods[*id].alive {
					continue;
				}
				if let MKind::Lfo { f_simple, a_simple, o_simple, chain, a, .. } = &mut mods[*id].kind {
					match which {
						0 => *f_simple = false,
						1 => {
							*a_simple = false;
							*chain = None;
						}
						_ => {
							*o_simple = false;
							*chain = match (&*a, target) {
								(Val::Fixed(z), Val::Mod { id: w, lo, hi, olo, ohi, e }) if *z == 0.0 && *a_simple && tw.delay_ns < 0 && tw.dur_ns == 0 => Some((*w, *lo, *hi, *olo, *ohi, *e)),
								_ => None,
							};
						}
					}
				}
			}
			Op::SetPhase { id, phase } => {
				if !mods[*id].alive {
					continue;
				}
				if let MKind::Lfo { phase: ph, .. } = &mut mods[*id].kind {
					*ph = *phase / TAU;
				}
			}
			Op::SetWave { id, w } => {
				if !mods[*id].alive {
					continue;
				}
				if let MKind::Lfo { w: ww, .. } = &mut mods[*id].kind {
					*ww = *w;
				}
			}
			Op::AddClock { speed } => clocks.push(MClock { speed: speed.clone(), ticks: 0, timer: 0.0, held_tps: 2.0, ok: true }),
			Op::AddProbe { watch, v } => probes.push(MProbe { watch: Some(*watch), v: Some(v.clone()), cid: None, last_v: None }),
			Op::AddClockProbe { cid } => probes.push(MProbe { watch: None, v: None, cid: Some(*cid), last_v: None }),
			Op::AddDcSound { .. } => {}
			Op::Cb { frames } => {
				// on_start_processing: finished modulators leave, then the queued ones join (in order)
				for mi in 0..mods.len() {
					if mods[mi].in_arena && !mods[mi].alive {
						mods[mi].in_arena = false;
						order.retain(|x| *x != mi);
					}
				}
				for mi in 0..mods.len() {
					if mods[mi].pending {
						mods[mi].pending = false;
						mods[mi].in_arena = true;
						order.push(mi);
					}
				}
				for len in chunk_lens(sc.ibs, *frames) {
					let dtc = dt * len as f64;
					// ---- once per chunk, modulators first, in insertion order, with dt * len ----
					let mut mod_new: BTreeMap<usize, f64> = BTreeMap::new();
					let mut seen_by: BTreeMap<usize, Option<f64>> = BTreeMap::new();
					for &mi in &order {
						// mirrors of what each modulator does in this chunk
						match &mut mods[mi].kind {
							MKind::Probe { count, .. } => {
								match log.get(pos) {
									Some(Ev::Mod { id, dt: d, seen }) if *id == mi => {
										seen_by.insert(mi, *seen);
										if d.to_bits() != dtc.to_bits() {
											fail!(None, "once_per_chunk: probe modulator {mi} updated with dt {d:?}, expected dt*len = {dtc:?}");
										}
										pos += 1;
									}
									other => {
										fail!(None, "once_per_chunk: expected the update of probe modulator {mi} (chunk of {len} frames), log has {other:?}");
										return an;
									}
								}
								*count += 1;
								mod_new.insert(mi, *count as f64);
							}
							MKind::Lfo { w, phase, f, f_simple, updates, .. } => {
								*updates += 1;
								if *f_simple {
									if let Val::Fixed(fr) = f {
										*phase += dtc * *fr;
										*phase = phase.rem_euclid(1.0);
										if *w == Wave::Sine {
											let arg = *phase * TAU;
											an.sin_tab.push((arg, arg.sin()));
										}
									}
								} else if *w == Wave::Sine {
									an.modelable = false;
								}
							}
							MKind::Tweener { tw, holding, .. } => {
								if let Some((_, target, t, time, remaining)) = tw {
									if is_powf(t.e) {
										an.modelable = false;
									}
									let started = if t.delay_ns < 0 {
										true
									} else if remaining.is_zero() {
										true
									} else {
										*remaining = remaining.saturating_sub(Duration::from_secs_f64(dtc));
										false
									};
									if started {
										*time += dtc;
										if *time >= Duration::from_nanos(t.dur_ns).as_secs_f64() {
											*holding = Some(*target);
											*tw = None;
										}
									}
								}
							}
						}
					}
					// a modulator event that the mirror does not expect = an extra update call
					if let Some(Ev::Mod { id, .. }) = log.get(pos) {
						fail!(None, "once_per_chunk: unexpected extra update of probe modulator {id} in a chunk of {len} frames");
						return an;
					}
					// ---- then the mixer: every probe exactly once, same chunk length ----
					let mut seen: BTreeMap<usize, Ev> = BTreeMap::new();
					for _ in 0..probes.len() {
						match log.get(pos) {
							Some(e @ Ev::Probe { pid, len: l, .. }) | Some(e @ Ev::ProbeClock { pid, len: l, .. }) => {
								if *l != len {
									fail!(None, "probe {pid} processed {l} frames in a chunk of {len}");
								}
								if seen.insert(*pid, e.clone()).is_some() {
									fail!(None, "probe {pid} processed twice in one chunk");
								}
								pos += 1;
							}
							other => {
								fail!(None, "mixer did not process every probe after the modulators: log has {other:?}");
								return an;
							}
						}
					}
					// ---- value monitors ----
					// the value each modulator has in this chunk, as far as a probe read it
					let mut raw_of: BTreeMap<usize, f64> = BTreeMap::new();
					for (pid, e) in &seen {
						if let Ev::Probe { raw, v, .. } = e {
							let p = &mut probes[*pid];
							let w = p.watch.unwrap();
							let val = p.v.clone().unwrap();
							match raw {
								Some(x) => {
									raw_of.insert(w, *x);
									if !mods[w].in_arena {
										fail!(None, "stale id: modulator {w} was removed before this callback but still resolves to {x:?}");
									}
								}
								None => {
									if mods[w].in_arena {
										fail!(None, "modulator {w} is alive but does not resolve in the mixer");
									}
								}
							}
							// linked parameter = mapping(current modulator value), in the same chunk; holds when unresolved
							match &val {
								Val::Fixed(x) => {
									if v.to_bits() != x.to_bits() {
										fail!(None, "fixed probe parameter changed: {v:?} != {x:?}");
									}
								}
								Val::Mod { id, lo, hi, olo, ohi, e } => {
									let m = Mapping { input_range: (*lo, *hi), output_range: (*olo, *ohi), easing: *e };
									let src = if id == &w { *raw } else { None };
									if id == &w {
										match src {
											Some(x) => {
												let want = m.map(x);
												if obs64(want) != obs64(*v) {
													fail!(None, "same-chunk: parameter linked to modulator {w} is {v:?} but map({x:?}) = {want:?}");
												}
												if is_powf(*e) {
													let amount = ((x - lo) / (hi - lo)).clamp(0.0, 1.0);
													an.pow_tab.extend(easing_oracle(*e, amount));
												}
											}
											None => match p.last_v {
												Some(lv) => {
													if obs64(lv) != obs64(*v) {
														fail!(None, "hold after removal: parameter linked to removed modulator {w} moved from {lv:?} to {v:?}");
													}
												}
												None => {
													if *v != 0.0 {
														fail!(None, "parameter linked to an unresolvable modulator left its default: {v:?}");
													}
												}
											},
										}
									}
								}
							}
							p.last_v = Some(*v);
						}
					}
					for (&mi, &x) in &raw_of {
						match &mut mods[mi].kind {
							MKind::Probe { count, .. } => {
								if x != *count as f64 {
									fail!(None, "same-chunk: the mixer read {x:?} from probe modulator {mi} whose update count in this chunk is {count}");
								}
							}
							MKind::Lfo { a, o, a_simple, o_simple, .. } => {
								// any phase, any frequency (F15 repaired): offset +/- |amplitude|
								if let (Some((alo, ahi)), Some((olo, ohi))) = (hull(a, 1.0, *a_simple), hull(o, 0.0, *o_simple)) {
									let amax = alo.abs().max(ahi.abs());
									let exact = alo == ahi && olo == ohi;
									let slack = if exact { 0.0 } else { 1e-9 * (1.0 + amax + olo.abs() + ohi.abs()) };
									let (lo, hi) = (olo - amax - slack, ohi + amax + slack);
									if x.is_finite() && lo.is_finite() && hi.is_finite() && !(x >= lo && x <= hi) {
										fail!(None, "LFO range: modulator {mi} has value {x:?} outside offset +/- |amplitude| = [{lo:?}, {hi:?}]");
									}
								}
							}
							MKind::Tweener { value_known, tw, holding } => {
								if let Some(h) = holding {
									if obs64(*h) != obs64(x) {
										fail!(None, "tweener {mi}: value {x:?} but it must hold {h:?} exactly (tween finished / idle)");
									}
								}
								if let Some((Some(v0), target, t, time, _remaining)) = tw {
									let monotone = match t.e {
										Easing::Linear => true,
										Easing::InPowi(p) | Easing::OutPowi(p) | Easing::InOutPowi(p) => p >= 1,
										_ => false,
									};
									if *time == 0.0 {
										// a delayed start that has not begun to count: still exactly the old value
										if obs64(*v0) != obs64(x) {
											fail!(None, "tweener {mi}: moved to {x:?} before its delayed start (was {v0:?})");
										}
									} else if monotone && v0.is_finite() && target.is_finite() {
										let (lo, hi) = (v0.min(*target), v0.max(*target));
										let slack = 1e-9 * (1.0 + lo.abs() + hi.abs());
										if !(x >= lo - slack && x <= hi + slack) {
											fail!(None, "tweener {mi}: value {x:?} outside [{lo:?}, {hi:?}] during the tween");
										}
									}
								}
								*value_known = Some(x);
							}
						}
					}
					// ---- modulator -> modulator: a parameter of a modulator linked to modulator w must equal
					// map(w's value of THIS chunk); when the reader is updated before w (or w is itself) it cannot
					let posn = |m: usize| order.iter().position(|x| *x == m);
					for &ri in &order {
						let cls_for = |w: usize| -> Option<&'static str> {
							match (posn(ri), posn(w)) {
								(Some(pr), Some(pw)) if pw >= pr => Some("modulator_chain_reader_updated_first"),
								_ => None,
							}
						};
						match &mods[ri].kind {
							MKind::Probe { watch: Some(w), .. } => {
								if let (Some(Some(sv)), Some(xm)) = (seen_by.get(&ri), raw_of.get(w)) {
									if mods[*w].in_arena && !(sv == xm || (sv.is_nan() && xm.is_nan())) {
										an.fails.push((format!("chain: probe modulator {ri} read {sv:?} from modulator {w} whose value in this chunk is {xm:?}"), cls_for(*w)));
									}
								}
							}
							MKind::Lfo { chain: Some((w, lo, hi, olo, ohi, e)), f, f_simple, .. } => {
								if let (Some(xr), Some(xm)) = (raw_of.get(&ri), raw_of.get(w)) {
									let freq_ok = *f_simple && matches!(f, Val::Fixed(x) if x.is_finite());
									let want = Mapping { input_range: (*lo, *hi), output_range: (*olo, *ohi), easing: *e }.map(*xm);
									if mods[*w].in_arena && freq_ok && lo != hi && !(*xr == want || (xr.is_nan() && want.is_nan())) {
										an.fails.push((format!("chain: LFO {ri} (amplitude 0, offset linked to modulator {w}) has value {xr:?} but map(value of {w} in this chunk = {xm:?}) = {want:?}"), cls_for(*w)));
									}
								}
							}
							_ => {}
						}
					}
					// modulators nobody read in this chunk: their value is no longer known to the mirror
					for &mi in &order {
						if !raw_of.contains_key(&mi) {
							if let MKind::Tweener { value_known, holding, .. } = &mut mods[mi].kind {
								*value_known = *holding;
							}
						}
					}
					let _ = &mod_new;
					// ---- a clock whose speed is linked to a modulator ticks at map(value of THIS chunk) ----
					for (pid, e) in &seen {
						if let Ev::ProbeClock { info, .. } = e {
							let cid = probes[*pid].cid.unwrap();
							// the sibling parameter probe (same mapping, same modulator) is the next probe
							let sib = seen.get(&(pid + 1));
							let c = &mut clocks[cid];
							let tps = match (&c.speed, sib) {
								(Val::Fixed(x), _) => Some(*x),
								(Val::Mod { .. }, Some(Ev::Probe { raw: Some(_), v, .. })) => Some(*v),
								(Val::Mod { .. }, Some(Ev::Probe { raw: None, .. })) => Some(c.held_tps),
								_ => None,
							};
							match (tps, info) {
								(Some(tps), Some((ticking, ticks, frac))) if c.ok => {
									c.held_tps = tps;
									if !(tps.is_finite() && tps >= 0.0 && tps * dtc < 1000.0) {
										c.ok = false;
										continue;
									}
									c.timer += tps * dtc;
									while c.timer >= 1.0 {
										c.timer -= 1.0;
										c.ticks += 1;
									}
									if !*ticking || *ticks != c.ticks || frac.to_bits() != c.timer.to_bits() {
										fail!(None, "same-chunk (clock): clock {cid} is at ({ticks}, {frac:?}) but with the speed map(modulator value of this chunk) = {tps:?} ticks/s it must be at ({}, {:?})", c.ticks, c.timer);
										c.ok = false;
									}
								}
								(_, None) => fail!(None, "clock {cid} does not resolve in the mixer"),
								_ => {}
							}
						}
					}
				}
			}
		}
	}
	let _ = &clocks;
	if pos != log.len() {
		fail!(None, "the log has {} more events than the history explains (first: {:?})", log.len() - pos, log.get(pos));
	}
	an
}

// ------------------------------------------------------------------------------------------
// generators
// ------------------------------------------------------------------------------------------
struct Gen<'a> {
	r: &'a mut Rng,
	dyadic: bool,
	boundary: bool,
	sr: u32,
	ibs: usize,
}
impl<'a> Gen<'a> {
	fn chunk_secs(&self) -> f64 {
		self.ibs as f64 / self.sr as f64
	}
	fn small(&mut self, scale: f64) -> f64 {
		if self.dyadic {
			(self.r.range(-32, 32) as f64) / 8.0 * scale
		} else {
			(self.r.unit_f64() * 2.0 - 1.0) * 4.0 * scale
		}
	}
	fn freq(&mut self) -> f64 {
		let per_chunk = if self.dyadic {
			*self.r.pick(&[0.0, 1.0 / 16.0, 1.0 / 8.0, 3.0 / 16.0, 0.25, 0.5, 1.0, 1.25, 33.0 / 32.0])
		} else {
			self.r.unit_f64() * 1.3
		};
		let f = per_chunk / self.chunk_secs();
		if self.boundary && self.r.chance(1, 6) {
			-f
		} else {
			f
		}
	}
	fn phase(&mut self) -> f64 {
		let turns = if self.boundary && self.r.chance(1, 2) {
			*self.r.pick(&[-0.9, -0.25, -2.5, -0.5, -1e-9])
		} else if self.dyadic {
			*self.r.pick(&[0.0, 0.25, 0.5, 0.75, 0.125, 1.5, 3.25])
		} else {
			self.r.unit_f64() * 2.0
		};
		turns * TAU
	}
	fn wave(&mut self, allow_sine: bool) -> Wave {
		match self.r.below(if allow_sine { 5 } else { 4 }) {
			0 => Wave::Triangle,
			1 => Wave::Saw,
			2 => Wave::Pulse(*self.r.pick(&[0.5, 0.25, 0.0, 1.0, 0.75])),
			3 => Wave::Pulse(self.r.unit_f64()),
			_ => Wave::Sine,
		}
	}
	fn easing(&mut self, powf_ok: bool) -> Easing {
		match self.r.below(if powf_ok { 7 } else { 4 }) {
			0 => Easing::Linear,
			1 => Easing::InPowi(self.r.range(1, 4) as i32),
			2 => Easing::OutPowi(self.r.range(1, 4) as i32),
			3 => Easing::InOutPowi(self.r.range(1, 4) as i32),
			4 => Easing::InPowf(*self.r.pick(&[0.5, 1.5, 2.0, 3.0])),
			5 => Easing::OutPowf(*self.r.pick(&[0.5, 1.5, 2.0, 3.0])),
			_ => Easing::InOutPowf(*self.r.pick(&[0.5, 1.5, 2.0, 3.0])),
		}
	}
	/// a link to modulator `id` with an input range that suits the values it produces
	fn link(&mut self, id: usize, out_scale: f64, out_nonneg: bool, powf_ok: bool) -> Val {
		let (mut lo, mut hi) = match self.r.below(4) {
			0 => (-1.0, 1.0),
			1 => (0.0, 1.0),
			2 => (0.0, 4.0),
			_ => {
				let a = self.small(1.0);
				(a, a + 0.5 + self.r.below(8) as f64 / 2.0)
			}
		};
		if self.r.chance(1, 3) {
			std::mem::swap(&mut lo, &mut hi); // inverted input range
		}
		if self.boundary && self.r.chance(1, 5) {
			hi = lo; // degenerate
		}
		let (mut olo, mut ohi) = (self.small(out_scale), self.small(out_scale));
		if out_nonneg {
			olo = olo.abs();
			ohi = ohi.abs();
		}
		let e = self.easing(powf_ok);
		Val::Mod { id, lo, hi, olo, ohi, e }
	}
	fn tween(&mut self) -> Tw {
		let cns = self.chunk_secs() * 1e9;
		let k = *self.r.pick(&[0.0, 0.5, 1.0, 1.0, 2.0, 2.0, 3.0, 3.5, 5.0]);
		let dur_ns = if self.dyadic { (k * cns).round() as u64 } else { (self.r.unit_f64() * 4.0 * cns) as u64 };
		let delay_ns = match self.r.below(4) {
			0 => {
				let j = *self.r.pick(&[0.0, 0.5, 1.0, 2.0, 2.5]);
				if self.dyadic {
					(j * cns).round() as i64
				} else {
					(self.r.unit_f64() * 3.0 * cns) as i64
				}
			}
			_ => -1,
		};
		Tw { delay_ns, dur_ns, e: self.easing(false) }
	}
}

fn gen_scenario(r: &mut Rng, dyadic: bool, boundary: bool) -> Scen {
	let sr = if dyadic { *r.pick(&[1u32, 2, 4, 8, 64, 1000, 1024]) } else { *r.pick(&[44100u32, 48000, 22050, 7, 1000, 96000]) };
	let ibs = *r.pick(&[1usize, 2, 3, 4, 8, 16, 128]);
	let mut g = Gen { r, dyadic, boundary, sr, ibs };
	let mut ops: Vec<Op> = vec![];
	// kinds of the modulators so far: 0 lfo, 1 tweener, 2 probe
	let mut kinds: Vec<u8> = vec![];
	let mut alive: Vec<bool> = vec![];
	// LFOs built with amplitude exactly 0 (their value is their offset: chain-checkable)
	let mut zamp: Vec<bool> = vec![];
	let mut nclocks = 0usize;
	// a sentinel probe so that chunk boundaries are visible in the log even with nothing else
	let mut need_sentinel = true;
	let add_mod = |g: &mut Gen, ops: &mut Vec<Op>, kinds: &mut Vec<u8>, alive: &mut Vec<bool>, zamp: &mut Vec<bool>| {
		let mut is_zamp = false;
		let n = kinds.len();
		let existing: Vec<usize> = (0..n).collect();
		let k = g.r.below(10);
		if k < 5 {
			// LFO; parameters may be linked to any earlier modulator (alive or already dropped)
			let pick_val = |g: &mut Gen, scale: f64, nonneg: bool, fixed: f64| -> Val {
				if !existing.is_empty() && g.r.chance(1, 3) {
					let id = *g.r.pick(&existing);
					g.link(id, scale, nonneg, false)
				} else {
					Val::Fixed(fixed)
				}
			};
			let fr = g.freq();
			let mut f = pick_val(g, 0.25 / g.chunk_secs(), true, fr);
			let am = g.small(1.0);
			let mut a = pick_val(g, 1.0, false, am);
			let of = g.small(1.0);
			let mut o = pick_val(g, 1.0, false, of);
			if g.r.chance(1, 3) {
				// value = offset: a modulator -> modulator chain that can be checked exactly
				is_zamp = true;
				f = Val::Fixed(fr);
				a = Val::Fixed(0.0);
				if !existing.is_empty() {
					let id = *g.r.pick(&existing);
					o = g.link(id, 1.0, false, false);
				}
			}
			let allow_sine = matches!(f, Val::Fixed(_));
			let w = g.wave(allow_sine);
			let phase = g.phase();
			ops.push(Op::AddLfo { w, f, a, o, phase });
			kinds.push(0);
		} else if k < 8 {
			ops.push(Op::AddTweener { init: g.small(1.0) });
			kinds.push(1);
		} else {
			let watch = if n > 0 && g.r.chance(2, 3) { g.r.below(n as u64) as i64 } else if g.r.chance(1, 2) { -2 } else { -1 };
			ops.push(Op::AddProbeMod { watch });
			kinds.push(2);
		}
		alive.push(true);
		zamp.push(is_zamp);
		// a mixer-side reader for it
		let id = kinds.len() - 1;
		let v = g.link(id, 2.0, false, true);
		ops.push(Op::AddProbe { watch: id, v });
	};
	let nmods0 = g.r.range(1, 3);
	for _ in 0..nmods0 {
		add_mod(&mut g, &mut ops, &mut kinds, &mut alive, &mut zamp);
		need_sentinel = false;
	}
	let _ = need_sentinel;
	let steps = g.r.range(3, 6);
	let mut chunks_left: i64 = 14;
	for _ in 0..steps {
		// commands
		let ncmd = g.r.below(3);
		for _ in 0..ncmd {
			let n = kinds.len();
			match g.r.below(10) {
				0 if n < 6 => add_mod(&mut g, &mut ops, &mut kinds, &mut alive, &mut zamp),
				1 => {
					let id = g.r.below(n as u64) as usize;
					if alive[id] && g.r.chance(1, 2) {
						alive[id] = false;
						ops.push(Op::Drop { id });
					}
				}
				2 | 3 | 4 => {
					// retarget a tweener (at most one command per modulator between callbacks is guaranteed by `cmd_done`)
					let cands: Vec<usize> = (0..n).filter(|i| kinds[*i] == 1 && alive[*i]).collect();
					if !cands.is_empty() {
						let id = *g.r.pick(&cands);
						let target = g.small(1.0);
						let tw = g.tween();
						ops.push(Op::SetTweener { id, target, tw });
					}
				}
				5 | 6 => {
					let cands: Vec<usize> = (0..n).filter(|i| kinds[*i] == 0 && alive[*i]).collect();
					if !cands.is_empty() {
						let id = *g.r.pick(&cands);
						if zamp[id] && g.r.chance(2, 3) {
							// link the offset of a zero-amplitude LFO to ANY modulator (earlier, later, itself), at once
							let m = g.r.below(n as u64) as usize;
							let target = g.link(m, 1.0, false, false);
							ops.push(Op::SetLfoParam { id, which: 2, target, tw: Tw { delay_ns: -1, dur_ns: 0, e: Easing::Linear } });
							continue;
						}
						let which = g.r.below(3) as u8;
						let target = if g.r.chance(1, 2) {
							// link to ANY modulator: earlier, later, or itself
							let m = g.r.below(n as u64) as usize;
							if which == 0 { g.link(m, 0.25 / g.chunk_secs(), true, false) } else { g.link(m, 1.0, false, false) }
						} else if which == 0 {
							Val::Fixed(g.freq())
						} else {
							Val::Fixed(g.small(1.0))
						};
						let tw = g.tween();
						ops.push(Op::SetLfoParam { id, which, target, tw });
					}
				}
				7 => {
					let cands: Vec<usize> = (0..n).filter(|i| kinds[*i] == 0 && alive[*i]).collect();
					if !cands.is_empty() {
						let id = *g.r.pick(&cands);
						let phase = g.phase();
						ops.push(Op::SetPhase { id, phase });
					}
				}
				8 => {
					let cands: Vec<usize> = (0..n).filter(|i| kinds[*i] == 0 && alive[*i]).collect();
					if !cands.is_empty() {
						let id = *g.r.pick(&cands);
						let w = g.wave(true);
						ops.push(Op::SetWave { id, w });
					}
				}
				_ => {
					if nclocks < 2 && n > 0 {
						let m = g.r.below(n as u64) as usize;
						let speed = g.link(m, 0.5 / g.chunk_secs(), true, false);
						ops.push(Op::AddClock { speed: speed.clone() });
						ops.push(Op::AddClockProbe { cid: nclocks });
						// a sibling parameter probe with the same mapping: what the clock's speed must be
						ops.push(Op::AddProbe { watch: m, v: speed });
						nclocks += 1;
					}
				}
			}
		}
		// at most one command of each kind per modulator between two callbacks (last write wins is C07's business)
		dedup_commands(&mut ops);
		let max_chunks = chunks_left.min(4).max(1);
		let frames = match g.r.below(6) {
			0 => 0,
			1 => g.ibs,
			2 => g.ibs * g.r.range(1, max_chunks) as usize,
			_ => (g.r.range(1, (g.ibs as i64 * max_chunks).max(1))) as usize,
		};
		chunks_left -= chunk_lens(g.ibs, frames).len() as i64;
		ops.push(Op::Cb { frames });
		if chunks_left <= 0 {
			break;
		}
	}
	Scen { sr, ibs, ops }
}
/// between two callbacks keep only the first command of each (modulator, kind)
fn dedup_commands(ops: &mut Vec<Op>) {
	let start = ops.iter().rposition(|o| matches!(o, Op::Cb { .. })).map(|i| i + 1).unwrap_or(0);
	let mut seen: Vec<(usize, u8)> = vec![];
	let mut i = start;
	while i < ops.len() {
		let key = match &ops[i] {
			Op::SetTweener { id, .. } => Some((*id, 10)),
			Op::SetLfoParam { id, which, .. } => Some((*id, *which)),
			Op::SetPhase { id, .. } => Some((*id, 11)),
			Op::SetWave { id, .. } => Some((*id, 12)),
			_ => None,
		};
		if let Some(k) = key {
			if seen.contains(&k) {
				ops.remove(i);
				continue;
			}
			seen.push(k);
		}
		i += 1;
	}
}

fn ident() -> (f64, f64, f64, f64, Easing) {
	(0.0, 100.0, 0.0, 100.0, Easing::Linear)
}
fn ident_link(id: usize) -> Val {
	let (lo, hi, olo, ohi, e) = ident();
	Val::Mod { id, lo, hi, olo, ohi, e }
}

/// fixed scenarios: the witnesses of the `_refuted` theorems and the chain-lag example
fn fixed_scenarios() -> Vec<(&'static str, Scen)> {
	let mut v = vec![];
	// F15: Saw, frequency 0, starting phase -0.9 turns, amplitude 1, offset 0
	v.push((
		"f15_negative_starting_phase",
		Scen {
			sr: 4,
			ibs: 2,
			ops: vec![
				Op::AddLfo { w: Wave::Saw, f: Val::Fixed(0.0), a: Val::Fixed(1.0), o: Val::Fixed(0.0), phase: -0.9 * TAU },
				Op::AddProbe { watch: 0, v: Val::Mod { id: 0, lo: -2.0, hi: 2.0, olo: -2.0, ohi: 2.0, e: Easing::Linear } },
				Op::Cb { frames: 4 },
			],
		},
	));
	// chain, reader AFTER the modulator it reads: probe modulator P (value = update count), then an LFO whose
	// offset is linked to P with the identity mapping and amplitude 0
	v.push((
		"chain_reader_after",
		Scen {
			sr: 4,
			ibs: 1,
			ops: vec![
				Op::AddProbeMod { watch: -1 },
				Op::AddLfo { w: Wave::Saw, f: Val::Fixed(0.0), a: Val::Fixed(0.0), o: ident_link(0), phase: 0.0 },
				Op::AddProbe { watch: 0, v: ident_link(0) },
				Op::AddProbe { watch: 1, v: ident_link(1) },
				Op::Cb { frames: 4 },
			],
		},
	));
	// chain, reader BEFORE the modulator it reads: the LFO is added first and linked by a command
	v.push((
		"chain_reader_before",
		Scen {
			sr: 4,
			ibs: 1,
			ops: vec![
				Op::AddLfo { w: Wave::Saw, f: Val::Fixed(0.0), a: Val::Fixed(0.0), o: Val::Fixed(0.0), phase: 0.0 },
				Op::AddProbeMod { watch: 0 },
				Op::SetLfoParam { id: 0, which: 2, target: ident_link(1), tw: Tw { delay_ns: -1, dur_ns: 0, e: Easing::Linear } },
				Op::AddProbe { watch: 0, v: ident_link(0) },
				Op::AddProbe { watch: 1, v: ident_link(1) },
				Op::Cb { frames: 4 },
			],
		},
	));
	// a modulator reading its own id sees the dummy (0.0)
	v.push((
		"chain_self",
		Scen {
			sr: 4,
			ibs: 1,
			ops: vec![
				Op::AddLfo { w: Wave::Pulse(0.5), f: Val::Fixed(0.0), a: Val::Fixed(1.0), o: Val::Fixed(3.0), phase: 0.0 },
				Op::SetLfoParam { id: 0, which: 2, target: Val::Mod { id: 0, lo: 0.0, hi: 8.0, olo: 10.0, ohi: 18.0, e: Easing::Linear }, tw: Tw { delay_ns: -1, dur_ns: 0, e: Easing::Linear } },
				Op::AddProbeMod { watch: -2 },
				Op::AddProbe { watch: 0, v: ident_link(0) },
				Op::Cb { frames: 3 },
			],
		},
	));
	// Duration::from_secs_f64 tie: dt = 2^-10 s = 976562.5 ns (delay of exactly 976562 ns is used up in one update)
	v.push((
		"delay_tie_rounding",
		Scen {
			sr: 1024,
			ibs: 1,
			ops: vec![
				Op::AddTweener { init: 0.0 },
				Op::AddProbe { watch: 0, v: ident_link(0) },
				Op::SetTweener { id: 0, target: 8.0, tw: Tw { delay_ns: 976_563, dur_ns: 4 * 976_562, e: Easing::Linear } },
				Op::Cb { frames: 8 },
				Op::SetTweener { id: 0, target: 1.0, tw: Tw { delay_ns: 976_562, dur_ns: 2 * 976_563, e: Easing::Linear } },
				Op::Cb { frames: 8 },
			],
		},
	));
	// the `>=` finish test on an exact boundary, and holding afterwards; removal; hold after removal
	v.push((
		"tween_boundary_hold_drop",
		Scen {
			sr: 8,
			ibs: 2,
			ops: vec![
				Op::AddTweener { init: 1.0 },
				Op::AddProbe { watch: 0, v: Val::Mod { id: 0, lo: 5.0, hi: 1.0, olo: -1.0, ohi: 1.0, e: Easing::InPowi(2) } },
				Op::SetTweener { id: 0, target: 5.0, tw: Tw { delay_ns: -1, dur_ns: 1_000_000_000, e: Easing::Linear } },
				Op::Cb { frames: 7 },
				Op::Cb { frames: 3 },
				Op::Drop { id: 0 },
				Op::AddTweener { init: 77.0 },
				Op::Cb { frames: 5 },
			],
		},
	));
	v
}

/// DC sound whose (sound or track) volume is linked to a modulator: the envelope is read from the output
fn dc_scenario(r: &mut Rng) -> Scen {
	let sr = *r.pick(&[8u32, 64, 1000]);
	let ibs = *r.pick(&[2usize, 4, 8]);
	let mut ops = vec![];
	let track = r.chance(1, 2);
	if r.chance(1, 2) {
		ops.push(Op::AddTweener { init: 0.0 });
		ops.push(Op::AddProbe { watch: 0, v: ident_link(0) });
		ops.push(Op::AddDcSound { watch: 0, lo: 0.0, hi: 1.0, db_lo: -12.0, db_hi: 0.0, track });
		ops.push(Op::Cb { frames: 4 * ibs });
		ops.push(Op::SetTweener { id: 0, target: 1.0, tw: Tw { delay_ns: -1, dur_ns: (3.0 * ibs as f64 / sr as f64 * 1e9) as u64, e: Easing::Linear } });
	} else {
		let f = 0.125 * sr as f64 / ibs as f64;
		ops.push(Op::AddLfo { w: *r.pick(&[Wave::Triangle, Wave::Saw, Wave::Pulse(0.5), Wave::Sine]), f: Val::Fixed(f), a: Val::Fixed(1.0), o: Val::Fixed(0.0), phase: 0.0 });
		ops.push(Op::AddProbe { watch: 0, v: ident_link(0) });
		ops.push(Op::AddDcSound { watch: 0, lo: -1.0, hi: 1.0, db_lo: -12.0, db_hi: 0.0, track });
		ops.push(Op::Cb { frames: 4 * ibs });
	}
	ops.push(Op::Cb { frames: 3 * ibs });
	ops.push(Op::Cb { frames: 2 * ibs + 1 });
	ops.push(Op::Drop { id: 0 });
	ops.push(Op::Cb { frames: 2 * ibs });
	Scen { sr, ibs, ops }
}
/// monitor: at the last frame of every chunk the DC output is 0.5 * amplitude(map(modulator value of that chunk));
/// after the modulator is removed the volume holds
fn check_dc(sc: &Scen, tr: &Trace, fails: &mut Vec<(String, Option<&'static str>)>) {
	for (d, outs) in &tr.dc {
		// the modulator values per chunk, from the probe watching the same modulator (pid 0 in these scenarios)
		let vals: Vec<(usize, Option<f64>)> = tr
			.log
			.iter()
			.filter_map(|e| match e {
				Ev::Probe { pid: 0, len, raw, .. } => Some((*len, *raw)),
				_ => None,
			})
			.collect();
		let flat: Vec<f32> = outs.iter().flatten().copied().collect();
		let _ = d.added_at_cb;
		let mut at = 0usize;
		let mut last_amp: Option<f32> = None;
		let m = Mapping { input_range: (d.lo, d.hi), output_range: (Decibels(d.db_lo), Decibels(d.db_hi)), easing: Easing::Linear };
		for (k, (len, raw)) in vals.iter().enumerate() {
			at += len;
			if at > flat.len() {
				break;
			}
			let got = flat[at - 1];
			let want_amp = match raw {
				Some(x) => m.map(*x).as_amplitude(),
				None => match last_amp {
					Some(a) => a,
					None => continue,
				},
			};
			last_amp = Some(want_amp);
			// the first chunks contain the resampler's start-up; skip them
			if k < 2 {
				continue;
			}
			let want = 0.5 * want_amp;
			if (got - want).abs() > 1e-5 {
				fails.push((
					format!("DC sound with {} volume linked to modulator {}: chunk {k} ends at {got:?}, expected 0.5 * amplitude(map(value {raw:?})) = {want:?}", if sc.ops.iter().any(|o| matches!(o, Op::AddDcSound { track: true, .. })) { "track" } else { "sound" }, d.watch),
					None,
				));
			}
		}
	}
}

fn describe(sc: &Scen) -> String {
	format!("{:?}", sc)
}

pub fn run(args: &Args) {
	let mut rng = Rng::new(args.seed ^ 0xC17);
	let n: u64 = (if args.thorough { 12_000 } else { 1_500 }) * args.budget_mul;
	let mut s = Session::new(
		"C17",
		&args.out,
		"From Coq Require Import ZArith List. Import ListNotations. Open Scope Z_scope.\nFrom KV Require Import Base.Corr C17.Run.",
		"run",
		60,
		"one case = one whole history of a real AudioManager (modulators, clocks, probe effects added; commands; drops; callbacks of any size) observed exactly through probe effects / probe modulators; distinct = distinct history text; non-trivial = at least one modulator update observed",
	);
	let mut lag_noted = false;
	let mut f15_noted = false;
	let mut run_one = |s: &mut Session, kind: &str, sc: &Scen, rngless_note: Option<&str>| {
		let tr = match catch(|| execute(sc)) {
			Outcome::Ok(t) => t,
			_ => {
				s.fail(describe(sc), format!("panicked: {}", last_panic()), None);
				return;
			}
		};
		let mut an = analyse(sc, &tr);
		check_dc(sc, &tr, &mut an.fails);
		// per history: every unclassified failure, but only the first one of a known class
		let mut classes_seen: Vec<&'static str> = vec![];
		for (what, cls) in &an.fails {
			if let Some(c) = cls {
				if classes_seen.contains(c) {
					continue;
				}
				classes_seen.push(c);
			}
			s.fail(describe(sc), what.clone(), *cls);
		}
		let has_dc = sc.ops.iter().any(|o| matches!(o, Op::AddDcSound { .. }));
		if an.modelable {
			let obs = observable(sc, &tr.log);
			let nontrivial = if obs.is_empty() { None } else { Some(format!("{:?}", sc.ops)) };
			s.case(kind, g_case(sc, &an.sin_tab, &an.pow_tab), &obs, nontrivial);
		} else {
			s.eval_only(&format!("{kind}_monitor_only"));
		}
		if has_dc {
			s.count("dc_volume_linked");
		}
		// histogram of what the history contains
		for op in &sc.ops {
			let k = match op {
				Op::AddLfo { w, .. } => match w {
					Wave::Sine => "op_add_lfo_sine",
					Wave::Triangle => "op_add_lfo_triangle",
					Wave::Saw => "op_add_lfo_saw",
					Wave::Pulse(_) => "op_add_lfo_pulse",
				},
				Op::AddTweener { .. } => "op_add_tweener",
				Op::AddProbeMod { .. } => "op_add_probe_modulator",
				Op::Drop { .. } => "op_drop_modulator",
				Op::SetTweener { .. } => "op_set_tweener",
				Op::SetLfoParam { target: Val::Mod { .. }, .. } => "op_set_lfo_param_linked",
				Op::SetLfoParam { .. } => "op_set_lfo_param_fixed",
				Op::SetPhase { .. } => "op_set_phase",
				Op::SetWave { .. } => "op_set_waveform",
				Op::AddClock { .. } => "op_add_clock_linked",
				Op::AddProbe { .. } => "op_add_param_probe",
				Op::AddClockProbe { .. } => "op_add_clock_probe",
				Op::AddDcSound { .. } => "op_add_dc_sound",
				Op::Cb { .. } => "op_callback",
			};
			s.count(k);
		}
		if let Some(tag) = rngless_note {
			// the named scenarios: put what the real code did into the notes
			let vals = |pid: usize| -> Vec<String> {
				tr.log
					.iter()
					.filter_map(|e| match e {
						Ev::Probe { pid: p, raw, .. } if *p == pid => Some(match raw {
							Some(x) => format!("{x:?}"),
							None => "None".into(),
						}),
						_ => None,
					})
					.collect()
			};
			match tag {
				"chain_reader_before" if !lag_noted => {
					lag_noted = true;
					s.notes.push(format!(
						"modulator chain, reader updated BEFORE the modulator it reads (LFO added first, offset linked by set_offset to a probe modulator added second whose value is its update count; identity mapping, amplitude 0; 4 chunks): mixer reads LFO = [{}], probe modulator = [{}] -- the reader lags one chunk (in chunk k it holds map(value of chunk k-1); in its first chunk it sees the initial value)",
						vals(0).join(", "),
						vals(1).join(", ")
					));
				}
				"chain_reader_after" => {
					s.notes.push(format!(
						"modulator chain, reader updated AFTER the modulator it reads (probe modulator added first, LFO offset linked to it at build time): mixer reads probe modulator = [{}], LFO = [{}] -- same chunk",
						vals(0).join(", "),
						vals(1).join(", ")
					));
				}
				"chain_self" => {
					s.notes.push(format!("a modulator linked to its OWN id reads the dummy value 0.0: LFO (Pulse, amplitude 1, offset linked to itself with map 0..8 -> 10..18) = [{}]", vals(0).join(", ")));
				}
				"f15_negative_starting_phase" if !f15_noted => {
					f15_noted = true;
					s.notes.push(format!("F15 regression witness on the implementation (Saw, frequency 0, starting_phase -0.9*TAU, amplitude 1, offset 0; gave -1.8 before the repair): modulator value per chunk = [{}]", vals(0).join(", ")));
				}
				_ => {}
			}
		}
	};

	for (name, sc) in fixed_scenarios() {
		run_one(&mut s, "fixed", &sc, Some(name));
	}
	for i in 0..n {
		let boundary = i % 5 == 4;
		let dyadic = i % 2 == 0;
		let sc = gen_scenario(&mut rng, dyadic, boundary);
		let kind = match (dyadic, boundary) {
			(true, false) => "history_dyadic",
			(false, false) => "history_arbitrary",
			(true, true) => "history_dyadic_boundary",
			(false, true) => "history_arbitrary_boundary",
		};
		run_one(&mut s, kind, &sc, None);
	}
	for _ in 0..n / 10 {
		let sc = dc_scenario(&mut rng);
		run_one(&mut s, "dc_volume", &sc, None);
	}
	s.finish();
}
