//! C03 — playback life cycle: a real static sound (DC frames) driven through callbacks with
//! pause / resume / resume_at / stop commands; handle state, position, envelope.
use crate::backend::*;
use crate::util::*;
use kira::clock::{ClockId, ClockTime};
use kira::info::MockInfoBuilder;
use kira::sound::static_sound::{StaticSoundData, StaticSoundHandle, StaticSoundSettings};
use kira::sound::streaming::{Decoder, StreamingSoundData, StreamingSoundHandle};
use kira::sound::{PlaybackPosition, PlaybackState, Region, Sound, SoundData};
use kira::track::{MainTrackBuilder, TrackBuilder, TrackHandle};
use kira::{Capacities, Easing, Frame, PlaySoundError, StartTime, Tween};
use std::sync::{Arc, Condvar, Mutex};
use std::time::{Duration, Instant};

const SR: u32 = 1024; // dt = 2^-10 s: sample_rate * rate * dt is exactly 1

#[derive(Clone, Debug)]
enum Start {
	Imm,
	Del(u64),
	Clk { clock: usize, ticks: u64, fr: f64 },
}
#[derive(Clone, Debug)]
struct Tw {
	start: Start,
	dur_ns: u64,
	easing: Easing,
}
#[derive(Clone, Debug)]
struct Cb {
	pause: Option<Tw>,
	resume: Option<(Start, Tw)>,
	stop: Option<Tw>,
	lens: Vec<usize>,
	clocks: Vec<(bool, bool, u64, f64)>,
}

fn state_code(s: PlaybackState) -> i128 {
	match s {
		PlaybackState::Playing => 0,
		PlaybackState::Pausing => 1,
		PlaybackState::Paused => 2,
		PlaybackState::WaitingToResume => 3,
		PlaybackState::Resuming => 4,
		PlaybackState::Stopping => 5,
		PlaybackState::Stopped => 6,
	}
}
fn easing_code(e: Easing) -> (i128, i128) {
	match e {
		Easing::Linear => (0, 0),
		Easing::InPowi(p) => (1, p as i128),
		Easing::OutPowi(p) => (2, p as i128),
		Easing::InOutPowi(p) => (3, p as i128),
		_ => unreachable!(),
	}
}
fn start_term(s: &Start) -> String {
	match s {
		Start::Imm => "SImm".into(),
		Start::Del(ns) => format!("(SDel {})", ns),
		Start::Clk { clock, ticks, fr } => format!("(SClk {} {} {})", clock, ticks, f64_bits_z(*fr)),
	}
}
fn tw_term(t: &Tw) -> String {
	let (ek, ep) = easing_code(t.easing);
	format!("({}, {}, {}, {})", start_term(&t.start), t.dur_ns, ek, z(ep))
}
fn opt<T>(o: &Option<T>, f: impl Fn(&T) -> String) -> String {
	match o {
		Some(x) => format!("(Some {})", f(x)),
		None => "None".into(),
	}
}
fn mk_start(ids: &[ClockId], s: &Start) -> StartTime {
	match s {
		Start::Imm => StartTime::Immediate,
		Start::Del(ns) => StartTime::Delayed(Duration::from_nanos(*ns)),
		Start::Clk { clock, ticks, fr } => StartTime::ClockTime(ClockTime { clock: ids[*clock], ticks: *ticks, fraction: *fr }),
	}
}
fn mk_tween(ids: &[ClockId], t: &Tw) -> Tween {
	Tween { start_time: mk_start(ids, &t.start), duration: Duration::from_nanos(t.dur_ns), easing: t.easing }
}
/// an immediate resume is sent the way a game sends it: `resume(tween)`; `resume_at` is kept for the other start times.
/// On the audio side the two are one command (`resume` = `resume_at(StartTime::Immediate, ..)`), so the model case is
/// the same `(SImm, tween)`; what differs is the handle-side code, which runs with the handle's view of the state:
/// the state published by the LAST callback, not the one the commands issued since then will produce
macro_rules! send_resume {
	($h:expr, $ids:expr, $s:expr, $t:expr) => {
		match $s {
			Start::Imm => $h.resume(mk_tween($ids, $t)),
			other => $h.resume_at(mk_start($ids, other), mk_tween($ids, $t)),
		}
	};
}
fn clock_ids() -> Vec<ClockId> {
	let mut b = MockInfoBuilder::new();
	vec![b.add_clock(false, 0, 0.0), b.add_clock(false, 0, 0.0)]
}
fn build_info(ids: &[ClockId], clocks: &[(bool, bool, u64, f64)]) -> kira::info::Info<'static> {
	let mut b = MockInfoBuilder::new();
	for (k, (present, ticking, tk, fr)) in clocks.iter().enumerate() {
		if !*present {
			break;
		}
		let id = b.add_clock(*ticking, *tk, *fr);
		assert!(id == ids[k]);
	}
	b.build()
}

struct Scenario {
	n: usize,
	start: usize,
	lp: bool,
	st: Start,
	fade_in: Option<Tw>,
	cbs: Vec<Cb>,
}

struct Trace {
	obs: Vec<i128>,
	tab: Vec<(u32, u32, u32)>,
	/// per callback: (state after, position reported, finished, outputs)
	per_cb: Vec<(PlaybackState, f64, bool, Vec<f32>)>,
	/// per process call: (callback index, state after the call, outputs of the call)
	per_call: Vec<(usize, PlaybackState, Vec<f32>)>,
	panicked: bool,
}

fn make_sound(ids: &[ClockId], sc: &Scenario) -> (Box<dyn Sound>, StaticSoundHandle) {
	let mut settings = StaticSoundSettings::new().start_position(PlaybackPosition::Samples(sc.start)).start_time(mk_start(ids, &sc.st));
	if sc.lp {
		settings = settings.loop_region(Region::from(..));
	}
	if let Some(t) = &sc.fade_in {
		settings = settings.fade_in_tween(mk_tween(ids, t));
	}
	let data = StaticSoundData { sample_rate: SR, frames: std::sync::Arc::from(vec![Frame::new(1.0, 1.0); sc.n]), settings, slice: None };
	data.into_sound().unwrap()
}

fn run_scenario(ids: &[ClockId], sc: &Scenario) -> Trace {
	run_with(ids, &sc.cbs, || make_sound(ids, sc))
}

/// drives a static sound built by `mk` through the callbacks `cbs`
fn run_with(ids: &[ClockId], cbs: &[Cb], mk: impl FnOnce() -> (Box<dyn Sound>, StaticSoundHandle)) -> Trace {
	let _ = kira::verif::take_powf32_log();
	let mut per_cb = vec![];
	let mut per_call = vec![];
	let r = catch(|| {
		let (mut sound, mut handle) = mk();
		let mut obs = vec![];
		let mut per = vec![];
		let mut calls = vec![];
		let dt = 1.0 / SR as f64;
		for (cbi, cb) in cbs.iter().enumerate() {
			if let Some(t) = &cb.pause {
				handle.pause(mk_tween(ids, t));
			}
			if let Some((s, t)) = &cb.resume {
				send_resume!(handle, ids, s, t);
			}
			if let Some(t) = &cb.stop {
				handle.stop(mk_tween(ids, t));
			}
			sound.on_start_processing();
			let pos = handle.position();
			let info = build_info(ids, &cb.clocks);
			let mut outs: Vec<f32> = vec![];
			for len in &cb.lens {
				let mut buf = vec![Frame::new(7.0, 7.0); *len];
				sound.process(&mut buf, dt, &info);
				let mut call_outs = vec![];
				for f in &buf {
					call_outs.push(f.left);
					if f.left.to_bits() != f.right.to_bits() {
						call_outs.push(f32::NAN); // channels differ: shows up as a mismatch and a monitor failure
					}
				}
				outs.extend(call_outs.iter().copied());
				calls.push((cbi, handle.state(), call_outs));
			}
			let st = handle.state();
			obs.push(state_code(st));
			obs.push((pos * SR as f64) as i128);
			obs.push(sound.finished() as i128);
			obs.extend(outs.iter().map(|x| obs32(*x)));
			per.push((st, pos, sound.finished(), outs));
		}
		(obs, per, calls)
	});
	let tab = kira::verif::take_powf32_log();
	match r {
		Outcome::Ok((obs, per, calls)) => {
			per_cb = per;
			per_call = calls;
			Trace { obs, tab, per_cb, per_call, panicked: false }
		}
		Outcome::Panic(c) => Trace { obs: vec![1000 + c], tab, per_cb, per_call, panicked: true },
		Outcome::Hang => Trace { obs: vec![2000], tab, per_cb, per_call, panicked: true },
	}
}

fn term(sc: &Scenario, tab: &[(u32, u32, u32)]) -> String {
	let mut t: Vec<(u32, u32, u32)> = tab.to_vec();
	t.sort();
	t.dedup();
	let cbs = sc
		.cbs
		.iter()
		.map(|cb| {
			format!(
				"RCb {} {} {} [{}] {} [{}]",
				opt(&cb.pause, tw_term),
				opt(&cb.resume, |(s, t)| format!("({}, {})", start_term(s), tw_term(t))),
				opt(&cb.stop, tw_term),
				cb.lens.iter().map(|l| l.to_string()).collect::<Vec<_>>().join("; "),
				f64_bits_z(1.0 / SR as f64),
				cb.clocks.iter().map(|(p, t, k, f)| format!("({}, {}, {}, {})", *p as u8, *t as u8, k, f64_bits_z(*f))).collect::<Vec<_>>().join("; ")
			)
		})
		.collect::<Vec<_>>()
		.join("; ");
	format!(
		"CSound {} {} {} {} {} [{}] [{}]",
		sc.n,
		sc.start,
		sc.lp as u8,
		start_term(&sc.st),
		opt(&sc.fade_in, tw_term),
		cbs,
		t.iter().map(|(a, b, c)| format!("({}, {}, {})", a, b, c)).collect::<Vec<_>>().join("; ")
	)
}

fn gen_easing(r: &mut Rng) -> Easing {
	match r.below(6) {
		0 => Easing::InPowi(r.range(1, 4) as i32),
		1 => Easing::OutPowi(r.range(1, 4) as i32),
		2 => Easing::InOutPowi(r.range(1, 3) as i32),
		_ => Easing::Linear,
	}
}
fn gen_start(r: &mut Rng) -> Start {
	match r.below(8) {
		0 => Start::Del(r.below(24) * 976_562 + r.below(2) * 500), // around multiples of a frame
		1 => Start::Del((r.below(6) + 1) * 7_812_500),
		2 | 3 => Start::Clk { clock: r.below(2) as usize, ticks: r.below(4), fr: if r.chance(1, 2) { 0.0 } else { 0.5 } },
		_ => Start::Imm,
	}
}
fn gen_tw(r: &mut Rng, allow_start: bool) -> Tw {
	let dur_ns = match r.below(6) {
		0 => 0,
		1 => r.below(900_000),                // shorter than one frame
		2 => (r.below(30) + 1) * 976_562 + 500, // k frames (1/1024 s = 976562.5 ns)
		3 => (r.below(12) + 1) * 7_812_500,   // k * 8 frames exactly
		_ => r.below(40_000_000) + 1,
	};
	Tw { start: if allow_start && r.chance(1, 4) { gen_start(r) } else { Start::Imm }, dur_ns, easing: gen_easing(r) }
}
fn gen_clocks(r: &mut Rng, t: u64) -> Vec<(bool, bool, u64, f64)> {
	// clock 0: runs with time t/2 ticks, sometimes paused, sometimes gone; clock 1: slower, may be absent
	let present0 = !r.chance(1, 12);
	let present1 = present0 && r.chance(2, 3);
	vec![(present0, !r.chance(1, 6), t / 2, if t % 2 == 1 { 0.5 } else { 0.0 }), (present1, true, t / 5, 0.0)]
}
fn gen_scenario(r: &mut Rng) -> Scenario {
	let lp = r.chance(1, 2);
	let n = if lp { r.below(6) as usize + 1 } else { r.below(40) as usize + 1 };
	let start = if r.chance(1, 4) { r.below(n as u64) as usize } else { 0 };
	let st = if r.chance(1, 4) { gen_start(r) } else { Start::Imm };
	let fade_in = if r.chance(1, 5) { Some(gen_tw(r, false)) } else { None };
	let ncb = r.range(3, 9) as usize;
	let mut cbs = vec![];
	for k in 0..ncb {
		let mut cb = Cb { pause: None, resume: None, stop: None, lens: vec![], clocks: gen_clocks(r, k as u64) };
		if r.chance(2, 5) {
			match r.below(7) {
				0 | 1 => cb.pause = Some(gen_tw(r, true)),
				2 | 3 => cb.resume = Some((if r.chance(1, 2) { gen_start(r) } else { Start::Imm }, gen_tw(r, true))),
				4 => cb.stop = Some(gen_tw(r, true)),
				5 => {
					cb.pause = Some(gen_tw(r, false));
					cb.resume = Some((Start::Imm, gen_tw(r, false)));
				}
				_ => {
					cb.stop = Some(gen_tw(r, false));
					cb.pause = Some(gen_tw(r, false));
				}
			}
		}
		let chunks = r.range(1, 2);
		for _ in 0..chunks {
			cb.lens.push(*r.pick(&[1usize, 2, 3, 4, 5, 8]));
		}
		cbs.push(cb);
	}
	Scenario { n, start, lp, st, fade_in, cbs }
}

/// property monitors evaluated on the implementation's trace
fn monitors(s: &mut Session, desc: &str, sc: &Scenario, tr: &Trace) {
	monitors_on(s, desc, &sc.cbs, tr, true)
}
/// the life cycle as the property words it, per command: the command the sound read last (pause, resume, stop are read in
/// this order at a callback boundary) puts it on one branch - pause: Pausing then Paused; resume: Resuming then Playing;
/// resume_at: WaitingToResume, then Resuming, then Playing; stop: Stopping then Stopped; no command yet: Playing - and it
/// moves along that branch only forwards until the next command (Stopped may cut any branch short: natural end, clock
/// gone, decoder error).  `states[k]` = what the handle reports after callback k.  This holds whatever the handle
/// reported while the commands were issued (it shows the previous callback's state, e.g. still Playing after `pause`)
fn last_command_monitor(s: &mut Session, desc: &str, cbs: &[Cb], states: &[PlaybackState]) {
	use PlaybackState::*;
	let mut branch: (&str, Vec<PlaybackState>) = ("no command yet", vec![Playing, Stopped]);
	let mut at: Option<usize> = None;
	let mut rank = 0usize;
	for (k, st) in states.iter().enumerate() {
		let cb = &cbs[k];
		let new = if cb.stop.is_some() {
			Some(("stop", vec![Stopping, Stopped]))
		} else if let Some((start, _)) = &cb.resume {
			Some(match start {
				Start::Imm => ("resume", vec![Resuming, Playing, Stopped]),
				_ => ("resume_at", vec![WaitingToResume, Resuming, Playing, Stopped]),
			})
		} else if cb.pause.is_some() {
			Some(("pause", vec![Pausing, Paused, Stopped]))
		} else {
			None
		};
		if k > 0 && states[k - 1] == Stopped {
			// Stopped is final: commands are ignored (checked by the callers)
			continue;
		}
		if let Some(b) = new {
			branch = b;
			at = Some(k);
			rank = 0;
		}
		let issued = |at: Option<usize>| match at {
			Some(a) => {
				let mut names = vec![];
				if cbs[a].pause.is_some() {
					names.push("pause");
				}
				if let Some((st, _)) = &cbs[a].resume {
					names.push(if matches!(st, Start::Imm) { "resume" } else { "resume_at" });
				}
				if cbs[a].stop.is_some() {
					names.push("stop");
				}
				format!(
					"{} issued before callback {a} with no callback between them, while the handle reported {:?}",
					names.join(" then "),
					if a == 0 { Playing } else { states[a - 1] }
				)
			}
			None => "no command issued so far".to_string(),
		};
		match branch.1.iter().position(|x| x == st) {
			None => {
				s.fail(desc.to_string(), format!("callback {k}: the handle reports {st:?}; the last command read is {} ({}), whose life cycle is {:?}", branch.0, issued(at), branch.1), None);
				return;
			}
			Some(p) if p < rank => {
				s.fail(desc.to_string(), format!("callback {k}: the handle went back from {:?} to {st:?} without a new command ({}: {:?}; {})", branch.1[rank], branch.0, branch.1, issued(at)), None);
				return;
			}
			Some(p) => rank = p,
		}
	}
}

/// `check_pos`: a streaming sound's reported position is the index of ring slot 1, which appears when the decoder
/// delivers a late frame, whatever the playback state; the position clause is checked there against the model
fn monitors_on(s: &mut Session, desc: &str, cbs: &[Cb], tr: &Trace, check_pos: bool) {
	if tr.panicked {
		s.fail(desc.to_string(), "panic while driving the sound".into(), None);
		return;
	}
	// per process call: a call that ends Paused / WaitingToResume was silent; so was any call made while Stopped
	let mut was_stopped = false;
	for (cbi, st, outs) in &tr.per_call {
		if matches!(st, PlaybackState::Paused | PlaybackState::WaitingToResume) && outs.iter().any(|x| *x != 0.0) {
			s.fail(desc.to_string(), format!("callback {cbi}: a process call ended in state {st:?} but emitted audio"), None);
		}
		if was_stopped && outs.iter().any(|x| *x != 0.0) {
			s.fail(desc.to_string(), format!("callback {cbi}: a process call on a Stopped sound emitted audio"), None);
		}
		if *st == PlaybackState::Stopped {
			was_stopped = true;
		}
	}
	last_command_monitor(s, desc, cbs, &tr.per_cb.iter().map(|x| x.0).collect::<Vec<_>>());
	let mut stopped_seen = false;
	let mut prev: Option<&(PlaybackState, f64, bool, Vec<f32>)> = None;
	for (k, cur) in tr.per_cb.iter().enumerate() {
		let (st, pos, fin, outs) = cur;
		if outs.iter().any(|x| x.is_nan()) {
			s.fail(desc.to_string(), format!("callback {k}: NaN or differing channels in the output"), None);
		}
		if stopped_seen {
			if *st != PlaybackState::Stopped {
				s.fail(desc.to_string(), format!("callback {k}: state {st:?} after the sound had reported Stopped"), None);
			}
			if outs.iter().any(|x| *x != 0.0) {
				s.fail(desc.to_string(), format!("callback {k}: a Stopped sound emitted audio"), None);
			}
		}
		if (*st == PlaybackState::Stopped) != *fin {
			s.fail(desc.to_string(), format!("callback {k}: finished() = {fin} but state = {st:?}"), None);
		}
		if let Some((pst, ppos, _, _)) = prev {
			// the position reported at the start of callback k is the frame heard after callback k-1; if callback k-1
			// ended Paused/WaitingToResume/Stopped and so did k-2 .. then it must not have moved
			if k >= 2 {
				let (ppst, _, _, _) = &tr.per_cb[k - 2];
				let frozen = |x: &PlaybackState| matches!(x, PlaybackState::Paused | PlaybackState::WaitingToResume | PlaybackState::Stopped);
				if check_pos && frozen(pst) && frozen(ppst) && *pst == *ppst && pos != ppos && !(cbs[k - 1].resume.is_some() || cbs[k - 1].pause.is_some() || cbs[k - 1].stop.is_some()) {
					s.fail(desc.to_string(), format!("callback {k}: position moved from {ppos} to {pos} while the state was {pst:?}"), None);
				}
			}
		}
		for x in outs {
			if !(*x >= 0.0 && *x <= 1.0) {
				s.fail(desc.to_string(), format!("callback {k}: gain {x:?} outside [0,1]"), None);
			}
		}
		if *st == PlaybackState::Stopped {
			stopped_seen = true;
		}
		prev = Some(cur);
	}
}

/// scenarios with a known answer: one fade command on a looping sound, nothing else
fn law_scenarios(s: &mut Session, r: &mut Rng, ids: &[ClockId], count: u64) {
	for i in 0..count {
		let frames_before = r.below(6) as usize + 1;
		let chunk = *r.pick(&[1usize, 2, 4, 8]);
		let dur_frames = r.below(40) + 1; // tween lasts dur_frames frames exactly (dyadic)
		let dur_ns = dur_frames * 976_562 + dur_frames / 2; // k/1024 s = k*976562.5 ns
		let kind = i % 3; // 0 pause, 1 stop, 2 pause then resume
		let e = gen_easing(r);
		let total_cbs = (dur_frames as usize / chunk) + 6;
		let mut cbs = vec![Cb { pause: None, resume: None, stop: None, lens: vec![frames_before], clocks: vec![] }];
		let tw = Tw { start: Start::Imm, dur_ns: if dur_frames % 2 == 0 { dur_frames / 2 * 1_953_125 } else { dur_ns }, easing: e };
		let exact = dur_frames % 2 == 0;
		for k in 0..total_cbs {
			let mut cb = Cb { pause: None, resume: None, stop: None, lens: vec![chunk], clocks: vec![] };
			if k == 0 {
				if kind == 1 {
					cb.stop = Some(tw.clone());
				} else {
					cb.pause = Some(tw.clone());
				}
			}
			cbs.push(cb);
		}
		let sc = Scenario { n: 4, start: 0, lp: true, st: Start::Imm, fade_in: None, cbs };
		let tr = run_scenario(ids, &sc);
		s.eval_only("fade_scenario");
		let desc = format!("looping DC sound, {} with {e:?} over {dur_frames} frames issued after {frames_before} frames, chunks of {chunk}", if kind == 1 { "stop" } else { "pause" });
		if tr.panicked {
			s.fail(desc, "panicked".into(), None);
			continue;
		}
		// expected completion: first callback (after the command) at whose update elapsed >= duration
		let need = (dur_frames as usize + chunk - 1) / chunk; // callbacks
		let target = if kind == 1 { PlaybackState::Stopped } else { PlaybackState::Paused };
		let during = if kind == 1 { PlaybackState::Stopping } else { PlaybackState::Pausing };
		let mut last = 1.0f32;
		for (k, (st, _pos, _fin, outs)) in tr.per_cb.iter().enumerate().skip(1) {
			let j = k; // j-th callback after the command (1-based)
			if exact {
				let want = if j >= need { target } else { during };
				if *st != want {
					s.fail(desc.clone(), format!("callback {j} after the command: state {st:?}, expected {want:?} (tween completes in callback {need})"), None);
				}
			} else if j + 1 < need && *st != during || j > need && *st != target {
				s.fail(desc.clone(), format!("callback {j} after the command: state {st:?} (tween completes in callback {need} +- 1)"), None);
			}
			for x in outs {
				if *x > last {
					s.fail(desc.clone(), format!("gain rose from {last:?} to {x:?} during a fade-out"), None);
				}
				last = *x;
			}
			if *st == target && outs.iter().any(|x| *x != 0.0) {
				s.fail(desc.clone(), format!("{target:?} but not exactly silent"), None);
			}
		}
		if last != 0.0 {
			s.fail(desc.clone(), format!("fade-out ended at gain {last:?}, not exactly 0"), None);
		}
	}
	// finite sound left alone: Stopped after exactly n - start + 1 frames, for every chunking
	for _ in 0..count {
		let n = r.below(30) as usize + 1;
		let start = r.below(n as u64) as usize;
		let mut cbs = vec![];
		let mut total = 0usize;
		while total < n + 8 {
			let len = *r.pick(&[1usize, 2, 3, 5, 8]);
			total += len;
			cbs.push(Cb { pause: None, resume: None, stop: None, lens: vec![len], clocks: vec![] });
		}
		let sc = Scenario { n, start, lp: false, st: Start::Imm, fade_in: None, cbs };
		let tr = run_scenario(ids, &sc);
		s.eval_only("natural_end_scenario");
		let desc = format!("finite sound n={n} start={start}, chunks {:?}", sc.cbs.iter().map(|c| c.lens[0]).collect::<Vec<_>>());
		let mut done = 0usize;
		let mut heard = 0usize;
		for (k, (st, _p, _f, outs)) in tr.per_cb.iter().enumerate() {
			done += sc.cbs[k].lens[0];
			heard += outs.iter().filter(|x| **x == 1.0).count();
			let want = done >= n - start + 1;
			if (*st == PlaybackState::Stopped) != want {
				s.fail(desc.clone(), format!("after {done} frames state is {st:?}; Stopped is due after n - start + 1 = {} frames", n - start + 1), None);
				break;
			}
		}
		if !tr.panicked && heard != n - start {
			s.fail(desc.clone(), format!("{heard} source frames heard, expected {}", n - start), None);
		}
	}
}

/// through a real manager: a Stopped sound is unloaded at the next callback and its slot reusable
fn manager_scenarios(s: &mut Session, r: &mut Rng, count: u64) {
	for _ in 0..count {
		let mut m = simple_manager(SR, *r.pick(&[1usize, 4, 16]));
		let n = r.below(12) as usize + 1;
		let mut h = m.play(sound_from_frames(SR, vec![Frame::new(1.0, 1.0); n])).unwrap();
		let mut track_sounds = vec![];
		let mut stopped_at: Option<usize> = None;
		let use_stop = r.chance(1, 2);
		for k in 0..(n + 12) {
			if use_stop && k == 1 {
				h.stop(Tween { start_time: StartTime::Immediate, duration: Duration::ZERO, easing: Easing::Linear });
			}
			m.backend_mut().callback(1, 2);
			track_sounds.push(m.main_track().num_sounds());
			if h.state() == PlaybackState::Stopped && stopped_at.is_none() {
				stopped_at = Some(k);
			}
		}
		s.eval_only("unload_scenario");
		let desc = format!("manager: sound of {n} frames, {}", if use_stop { "stopped with a zero-length tween in callback 1" } else { "left to end" });
		match stopped_at {
			None => s.fail(desc, "never reported Stopped".into(), None),
			Some(k) => {
				if track_sounds[k] != 1 {
					s.fail(desc.clone(), format!("num_sounds = {} in the callback it stopped", track_sounds[k]), None);
				}
				if track_sounds.get(k + 1).copied() != Some(0) {
					s.fail(desc.clone(), format!("num_sounds = {:?} one callback after Stopped (expected 0)", track_sounds.get(k + 1)), None);
				}
			}
		}
	}
}

// ================================================================================================
// streaming sounds: a scripted decoder of DC frames whose calls wait for a permit from the harness, so the content
// of the frame ring at every callback is exactly known (c10.rs style pacing, public API only)
// ================================================================================================
const WAIT: Duration = Duration::from_secs(5);

#[derive(Default)]
struct PaceState {
	free: bool,
	permits: u64,
	waiting: bool,
	started: u64,
	/// decode calls that returned frames
	ok_calls: u64,
	failed: bool,
	dropped: bool,
}
struct Pace {
	m: Mutex<PaceState>,
	cv: Condvar,
}
impl Pace {
	fn new() -> Arc<Pace> {
		Arc::new(Pace { m: Mutex::new(PaceState::default()), cv: Condvar::new() })
	}
	/// the decoder thread: block until the harness allows the call
	fn gate(&self) {
		let mut g = self.m.lock().unwrap();
		if !g.free {
			g.waiting = true;
			self.cv.notify_all();
			while g.permits == 0 && !g.free {
				g = self.cv.wait(g).unwrap();
			}
			if !g.free {
				g.permits -= 1;
			}
			g.waiting = false;
		}
		g.started += 1;
	}
	/// grant one call and wait until the thread is blocked in the next one, or has ended; false = timed out
	fn permit(&self) -> bool {
		let mut g = self.m.lock().unwrap();
		if g.dropped || !g.waiting {
			return true;
		}
		let gen = g.started;
		g.permits += 1;
		self.cv.notify_all();
		let deadline = Instant::now() + WAIT;
		while !(g.started > gen && (g.waiting || g.dropped)) {
			let left = deadline.saturating_duration_since(Instant::now());
			if left.is_zero() {
				return false;
			}
			g = self.cv.wait_timeout(g, left).unwrap().0;
		}
		true
	}
	fn wait_blocked(&self) -> bool {
		let mut g = self.m.lock().unwrap();
		let deadline = Instant::now() + WAIT;
		while !(g.waiting || g.dropped) {
			let left = deadline.saturating_duration_since(Instant::now());
			if left.is_zero() {
				return false;
			}
			g = self.cv.wait_timeout(g, left).unwrap().0;
		}
		true
	}
	fn set_free(&self) {
		let mut g = self.m.lock().unwrap();
		g.free = true;
		self.cv.notify_all();
	}
	/// (decode calls that delivered, failed, thread ended)
	fn snapshot(&self) -> (u64, bool, bool) {
		let g = self.m.lock().unwrap();
		(g.ok_calls, g.failed, g.dropped)
	}
}

/// frames are all 1.0 (output == gain); packet k has `packets[k]` frames; decode call number `fail_at` fails
struct DcDecoder {
	pace: Arc<Pace>,
	packets: Vec<usize>,
	fail_at: Option<u64>,
	cursor: usize,
	calls: u64,
}
impl Decoder for DcDecoder {
	type Error = i128;
	fn sample_rate(&self) -> u32 {
		SR
	}
	fn num_frames(&self) -> usize {
		self.packets.iter().sum()
	}
	fn decode(&mut self) -> Result<Vec<Frame>, i128> {
		self.pace.gate();
		self.calls += 1;
		if self.fail_at == Some(self.calls) || self.cursor >= self.packets.len() {
			self.pace.m.lock().unwrap().failed = true;
			return Err(1000 + self.calls as i128);
		}
		let len = self.packets[self.cursor];
		self.cursor += 1;
		self.pace.m.lock().unwrap().ok_calls += 1;
		Ok(vec![Frame::new(1.0, 1.0); len])
	}
	fn seek(&mut self, index: usize) -> Result<usize, i128> {
		// only the constructor's seek(0) is ever made (no loop region, no seek commands)
		let mut k = 0;
		let mut i = index;
		while k < self.packets.len() && i >= self.packets[k] {
			i -= self.packets[k];
			k += 1;
		}
		self.cursor = k;
		Ok(self.packets[..k].iter().sum())
	}
}
impl Drop for DcDecoder {
	fn drop(&mut self) {
		let mut g = self.pace.m.lock().unwrap();
		g.dropped = true;
		self.pace.cv.notify_all();
	}
}

/// the harness's account of what the decoder thread has done so far (read only when the thread is blocked or gone)
#[derive(Default)]
struct Feed {
	ok_seen: u64,
	end_seen: bool,
	err_seen: bool,
	pushed: usize,
	timeout: bool,
}
impl Feed {
	/// grants `permits` calls (none once the sound is Stopped: a stopped sound's thread ends without finishing its
	/// packet) and returns what reached the sound since the last call: frames pushed (real?, index), flags
	fn step(&mut self, pace: &Pace, packets: &[usize], permits: usize, stopped: bool) -> (Vec<(bool, usize)>, u8) {
		// the thread must be in its next call (or gone) before a permit can be granted to it
		if !pace.wait_blocked() {
			self.timeout = true;
		}
		if !stopped {
			for _ in 0..permits {
				if !pace.permit() {
					self.timeout = true;
				}
			}
		}
		let (ok, failed, dropped) = pace.snapshot();
		let mut push = vec![];
		for k in self.ok_seen..ok {
			for _ in 0..packets[k as usize] {
				push.push((true, self.pushed));
				self.pushed += 1;
			}
		}
		self.ok_seen = ok;
		let mut flags = 0u8;
		if dropped && !failed && ok as usize == packets.len() && !self.end_seen {
			if packets.iter().sum::<usize>() == 0 {
				// a stream without frames: the scheduler pushes one silent frame (index 0) and reports the end
				push.push((false, 0));
			}
			self.end_seen = true;
			flags |= 1;
		}
		if dropped && failed && !self.err_seen {
			self.err_seen = true;
			flags |= 2;
		}
		(push, flags)
	}
}

#[derive(Clone, Debug)]
struct SCb {
	permits: usize,
	cb: Cb,
}
#[derive(Clone, Debug)]
struct SScenario {
	packets: Vec<usize>,
	fail_at: Option<u64>,
	st: Start,
	fade_in: Option<Tw>,
	cbs: Vec<SCb>,
}
struct STrace {
	tr: Trace,
	/// per callback: what the decoder delivered before it, flags newly raised (1 end, 2 error)
	env: Vec<(Vec<(bool, usize)>, u8)>,
	/// per callback: the error flag was up before the callback started
	err_before: Vec<bool>,
	timeout: bool,
}

fn stream_data(ids: &[ClockId], pace: &Arc<Pace>, packets: &[usize], fail_at: Option<u64>, st: &Start, fade_in: &Option<Tw>) -> StreamingSoundData<i128> {
	let dec = DcDecoder { pace: pace.clone(), packets: packets.to_vec(), fail_at, cursor: 0, calls: 0 };
	let mut d = StreamingSoundData::from_decoder(dec).start_time(mk_start(ids, st));
	if let Some(t) = fade_in {
		d = d.fade_in_tween(mk_tween(ids, t));
	}
	d
}

fn run_stream(ids: &[ClockId], sc: &SScenario) -> STrace {
	let _ = kira::verif::take_powf32_log();
	let pace = Pace::new();
	let mut env = vec![];
	let mut err_before = vec![];
	let mut feed = Feed::default();
	let mut per_cb = vec![];
	let mut per_call = vec![];
	let r = catch(|| {
		let (mut sound, mut handle) = stream_data(ids, &pace, &sc.packets, sc.fail_at, &sc.st, &sc.fade_in).into_sound().unwrap();
		let mut obs = vec![];
		let dt = 1.0 / SR as f64;
		for (cbi, scb) in sc.cbs.iter().enumerate() {
			let cb = &scb.cb;
			let e = feed.step(&pace, &sc.packets, scb.permits, handle.state() == PlaybackState::Stopped);
			env.push(e);
			err_before.push(feed.err_seen);
			if let Some(t) = &cb.pause {
				handle.pause(mk_tween(ids, t));
			}
			if let Some((s, t)) = &cb.resume {
				send_resume!(handle, ids, s, t);
			}
			if let Some(t) = &cb.stop {
				handle.stop(mk_tween(ids, t));
			}
			sound.on_start_processing();
			let pos = handle.position();
			let info = build_info(ids, &cb.clocks);
			let mut outs: Vec<f32> = vec![];
			for len in &cb.lens {
				let mut buf = vec![Frame::new(7.0, 7.0); *len];
				sound.process(&mut buf, dt, &info);
				let mut call_outs = vec![];
				for f in &buf {
					call_outs.push(f.left);
					if f.left.to_bits() != f.right.to_bits() {
						call_outs.push(f32::NAN);
					}
				}
				outs.extend(call_outs.iter().copied());
				per_call.push((cbi, handle.state(), call_outs));
			}
			let st = handle.state();
			obs.push(state_code(st));
			obs.push((pos * SR as f64) as i128);
			obs.push(sound.finished() as i128);
			obs.extend(outs.iter().map(|x| obs32(*x)));
			per_cb.push((st, pos, sound.finished(), outs));
		}
		drop(sound);
		drop(handle);
		obs
	});
	// let the thread go: it sees the abandoned ring (or Stopped, the end, its error) and ends by itself
	pace.set_free();
	let tab = kira::verif::take_powf32_log();
	let timeout = feed.timeout;
	let tr = match r {
		Outcome::Ok(obs) => Trace { obs, tab, per_cb, per_call, panicked: false },
		Outcome::Panic(c) => Trace { obs: vec![1000 + c], tab, per_cb, per_call, panicked: true },
		Outcome::Hang => Trace { obs: vec![2000], tab, per_cb, per_call, panicked: true },
	};
	STrace { tr, env, err_before, timeout }
}

fn cb_term(cb: &Cb) -> String {
	format!(
		"RCb {} {} {} [{}] {} [{}]",
		opt(&cb.pause, tw_term),
		opt(&cb.resume, |(s, t)| format!("({}, {})", start_term(s), tw_term(t))),
		opt(&cb.stop, tw_term),
		cb.lens.iter().map(|l| l.to_string()).collect::<Vec<_>>().join("; "),
		f64_bits_z(1.0 / SR as f64),
		cb.clocks.iter().map(|(p, t, k, f)| format!("({}, {}, {}, {})", *p as u8, *t as u8, k, f64_bits_z(*f))).collect::<Vec<_>>().join("; ")
	)
}
fn tab_term(tab: &[(u32, u32, u32)]) -> String {
	let mut t: Vec<(u32, u32, u32)> = tab.to_vec();
	t.sort();
	t.dedup();
	t.iter().map(|(a, b, c)| format!("({}, {}, {})", a, b, c)).collect::<Vec<_>>().join("; ")
}
fn stream_term(st: &Start, fade_in: &Option<Tw>, cbs: &[&Cb], env: &[(Vec<(bool, usize)>, u8)], tab: &[(u32, u32, u32)]) -> String {
	let cbs = cbs
		.iter()
		.zip(env.iter())
		.map(|(cb, (push, flags))| format!("RSCb [{}] {} ({})", push.iter().map(|(p, i)| format!("({}, {})", *p as u8, i)).collect::<Vec<_>>().join("; "), flags, cb_term(cb)))
		.collect::<Vec<_>>()
		.join("; ");
	format!("CStream 0 {} {} [{}] [{}]", start_term(st), opt(fade_in, tw_term), cbs, tab_term(tab))
}
fn key_of(t: &str) -> String {
	let mut h = 1469598103934665603u64;
	for b in t.bytes() {
		h = (h ^ b as u64).wrapping_mul(1099511628211);
	}
	format!("{h:x}")
}

fn gen_cmds(r: &mut Rng, cb: &mut Cb) {
	match r.below(7) {
		0 | 1 => cb.pause = Some(gen_tw(r, true)),
		2 | 3 => cb.resume = Some((if r.chance(1, 2) { gen_start(r) } else { Start::Imm }, gen_tw(r, true))),
		4 => cb.stop = Some(gen_tw(r, true)),
		5 => {
			cb.pause = Some(gen_tw(r, false));
			cb.resume = Some((Start::Imm, gen_tw(r, false)));
		}
		_ => {
			cb.stop = Some(gen_tw(r, false));
			cb.pause = Some(gen_tw(r, false));
		}
	}
}
fn gen_stream_scenario(r: &mut Rng) -> SScenario {
	let npk = if r.chance(1, 12) { 0 } else { r.range(1, 6) as usize };
	let packets: Vec<usize> = (0..npk).map(|_| r.range(1, 6) as usize).collect();
	let fail_at = if r.chance(1, 3) { Some(r.range(1, npk as i64 + 1) as u64) } else { None };
	let st = if r.chance(1, 4) { gen_start(r) } else { Start::Imm };
	let fade_in = if r.chance(1, 5) { Some(gen_tw(r, false)) } else { None };
	let ncb = r.range(4, 10) as usize;
	// how eager the decoder is: mostly behind (starved), sometimes ahead
	let eager = r.below(3);
	let mut cbs = vec![];
	for k in 0..ncb {
		let mut cb = Cb { pause: None, resume: None, stop: None, lens: vec![], clocks: gen_clocks(r, k as u64) };
		if r.chance(2, 5) {
			gen_cmds(r, &mut cb);
		}
		for _ in 0..r.range(1, 2) {
			cb.lens.push(*r.pick(&[1usize, 2, 3, 4, 5, 8]));
		}
		let permits = match eager {
			0 => if r.chance(1, 4) { 1 } else { 0 },
			1 => r.below(2) as usize,
			_ => r.range(0, 3) as usize,
		};
		cbs.push(SCb { permits, cb });
	}
	SScenario { packets, fail_at, st, fade_in, cbs }
}

/// the clauses that need no model: a decoder error stops the sound in the next processed callback whatever its
/// state; Stopped is final and silent; Paused / WaitingToResume are silent; finished() <-> Stopped
fn stream_monitors(s: &mut Session, desc: &str, sc: &SScenario, st: &STrace) {
	if st.timeout {
		s.fail(desc.to_string(), "the decoder thread did not reach its next call (or end) within 5 s".into(), None);
		return;
	}
	let cbs: Vec<Cb> = sc.cbs.iter().map(|c| c.cb.clone()).collect();
	monitors_on(s, desc, &cbs, &st.tr, false);
	if st.tr.panicked {
		return;
	}
	for (k, (state, _pos, fin, outs)) in st.tr.per_cb.iter().enumerate() {
		if st.err_before[k] {
			if *state != PlaybackState::Stopped || !*fin {
				s.fail(desc.to_string(), format!("callback {k}: the decoder had failed before this callback, yet after it the state is {state:?} (finished() = {fin}); a decoder error must leave the sound Stopped"), None);
				break;
			}
			if outs.iter().any(|x| *x != 0.0) {
				s.fail(desc.to_string(), format!("callback {k}: audio emitted in a callback that started after the decoder had failed"), None);
				break;
			}
		}
	}
}

fn stream_history_scenarios(s: &mut Session, r: &mut Rng, ids: &[ClockId], count: u64) {
	for _ in 0..count {
		let sc = gen_stream_scenario(r);
		let st = run_stream(ids, &sc);
		let cbs: Vec<&Cb> = sc.cbs.iter().map(|c| &c.cb).collect();
		let t = stream_term(&sc.st, &sc.fade_in, &cbs[..st.env.len().min(cbs.len())], &st.env, &st.tr.tab);
		let desc = format!("streaming sound, packets {:?}, decode call that fails: {:?}, permits per callback {:?}: {}", sc.packets, sc.fail_at, sc.cbs.iter().map(|c| c.permits).collect::<Vec<_>>(), t);
		if !st.timeout && !st.tr.panicked {
			s.case("stream_history", t.clone(), &st.tr.obs, Some(key_of(&t)));
		} else {
			s.eval_only("stream_history_unmodelled");
		}
		for x in st.tr.per_cb.iter().map(|x| x.0) {
			s.count(&format!("stream_state_{x:?}"));
		}
		if st.err_before.iter().any(|x| *x) {
			s.count("stream_decoder_error_seen");
		}
		stream_monitors(s, &desc, &sc, &st);
	}
}

/// exactly `k` frames as a tween duration (k even: k/1024 s is a whole number of ns)
fn frames_tw(k: u64, easing: Easing) -> Tw {
	assert!(k % 2 == 0);
	Tw { start: Start::Imm, dur_ns: k / 2 * 1_953_125, easing }
}

/// scenarios with a known answer: a fade command on a STARVED stream (nothing delivered yet, or everything delivered
/// so far played out), optionally a decoder error while Paused / WaitingToResume / waiting for the start time
fn stream_law_scenarios(s: &mut Session, r: &mut Rng, ids: &[ClockId], count: u64) {
	for i in 0..count {
		// ---- (1) fade-driven steps complete on time although the stream is starved
		let delivered = if r.chance(1, 2) { 0 } else { r.range(1, 5) as usize };
		let chunk = *r.pick(&[1usize, 2, 4, 8]);
		let k = if r.chance(1, 5) { 0 } else { (r.below(16) + 1) * 2 };
		let kind = i % 3; // 0 pause, 1 stop, 2 pause (instant) then resume with the fade
		let e = gen_easing(r);
		let mut cbs = vec![];
		// play out what was delivered: enough callbacks, then at least one more
		let lead = (delivered + 2) / chunk + 2;
		for j in 0..lead {
			cbs.push(SCb { permits: if j == 0 { delivered.min(1) } else { 0 }, cb: Cb { pause: None, resume: None, stop: None, lens: vec![chunk], clocks: vec![] } });
		}
		let after = (k as usize + chunk - 1) / chunk + 4;
		for j in 0..after {
			let mut cb = Cb { pause: None, resume: None, stop: None, lens: vec![chunk], clocks: vec![] };
			if j == 0 {
				match kind {
					0 => cb.pause = Some(frames_tw(k, e)),
					1 => cb.stop = Some(frames_tw(k, e)),
					_ => {
						cb.pause = Some(frames_tw(0, Easing::Linear));
					}
				}
			}
			if j == 1 && kind == 2 {
				cb.resume = Some((Start::Imm, frames_tw(k, e)));
			}
			cbs.push(SCb { permits: 0, cb });
		}
		// one packet holds everything delivered; a second one is never granted, so the end is never reached
		let packets = if delivered > 0 { vec![delivered, 3] } else { vec![3] };
		let sc = SScenario { packets, fail_at: None, st: Start::Imm, fade_in: None, cbs };
		let st = run_stream(ids, &sc);
		let cbrefs: Vec<&Cb> = sc.cbs.iter().map(|c| &c.cb).collect();
		let t = stream_term(&sc.st, &sc.fade_in, &cbrefs[..st.env.len().min(cbrefs.len())], &st.env, &st.tr.tab);
		let what = ["pause", "stop", "instant pause, then resume"][kind as usize];
		let desc = format!("starved stream ({delivered} frames delivered and played out, then nothing), {what} with {e:?} over {k} frames at callback {lead}, chunks of {chunk}: {t}");
		if !st.timeout && !st.tr.panicked {
			s.case("stream_fade_starved", t.clone(), &st.tr.obs, Some(key_of(&t)));
		}
		stream_monitors(s, &desc, &sc, &st);
		if st.timeout || st.tr.panicked {
			continue;
		}
		// the stream is starved from callback `lead - 1` on: the last lead callback must be silent although Playing
		if let Some((stt, _, _, outs)) = st.tr.per_cb.get(lead - 1) {
			if *stt != PlaybackState::Playing || outs.iter().any(|x| *x != 0.0) {
				s.fail(desc.clone(), format!("callback {}: expected a starved, Playing, silent stream; got {stt:?} {outs:?}", lead - 1), None);
				continue;
			}
		}
		let cmd_at = if kind == 2 { lead + 1 } else { lead };
		let (during, target) = match kind {
			0 => (PlaybackState::Pausing, PlaybackState::Paused),
			1 => (PlaybackState::Stopping, PlaybackState::Stopped),
			_ => (PlaybackState::Resuming, PlaybackState::Playing),
		};
		let need = ((k as usize + chunk - 1) / chunk).max(1); // callbacks after the command until the tween is complete
		for (j, (stt, _, _, outs)) in st.tr.per_cb.iter().enumerate().skip(cmd_at) {
			let n = j - cmd_at + 1;
			let want = if n >= need { target } else { during };
			if *stt != want {
				s.fail(desc.clone(), format!("callback {n} after the command: state {stt:?}, expected {want:?} (the tween of {k} frames completes in callback {need}; a starved stream keeps its life cycle)"), None);
				break;
			}
			if outs.iter().any(|x| *x != 0.0) {
				s.fail(desc.clone(), format!("callback {n} after the command: a starved stream emitted audio"), None);
				break;
			}
		}
		if kind == 2 {
			if let Some((stt, _, _, _)) = st.tr.per_cb.get(lead) {
				if *stt != PlaybackState::Paused {
					s.fail(desc.clone(), format!("pause with an instant tween on a starved stream: state {stt:?} after the callback, expected Paused"), None);
				}
			}
		}

		// ---- (2) a decoder error while the sound is not advancing
		let mode = r.below(5); // 0 Paused, 1 WaitingToResume (delayed), 2 WaitingToResume (clock), 3 start time pending (clock), 4 Pausing
		let delivered = r.range(0, 3) as usize;
		let mut packets: Vec<usize> = (0..delivered).map(|_| r.range(1, 3) as usize).collect();
		packets.push(2);
		let fail_at = delivered as u64 + 1;
		let clock = vec![(true, false, 0u64, 0.0f64)]; // present, not ticking: its time never comes
		let mut cbs = vec![];
		let pre = r.range(1, 3) as usize;
		for j in 0..pre {
			let mut cb = Cb { pause: None, resume: None, stop: None, lens: vec![chunk], clocks: clock.clone() };
			if j == 0 {
				match mode {
					0 => cb.pause = Some(frames_tw(0, Easing::Linear)),
					1 => cb.resume = Some((Start::Del(3_000_000_000), frames_tw(2, Easing::Linear))),
					2 => cb.resume = Some((Start::Clk { clock: 0, ticks: 3, fr: 0.0 }, frames_tw(2, Easing::Linear))),
					3 => {}
					_ => cb.pause = Some(frames_tw(64, Easing::Linear)),
				}
			}
			cbs.push(SCb { permits: if j < delivered { 1 } else { 0 }, cb });
		}
		let fail_cb = cbs.len();
		// grant the remaining good packets and the failing call before this callback
		let left = delivered.saturating_sub(pre) + 1;
		for j in 0..3 {
			cbs.push(SCb { permits: if j == 0 { left } else { 0 }, cb: Cb { pause: None, resume: None, stop: None, lens: vec![chunk], clocks: clock.clone() } });
		}
		let sc = SScenario { packets, fail_at: Some(fail_at), st: if mode == 3 { Start::Clk { clock: 0, ticks: 2, fr: 0.0 } } else { Start::Imm }, fade_in: None, cbs };
		let st = run_stream(ids, &sc);
		let cbrefs: Vec<&Cb> = sc.cbs.iter().map(|c| &c.cb).collect();
		let t = stream_term(&sc.st, &sc.fade_in, &cbrefs[..st.env.len().min(cbrefs.len())], &st.env, &st.tr.tab);
		let what = ["Paused", "WaitingToResume (delayed)", "WaitingToResume (clock not ticking)", "waiting for its own start time (clock not ticking)", "Pausing"][mode as usize];
		let desc = format!("stream whose decoder fails (decode call {fail_at}) while the sound is {what}; the error is raised before callback {fail_cb}: {t}");
		if !st.timeout && !st.tr.panicked {
			s.case("stream_error_not_advancing", t.clone(), &st.tr.obs, Some(key_of(&t)));
		}
		stream_monitors(s, &desc, &sc, &st);
		if st.timeout || st.tr.panicked {
			continue;
		}
		if !st.err_before.get(fail_cb).copied().unwrap_or(false) || (fail_cb > 0 && st.err_before[fail_cb - 1]) {
			s.fail(desc.clone(), "harness: the scripted error was not raised where the scenario expects it".into(), None);
			continue;
		}
		if fail_cb > 0 {
			let want = match mode {
				0 => PlaybackState::Paused,
				1 | 2 => PlaybackState::WaitingToResume,
				3 => PlaybackState::Playing,
				_ => PlaybackState::Pausing,
			};
			if st.tr.per_cb[fail_cb - 1].0 != want {
				s.fail(desc.clone(), format!("before the error the state is {:?}, expected {want:?}", st.tr.per_cb[fail_cb - 1].0), None);
			}
		}
		s.count(&format!("stream_error_while_{}", ["paused", "waiting_delayed", "waiting_clock", "start_pending", "pausing"][mode as usize]));
	}
}

// ================================================================================================
// commands issued back to back at ONE callback boundary: the handle still shows the state published by the previous
// callback (Playing after `pause`, Paused after `resume`, ...) while the next command is issued
// ================================================================================================
/// scenarios with a known answer: a sound playing at unity gain; `pause(tp)` and then `resume(tr)` are issued with no
/// callback between them (a pause menu opened and closed within one game frame).  The sound reads pause, resume in this
/// order at the next callback: Resuming while tr runs, then Playing; the fade never left unity, so every output frame
/// equals the uninterrupted playback and the position keeps advancing.  Control (`gap`): the same two commands one
/// callback apart.  Static sounds and (fed) streaming sounds, as bare Sounds; sent to the model as well
fn same_boundary_scenarios(s: &mut Session, r: &mut Rng, ids: &[ClockId], count: u64) {
	for i in 0..count {
		let streaming = i % 2 == 1;
		let gap = r.chance(1, 4);
		let chunk = *r.pick(&[1usize, 2, 4, 8]);
		let lead = r.range(1, 3) as usize;
		let kp = if r.chance(1, 4) { 0 } else { (r.below(16) + 1) * 2 };
		let kr = if r.chance(1, 6) { 0 } else { (r.below(12) + 1) * 2 };
		let (ep, er) = (gen_easing(r), gen_easing(r));
		let need = ((kr as usize + chunk - 1) / chunk).max(1);
		let resume_at_cb = if gap { lead + 1 } else { lead };
		let ncb = resume_at_cb + need + 3;
		let mut cbs: Vec<Cb> = (0..ncb).map(|_| Cb { pause: None, resume: None, stop: None, lens: vec![chunk], clocks: vec![] }).collect();
		let control = cbs.clone();
		cbs[lead].pause = Some(frames_tw(kp, ep));
		cbs[resume_at_cb].resume = Some((Start::Imm, frames_tw(kr, er)));
		let total = ncb * chunk;
		let what = format!(
			"{} DC sound playing at unity gain for {lead} callbacks of {chunk} frames; pause({ep:?} over {kp} frames) before callback {lead}, resume({er:?} over {kr} frames) {}",
			if streaming { "streaming" } else { "static" },
			if gap { "one callback later" } else { "right after it, no callback in between (the handle still reports Playing)" }
		);
		// (state, position, outputs) per callback for the run and for the uninterrupted control
		let (tr, ctl, t) = if streaming {
			// everything is delivered before the first callback; a second packet is never granted: no natural end
			let mk = |cbs: &[Cb]| SScenario {
				packets: vec![total + 8, 3],
				fail_at: None,
				st: Start::Imm,
				fade_in: None,
				cbs: cbs.iter().enumerate().map(|(j, cb)| SCb { permits: if j == 0 { 1 } else { 0 }, cb: cb.clone() }).collect(),
			};
			let sc = mk(&cbs);
			let st = run_stream(ids, &sc);
			let cst = run_stream(ids, &mk(&control));
			let refs: Vec<&Cb> = cbs.iter().collect();
			let t = stream_term(&sc.st, &sc.fade_in, &refs[..st.env.len().min(refs.len())], &st.env, &st.tr.tab);
			let desc = format!("{what}: {t}");
			if !st.timeout && !st.tr.panicked {
				s.case("same_boundary_stream", t.clone(), &st.tr.obs, Some(key_of(&t)));
			}
			stream_monitors(s, &desc, &sc, &st);
			if st.timeout || cst.timeout || st.tr.panicked || cst.tr.panicked {
				if cst.timeout || cst.tr.panicked {
					s.fail(desc, "the uninterrupted control run of the stream timed out or panicked".into(), None);
				}
				continue;
			}
			(st.tr, cst.tr, t)
		} else {
			let sc = Scenario { n: total + 8, start: 0, lp: false, st: Start::Imm, fade_in: None, cbs: cbs.clone() };
			let tr = run_scenario(ids, &sc);
			let ctl = run_scenario(ids, &Scenario { n: total + 8, start: 0, lp: false, st: Start::Imm, fade_in: None, cbs: control.clone() });
			let t = term(&sc, &tr.tab);
			let desc = format!("{what}: {t}");
			s.case("same_boundary_static", t.clone(), &tr.obs, Some(key_of(&t)));
			monitors(s, &desc, &sc, &tr);
			if tr.panicked || ctl.panicked {
				continue;
			}
			(tr, ctl, t)
		};
		s.count(if gap { "same_boundary_control_gap" } else { "same_boundary_pause_resume" });
		let desc = format!("{what}: {t}");
		// the control plays on undisturbed
		if ctl.per_cb.iter().any(|x| x.0 != PlaybackState::Playing) || ctl.per_cb.iter().skip(1).any(|x| x.3.iter().any(|y| *y != 1.0)) {
			s.fail(desc.clone(), format!("the uninterrupted control did not play DC at unity throughout: {:?}", ctl.per_cb.iter().map(|x| (x.0, x.3.clone())).collect::<Vec<_>>()), None);
			continue;
		}
		let mut reached: Option<usize> = None;
		for (j, (stt, pos, _, outs)) in tr.per_cb.iter().enumerate() {
			if j < lead {
				continue;
			}
			if gap && j == lead {
				let want = if kp as usize <= chunk { PlaybackState::Paused } else { PlaybackState::Pausing };
				if *stt != want {
					s.fail(desc.clone(), format!("callback {j} (after pause, before resume): state {stt:?}, expected {want:?}"), None);
					break;
				}
				continue;
			}
			// resume: Resuming then Playing, complete when the tween completes
			let n = j - resume_at_cb + 1;
			let want = if n >= need { PlaybackState::Playing } else { PlaybackState::Resuming };
			if *stt != want {
				s.fail(
					desc.clone(),
					format!("callback {n} after resume: the handle reports {stt:?}, expected {want:?} (resume: Resuming then Playing; its tween of {kr} frames completes in callback {need}); resume was the last command issued"),
					None,
				);
				break;
			}
			if reached.is_none() && *stt == PlaybackState::Playing {
				reached = Some(j);
			}
			// the gain: back at exactly unity from the callback after the one that reported Playing; with no callback
			// between pause and resume the fade never left unity, so it is the control's output throughout
			let must_equal = !gap || reached.map(|p| j > p).unwrap_or(false);
			if must_equal && outs.iter().map(|x| x.to_bits()).ne(ctl.per_cb[j].3.iter().map(|x| x.to_bits())) {
				s.fail(desc.clone(), format!("callback {j}: output {outs:?} differs from uninterrupted playback {:?}; the gain must be back at exactly unity", ctl.per_cb[j].3), None);
				break;
			}
			if gap && j > resume_at_cb {
				let last = *tr.per_cb[j - 1].3.last().unwrap();
				if outs.iter().fold((last, true), |(l, ok), x| (*x, ok && *x >= l)).1 == false {
					s.fail(desc.clone(), format!("callback {j}: the gain fell during the fade-in of resume: {outs:?} after {last:?}"), None);
					break;
				}
			}
			// the position reported at callback j is that of the frame heard after callback j - 1: it advances while the
			// sound is Resuming / Playing
			if j > resume_at_cb && *pos != ctl.per_cb[j].1 && !gap {
				s.fail(desc.clone(), format!("callback {j}: position {pos} but uninterrupted playback is at {}; the sound was resumed, its position must advance", ctl.per_cb[j].1), None);
				break;
			}
			if j > resume_at_cb + 1 && *pos <= tr.per_cb[j - 1].1 {
				s.fail(desc.clone(), format!("callback {j}: position stuck at {pos} (was {}) although the sound was resumed", tr.per_cb[j - 1].1), None);
				break;
			}
		}
	}
}

// ================================================================================================
// sounds that have ended before their first callback: reverse playback with nothing to play
// ================================================================================================
#[derive(Clone, Debug)]
enum EndedKind {
	/// `n` frames, reverse, start position n + extra samples
	PastEnd { n: usize, extra: usize },
	/// start position given in seconds: exactly the duration
	Duration { n: usize },
	/// reverse on an empty slice of a sound of n frames
	EmptySlice { n: usize, at: usize },
	/// reverse on a sound without frames
	NoFrames,
}
fn ended_data(ids: &[ClockId], kind: &EndedKind, lp: bool, st: &Start, fade_in: &Option<Tw>) -> StaticSoundData {
	let mut settings = StaticSoundSettings::new().reverse(true).start_time(mk_start(ids, st));
	if lp {
		settings = settings.loop_region(Region::from(..));
	}
	if let Some(t) = fade_in {
		settings = settings.fade_in_tween(mk_tween(ids, t));
	}
	let (n, slice) = match kind {
		EndedKind::PastEnd { n, extra } => {
			settings = settings.start_position(PlaybackPosition::Samples(n + extra));
			(*n, None)
		}
		EndedKind::Duration { n } => {
			settings = settings.start_position(PlaybackPosition::Seconds(*n as f64 / SR as f64));
			(*n, None)
		}
		EndedKind::EmptySlice { n, at } => (*n, Some((*at, *at))),
		EndedKind::NoFrames => (0, None),
	};
	StaticSoundData { sample_rate: SR, frames: Arc::from(vec![Frame::new(1.0, 1.0); n]), settings, slice }
}
fn gen_ended(r: &mut Rng) -> EndedKind {
	let n = r.range(1, 12) as usize;
	match r.below(5) {
		0 => EndedKind::PastEnd { n, extra: 0 },
		1 => EndedKind::PastEnd { n, extra: r.range(1, 5) as usize },
		2 => EndedKind::Duration { n },
		3 => EndedKind::EmptySlice { n, at: r.below(n as u64 + 1) as usize },
		_ => EndedKind::NoFrames,
	}
}
fn ended_frames(k: &EndedKind) -> usize {
	match k {
		EndedKind::PastEnd { n, .. } | EndedKind::Duration { n } => *n,
		_ => 0,
	}
}

fn ended_scenarios(s: &mut Session, r: &mut Rng, ids: &[ClockId], count: u64) {
	for i in 0..count {
		let kind = gen_ended(r);
		let lp = r.chance(1, 4);
		if i % 2 == 0 {
			// ---- bare sound, against the model
			let st = if r.chance(1, 4) { gen_start(r) } else { Start::Imm };
			let fade_in = if r.chance(1, 5) { Some(gen_tw(r, false)) } else { None };
			let mut cbs = vec![];
			for k in 0..r.range(2, 5) as usize {
				let mut cb = Cb { pause: None, resume: None, stop: None, lens: vec![*r.pick(&[1usize, 2, 3, 5])], clocks: gen_clocks(r, k as u64) };
				if r.chance(1, 3) {
					gen_cmds(r, &mut cb);
				}
				cbs.push(cb);
			}
			let mut initial: Option<PlaybackState> = None;
			let tr = run_with(ids, &cbs, || {
				let (sound, handle) = ended_data(ids, &kind, lp, &st, &fade_in).into_sound().unwrap();
				initial = Some(handle.state());
				(sound, handle)
			});
			let t = format!(
				"CEnded {} {} {} {} [{}] [{}]",
				ended_frames(&kind),
				lp as u8,
				start_term(&st),
				opt(&fade_in, tw_term),
				cbs.iter().map(cb_term).collect::<Vec<_>>().join("; "),
				tab_term(&tr.tab)
			);
			let desc = format!("static sound played in reverse with nothing to play ({kind:?}), as a bare Sound: {t}");
			s.case("ended_at_construction", t.clone(), &tr.obs, Some(key_of(&t)));
			if tr.panicked {
				s.fail(desc, "panicked".into(), None);
				continue;
			}
			if initial != Some(PlaybackState::Stopped) {
				s.fail(desc.clone(), format!("the handle reports {initial:?} right after construction; the sound has nothing to play and finished() is {:?}", tr.per_cb.first().map(|x| x.2)), None);
			}
			for (k, (stt, _, fin, outs)) in tr.per_cb.iter().enumerate() {
				if *stt != PlaybackState::Stopped || !*fin || outs.iter().any(|x| *x != 0.0) {
					s.fail(desc.clone(), format!("callback {k}: state {stt:?}, finished() = {fin}, output {outs:?}; expected Stopped, true, silence"), None);
					break;
				}
			}
		} else {
			// ---- through a manager, on the main track or a sub-track of capacity 1
			let on_sub = r.chance(1, 2);
			let mut m = manager(SR, *r.pick(&[1usize, 4, 16]), Capacities::default(), MainTrackBuilder::new().sound_capacity(1));
			let mut sub: Option<TrackHandle> = if on_sub { Some(m.add_sub_track(TrackBuilder::new().sound_capacity(1)).unwrap()) } else { None };
			m.backend_mut().callback(1, 2);
			let desc = format!("static sound played in reverse with nothing to play ({kind:?}, loop {lp}) on {} of capacity 1", if on_sub { "a sub-track" } else { "the main track" });
			s.eval_only("ended_at_construction_manager");
			let data = ended_data(ids, &kind, lp, &Start::Imm, &None);
			let played = catch(|| match sub.as_mut() {
				Some(t) => t.play(data.clone()),
				None => m.play(data.clone()),
			});
			let h = match played {
				Outcome::Ok(Ok(h)) => h,
				Outcome::Ok(Err(_)) => {
					s.fail(desc, "play() was refused on an empty track".into(), None);
					continue;
				}
				_ => {
					s.fail(desc, "play() panicked".into(), None);
					continue;
				}
			};
			let num = |m: &mut Mgr, sub: &Option<TrackHandle>| match sub {
				Some(t) => t.num_sounds(),
				None => m.main_track().num_sounds(),
			};
			let mut seen_loaded = num(&mut m, &sub) > 0;
			let mut ok = true;
			for k in 0..4 {
				let out = m.backend_mut().callback(*r.pick(&[1usize, 3, 8]), 2);
				let n = num(&mut m, &sub);
				let stt = h.state();
				if out.iter().any(|x| *x != 0.0) {
					s.fail(desc.clone(), format!("callback {k}: audio from a sound with nothing to play"), None);
					ok = false;
				}
				if n > 0 {
					seen_loaded = true;
				}
				if (n == 0 && (seen_loaded || k >= 1)) && stt != PlaybackState::Stopped {
					s.fail(desc.clone(), format!("callback {k}: the track holds no sound any more (num_sounds = 0) but the handle reports {stt:?}; an unloaded sound must report Stopped"), None);
					ok = false;
				}
				if stt != PlaybackState::Stopped {
					s.fail(desc.clone(), format!("after callback {k} the handle reports {stt:?}; the sound had nothing to play (natural end: Stopped)"), None);
					ok = false;
				}
				if !ok {
					break;
				}
			}
			if ok {
				if num(&mut m, &sub) != 0 {
					s.fail(desc.clone(), format!("still loaded after 4 callbacks (num_sounds = {})", num(&mut m, &sub)), None);
				} else {
					// the slot is reusable
					let again = match sub.as_mut() {
						Some(t) => t.play(sound_from_frames(SR, vec![Frame::new(1.0, 1.0); 2])).is_ok(),
						None => m.play(sound_from_frames(SR, vec![Frame::new(1.0, 1.0); 2])).is_ok(),
					};
					if !again {
						s.fail(desc.clone(), "the slot of the unloaded sound cannot be reused (capacity 1)".into(), None);
					}
				}
			}
		}
	}
}

// ================================================================================================
// through a real manager: commands issued between play() and the first callback; unloading; slot reuse
// ================================================================================================
#[derive(Clone, Debug)]
enum MCmd {
	Pause(Tw),
	Stop(Tw),
	ResumeAt(Start, Tw),
	/// `resume(tween)`
	Resume(Tw),
}
enum AnyHandle {
	St(StaticSoundHandle),
	Sm(StreamingSoundHandle<i128>),
}
impl AnyHandle {
	fn state(&self) -> PlaybackState {
		match self {
			AnyHandle::St(h) => h.state(),
			AnyHandle::Sm(h) => h.state(),
		}
	}
	fn position(&self) -> f64 {
		match self {
			AnyHandle::St(h) => h.position(),
			AnyHandle::Sm(h) => h.position(),
		}
	}
	fn apply(&mut self, ids: &[ClockId], c: &MCmd) {
		match (self, c) {
			(AnyHandle::St(h), MCmd::Pause(t)) => h.pause(mk_tween(ids, t)),
			(AnyHandle::St(h), MCmd::Stop(t)) => h.stop(mk_tween(ids, t)),
			(AnyHandle::St(h), MCmd::ResumeAt(s, t)) => h.resume_at(mk_start(ids, s), mk_tween(ids, t)),
			(AnyHandle::St(h), MCmd::Resume(t)) => h.resume(mk_tween(ids, t)),
			(AnyHandle::Sm(h), MCmd::Resume(t)) => h.resume(mk_tween(ids, t)),
			(AnyHandle::Sm(h), MCmd::Pause(t)) => h.pause(mk_tween(ids, t)),
			(AnyHandle::Sm(h), MCmd::Stop(t)) => h.stop(mk_tween(ids, t)),
			(AnyHandle::Sm(h), MCmd::ResumeAt(s, t)) => h.resume_at(mk_start(ids, s), mk_tween(ids, t)),
		}
	}
}

fn chunking(frames: usize, ibs: usize) -> Vec<usize> {
	let mut v = vec![];
	let mut left = frames;
	while left > 0 {
		let c = left.min(ibs);
		v.push(c);
		left -= c;
	}
	v
}

fn track_scenarios(s: &mut Session, r: &mut Rng, ids: &[ClockId], count: u64) {
	for i in 0..count {
		let streaming = i % 2 == 1;
		let on_sub = r.chance(1, 3);
		let ibs = *r.pick(&[1usize, 2, 4, 8, 16]);
		let frames = *r.pick(&[1usize, 2, 4, 8]);
		// the command: when (before callback `at`; 0 = between play() and the first callback), what
		let at = if r.chance(2, 3) { 0 } else { r.range(1, 3) as usize };
		let k = if r.chance(1, 2) { 0 } else { (r.below(12) + 1) * 2 };
		let e = gen_easing(r);
		let which = r.below(6);
		let cmd = match which {
			0 | 1 => MCmd::Pause(frames_tw(k, e)),
			2 => MCmd::Stop(frames_tw(k, e)),
			3 => MCmd::ResumeAt(Start::Del((r.below(6) + 1) * 1_953_125), frames_tw(k, e)),
			// pause, then resume with no callback between them: the handle still shows what the last callback published
			_ => MCmd::Resume(frames_tw(k, e)),
		};
		let before: Option<MCmd> = if which >= 4 { Some(MCmd::Pause(frames_tw(if r.chance(1, 3) { 0 } else { (r.below(12) + 1) * 2 }, gen_easing(r)))) } else { None };
		let ncb = at + (k as usize + frames - 1) / frames + 5;
		// the sound: static looping DC, or a stream that is fed one packet per callback for a while and then starves
		let packets: Vec<usize> = (0..r.range(2, 4)).map(|_| r.range(1, 6) as usize).collect();
		let feed_cbs = r.below(packets.len() as u64) as usize; // the last packet is never granted: no natural end
		let mut m = manager(SR, ibs, Capacities::default(), MainTrackBuilder::new().sound_capacity(1));
		let mut sub: Option<TrackHandle> = if on_sub { Some(m.add_sub_track(TrackBuilder::new().sound_capacity(1)).unwrap()) } else { None };
		m.backend_mut().callback(1, 2);
		let _ = kira::verif::take_powf32_log();
		let pace = Pace::new();
		let mut feed = Feed::default();
		let played: Outcome<Option<AnyHandle>> = catch(|| {
			if streaming {
				let d = stream_data(ids, &pace, &packets, None, &Start::Imm, &None);
				match sub.as_mut() {
					Some(t) => t.play(d).ok().map(AnyHandle::Sm),
					None => m.play(d).ok().map(AnyHandle::Sm),
				}
			} else {
				let d = StaticSoundData { sample_rate: SR, frames: Arc::from(vec![Frame::new(1.0, 1.0); 4]), settings: StaticSoundSettings::new().loop_region(Region::from(..)), slice: None };
				match sub.as_mut() {
					Some(t) => t.play(d).ok().map(AnyHandle::St),
					None => m.play(d).ok().map(AnyHandle::St),
				}
			}
		});
		let what = match &cmd {
			MCmd::Pause(_) => format!("pause with {e:?} over {k} frames"),
			MCmd::Stop(_) => format!("stop with {e:?} over {k} frames"),
			MCmd::ResumeAt(st, _) => format!("resume_at({st:?}) with {e:?} over {k} frames"),
			MCmd::Resume(_) => format!("{:?} and then, with no callback in between, resume with {e:?} over {k} frames", before.as_ref().unwrap()),
		};
		let desc = format!(
			"{} played on {} (internal buffer {ibs}, callbacks of {frames} frames), {what} issued {}",
			if streaming { format!("streaming DC sound (packets {packets:?}, one granted before each of the first {feed_cbs} callbacks)") } else { "looping static DC sound".to_string() },
			if on_sub { "a sub-track" } else { "the main track" },
			if at == 0 { "between play() and the first callback".to_string() } else { format!("before callback {}", at + 1) }
		);
		s.eval_only(if streaming { "track_stream" } else { "track_static" });
		let mut h = match played {
			Outcome::Ok(Some(h)) => h,
			_ => {
				s.fail(desc, "play() on an empty track failed or panicked".into(), None);
				pace.set_free();
				continue;
			}
		};
		let num = |m: &mut Mgr, sub: &Option<TrackHandle>| match sub {
			Some(t) => t.num_sounds(),
			None => m.main_track().num_sounds(),
		};
		// per callback: state, position, outputs, num_sounds
		let mut per: Vec<(PlaybackState, f64, Vec<f32>, usize)> = vec![];
		let mut env = vec![];
		let mut cbs: Vec<Cb> = vec![];
		let mut bad_channels = false;
		let res = catch(|| {
			for j in 0..ncb {
				if streaming {
					env.push(feed.step(&pace, &packets, if j < feed_cbs { 1 } else { 0 }, h.state() == PlaybackState::Stopped));
				}
				let mut cb = Cb { pause: None, resume: None, stop: None, lens: chunking(frames, ibs), clocks: vec![] };
				if j == at {
					if let Some(b) = &before {
						h.apply(ids, b);
						if let MCmd::Pause(t) = b {
							cb.pause = Some(t.clone());
						}
					}
					h.apply(ids, &cmd);
					match &cmd {
						MCmd::Pause(t) => cb.pause = Some(t.clone()),
						MCmd::Stop(t) => cb.stop = Some(t.clone()),
						MCmd::ResumeAt(st, t) => cb.resume = Some((st.clone(), t.clone())),
						MCmd::Resume(t) => cb.resume = Some((Start::Imm, t.clone())),
					}
				}
				cbs.push(cb);
				let out = m.backend_mut().callback(frames, 2);
				let mut outs = vec![];
				for c in out.chunks(2) {
					outs.push(c[0]);
					if c[0].to_bits() != c[1].to_bits() {
						bad_channels = true;
					}
				}
				per.push((h.state(), h.position(), outs, num(&mut m, &sub)));
			}
		});
		let tab = kira::verif::take_powf32_log();
		if !matches!(res, Outcome::Ok(())) {
			s.fail(desc, "panic while driving the manager".into(), None);
			pace.set_free();
			continue;
		}
		if feed.timeout {
			s.fail(desc, "the decoder thread did not reach its next call (or end) within 5 s".into(), None);
			pace.set_free();
			continue;
		}
		if bad_channels {
			s.fail(desc.clone(), "left and right channels differ".into(), None);
		}
		// ---- the model: the same sound as a case, up to and including the callback in which it stops
		let upto = per.iter().position(|x| x.0 == PlaybackState::Stopped).map(|p| p + 1).unwrap_or(per.len());
		let t = if streaming {
			let refs: Vec<&Cb> = cbs[..upto].iter().collect();
			stream_term(&Start::Imm, &None, &refs, &env[..upto], &tab)
		} else {
			format!("CSound 4 0 1 SImm None [{}] [{}]", cbs[..upto].iter().map(cb_term).collect::<Vec<_>>().join("; "), tab_term(&tab))
		};
		if !on_sub {
			let mut obs = vec![];
			for (stt, pos, outs, _) in &per[..upto] {
				obs.push(state_code(*stt));
				obs.push((pos * SR as f64) as i128);
				obs.push((*stt == PlaybackState::Stopped) as i128);
				obs.extend(outs.iter().map(|x| obs32(*x)));
			}
			s.case(if streaming { "main_track_stream" } else { "main_track_static" }, t.clone(), &obs, Some(key_of(&t)));
		}
		// the history as the sound saw it, for the replay file
		let desc = format!("{desc}: {t}");
		// ---- the life cycle, from the moment the command was issued (callback index `at`)
		let n_after = |j: usize| (j + 1 - at) * frames; // frames processed since the command, through callback j
		let mut violated = false;
		for (j, (stt, _, outs, _)) in per.iter().enumerate() {
			if j < at {
				if *stt != PlaybackState::Playing {
					s.fail(desc.clone(), format!("callback {}: state {stt:?} before any command", j + 1), None);
					violated = true;
				}
				continue;
			}
			let done = n_after(j) as u64 >= k.max(1);
			let want: Vec<PlaybackState> = match &cmd {
				MCmd::Pause(_) => vec![if done { PlaybackState::Paused } else { PlaybackState::Pausing }],
				MCmd::Stop(_) => vec![if done { PlaybackState::Stopped } else { PlaybackState::Stopping }],
				// the delay, then the fade-in: exact instants are the model's business
				MCmd::ResumeAt(..) => vec![PlaybackState::WaitingToResume, PlaybackState::Resuming, PlaybackState::Playing],
				// resume was issued last: Resuming until its tween completes, then Playing
				MCmd::Resume(_) => vec![if done { PlaybackState::Playing } else { PlaybackState::Resuming }],
			};
			if !want.contains(stt) {
				s.fail(desc.clone(), format!("after callback {} ({} frames after the command) the handle reports {stt:?}, the life cycle prescribes {want:?}", j + 1, n_after(j)), None);
				violated = true;
				break;
			}
			if matches!(stt, PlaybackState::Paused | PlaybackState::WaitingToResume | PlaybackState::Stopped) && k == 0 && j == at && outs.iter().any(|x| *x != 0.0) && !matches!(cmd, MCmd::ResumeAt(..) | MCmd::Resume(_)) {
				s.fail(desc.clone(), format!("callback {}: the command had an instant tween and was issued before this callback, yet the callback emitted {outs:?}", j + 1), None);
				violated = true;
				break;
			}
			if matches!(cmd, MCmd::Resume(_)) && !streaming && outs.iter().any(|x| *x != 1.0) {
				s.fail(desc.clone(), format!("callback {}: output {outs:?}; pause and resume reached the sound together, so its gain never left unity", j + 1), None);
				violated = true;
				break;
			}
			if matches!(stt, PlaybackState::WaitingToResume) && outs.iter().any(|x| *x != 0.0) {
				s.fail(desc.clone(), format!("callback {}: audio while WaitingToResume", j + 1), None);
				violated = true;
				break;
			}
		}
		// ---- unloading: loaded while not Stopped; gone exactly one callback after Stopped; never "gone but not Stopped"
		let stopped_at = per.iter().position(|x| x.0 == PlaybackState::Stopped);
		for (j, (stt, _, _, n)) in per.iter().enumerate() {
			if *n == 0 && *stt != PlaybackState::Stopped {
				s.fail(desc.clone(), format!("callback {}: num_sounds = 0 but the handle reports {stt:?}", j + 1), None);
				violated = true;
				break;
			}
			match stopped_at {
				Some(p) if j > p => {
					if *n != 0 {
						s.fail(desc.clone(), format!("callback {}: Stopped since callback {} but still loaded (num_sounds = {n})", j + 1, p + 1), None);
						violated = true;
						break;
					}
				}
				_ => {
					if *n != 1 {
						s.fail(desc.clone(), format!("callback {}: num_sounds = {n} while the sound is {stt:?}", j + 1), None);
						violated = true;
						break;
					}
				}
			}
		}
		if let (Some(p), false) = (stopped_at, violated) {
			if p + 1 < per.len() {
				let again = match sub.as_mut() {
					Some(t) => t.play(sound_from_frames(SR, vec![Frame::new(1.0, 1.0); 2])).is_ok(),
					None => m.play(sound_from_frames(SR, vec![Frame::new(1.0, 1.0); 2])).is_ok(),
				};
				if !again {
					s.fail(desc.clone(), "the slot of the unloaded sound cannot be reused (track capacity 1)".into(), None);
				}
				s.count("slot_reused");
			}
		} else if stopped_at.is_none() && !violated {
			// a live sound keeps its slot: a capacity-1 track refuses another one
			let refused = match sub.as_mut() {
				Some(t) => matches!(t.play(sound_from_frames(SR, vec![Frame::new(1.0, 1.0); 2])), Err(PlaySoundError::SoundLimitReached)),
				None => matches!(m.play(sound_from_frames(SR, vec![Frame::new(1.0, 1.0); 2])), Err(PlaySoundError::SoundLimitReached)),
			};
			if !refused {
				s.fail(desc.clone(), "a capacity-1 track accepted a second sound while the first is still loaded".into(), None);
			}
		}
		drop(h);
		drop(sub);
		drop(m);
		pace.set_free();
	}
}

// ================================================================================================
// fade commands whose TWEEN carries its own start time (delayed / clock): `resume(tween)` is an immediate resume -
// Resuming at once, the fade counts the tween's delay once - `pause(tween)` is Pausing at once, `stop(tween)` Stopping
// ================================================================================================
#[derive(Clone, Copy, Debug, PartialEq)]
enum FadeCmd {
	Resume,
	Pause,
	Stop,
}
#[derive(Clone, Debug)]
struct TsLaw {
	streaming: bool,
	cmd: FadeCmd,
	chunk: usize,
	/// callbacks played before anything happens
	lead: usize,
	/// Resume only: callbacks between the instant pause and the resume (>= 1: the sound is Paused when resume is sent)
	wait: usize,
	/// the start time of the command's tween: Imm, Del(whole frames), Clk on clock 0 (which shows `j` ticks at callback j)
	start: Start,
	/// tween duration in frames (even)
	dur: u64,
	easing: Easing,
}
/// exactly `k` frames as nanoseconds (k even)
fn frames_ns(k: u64) -> u64 {
	assert!(k % 2 == 0);
	k / 2 * 1_953_125
}

/// scenario with a known answer.  A DC sound plays at unity gain; the command is issued before callback `c`; the tween
/// completes d + D after that (d = the tween's own delay; for a clock time: D after the callback in which the clock
/// shows the time).  Until then the handle reports the fading state of the command (never WaitingToResume: that is
/// resume_at's), afterwards the settled one; gain monotone, exactly unity / silence at the end; a resumed sound
/// advances from the first callback on.  Sent to the model as well (`(SImm, tween)` for the resume)
fn tween_start_law(s: &mut Session, ids: &[ClockId], l: &TsLaw, fixed: bool) {
	let chunk = l.chunk;
	let cmd_cb = if l.cmd == FadeCmd::Resume { l.lead + l.wait } else { l.lead };
	let dcb = (l.dur as usize + chunk - 1) / chunk;
	// callbacks after the command (1-based) in which the tween may complete: lo ..= hi
	let (lo, hi, when) = match &l.start {
		Start::Imm => (dcb.max(1), dcb.max(1), "at once".to_string()),
		Start::Del(ns) => {
			let d = (*ns / 1_953_125 * 2) as usize;
			let ideal = ((d + l.dur as usize + chunk - 1) / chunk).max(1);
			(ideal, ideal + 1, format!("after its own delay of {d} frames"))
		}
		Start::Clk { ticks, .. } => {
			let w = (*ticks as usize).saturating_sub(cmd_cb);
			(w + dcb.max(1), w + dcb.max(1), format!("when clock 0 shows {ticks} ticks (it shows j ticks during callback j)"))
		}
	};
	let ncb = cmd_cb + hi + 3;
	let mut cbs: Vec<Cb> = (0..ncb).map(|j| Cb { pause: None, resume: None, stop: None, lens: vec![chunk], clocks: vec![(true, true, j as u64, 0.0)] }).collect();
	let tw = Tw { start: l.start.clone(), dur_ns: frames_ns(l.dur), easing: l.easing };
	match l.cmd {
		FadeCmd::Resume => {
			cbs[l.lead].pause = Some(frames_tw(0, Easing::Linear));
			cbs[cmd_cb].resume = Some((Start::Imm, tw.clone()));
		}
		FadeCmd::Pause => cbs[cmd_cb].pause = Some(tw.clone()),
		FadeCmd::Stop => cbs[cmd_cb].stop = Some(tw.clone()),
	}
	let total = ncb * chunk;
	let what = format!(
		"{}{} DC sound playing at unity gain, callbacks of {chunk} frames; {} before callback {cmd_cb}; the tween starts {when} and lasts {} frames ({:?})",
		if fixed { "[fixed corpus] " } else { "" },
		if l.streaming { "streaming" } else { "static" },
		match l.cmd {
			FadeCmd::Resume => format!("pause(instant) before callback {}, then, the handle reporting Paused, resume(Tween {{ start_time: {:?}, .. }})", l.lead, l.start),
			FadeCmd::Pause => format!("pause(Tween {{ start_time: {:?}, .. }})", l.start),
			FadeCmd::Stop => format!("stop(Tween {{ start_time: {:?}, .. }})", l.start),
		},
		l.dur,
		l.easing
	);
	let (tr, desc) = if l.streaming {
		let sc = SScenario {
			packets: vec![total + 8, 3],
			fail_at: None,
			st: Start::Imm,
			fade_in: None,
			cbs: cbs.iter().enumerate().map(|(j, cb)| SCb { permits: if j == 0 { 1 } else { 0 }, cb: cb.clone() }).collect(),
		};
		let st = run_stream(ids, &sc);
		let refs: Vec<&Cb> = cbs.iter().collect();
		let t = stream_term(&sc.st, &sc.fade_in, &refs[..st.env.len().min(refs.len())], &st.env, &st.tr.tab);
		let desc = format!("{what}: {t}");
		if !st.timeout && !st.tr.panicked {
			s.case("tween_start_stream", t.clone(), &st.tr.obs, Some(key_of(&t)));
		}
		stream_monitors(s, &desc, &sc, &st);
		if st.timeout || st.tr.panicked {
			return;
		}
		(st.tr, desc)
	} else {
		let sc = Scenario { n: total + 8, start: 0, lp: false, st: Start::Imm, fade_in: None, cbs: cbs.clone() };
		let tr = run_scenario(ids, &sc);
		let t = term(&sc, &tr.tab);
		let desc = format!("{what}: {t}");
		s.case("tween_start_static", t.clone(), &tr.obs, Some(key_of(&t)));
		monitors(s, &desc, &sc, &tr);
		if tr.panicked {
			return;
		}
		(tr, desc)
	};
	s.count(&format!("tween_start_{:?}_{}", l.cmd, match l.start { Start::Imm => "immediate", Start::Del(_) => "delayed", Start::Clk { .. } => "clock" }));
	let (during, target) = match l.cmd {
		FadeCmd::Resume => (PlaybackState::Resuming, PlaybackState::Playing),
		FadeCmd::Pause => (PlaybackState::Pausing, PlaybackState::Paused),
		FadeCmd::Stop => (PlaybackState::Stopping, PlaybackState::Stopped),
	};
	let name = format!("{:?}", l.cmd).to_lowercase();
	// before the command
	for (j, (stt, _, _, outs)) in tr.per_cb.iter().enumerate().take(cmd_cb) {
		let (want, silent) = if l.cmd == FadeCmd::Resume && j >= l.lead { (PlaybackState::Paused, true) } else { (PlaybackState::Playing, false) };
		if *stt != want || (silent && outs.iter().any(|x| *x != 0.0)) || (!silent && j > 0 && outs.iter().any(|x| *x != 1.0)) {
			s.fail(desc.clone(), format!("callback {j} (before the {name}): state {stt:?}, output {outs:?}; expected {want:?} and {}", if silent { "silence" } else { "unity gain" }), None);
			return;
		}
	}
	let rising = l.cmd == FadeCmd::Resume;
	let mut last: f32 = if rising { 0.0 } else { 1.0 };
	let mut settled_at: Option<usize> = None;
	for (j, (stt, pos, _, outs)) in tr.per_cb.iter().enumerate().skip(cmd_cb) {
		let n = j - cmd_cb + 1;
		let ok = if settled_at.is_some() || n > hi { *stt == target } else if n < lo { *stt == during } else { *stt == during || *stt == target };
		if !ok {
			s.fail(
				desc.clone(),
				format!(
					"callback {n} after {name}(tween): the handle reports {stt:?}; {name} is {during:?} at once and then {target:?} when its tween completes, {} frames after the command, i.e. in callback {lo}{} after it",
					match &l.start {
						Start::Del(ns) => format!("{} + {}", ns / 1_953_125 * 2, l.dur),
						_ => format!("{}", l.dur),
					},
					if hi > lo { format!(" or {hi}") } else { String::new() }
				),
				None,
			);
			return;
		}
		if *stt == target && settled_at.is_none() {
			settled_at = Some(j);
		}
		for x in outs {
			if (rising && *x < last) || (!rising && *x > last) {
				s.fail(desc.clone(), format!("callback {n} after {name}(tween): the gain moved from {last:?} to {x:?}, against the direction of the fade"), None);
				return;
			}
			last = *x;
		}
		if let Some(p) = settled_at {
			let end = if rising { 1.0 } else { 0.0 };
			if (j > p || !rising) && outs.iter().any(|x| *x != end) && (j > p || l.cmd != FadeCmd::Stop) {
				// Paused: the callback that ends Paused is silent; Playing / Stopped: exact from the next callback on
				s.fail(desc.clone(), format!("callback {n} after {name}(tween): output {outs:?} although the handle reports {target:?} since callback {}; the gain must be exactly {end:?}", p - cmd_cb + 1), None);
				return;
			}
		}
		// a resumed sound advances: the position reported at callback j + 1 is one callback further than at callback j
		if rising && j > cmd_cb {
			let (a, b) = ((tr.per_cb[j - 1].1 * SR as f64).round() as i64, (pos * SR as f64).round() as i64);
			let want = chunk as i64;
			if b - a != want {
				s.fail(desc.clone(), format!("callback {n} after resume(tween): the reported position went from frame {a} to frame {b}; a resumed sound advances by {chunk} frames per callback from the callback in which resume was read"), None);
				return;
			}
		}
	}
}

fn fixed_tween_start_corpus() -> Vec<TsLaw> {
	let del = |frames: u64| Start::Del(frames_ns(frames));
	let mut v = vec![];
	for streaming in [false, true] {
		// pause, wait until Paused, resume(Tween { start_time: Delayed(8 frames), duration: 8 frames })
		v.push(TsLaw { streaming, cmd: FadeCmd::Resume, chunk: 4, lead: 2, wait: 2, start: del(8), dur: 8, easing: Easing::Linear });
		v.push(TsLaw { streaming, cmd: FadeCmd::Resume, chunk: 2, lead: 1, wait: 1, start: del(16), dur: 0, easing: Easing::Linear });
		v.push(TsLaw { streaming, cmd: FadeCmd::Resume, chunk: 8, lead: 1, wait: 3, start: del(24), dur: 16, easing: Easing::OutPowi(2) });
		v.push(TsLaw { streaming, cmd: FadeCmd::Resume, chunk: 4, lead: 1, wait: 1, start: Start::Clk { clock: 0, ticks: 5, fr: 0.0 }, dur: 8, easing: Easing::Linear });
		v.push(TsLaw { streaming, cmd: FadeCmd::Resume, chunk: 4, lead: 1, wait: 1, start: Start::Imm, dur: 8, easing: Easing::Linear });
		v.push(TsLaw { streaming, cmd: FadeCmd::Pause, chunk: 4, lead: 2, wait: 0, start: del(8), dur: 8, easing: Easing::Linear });
		v.push(TsLaw { streaming, cmd: FadeCmd::Stop, chunk: 4, lead: 2, wait: 0, start: del(8), dur: 8, easing: Easing::InPowi(2) });
		v.push(TsLaw { streaming, cmd: FadeCmd::Pause, chunk: 2, lead: 1, wait: 0, start: Start::Clk { clock: 0, ticks: 4, fr: 0.0 }, dur: 4, easing: Easing::Linear });
	}
	v
}

fn tween_start_scenarios(s: &mut Session, r: &mut Rng, ids: &[ClockId], count: u64) {
	for i in 0..count {
		let chunk = *r.pick(&[1usize, 2, 4, 8]);
		let lead = r.range(1, 3) as usize;
		let cmd = match r.below(4) {
			0 => FadeCmd::Pause,
			1 => FadeCmd::Stop,
			_ => FadeCmd::Resume,
		};
		let wait = if cmd == FadeCmd::Resume { r.range(1, 3) as usize } else { 0 };
		let cmd_cb = lead + wait;
		let start = match r.below(6) {
			0 => Start::Imm,
			1 | 2 => Start::Clk { clock: 0, ticks: (cmd_cb as u64 + r.below(6)).saturating_sub(1), fr: 0.0 },
			_ => Start::Del(frames_ns((r.below(16) + 1) * 2)),
		};
		let dur = if r.chance(1, 5) { 0 } else { (r.below(12) + 1) * 2 };
		let l = TsLaw { streaming: i % 2 == 1, cmd, chunk, lead, wait, start, dur, easing: gen_easing(r) };
		tween_start_law(s, ids, &l, false);
	}
}

// ================================================================================================
// seeks that reach a static sound while it is Paused / WaitingToResume: the position does not advance
// ================================================================================================
#[derive(Clone, Debug, Default)]
struct KCb {
	pause: Option<Tw>,
	resume: Option<(Start, Tw)>,
	seek_by: Option<f64>,
	seek_to: Option<f64>,
}
/// frame i of the ramp (all frames distinct, exact in f32)
fn ramp(i: usize) -> f32 {
	(i + 1) as f32 / 512.0
}
/// per callback: state after it, frame index reported during it, outputs; None = panicked
fn run_seek(ids: &[ClockId], n: usize, chunk: usize, cbs: &[KCb]) -> Option<Vec<(PlaybackState, i64, Vec<f32>)>> {
	let r = catch(|| {
		let data = StaticSoundData { sample_rate: SR, frames: Arc::from((0..n).map(|i| Frame::new(ramp(i), ramp(i))).collect::<Vec<_>>()), settings: StaticSoundSettings::new(), slice: None };
		let (mut sound, mut handle) = data.into_sound().unwrap();
		let info = MockInfoBuilder::new().build();
		let mut per = vec![];
		for cb in cbs {
			if let Some(t) = &cb.pause {
				handle.pause(mk_tween(ids, t));
			}
			if let Some((st, t)) = &cb.resume {
				send_resume!(handle, ids, st, t);
			}
			if let Some(a) = cb.seek_by {
				handle.seek_by(a);
			}
			if let Some(p) = cb.seek_to {
				handle.seek_to(p);
			}
			sound.on_start_processing();
			let pos = (handle.position() * SR as f64).round() as i64;
			let mut buf = vec![Frame::new(7.0, 7.0); chunk];
			sound.process(&mut buf, 1.0 / SR as f64, &info);
			let outs = buf.iter().map(|f| if f.left.to_bits() == f.right.to_bits() { f.left } else { f32::NAN }).collect();
			per.push((handle.state(), pos, outs));
		}
		per
	});
	match r {
		Outcome::Ok(p) => Some(p),
		_ => None,
	}
}
fn kcbs_text(cbs: &[KCb]) -> String {
	cbs.iter()
		.enumerate()
		.filter_map(|(j, cb)| {
			let mut v = vec![];
			if let Some(t) = &cb.pause {
				v.push(format!("pause({} ns, {:?})", t.dur_ns, t.easing));
			}
			if let Some((st, t)) = &cb.resume {
				v.push(match st {
					Start::Imm => format!("resume({} ns, {:?})", t.dur_ns, t.easing),
					o => format!("resume_at({o:?}, {} ns, {:?})", t.dur_ns, t.easing),
				});
			}
			if let Some(a) = cb.seek_by {
				v.push(format!("seek_by({a:?})"));
			}
			if let Some(p) = cb.seek_to {
				v.push(format!("seek_to({p:?})"));
			}
			if v.is_empty() {
				None
			} else {
				Some(format!("before callback {j}: {}", v.join(", ")))
			}
		})
		.collect::<Vec<_>>()
		.join("; ")
}

/// "While the state is Paused, WaitingToResume or Stopped the sound emits exact silence and its position does not
/// advance" on a ramp (every frame distinct), with seek commands arriving while the sound is in such a state.
/// Monitors: (a) the position the handle reports does not move between two callbacks that both end in such a state
/// (a `seek_to` may, by another reading, put it at its target; nothing else); (b) those callbacks are silent; (c) when
/// all seeks are `seek_by(0.0)`: states, positions and every output sample equal those of the same run without the seeks
/// - the resumed sound carries on exactly where it was paused
fn seek_frozen_case(s: &mut Session, ids: &[ClockId], n: usize, chunk: usize, cbs: &[KCb], fixed: bool) {
	s.eval_only("seek_while_frozen");
	let desc = format!(
		"{}static sound, ramp of {n} distinct frames (frame i = (i+1)/512) at {SR} Hz, {} callbacks of {chunk} frames; {}",
		if fixed { "[fixed corpus] " } else { "" },
		cbs.len(),
		kcbs_text(cbs)
	);
	let Some(per) = run_seek(ids, n, chunk, cbs) else {
		s.fail(desc, "panic while driving the sound".into(), None);
		return;
	};
	let frozen = |x: &PlaybackState| matches!(x, PlaybackState::Paused | PlaybackState::WaitingToResume | PlaybackState::Stopped);
	let mut seeks_read_frozen = 0;
	for k in 1..per.len() {
		if !(frozen(&per[k - 1].0) && frozen(&per[k].0)) {
			continue;
		}
		// callback k began and ended Paused / WaitingToResume / Stopped
		if cbs[k].seek_by.is_some() || cbs[k].seek_to.is_some() {
			seeks_read_frozen += 1;
		}
		if per[k].2.iter().any(|x| *x != 0.0) {
			s.fail(desc.clone(), format!("callback {k} began {:?} and ended {:?} but emitted {:?}", per[k - 1].0, per[k].0, per[k].2), None);
			return;
		}
		if k + 1 < per.len() {
			// the position stored at the start of callback k + 1 is what callback k left behind
			let (a, b) = (per[k].1, per[k + 1].1);
			let target = cbs[k].seek_to.map(|p| (p * SR as f64) as i64);
			if b != a && Some(b) != target {
				s.fail(
					desc.clone(),
					format!(
						"the handle reported position frame {a} during callback {k} and frame {b} during callback {}, yet callback {k} began {:?} and ended {:?}{}: the position of a sound in that state does not advance",
						k + 1,
						per[k - 1].0,
						per[k].0,
						if cbs[k].seek_by.is_some() || cbs[k].seek_to.is_some() { format!(" (a seek was read at its start: seek_by {:?}, seek_to {:?})", cbs[k].seek_by, cbs[k].seek_to) } else { String::new() }
					),
					None,
				);
				return;
			}
		}
	}
	if seeks_read_frozen > 0 {
		s.count("seek_read_while_paused_or_waiting");
	}
	let noop_only = cbs.iter().all(|c| c.seek_to.is_none() && c.seek_by.map(|a| a == 0.0).unwrap_or(true));
	if noop_only && cbs.iter().any(|c| c.seek_by.is_some()) {
		// seek_by(0.0) read while the sound is not advancing changes nothing; read while it IS advancing it legitimately
		// re-pushes a frame, so the comparison is made only when every seek was read in a frozen callback
		let all_frozen = (0..per.len()).all(|k| cbs[k].seek_by.is_none() || (k >= 1 && frozen(&per[k - 1].0) && frozen(&per[k].0) && cbs[k].pause.is_none() && cbs[k].resume.is_none()));
		if !all_frozen {
			return;
		}
		let ctl_cbs: Vec<KCb> = cbs.iter().map(|c| KCb { seek_by: None, seek_to: None, ..c.clone() }).collect();
		let Some(ctl) = run_seek(ids, n, chunk, &ctl_cbs) else {
			s.fail(desc, "panic in the control run (same commands without the seeks)".into(), None);
			return;
		};
		s.count("seek_noop_control_compared");
		for k in 0..per.len() {
			let same = per[k].0 == ctl[k].0 && per[k].1 == ctl[k].1 && per[k].2.iter().map(|x| x.to_bits()).eq(ctl[k].2.iter().map(|x| x.to_bits()));
			if !same {
				s.fail(
					desc.clone(),
					format!(
						"callback {k}: state {:?}, position frame {}, output {:?}; the same run without the seek_by(0.0) commands (all read while the sound was Paused / WaitingToResume) gives {:?}, frame {}, {:?}: the position moved while the sound was not advancing",
						per[k].0, per[k].1, per[k].2, ctl[k].0, ctl[k].1, ctl[k].2
					),
					None,
				);
				return;
			}
		}
	}
}

fn fixed_seek_corpus() -> Vec<(usize, usize, Vec<KCb>)> {
	let inst = || Tw { start: Start::Imm, dur_ns: 0, easing: Easing::Linear };
	let mut v = vec![];
	// pause, three no-op seeks in successive callbacks while Paused, resume
	let mut a = vec![KCb::default(); 13];
	a[2].pause = Some(inst());
	a[3].seek_by = Some(0.0);
	a[4].seek_by = Some(0.0);
	a[5].seek_by = Some(0.0);
	a[7].resume = Some((Start::Imm, inst()));
	v.push((256, 4, a));
	// the same while WaitingToResume (resume_at far in the future), then an immediate resume with a fade
	let mut b = vec![KCb::default(); 14];
	b[1].pause = Some(frames_tw(4, Easing::Linear));
	b[4].resume = Some((Start::Del(10_000_000_000), inst()));
	b[5].seek_by = Some(0.0);
	b[7].seek_by = Some(0.0);
	b[9].resume = Some((Start::Imm, frames_tw(4, Easing::Linear)));
	v.push((256, 2, b));
	// real seeks while Paused
	let mut c = vec![KCb::default(); 10];
	c[1].pause = Some(inst());
	c[3].seek_to = Some(100.0 / SR as f64);
	c[4].seek_by = Some(-8.0 / SR as f64);
	c[5].seek_by = Some(16.0 / SR as f64);
	c[7].resume = Some((Start::Imm, inst()));
	v.push((256, 4, c));
	v
}

fn seek_frozen_scenarios(s: &mut Session, r: &mut Rng, ids: &[ClockId], count: u64) {
	for _ in 0..count {
		let chunk = *r.pick(&[1usize, 2, 4, 8]);
		let n = 512;
		let lead = r.range(1, 3) as usize;
		let kp = if r.chance(1, 2) { 0 } else { (r.below(4) + 1) * 2 };
		let until_paused = ((kp as usize + chunk - 1) / chunk).max(1);
		let hold = r.range(2, 6) as usize;
		let waiting = r.chance(1, 3);
		let noop = r.chance(1, 2);
		let kr = if r.chance(1, 2) { 0 } else { (r.below(4) + 1) * 2 };
		let tail = (kr as usize + chunk - 1) / chunk + 3;
		let resume_cb = lead + until_paused + hold;
		let mut cbs = vec![KCb::default(); resume_cb + tail];
		cbs[lead].pause = Some(frames_tw(kp, gen_easing(r)));
		let first = lead + until_paused; // the sound is Paused when this callback begins
		if waiting {
			cbs[first].resume = Some((Start::Del(5_000_000_000 + r.below(1000)), frames_tw(kr, Easing::Linear)));
		}
		let mut any = false;
		for j in (first + waiting as usize)..resume_cb {
			if r.chance(2, 3) || (!any && j + 1 == resume_cb) {
				any = true;
				if noop {
					cbs[j].seek_by = Some(0.0);
				} else {
					match r.below(4) {
						0 => cbs[j].seek_by = Some(0.0),
						1 => cbs[j].seek_by = Some(r.range(-40, 40) as f64 / SR as f64),
						2 => cbs[j].seek_to = Some(r.below(300) as f64 / SR as f64),
						_ => {
							cbs[j].seek_by = Some(r.range(-8, 8) as f64 / SR as f64);
							cbs[j].seek_to = Some(r.below(300) as f64 / SR as f64);
						}
					}
				}
			}
		}
		cbs[resume_cb].resume = Some((Start::Imm, frames_tw(kr, gen_easing(r))));
		seek_frozen_case(s, ids, n, chunk, &cbs, false);
	}
}

pub fn run(args: &Args) {
	let mut rng = Rng::new(args.seed ^ 0xC03);
	let n: u64 = (if args.thorough { 8_000 } else { 800 }) * args.budget_mul;
	let mut s = Session::new(
		"C03",
		&args.out,
		"From Coq Require Import ZArith List. Import ListNotations. Open Scope Z_scope.\nFrom KV Require Import Base.Corr C06.Run C03.Run.",
		"run",
		60,
		"one case = one real sound of DC frames (output == gain) driven through callbacks with generated pause / resume / resume_at / stop commands (tween durations 0, sub-frame, frame multiples, arbitrary; Linear/Powi easings; start times immediate/delayed/clock present, paused, removed); kinds: history = static sound as a bare Sound (looping or finite, start position, start time, optional fade-in; 3-9 callbacks of 1-2 process calls); stream_history = streaming sound as a bare Sound with a scripted decoder whose thread is paced by permits, so the ring content at every callback is exactly known (mostly starved; natural end; decoder error at a scripted call); stream_fade_starved = fade command on a starved stream with a known answer; stream_error_not_advancing = decoder error while Paused / WaitingToResume / start time pending / Pausing; ended_at_construction = static sound reversed with nothing to play; same_boundary_static / same_boundary_stream = sound playing at unity gain, pause(tp) then resume(tr) issued with no callback between them (the handle still reports Playing when resume is called) or, as a control, one callback apart, known answer: Resuming until tr completes then Playing, output equal to uninterrupted playback, position advancing; main_track_static / main_track_stream = sound played through a real AudioManager on the main track with a command (or pause then resume back to back) issued between play() and the first callback (or later); observables per callback: handle.state(), handle.position(), finished(), every output sample; an immediate resume is always sent as handle.resume(tween), the other start times as resume_at; on every trace the last-command monitor is evaluated: the command read last (read order pause, resume, stop) fixes the branch of the life cycle the handle may report until the next command, forwards only; distinct = distinct scenario text; non-trivial = at least one command or a natural end. Monitor-only scenarios (fade laws, natural end, unloading / slot reuse on tracks of capacity 1, sub-tracks, sounds that end at construction played on tracks) are counted as evaluations",
	);
	let ids = clock_ids();
	// fixed corpus, the same on every run whatever args.seed: tweens that carry their own start time; seeks while Paused
	for l in fixed_tween_start_corpus() {
		tween_start_law(&mut s, &ids, &l, true);
	}
	for (n, chunk, cbs) in fixed_seek_corpus() {
		seek_frozen_case(&mut s, &ids, n, chunk, &cbs, true);
	}
	for _ in 0..n {
		let sc = gen_scenario(&mut rng);
		let tr = run_scenario(&ids, &sc);
		let t = term(&sc, &tr.tab);
		let nontrivial = sc.cbs.iter().any(|c| c.pause.is_some() || c.resume.is_some() || c.stop.is_some()) || !sc.lp;
		let key = {
			let mut h = 1469598103934665603u64;
			for b in t.bytes() {
				h = (h ^ b as u64).wrapping_mul(1099511628211);
			}
			format!("{h:x}")
		};
		s.case("history", t.clone(), &tr.obs, if nontrivial { Some(key) } else { None });
		for st in tr.per_cb.iter().map(|x| x.0) {
			s.count(&format!("state_{st:?}"));
		}
		monitors(&mut s, &t, &sc, &tr);
	}
	law_scenarios(&mut s, &mut rng, &ids, n / 4);
	manager_scenarios(&mut s, &mut rng, n / 8);
	stream_history_scenarios(&mut s, &mut rng, &ids, n / 2);
	stream_law_scenarios(&mut s, &mut rng, &ids, n / 8);
	same_boundary_scenarios(&mut s, &mut rng, &ids, n / 8);
	ended_scenarios(&mut s, &mut rng, &ids, n / 8);
	track_scenarios(&mut s, &mut rng, &ids, n / 4);
	tween_start_scenarios(&mut s, &mut rng, &ids, n / 8);
	seek_frozen_scenarios(&mut s, &mut rng, &ids, n / 4);
	s.finish();
}
