//! C03 — playback life cycle: a real static sound (DC frames) driven through callbacks with
//! pause / resume / resume_at / stop commands; handle state, position, envelope.
use crate::backend::*;
use crate::util::*;
use kira::clock::{ClockId, ClockTime};
use kira::info::MockInfoBuilder;
use kira::sound::static_sound::{StaticSoundData, StaticSoundHandle, StaticSoundSettings};
use kira::sound::{PlaybackPosition, PlaybackState, Region, Sound, SoundData};
use kira::{Easing, Frame, StartTime, Tween};
use std::time::Duration;

const SR: u32 = 1024; // dt = 2^-10 s: sample_rate * rate * dt is exactly 1

#[derive(Clone, Debug)]
enum Start {
	Imm,
	Del(u64),
	Clk { clock: usize, ticks: u64, fr: f64 },
}
#[derive(Clone, Debug)]
struct Tw {
	start: Start,
	dur_ns: u64,
	easing: Easing,
}
#[derive(Clone, Debug)]
struct Cb {
	pause: Option<Tw>,
	resume: Option<(Start, Tw)>,
	stop: Option<Tw>,
	lens: Vec<usize>,
	clocks: Vec<(bool, bool, u64, f64)>,
}

fn state_code(s: PlaybackState) -> i128 {
	match s {
		PlaybackState::Playing => 0,
		PlaybackState::Pausing => 1,
		PlaybackState::Paused => 2,
		PlaybackState::WaitingToResume => 3,
		PlaybackState::Resuming => 4,
		PlaybackState::Stopping => 5,
		PlaybackState::Stopped => 6,
	}
}
fn easing_code(e: Easing) -> (i128, i128) {
	match e {
		Easing::Linear => (0, 0),
		Easing::InPowi(p) => (1, p as i128),
		Easing::OutPowi(p) => (2, p as i128),
		Easing::InOutPowi(p) => (3, p as i128),
		_ => unreachable!(),
	}
}
fn start_term(s: &Start) -> String {
	match s {
		Start::Imm => "SImm".into(),
		Start::Del(ns) => format!("(SDel {})", ns),
		Start::Clk { clock, ticks, fr } => format!("(SClk {} {} {})", clock, ticks, f64_bits_z(*fr)),
	}
}
fn tw_term(t: &Tw) -> String {
	let (ek, ep) = easing_code(t.easing);
	format!("({}, {}, {}, {})", start_term(&t.start), t.dur_ns, ek, z(ep))
}
fn opt<T>(o: &Option<T>, f: impl Fn(&T) -> String) -> String {
	match o {
		Some(x) => format!("(Some {})", f(x)),
		None => "None".into(),
	}
}
fn mk_start(ids: &[ClockId], s: &Start) -> StartTime {
	match s {
		Start::Imm => StartTime::Immediate,
		Start::Del(ns) => StartTime::Delayed(Duration::from_nanos(*ns)),
		Start::Clk { clock, ticks, fr } => StartTime::ClockTime(ClockTime { clock: ids[*clock], ticks: *ticks, fraction: *fr }),
	}
}
fn mk_tween(ids: &[ClockId], t: &Tw) -> Tween {
	Tween { start_time: mk_start(ids, &t.start), duration: Duration::from_nanos(t.dur_ns), easing: t.easing }
}
fn clock_ids() -> Vec<ClockId> {
	let mut b = MockInfoBuilder::new();
	vec![b.add_clock(false, 0, 0.0), b.add_clock(false, 0, 0.0)]
}
fn build_info(ids: &[ClockId], clocks: &[(bool, bool, u64, f64)]) -> kira::info::Info<'static> {
	let mut b = MockInfoBuilder::new();
	for (k, (present, ticking, tk, fr)) in clocks.iter().enumerate() {
		if !*present {
			break;
		}
		let id = b.add_clock(*ticking, *tk, *fr);
		assert!(id == ids[k]);
	}
	b.build()
}

struct Scenario {
	n: usize,
	start: usize,
	lp: bool,
	st: Start,
	fade_in: Option<Tw>,
	cbs: Vec<Cb>,
}

struct Trace {
	obs: Vec<i128>,
	tab: Vec<(u32, u32, u32)>,
	/// per callback: (state after, position reported, finished, outputs)
	per_cb: Vec<(PlaybackState, f64, bool, Vec<f32>)>,
	/// per process call: (callback index, state after the call, outputs of the call)
	per_call: Vec<(usize, PlaybackState, Vec<f32>)>,
	panicked: bool,
}

fn make_sound(ids: &[ClockId], sc: &Scenario) -> (Box<dyn Sound>, StaticSoundHandle) {
	let mut settings = StaticSoundSettings::new().start_position(PlaybackPosition::Samples(sc.start)).start_time(mk_start(ids, &sc.st));
	if sc.lp {
		settings = settings.loop_region(Region::from(..));
	}
	if let Some(t) = &sc.fade_in {
		settings = settings.fade_in_tween(mk_tween(ids, t));
	}
	let data = StaticSoundData { sample_rate: SR, frames: std::sync::Arc::from(vec![Frame::new(1.0, 1.0); sc.n]), settings, slice: None };
	data.into_sound().unwrap()
}

fn run_scenario(ids: &[ClockId], sc: &Scenario) -> Trace {
	let _ = kira::verif::take_powf32_log();
	let mut per_cb = vec![];
	let mut per_call = vec![];
	let r = catch(|| {
		let (mut sound, mut handle) = make_sound(ids, sc);
		let mut obs = vec![];
		let mut per = vec![];
		let mut calls = vec![];
		let dt = 1.0 / SR as f64;
		for (cbi, cb) in sc.cbs.iter().enumerate() {
			if let Some(t) = &cb.pause {
				handle.pause(mk_tween(ids, t));
			}
			if let Some((s, t)) = &cb.resume {
				handle.resume_at(mk_start(ids, s), mk_tween(ids, t));
			}
			if let Some(t) = &cb.stop {
				handle.stop(mk_tween(ids, t));
			}
			sound.on_start_processing();
			let pos = handle.position();
			let info = build_info(ids, &cb.clocks);
			let mut outs: Vec<f32> = vec![];
			for len in &cb.lens {
				let mut buf = vec![Frame::new(7.0, 7.0); *len];
				sound.process(&mut buf, dt, &info);
				let mut call_outs = vec![];
				for f in &buf {
					call_outs.push(f.left);
					if f.left.to_bits() != f.right.to_bits() {
						call_outs.push(f32::NAN); // channels differ: shows up as a mismatch and a monitor failure
					}
				}
				outs.extend(call_outs.iter().copied());
				calls.push((cbi, handle.state(), call_outs));
			}
			let st = handle.state();
			obs.push(state_code(st));
			obs.push((pos * SR as f64) as i128);
			obs.push(sound.finished() as i128);
			obs.extend(outs.iter().map(|x| obs32(*x)));
			per.push((st, pos, sound.finished(), outs));
		}
		(obs, per, calls)
	});
	let tab = kira::verif::take_powf32_log();
	match r {
		Outcome::Ok((obs, per, calls)) => {
			per_cb = per;
			per_call = calls;
			Trace { obs, tab, per_cb, per_call, panicked: false }
		}
		Outcome::Panic(c) => Trace { obs: vec![1000 + c], tab, per_cb, per_call, panicked: true },
		Outcome::Hang => Trace { obs: vec![2000], tab, per_cb, per_call, panicked: true },
	}
}

fn term(sc: &Scenario, tab: &[(u32, u32, u32)]) -> String {
	let mut t: Vec<(u32, u32, u32)> = tab.to_vec();
	t.sort();
	t.dedup();
	let cbs = sc
		.cbs
		.iter()
		.map(|cb| {
			format!(
				"RCb {} {} {} [{}] {} [{}]",
				opt(&cb.pause, tw_term),
				opt(&cb.resume, |(s, t)| format!("({}, {})", start_term(s), tw_term(t))),
				opt(&cb.stop, tw_term),
				cb.lens.iter().map(|l| l.to_string()).collect::<Vec<_>>().join("; "),
				f64_bits_z(1.0 / SR as f64),
				cb.clocks.iter().map(|(p, t, k, f)| format!("({}, {}, {}, {})", *p as u8, *t as u8, k, f64_bits_z(*f))).collect::<Vec<_>>().join("; ")
			)
		})
		.collect::<Vec<_>>()
		.join("; ");
	format!(
		"CSound {} {} {} {} {} [{}] [{}]",
		sc.n,
		sc.start,
		sc.lp as u8,
		start_term(&sc.st),
		opt(&sc.fade_in, tw_term),
		cbs,
		t.iter().map(|(a, b, c)| format!("({}, {}, {})", a, b, c)).collect::<Vec<_>>().join("; ")
	)
}

fn gen_easing(r: &mut Rng) -> Easing {
	match r.below(6) {
		0 => Easing::InPowi(r.range(1, 4) as i32),
		1 => Easing::OutPowi(r.range(1, 4) as i32),
		2 => Easing::InOutPowi(r.range(1, 3) as i32),
		_ => Easing::Linear,
	}
}
fn gen_start(r: &mut Rng) -> Start {
	match r.below(8) {
		0 => Start::Del(r.below(24) * 976_562 + r.below(2) * 500), // around multiples of a frame
		1 => Start::Del((r.below(6) + 1) * 7_812_500),
		2 | 3 => Start::Clk { clock: r.below(2) as usize, ticks: r.below(4), fr: if r.chance(1, 2) { 0.0 } else { 0.5 } },
		_ => Start::Imm,
	}
}
fn gen_tw(r: &mut Rng, allow_start: bool) -> Tw {
	let dur_ns = match r.below(6) {
		0 => 0,
		1 => r.below(900_000),                // shorter than one frame
		2 => (r.below(30) + 1) * 976_562 + 500, // k frames (1/1024 s = 976562.5 ns)
		3 => (r.below(12) + 1) * 7_812_500,   // k * 8 frames exactly
		_ => r.below(40_000_000) + 1,
	};
	Tw { start: if allow_start && r.chance(1, 4) { gen_start(r) } else { Start::Imm }, dur_ns, easing: gen_easing(r) }
}
fn gen_clocks(r: &mut Rng, t: u64) -> Vec<(bool, bool, u64, f64)> {
	// clock 0: runs with time t/2 ticks, sometimes paused, sometimes gone; clock 1: slower, may be absent
	let present0 = !r.chance(1, 12);
	let present1 = present0 && r.chance(2, 3);
	vec![(present0, !r.chance(1, 6), t / 2, if t % 2 == 1 { 0.5 } else { 0.0 }), (present1, true, t / 5, 0.0)]
}
fn gen_scenario(r: &mut Rng) -> Scenario {
	let lp = r.chance(1, 2);
	let n = if lp { r.below(6) as usize + 1 } else { r.below(40) as usize + 1 };
	let start = if r.chance(1, 4) { r.below(n as u64) as usize } else { 0 };
	let st = if r.chance(1, 4) { gen_start(r) } else { Start::Imm };
	let fade_in = if r.chance(1, 5) { Some(gen_tw(r, false)) } else { None };
	let ncb = r.range(3, 9) as usize;
	let mut cbs = vec![];
	for k in 0..ncb {
		let mut cb = Cb { pause: None, resume: None, stop: None, lens: vec![], clocks: gen_clocks(r, k as u64) };
		if r.chance(2, 5) {
			match r.below(7) {
				0 | 1 => cb.pause = Some(gen_tw(r, true)),
				2 | 3 => cb.resume = Some((if r.chance(1, 2) { gen_start(r) } else { Start::Imm }, gen_tw(r, false))),
				4 => cb.stop = Some(gen_tw(r, true)),
				5 => {
					cb.pause = Some(gen_tw(r, false));
					cb.resume = Some((Start::Imm, gen_tw(r, false)));
				}
				_ => {
					cb.stop = Some(gen_tw(r, false));
					cb.pause = Some(gen_tw(r, false));
				}
			}
		}
		let chunks = r.range(1, 2);
		for _ in 0..chunks {
			cb.lens.push(*r.pick(&[1usize, 2, 3, 4, 5, 8]));
		}
		cbs.push(cb);
	}
	Scenario { n, start, lp, st, fade_in, cbs }
}

/// property monitors evaluated on the implementation's trace
fn monitors(s: &mut Session, desc: &str, sc: &Scenario, tr: &Trace) {
	if tr.panicked {
		s.fail(desc.to_string(), "panic while driving the sound".into(), None);
		return;
	}
	// per process call: a call that ends Paused / WaitingToResume was silent; so was any call made while Stopped
	let mut was_stopped = false;
	for (cbi, st, outs) in &tr.per_call {
		if matches!(st, PlaybackState::Paused | PlaybackState::WaitingToResume) && outs.iter().any(|x| *x != 0.0) {
			s.fail(desc.to_string(), format!("callback {cbi}: a process call ended in state {st:?} but emitted audio"), None);
		}
		if was_stopped && outs.iter().any(|x| *x != 0.0) {
			s.fail(desc.to_string(), format!("callback {cbi}: a process call on a Stopped sound emitted audio"), None);
		}
		if *st == PlaybackState::Stopped {
			was_stopped = true;
		}
	}
	let mut stopped_seen = false;
	let mut prev: Option<&(PlaybackState, f64, bool, Vec<f32>)> = None;
	for (k, cur) in tr.per_cb.iter().enumerate() {
		let (st, pos, fin, outs) = cur;
		if outs.iter().any(|x| x.is_nan()) {
			s.fail(desc.to_string(), format!("callback {k}: NaN or differing channels in the output"), None);
		}
		if stopped_seen {
			if *st != PlaybackState::Stopped {
				s.fail(desc.to_string(), format!("callback {k}: state {st:?} after the sound had reported Stopped"), None);
			}
			if outs.iter().any(|x| *x != 0.0) {
				s.fail(desc.to_string(), format!("callback {k}: a Stopped sound emitted audio"), None);
			}
		}
		if (*st == PlaybackState::Stopped) != *fin {
			s.fail(desc.to_string(), format!("callback {k}: finished() = {fin} but state = {st:?}"), None);
		}
		if let Some((pst, ppos, _, _)) = prev {
			// the position reported at the start of callback k is the frame heard after callback k-1; if callback k-1
			// ended Paused/WaitingToResume/Stopped and so did k-2 .. then it must not have moved
			if k >= 2 {
				let (ppst, _, _, _) = &tr.per_cb[k - 2];
				let frozen = |x: &PlaybackState| matches!(x, PlaybackState::Paused | PlaybackState::WaitingToResume | PlaybackState::Stopped);
				if frozen(pst) && frozen(ppst) && *pst == *ppst && pos != ppos && !(sc.cbs[k - 1].resume.is_some() || sc.cbs[k - 1].pause.is_some() || sc.cbs[k - 1].stop.is_some()) {
					s.fail(desc.to_string(), format!("callback {k}: position moved from {ppos} to {pos} while the state was {pst:?}"), None);
				}
			}
		}
		for x in outs {
			if !(*x >= 0.0 && *x <= 1.0) {
				s.fail(desc.to_string(), format!("callback {k}: gain {x:?} outside [0,1]"), None);
			}
		}
		if *st == PlaybackState::Stopped {
			stopped_seen = true;
		}
		prev = Some(cur);
	}
}

/// scenarios with a known answer: one fade command on a looping sound, nothing else
fn law_scenarios(s: &mut Session, r: &mut Rng, ids: &[ClockId], count: u64) {
	for i in 0..count {
		let frames_before = r.below(6) as usize + 1;
		let chunk = *r.pick(&[1usize, 2, 4, 8]);
		let dur_frames = r.below(40) + 1; // tween lasts dur_frames frames exactly (dyadic)
		let dur_ns = dur_frames * 976_562 + dur_frames / 2; // k/1024 s = k*976562.5 ns
		let kind = i % 3; // 0 pause, 1 stop, 2 pause then resume
		let e = gen_easing(r);
		let total_cbs = (dur_frames as usize / chunk) + 6;
		let mut cbs = vec![Cb { pause: None, resume: None, stop: None, lens: vec![frames_before], clocks: vec![] }];
		let tw = Tw { start: Start::Imm, dur_ns: if dur_frames % 2 == 0 { dur_frames / 2 * 1_953_125 } else { dur_ns }, easing: e };
		let exact = dur_frames % 2 == 0;
		for k in 0..total_cbs {
			let mut cb = Cb { pause: None, resume: None, stop: None, lens: vec![chunk], clocks: vec![] };
			if k == 0 {
				if kind == 1 {
					cb.stop = Some(tw.clone());
				} else {
					cb.pause = Some(tw.clone());
				}
			}
			cbs.push(cb);
		}
		let sc = Scenario { n: 4, start: 0, lp: true, st: Start::Imm, fade_in: None, cbs };
		let tr = run_scenario(ids, &sc);
		s.eval_only("fade_scenario");
		let desc = format!("looping DC sound, {} with {e:?} over {dur_frames} frames issued after {frames_before} frames, chunks of {chunk}", if kind == 1 { "stop" } else { "pause" });
		if tr.panicked {
			s.fail(desc, "panicked".into(), None);
			continue;
		}
		// expected completion: first callback (after the command) at whose update elapsed >= duration
		let need = (dur_frames as usize + chunk - 1) / chunk; // callbacks
		let target = if kind == 1 { PlaybackState::Stopped } else { PlaybackState::Paused };
		let during = if kind == 1 { PlaybackState::Stopping } else { PlaybackState::Pausing };
		let mut last = 1.0f32;
		for (k, (st, _pos, _fin, outs)) in tr.per_cb.iter().enumerate().skip(1) {
			let j = k; // j-th callback after the command (1-based)
			if exact {
				let want = if j >= need { target } else { during };
				if *st != want {
					s.fail(desc.clone(), format!("callback {j} after the command: state {st:?}, expected {want:?} (tween completes in callback {need})"), None);
				}
			} else if j + 1 < need && *st != during || j > need && *st != target {
				s.fail(desc.clone(), format!("callback {j} after the command: state {st:?} (tween completes in callback {need} +- 1)"), None);
			}
			for x in outs {
				if *x > last {
					s.fail(desc.clone(), format!("gain rose from {last:?} to {x:?} during a fade-out"), None);
				}
				last = *x;
			}
			if *st == target && outs.iter().any(|x| *x != 0.0) {
				s.fail(desc.clone(), format!("{target:?} but not exactly silent"), None);
			}
		}
		if last != 0.0 {
			s.fail(desc.clone(), format!("fade-out ended at gain {last:?}, not exactly 0"), None);
		}
	}
	// finite sound left alone: Stopped after exactly n - start + 1 frames, for every chunking
	for _ in 0..count {
		let n = r.below(30) as usize + 1;
		let start = r.below(n as u64) as usize;
		let mut cbs = vec![];
		let mut total = 0usize;
		while total < n + 8 {
			let len = *r.pick(&[1usize, 2, 3, 5, 8]);
			total += len;
			cbs.push(Cb { pause: None, resume: None, stop: None, lens: vec![len], clocks: vec![] });
		}
		let sc = Scenario { n, start, lp: false, st: Start::Imm, fade_in: None, cbs };
		let tr = run_scenario(ids, &sc);
		s.eval_only("natural_end_scenario");
		let desc = format!("finite sound n={n} start={start}, chunks {:?}", sc.cbs.iter().map(|c| c.lens[0]).collect::<Vec<_>>());
		let mut done = 0usize;
		let mut heard = 0usize;
		for (k, (st, _p, _f, outs)) in tr.per_cb.iter().enumerate() {
			done += sc.cbs[k].lens[0];
			heard += outs.iter().filter(|x| **x == 1.0).count();
			let want = done >= n - start + 1;
			if (*st == PlaybackState::Stopped) != want {
				s.fail(desc.clone(), format!("after {done} frames state is {st:?}; Stopped is due after n - start + 1 = {} frames", n - start + 1), None);
				break;
			}
		}
		if !tr.panicked && heard != n - start {
			s.fail(desc.clone(), format!("{heard} source frames heard, expected {}", n - start), None);
		}
	}
}

/// through a real manager: a Stopped sound is unloaded at the next callback and its slot reusable
fn manager_scenarios(s: &mut Session, r: &mut Rng, count: u64) {
	for _ in 0..count {
		let mut m = simple_manager(SR, *r.pick(&[1usize, 4, 16]));
		let n = r.below(12) as usize + 1;
		let mut h = m.play(sound_from_frames(SR, vec![Frame::new(1.0, 1.0); n])).unwrap();
		let mut track_sounds = vec![];
		let mut stopped_at: Option<usize> = None;
		let use_stop = r.chance(1, 2);
		for k in 0..(n + 12) {
			if use_stop && k == 1 {
				h.stop(Tween { start_time: StartTime::Immediate, duration: Duration::ZERO, easing: Easing::Linear });
			}
			m.backend_mut().callback(1, 2);
			track_sounds.push(m.main_track().num_sounds());
			if h.state() == PlaybackState::Stopped && stopped_at.is_none() {
				stopped_at = Some(k);
			}
		}
		s.eval_only("unload_scenario");
		let desc = format!("manager: sound of {n} frames, {}", if use_stop { "stopped with a zero-length tween in callback 1" } else { "left to end" });
		match stopped_at {
			None => s.fail(desc, "never reported Stopped".into(), None),
			Some(k) => {
				if track_sounds[k] != 1 {
					s.fail(desc.clone(), format!("num_sounds = {} in the callback it stopped", track_sounds[k]), None);
				}
				if track_sounds.get(k + 1).copied() != Some(0) {
					s.fail(desc.clone(), format!("num_sounds = {:?} one callback after Stopped (expected 0)", track_sounds.get(k + 1)), None);
				}
			}
		}
	}
}

pub fn run(args: &Args) {
	let mut rng = Rng::new(args.seed ^ 0xC03);
	let n: u64 = (if args.thorough { 8_000 } else { 800 }) * args.budget_mul;
	let mut s = Session::new(
		"C03",
		&args.out,
		"From Coq Require Import ZArith List. Import ListNotations. Open Scope Z_scope.\nFrom KV Require Import Base.Corr C06.Run C03.Run.",
		"run",
		60,
		"one case = one real static sound (DC frames, looping or finite, start position, start time immediate/delayed/clock, optional fade-in) driven through 3-9 callbacks of 1-2 process calls with generated pause / resume / resume_at / stop commands (tween durations 0, sub-frame, frame multiples, arbitrary; Linear/Powi easings; start times immediate/delayed/clock present, paused, removed); observables per callback: handle.state(), handle.position(), finished(), every output sample; distinct = distinct scenario text; non-trivial = at least one command or a natural end",
	);
	let ids = clock_ids();
	for _ in 0..n {
		let sc = gen_scenario(&mut rng);
		let tr = run_scenario(&ids, &sc);
		let t = term(&sc, &tr.tab);
		let nontrivial = sc.cbs.iter().any(|c| c.pause.is_some() || c.resume.is_some() || c.stop.is_some()) || !sc.lp;
		let key = {
			let mut h = 1469598103934665603u64;
			for b in t.bytes() {
				h = (h ^ b as u64).wrapping_mul(1099511628211);
			}
			format!("{h:x}")
		};
		s.case("history", t.clone(), &tr.obs, if nontrivial { Some(key) } else { None });
		for st in tr.per_cb.iter().map(|x| x.0) {
			s.count(&format!("state_{st:?}"));
		}
		monitors(&mut s, &t, &sc, &tr);
	}
	law_scenarios(&mut s, &mut rng, &ids, n / 4);
	manager_scenarios(&mut s, &mut rng, n / 8);
	s.finish();
}
