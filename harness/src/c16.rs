//! C16 — seconds and hertz mean the same at every device sample rate and across changes.
//!
//! Part A (protocol): histories of add / change / callback steps on a real `AudioManager`.  Probe effects
//! (public `Effect` trait) record every `init` / `on_change_sample_rate` argument and the `dt` and length of
//! every `process` call; the log is compared with the protocol model (C16/Run.v) and, independently, the
//! monitor "every effect processes with the rate in force" is evaluated on it.  The audio-thread steps that
//! fall BETWEEN a track's `sample_rate.load()` and its enqueue are driven from inside the probe's `init`
//! (which the add path calls exactly there), so the racy histories need no hook in kira.
//! F14 (a track queued across a rate change kept the old rate) is repaired: there is no exception class any more,
//! a stale effect is a plain failure; the former witnesses are fixed regression cases that run every time.
//! Part B (real effects): Delay buffer length (echo position) and Filter output across a rate change.
//! Part C (scenes): the same scene rendered at many device rates and across mid-stream changes, measured in seconds.
//! Part D (effects whose parameters are TIMES but whose state is counted in frames): the real Reverb's delay lines
//! (echo positions of an impulse on either channel, compared with C16/ModelEffects.v `reverb_first_taps` and, as a
//! monitor, with tuning/44100 seconds to one frame) and the real Compressor's attack / release durations (time
//! constants read off the output of a level step, in seconds) -- at single rates and after histories of callbacks,
//! rate changes and parameter changes that the SAME effect instance lived through.
//! Part E (filter frequencies in hertz; runs FIRST, its fixed cases do not depend on the seed): the sine response of the
//! real EqFilter at its band frequency (bell: the configured gain; shelves: half of it in dB; a bell's extremum is at its
//! frequency) for bands up to 0.45 of the device rate, at every rate, after init / on_change_sample_rate sequences and on
//! sub-tracks that lived through add / callback / change / set_frequency histories.  C16/Model.v takes `tan` as an oracle
//! argument, so `filter_coeff_depends_on_ratio` holds for ANY tan: a wrong prewarp is visible to this monitor only.
#![allow(dead_code)]
use crate::backend::{indexed_sound, sound_from_frames, VBackend, VSettings};
use crate::util::*;
use kira::backend::{Backend, Renderer};
use kira::clock::ClockSpeed;
use kira::effect::compressor::CompressorBuilder;
use kira::effect::delay::DelayBuilder;
use kira::effect::reverb::ReverbBuilder;
use kira::effect::filter::{FilterBuilder, FilterMode};
use kira::effect::{Effect, EffectBuilder};
use kira::info::Info;
use kira::sound::static_sound::StaticSoundData;
use kira::sound::PlaybackState;
use kira::track::{MainTrackBuilder, SendTrackBuilder, SendTrackHandle, SpatialTrackBuilder, SpatialTrackHandle, TrackBuilder, TrackHandle};
use kira::{AudioManager, AudioManagerSettings, Capacities, Decibels, Easing, Frame, Mix, StartTime, Tween};
use std::cell::RefCell;
use std::sync::atomic::{AtomicBool, AtomicU32, Ordering};
use std::sync::{Arc, Mutex};
use std::time::Duration;

// ---------------------------------------------------------------------------------------------
// a backend whose renderer can also be reached from inside an effect's `init`
// ---------------------------------------------------------------------------------------------
type SharedRenderer = Arc<Mutex<Option<Renderer>>>;
struct SBackend {
	shared: SharedRenderer,
}
struct SSettings {
	sample_rate: u32,
	shared: SharedRenderer,
}
impl Backend for SBackend {
	type Settings = SSettings;
	type Error = ();
	fn setup(settings: SSettings, _ibs: usize) -> Result<(Self, u32), ()> {
		Ok((SBackend { shared: settings.shared }, settings.sample_rate))
	}
	fn start(&mut self, renderer: Renderer) -> Result<(), ()> {
		*self.shared.lock().unwrap() = Some(renderer);
		Ok(())
	}
}

#[derive(Clone, Debug, PartialEq)]
enum AOp {
	Change(u32),
	Callback(usize),
}
#[derive(Clone, Debug)]
enum Rec {
	Told { id: i64, change: bool, sr: u32 },
	Proc { id: i64, dt: f64, len: usize },
	/// an audio-thread step was executed (sequence number of the step)
	Audio(AOp),
}
thread_local! {
	static LOG: RefCell<Vec<Rec>> = RefCell::new(vec![]);
	static ARMED: RefCell<Option<(SharedRenderer, Vec<AOp>)>> = RefCell::new(None);
}
fn log(r: Rec) {
	LOG.with(|l| l.borrow_mut().push(r));
}
fn audio_step(r: &SharedRenderer, op: &AOp) {
	let mut g = r.lock().unwrap();
	let ren = g.as_mut().unwrap();
	log(Rec::Audio(op.clone()));
	match op {
		AOp::Change(sr) => ren.on_change_sample_rate(*sr),
		AOp::Callback(n) => {
			let mut out = vec![0.0f32; n * 2];
			ren.on_start_processing();
			ren.process(&mut out, 2);
		}
	}
}

struct Probe {
	id: i64,
}
impl Effect for Probe {
	fn init(&mut self, sample_rate: u32, _ibs: usize) {
		log(Rec::Told { id: self.id, change: false, sr: sample_rate });
		// we are on the caller's thread between `sample_rate.load()` and the enqueue: let the audio thread run
		if let Some((r, ops)) = ARMED.with(|a| a.borrow_mut().take()) {
			for op in &ops {
				audio_step(&r, op);
			}
		}
	}
	fn on_change_sample_rate(&mut self, sample_rate: u32) {
		log(Rec::Told { id: self.id, change: true, sr: sample_rate });
	}
	fn process(&mut self, input: &mut [Frame], dt: f64, _info: &Info) {
		log(Rec::Proc { id: self.id, dt, len: input.len() });
	}
}
struct ProbeBuilder(i64);
impl EffectBuilder for ProbeBuilder {
	type Handle = ();
	fn build(self) -> (Box<dyn Effect>, ()) {
		(Box::new(Probe { id: self.0 }), ())
	}
}

#[derive(Clone, Debug)]
enum EShape {
	Probe(i64),
	Delay(u64, Vec<EShape>),
}
impl EShape {
	fn term(&self) -> String {
		match self {
			EShape::Probe(i) => format!("SEff {} KProbe []", i),
			EShape::Delay(t, fb) => format!("SEff (-1) (KDelay {}) [{}]", t, fb.iter().map(|e| e.term()).collect::<Vec<_>>().join("; ")),
		}
	}
	fn build(&self) -> Box<dyn Effect> {
		match self {
			EShape::Probe(i) => ProbeBuilder(*i).build().0,
			EShape::Delay(t, fb) => {
				let mut b = DelayBuilder::new().delay_time(Duration::from_nanos(*t));
				for e in fb {
					match e {
						EShape::Probe(i) => {
							b.add_feedback_effect(ProbeBuilder(*i));
						}
						EShape::Delay(t2, fb2) => {
							let mut b2 = DelayBuilder::new().delay_time(Duration::from_nanos(*t2));
							for e2 in fb2 {
								if let EShape::Probe(i) = e2 {
									b2.add_feedback_effect(ProbeBuilder(*i));
								}
							}
							b.add_feedback_effect(b2);
						}
					}
				}
				b.build().0
			}
		}
	}
	fn probes(&self, out: &mut Vec<i64>) {
		match self {
			EShape::Probe(i) => out.push(*i),
			EShape::Delay(_, fb) => fb.iter().for_each(|e| e.probes(out)),
		}
	}
}
#[derive(Clone, Debug, PartialEq)]
enum Dest {
	Sub { spatial: bool },
	Under { pid: i64, spatial: bool },
	Send,
}
#[derive(Clone, Debug)]
enum Item {
	Add { dest: Dest, tid: i64, effs: Vec<EShape>, inject: Vec<AOp> },
	A(AOp),
}
#[derive(Clone, Debug)]
struct Hist {
	sr0: u32,
	ibs: usize,
	main: Vec<EShape>,
	nids: i64,
	items: Vec<Item>,
}
fn aop_term(o: &AOp) -> String {
	match o {
		AOp::Change(r) => format!("A_change {}", r),
		AOp::Callback(n) => format!("A_callback {}", n),
	}
}
impl Hist {
	fn term(&self) -> String {
		let mut ops = vec![];
		for it in &self.items {
			match it {
				Item::A(o) => ops.push(aop_term(o)),
				Item::Add { dest, tid, effs, inject } => {
					let d = match dest {
						Dest::Sub { .. } => "DSub".to_string(),
						Dest::Under { pid, .. } => format!("(DUnder {})", pid),
						Dest::Send => "DSend".to_string(),
					};
					ops.push(format!("G_load 0 {} ({}, [{}])", d, tid, effs.iter().map(|e| e.term()).collect::<Vec<_>>().join("; ")));
					for o in inject {
						ops.push(aop_term(o));
					}
					ops.push("G_enqueue 0".to_string());
				}
			}
		}
		format!(
			"CHist {} {} [{}] {} [{}]",
			self.sr0,
			self.ibs,
			self.main.iter().map(|e| e.term()).collect::<Vec<_>>().join("; "),
			self.nids,
			ops.join("; ")
		)
	}
	fn describe(&self) -> String {
		let mut s = format!("device rate {} Hz, internal buffer {}, main effects {:?}; ", self.sr0, self.ibs, self.main);
		for it in &self.items {
			match it {
				Item::A(AOp::Change(r)) => s.push_str(&format!("set_sample_rate({r}); ")),
				Item::A(AOp::Callback(n)) => s.push_str(&format!("callback({n} frames); ")),
				Item::Add { dest, tid, effs, inject } => {
					s.push_str(&format!("add track {tid} {:?} effects {:?}", dest, effs));
					if !inject.is_empty() {
						s.push_str(&format!(" [between its sample_rate.load() and its enqueue the audio thread does {:?}]", inject));
					}
					s.push_str("; ");
				}
			}
		}
		s
	}
}

enum H {
	T(TrackHandle),
	S(SpatialTrackHandle),
	Send(SendTrackHandle),
}

struct HistResult {
	obs: Vec<i128>,
	/// monitor failures
	fails: Vec<String>,
	nproc: usize,
	stale_seen: bool,
}

fn run_hist(h: &Hist) -> HistResult {
	LOG.with(|l| l.borrow_mut().clear());
	ARMED.with(|a| *a.borrow_mut() = None);
	let shared: SharedRenderer = Arc::new(Mutex::new(None));
	let mut mb = MainTrackBuilder::new();
	for e in &h.main {
		mb.add_built_effect(e.build());
	}
	let mut m = AudioManager::<SBackend>::new(AudioManagerSettings {
		capacities: Capacities { sub_track_capacity: 16, send_track_capacity: 16, clock_capacity: 1, modulator_capacity: 1, listener_capacity: 2 },
		main_track_builder: mb,
		internal_buffer_size: h.ibs,
		backend_settings: SSettings { sample_rate: h.sr0, shared: shared.clone() },
	})
	.unwrap();
	let listener = m.add_listener(glam::Vec3::ZERO, glam::Quat::IDENTITY).unwrap();
	let mut handles: Vec<(i64, H)> = vec![];
	// probe id -> (index of the audio step count at its track's load; None for main-track probes)
	let mut load_seq: std::collections::BTreeMap<i64, usize> = Default::default();
	let mut audio_count = 0usize;
	for it in &h.items {
		match it {
			Item::A(o) => {
				audio_step(&shared, o);
				audio_count += 1;
			}
			Item::Add { dest, tid, effs, inject } => {
				let mut ps = vec![];
				effs.iter().for_each(|e| e.probes(&mut ps));
				for p in ps {
					load_seq.insert(p, audio_count);
				}
				if !inject.is_empty() {
					ARMED.with(|a| *a.borrow_mut() = Some((shared.clone(), inject.clone())));
				}
				let pos = glam::Vec3::new(0.0, 0.0, -1.0);
				let hd = match dest {
					Dest::Send => {
						let mut b = SendTrackBuilder::new();
						for e in effs {
							b.add_built_effect(e.build());
						}
						H::Send(m.add_send_track(b).unwrap())
					}
					Dest::Sub { spatial: false } | Dest::Under { spatial: false, .. } => {
						let mut b = TrackBuilder::new().sub_track_capacity(8).sound_capacity(2);
						for e in effs {
							b.add_built_effect(e.build());
						}
						match dest {
							Dest::Sub { .. } => H::T(m.add_sub_track(b).unwrap()),
							Dest::Under { pid, .. } => {
								let parent = &mut handles.iter_mut().find(|(i, _)| i == pid).unwrap().1;
								match parent {
									H::T(p) => H::T(p.add_sub_track(b).unwrap()),
									H::S(p) => H::T(p.add_sub_track(b).unwrap()),
									H::Send(_) => unreachable!(),
								}
							}
							_ => unreachable!(),
						}
					}
					Dest::Sub { spatial: true } | Dest::Under { spatial: true, .. } => {
						let mut b = SpatialTrackBuilder::new().sub_track_capacity(8).sound_capacity(2);
						for e in effs {
							b.add_built_effect(e.build());
						}
						match dest {
							Dest::Sub { .. } => H::S(m.add_spatial_sub_track(&listener, pos, b).unwrap()),
							Dest::Under { pid, .. } => {
								let parent = &mut handles.iter_mut().find(|(i, _)| i == pid).unwrap().1;
								match parent {
									H::T(p) => H::S(p.add_spatial_sub_track(&listener, pos, b).unwrap()),
									H::S(p) => H::S(p.add_spatial_sub_track(&listener, pos, b).unwrap()),
									H::Send(_) => unreachable!(),
								}
							}
							_ => unreachable!(),
						}
					}
				};
				ARMED.with(|a| *a.borrow_mut() = None);
				audio_count += inject.len();
				handles.push((*tid, hd));
			}
		}
	}
	let recs = LOG.with(|l| std::mem::take(&mut *l.borrow_mut()));
	drop(handles);
	drop(m);
	// ---- observable + monitor
	let n = h.nids as usize;
	let mut told: Vec<Vec<(bool, u32)>> = vec![vec![]; n];
	let mut first_proc: Vec<Option<usize>> = vec![None; n];
	let mut obs: Vec<i128> = vec![];
	let mut fails = vec![];
	let mut in_force = h.sr0;
	let mut k = 0usize; // audio steps executed so far
	let mut changes: Vec<(usize, bool)> = vec![]; // (index of the step, rate differs)
	let mut nproc = 0;
	let mut stale_seen = false;
	let mut reported = std::collections::BTreeSet::new();
	for r in &recs {
		match r {
			Rec::Audio(o) => {
				if let AOp::Change(sr) = o {
					changes.push((k, *sr != in_force));
					in_force = *sr;
				}
				k += 1;
			}
			Rec::Told { id, change, sr } => told[*id as usize].push((*change, *sr)),
			Rec::Proc { id, dt, len } => {
				nproc += 1;
				let i = *id as usize;
				let cb = k - 1; // index of the callback step we are in
				if first_proc[i].is_none() {
					first_proc[i] = Some(cb);
				}
				let last = told[i].last().copied();
				obs.extend_from_slice(&[*id as i128, last.map(|x| x.1).unwrap_or(0) as i128, obs64(*dt), *len as i128]);
				// MONITOR rate_in_force: dt is 1/rate-in-force and the effect was last told the rate in force
				let dt_ok = dt.to_bits() == (1.0 / in_force as f64).to_bits();
				let told_ok = last.map(|x| x.1) == Some(in_force);
				if !dt_ok && reported.insert((i, 0)) {
					fails.push(format!("probe {id}: process called with dt = {dt:e} while the device rate is {in_force} Hz"));
				}
				if !told_ok {
					stale_seen = true;
					// how it came about (for the report only; every stale effect is a failure)
					let ls = load_seq.get(id).copied();
					let fp = first_proc[i].unwrap();
					let queued_across_change = match (last, ls) {
						(Some((false, _)), Some(ls)) => changes.iter().any(|(c, differs)| *differs && *c >= ls && *c < fp),
						_ => false,
					};
					if reported.insert((i, 1)) {
						fails.push(format!(
							"probe {id}: processes at device rate {in_force} Hz (dt = 1/{in_force}) but was last told {:?} Hz ({})",
							last.map(|x| x.1),
							if queued_across_change {
								"by init on the caller's thread; the change fell between the track's load and its pick-up and the track was not re-synchronised at its first on_start_processing (F14 is back)"
							} else if last.map(|x| x.0) == Some(false) {
								"by init; a later change did not reach it although no change raced with its add"
							} else {
								"by on_change_sample_rate"
							}
						));
					}
				}
			}
		}
	}
	obs.push(-1);
	for t in &told {
		obs.push(t.len() as i128);
		for (c, sr) in t {
			obs.push(*c as i128);
			obs.push(*sr as i128);
		}
	}
	HistResult { obs, fails, nproc, stale_seen }
}

fn emit_hist(s: &mut Session, kind: &str, h: &Hist) {
	let r = run_hist(h);
	let key = if r.nproc > 0 { Some(h.term()) } else { None };
	s.case(kind, h.term(), &r.obs, key);
	if r.stale_seen {
		s.count("hist_with_stale_effect");
	}
	for what in r.fails {
		s.fail(h.describe(), what, None);
	}
}

/// fixed cases, run every time: the histories of `f14_regression` (C16/ProofsWitness.v) -- the former F14 witnesses
/// and their variants for every track kind -- and the orders that were always fine
fn regressions() -> Vec<(&'static str, Hist)> {
	let probe = |i: i64| vec![EShape::Probe(i)];
	let add = |inject: Vec<AOp>| Item::Add { dest: Dest::Sub { spatial: false }, tid: 1, effs: vec![EShape::Probe(0)], inject };
	let addk = |dest: Dest, tid: i64, id: i64, inject: Vec<AOp>| Item::Add { dest, tid, effs: probe(id), inject };
	let ch = |r: u32| Item::A(AOp::Change(r));
	let cb = |n: usize| Item::A(AOp::Callback(n));
	let hist = |nids: i64, items: Vec<Item>| Hist { sr0: 1000, ibs: 4, main: vec![], nids, items };
	vec![
		("regression_f14_add_change_callback", hist(1, vec![add(vec![]), ch(2000), cb(4)])),
		("regression_f14_load_change_enqueue_callback", hist(1, vec![add(vec![AOp::Change(2000)]), cb(4)])),
		("regression_f14_add_callback_change_callback", hist(1, vec![add(vec![]), cb(4), ch(2000), cb(4)])),
		("regression_f14_change_add_callback", hist(1, vec![ch(2000), add(vec![]), cb(4)])),
		// nested: a sub-track pushed on the queue of a track that is already in the arena
		(
			"regression_f14_nested",
			hist(
				1,
				vec![
					Item::Add { dest: Dest::Sub { spatial: false }, tid: 1, effs: vec![], inject: vec![] },
					cb(4),
					addk(Dest::Under { pid: 1, spatial: false }, 2, 0, vec![]),
					ch(2000),
					cb(4),
				],
			),
		),
		// nested below a parent that is itself still queued
		(
			"regression_f14_nested_below_queued_parent",
			hist(2, vec![addk(Dest::Sub { spatial: false }, 1, 0, vec![]), addk(Dest::Under { pid: 1, spatial: false }, 2, 1, vec![]), ch(2000), cb(4)]),
		),
		("regression_f14_send", hist(1, vec![addk(Dest::Send, 1, 0, vec![]), ch(2000), cb(4)])),
		("regression_f14_send_racy", hist(1, vec![addk(Dest::Send, 1, 0, vec![AOp::Change(2000)]), cb(4)])),
		("regression_f14_spatial", hist(1, vec![addk(Dest::Sub { spatial: true }, 1, 0, vec![]), ch(2000), cb(4)])),
		("regression_f14_spatial_racy", hist(1, vec![addk(Dest::Sub { spatial: true }, 1, 0, vec![AOp::Change(2000)]), cb(4)])),
		// through TrackHandle / SpatialTrackHandle, plain and spatial children, sequential and racy
		(
			"regression_f14_nested_kinds",
			hist(
				6,
				vec![
					addk(Dest::Sub { spatial: false }, 1, 0, vec![]),
					addk(Dest::Sub { spatial: true }, 2, 1, vec![]),
					cb(4),
					addk(Dest::Under { pid: 1, spatial: true }, 3, 2, vec![]),
					addk(Dest::Under { pid: 2, spatial: false }, 4, 3, vec![]),
					ch(2000),
					addk(Dest::Under { pid: 2, spatial: true }, 5, 4, vec![AOp::Change(3000)]),
					addk(Dest::Under { pid: 3, spatial: false }, 6, 5, vec![AOp::Change(500), AOp::Callback(2)]),
					cb(4),
					cb(1),
				],
			),
		),
		// there and back while queued: the remembered rate is in force again, nobody is told anything
		("regression_f14_there_and_back", hist(1, vec![add(vec![]), ch(2000), ch(1000), cb(4)])),
		(
			"regression_f14_delay_length",
			Hist {
				sr0: 1000,
				ibs: 8,
				main: vec![],
				nids: 1,
				items: vec![
					Item::Add { dest: Dest::Sub { spatial: false }, tid: 1, effs: vec![EShape::Delay(3_000_000, vec![EShape::Probe(0)])], inject: vec![] },
					Item::A(AOp::Change(2000)),
					Item::A(AOp::Callback(8)),
				],
			},
		),
	]
}

/// every history of at most `depth` letters over a small alphabet
fn enumerate_hists(s: &mut Session, depth: usize) {
	const LETTERS: usize = 9;
	let mut word = vec![0usize; 0];
	fn build(word: &[usize]) -> Hist {
		let mut items = vec![];
		let mut next_id = 0i64;
		let mut next_tid = 1i64;
		let mut last_sub: Option<i64> = None;
		for &l in word {
			let under = match last_sub {
				Some(p) => Dest::Under { pid: p, spatial: false },
				None => Dest::Sub { spatial: false },
			};
			let add: Option<(Dest, Vec<AOp>, bool)> = match l {
				0 => Some((Dest::Sub { spatial: false }, vec![], true)),
				1 => Some((under, vec![], true)),
				2 => Some((Dest::Send, vec![], false)),
				3 => Some((Dest::Sub { spatial: false }, vec![AOp::Change(2000)], true)),
				4 => Some((under, vec![AOp::Change(3000), AOp::Callback(2)], true)),
				_ => None,
			};
			if let Some((dest, inject, is_sub)) = add {
				items.push(Item::Add { dest, tid: next_tid, effs: vec![EShape::Probe(next_id)], inject });
				if is_sub {
					last_sub = Some(next_tid);
				}
				next_id += 1;
				next_tid += 1;
			} else {
				items.push(Item::A(match l {
					5 => AOp::Change(2000),
					6 => AOp::Change(3000),
					7 => AOp::Callback(2),
					_ => AOp::Callback(5),
				}));
			}
		}
		Hist { sr0: 1000, ibs: 4, main: vec![EShape::Probe(next_id)], nids: next_id + 1, items }
	}
	fn rec(s: &mut Session, word: &mut Vec<usize>, depth: usize) {
		if !word.is_empty() {
			let h = build(word);
			emit_hist(s, "hist_exhaustive", &h);
		}
		if word.len() == depth {
			return;
		}
		for l in 0..LETTERS {
			word.push(l);
			rec(s, word, depth);
			word.pop();
		}
	}
	rec(s, &mut word, depth);
}

const RATES: [u32; 7] = [8000, 11025, 22050, 44100, 48000, 96000, 192000];

fn gen_effects(rng: &mut Rng, next_id: &mut i64, rate_hint: u32) -> Vec<EShape> {
	let n = rng.below(4) as usize;
	let mut v = vec![];
	for _ in 0..n {
		if rng.chance(1, 3) {
			// a delay of 0..12 frames at the hinted rate (0 exercises the one-frame clamp), or an arbitrary one
			let t = if rng.chance(3, 4) { (rng.below(13) as f64 * 1e9 / rate_hint as f64) as u64 + rng.below(3) } else { rng.below(2_000_000) };
			let k = 1 + rng.below(2) as usize;
			let mut fb = vec![];
			for _ in 0..k {
				if rng.chance(1, 6) {
					let t2 = (rng.below(6) as f64 * 1e9 / rate_hint as f64) as u64;
					fb.push(EShape::Delay(t2, vec![EShape::Probe(*next_id)]));
				} else {
					fb.push(EShape::Probe(*next_id));
				}
				*next_id += 1;
			}
			v.push(EShape::Delay(t, fb));
		} else {
			v.push(EShape::Probe(*next_id));
			*next_id += 1;
		}
	}
	v
}
fn gen_rate(rng: &mut Rng, small: bool) -> u32 {
	if small {
		*rng.pick(&[1000u32, 2000, 3000, 500, 1])
	} else if rng.chance(1, 8) {
		rng.range(8000, 192000) as u32
	} else {
		*rng.pick(&RATES)
	}
}
fn gen_hist(rng: &mut Rng) -> Hist {
	let small = rng.chance(1, 3);
	let sr0 = gen_rate(rng, small);
	let ibs = *rng.pick(&[1usize, 3, 4, 8, 16]);
	let mut next_id = 0i64;
	let main = if rng.chance(1, 2) { gen_effects(rng, &mut next_id, sr0) } else { vec![] };
	let len = 3 + rng.below(10) as usize;
	let mut items = vec![];
	let mut subs: Vec<i64> = vec![];
	let mut next_tid = 1i64;
	let mut cur = sr0;
	let gen_aop = |rng: &mut Rng, cur: &mut u32| {
		if rng.chance(2, 5) {
			let r = if rng.chance(1, 8) { *cur } else { gen_rate(rng, small) };
			*cur = r;
			AOp::Change(r)
		} else {
			AOp::Callback(rng.below(3 * ibs as u64 + 1) as usize)
		}
	};
	for _ in 0..len {
		if rng.chance(1, 2) && subs.len() < 12 {
			let spatial = rng.chance(1, 5);
			let dest = match rng.below(5) {
				0 => Dest::Send,
				1 | 2 if !subs.is_empty() => Dest::Under { pid: *rng.pick(&subs), spatial },
				_ => Dest::Sub { spatial },
			};
			let mut effs = gen_effects(rng, &mut next_id, cur);
			let mut inject = vec![];
			if rng.chance(1, 3) {
				if effs.is_empty() {
					effs.push(EShape::Probe(next_id));
					next_id += 1;
				}
				for _ in 0..1 + rng.below(3) {
					inject.push(gen_aop(rng, &mut cur));
				}
			}
			if dest != Dest::Send {
				subs.push(next_tid);
			}
			items.push(Item::Add { dest, tid: next_tid, effs, inject });
			next_tid += 1;
		} else {
			items.push(Item::A(gen_aop(rng, &mut cur)));
		}
	}
	// always end with two callbacks so that everything queued is picked up and processes
	items.push(Item::A(AOp::Callback(ibs + 1)));
	items.push(Item::A(AOp::Callback(1)));
	Hist { sr0, ibs, main, nids: next_id, items }
}


// ---------------------------------------------------------------------------------------------
// Part B: real effects
// ---------------------------------------------------------------------------------------------
/// buffer length of a real Delay, read off the echo position of an impulse (wet only), after `init(rates[0])`
/// and after each further `on_change_sample_rate(rates[i])`
fn delay_lengths(t_ns: u64, rates: &[u32]) -> Vec<i128> {
	const N: usize = 4096;
	let mut e = DelayBuilder::new().delay_time(Duration::from_nanos(t_ns)).feedback(Decibels::IDENTITY).mix(Mix::WET).build().0;
	let info = kira::info::MockInfoBuilder::new().build();
	let mut out = vec![];
	for (i, r) in rates.iter().enumerate() {
		if i == 0 {
			e.init(*r, N);
		} else {
			e.on_change_sample_rate(*r);
		}
		let mut buf = vec![Frame::ZERO; N];
		buf[0] = Frame::new(1.0, 1.0);
		e.process(&mut buf, 1.0 / *r as f64, &info);
		out.push(buf.iter().position(|f| f.left != 0.0).map(|k| k as i128).unwrap_or(-1));
	}
	out
}

fn noise_sound(rate: u32, n: usize, rng: &mut Rng) -> StaticSoundData {
	sound_from_frames(rate, (0..n).map(|_| Frame::new((rng.unit_f64() - 0.5) as f32, (rng.unit_f64() - 0.5) as f32)).collect())
}

#[derive(Clone, Copy, Debug, PartialEq)]
enum FxKind {
	Filter(FilterMode, f64),
	Delay(u64),
	/// attack, release in microseconds
	Compressor(u64, u64),
	Reverb,
	Eq(f64),
}
impl FxKind {
	fn name(&self) -> &'static str {
		match self {
			FxKind::Filter(..) => "filter",
			FxKind::Delay(_) => "delay",
			FxKind::Compressor(..) => "compressor",
			FxKind::Reverb => "reverb",
			FxKind::Eq(_) => "eq",
		}
	}
}
#[derive(Clone, Copy, Debug, PartialEq)]
enum Order {
	/// track in the arena, then change
	ArenaThenChange,
	/// add; change; (first callback afterwards)  -- the order of the former F14
	QueuedDuringChange,
	/// change, then add
	ChangeThenAdd,
}
/// a sub-track with one real effect lives through a change r1 -> r2; afterwards a sound is played on it.
/// The output must equal, bit for bit, that of a manager that ran at r2 from the start.
fn effect_across_change(s: &mut Session, rng: &mut Rng, fx: FxKind, order: Order, r1: u32, r2: u32) {
	let data = noise_sound(r2, 300, &mut rng.fork());
	let build = |b: TrackBuilder| match fx {
		FxKind::Filter(mode, cutoff) => b.with_effect(FilterBuilder::new().mode(mode).cutoff(cutoff).resonance(0.3)),
		FxKind::Delay(t) => b.with_effect(DelayBuilder::new().delay_time(Duration::from_nanos(t)).feedback(Decibels(-6.0)).mix(Mix(0.5))),
		FxKind::Compressor(a, r) => b.with_effect(
			CompressorBuilder::new().threshold(-30.0).ratio(4.0).attack_duration(Duration::from_micros(a)).release_duration(Duration::from_micros(r)),
		),
		FxKind::Reverb => b.with_effect(ReverbBuilder::new().feedback(0.8).damping(0.2).stereo_width(0.7).mix(Mix(0.6))),
		FxKind::Eq(f) => b.with_effect(kira::effect::eq_filter::EqFilterBuilder::new(kira::effect::eq_filter::EqFilterKind::Bell, f, Decibels(6.0), 0.7)),
	};
	// the reverb's first echo comes after 1116/44100 s: render 80 ms
	let ncb = if fx == FxKind::Reverb { (0.08 * r2 as f64 / 100.0) as usize + 1 } else { 6 };
	let render = |changed: bool| -> Vec<u32> {
		let mut m = crate::backend::simple_manager(if changed { r1 } else { r2 }, 32);
		let mut tr = None;
		if changed {
			match order {
				Order::ArenaThenChange => {
					tr = Some(m.add_sub_track(build(TrackBuilder::new())).unwrap());
					m.backend_mut().callback(50, 2);
					m.backend_mut().set_sample_rate(r2);
				}
				Order::QueuedDuringChange => {
					tr = Some(m.add_sub_track(build(TrackBuilder::new())).unwrap());
					m.backend_mut().set_sample_rate(r2);
				}
				Order::ChangeThenAdd => {
					m.backend_mut().callback(50, 2);
					m.backend_mut().set_sample_rate(r2);
				}
			}
		}
		let mut tr = match tr {
			Some(t) => t,
			None => m.add_sub_track(build(TrackBuilder::new())).unwrap(),
		};
		m.backend_mut().callback(40, 2);
		let _h = tr.play(data.clone()).unwrap();
		let mut out = vec![];
		for _ in 0..ncb {
			out.extend(m.backend_mut().callback(100, 2).iter().map(|x| x.to_bits()));
		}
		out
	};
	let a = render(true);
	let b = render(false);
	s.eval_only(&format!("effect_across_change_{}", fx.name()));
	if a.iter().all(|x| f32::from_bits(*x) == 0.0) {
		s.fail(format!("{fx:?} {order:?} {r1}->{r2}"), "scene is silent (harness problem)".into(), None);
	}
	if a != b {
		let k = a.iter().zip(&b).position(|(x, y)| x != y).unwrap();
		let desc = format!("sub-track with {fx:?}, order {order:?}, device rate {r1} -> {r2} Hz, then a sound is played on the track");
		let what = format!(
			"output differs from a manager that ran at {r2} Hz from the start (first at sample {k}: {:e} vs {:e}): the effect does not process with the rate in force",
			f32::from_bits(a[k]),
			f32::from_bits(b[k])
		);
		s.fail(desc, what, None);
	}
}

/// filter_coeff_depends_on_ratio on the real Filter / EqFilter: (f, sr) and (2f, 2sr) have the same ratio and
/// doubling is exact in binary floating point, so the outputs on the same samples must be equal bit for bit
fn filter_ratio_check(s: &mut Session, rng: &mut Rng, sr: u32, f: f64) {
	use kira::effect::eq_filter::{EqFilterBuilder, EqFilterKind};
	let info = kira::info::MockInfoBuilder::new().build();
	let input: Vec<Frame> = (0..256).map(|_| Frame::new((rng.unit_f64() - 0.5) as f32, (rng.unit_f64() - 0.5) as f32)).collect();
	let mut builders: Vec<(String, Box<dyn Fn(f64) -> Box<dyn Effect>>)> = vec![];
	for mode in [FilterMode::LowPass, FilterMode::BandPass, FilterMode::HighPass, FilterMode::Notch] {
		builders.push((format!("Filter {mode:?}"), Box::new(move |c| FilterBuilder::new().mode(mode).cutoff(c).resonance(0.4).build().0)));
	}
	for kind in [EqFilterKind::Bell, EqFilterKind::LowShelf, EqFilterKind::HighShelf] {
		builders.push((format!("EqFilter {kind:?}"), Box::new(move |c| EqFilterBuilder::new(kind, c, Decibels(6.0), 0.7).build().0)));
	}
	for (name, b) in &builders {
		let run = |cut: f64, dt: f64| -> Vec<u32> {
			let mut e = b(cut);
			e.init(1, 256);
			let mut buf = input.clone();
			e.process(&mut buf, dt, &info);
			buf.iter().flat_map(|x| [x.left.to_bits(), x.right.to_bits()]).collect()
		};
		let dt = 1.0 / sr as f64;
		let a = run(f, dt);
		let b2 = run(2.0 * f, dt / 2.0);
		let c4 = run(f / 4.0, dt * 4.0);
		s.eval_only("filter_same_ratio");
		let lo = run(f * 0.5, dt);
		if a != b2 || a != c4 {
			s.fail(format!("{name} cutoff {f} Hz at {sr} Hz vs cutoff {} Hz at {} Hz / {} Hz at {} Hz", 2.0 * f, 2 * sr, f / 4.0, sr as f64 / 4.0), "same cutoff/rate ratio but different output: the coefficient does not depend on f/sr alone".into(), None);
		}
		if f / (sr as f64) < 0.4 && f / (sr as f64) > 0.001 && a == lo {
			s.fail(format!("{name} at {sr} Hz"), format!("the effect was told init(1 Hz) and is driven with dt = 1/{sr}: cutoff {f} Hz and {} Hz give identical output -- the coefficient does not follow cutoff * dt (or the harness is not sensitive)", f * 0.5), None);
		}
	}
}

// ---------------------------------------------------------------------------------------------
// Part C: the same scene at many device rates and across mid-stream changes, measured in seconds
// ---------------------------------------------------------------------------------------------
struct SceneResult {
	/// seconds from the first to the last audible output frame of the index-coded sound
	span: f64,
	/// seconds at which the sound handle first reported Stopped (end of that callback)
	stopped_at: f64,
	/// (clock ticks + fraction as the handle shows them, seconds rendered up to the moment the clock last published)
	clock: (f64, f64),
	/// seconds at which the tweened DC sound reached its final value, final value
	tween_done: f64,
	total: f64,
}
/// segments: (device rate, number of callbacks, frames per callback)
fn run_scene(segs: &[(u32, usize, usize)], ibs: usize, sound_rate: u32, n: usize, rho: f64, tps: f64, tween_s: f64) -> SceneResult {
	// scene 1: index-coded sound + clock
	let mut m = crate::backend::simple_manager(segs[0].0, ibs);
	let mut clock = m.add_clock(ClockSpeed::TicksPerSecond(tps)).unwrap();
	clock.start();
	let data = indexed_sound(sound_rate, n).playback_rate(rho);
	let h = m.play(data).unwrap();
	let mut t = 0.0f64;
	let mut first: Option<f64> = None;
	let mut last = 0.0f64;
	let mut stopped_at = f64::NAN;
	let mut t_published = 0.0f64;
	for (i, (sr, ncb, fpc)) in segs.iter().enumerate() {
		if i > 0 {
			m.backend_mut().set_sample_rate(*sr);
		}
		for _ in 0..*ncb {
			// the clock publishes its time to the handle in on_start_processing, i.e. as of the start of this callback
			t_published = t;
			let out = m.backend_mut().callback(*fpc, 2);
			for k in 0..*fpc {
				if out[2 * k] != 0.0 {
					if first.is_none() {
						first = Some(t);
					}
					last = t + 1.0 / *sr as f64;
				}
				t += 1.0 / *sr as f64;
			}
			if stopped_at.is_nan() && h.state() == PlaybackState::Stopped {
				stopped_at = t;
			}
		}
	}
	let ct = clock.time();
	let clock_val = ct.ticks as f64 + ct.fraction;
	let total = t;
	drop(m);
	// scene 2: DC sound whose volume is tweened from 0 dB to -12 dB
	let mut m = crate::backend::simple_manager(segs[0].0, ibs);
	let dc = sound_from_frames(sound_rate, vec![Frame::new(0.5, 0.5); (sound_rate as f64 * (total + 1.0)) as usize + 16]);
	let mut h = m.play(dc).unwrap();
	h.set_volume(Decibels(-12.0), Tween { start_time: StartTime::Immediate, duration: Duration::from_secs_f64(tween_s), easing: Easing::Linear });
	let mut t = 0.0f64;
	let mut samples: Vec<(f64, f32)> = vec![];
	for (i, (sr, ncb, fpc)) in segs.iter().enumerate() {
		if i > 0 {
			m.backend_mut().set_sample_rate(*sr);
		}
		for _ in 0..*ncb {
			let out = m.backend_mut().callback(*fpc, 2);
			for k in 0..*fpc {
				t += 1.0 / *sr as f64;
				samples.push((t, out[2 * k]));
			}
		}
	}
	let fin = samples.last().unwrap().1;
	// first time from which on the output stays at its final value
	let mut done = f64::NAN;
	for (tt, v) in samples.iter().rev() {
		if *v != fin {
			break;
		}
		done = *tt;
	}
	SceneResult { span: last - first.unwrap_or(0.0), stopped_at, clock: (clock_val, t_published), tween_done: done, total }
}

fn check_scene(s: &mut Session, kind: &str, segs: &[(u32, usize, usize)], ibs: usize, sound_rate: u32, n: usize, rho: f64, tps: f64, tween_s: f64) {
	let r = run_scene(segs, ibs, sound_rate, n, rho, tps, tween_s);
	s.eval_only(kind);
	let desc = format!("scene: {n}-frame index-coded sound at {sound_rate} Hz, playback rate {rho}, clock {tps} ticks/s, volume tween {tween_s} s; device (rate, callbacks, frames per callback) = {segs:?}, internal buffer {ibs}");
	let min_sr = segs.iter().map(|x| x.0).min().unwrap() as f64;
	let max_cb = segs.iter().map(|x| x.2 as f64 / x.0 as f64).fold(0.0, f64::max);
	let max_chunk = segs.iter().map(|x| ibs.min(x.2) as f64 / x.0 as f64).fold(0.0, f64::max);
	let want = n as f64 / (sound_rate as f64 * rho);
	let src = 1.0 / (sound_rate as f64 * rho);
	// MONITOR duration: the audible span is N/(s*rho) seconds (the 4-point interpolator adds up to 3 source frames)
	if (r.span - want).abs() > 4.0 * src + 2.0 / min_sr {
		s.fail(desc.clone(), format!("sound audible for {:.6} s, N/(s*rho) = {:.6} s", r.span, want), None);
	}
	// MONITOR: Stopped is reported within one callback (+ interpolator tail) of N/(s*rho)
	if !(r.stopped_at >= want - 1e-9 && r.stopped_at <= want + 5.0 * src + max_cb + 2.0 / min_sr) {
		s.fail(desc.clone(), format!("sound reported Stopped at {:.6} s, N/(s*rho) = {:.6} s (callback {:.6} s)", r.stopped_at, want, max_cb), None);
	}
	// MONITOR clock: ticks after t seconds = tps * t to one frame
	if (r.clock.0 - tps * r.clock.1).abs() > tps / min_sr + 1e-6 * tps * r.clock.1.max(1.0) {
		s.fail(desc.clone(), format!("clock shows {:.6} ticks after {:.6} s at {tps} ticks/s (expected {:.6})", r.clock.0, r.clock.1, tps * r.clock.1), None);
	}
	// MONITOR tween: completes at its duration, to one internal chunk
	if !(r.tween_done >= tween_s - 1e-9 && r.tween_done <= tween_s + max_chunk + 2.0 / min_sr) {
		s.fail(desc.clone(), format!("volume tween of {tween_s} s reached its target at {:.6} s (internal chunk {:.6} s)", r.tween_done, max_chunk), None);
	}
}


// ---------------------------------------------------------------------------------------------
// Part D: Reverb line lengths and Compressor time constants, in seconds
// ---------------------------------------------------------------------------------------------
/// positions of the first three non-zero frames on the left and on the right channel (-1: fewer than three)
fn first_taps(out: &[Frame]) -> Vec<i128> {
	let mut v = vec![];
	for right in [false, true] {
		let mut k = 0;
		for (i, f) in out.iter().enumerate() {
			if (if right { f.right } else { f.left }) != 0.0 {
				v.push(i as i128);
				k += 1;
				if k == 3 {
					break;
				}
			}
		}
		for _ in k..3 {
			v.push(-1);
		}
	}
	v
}
/// the tunings (frames at 44.1 kHz) of the lines whose echoes `first_taps` sees: left 1116 1188 1277, right the same + 23
const TAP_TUNINGS: [u32; 6] = [1116, 1188, 1277, 1116 + 23, 1188 + 23, 1277 + 23];
/// frames to render at `sr` so that the three first echoes of either side are in
fn taps_window(sr: u32) -> usize {
	(1320.0 * sr as f64 / 44100.0) as usize + 8
}
/// MONITOR (reverb_time_error, closed at the lower end because the binary64 product may come out one frame short --
/// reverb_line_f64_one_frame_short): every echo comes after tuning/44100 seconds, at most one frame early, never late
fn check_taps(s: &mut Session, desc: &str, sr: u32, taps: &[i128]) {
	for (k, (tap, tuning)) in taps.iter().zip(TAP_TUNINGS).enumerate() {
		let side = if k < 3 { "left" } else { "right" };
		let t_want = tuning as f64 / 44100.0;
		if *tap < 0 {
			s.fail(desc.to_string(), format!("{side} echo {} of an impulse never came within {:.3} ms at {sr} Hz", k % 3 + 1, taps_window(sr) as f64 * 1e3 / sr as f64), None);
			continue;
		}
		// in frames, exactly: tuning * sr / 44100 - 1 <= tap <= tuning * sr / 44100   (tap >= 1 always)
		let num = tuning as i128 * sr as i128;
		let ok = (*tap * 44100 <= num && (*tap + 1) * 44100 >= num) || (*tap == 1 && num < 44100);
		if !ok {
			s.fail(
				desc.to_string(),
				format!(
					"{side} channel: echo {} of an impulse comes after {} frames = {:.4} ms at {sr} Hz; the line is tuned to {tuning} frames at 44.1 kHz = {:.4} ms (one frame = {:.4} ms): the delay does not keep its value in seconds",
					k % 3 + 1,
					tap,
					*tap as f64 * 1e3 / sr as f64,
					t_want * 1e3,
					1e3 / sr as f64
				),
				None,
			);
		}
	}
}
/// a real Reverb driven directly: `init(rates[0])`, then `on_change_sample_rate(rates[i])`; an impulse after each
fn reverb_taps_direct(rates: &[u32], feedback: f64, damping: f64) -> Vec<i128> {
	let info = kira::info::MockInfoBuilder::new().build();
	let mut e = ReverbBuilder::new().feedback(feedback).damping(damping).stereo_width(1.0).mix(Mix::WET).build().0;
	let mut out = vec![];
	for (i, r) in rates.iter().enumerate() {
		if i == 0 {
			e.init(*r, 64);
		} else {
			e.on_change_sample_rate(*r);
		}
		let n = taps_window(*r);
		let mut buf = vec![Frame::ZERO; n];
		buf[0] = Frame::new(1.0, 0.5);
		// in pieces, as a track would hand them over
		for c in buf.chunks_mut(64) {
			e.process(c, 1.0 / *r as f64, &info);
		}
		out.extend(first_taps(&buf));
	}
	out
}

/// a signal source at the head of a track's effect chain that the harness switches from outside: exact timing, no resampler
#[derive(Clone)]
struct SourceCtl {
	level: Arc<AtomicU32>,
	impulse: Arc<AtomicBool>,
}
impl SourceCtl {
	fn new() -> Self {
		SourceCtl { level: Arc::new(AtomicU32::new(0f32.to_bits())), impulse: Arc::new(AtomicBool::new(false)) }
	}
	fn set_level(&self, l: f32) {
		self.level.store(l.to_bits(), Ordering::SeqCst);
	}
}
struct Source(SourceCtl);
impl Effect for Source {
	fn process(&mut self, input: &mut [Frame], _dt: f64, _info: &Info) {
		if self.0.impulse.swap(false, Ordering::SeqCst) {
			if let Some(f) = input.first_mut() {
				*f = Frame::new(f.left + 1.0, f.right + 0.5);
			}
		}
		let l = f32::from_bits(self.0.level.load(Ordering::SeqCst));
		if l != 0.0 {
			for f in input.iter_mut() {
				*f = Frame::new(f.left + l, f.right + l);
			}
		}
	}
}
struct SourceBuilder(SourceCtl);
impl EffectBuilder for SourceBuilder {
	type Handle = ();
	fn build(self) -> (Box<dyn Effect>, ()) {
		(Box::new(Source(self.0)), ())
	}
}

/// what the effect instance lives through before the measurement
#[derive(Clone, Debug, PartialEq)]
enum Pre {
	Cb(usize),
	Change(u32),
	/// compressor only, after the add: handle.set_attack_duration / set_release_duration (microseconds), no tween time
	SetAttack(u64),
	SetRelease(u64),
	/// EQ band only (Part E), after the add: handle.set_frequency (hertz), no tween time
	SetEqFrequency(f64),
}
#[derive(Clone, Debug)]
struct FxHist {
	sr0: u32,
	ibs: usize,
	/// callback size used for the measurement
	fpc: usize,
	before_add: Vec<Pre>,
	after_add: Vec<Pre>,
}
impl FxHist {
	fn final_rate(&self) -> u32 {
		let mut r = self.sr0;
		for p in self.before_add.iter().chain(&self.after_add) {
			if let Pre::Change(x) = p {
				r = *x;
			}
		}
		r
	}
	fn describe(&self, what: &str) -> String {
		format!(
			"device starts at {} Hz (internal buffer {}); audio thread {:?}; add_sub_track with {what}; then {:?}; then the measurement at {} Hz in callbacks of {} frames",
			self.sr0,
			self.ibs,
			self.before_add,
			self.after_add,
			self.final_rate(),
			self.fpc
		)
	}
}
fn now_tween() -> Tween {
	Tween { start_time: StartTime::Immediate, duration: Duration::ZERO, easing: Easing::Linear }
}
fn gen_fx_hist(rng: &mut Rng, compressor: bool) -> FxHist {
	let sr0 = gen_rate(rng, false);
	let ibs = *rng.pick(&[16usize, 32, 128, 37]);
	let fpc = *rng.pick(&[64usize, 100, 256, 37]);
	let mut before_add = vec![];
	let mut after_add = vec![];
	let gen = |rng: &mut Rng, after: bool| match rng.below(if after && compressor { 8 } else { 6 }) {
		0 | 1 | 2 => Pre::Cb(rng.below(3 * fpc as u64) as usize),
		3 | 4 | 5 => Pre::Change(gen_rate(rng, false)),
		6 => Pre::SetAttack(500 + rng.below(10_000)),
		_ => Pre::SetRelease(500 + rng.below(10_000)),
	};
	for _ in 0..rng.below(3) {
		before_add.push(gen(rng, false));
	}
	for _ in 0..rng.below(6) {
		after_add.push(gen(rng, true));
	}
	FxHist { sr0, ibs, fpc, before_add, after_add }
}

/// (attack, release) time constants in seconds measured on a real Compressor on a sub-track that lived through `h`;
/// Err: the output was not an exponential approach
fn compressor_time_constants(h: &FxHist, attack_us: u64, release_us: u64) -> (Result<f64, String>, Result<f64, String>, u64, u64) {
	let ctl = SourceCtl::new();
	let mut m = crate::backend::simple_manager(h.sr0, h.ibs);
	let mut sr = h.sr0;
	let do_pre = |m: &mut crate::backend::Mgr, p: &Pre, sr: &mut u32| match p {
		Pre::Cb(n) => {
			m.backend_mut().callback(*n, 2);
		}
		Pre::Change(r) => {
			m.backend_mut().set_sample_rate(*r);
			*sr = *r;
		}
		_ => {}
	};
	for p in &h.before_add {
		do_pre(&mut m, p, &mut sr);
	}
	let mut b = TrackBuilder::new();
	b.add_effect(SourceBuilder(ctl.clone()));
	let mut ch = b.add_effect(
		CompressorBuilder::new().threshold(-24.0).ratio(4.0).attack_duration(Duration::from_micros(attack_us)).release_duration(Duration::from_micros(release_us)),
	);
	let _track = m.add_sub_track(b).unwrap();
	let (mut a_us, mut r_us) = (attack_us, release_us);
	for p in &h.after_add {
		match p {
			Pre::SetAttack(us) => {
				ch.set_attack_duration(Duration::from_micros(*us), now_tween());
				a_us = *us;
			}
			Pre::SetRelease(us) => {
				ch.set_release_duration(Duration::from_micros(*us), now_tween());
				r_us = *us;
			}
			p => do_pre(&mut m, p, &mut sr),
		}
	}
	// silence: the track is picked up, pending commands are read and their (zero-length) tweens finish
	for _ in 0..2 {
		m.backend_mut().callback(h.fpc, 2);
	}
	let mut phase = |level: f32, secs: f64| -> Vec<f32> {
		ctl.set_level(level);
		let want = (secs * sr as f64) as usize + 8;
		let mut out: Vec<f32> = vec![];
		while out.len() < want {
			let o = m.backend_mut().callback(h.fpc, 2);
			out.extend(o.chunks(2).map(|c| c[0]));
		}
		out
	};
	// a step to full scale (24 dB over the threshold) for 3 attack times, then down to -40 dB (below the threshold)
	let up = phase(1.0, 3.0 * a_us as f64 * 1e-6);
	let down = phase(0.01, 1.5 * r_us as f64 * 1e-6);
	// with a constant input ln(out[n]) = y_inf + C * s^n: three equally spaced frames give s without knowing y_inf or C
	let tc = |y: &[f32], nominal_us: u64| -> Result<f64, String> {
		let tau = nominal_us as f64 * 1e-6 * sr as f64; // frames
		let n1 = ((0.2 * tau) as usize).max(1);
		let d = ((0.5 * tau) as usize).max(2);
		let l = |n: usize| (y[n] as f64).ln();
		let (y1, y2, y3) = (l(n1), l(n1 + d), l(n1 + 2 * d));
		let q = (y1 - y2) / (y2 - y3);
		if !(q.is_finite() && q > 1.0) {
			return Err(format!("output at frames {n1}, {}, {} after the step: {:e}, {:e}, {:e} -- no exponential approach with a time constant near the configured one (settled far too early, or not moving)", n1 + d, n1 + 2 * d, y[n1], y[n1 + d], y[n1 + 2 * d]));
		}
		Ok(d as f64 / q.ln() / sr as f64)
	};
	(tc(&up, a_us), tc(&down, r_us), a_us, r_us)
}
fn check_compressor(s: &mut Session, kind: &str, h: &FxHist, attack_us: u64, release_us: u64) {
	let (ta, tr, a_us, r_us) = compressor_time_constants(h, attack_us, release_us);
	s.eval_only(kind);
	let desc = h.describe(&format!("Compressor(threshold -24 dB, ratio 4, attack {attack_us} us, release {release_us} us)"));
	// MONITOR compressor_envelope_in_seconds: the measured time constant is the configured duration (2 %: the
	// coefficient is rounded to binary32, which moves 1 - coefficient by up to 0.1 % at 192 kHz)
	for (name, got, want_us) in [("attack", ta, a_us), ("release", tr, r_us)] {
		let want = want_us as f64 * 1e-6;
		match got {
			Ok(t) if (t - want).abs() <= 0.02 * want => {}
			Ok(t) => s.fail(
				desc.clone(),
				format!("the compressor's {name} duration is {want:.6} s but its gain approaches the target with a time constant of {t:.6} s (factor {:.4}) at {} Hz: the duration does not mean seconds after this history", t / want, h.final_rate()),
				None,
			),
			Err(e) => s.fail(desc.clone(), format!("the compressor's {name} duration is {want:.6} s; {e}"), None),
		}
	}
}

/// echo positions of a real Reverb (fully wet, stereo width 1) on a sub-track that lived through `h`, at the final rate
fn reverb_taps_scene(h: &FxHist) -> Vec<i128> {
	let ctl = SourceCtl::new();
	let mut m = crate::backend::simple_manager(h.sr0, h.ibs);
	let mut sr = h.sr0;
	let mut track = None;
	for (i, p) in h.before_add.iter().map(|p| (0, p)).chain([(1, &Pre::Cb(0))]).chain(h.after_add.iter().map(|p| (2, p))) {
		if i == 1 {
			let mut b = TrackBuilder::new();
			b.add_effect(SourceBuilder(ctl.clone()));
			b.add_effect(ReverbBuilder::new().stereo_width(1.0).mix(Mix::WET));
			track = Some(m.add_sub_track(b).unwrap());
			continue;
		}
		match p {
			Pre::Cb(n) => {
				m.backend_mut().callback(*n, 2);
			}
			Pre::Change(r) => {
				m.backend_mut().set_sample_rate(*r);
				sr = *r;
			}
			_ => {}
		}
	}
	m.backend_mut().callback(h.fpc, 2);
	ctl.impulse.store(true, Ordering::SeqCst);
	let want = taps_window(sr);
	let mut out: Vec<Frame> = vec![];
	while out.len() < want {
		out.extend(m.backend_mut().callback_stereo(h.fpc));
	}
	drop(track);
	first_taps(&out)
}
fn check_reverb_scene(s: &mut Session, kind: &str, h: &FxHist) {
	let taps = reverb_taps_scene(h);
	let sr = h.final_rate();
	s.case(kind, format!("CReverb [{}]", sr), &taps, Some(format!("rv{:?}", h)));
	check_taps(s, &h.describe("Reverb(fully wet, stereo width 1) behind an impulse source"), sr, &taps);
}

fn part_d(s: &mut Session, rng: &mut Rng, args: &Args) {
	// ---- reverb, driven directly: every usual rate from the start, and sequences of changes
	for r in RATES.iter().chain([88200u32, 32000, 15435].iter()) {
		let obs = reverb_taps_direct(&[*r], 0.9, 0.1);
		s.case("reverb_taps", format!("CReverb [{}]", r), &obs, Some(format!("rvd{r}")));
		check_taps(s, &format!("Reverb(fully wet, stereo width 1).init({r}); impulse"), *r, &obs);
	}
	let nr: u64 = (if args.thorough { 400 } else { 30 }) * args.budget_mul;
	for _ in 0..nr {
		let rates: Vec<u32> = (0..1 + rng.below(3)).map(|_| gen_rate(rng, false)).collect();
		let (fb, damp) = (rng.unit_f64() * 0.95, rng.unit_f64());
		let obs = reverb_taps_direct(&rates, fb, damp);
		s.case("reverb_taps", format!("CReverb [{}]", rates.iter().map(|r| r.to_string()).collect::<Vec<_>>().join("; ")), &obs, Some(format!("rvd{rates:?}")));
		for (i, r) in rates.iter().enumerate() {
			check_taps(s, &format!("Reverb(feedback {fb}, damping {damp}, fully wet, stereo width 1): init / on_change_sample_rate through the rates {rates:?}; impulse after step {i}"), *r, &obs[6 * i..6 * i + 6]);
		}
	}
	// ---- reverb and compressor on a sub-track of a real manager
	let fixed = |sr0: u32, before_add: Vec<Pre>, after_add: Vec<Pre>| FxHist { sr0, ibs: 32, fpc: 100, before_add, after_add };
	let orders = |r1: u32, r2: u32| {
		vec![
			fixed(r2, vec![], vec![]),
			fixed(r1, vec![], vec![Pre::Cb(100), Pre::Cb(100), Pre::Change(r2), Pre::Cb(100)]), // in the arena, processed, then the change
			fixed(r1, vec![], vec![Pre::Change(r2)]),                                          // queued during the change
			fixed(r1, vec![Pre::Cb(100), Pre::Change(r2)], vec![]),                           // change, then add
			fixed(r1, vec![], vec![Pre::Cb(100), Pre::Change(r2), Pre::Change(r1), Pre::Cb(50), Pre::Change(r2)]),
		]
	};
	let pairs: &[(u32, u32)] = if args.thorough { &[(44100, 48000), (48000, 44100), (8000, 192000), (96000, 11025), (22050, 44100), (48000, 96000)] } else { &[(44100, 48000), (96000, 22050), (48000, 96000)] };
	for (r1, r2) in pairs {
		for h in orders(*r1, *r2) {
			check_reverb_scene(s, "reverb_scene_orders", &h);
			check_compressor(s, "compressor_orders", &h, 5_000, 8_000);
		}
	}
	// the numbers of the report that made us add this: 50 ms, device at 1000 Hz for five callbacks, then 4000 Hz
	check_compressor(
		s,
		"compressor_orders",
		&FxHist { sr0: 1000, ibs: 100, fpc: 100, before_add: vec![], after_add: vec![Pre::Cb(100), Pre::Cb(100), Pre::Cb(100), Pre::Cb(100), Pre::Cb(100), Pre::Change(4000), Pre::Cb(100)] },
		50_000,
		50_000,
	);
	// a duration set through the handle BEFORE the change must mean seconds after it as well
	check_compressor(s, "compressor_orders", &fixed(44100, vec![], vec![Pre::Cb(100), Pre::SetAttack(3_000), Pre::SetRelease(6_000), Pre::Cb(100), Pre::Cb(100), Pre::Change(96000)]), 10_000, 10_000);
	let nc: u64 = (if args.thorough { 600 } else { 60 }) * args.budget_mul;
	for i in 0..nc {
		let h = gen_fx_hist(rng, true);
		check_compressor(s, "compressor_random", &h, 1_000 + rng.below(15_000), 1_000 + rng.below(15_000));
		if i % 2 == 0 {
			let h = gen_fx_hist(rng, false);
			check_reverb_scene(s, "reverb_scene_random", &h);
		}
	}
	s.notes.push("Part D: Reverb echo positions (3 per side) after init / on_change_sample_rate sequences and on sub-tracks that lived through add / callback / change orders; Compressor attack and release time constants measured in seconds after the same kinds of history incl. set_attack_duration / set_release_duration before a change".to_string());
}

// ---------------------------------------------------------------------------------------------
// Part E: EQ bands sit at their frequency in HERTZ, with their gain, at every device rate and across changes
// ---------------------------------------------------------------------------------------------
// The other filter checks compare a run across a change with a run at the final rate (equal whenever the effect uses
// the rate in force, whatever it computes from it) and (f, sr) with (2f, 2sr) (equal whenever the coefficient depends
// on f/sr alone).  Neither looks at WHERE in hertz the band ends up.  Here the response of the real EqFilter is
// measured with sines: the gain at the band's own frequency is the configured gain (bell) / half of it in decibels
// (shelves: the band frequency is the midpoint of the shelf) -- the bilinear transform with exact prewarping maps the
// band frequency onto itself at every rate -- and a bell's extremum lies at its frequency, not beside it.
use kira::effect::eq_filter::{EqFilterBuilder, EqFilterKind};
use std::sync::atomic::AtomicU64;

/// amplitude of the component at `w` radians per frame in y[n], n = n0.. (least squares on sin / cos: exact for a pure sine)
fn fit_amp(y: &[f64], w: f64, n0: usize) -> f64 {
	let (mut ss, mut sc, mut cc, mut ys, mut yc) = (0.0f64, 0.0f64, 0.0f64, 0.0f64, 0.0f64);
	for (i, v) in y.iter().enumerate() {
		let (sn, cs) = (w * (n0 + i) as f64).sin_cos();
		ss += sn * sn;
		sc += sn * cs;
		cc += cs * cs;
		ys += v * sn;
		yc += v * cs;
	}
	let det = ss * cc - sc * sc;
	let a = (ys * cc - yc * sc) / det;
	let b = (yc * ss - ys * sc) / det;
	a.hypot(b)
}
#[derive(Clone, Copy, Debug, PartialEq)]
struct Band {
	kind: EqFilterKind,
	f0: f64,
	gain_db: f64,
	q: f64,
}
impl Band {
	fn build(&self) -> EqFilterBuilder {
		EqFilterBuilder::new(self.kind, self.f0, Decibels(self.gain_db as f32), self.q)
	}
	/// the gain in decibels that the band has AT its frequency
	fn gain_at_f0(&self) -> f64 {
		match self.kind {
			EqFilterKind::Bell => self.gain_db,
			_ => self.gain_db / 2.0,
		}
	}
	/// frames after which the transient of a change of the input has died away (16 time constants of the digital poles)
	fn settle(&self, f0: f64, sr: u32) -> usize {
		let a = 10f64.powf(self.gain_db.abs() / 20.0);
		let r = (f0 / sr as f64).clamp(0.0001, 0.49);
		(32.0 * self.q.max(1.0) * a / (std::f64::consts::TAU * r).sin()) as usize + 256
	}
	fn window(&self, f: f64, sr: u32) -> usize {
		((60.0 * sr as f64 / f) as usize).max(768)
	}
	/// the frequencies probed: the band's own and, for a bell, 4 % to either side
	fn tests(&self) -> Vec<f64> {
		match self.kind {
			EqFilterKind::Bell => vec![self.f0, self.f0 * 0.96, self.f0 * 1.04],
			_ => vec![self.f0],
		}
	}
}
/// gain in decibels of `proc` for a sine of `f` Hz at `sr` Hz
fn sine_gain(proc_: &mut dyn FnMut(&mut [Frame]), sr: u32, f: f64, settle: usize, window: usize, chunk: usize) -> f64 {
	let w = std::f64::consts::TAU * f / sr as f64;
	let n = settle + window;
	let mut inp: Vec<Frame> = (0..n).map(|i| Frame::from_mono((0.125 * (w * i as f64).sin()) as f32)).collect();
	let x: Vec<f64> = inp[settle..].iter().map(|v| v.left as f64).collect();
	for c in inp.chunks_mut(chunk.max(1)) {
		proc_(c);
	}
	let y: Vec<f64> = inp[settle..].iter().map(|v| v.left as f64).collect();
	20.0 * (fit_amp(&y, w, settle) / fit_amp(&x, w, settle)).log10()
}
/// the real EqFilter driven directly: `init(rates[0])`, then `on_change_sample_rate(rates[i])`; after each step the gain
/// at every probed frequency, with the dt of that rate.  The same instance lives through all of it.
fn eq_gains_direct(band: &Band, rates: &[u32]) -> Vec<Vec<f64>> {
	let info = kira::info::MockInfoBuilder::new().build();
	let mut e = band.build().build().0;
	let mut out = vec![];
	for (i, r) in rates.iter().enumerate() {
		if i == 0 {
			e.init(*r, 64);
		} else {
			e.on_change_sample_rate(*r);
		}
		let dt = 1.0 / *r as f64;
		let mut row = vec![];
		for f in band.tests() {
			row.push(sine_gain(&mut |c: &mut [Frame]| e.process(c, dt, &info), *r, f, band.settle(band.f0, *r), band.window(f, *r), 64));
		}
		out.push(row);
	}
	out
}
/// a sine source at the head of a track's effect chain (no resampler in the way); its frequency is set from outside
/// and its phase advances by 2 pi f dt per frame with the dt the track hands it
struct SineSource {
	freq: Arc<AtomicU64>,
	phase: f64,
}
impl Effect for SineSource {
	fn process(&mut self, input: &mut [Frame], dt: f64, _info: &Info) {
		let f = f64::from_bits(self.freq.load(Ordering::SeqCst));
		for fr in input.iter_mut() {
			let v = (0.125 * self.phase.sin()) as f32;
			*fr = Frame::new(fr.left + v, fr.right + v);
			self.phase += std::f64::consts::TAU * f * dt;
		}
	}
}
struct SineSourceBuilder(Arc<AtomicU64>);
impl EffectBuilder for SineSourceBuilder {
	type Handle = ();
	fn build(self) -> (Box<dyn Effect>, ()) {
		(Box::new(SineSource { freq: self.0, phase: 0.0 }), ())
	}
}
/// the band on a sub-track of a real manager that lived through `h` (callbacks, device rate changes before / after
/// the add, frequency set through the handle), measured at the final rate.  Returns (band as finally configured, gains).
fn eq_gains_scene(h: &FxHist, band0: &Band) -> (Band, Vec<f64>) {
	let freq = Arc::new(AtomicU64::new(0f64.to_bits()));
	let mut m = crate::backend::simple_manager(h.sr0, h.ibs);
	let mut sr = h.sr0;
	let mut band = *band0;
	let do_pre = |m: &mut crate::backend::Mgr, p: &Pre, sr: &mut u32| match p {
		Pre::Cb(n) => {
			m.backend_mut().callback(*n, 2);
		}
		Pre::Change(r) => {
			m.backend_mut().set_sample_rate(*r);
			*sr = *r;
		}
		_ => {}
	};
	for p in &h.before_add {
		do_pre(&mut m, p, &mut sr);
	}
	let mut b = TrackBuilder::new();
	b.add_effect(SineSourceBuilder(freq.clone()));
	let mut eh = b.add_effect(band.build());
	let _track = m.add_sub_track(b).unwrap();
	for p in &h.after_add {
		match p {
			Pre::SetEqFrequency(f) => {
				eh.set_frequency(*f, now_tween());
				band.f0 = *f;
			}
			p => do_pre(&mut m, p, &mut sr),
		}
	}
	for _ in 0..2 {
		m.backend_mut().callback(h.fpc, 2);
	}
	let mut gains = vec![];
	for f in band.tests() {
		freq.store(f.to_bits(), Ordering::SeqCst);
		let (settle, window) = (band.settle(band.f0, sr), band.window(f, sr));
		let mut out: Vec<f64> = vec![];
		while out.len() < settle + window {
			out.extend(m.backend_mut().callback(h.fpc, 2).chunks(2).map(|c| c[0] as f64));
		}
		// the source is a sine of amplitude 0.125 whatever its phase
		let w = std::f64::consts::TAU * f / sr as f64;
		gains.push(20.0 * (fit_amp(&out[settle..settle + window], w, settle) / 0.125).log10());
	}
	(band, gains)
}
/// MONITOR eq_band_in_hertz ("filter frequencies keep their values" at every rate and across changes):
/// the gain at the band frequency is the band's gain there, to 0.1 dB; a bell's extremum is at its frequency
fn check_band(s: &mut Session, desc: &str, band: &Band, sr: u32, gains: &[f64]) {
	let want = band.gain_at_f0();
	let g0 = gains[0];
	if !((g0 - want).abs() <= 0.1) {
		s.fail(
			desc.to_string(),
			format!(
				"at a device rate of {sr} Hz a sine of {} Hz (the band's frequency, {:.4} of the rate) comes out of {:?} with {:+.3} dB; the band's gain at its own frequency is {:+.3} dB at every rate: the band does not sit at {} Hz at this rate",
				band.f0,
				band.f0 / sr as f64,
				band,
				g0,
				want,
				band.f0
			),
			None,
		);
		return;
	}
	if band.kind == EqFilterKind::Bell && gains.len() == 3 {
		for (k, side) in [(1usize, "below"), (2, "above")] {
			// boost: no neighbour louder than the centre; cut: none quieter
			let beyond = if band.gain_db >= 0.0 { gains[k] - g0 } else { g0 - gains[k] };
			if !(beyond <= 0.02) {
				s.fail(
					desc.to_string(),
					format!(
						"at {sr} Hz the bell {:?} acts more strongly 4 % {side} its frequency ({:+.3} dB) than at its frequency {} Hz ({:+.3} dB): its centre is not at {} Hz at this rate",
						band, gains[k], band.f0, g0, band.f0
					),
					None,
				);
			}
		}
	}
}
fn check_band_direct(s: &mut Session, kind: &str, band: &Band, rates: &[u32]) {
	let rows = eq_gains_direct(band, rates);
	s.eval_only(kind);
	for (i, (row, r)) in rows.iter().zip(rates).enumerate() {
		check_band(s, &format!("EqFilter {band:?} driven directly: init / on_change_sample_rate through the rates {rates:?}; sine response measured after step {i} with dt = 1/{r}"), band, *r, row);
	}
}
fn check_band_scene(s: &mut Session, kind: &str, band: &Band, h: &FxHist) {
	let (fin, gains) = eq_gains_scene(h, band);
	s.eval_only(kind);
	check_band(s, &h.describe(&format!("a sine source followed by EqFilter {band:?}")), &fin, h.final_rate(), &gains);
}
const EQ_RATES: [u32; 5] = [96000, 48000, 44100, 22050, 16000];
/// fixed, independent of the seed, run first: bands at a large fraction of the device rate
fn part_e_fixed(s: &mut Session) {
	let bell = Band { kind: EqFilterKind::Bell, f0: 6000.0, gain_db: 12.0, q: 6.0 };
	let bands = [
		bell,
		Band { kind: EqFilterKind::Bell, f0: 6000.0, gain_db: -9.0, q: 3.0 },
		Band { kind: EqFilterKind::LowShelf, f0: 6000.0, gain_db: 12.0, q: 0.9 },
		Band { kind: EqFilterKind::HighShelf, f0: 6000.0, gain_db: -12.0, q: 0.9 },
		Band { kind: EqFilterKind::HighShelf, f0: 6000.0, gain_db: 9.0, q: 1.5 },
	];
	for b in &bands {
		for r in EQ_RATES {
			check_band_direct(s, "eq_band_fixed_direct", b, &[r]);
		}
		check_band_direct(s, "eq_band_fixed_direct", b, &[96000, 16000, 96000, 22050]);
		check_band_direct(s, "eq_band_fixed_direct", b, &[16000, 48000, 16000]);
	}
	// the top octave of ordinary devices and a band close to the Nyquist frequency of a slow one
	check_band_direct(s, "eq_band_fixed_direct", &Band { kind: EqFilterKind::Bell, f0: 16000.0, gain_db: 6.0, q: 4.0 }, &[96000, 48000, 44100]);
	check_band_direct(s, "eq_band_fixed_direct", &Band { kind: EqFilterKind::HighShelf, f0: 12000.0, gain_db: 6.0, q: 0.7 }, &[48000, 44100, 32000]);
	check_band_direct(s, "eq_band_fixed_direct", &Band { kind: EqFilterKind::Bell, f0: 3500.0, gain_db: 12.0, q: 5.0 }, &[8000, 11025, 8000]);
	// on a sub-track of a real manager: every rate from the start, and the orders of add and change
	let fixed = |sr0: u32, before_add: Vec<Pre>, after_add: Vec<Pre>| FxHist { sr0, ibs: 32, fpc: 100, before_add, after_add };
	for r in EQ_RATES {
		check_band_scene(s, "eq_band_fixed_scene", &bell, &fixed(r, vec![], vec![]));
	}
	for (r1, r2) in [(96000u32, 16000u32), (16000, 96000), (48000, 22050)] {
		for h in [
			fixed(r1, vec![], vec![Pre::Cb(100), Pre::Cb(100), Pre::Change(r2), Pre::Cb(100)]), // in the arena, processed, then the change
			fixed(r1, vec![], vec![Pre::Change(r2)]),                                          // queued during the change
			fixed(r1, vec![Pre::Cb(100), Pre::Change(r2)], vec![]),                           // change, then add
			fixed(r1, vec![], vec![Pre::Cb(100), Pre::Change(r2), Pre::Change(r1), Pre::Cb(50), Pre::Change(r2)]),
			// a frequency set through the handle BEFORE the change means hertz after it as well
			fixed(r1, vec![], vec![Pre::Cb(100), Pre::SetEqFrequency(6000.0), Pre::Cb(100), Pre::Change(r2)]),
		] {
			let start = if h.after_add.iter().any(|p| matches!(p, Pre::SetEqFrequency(_))) { Band { f0: 1500.0, ..bell } } else { bell };
			check_band_scene(s, "eq_band_fixed_scene", &start, &h);
		}
	}
}
fn gen_band(rng: &mut Rng, min_rate: u32) -> Band {
	let kind = *rng.pick(&[EqFilterKind::Bell, EqFilterKind::Bell, EqFilterKind::LowShelf, EqFilterKind::HighShelf]);
	// the band frequency as a fraction of the LOWEST rate it will meet: mostly the upper region, sometimes ordinary
	let frac = if rng.chance(3, 4) { 0.18 + 0.27 * rng.unit_f64() } else { 0.01 + 0.17 * rng.unit_f64() };
	let f0 = (frac * min_rate as f64 * 8.0).round() / 8.0;
	let mag = 3.0 + (rng.below(121) as f64) / 8.0; // 3 .. 18 dB in steps representable in binary32
	let gain_db = if rng.chance(1, 2) { mag } else { -mag };
	let q = if kind == EqFilterKind::Bell { 0.7 + 7.3 * rng.unit_f64() } else { 0.5 + 1.5 * rng.unit_f64() };
	Band { kind, f0, gain_db, q }
}
fn gen_eq_rate(rng: &mut Rng) -> u32 {
	if rng.chance(1, 6) {
		rng.range(8000, 192000) as u32
	} else {
		*rng.pick(&[8000u32, 11025, 16000, 22050, 32000, 44100, 48000, 88200, 96000, 192000])
	}
}
fn part_e_random(s: &mut Session, rng: &mut Rng, args: &Args) {
	let n: u64 = (if args.thorough { 600 } else { 60 }) * args.budget_mul;
	for i in 0..n {
		if i % 3 != 2 {
			let rates: Vec<u32> = (0..1 + rng.below(3)).map(|_| gen_eq_rate(rng)).collect();
			let band = gen_band(rng, *rates.iter().min().unwrap());
			check_band_direct(s, "eq_band_random_direct", &band, &rates);
		} else {
			let mut h = gen_fx_hist(rng, false);
			h.sr0 = gen_eq_rate(rng);
			for p in h.before_add.iter_mut().chain(h.after_add.iter_mut()) {
				if let Pre::Change(r) = p {
					*r = gen_eq_rate(rng);
				}
			}
			let mut min_rate = h.sr0;
			for p in h.before_add.iter().chain(&h.after_add) {
				if let Pre::Change(r) = p {
					min_rate = min_rate.min(*r);
				}
			}
			let band = gen_band(rng, min_rate);
			let mut start = band;
			if rng.chance(1, 3) {
				// configured elsewhere, moved to the band frequency through the handle somewhere in the history
				start.f0 = (band.f0 / 3.0).max(20.0);
				let at = rng.below(h.after_add.len() as u64 + 1) as usize;
				h.after_add.insert(at, Pre::SetEqFrequency(band.f0));
			}
			check_band_scene(s, "eq_band_random_scene", &start, &h);
		}
	}
	s.notes.push("Part E: sine response of the real EqFilter (bell / low shelf / high shelf) at its band frequency (and 4 % to either side for bells), driven directly through init / on_change_sample_rate sequences and on sub-tracks of a real manager through add / callback / change / set_frequency histories; band frequencies up to 0.45 of the device rate; fixed bands at 6 kHz on 96 / 48 / 44.1 / 22.05 / 16 kHz devices run first on every seed".to_string());
}

pub fn run(args: &Args) {
	let mut rng = Rng::new(args.seed ^ 0xC16);
	let mut s = Session::new(
		"C16",
		&args.out,
		"From Coq Require Import ZArith List. Import ListNotations. Open Scope Z_scope.\nFrom KV Require Import Base.Corr C16.Model C16.Run.",
		"run",
		300,
		"protocol: one case = one history of add (manager.add_sub_track / add_spatial_sub_track / add_send_track, handle.add_sub_track / add_spatial_sub_track on nested tracks, with or without audio-thread steps injected between the load of the rate and the enqueue) / set_sample_rate / callback steps on a real AudioManager with probe effects (also inside real Delays' feedback chains); observables: (probe, rate last told, bits of dt, frames) of every process call in call order + every probe's full told-log; distinct = distinct history in which at least one probe processed",
	);
	// ---- Part E first: fixed EQ bands at a large fraction of the device rate (independent of the seed), then seeded ones
	part_e_fixed(&mut s);
	part_e_random(&mut s, &mut Rng::new(args.seed ^ 0xC16E0), args);
	for (kind, h) in regressions() {
		let before = s.failures.len();
		emit_hist(&mut s, kind, &h);
		// a fixed case must also have let its probes process (otherwise it checks nothing)
		if s.failures.len() == before && run_hist(&h).nproc == 0 {
			s.fail(h.describe(), format!("{kind}: no probe processed (harness problem)"), None);
		}
	}
	enumerate_hists(&mut s, if args.thorough { 5 } else { 4 });
	let n: u64 = (if args.thorough { 8000 } else { 700 }) * args.budget_mul;
	for _ in 0..n {
		let h = gen_hist(&mut rng);
		emit_hist(&mut s, "hist_random", &h);
	}
	// ---- Part B: real Delay / Filter
	let dn: u64 = (if args.thorough { 2000 } else { 250 }) * args.budget_mul;
	for i in 0..dn {
		let r0 = gen_rate(&mut rng, false);
		let t_ns = match i % 4 {
			0 => rng.below(1_000_000),                                   // below / around one frame
			1 => (rng.below(200) as f64 * 1e9 / r0 as f64) as u64,       // a whole number of frames at r0 (truncation edge)
			2 => ((rng.below(200) as f64 * 1e9 / r0 as f64) as u64 + rng.below(3)).saturating_sub(1),
			_ => rng.below(20_000_000),
		};
		let mut rates = vec![r0];
		for _ in 0..rng.below(3) {
			rates.push(gen_rate(&mut rng, false));
		}
		if rates.iter().any(|r| t_ns as f64 * *r as f64 / 1e9 > 4000.0) {
			continue;
		}
		let obs = delay_lengths(t_ns, &rates);
		s.case("delay_length", format!("CDelay {} [{}]", t_ns, rates.iter().map(|r| r.to_string()).collect::<Vec<_>>().join("; ")), &obs, Some(format!("d{t_ns}/{rates:?}")));
		// MONITOR delay_time_error: L/sr in (T - 1/sr, T], or one frame when T*sr < 1
		for (l, r) in obs.iter().zip(&rates) {
			let x = t_ns as f64 * *r as f64 / 1e9;
			// exact: L = max(1, floor(T * sr)) in integer arithmetic (F35: the binary64 product came out one frame short)
			let exact = ((t_ns as u128 * *r as u128 / 1_000_000_000) as i128).max(1);
			let ok = *l == exact;
			if !ok {
				s.fail(format!("Delay {t_ns} ns at {r} Hz (rates {rates:?})"), format!("echo after {l} frames, T*sr = {x}"), None);
			}
		}
	}
	for r in RATES.iter().chain([1000u32, 2000, 3000, 500, 1, 12345, 88200].iter()) {
		s.case("dt", format!("CDt {}", r), &[obs64(dt_of_renderer(*r))], Some(format!("dt{r}")));
	}
	let fxs = [
		FxKind::Filter(FilterMode::LowPass, 1000.0),
		FxKind::Filter(FilterMode::HighPass, 3000.0),
		FxKind::Filter(FilterMode::BandPass, 500.0),
		FxKind::Filter(FilterMode::Notch, 10000.0),
		FxKind::Delay(2_000_000),
		FxKind::Compressor(1_000, 3_000),
		FxKind::Reverb,
		FxKind::Eq(2000.0),
	];
	let pairs: &[(u32, u32)] = if args.thorough { &[(44100, 48000), (48000, 44100), (8000, 192000), (96000, 11025), (22050, 44100)] } else { &[(44100, 48000), (96000, 11025)] };
	for fx in fxs {
		for order in [Order::ArenaThenChange, Order::QueuedDuringChange, Order::ChangeThenAdd] {
			for (r1, r2) in pairs {
				effect_across_change(&mut s, &mut rng, fx, order, *r1, *r2);
			}
		}
	}
	for sr in RATES {
		for f in [100.0, 1000.0, 3210.5, 12000.0] {
			filter_ratio_check(&mut s, &mut rng, sr, f);
		}
	}
	// ---- Part D: reverb lines and compressor time constants in seconds
	part_d(&mut s, &mut rng, args);
	// ---- Part C: scenes
	let sound_rates = [8000u32, 22050, 44100, 48000];
	let mut sc = 0u64;
	for (i, sr) in RATES.iter().enumerate() {
		for (j, srate) in sound_rates.iter().enumerate() {
			if !args.thorough && (i + j) % 2 == 1 {
				continue;
			}
			let rho = [1.0, 0.5, 2.0, 1.25][(i + j) % 4];
			let n = (*srate as f64 * rho * 0.05) as usize; // 50 ms of audio
			let fpc = [64usize, 100, 256, 37][(i * 3 + j) % 4];
			let ncb = (0.12 * *sr as f64 / fpc as f64) as usize + 2;
			check_scene(&mut s, "scene_single_rate", &[(*sr, ncb, fpc)], 32, *srate, n, rho, 200.0, 0.03);
			sc += 1;
		}
	}
	let nsc: u64 = (if args.thorough { 300 } else { 40 }) * args.budget_mul;
	for _ in 0..nsc {
		let nseg = 2 + rng.below(3) as usize;
		let srate = *rng.pick(&sound_rates);
		let rho = *rng.pick(&[1.0, 0.5, 2.0, 1.25, 0.75]);
		let n = (srate as f64 * rho * 0.05) as usize;
		let mut segs = vec![];
		let mut total = 0.0;
		for k in 0..nseg {
			let sr = *rng.pick(&RATES);
			let fpc = *rng.pick(&[32usize, 64, 100, 37, 256]);
			// each segment lasts 5..25 ms, the last one long enough for everything to finish
			let dur = if k + 1 == nseg { (0.13f64 - total).max(0.03) } else { 0.005 + rng.unit_f64() * 0.02 };
			let ncb = (dur * sr as f64 / fpc as f64) as usize + 1;
			total += (ncb * fpc) as f64 / sr as f64;
			segs.push((sr, ncb, fpc));
		}
		check_scene(&mut s, "scene_rate_changes", &segs, 32, srate, n, rho, 200.0, 0.03);
		sc += 1;
	}
	s.notes.push(format!("{sc} scenes rendered at device rates {RATES:?} and across 1-3 mid-stream changes; durations, clock time and tween completion measured in seconds"));
	s.notes.push("racy histories (change between sample_rate.load() and enqueue) are driven from inside the probe's init, which the add path calls exactly there: no hook in kira".to_string());
	s.finish();
}
fn dt_of_renderer(sr: u32) -> f64 {
	// the dt a probe sees on the main track of a manager running at `sr`
	let h = Hist { sr0: sr, ibs: 4, main: vec![EShape::Probe(0)], nids: 1, items: vec![Item::A(AOp::Callback(1))] };
	let r = run_hist(&h);
	f64::from_bits(r.obs[2] as u64)
}
