//! C13 — effect laws.  Drives the seven built-in effects (built with their public builders, plus
//! nesting in a delay's feedback loop) through `Effect::init` / `Effect::process`, (1) emits short
//! runs as cases for the binary32 model (outputs compared bit-for-bit by `coqc`), and (2) evaluates
//! the laws themselves on the implementation with long signals: partition independence (bit-exact),
//! dry identity / identity settings (exact), silence in -> silence out with cleared state (exact),
//! superposition and scaling (1e-4 of peak), finiteness over long runs at parameter edges; the identity
//! settings reached through a modulator + mapping (value at / beyond the end of the input range, every easing);
//! finiteness across histories of device sample rates (on_change_sample_rate, also before the first frame).
//! An effect hosted by a SEND TRACK of a real manager (custom backend owning the renderer) across device rate changes
//! (idle, in flight before the first callback, mid-stream): output independent of the callback partition (bit-exact)
//! and equal to the bare effect told about each device rate once; directed scenarios first, then seeded histories,
//! short ones also as CaseSR model cases.
use crate::backend::*;
use crate::util::*;
use kira::effect::compressor::CompressorBuilder;
use kira::effect::delay::DelayBuilder;
use kira::effect::distortion::{DistortionBuilder, DistortionKind};
use kira::effect::eq_filter::{EqFilterBuilder, EqFilterKind};
use kira::effect::filter::{FilterBuilder, FilterMode};
use kira::effect::panning_control::PanningControlBuilder;
use kira::effect::reverb::ReverbBuilder;
use kira::effect::volume_control::VolumeControlBuilder;
use kira::effect::{Effect, EffectBuilder};
use kira::info::{Info, MockInfoBuilder};
use kira::modulator::ModulatorId;
use kira::sound::{Sound, SoundData};
use kira::track::{SendTrackBuilder, TrackBuilder};
use kira::{Decibels, Easing, Frame, Mapping, Mix, Panning, Value};
use std::collections::BTreeSet;
use std::time::Duration;

#[derive(Clone, Debug)]
enum Desc {
	Vol(f32),
	Pan(f32),
	Dist { hard: bool, db: f32, mix: f32 },
	Filter { mode: u8, cutoff: f64, res: f64, mix: f32 },
	Eq { kind: u8, freq: f64, gain: f32, q: f64 },
	Comp { thr: f64, ratio: f64, att: Duration, rel: Duration, mk: f32, mix: f32 },
	Delay { time: Duration, fb: f32, mix: f32, fx: Vec<Desc> },
	Reverb { fb: f64, damp: f64, width: f64, mix: f32 },
}
use Desc::*;

fn eff32(a: f32) -> f32 {
	a + (a - a) * 1.0f32
}
fn eff64(a: f64) -> f64 {
	a + (a - a) * 1.0f64
}

const T_TAN: u8 = 0;
const T_POW10: u8 = 1;
const T_EXP: u8 = 2;
const T_POWF10: u8 = 3;
const T_LOG10F: u8 = 4;
type Tab = BTreeSet<(u8, i128, i128)>;

impl Desc {
	fn build(&self) -> Box<dyn Effect> {
		match self {
			Vol(db) => VolumeControlBuilder::new(*db).build().0,
			Pan(p) => PanningControlBuilder(Value::Fixed(Panning(*p))).build().0,
			Dist { hard, db, mix } => DistortionBuilder::new()
				.kind(if *hard { DistortionKind::HardClip } else { DistortionKind::SoftClip })
				.drive(*db)
				.mix(*mix)
				.build()
				.0,
			Filter { mode, cutoff, res, mix } => FilterBuilder::new()
				.mode(match mode {
					0 => FilterMode::LowPass,
					1 => FilterMode::BandPass,
					2 => FilterMode::HighPass,
					_ => FilterMode::Notch,
				})
				.cutoff(*cutoff)
				.resonance(*res)
				.mix(*mix)
				.build()
				.0,
			Eq { kind, freq, gain, q } => EqFilterBuilder::new(
				match kind {
					0 => EqFilterKind::Bell,
					1 => EqFilterKind::LowShelf,
					_ => EqFilterKind::HighShelf,
				},
				*freq,
				*gain,
				*q,
			)
			.build()
			.0,
			Comp { thr, ratio, att, rel, mk, mix } => CompressorBuilder::new()
				.threshold(*thr)
				.ratio(*ratio)
				.attack_duration(*att)
				.release_duration(*rel)
				.makeup_gain(*mk)
				.mix(*mix)
				.build()
				.0,
			Delay { time, fb, mix, fx } => {
				let mut b = DelayBuilder::new().delay_time(*time).feedback(*fb).mix(*mix);
				for d in fx {
					b = b.with_feedback_effect(Boxed(d.clone()));
				}
				b.build().0
			}
			Reverb { fb, damp, width, mix } => ReverbBuilder::new().feedback(*fb).damping(*damp).stereo_width(*width).mix(*mix).build().0,
		}
	}
	/// Gallina term of type `edesc`
	fn term(&self) -> String {
		match self {
			Vol(db) => format!("(DVol {})", f32_bits_z(*db)),
			Pan(p) => format!("(DPan {})", f32_bits_z(*p)),
			Dist { hard, db, mix } => format!("(DDist {} {} {})", if *hard { 0 } else { 1 }, f32_bits_z(*db), f32_bits_z(*mix)),
			Filter { mode, cutoff, res, mix } => format!("(DFilter {} {} {} {})", mode, f64_bits_z(*cutoff), f64_bits_z(*res), f32_bits_z(*mix)),
			Eq { kind, freq, gain, q } => format!("(DEq {} {} {} {})", kind, f64_bits_z(*freq), f32_bits_z(*gain), f64_bits_z(*q)),
			Comp { thr, ratio, att, rel, mk, mix } => format!(
				"(DComp {} {} {} {} {} {})",
				f64_bits_z(*thr),
				f64_bits_z(*ratio),
				f64_bits_z(att.as_secs_f64()),
				f64_bits_z(rel.as_secs_f64()),
				f32_bits_z(*mk),
				f32_bits_z(*mix)
			),
			Delay { time, fb, mix, fx } => format!(
				"(DDelay {} {} {} [{}])",
				time.as_nanos(),
				f32_bits_z(*fb),
				f32_bits_z(*mix),
				fx.iter().map(|d| d.term()).collect::<Vec<_>>().join("; ")
			),
			Reverb { fb, damp, width, mix } => format!("(DReverb {} {} {} {})", f64_bits_z(*fb), f64_bits_z(*damp), f64_bits_z(*width), f32_bits_z(*mix)),
		}
	}
	/// libm results that depend on the parameters only (same std calls as the implementation)
	fn oracle(&self, sr: u32, tab: &mut Tab) {
		let dt = 1.0 / sr as f64;
		let powf10 = |tab: &mut Tab, db: f32| {
			let arg = eff32(db) / 20.0;
			tab.insert((T_POWF10, obs32(arg), obs32(10.0f32.powf(arg))));
		};
		match self {
			Vol(db) => powf10(tab, *db),
			Pan(_) | Reverb { .. } => {}
			Dist { db, .. } => powf10(tab, *db),
			Filter { cutoff, .. } => {
				let sample_rate = 1.0 / dt;
				let c = eff64(*cutoff) / sample_rate;
				// f64::clamp written out (NaN stays NaN)
				let c = if c < 0.0001 { 0.0001 } else if c > 0.5 { 0.5 } else { c };
				let arg = std::f64::consts::PI * c;
				tab.insert((T_TAN, obs64(arg), obs64(arg.tan())));
			}
			Eq { freq, gain, .. } => {
				let a = eff32(*gain) as f64 / 40.0;
				tab.insert((T_POW10, obs64(a), obs64(10.0f64.powf(a))));
				let c = eff64(*freq) * dt;
				let c = if c < 0.0001 { 0.0001 } else if c > 0.5 { 0.5 } else { c };
				let arg = std::f64::consts::PI * c;
				tab.insert((T_TAN, obs64(arg), obs64(arg.tan())));
			}
			Comp { att, rel, mk, .. } => {
				for d in [att, rel] {
					let arg = -1.0 / (d.as_secs_f64() / dt);
					tab.insert((T_EXP, obs64(arg), obs64(arg.exp())));
				}
				powf10(tab, *mk);
			}
			Delay { fb, fx, .. } => {
				powf10(tab, *fb);
				for d in fx {
					d.oracle(sr, tab);
				}
			}
		}
	}
	fn is_linear(&self) -> bool {
		match self {
			Dist { .. } | Comp { .. } => false,
			Delay { fx, .. } => fx.iter().all(|d| d.is_linear()),
			_ => true,
		}
	}
	/// some (nested) delay has floor(delay_time * sr) = 0 (was F3)
	#[allow(dead_code)]
	fn short_delay(&self, sr: u32) -> bool {
		match self {
			Delay { time, fx, .. } => ((time.as_secs_f64() * sr as f64) as usize) == 0 || fx.iter().any(|d| d.short_delay(sr)),
			_ => false,
		}
	}
	/// some (nested) distortion has drive <= -60 dB (was F4)
	#[allow(dead_code)]
	fn silent_drive(&self) -> bool {
		match self {
			Dist { db, .. } => *db <= -60.0,
			Delay { fx, .. } => fx.iter().any(|d| d.silent_drive()),
			_ => false,
		}
	}
	fn name(&self) -> &'static str {
		match self {
			Vol(_) => "volume",
			Pan(_) => "panning",
			Dist { .. } => "distortion",
			Filter { .. } => "filter",
			Eq { .. } => "eq",
			Comp { .. } => "compressor",
			Delay { fx, .. } => {
				if fx.is_empty() {
					"delay"
				} else {
					"delay_nested"
				}
			}
			Reverb { .. } => "reverb",
		}
	}
	fn with_mix(&self, m: f32) -> Desc {
		let mut d = self.clone();
		match &mut d {
			Dist { mix, .. } | Filter { mix, .. } | Comp { mix, .. } | Delay { mix, .. } | Reverb { mix, .. } => *mix = m,
			_ => {}
		}
		d
	}
}

/// Upper bound on the gain (peak of the frequency response; for the clippers the amplitude gain)
/// an effect can apply.  Used to keep generated feedback loops STABLE where a monitor asserts
/// finiteness: a loop whose gain reaches 1 grows without bound by design (and `inf * sqrt(0)` is
/// NaN even in a fully dry mix), which is not what the property's "documented ranges" mean.
fn gain_bound(d: &Desc) -> f64 {
	let blend = |wet: f64, mix: f32| -> f64 {
		let m = (mix as f64).clamp(0.0, 1.0);
		m.sqrt() * wet + (1.0 - m).sqrt()
	};
	let amp = |db: f32| -> f64 {
		if db <= -60.0 {
			0.0
		} else {
			10f64.powf(db as f64 / 20.0)
		}
	};
	match d {
		Vol(db) => amp(*db),
		Pan(_) => std::f64::consts::SQRT_2,
		Dist { mix, .. } => blend(1.0, *mix),
		Filter { res, mix, .. } => {
			let k = 2.0 - 1.9 * res.clamp(0.0, 1.0);
			blend((std::f64::consts::SQRT_2 / k).max(1.0), *mix)
		}
		Eq { gain, q, .. } => amp(gain.abs()) * (1.5 * q).max(1.0),
		Comp { ratio, mk, mix, .. } => blend(amp(*mk) * if *ratio < 1.0 { f64::INFINITY } else { 1.0 }, *mix),
		Reverb { fb, mix, .. } => {
			if *fb >= 1.0 {
				f64::INFINITY
			} else {
				blend(0.015 * 2.0 * 8.0 / (1.0 - fb) * (2.5f64 / 1.5).powi(4), *mix)
			}
		}
		Delay { fb, mix, fx, .. } => {
			let l = amp(*fb) * fx.iter().map(gain_bound).product::<f64>();
			if l >= 1.0 {
				f64::INFINITY
			} else {
				blend(l / (1.0 - l), *mix)
			}
		}
	}
}
/// lower the feedback of every (nested) delay until its loop gain bound is at most 0.9
fn stabilize(d: &mut Desc) {
	if let Delay { fb, fx, .. } = d {
		for c in fx.iter_mut() {
			if let Reverb { fb, .. } = c {
				*fb = fb.min(0.9);
			}
			stabilize(c);
		}
		let b: f64 = fx.iter().map(gain_bound).product();
		let max_db = (20.0 * (0.9 / b.max(1e-9)).log10()) as f32;
		if !(*fb <= max_db) {
			*fb = max_db.min(0.0) - 0.01;
		}
	}
}

/// a builder wrapper so that a `Desc` can be added to a delay's feedback loop
struct Boxed(Desc);
impl EffectBuilder for Boxed {
	type Handle = ();
	fn build(self) -> (Box<dyn Effect>, ()) {
		(self.0.build(), ())
	}
}

/// the libm calls of the compressor that depend on the signal: a mirror of compressor.rs
/// (segments = consecutive runs at possibly different sample rates; the envelope carries over)
fn comp_oracle(d: &Desc, segments: &[(u32, &[Frame])], tab: &mut Tab) {
	if let Comp { thr, ratio, att, rel, .. } = d {
		let threshold = *thr as f32;
		let ratio = *ratio as f32;
		let mut env = [0.0f32; 2];
		for (sr, input) in segments {
			let dt = 1.0 / *sr as f64;
			for f in input.iter() {
				let chans = [f.left, f.right];
				for i in 0..2 {
					let a = chans[i].abs();
					let l = a.log10();
					tab.insert((T_LOG10F, obs32(a), obs32(l)));
					let input_db = 20.0 * l;
					let over = (input_db - threshold).max(0.0);
					let duration = if env[i] > over { *rel } else { *att };
					let speed = (-1.0 / (duration.as_secs_f64() / dt)).exp();
					env[i] = over + speed as f32 * (env[i] - over);
					let gr = env[i] * ((1.0 / ratio) - 1.0);
					let arg = gr / 20.0;
					tab.insert((T_POWF10, obs32(arg), obs32(10.0f32.powf(arg))));
				}
			}
		}
	}
}

struct Ctx {
	info: Info<'static>,
}

/// build, init, process the input in the given slices (the rest, if any, as one more slice)
fn run_effect(cx: &Ctx, d: &Desc, sr: u32, t: usize, slices: &[usize], input: &[Frame]) -> Outcome<Vec<Frame>> {
	catch(|| {
		let mut e = d.build();
		e.init(sr, t);
		let dt = 1.0 / sr as f64;
		let mut buf = input.to_vec();
		let mut pos = 0usize;
		for &n in slices {
			let end = (pos + n).min(buf.len());
			e.on_start_processing();
			e.process(&mut buf[pos..end], dt, &cx.info);
			pos = end;
		}
		if pos < buf.len() {
			e.on_start_processing();
			e.process(&mut buf[pos..], dt, &cx.info);
		}
		buf
	})
}

fn frames_obs(v: &[Frame]) -> Vec<i128> {
	let mut o = Vec::with_capacity(v.len() * 2);
	for f in v {
		o.push(obs32(f.left));
		o.push(obs32(f.right));
	}
	o
}

// ------------------------------------------------------------------ generators

const RATES: [u32; 9] = [8000, 11025, 16000, 22050, 32000, 44100, 48000, 96000, 192000];
fn gen_sr(r: &mut Rng) -> u32 {
	if r.chance(3, 4) {
		*r.pick(&RATES)
	} else {
		r.range(8000, 192000) as u32
	}
}
fn unit32(r: &mut Rng) -> f32 {
	(r.unit_f64() * 2.0 - 1.0) as f32
}
fn gen_signal(r: &mut Rng, n: usize) -> (Vec<Frame>, &'static str) {
	let kind = r.below(9);
	let mut v = vec![Frame::ZERO; n];
	let name = match kind {
		0 | 1 => {
			for f in v.iter_mut() {
				*f = Frame::new(unit32(r), unit32(r));
			}
			"noise"
		}
		2 => {
			if n > 0 {
				let p = r.below(n.min(4) as u64) as usize;
				v[p] = Frame::new(*r.pick(&[1.0, -1.0, 0.5]), *r.pick(&[1.0, -1.0, 0.25]));
			}
			"impulse"
		}
		3 => {
			let p = r.below(n.max(1) as u64) as usize;
			let a = Frame::new(unit32(r), unit32(r));
			for f in v.iter_mut().skip(p) {
				*f = a;
			}
			"step"
		}
		4 => {
			let a = Frame::new(*r.pick(&[1.0, -1.0, 0.5, 0.1]), *r.pick(&[1.0, -1.0, -0.5, 0.3]));
			for f in v.iter_mut() {
				*f = a;
			}
			"dc"
		}
		5 => {
			for f in v.iter_mut() {
				*f = Frame::new(if r.chance(1, 2) { 1.0 } else { -1.0 }, if r.chance(1, 2) { 1.0 } else { -1.0 });
			}
			"full_scale"
		}
		6 => {
			for f in v.iter_mut() {
				let a = f32::from_bits(r.below(0x0080_0000) as u32 | if r.chance(1, 2) { 0x8000_0000 } else { 0 });
				let b = f32::from_bits(r.below(0x0100_0000) as u32);
				*f = Frame::new(a, b);
			}
			"denormal"
		}
		7 => {
			for f in v.iter_mut() {
				*f = Frame::new((r.range(-256, 256) as f32) / 256.0, (r.range(-16, 16) as f32) / 16.0);
			}
			"dyadic"
		}
		_ => {
			for f in v.iter_mut() {
				*f = match r.below(6) {
					0 => Frame::new(-0.0, 0.0),
					1 => Frame::new(unit32(r) * 4.0, unit32(r) * 4.0),
					2 => Frame::new(1.0, -1.0),
					3 => Frame::ZERO,
					_ => Frame::new(unit32(r), unit32(r)),
				};
			}
			"mixed"
		}
	};
	(v, name)
}
fn gen_slices(r: &mut Rng, n: usize, t: usize) -> Vec<usize> {
	let mut v = vec![];
	let mut left = n;
	let style = r.below(4);
	while left > 0 {
		let k = match style {
			0 => 1,
			1 => t,
			2 => r.range(0, t as i64) as usize,
			_ => r.range(1, (t as i64).min(7)) as usize,
		}
		.min(left);
		v.push(k);
		left -= k;
	}
	v
}
fn gen_mix(r: &mut Rng) -> f32 {
	match r.below(8) {
		0 => 0.0,
		1 => 1.0,
		2 => 0.5,
		3 => -0.0,
		_ => r.unit_f64() as f32,
	}
}
fn gen_db(r: &mut Rng, lo: f64, hi: f64) -> f32 {
	match r.below(8) {
		0 => 0.0,
		1 => -6.0,
		2 => -0.0,
		_ => (lo + r.unit_f64() * (hi - lo)) as f32,
	}
}
fn gen_unit_edge(r: &mut Rng) -> f64 {
	match r.below(6) {
		0 => 0.0,
		1 => 1.0,
		2 => 0.5,
		_ => r.unit_f64(),
	}
}
fn gen_freq(r: &mut Rng, sr: u32) -> f64 {
	match r.below(8) {
		0 => 20.0,
		1 => 20000.0,
		2 => sr as f64 / 2.0,
		3 => sr as f64 * 0.0001,
		4 => 1.0,
		5 => 1000.0,
		_ => 20.0 * (1000.0f64).powf(r.unit_f64()),
	}
}
/// `boundary`: also values outside the documented ranges (F3 / F4 / out-of-range mix, resonance ...)
fn gen_desc(r: &mut Rng, sr: u32, depth: u32, allow_comp: bool, small_delay: bool, boundary: bool) -> Desc {
	let k = if depth >= 2 { r.below(6) } else { r.below(8) };
	match k {
		0 => Vol(if boundary { *r.pick(&[-60.0, -60.000004, -59.999996, -100.0, 0.0, 6.0]) } else { gen_db(r, -59.0, 24.0) }),
		1 => Pan(if boundary { *r.pick(&[-1.0, 1.0, 0.0, -0.0, 1.5, -3.0]) } else { unit32(r) }),
		2 => Dist {
			hard: r.chance(1, 2),
			db: if boundary { *r.pick(&[-60.0, -61.5, -59.999996, 0.0, 60.0]) } else { gen_db(r, -40.0, 40.0) },
			mix: gen_mix(r),
		},
		3 => Filter {
			mode: r.below(4) as u8,
			cutoff: if boundary { *r.pick(&[0.0, 1e9, -5.0, 0.8]) } else { gen_freq(r, sr) },
			res: if boundary { *r.pick(&[-0.5, 1.5, 0.0, 1.0]) } else { gen_unit_edge(r) },
			mix: if boundary { *r.pick(&[-0.5, 1.5, 0.0, 1.0]) } else { gen_mix(r) },
		},
		4 => Eq {
			kind: r.below(3) as u8,
			freq: if boundary { *r.pick(&[0.0, 1e9, 0.5]) } else { gen_freq(r, sr) },
			gain: if boundary { *r.pick(&[0.0, -0.0, 40.0, -40.0]) } else { gen_db(r, -24.0, 24.0) },
			q: if boundary { *r.pick(&[0.0, 0.01, -1.0, 100.0]) } else { 0.05 + r.unit_f64() * 8.0 },
		},
		5 => Reverb { fb: gen_unit_edge(r), damp: gen_unit_edge(r), width: gen_unit_edge(r), mix: gen_mix(r) },
		6 => {
			if allow_comp {
				Comp {
					thr: -(r.unit_f64() * 40.0),
					ratio: *r.pick(&[1.0, 2.0, 4.0, 0.5, 20.0, 1.5]),
					att: Duration::from_micros(r.range(100, 50_000) as u64),
					rel: Duration::from_micros(r.range(1000, 500_000) as u64),
					mk: gen_db(r, -6.0, 12.0),
					mix: gen_mix(r),
				}
			} else {
				Vol(gen_db(r, -30.0, 6.0))
			}
		}
		_ => {
			let frames = if boundary && r.chance(1, 2) {
				0.0
			} else if small_delay {
				r.range(1, 9) as f64
			} else {
				r.range(1, (sr / 4) as i64) as f64
			};
			// a little more than `frames` frames so that the floor is `frames`
			let time = if frames == 0.0 { *r.pick(&[Duration::ZERO, Duration::from_nanos(1000)]) } else { Duration::from_secs_f64((frames + 0.25) / sr as f64) };
			let nfx = if depth >= 2 { 0 } else { r.below(3) };
			let mut fx = vec![];
			for _ in 0..nfx {
				let b = boundary && r.chance(1, 3);
				fx.push(gen_desc(r, sr, depth + 1, false, small_delay, b));
			}
			Delay { time, fb: gen_db(r, -30.0, 0.0), mix: gen_mix(r), fx }
		}
	}
}

fn hash(s: &str) -> u64 {
	let mut h: u64 = 0xcbf29ce484222325;
	for b in s.bytes() {
		h ^= b as u64;
		h = h.wrapping_mul(0x100000001b3);
	}
	h
}

fn emit_case(s: &mut Session, cx: &Ctx, kind: &str, d: &Desc, sr: u32, t: usize, slices: &[usize], input: &[Frame]) -> Outcome<Vec<Frame>> {
	let out = run_effect(cx, d, sr, t, slices, input);
	emit_obs(s, kind, d, sr, t, slices, input, out)
}

/// send `out` (what the implementation did) as the observable of the model case (d, sr, t, slices, input)
fn emit_obs(s: &mut Session, kind: &str, d: &Desc, sr: u32, t: usize, slices: &[usize], input: &[Frame], out: Outcome<Vec<Frame>>) -> Outcome<Vec<Frame>> {
	let obs = match &out {
		Outcome::Ok(v) => {
			let mut o = vec![0];
			o.extend(frames_obs(v));
			o
		}
		Outcome::Panic(c) => vec![1, *c],
		Outcome::Hang => vec![2],
	};
	let mut tab = Tab::new();
	d.oracle(sr, &mut tab);
	comp_oracle(d, &[(sr, input)], &mut tab);
	let tabs = format!("[{}]", tab.iter().map(|(t, a, b)| format!("({}, {}, {})", t, z(*a), z(*b))).collect::<Vec<_>>().join("; "));
	let ins = format!("[{}]", input.iter().map(|f| format!("({}, {})", f32_bits_z(f.left), f32_bits_z(f.right))).collect::<Vec<_>>().join("; "));
	let sl = format!("[{}]", slices.iter().map(|x| x.to_string()).collect::<Vec<_>>().join("; "));
	let term = format!("Case {} {} {} {} {} {}", sr, t, tabs, d.term(), sl, ins);
	let nontrivial = input.iter().any(|f| f.left != 0.0 || f.right != 0.0);
	let key = if nontrivial { Some(format!("{:016x}", hash(&term))) } else { None };
	s.case(kind, term, &obs, key);
	out
}

/// init at `sr1`, process `in1`, `on_change_sample_rate(sr2)`, process `in2`
fn emit_case_sr(s: &mut Session, cx: &Ctx, d: &Desc, sr1: u32, sr2: u32, t: usize, sl1: &[usize], in1: &[Frame], sl2: &[usize], in2: &[Frame]) {
	let out = catch(|| {
		let mut e = d.build();
		e.init(sr1, t);
		let mut res = vec![];
		for (k, (sr, sl, input)) in [(sr1, sl1, in1), (sr2, sl2, in2)].into_iter().enumerate() {
			if k == 1 {
				e.on_change_sample_rate(sr2);
			}
			let dt = 1.0 / sr as f64;
			let mut buf = input.to_vec();
			let mut pos = 0usize;
			for &n in sl {
				let end = (pos + n).min(buf.len());
				e.on_start_processing();
				e.process(&mut buf[pos..end], dt, &cx.info);
				pos = end;
			}
			if pos < buf.len() {
				e.on_start_processing();
				e.process(&mut buf[pos..], dt, &cx.info);
			}
			res.extend(buf);
		}
		res
	});
	let obs = match &out {
		Outcome::Ok(v) => {
			let mut o = vec![0];
			o.extend(frames_obs(v));
			o
		}
		Outcome::Panic(c) => vec![1, *c],
		Outcome::Hang => vec![2],
	};
	let mut tab = Tab::new();
	d.oracle(sr1, &mut tab);
	d.oracle(sr2, &mut tab);
	comp_oracle(d, &[(sr1, in1), (sr2, in2)], &mut tab);
	let tabs = format!("[{}]", tab.iter().map(|(t, a, b)| format!("({}, {}, {})", t, z(*a), z(*b))).collect::<Vec<_>>().join("; "));
	let fr = |v: &[Frame]| format!("[{}]", v.iter().map(|f| format!("({}, {})", f32_bits_z(f.left), f32_bits_z(f.right))).collect::<Vec<_>>().join("; "));
	let sl = |v: &[usize]| format!("[{}]", v.iter().map(|x| x.to_string()).collect::<Vec<_>>().join("; "));
	let term = format!("CaseSR {} {} {} {} {} {} {} {} {}", sr1, sr2, t, tabs, d.term(), sl(sl1), fr(in1), sl(sl2), fr(in2));
	let key = Some(format!("{:016x}", hash(&term)));
	s.case("sample_rate_change", term, &obs, key);
	if !matches!(out, Outcome::Ok(_)) {
		s.fail(format!("{:?} @ {} -> {} Hz", d, sr1, sr2), format!("panics across a sample-rate change: {}", last_panic()), None);
	}
}

fn describe(d: &Desc, sr: u32) -> String {
	format!("{:?} @ {} Hz", d, sr)
}

/// F3 (delay shorter than one frame) and F4 (distortion drive <= -60 dB) are repaired in /repo
/// (229f4e8, 16e4488): no failure is attributed to a known class any more, a recurrence is a
/// VIOLATION.
fn class_of(_d: &Desc, _sr: u32) -> Option<&'static str> {
	None
}

fn same_bits(a: &[Frame], b: &[Frame]) -> Option<usize> {
	if a.len() != b.len() {
		return Some(a.len().min(b.len()));
	}
	for i in 0..a.len() {
		if obs32(a[i].left) != obs32(b[i].left) || obs32(a[i].right) != obs32(b[i].right) {
			return Some(i);
		}
	}
	None
}

fn noise(r: &mut Rng, n: usize, amp: f32) -> Vec<Frame> {
	(0..n).map(|_| Frame::new(unit32(r) * amp, unit32(r) * amp)).collect()
}
fn full_scale_noise(r: &mut Rng, n: usize) -> Vec<Frame> {
	(0..n)
		.map(|_| match r.below(4) {
			0 => Frame::new(1.0, -1.0),
			1 => Frame::new(-1.0, 1.0),
			_ => Frame::new(unit32(r), unit32(r)),
		})
		.collect()
}


// ------------------------------------------------------------------ parameters linked to a modulator

/// One parameter of an effect given as `Value::FromModulator` instead of `Value::Fixed`: the modulator's
/// (constant) value `v` goes through `Mapping { input_range: input, output_range: output, easing }`.
#[derive(Clone, Debug)]
struct Link {
	v: f64,
	input: (f64, f64),
	output: (f32, f32),
	easing: Easing,
}
impl Link {
	fn value<T>(&self, id: ModulatorId, mk: fn(f32) -> T) -> Value<T> {
		Value::FromModulator { id, mapping: Mapping { input_range: self.input, output_range: (mk(self.output.0), mk(self.output.1)), easing: self.easing } }
	}
	/// the position of `v` in the input range, as `Mapping::map` computes it (before pinning it to 0..=1)
	fn raw_amount(&self) -> f64 {
		(self.v - self.input.0) / (self.input.1 - self.input.0)
	}
}

/// `d` with ONE parameter linked: the distortion's drive if `drive`, otherwise the parameter that has an
/// identity setting (mix of the five effects that have one, the volume, the panning, the EQ gain)
fn build_linked(d: &Desc, l: &Link, id: ModulatorId, drive: bool) -> Box<dyn Effect> {
	match d {
		Vol(_) => VolumeControlBuilder(l.value(id, Decibels)).build().0,
		Pan(_) => PanningControlBuilder(l.value(id, Panning)).build().0,
		Dist { hard, db, mix } => {
			let b = DistortionBuilder::new().kind(if *hard { DistortionKind::HardClip } else { DistortionKind::SoftClip });
			if drive {
				b.drive(l.value(id, Decibels)).mix(*mix).build().0
			} else {
				b.drive(*db).mix(l.value(id, Mix)).build().0
			}
		}
		Filter { mode, cutoff, res, .. } => FilterBuilder::new()
			.mode(match mode {
				0 => FilterMode::LowPass,
				1 => FilterMode::BandPass,
				2 => FilterMode::HighPass,
				_ => FilterMode::Notch,
			})
			.cutoff(*cutoff)
			.resonance(*res)
			.mix(l.value(id, Mix))
			.build()
			.0,
		Eq { kind, freq, q, .. } => EqFilterBuilder::new(
			match kind {
				0 => EqFilterKind::Bell,
				1 => EqFilterKind::LowShelf,
				_ => EqFilterKind::HighShelf,
			},
			*freq,
			l.value(id, Decibels),
			*q,
		)
		.build()
		.0,
		Comp { thr, ratio, att, rel, mk, .. } => CompressorBuilder::new()
			.threshold(*thr)
			.ratio(*ratio)
			.attack_duration(*att)
			.release_duration(*rel)
			.makeup_gain(*mk)
			.mix(l.value(id, Mix))
			.build()
			.0,
		Delay { time, fb, fx, .. } => {
			let mut b = DelayBuilder::new().delay_time(*time).feedback(*fb).mix(l.value(id, Mix));
			for d in fx {
				b = b.with_feedback_effect(Boxed(d.clone()));
			}
			b.build().0
		}
		Reverb { fb, damp, width, .. } => ReverbBuilder::new().feedback(*fb).damping(*damp).stereo_width(*width).mix(l.value(id, Mix)).build().0,
	}
}

/// build with the link, init, one call on `warm` frames of silence (the call in which the parameter goes from
/// its default to the modulator's value), then the input in the given slices.  Returns (warm-up output, output).
fn run_linked(d: &Desc, l: &Link, drive: bool, sr: u32, t: usize, warm: usize, slices: &[usize], input: &[Frame]) -> Outcome<(Vec<Frame>, Vec<Frame>)> {
	catch(|| {
		let mut ib = MockInfoBuilder::new();
		let id = ib.add_modulator(l.v);
		let info = ib.build();
		let mut e = build_linked(d, l, id, drive);
		e.init(sr, t);
		let dt = 1.0 / sr as f64;
		let mut w = vec![Frame::ZERO; warm];
		e.on_start_processing();
		e.process(&mut w, dt, &info);
		let mut buf = input.to_vec();
		let mut pos = 0usize;
		for &n in slices {
			let end = (pos + n).min(buf.len());
			e.on_start_processing();
			e.process(&mut buf[pos..end], dt, &info);
			pos = end;
		}
		if pos < buf.len() {
			e.on_start_processing();
			e.process(&mut buf[pos..], dt, &info);
		}
		(w, buf)
	})
}

fn gen_easing(r: &mut Rng) -> Easing {
	let p = r.range(1, 5) as i32;
	let pf = *r.pick(&[0.5f64, 1.5, 2.0, 2.5, 3.0, 0.3]);
	match r.below(7) {
		0 => Easing::Linear,
		1 => Easing::InPowi(p),
		2 => Easing::OutPowi(p),
		3 => Easing::InOutPowi(p),
		4 => Easing::InPowf(pf),
		5 => Easing::OutPowf(pf),
		_ => Easing::InOutPowf(pf),
	}
}
/// a non-degenerate input range, either orientation
fn gen_input_range(r: &mut Rng) -> (f64, f64) {
	match r.below(5) {
		0 => (0.0, 1.0),
		1 => (-1.0, 1.0),
		2 => (1.0, 0.0),
		_ => {
			let lo = r.range(-16, 16) as f64 / 8.0;
			let w = *r.pick(&[1.0f64, 0.5, 2.0, 0.25, 10.0, 0.125]) * if r.chance(1, 3) { -1.0 } else { 1.0 };
			(lo, lo + w)
		}
	}
}
/// A link whose modulator sits AT or BEYOND the end of the input range whose output is `ident` (0.0 for every
/// identity setting: fully dry, 0 dB, centre): the mapped value is pinned to that end, i.e. the parameter is SET
/// to its identity value.  (Both `0 + (b - 0) * 0` and `a + (0 - a) * 1` are exactly 0 in binary32.)
fn gen_pinned_link(r: &mut Rng, other: f32) -> Link {
	let input = gen_input_range(r);
	let first = r.chance(1, 2);
	let w = input.1 - input.0;
	let over = if r.chance(1, 4) { 0.0 } else { *r.pick(&[0.5f64, 0.25, 1.0, 3.0, 0.001, 100.0, 0.75]) * (0.5 + r.unit_f64()) };
	let mut l = Link { v: if first { input.0 - over * w } else { input.1 + over * w }, input, output: if first { (0.0, other) } else { (other, 0.0) }, easing: gen_easing(r) };
	let a = l.raw_amount();
	if !(if first { a <= 0.0 } else { a >= 1.0 }) {
		l.v = if first { input.0 } else { input.1 };
	}
	l
}
/// the other end of the output range, inside the documented range of the parameter that gets linked
fn gen_other_end(r: &mut Rng, d: &Desc, drive: bool) -> f32 {
	match d {
		Vol(_) => *r.pick(&[-24.0f32, -6.0, 6.0, -60.0, 12.0]),
		Pan(_) => *r.pick(&[-1.0f32, 1.0, 0.5, -0.25]),
		Eq { .. } => *r.pick(&[-24.0f32, -6.0, 6.0, 24.0]),
		Dist { .. } if drive => *r.pick(&[-24.0f32, 12.0, 40.0, -6.0]),
		_ => *r.pick(&[1.0f32, 1.0, 0.5, 0.75]),
	}
}
fn linked_name(d: &Desc) -> &'static str {
	match d {
		Vol(_) => "volume",
		Pan(_) => "panning",
		Eq { .. } => "gain",
		_ => "mix",
	}
}
/// `d` with the linked parameter fixed at its identity value
fn ident_of(d: &Desc, drive: bool) -> Desc {
	match d {
		Vol(_) => Vol(0.0),
		Pan(_) => Pan(0.0),
		Eq { kind, freq, q, .. } => Eq { kind: *kind, freq: *freq, gain: 0.0, q: *q },
		Dist { hard, mix, .. } if drive => Dist { hard: *hard, db: 0.0, mix: *mix },
		_ => d.with_mix(0.0),
	}
}

// ------------------------------------------------------------------ histories of device sample rates

/// init at the first rate, process the first input in slices of `t`; for every further segment
/// `on_change_sample_rate(rate)` and process its input.  Returns the outputs per segment.
fn run_history(cx: &Ctx, d: &Desc, t: usize, segs: &[(u32, Vec<Frame>)]) -> Outcome<Vec<Vec<Frame>>> {
	catch(|| {
		let mut e = d.build();
		e.init(segs[0].0, t);
		let mut res = vec![];
		for (k, (sr, input)) in segs.iter().enumerate() {
			if k > 0 {
				e.on_change_sample_rate(*sr);
			}
			let dt = 1.0 / *sr as f64;
			let mut buf = input.clone();
			for c in buf.chunks_mut(t) {
				e.on_start_processing();
				e.process(c, dt, &cx.info);
			}
			res.push(buf);
		}
		res
	})
}

// ------------------------------------------------------------------ an effect hosted by a send track of a real manager

/// plays a list of frames verbatim (times `sign`), then silence; never finishes
struct Verbatim {
	frames: Vec<Frame>,
	sign: f32,
	pos: usize,
}
impl Sound for Verbatim {
	fn process(&mut self, out: &mut [Frame], _dt: f64, _info: &Info) {
		for f in out.iter_mut() {
			*f = self.frames.get(self.pos).copied().unwrap_or(Frame::ZERO) * self.sign;
			self.pos += 1;
		}
	}
	fn finished(&self) -> bool {
		false
	}
}
impl SoundData for Verbatim {
	type Error = ();
	type Handle = ();
	fn into_sound(self) -> Result<(Box<dyn Sound>, ()), ()> {
		Ok((Box::new(self), ()))
	}
}

/// A history of an effect that lives on a SEND TRACK of a manager (custom backend owning the renderer):
/// the manager is created at `sr0` (the rate the effect is `init`-ed with on the game thread), the device
/// rate may change before the renderer has seen the track (`in_flight`), then the segments run in order:
/// an optional device rate change, then `frames` frames rendered in callbacks.  Before segment
/// `play_before` a sub-track routed at 0 dB to the send track starts playing `x`, and a second sub-track
/// WITHOUT a send starts playing `-x`: on the main bus `x + (-x)` is exactly 0, so the device output is
/// exactly the send track's output = effect(x) (clamped to -1..1 by the renderer).
#[derive(Clone, Debug)]
struct SendHist {
	ibs: usize,
	sr0: u32,
	in_flight: Option<u32>,
	segs: Vec<(Option<u32>, usize)>,
	play_before: usize,
}

/// the callback sizes of every segment
type Parts = Vec<Vec<usize>>;

fn run_on_send_track(d: &Desc, h: &SendHist, parts: &Parts, x: &[Frame]) -> Outcome<Vec<Frame>> {
	catch(|| {
		let mut m = simple_manager(h.sr0, h.ibs);
		let send = m.add_send_track(SendTrackBuilder::new().with_effect(Boxed(d.clone()))).unwrap();
		let mut with_send = m.add_sub_track(TrackBuilder::new().with_send(&send, Decibels::IDENTITY)).unwrap();
		let mut cancel = m.add_sub_track(TrackBuilder::new()).unwrap();
		if let Some(r) = h.in_flight {
			m.backend_mut().set_sample_rate(r);
		}
		let mut out = vec![];
		for (k, (change, _)) in h.segs.iter().enumerate() {
			if k == h.play_before {
				with_send.play(Verbatim { frames: x.to_vec(), sign: 1.0, pos: 0 }).unwrap();
				cancel.play(Verbatim { frames: x.to_vec(), sign: -1.0, pos: 0 }).unwrap();
			}
			if let Some(r) = change {
				m.backend_mut().set_sample_rate(*r);
			}
			for &n in &parts[k] {
				out.extend(m.backend_mut().callback_stereo(n));
			}
		}
		out
	})
}

/// What the property's effect-level laws say the send track must output: the bare effect, told about every
/// device rate exactly once (at `init` the rate of the manager, afterwards `on_change_sample_rate` per device
/// change once the renderer has the track; a change that happened before that is passed on at the first
/// callback), fed silence until the sound starts and `x` from then on, in process calls of at most `ibs` frames.
fn ref_on_send_track(cx: &Ctx, d: &Desc, h: &SendHist, parts: &Parts, x: &[Frame]) -> Outcome<Vec<Frame>> {
	catch(|| {
		let mut e = d.build();
		e.init(h.sr0, h.ibs);
		let mut told = h.sr0;
		let mut dev = h.sr0;
		let mut picked_up = false;
		if let Some(r) = h.in_flight {
			dev = r;
		}
		let mut pos: Option<usize> = None;
		let mut out = vec![];
		for (k, (change, _)) in h.segs.iter().enumerate() {
			if k == h.play_before {
				pos = Some(0);
			}
			if let Some(r) = change {
				dev = *r;
				if picked_up {
					e.on_change_sample_rate(dev);
					told = dev;
				}
			}
			for &n in &parts[k] {
				picked_up = true;
				if told != dev {
					e.on_change_sample_rate(dev);
					told = dev;
				}
				e.on_start_processing();
				let dt = 1.0 / dev as f64;
				let mut buf: Vec<Frame> = (0..n)
					.map(|i| match pos {
						Some(p) => x.get(p + i).copied().unwrap_or(Frame::ZERO),
						None => Frame::ZERO,
					})
					.collect();
				if let Some(p) = pos.as_mut() {
					*p += n;
				}
				for c in buf.chunks_mut(h.ibs) {
					e.process(c, dt, &cx.info);
				}
				out.extend(buf);
			}
		}
		out
	})
}

/// the renderer's last step: NaN -> 0, clamp to -1..1
fn device_clamp(f: Frame) -> Frame {
	let c = |v: f32| if v.is_nan() { 0.0 } else { v.clamp(-1.0, 1.0) };
	Frame::new(c(f.left), c(f.right))
}

fn describe_send(d: &Desc, h: &SendHist, x_desc: &str) -> String {
	let mut t = format!("{:?} as the only effect of a SEND TRACK (internal buffer {} frames), manager created at {} Hz", d, h.ibs, h.sr0);
	if let Some(r) = h.in_flight {
		t += &format!(", device rate -> {} Hz before the renderer's first callback", r);
	}
	for (k, (change, n)) in h.segs.iter().enumerate() {
		if k == h.play_before {
			t += &format!("; a sub-track with a 0 dB send plays x = {} (a second sub-track plays -x so that the device output is the send track's output alone)", x_desc);
		}
		match change {
			Some(r) => t += &format!("; device rate -> {} Hz, {} frames", r, n),
			None => t += &format!("; {} frames", n),
		}
	}
	t
}

/// callbacks of `size` frames (the last one shorter) per segment
fn parts_fixed(h: &SendHist, size: usize) -> Parts {
	h.segs
		.iter()
		.map(|&(_, n)| {
			let mut v = vec![size; n / size];
			if n % size != 0 {
				v.push(n % size);
			}
			v
		})
		.collect()
}
fn parts_random(r: &mut Rng, h: &SendHist, max: usize) -> Parts {
	h.segs
		.iter()
		.map(|&(_, n)| {
			let mut v = vec![];
			let mut left = n;
			while left > 0 {
				let k = (r.range(1, max as i64) as usize).min(left);
				v.push(k);
				left -= k;
			}
			v
		})
		.collect()
}

/// The two monitors for one history: (a) the output does not depend on the callback partition (bit for bit),
/// (b) it is what the bare effect gives for the same signal and the same sequence of device rates.
/// Returns the output of partition `pa` and the reference when everything ran.
fn check_send_track(s: &mut Session, cx: &Ctx, d: &Desc, h: &SendHist, pa: &Parts, pb: &Parts, x: &[Frame], x_desc: &str, pdesc: &str) -> Option<(Vec<Frame>, Vec<Frame>)> {
	s.eval_only("mon_send_track_rate_history");
	let a = run_on_send_track(d, h, pa, x);
	let b = run_on_send_track(d, h, pb, x);
	let r = ref_on_send_track(cx, d, h, pa, x);
	let what = describe_send(d, h, x_desc);
	match (a, b, r) {
		(Outcome::Ok(a), Outcome::Ok(b), Outcome::Ok(r)) => {
			if let Some(ix) = same_bits(&a, &b) {
				s.fail(what, format!("the effect's output depends on how the stream is split into callbacks ({pdesc}): frame {ix} is {:?} with the first partition and {:?} with the second (the bare effect gives {:?})", a.get(ix), b.get(ix), r.get(ix).map(|f| device_clamp(*f))), None);
				return None;
			}
			if let Some(ix) = (0..a.len().max(r.len())).find(|&i| match (a.get(i), r.get(i)) {
				(Some(p), Some(q)) => {
					let q = device_clamp(*q);
					!(p.left == q.left && p.right == q.right)
				}
				_ => true,
			}) {
				s.fail(what, format!("the send track's output is not the effect's output for the same signal and the same sequence of device rates ({pdesc}): frame {ix} is {:?}, the bare effect (init at the manager's rate, on_change_sample_rate once per device change) gives {:?}", a.get(ix), r.get(ix).map(|f| device_clamp(*f))), None);
				return None;
			}
			Some((a, r))
		}
		_ => {
			s.fail(what, format!("panicked: {}", last_panic()), None);
			None
		}
	}
}

/// the input of the directed scenarios: exact dyadic values, |x| < 0.2, never zero twice in a row
fn directed_input(n: usize) -> Vec<Frame> {
	(0..n)
		.map(|i| {
			let v = ((i * 37 % 101) as f32 - 50.0) / 256.0;
			Frame::new(v, -v * 0.5)
		})
		.collect()
}

/// send `out` (what the implementation did) as the observable of the model case CaseSR
fn emit_obs_sr(s: &mut Session, kind: &str, d: &Desc, sr1: u32, sr2: u32, t: usize, sl1: &[usize], in1: &[Frame], sl2: &[usize], in2: &[Frame], out: &[Frame]) {
	let mut obs = vec![0];
	obs.extend(frames_obs(out));
	let mut tab = Tab::new();
	d.oracle(sr1, &mut tab);
	d.oracle(sr2, &mut tab);
	comp_oracle(d, &[(sr1, in1), (sr2, in2)], &mut tab);
	let tabs = format!("[{}]", tab.iter().map(|(t, a, b)| format!("({}, {}, {})", t, z(*a), z(*b))).collect::<Vec<_>>().join("; "));
	let fr = |v: &[Frame]| format!("[{}]", v.iter().map(|f| format!("({}, {})", f32_bits_z(f.left), f32_bits_z(f.right))).collect::<Vec<_>>().join("; "));
	let sl = |v: &[usize]| format!("[{}]", v.iter().map(|x| x.to_string()).collect::<Vec<_>>().join("; "));
	let term = format!("CaseSR {} {} {} {} {} {} {} {} {}", sr1, sr2, t, tabs, d.term(), sl(sl1), fr(in1), sl(sl2), fr(in2));
	let key = Some(format!("{:016x}", hash(&term)));
	s.case(kind, term, &obs, key);
}

/// the process calls the renderer makes for callbacks of the given sizes
fn chunks_of(callbacks: &[usize], ibs: usize) -> Vec<usize> {
	let mut v = vec![];
	for &n in callbacks {
		let mut left = n;
		while left > 0 {
			let k = left.min(ibs);
			v.push(k);
			left -= k;
		}
	}
	v
}

/// A short history of the shape [frames at sr0] ; one device rate change ; [frames at sr1] as a model case
/// (CaseSR): the observable is what the MANAGER's device output was.  Only sent when the reference has no
/// clamped sample and no negative zero (the mixer's `0 + y` turns -0 into +0).
fn model_send_track(s: &mut Session, cx: &Ctx, d: &Desc, ibs: usize, sr0: u32, sr1: u32, n0: usize, in_flight: bool, pa: &Parts, pb: &Parts, x: &[Frame], x_desc: &str) {
	let h = if in_flight {
		SendHist { ibs, sr0, in_flight: Some(sr1), segs: vec![(None, pa[0].iter().sum())], play_before: 0 }
	} else {
		SendHist { ibs, sr0, in_flight: None, segs: vec![(None, n0), (Some(sr1), pa[1].iter().sum())], play_before: 0 }
	};
	if let Some((a, r)) = check_send_track(s, cx, d, &h, pa, pb, x, x_desc, "two generated partitions") {
		let plain = r.iter().all(|f| [f.left, f.right].iter().all(|v| v.abs() <= 1.0 && !(*v == 0.0 && v.is_sign_negative())));
		if plain {
			let total: usize = h.segs.iter().map(|p| p.1).sum();
			let input: Vec<Frame> = (0..total).map(|i| x.get(i).copied().unwrap_or(Frame::ZERO)).collect();
			if in_flight {
				emit_obs_sr(s, "send_track_rate_history", d, sr0, sr1, ibs, &[], &[], &chunks_of(&pa[0], ibs), &input, &a);
			} else {
				emit_obs_sr(s, "send_track_rate_history", d, sr0, sr1, ibs, &chunks_of(&pa[0], ibs), &input[..n0], &chunks_of(&pa[1], ibs), &input[n0..], &a);
			}
		}
	}
}


pub fn run(args: &Args) {
	let mut rng = Rng::new(args.seed ^ 0xC13);
	let mul = args.budget_mul as usize;
	let mut s = Session::new(
		"C13",
		&args.out,
		"From Coq Require Import ZArith List. Import ListNotations. Open Scope Z_scope.\nFrom KV Require Import Base.Corr C13.Run.",
		"run",
		10,
		"one model case = one built-in effect (or a delay with nested feedback effects) built by its public builder, init at a sample rate, processing a generated signal in a generated slicing; observable = every output sample as binary32 bits (or the panic kind); distinct = distinct (effect, parameters, rate, slicing, input) with a non-zero input",
	);
	let cx = Ctx { info: MockInfoBuilder::new().build() };

	// =============================================================== effects hosted by a send track, across device rate changes
	// (directed: runs first on every run, independent of the seed)  "Every effect's output is independent of how
	// the input is split into process calls" for an effect that a real manager hosts on a send track while the
	// device rate changes: the track must tell the effect about each device rate ONCE; an effect with rate
	// dependent state (delay line, reverb network) that is told again at every callback loses its state at
	// every callback boundary, i.e. its output depends on the callback partition.
	{
		let delay5 = Delay { time: Duration::from_millis(5), fb: -6.0, mix: 1.0, fx: vec![] };
		let nested = Delay { time: Duration::from_millis(3), fb: -9.0, mix: 0.5, fx: vec![Filter { mode: 0, cutoff: 3000.0, res: 0.25, mix: 1.0 }, Delay { time: Duration::from_micros(1500), fb: -12.0, mix: 0.5, fx: vec![] }] };
		let reverb = Reverb { fb: 0.5, damp: 0.5, width: 1.0, mix: 1.0 };
		let directed: Vec<(Desc, SendHist)> = vec![
			// the device switches 48 kHz -> 44.1 kHz while the track is idle, the sound starts afterwards
			(delay5.clone(), SendHist { ibs: 128, sr0: 48000, in_flight: None, segs: vec![(None, 512), (Some(44100), 512), (None, 4096)], play_before: 2 }),
			// the device rate changes between add_send_track and the renderer's first callback
			(delay5.clone(), SendHist { ibs: 128, sr0: 48000, in_flight: Some(44100), segs: vec![(None, 4096)], play_before: 0 }),
			// the rate changes while the sound is playing
			(nested, SendHist { ibs: 64, sr0: 44100, in_flight: None, segs: vec![(None, 1024), (Some(22050), 3072)], play_before: 0 }),
			(reverb, SendHist { ibs: 128, sr0: 8000, in_flight: None, segs: vec![(None, 256), (Some(11025), 4096)], play_before: 1 }),
			// back to the rate the track started with
			(delay5, SendHist { ibs: 512, sr0: 44100, in_flight: None, segs: vec![(None, 100), (Some(96000), 100), (Some(44100), 4096)], play_before: 2 }),
		];
		let x = directed_input(2048);
		let x_desc = "2048 frames, frame i = (v, -v/2) with v = ((37 i mod 101) - 50) / 256, then silence";
		for (d, h) in directed.iter() {
			for (sa, sb) in [(64usize, 512usize), (100, 700)] {
				check_send_track(&mut s, &cx, d, h, &parts_fixed(h, sa), &parts_fixed(h, sb), &x, x_desc, &format!("callbacks of {sa} frames vs callbacks of {sb} frames"));
			}
		}
	}

	// =============================================================== model cases (bit-exact)
	let per_kind: usize = (if args.thorough { 300 } else { 45 }) * mul;
	// --- every effect kind on its own, documented ranges, all signal kinds, all rates
	for kind in 0..8u64 {
		for i in 0..per_kind {
			let boundary = i % 6 == 5;
			let sr = gen_sr(&mut rng);
			// draw until the wanted kind comes up (keeps one generator)
			let d = loop {
				let d = gen_desc(&mut rng, sr, 1, true, true, boundary);
				let k = match d {
					Vol(_) => 0,
					Pan(_) => 1,
					Dist { .. } => 2,
					Filter { .. } => 3,
					Eq { .. } => 4,
					Reverb { .. } => 5,
					Comp { .. } => 6,
					Delay { .. } => 7,
				};
				if k == kind {
					break d;
				}
			};
			let (n, sr) = match d {
				Vol(_) | Pan(_) => (12, sr),
				Reverb { .. } => {
					// the comb / all-pass lengths scale with the rate: real rates see only the first
					// reads; a very low rate (lengths 5..40) exercises the whole network
					if i % 3 == 0 {
						(6, sr)
					} else {
						(if args.thorough { 60 } else { 40 }, *rng.pick(&[441u32, 441, 500, 700]))
					}
				}
				Delay { .. } => (rng.range(8, 30) as usize, sr),
				_ => (rng.range(8, 28) as usize, sr),
			};
			let t = *rng.pick(&[4usize, 8, 16, 64]);
			let (input, _sig) = gen_signal(&mut rng, n);
			let slices = gen_slices(&mut rng, n, t);
			let out = emit_case(&mut s, &cx, d.name(), &d, sr, t, &slices, &input);
			// the same run must not depend on the slicing (checked again at length below)
			if let Outcome::Ok(o1) = &out {
				let out2 = run_effect(&cx, &d, sr, t, &vec![1; n], &input);
				match out2 {
					Outcome::Ok(o2) => {
						if let Some(ix) = same_bits(o1, &o2) {
							s.fail(describe(&d, sr), format!("output frame {ix} depends on the slicing {:?} vs one-frame slices", slices), class_of(&d, sr));
						}
					}
					_ => s.fail(describe(&d, sr), "panics when processed one frame at a time".into(), class_of(&d, sr)),
				}
			}
		}
	}
	// --- slices longer than the internal buffer (outside the renderer's contract): the delay's
	//     temp-buffer slice panics; modelled as Panic OutOfBounds
	for _ in 0..3 * mul {
		let sr = 48000;
		let d = Delay { time: Duration::from_secs_f64(20.25 / sr as f64), fb: -6.0, mix: 0.5, fx: vec![] };
		let (input, _) = gen_signal(&mut rng, 24);
		emit_case(&mut s, &cx, "delay_slice_exceeds_internal_buffer", &d, sr, 8, &[4, 12, 8], &input);
	}
	// --- on_change_sample_rate between two runs (delay lines reallocated, reverb rebuilt, filter
	//     state kept, coefficients follow the new dt)
	for i in 0..(if args.thorough { 120 } else { 24 }) * mul {
		let (sr1, sr2) = if i % 4 == 3 { (*rng.pick(&[441u32, 500]), *rng.pick(&[700u32, 441])) } else { (gen_sr(&mut rng), gen_sr(&mut rng)) };
		let d = loop {
			let d = gen_desc(&mut rng, sr1.max(8000), 1, true, true, false);
			let is_rev = matches!(d, Reverb { .. });
			if (i % 4 == 3) == is_rev {
				break d;
			}
		};
		let t = *rng.pick(&[4usize, 8, 16]);
		let n = if matches!(d, Reverb { .. }) { 20 } else { rng.range(6, 16) as usize };
		let (in1, _) = gen_signal(&mut rng, n);
		let in2 = noise(&mut rng, n, 1.0);
		let sl1 = gen_slices(&mut rng, n, t);
		let sl2 = gen_slices(&mut rng, n, t);
		emit_case_sr(&mut s, &cx, &d, sr1, sr2, t, &sl1, &in1, &sl2, &in2);
	}
	// --- regression corpus of the two repaired findings (a recurrence is a VIOLATION) and the
	//     witness of the remaining _refuted lemma, replayed on the implementation
	{
		let x = vec![Frame::new(0.5, -0.25), Frame::new(0.0, 1.0), Frame::new(-1.0, 0.75), Frame::new(0.125, 0.0)];
		// F3: delay_time ZERO / shorter than one frame: the line holds one frame
		for (time, sr) in [(Duration::ZERO, 48000u32), (Duration::from_micros(100), 8000), (Duration::from_nanos(1), 192000)] {
			for mix in [0.0f32, 0.5, 1.0] {
				let d = Delay { time, fb: -6.0, mix, fx: vec![] };
				let o = emit_case(&mut s, &cx, "regression_F3", &d, sr, 8, &[1, 3], &x);
				match o {
					Outcome::Ok(v) => {
						if mix == 0.0 && same_bits(&v, &x).is_some() {
							s.fail(describe(&d, sr), format!("fully dry delay changes the signal: {:?} -> {:?}", x, v), None);
						}
						if v.iter().any(|f| !f.left.is_finite() || !f.right.is_finite()) {
							s.fail(describe(&d, sr), format!("non-finite output {:?}", v), None);
						}
					}
					_ => s.fail(describe(&d, sr), format!("process panics ({}) instead of producing output", last_panic()), None),
				}
			}
		}
		// F4: drive of -60 dB and less, both kinds, dry and wet
		for db in [-60.0f32, -100.0] {
			for hard in [true, false] {
				for mix in [0.0f32, 1.0] {
					let d = Dist { hard, db, mix };
					let o = emit_case(&mut s, &cx, "regression_F4", &d, 48000, 8, &[2, 2], &x);
					match o {
						Outcome::Ok(v) => {
							if v.iter().any(|f| !f.left.is_finite() || !f.right.is_finite()) {
								s.fail(describe(&d, 48000), format!("distortion at {db} dB drive outputs {:?} for input {:?}", v, x), None);
							} else if mix == 0.0 && !v.iter().zip(x.iter()).all(|(a, b)| a.left == b.left && a.right == b.right) {
								s.fail(describe(&d, 48000), format!("fully dry distortion changes the signal: {:?} -> {:?}", x, v), None);
							}
						}
						_ => s.fail(describe(&d, 48000), "process panics".into(), None),
					}
				}
			}
		}
		// compressor ratio 0 (outside the documented range ratio > 0): 0 * inf = NaN on silence
		let d = Comp { thr: 0.0, ratio: 0.0, att: Duration::from_millis(10), rel: Duration::from_millis(100), mk: 0.0, mix: 1.0 };
		let o = emit_case(&mut s, &cx, "witness_ratio0", &d, 48000, 8, &[2], &[Frame::ZERO, Frame::ZERO]);
		if let Outcome::Ok(v) = o {
			if v.iter().any(|f| f.left.is_nan()) {
				s.notes.push("compressor ratio = 0.0 (outside the documented ratio > 0): silence in gives NaN out (0 * inf), as the model's compressor_silence_refuted predicts".into());
			}
		}
	}

	// =============================================================== monitors on long signals
	let reps: usize = (if args.thorough { 200 } else { 25 }) * mul;
	let long_n: usize = if args.thorough { 12000 } else { 4000 };

	// --- partition independence, bit-exact
	for i in 0..reps * 10 {
		let sr = gen_sr(&mut rng);
		let boundary = i % 10 == 9;
		let d = gen_desc(&mut rng, sr, 0, true, i % 2 == 0, boundary);
		let t = *rng.pick(&[16usize, 64, 128, 512]);
		let n = if matches!(d, Reverb { .. }) { long_n.max(sr as usize / 20) } else { long_n };
		let input = if i % 3 == 0 { gen_signal(&mut rng, n).0 } else { noise(&mut rng, n, 1.0) };
		let sl_a = gen_slices(&mut rng, n, t);
		let sl_b = gen_slices(&mut rng, n, t);
		let a = run_effect(&cx, &d, sr, t, &sl_a, &input);
		let b = run_effect(&cx, &d, sr, t, &sl_b, &input);
		let c = run_effect(&cx, &d, sr, t, &vec![t; n / t + 1], &input);
		s.eval_only("mon_partition");
		match (&a, &b, &c) {
			(Outcome::Ok(a), Outcome::Ok(b), Outcome::Ok(c)) => {
				if let Some(ix) = same_bits(a, b).or(same_bits(a, c)) {
					s.fail(describe(&d, sr), format!("partition dependence at frame {ix} (internal buffer {t}; slicings {:?}.. / {:?}..)", &sl_a[..sl_a.len().min(6)], &sl_b[..sl_b.len().min(6)]), class_of(&d, sr));
				}
			}
			_ => {
				s.fail(describe(&d, sr), format!("process panicked: {}", last_panic()), class_of(&d, sr));
			}
		}
	}

	// --- dry identity and identity settings, exact (as values: -0 == +0)
	let check_identity = |s: &mut Session, d: &Desc, sr: u32, input: &[Frame], what: &str| {
		s.eval_only("mon_identity");
		match run_effect(&cx, d, sr, 128, &vec![128; input.len() / 128 + 1], input) {
			Outcome::Ok(o) => {
				for i in 0..o.len() {
					if !(o[i].left == input[i].left && o[i].right == input[i].right) {
						s.fail(describe(d, sr), format!("{what}: frame {i} in {:?} out {:?}", input[i], o[i]), class_of(d, sr));
						break;
					}
				}
			}
			_ => s.fail(describe(d, sr), format!("{what}: process panicked: {}", last_panic()), class_of(d, sr)),
		}
	};
	for i in 0..reps * 10 {
		let sr = gen_sr(&mut rng);
		let input = if i % 2 == 0 { full_scale_noise(&mut rng, long_n) } else { gen_signal(&mut rng, long_n).0 };
		// every effect with a mix, fully dry (parameters over the documented ranges)
		let d = loop {
			let d = gen_desc(&mut rng, sr, 0, true, i % 2 == 0, false);
			if matches!(d, Dist { .. } | Filter { .. } | Comp { .. } | Delay { .. } | Reverb { .. }) {
				break d;
			}
		};
		let mut d = d;
		stabilize(&mut d);
		check_identity(&mut s, &d.with_mix(0.0), sr, &input, "dry mix");
		check_identity(&mut s, &Vol(0.0), sr, &input, "0 dB volume");
		check_identity(&mut s, &Pan(0.0), sr, &input, "centre panning");
		let kind = rng.below(3) as u8;
		let e = Eq { kind, freq: gen_freq(&mut rng, sr), gain: 0.0, q: 0.05 + rng.unit_f64() * 8.0 };
		check_identity(&mut s, &e, sr, &input, "0 dB EQ gain");
		// hard clip at 0 dB drive, fully wet, below full scale
		let bounded: Vec<Frame> = input.iter().map(|f| Frame::new(f.left.clamp(-1.0, 1.0), f.right.clamp(-1.0, 1.0))).collect();
		check_identity(&mut s, &Dist { hard: true, db: 0.0, mix: 1.0 }, sr, &bounded, "hard clip at 0 dB drive");
	}
	// the edges of the two repaired findings: dry distortion at drive <= -60 dB, zero delay
	for db in [-60.0f32, -75.0, -100.0] {
		for hard in [true, false] {
			let input = noise(&mut rng, 256, 1.0);
			check_identity(&mut s, &Dist { hard, db, mix: 0.0 }, 48000, &input, "dry mix");
		}
	}
	for (time, sr) in [(Duration::ZERO, 48000u32), (Duration::from_micros(100), 8000)] {
		let input = noise(&mut rng, 256, 1.0);
		check_identity(&mut s, &Delay { time, fb: -6.0, mix: 0.0, fx: vec![] }, sr, &input, "dry mix");
	}

	// --- silence in -> silence out, state stays cleared (an impulse afterwards gives the response
	//     of a fresh effect, bit for bit)
	for i in 0..reps * 10 {
		let sr = gen_sr(&mut rng);
		let boundary = i % 10 == 9;
		let d = gen_desc(&mut rng, sr, 0, true, i % 2 == 0, boundary);
		let nz = long_n;
		let probe = noise(&mut rng, 600, 0.8);
		let mut input = vec![Frame::ZERO; nz];
		input.extend_from_slice(&probe);
		s.eval_only("mon_silence");
		let a = run_effect(&cx, &d, sr, 128, &vec![128; input.len() / 128 + 1], &input);
		let b = run_effect(&cx, &d, sr, 128, &vec![128; 8], &probe);
		match (a, b) {
			(Outcome::Ok(a), Outcome::Ok(b)) => {
				if let Some(ix) = (0..nz).find(|&i| !(a[i].left == 0.0 && a[i].right == 0.0)) {
					s.fail(describe(&d, sr), format!("silence in, frame {ix} out = {:?}", a[ix]), class_of(&d, sr));
				} else if let Some(ix) = same_bits(&a[nz..], &b) {
					s.fail(describe(&d, sr), format!("state not cleared after {nz} frames of silence: response differs from a fresh effect at frame {ix}"), class_of(&d, sr));
				}
			}
			_ => s.fail(describe(&d, sr), format!("process panicked: {}", last_panic()), class_of(&d, sr)),
		}
	}

	// --- superposition and scaling for the linear effects, 1e-4 of the peak
	let mut worst_lin: f64 = 0.0;
	for i in 0..reps * 10 {
		let sr = gen_sr(&mut rng);
		let d = loop {
			let d = gen_desc(&mut rng, sr, 0, false, i % 2 == 0, false);
			if d.is_linear() {
				break d;
			}
		};
		let mut d = d;
		stabilize(&mut d);
		let n = long_n;
		let x = noise(&mut rng, n, 0.5);
		let y = if i % 2 == 0 { noise(&mut rng, n, 0.5) } else { gen_signal(&mut rng, n).0 };
		let (a, b) = ((rng.range(-8, 8) as f32) / 4.0, (rng.range(-8, 8) as f32) / 4.0);
		let zsig: Vec<Frame> = (0..n).map(|i| x[i] * a + y[i] * b).collect();
		let sl = vec![128; n / 128 + 1];
		s.eval_only("mon_linear");
		match (run_effect(&cx, &d, sr, 128, &sl, &x), run_effect(&cx, &d, sr, 128, &sl, &y), run_effect(&cx, &d, sr, 128, &sl, &zsig)) {
			(Outcome::Ok(ox), Outcome::Ok(oy), Outcome::Ok(oz)) => {
				let mut peak: f64 = 1e-30;
				for i in 0..n {
					// scale of the signals involved: inputs as well as outputs (a high-pass at Nyquist
					// outputs only the rounding noise of a full-scale cancellation)
					peak = peak.max((zsig[i].left as f64).abs()).max((zsig[i].right as f64).abs());
					peak = peak.max((ox[i].left as f64 * a as f64).abs() + (oy[i].left as f64 * b as f64).abs());
					peak = peak.max((ox[i].right as f64 * a as f64).abs() + (oy[i].right as f64 * b as f64).abs());
					peak = peak.max((oz[i].left as f64).abs()).max((oz[i].right as f64).abs());
				}
				let mut worst = 0.0f64;
				let mut at = 0;
				for i in 0..n {
					let el = (oz[i].left as f64 - (ox[i].left as f64 * a as f64 + oy[i].left as f64 * b as f64)).abs();
					let er = (oz[i].right as f64 - (ox[i].right as f64 * a as f64 + oy[i].right as f64 * b as f64)).abs();
					let e = el.max(er);
					if !(e <= worst) {
						worst = e;
						at = i;
					}
				}
				// A filter / EQ whose frequency sits at the Nyquist clamp has a pole at (or next to) -1: its internal
				// state random-walks far above the signal level under noise, and the rounding of that state, not of the
				// signals, sets the size of the defect.  Linearity is a theorem over R (linear_R); the binary32 monitor
				// is a sanity check and uses a coarser bound there (found by the thorough tier: 1.5e-4 at fc = fs/2, q = 7).
				let edge = match &d {
					Desc::Eq { freq, .. } => *freq >= 0.45 * sr as f64,
					Desc::Filter { cutoff, .. } => *cutoff >= 0.45 * sr as f64,
					_ => false,
				};
				let bound = if edge { 1e-2 } else { 1e-4 };
				if !edge {
					worst_lin = worst_lin.max(worst / peak);
				}
				if !(worst <= bound * peak) {
					s.fail(describe(&d, sr), format!("superposition: process({a}x+{b}y) differs from {a}process(x)+{b}process(y) by {worst:e} (peak {peak:e}) at frame {at}"), class_of(&d, sr));
				}
			}
			_ => s.fail(describe(&d, sr), format!("process panicked: {}", last_panic()), class_of(&d, sr)),
		}
	}
	s.notes.push(format!("largest superposition defect / peak over the linear effects: {worst_lin:e} (bound 1e-4)"));

	// --- finiteness over long runs at parameter edges (full-scale noise)
	let soak: usize = if args.thorough { 1_000_000 } else { 200_000 };
	let mut edge: Vec<(Desc, u32)> = vec![];
	for &sr in &[8000u32, 48000, 192000] {
		for mode in 0..4u8 {
			edge.push((Filter { mode, cutoff: 20.0, res: 1.0, mix: 1.0 }, sr));
			edge.push((Filter { mode, cutoff: sr as f64, res: 1.0, mix: 0.5 }, sr));
		}
		for kind in 0..3u8 {
			edge.push((Eq { kind, freq: 20.0, gain: 24.0, q: 0.01 }, sr));
			edge.push((Eq { kind, freq: sr as f64, gain: -24.0, q: 20.0 }, sr));
		}
		edge.push((Reverb { fb: 1.0, damp: 0.0, width: 1.0, mix: 1.0 }, sr));
		edge.push((Reverb { fb: 0.0, damp: 1.0, width: 0.0, mix: 0.5 }, sr));
		edge.push((Delay { time: Duration::from_secs_f64(1.5 / sr as f64), fb: 0.0, mix: 0.5, fx: vec![] }, sr));
		edge.push((
			Delay {
				time: Duration::from_millis(20),
				fb: -0.5,
				mix: 1.0,
				fx: vec![Filter { mode: 0, cutoff: 2000.0, res: 0.9, mix: 1.0 }, Delay { time: Duration::from_millis(3), fb: -3.0, mix: 0.5, fx: vec![Pan(-1.0)] }],
			},
			sr,
		));
		edge.push((Comp { thr: -60.0, ratio: 0.25, att: Duration::from_micros(1), rel: Duration::from_secs(10), mk: 24.0, mix: 1.0 }, sr));
		edge.push((Comp { thr: 0.0, ratio: 1000.0, att: Duration::ZERO, rel: Duration::ZERO, mk: -24.0, mix: 0.5 }, sr));
		for hard in [true, false] {
			edge.push((Dist { hard, db: 60.0, mix: 1.0 }, sr));
			edge.push((Dist { hard, db: -59.0, mix: 0.5 }, sr));
			edge.push((Dist { hard, db: -60.0, mix: 0.5 }, sr));
		}
		edge.push((Vol(24.0), sr));
		edge.push((Vol(-60.0), sr));
		edge.push((Pan(1.0), sr));
		edge.push((Pan(-1.0), sr));
	}
	for (d, _) in edge.iter_mut() {
		stabilize(d);
	}
	for (d, sr) in edge.iter() {
		let input = full_scale_noise(&mut rng, soak);
		s.eval_only("mon_finite_soak");
		match run_effect(&cx, d, *sr, 512, &vec![512; soak / 512 + 1], &input) {
			Outcome::Ok(o) => {
				if let Some(ix) = o.iter().position(|f| !f.left.is_finite() || !f.right.is_finite()) {
					s.fail(describe(d, *sr), format!("non-finite output {:?} at frame {ix} of {soak} frames of full-scale noise", o[ix]), class_of(d, *sr));
				}
			}
			_ => s.fail(describe(d, *sr), format!("process panicked: {}", last_panic()), class_of(d, *sr)),
		}
	}

	// own stream for the scenarios below, decorrelated between seeds (`Rng::new` streams of neighbouring seeds are
	// shifts of one another); the scenarios above keep the stream they always had
	let mut rng = Rng::new(args.seed ^ 0xC13_0B).fork();
	// =============================================================== parameters linked to a modulator
	// The identity settings of the property ("set fully dry", 0 dB volume, centre panning, 0 dB EQ gain, hard
	// clip at 0 dB drive) reached through `Value::FromModulator`: the modulator sits at or beyond the end of the
	// mapping's input range whose output is the identity value, with every easing curve and either orientation
	// of the ranges.  After the one call in which the parameter leaves its default, the effect must be the
	// identity (exact, as values), and bit for bit what the model says for the same effect with the parameter
	// fixed at the identity value.
	let pick_linkable = |rng: &mut Rng, sr: u32, small: bool| -> (Desc, bool) {
		let mut d = gen_desc(rng, sr, 0, true, small, false);
		stabilize(&mut d);
		let drive = matches!(d, Dist { .. }) && rng.chance(1, 2);
		if drive {
			d = Dist { hard: true, db: 0.0, mix: 1.0 };
		}
		(d, drive)
	};
	for i in 0..reps * 8 {
		let sr = gen_sr(&mut rng);
		let short = i % 2 == 0;
		let (d, drive) = pick_linkable(&mut rng, sr, short || i % 4 == 1);
		let other = gen_other_end(&mut rng, &d, drive);
		let l = gen_pinned_link(&mut rng, other);
		let t = if short { *rng.pick(&[8usize, 16, 64]) } else { 128 };
		let n = if short {
			if matches!(d, Reverb { .. }) {
				6
			} else {
				rng.range(8, 20) as usize
			}
		} else {
			long_n
		};
		// (short runs go to the model as well: a short warm-up keeps a case within its vm_compute budget)
		let warm = rng.range(1, if short { 4 } else { t as i64 }) as usize;
		let mut input = if i % 3 == 0 { gen_signal(&mut rng, n).0 } else { full_scale_noise(&mut rng, n) };
		if drive {
			// "below full scale"
			for f in input.iter_mut() {
				*f = Frame::new(f.left.clamp(-1.0, 1.0), f.right.clamp(-1.0, 1.0));
			}
		}
		let slices = if short { gen_slices(&mut rng, n, t) } else { vec![t; n / t + 1] };
		let what = format!("{:?} with its {} (shown at the value it is pinned to) linked to a modulator at {:?} through {:?} (position {} in the input range: pinned to the end that maps to 0.0) @ {} Hz", ident_of(&d, drive), if drive { "drive" } else { linked_name(&d) }, l.v, l, l.raw_amount(), sr);
		s.eval_only("mon_linked_identity");
		match run_linked(&d, &l, drive, sr, t, warm, &slices, &input) {
			Outcome::Ok((w, o)) => {
				if let Some(ix) = (0..o.len()).find(|&i| !(o[i].left == input[i].left && o[i].right == input[i].right)) {
					s.fail(what.clone(), format!("parameter pinned to its identity value (fully dry / 0 dB / centre) but the signal changes: frame {ix} in {:?} out {:?}", input[ix], o[ix]), None);
				} else if let Some(ix) = w.iter().position(|f| !(f.left == 0.0 && f.right == 0.0)) {
					s.fail(what.clone(), format!("silence in (first call), frame {ix} out = {:?}", w[ix]), None);
				}
				if short && i % 4 == 0 {
					// model: the same effect with the parameter FIXED at the identity value, run over the warm-up
					// silence and the signal
					let di = ident_of(&d, drive);
					let mut all_in = vec![Frame::ZERO; warm];
					all_in.extend_from_slice(&input);
					let mut all_sl = vec![warm];
					all_sl.extend_from_slice(&slices);
					let mut all_out = w.clone();
					all_out.extend_from_slice(&o);
					emit_obs(&mut s, "linked_pinned_identity", &di, sr, t, &all_sl, &all_in, Outcome::Ok(all_out));
				}
			}
			_ => s.fail(what, format!("process panicked: {}", last_panic()), None),
		}
	}
	// finite output for finite input with a linked parameter anywhere in / around the input range, output range
	// inside the documented range of the parameter
	for i in 0..reps * 4 {
		let sr = gen_sr(&mut rng);
		let (d, drive) = pick_linkable(&mut rng, sr, i % 2 == 0);
		let (a, b) = (gen_other_end(&mut rng, &d, drive), if rng.chance(1, 2) { 0.0 } else { gen_other_end(&mut rng, &d, drive) });
		let input_range = gen_input_range(&mut rng);
		let w = input_range.1 - input_range.0;
		let l = Link { v: input_range.0 + w * (rng.unit_f64() * 4.0 - 1.5), input: input_range, output: if rng.chance(1, 2) { (a, b) } else { (b, a) }, easing: gen_easing(&mut rng) };
		let input = full_scale_noise(&mut rng, long_n);
		s.eval_only("mon_linked_finite");
		let what = format!("{:?} with its {} (the value shown for it is not used) linked to a modulator at {:?} through {:?} @ {} Hz", d, if drive { "drive" } else { linked_name(&d) }, l.v, l, sr);
		match run_linked(&d, &l, drive, sr, 128, 64, &vec![128; long_n / 128 + 1], &input) {
			Outcome::Ok((_, o)) => {
				if let Some(ix) = o.iter().position(|f| !f.left.is_finite() || !f.right.is_finite()) {
					s.fail(what, format!("non-finite output {:?} at frame {ix} for finite input {:?} (finite modulator value, finite ranges)", o[ix], input[ix]), None);
				}
			}
			_ => s.fail(what, format!("process panicked: {}", last_panic()), None),
		}
	}

	// =============================================================== histories of device sample rates
	// "finite output for finite input ... for arbitrarily long runs" where the run includes changes of the
	// device rate (init at one rate, on_change_sample_rate to others; also a change before the first frame,
	// which is what a track added just before a device switch sees).  Random effects and, for the two filters
	// whose stability clamp moves with the rate, frequencies between the Nyquist frequencies of the two rates.
	let seg_n: usize = if args.thorough { 20000 } else { 6000 };
	let mut hist: Vec<(Desc, Vec<u32>, bool)> = vec![];
	for i in 0..reps * 2 {
		let k = rng.range(2, 3) as usize;
		let mut rates: Vec<u32> = (0..k).map(|_| gen_sr(&mut rng)).collect();
		if i % 2 == 0 {
			rates.sort_by(|a, b| b.cmp(a));
		}
		let mut d = gen_desc(&mut rng, rates[0], 0, true, i % 2 == 0, false);
		stabilize(&mut d);
		hist.push((d, rates, i % 4 < 2));
	}
	for &(sr1, sr2) in &[(48000u32, 22050u32), (44100, 16000), (96000, 44100), (192000, 48000), (48000, 32000), (22050, 48000)] {
		for &u in &[0.6f64, 0.75, 0.9] {
			let f = u * sr2 as f64;
			for mode in 0..4u8 {
				hist.push((Filter { mode, cutoff: f, res: gen_unit_edge(&mut rng), mix: *rng.pick(&[1.0f32, 0.5]) }, vec![sr1, sr2], rng.chance(1, 2)));
			}
			for kind in 0..3u8 {
				hist.push((Eq { kind, freq: f, gain: gen_db(&mut rng, -24.0, 24.0), q: 0.05 + rng.unit_f64() * 8.0 }, vec![sr1, sr2], rng.chance(1, 2)));
			}
		}
	}
	for (d, rates, in_flight) in hist.iter() {
		let segs: Vec<(u32, Vec<Frame>)> = rates.iter().enumerate().map(|(k, &sr)| (sr, if k == 0 && *in_flight { vec![] } else { full_scale_noise(&mut rng, seg_n) })).collect();
		s.eval_only("mon_finite_rate_history");
		let what = format!("{:?}: init at {} Hz{}, then on_change_sample_rate to {:?}, {} frames of full-scale noise per rate", d, rates[0], if *in_flight { " (no frame processed at that rate)" } else { "" }, &rates[1..], seg_n);
		match run_history(&cx, d, 128, &segs) {
			Outcome::Ok(o) => {
				'outer: for (k, seg) in o.iter().enumerate() {
					if let Some(ix) = seg.iter().position(|f| !f.left.is_finite() || !f.right.is_finite()) {
						s.fail(what.clone(), format!("non-finite output {:?} at frame {ix} of the run at {} Hz (segment {k}); input frame {:?}", seg[ix], rates[k], segs[k].1[ix]), None);
						break 'outer;
					}
				}
			}
			_ => s.fail(what, format!("process panicked: {}", last_panic()), None),
		}
	}
	// the same as short model cases (coefficients follow the rate in force, bit for bit)
	for i in 0..(if args.thorough { 48 } else { 12 }) * mul {
		let (sr1, sr2) = *rng.pick(&[(48000u32, 22050u32), (44100, 16000), (96000, 44100), (192000, 48000), (48000, 32000)]);
		let f = *rng.pick(&[0.6f64, 0.75, 0.9]) * sr2 as f64;
		let d = if i % 3 == 2 {
			Eq { kind: rng.below(3) as u8, freq: f, gain: gen_db(&mut rng, -24.0, 24.0), q: 0.05 + rng.unit_f64() * 8.0 }
		} else {
			Filter { mode: rng.below(4) as u8, cutoff: f, res: gen_unit_edge(&mut rng), mix: gen_mix(&mut rng) }
		};
		let t = 8;
		let n1 = if i % 2 == 0 { 0 } else { rng.range(4, 10) as usize };
		let in1 = noise(&mut rng, n1, 1.0);
		let in2 = noise(&mut rng, 12, 1.0);
		let sl1 = gen_slices(&mut rng, n1, t);
		let sl2 = gen_slices(&mut rng, 12, t);
		emit_case_sr(&mut s, &cx, &d, sr1, sr2, t, &sl1, &in1, &sl2, &in2);
	}
	// =============================================================== effects hosted by a send track: generated histories
	{
		let mut rng = Rng::new(args.seed ^ 0xC13_5E).fork();
		// long runs (monitors only)
		for i in 0..reps * 2 {
			let sr0 = gen_sr(&mut rng);
			let k = rng.range(1, 2) as usize;
			let rates: Vec<u32> = (0..k).map(|_| if rng.chance(1, 5) { sr0 } else { gen_sr(&mut rng) }).collect();
			let last = *rates.last().unwrap();
			let mut d = match i % 4 {
				0 | 1 => {
					// a delay line that is shorter than the run (whole frames at the last rate, a little more in time)
					let frames = rng.range(1, 900) as f64;
					let nfx = rng.below(3);
					let fx = (0..nfx).map(|_| gen_desc(&mut rng, last, 1, false, true, false)).collect();
					Delay { time: Duration::from_secs_f64((frames + 0.25) / last as f64), fb: gen_db(&mut rng, -30.0, 0.0), mix: *rng.pick(&[1.0f32, 1.0, 0.5, 0.25]), fx }
				}
				2 => Reverb { fb: gen_unit_edge(&mut rng), damp: gen_unit_edge(&mut rng), width: gen_unit_edge(&mut rng), mix: *rng.pick(&[1.0f32, 0.5]) },
				_ => gen_desc(&mut rng, last, 0, true, true, false),
			};
			stabilize(&mut d);
			let ibs = *rng.pick(&[16usize, 64, 128, 512]);
			let in_flight = if rng.chance(1, 3) { Some(gen_sr(&mut rng)) } else { None };
			let n = if matches!(d, Reverb { .. }) { long_n.max(last as usize / 8) } else { long_n };
			// idle segments, the rate changes spread over them and the playing segment(s)
			let mut segs: Vec<(Option<u32>, usize)> = vec![];
			let idle = rng.below(3) as usize;
			for _ in 0..idle {
				segs.push((None, rng.range(0, 300) as usize));
			}
			let play_before = segs.len();
			if rng.chance(1, 4) {
				// one change while the sound is playing
				segs.push((None, n / 4));
			}
			segs.push((None, n));
			for (j, r) in rates.iter().enumerate() {
				// the last change lands on the last segment or on the one before it
				let at = if j + 1 == rates.len() { segs.len() - 1 - (rng.below(2) as usize).min(segs.len() - 1) } else { rng.below(segs.len() as u64) as usize };
				segs[at].0 = Some(*r);
			}
			let h = SendHist { ibs, sr0, in_flight, segs, play_before };
			let x = noise(&mut rng, n * 3 / 4, 0.25);
			let small = *rng.pick(&[16usize, 32, 64, 100]);
			let pa = parts_fixed(&h, small);
			let (pb, pdesc) = if i % 2 == 0 { (parts_fixed(&h, *rng.pick(&[512usize, 1024, 700])), "small fixed callbacks vs large fixed callbacks") } else { (parts_random(&mut rng, &h, 1500), "small fixed callbacks vs callbacks of random sizes") };
			let x_desc = format!("{} frames of noise (amplitude 0.25, generated from the seed), then silence", x.len());
			check_send_track(&mut s, &cx, &d, &h, &pa, &pb, &x, &x_desc, &format!("{pdesc}: {small} frames vs {:?}..", &pb.last().unwrap()[..pb.last().unwrap().len().min(4)]));
		}
		// short runs, also sent to the model (CaseSR: the effect of the send track is the modelled effect taken through
		// init at the manager's rate, frames, one change of rate, frames)
		for i in 0..(if args.thorough { 60 } else { 12 }) * mul {
			let (sr0, sr1) = loop {
				let p = (gen_sr(&mut rng), gen_sr(&mut rng));
				if p.0 != p.1 {
					break p;
				}
			};
			let frames = rng.range(1, 6) as f64;
			let mut d = match i % 3 {
				0 => Delay { time: Duration::from_secs_f64((frames + 0.25) / sr0.max(sr1) as f64), fb: gen_db(&mut rng, -30.0, 0.0), mix: gen_mix(&mut rng), fx: vec![] },
				1 => Delay { time: Duration::from_secs_f64((frames + 0.25) / sr0.max(sr1) as f64), fb: gen_db(&mut rng, -30.0, -3.0), mix: gen_mix(&mut rng), fx: vec![gen_desc(&mut rng, sr1, 2, false, true, false)] },
				_ => loop {
					let d = gen_desc(&mut rng, sr1, 1, false, true, false);
					if !matches!(d, Reverb { .. }) {
						break d;
					}
				},
			};
			stabilize(&mut d);
			let ibs = *rng.pick(&[4usize, 8]);
			let in_flight = i % 2 == 1;
			let n0 = if in_flight { 0 } else { rng.range(3, 8) as usize };
			let n1 = rng.range(10, 16) as usize;
			let hh = SendHist { ibs, sr0, in_flight: None, segs: if in_flight { vec![(None, n1)] } else { vec![(None, n0), (None, n1)] }, play_before: 0 };
			let pa = parts_random(&mut rng, &hh, 6);
			let pb = parts_fixed(&hh, 16);
			let x = noise(&mut rng, n0 + n1 - 3, 0.25);
			model_send_track(&mut s, &cx, &d, ibs, sr0, sr1, n0, in_flight, &pa, &pb, &x, &format!("{:?}", x));
		}
	}
	s.finish();
}
