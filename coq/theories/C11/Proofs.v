(** C11 — the whole mixer is a frame-sequential transducer, hence the rendered audio does not
    depend on the internal buffer size nor on how the device partitions its callbacks.
    Everything is proved on the signal-level specification of C02 (which the buffer-level model
    refines for every b), for ANY frame arithmetic — no algebraic law is used, so the equality is
    bit-for-bit for IEEE floats. *)
From Coq Require Import List Arith Bool PeanoNat Lia.
From KV Require Import C02.Model C02.ProofsList C02.ProofsRefine C02.ProofsCor.
Import ListNotations.

Section Seq.
  Variable O : ops.
  Local Notation F := (tF O).

  (** ** the hypotheses (premise "all parameters constant, no commands in flight") *)
  (** a sound is a frame-sequential source: asking for n then m frames = asking for n + m
      (to be discharged for the static / streaming sound by C04 / C09) *)
  Definition sound_seq : Prop :=
    forall env s n m,
      snd_call O env s (n + m) =
      (fst (snd_call O env (fst (snd_call O env s n)) m),
       snd (snd_call O env s n) ++ snd (snd_call O env (fst (snd_call O env s n)) m)).
  (** an effect is a frame-sequential transducer (to be discharged for the built-in effects by C13) *)
  Definition effect_seq : Prop :=
    forall env e xs ys,
      fx_call O env e (xs ++ ys) =
      (fst (fx_call O env (fst (fx_call O env e xs)) ys),
       snd (fx_call O env e xs) ++ snd (fx_call O env (fst (fx_call O env e xs)) ys)).
  (** control is steady: volumes, route volumes, pause state and spatial parameters are fixed
      and idle — the same for every chunk length and every frame of the chunk *)
  Definition ctl_steady : Prop :=
    forall env cs, exists (adv : bool) (g : tG O) (rg : nat -> tG O) (sp : F -> F),
      forall n, fst (o_ctl O env cs n) = cs /\
                c_adv (snd (o_ctl O env cs n)) = adv /\
                (forall i, c_gain (snd (o_ctl O env cs n)) i = g) /\
                (forall r, c_rgain (snd (o_ctl O env cs n)) r = rg r) /\
                (forall i x, c_spat (snd (o_ctl O env cs n)) i x = sp x).
  (** no clocks / modulators / listeners in play *)
  Definition res_steady : Prop := forall res n, o_res O res n = res.

  Hypothesis Hsnd : sound_seq.
  Hypothesis Hfx : effect_seq.
  Hypothesis Hctl : ctl_steady.

  (** ** joining emissions of two consecutive chunks *)
  Definition em_join (e1 e2 : emis O) : emis O :=
    map (fun p => (fst (fst p), snd (fst p) ++ snd (snd p))) (combine e1 e2).
  Definition em_rel (n : nat) (e1 e2 : emis O) : Prop :=
    Forall2 (fun a b => fst a = fst b /\ length (snd a) = n) e1 e2.

  Lemma combine_app' {X Y} (a1 b1 : list X) (a2 b2 : list Y) :
    length a1 = length a2 -> combine (a1 ++ b1) (a2 ++ b2) = combine a1 a2 ++ combine b1 b2.
  Proof.
    revert a2. induction a1 as [|x a1 IH]; intros [|y a2] H; cbn in *; try discriminate; [reflexivity|].
    f_equal. apply IH. lia.
  Qed.
  Lemma em_join_app a1 b1 a2 b2 :
    length a1 = length a2 -> em_join (a1 ++ b1) (a2 ++ b2) = em_join a1 a2 ++ em_join b1 b2.
  Proof. intros H. unfold em_join. now rewrite combine_app', map_app. Qed.
  Lemma em_rel_len n e1 e2 : em_rel n e1 e2 -> length e1 = length e2.
  Proof. induction 1; cbn; congruence. Qed.
  Lemma emit_join r routes rg (z1 z2 : list F) :
    emit_from O r routes rg (z1 ++ z2) = em_join (emit_from O r routes rg z1) (emit_from O r routes rg z2).
  Proof.
    revert r. induction routes as [|k rest IH]; intros r; cbn; [reflexivity|].
    unfold em_join in *. cbn. now rewrite IH, vscale_app.
  Qed.
  Lemma emit_ext r routes rg rg' (z : list F) :
    (forall r, rg r = rg' r) -> emit_from O r routes rg z = emit_from O r routes rg' z.
  Proof.
    intros H. revert r. induction routes as [|k rest IH]; intros r; cbn; [reflexivity|]. now rewrite H, IH.
  Qed.
  Lemma emit_rel r routes rg (z1 z2 : list F) :
    em_rel (length z1) (emit_from O r routes rg z1) (emit_from O r routes rg z2).
  Proof.
    revert r. induction routes as [|k rest IH]; intros r; cbn; constructor; [|apply IH].
    cbn. split; [reflexivity | apply vscale_len].
  Qed.
  Lemma recv_join k n e1 e2 :
    em_rel n e1 e2 ->
    forall a1 a2, length a1 = n -> recv O k (em_join e1 e2) (a1 ++ a2) = recv O k e1 a1 ++ recv O k e2 a2.
  Proof.
    unfold recv. induction 1 as [|x y l1 l2 [Hk Hl] HF IH]; intros a1 a2 Ha; cbn; [reflexivity|].
    unfold em_join in *. cbn. rewrite <- Hk.
    destruct (Nat.eqb (fst x) k).
    - rewrite add_into_app by congruence. apply IH. now rewrite add_into_len.
    - now apply IH.
  Qed.

  (** ** sounds, effects, gain *)
  Lemma sounds_seq env snds n m : forall acc1 acc2,
    length acc1 = n ->
    spec_sounds O env snds (n + m) (acc1 ++ acc2) =
    (fst (spec_sounds O env (fst (spec_sounds O env snds n acc1)) m acc2),
     snd (spec_sounds O env snds n acc1) ++ snd (spec_sounds O env (fst (spec_sounds O env snds n acc1)) m acc2)).
  Proof.
    induction snds as [|s r IH]; intros acc1 acc2 Ha; [reflexivity|].
    cbn [spec_sounds]. rewrite Hsnd.
    pose proof (snd_call_len O env s n) as Hl.
    destruct (snd_call O env s n) as [s1 o1] eqn:C1. cbn [fst snd] in *.
    destruct (snd_call O env s1 m) as [s2 o2] eqn:C2. cbn [fst snd].
    unfold vadd. rewrite add_into_app by congruence.
    rewrite IH by (now rewrite add_into_len).
    destruct (spec_sounds O env r n (add_into O acc1 o1)) as [r1 a1] eqn:R1. cbn [fst snd].
    cbn [spec_sounds]. rewrite C2. unfold vadd.
    destruct (spec_sounds O env r1 m (add_into O acc2 o2)) as [r2 a2]. reflexivity.
  Qed.
  Lemma effects_seq env fx : forall xs ys,
    effects_process O env fx (xs ++ ys) =
    (fst (effects_process O env (fst (effects_process O env fx xs)) ys),
     snd (effects_process O env fx xs) ++ snd (effects_process O env (fst (effects_process O env fx xs)) ys)).
  Proof.
    induction fx as [|e r IH]; intros xs ys; [reflexivity|].
    cbn [effects_process]. rewrite Hfx.
    destruct (fx_call O env e xs) as [e1 o1] eqn:C1. cbn [fst snd].
    destruct (fx_call O env e1 ys) as [e2 o2] eqn:C2. cbn [fst snd].
    rewrite IH.
    destruct (effects_process O env r o1) as [r1 a1] eqn:R1. cbn [fst snd].
    cbn [effects_process]. rewrite C2.
    destruct (effects_process O env r1 o2) as [r2 a2]. reflexivity.
  Qed.
  Lemma gain_const (c : tctl F (tG O)) g (l : list F) :
    (forall i, c_gain c i = g) -> apply_gain O c l = map (fun x => o_scale O x g) l.
  Proof. intros H. unfold apply_gain, mapi. apply mapi_from_const. intros i x. now rewrite H. Qed.
  Lemma spat_const (c : tctl F (tG O)) sp (l : list F) :
    (forall i x, c_spat c i x = sp x) -> apply_spat O c l = map sp l.
  Proof. intros H. unfold apply_spat, mapi. apply mapi_from_const. exact H. Qed.

  (** ** a track *)
  Definition track_seq (n m : nat) (t : strack O) : Prop :=
    forall env t1 sig1 em1 t2 sig2 em2,
      spec_track O env n t = (t1, sig1, em1) -> spec_track O env m t1 = (t2, sig2, em2) ->
      spec_track O env (n + m) t = (t2, sig1 ++ sig2, em_join em1 em2) /\ em_rel n em1 em2.

  Lemma subs_seq n m env l :
    Forall (track_seq n m) l ->
    forall acc1 acc2 l1 a1 em1 l2 a2 em2,
      length acc1 = n ->
      spec_subs O (spec_track O env n) l acc1 = (l1, a1, em1) ->
      spec_subs O (spec_track O env m) l1 acc2 = (l2, a2, em2) ->
      spec_subs O (spec_track O env (n + m)) l (acc1 ++ acc2) = (l2, a1 ++ a2, em_join em1 em2) /\ em_rel n em1 em2.
  Proof.
    induction 1 as [|t l Ht HF IH]; intros acc1 acc2 l1 a1 em1 l2 a2 em2 Ha E1 E2.
    - cbn in E1. injection E1 as <- <- <-. cbn in E2. injection E2 as <- <- <-. cbn. split; [reflexivity | constructor].
    - cbn [spec_subs] in E1.
      pose proof (spec_track_len O env n t) as Hl.
      destruct (spec_track O env n t) as [[t1 sig1] e1] eqn:T1. cbn [fst snd] in Hl.
      destruct (spec_subs O (spec_track O env n) l (vadd O acc1 sig1)) as [[l1' a1'] em1'] eqn:S1.
      injection E1 as <- <- <-.
      cbn [spec_subs] in E2.
      destruct (spec_track O env m t1) as [[t2 sig2] e2] eqn:T2.
      destruct (spec_subs O (spec_track O env m) l1' (vadd O acc2 sig2)) as [[l2' a2'] em2'] eqn:S2.
      injection E2 as <- <- <-.
      destruct (Ht env _ _ _ _ _ _ T1 T2) as [HT HR].
      cbn [spec_subs]. rewrite HT.
      unfold vadd in *. rewrite add_into_app by congruence.
      destruct (IH (add_into O acc1 sig1) (add_into O acc2 sig2) _ _ _ _ _ _ ltac:(now rewrite add_into_len) S1 S2) as [HS HR'].
      rewrite HS. split.
      + rewrite em_join_app by (eapply em_rel_len; exact HR). reflexivity.
      + apply Forall2_app; assumption.
  Qed.

  Lemma track_seq_all n m : forall t, track_seq n m t.
  Proof.
    apply (strack_ind' O). intros cs subs snds fx routes HF env t1 sig1 em1 t2 sig2 em2 E1 E2.
    cbn [spec_track] in *.
    destruct (Hctl (o_env O cs env) cs) as (adv & g & rg & sp & Hc).
    destruct (Hc n) as (Hs1 & Ha1 & Hg1 & Hr1 & Hp1).
    destruct (Hc m) as (Hs2 & Ha2 & Hg2 & Hr2 & Hp2).
    destruct (Hc (n + m)) as (Hs3 & Ha3 & Hg3 & Hr3 & Hp3).
    destruct (o_ctl O (o_env O cs env) cs n) as [cs1 c1]. cbn [fst snd] in *. subst cs1.
    destruct (o_ctl O (o_env O cs env) cs (n + m)) as [cs3 c3]. cbn [fst snd] in *. subst cs3.
    rewrite Ha3. rewrite Ha1 in E1.
    destruct adv.
    - destruct (spec_subs O (spec_track O (o_env O cs env) n) subs (zeros O n)) as [[l1 a1] e1] eqn:S1.
      pose proof (spec_subs_len O (o_env O cs env) n subs (zeros O n)) as Hl1. rewrite S1, zeros_len in Hl1. cbn [fst snd] in Hl1.
      pose proof (spec_sounds_len O (o_env O cs env) snds n a1) as Hl2.
      destruct (spec_sounds O (o_env O cs env) snds n a1) as [sn1 b1] eqn:N1. cbn [fst snd] in Hl2.
      pose proof (effects_process_len O (o_env O cs env) fx b1) as Hl3.
      destruct (effects_process O (o_env O cs env) fx b1) as [fx1 y1] eqn:X1. cbn [fst snd] in Hl3.
      injection E1 as <- <- <-.
      cbn [spec_track] in E2.
      destruct (o_ctl O (o_env O cs env) cs m) as [cs2 c2]. cbn [fst snd] in *. subst cs2.
      rewrite Ha2 in E2.
      destruct (spec_subs O (spec_track O (o_env O cs env) m) l1 (zeros O m)) as [[l2 a2] e2] eqn:S2.
      destruct (spec_sounds O (o_env O cs env) sn1 m a2) as [sn2 b2] eqn:N2.
      destruct (effects_process O (o_env O cs env) fx1 b2) as [fx2 y2] eqn:X2.
      injection E2 as <- <- <-.
      rewrite <- zeros_app.
      destruct (subs_seq n m (o_env O cs env) subs HF (zeros O n) (zeros O m) _ _ _ _ _ _ (zeros_len O n) S1 S2) as [HS HR].
      rewrite HS.
      rewrite sounds_seq by exact Hl1. rewrite N1. cbn [fst snd]. rewrite N2. cbn [fst snd].
      rewrite effects_seq. rewrite X1. cbn [fst snd]. rewrite X2. cbn [fst snd].
      rewrite !(gain_const _ g) by assumption. rewrite !(spat_const _ sp) by assumption.
      rewrite !map_app.
      rewrite (emit_ext 0 routes (c_rgain c3) rg), (emit_ext 0 routes (c_rgain c1) rg), (emit_ext 0 routes (c_rgain c2) rg) by assumption.
      split.
      + rewrite emit_join. rewrite em_join_app by (eapply em_rel_len; exact HR). reflexivity.
      + apply Forall2_app; [exact HR|].
        assert (Hn : length (map (fun x : F => o_scale O x g) (map sp y1)) = n) by (rewrite !map_length; congruence).
        rewrite <- Hn. apply emit_rel.
    - injection E1 as <- <- <-. cbn [spec_track] in E2.
      destruct (o_ctl O (o_env O cs env) cs m) as [cs2 c2]. cbn [fst snd] in *. subst cs2.
      rewrite Ha2 in E2. injection E2 as <- <- <-.
      rewrite zeros_app. split; [reflexivity | constructor].
  Qed.

  (** ** sends, main, the whole mixer *)
  Lemma sends_seq env n m em1 em2 :
    em_rel n em1 em2 ->
    forall l acc1 acc2, length acc1 = n ->
      spec_sends O env (n + m) (em_join em1 em2) l (acc1 ++ acc2) =
      (fst (spec_sends O env m em2 (fst (spec_sends O env n em1 l acc1)) acc2),
       snd (spec_sends O env n em1 l acc1) ++ snd (spec_sends O env m em2 (fst (spec_sends O env n em1 l acc1)) acc2)).
  Proof.
    intros HR. induction l as [|[k s] l IH]; intros acc1 acc2 Ha; cbn [spec_sends]; [reflexivity|].
    unfold spec_send. rewrite !send_input_recv, !recv_len, !zeros_len.
    rewrite <- zeros_app. rewrite (recv_join k n em1 em2 HR) by apply zeros_len.
    destruct (Hctl env (ss_ctl O s)) as (adv & g & rg & sp & Hc).
    destruct (Hc n) as (Hs1 & _ & Hg1 & _ & _).
    destruct (Hc m) as (Hs2 & _ & Hg2 & _ & _).
    destruct (Hc (n + m)) as (Hs3 & _ & Hg3 & _ & _).
    destruct (o_ctl O env (ss_ctl O s) (n + m)) as [cs3 c3]. cbn [fst snd] in *. subst cs3.
    destruct (o_ctl O env (ss_ctl O s) n) as [cs1 c1]. cbn [fst snd] in *. subst cs1.
    unfold vadd. rewrite add_into_app by (now rewrite zeros_len, recv_len, zeros_len).
    rewrite effects_seq.
    destruct (effects_process O env (ss_fx O s) (add_into O (zeros O n) (recv O k em1 (zeros O n)))) as [fx1 y1] eqn:X1.
    cbn [fst snd ss_ctl ss_fx].
    destruct (o_ctl O env (ss_ctl O s) m) as [cs2 c2] eqn:C2m. cbn [fst snd] in *. subst cs2.
    destruct (effects_process O env fx1 (add_into O (zeros O m) (recv O k em2 (zeros O m)))) as [fx2 y2] eqn:X2.
    cbn [fst snd].
    rewrite !(gain_const _ g) by assumption. rewrite map_app.
    pose proof (effects_process_len O env (ss_fx O s) (add_into O (zeros O n) (recv O k em1 (zeros O n)))) as Hl.
    rewrite X1 in Hl. cbn [snd] in Hl. rewrite add_into_len, zeros_len in Hl.
    rewrite add_into_app by (rewrite map_length; congruence).
    rewrite IH by (now rewrite add_into_len).
    destruct (spec_sends O env n em1 l _) as [l1 a1] eqn:L1. cbn [fst snd].
    cbn [spec_sends]. unfold spec_send. cbn [ss_ctl ss_fx]. rewrite send_input_recv, recv_len, zeros_len.
    rewrite C2m. unfold vadd. rewrite X2. cbn [fst snd]. rewrite (gain_const _ g) by assumption.
    destruct (spec_sends O env m em2 l1 _) as [l2 a2]. reflexivity.
  Qed.

  Theorem mix_seq env sx n m :
    spec_mix O env sx (n + m) =
    (fst (spec_mix O env (fst (spec_mix O env sx n)) m),
     snd (spec_mix O env sx n) ++ snd (spec_mix O env (fst (spec_mix O env sx n)) m)).
  Proof.
    unfold spec_mix.
    destruct (spec_subs O (spec_track O env n) (sx_subs O sx) (zeros O n)) as [[l1 a1] e1] eqn:S1.
    pose proof (spec_subs_len O env n (sx_subs O sx) (zeros O n)) as Hl1. rewrite S1, zeros_len in Hl1. cbn [fst snd] in Hl1.
    pose proof (spec_sends_len O env n e1 (sx_sends O sx) a1) as Hl2.
    destruct (spec_sends O env n e1 (sx_sends O sx) a1) as [sd1 b1] eqn:D1. cbn [fst snd] in Hl2.
    unfold spec_main.
    destruct (Hctl env (sm_ctl O (sx_main O sx))) as (adv & g & rg & sp & Hc).
    destruct (Hc n) as (Hs1 & _ & Hg1 & _ & _).
    destruct (Hc m) as (Hs2 & _ & Hg2 & _ & _).
    destruct (Hc (n + m)) as (Hs3 & _ & Hg3 & _ & _).
    destruct (o_ctl O env (sm_ctl O (sx_main O sx)) n) as [cs1 c1]. cbn [fst snd] in *. subst cs1.
    destruct (spec_sounds O env (sm_snds O (sx_main O sx)) n b1) as [sn1 d1] eqn:N1.
    destruct (effects_process O env (sm_fx O (sx_main O sx)) d1) as [fx1 y1] eqn:X1.
    cbn [fst snd sx_main sx_subs sx_sends sm_ctl sm_snds sm_fx].
    destruct (spec_subs O (spec_track O env m) l1 (zeros O m)) as [[l2 a2] e2] eqn:S2.
    destruct (spec_sends O env m e2 sd1 a2) as [sd2 b2] eqn:D2.
    destruct (o_ctl O env (sm_ctl O (sx_main O sx)) m) as [cs2 c2]. cbn [fst snd] in *. subst cs2.
    destruct (spec_sounds O env sn1 m b2) as [sn2 d2] eqn:N2.
    destruct (effects_process O env fx1 d2) as [fx2 y2] eqn:X2.
    cbn [fst snd].
    rewrite <- zeros_app.
    assert (HF : Forall (track_seq n m) (sx_subs O sx)) by (apply Forall_forall; intros; apply track_seq_all).
    destruct (subs_seq n m env (sx_subs O sx) HF (zeros O n) (zeros O m) _ _ _ _ _ _ (zeros_len O n) S1 S2) as [HS HR].
    rewrite HS.
    rewrite (sends_seq env n m e1 e2 HR) by exact Hl1. rewrite D1. cbn [fst snd]. rewrite D2. cbn [fst snd].
    destruct (o_ctl O env (sm_ctl O (sx_main O sx)) (n + m)) as [cs3 c3]. cbn [fst snd] in *. subst cs3.
    rewrite sounds_seq by congruence. rewrite N1. cbn [fst snd]. rewrite N2. cbn [fst snd].
    rewrite effects_seq. rewrite X1. cbn [fst snd]. rewrite X2. cbn [fst snd].
    rewrite !(gain_const _ g) by assumption. now rewrite map_app.
  Qed.

  (** ** chunk lists *)
  Hypothesis Hres : res_steady.

  Lemma chunk_seq ch st n m :
    spec_chunk O ch st (n + m) =
    (fst (spec_chunk O ch (fst (spec_chunk O ch st n)) m),
     snd (spec_chunk O ch st n) ++ snd (spec_chunk O ch (fst (spec_chunk O ch st n)) m)).
  Proof.
    unfold spec_chunk. rewrite !Hres. rewrite mix_seq.
    destruct (spec_mix O (fst st) (snd st) n) as [sx1 o1]. cbn [fst snd]. rewrite ?Hres.
    destruct (spec_mix O (fst st) sx1 m) as [sx2 o2]. cbn [fst snd]. now rewrite flat_map_app.
  Qed.
  Lemma chunks_as_one ch ms : ms <> [] -> forall st, spec_chunks O ch st ms = spec_chunk O ch st (list_sum ms).
  Proof.
    induction ms as [|m ms IH]; intros Hne st; [congruence|].
    destruct ms as [|m' ms'].
    - cbn [spec_chunks list_sum fold_right]. rewrite Nat.add_0_r.
      destruct (spec_chunk O ch st m) as [st1 o1]. now rewrite app_nil_r.
    - change (list_sum (m :: m' :: ms')) with (m + list_sum (m' :: ms')).
      rewrite chunk_seq. cbn [spec_chunks] in *.
      destruct (spec_chunk O ch st m) as [st1 o1]. cbn [fst snd].
      rewrite (IH ltac:(discriminate) st1).
      destruct (spec_chunk O ch st1 (list_sum (m' :: ms'))) as [st2 o2]. reflexivity.
  Qed.
  Theorem chunks_partition_independent ch st ms ms' :
    Forall (fun m => 1 <= m) ms -> Forall (fun m => 1 <= m) ms' -> list_sum ms = list_sum ms' ->
    spec_chunks O ch st ms = spec_chunks O ch st ms'.
  Proof.
    intros H1 H2 E.
    destruct ms as [|m ms]; destruct ms' as [|m' ms'].
    - reflexivity.
    - inversion H2; subst. cbn in E. lia.
    - inversion H1; subst. cbn in E. lia.
    - rewrite !chunks_as_one by discriminate. now rewrite E.
  Qed.
End Seq.

(** ** callbacks = concatenated chunk lists (any ops) *)
Section Callbacks.
  Variable O : ops.
  Lemma run_chunks_app' ch (r : renderer O) a b :
    run_chunks O ch r (a ++ b) =
    (fst (run_chunks O ch (fst (run_chunks O ch r a)) b),
     snd (run_chunks O ch r a) ++ snd (run_chunks O ch (fst (run_chunks O ch r a)) b)).
  Proof.
    revert r. induction a as [|m a IH]; intros r; cbn [app run_chunks].
    - cbn. now destruct (run_chunks O ch r b).
    - destruct (process_chunk O ch r m) as [r1 o1]. rewrite IH.
      destruct (run_chunks O ch r1 a) as [r2 o2]. cbn [fst snd].
      destruct (run_chunks O ch r2 b) as [r3 o3]. cbn. now rewrite app_assoc.
  Qed.
  Lemma run_chunks_rb' ch (r : renderer O) ms : r_b O (fst (run_chunks O ch r ms)) = r_b O r.
  Proof.
    revert r. induction ms as [|m ms IH]; intros r; cbn [run_chunks]; [reflexivity|].
    assert (H : r_b O (fst (process_chunk O ch r m)) = r_b O r).
    { unfold process_chunk. destruct (mixer_process O _ _ _). reflexivity. }
    destruct (process_chunk O ch r m) as [r1 o1]. specialize (IH r1).
    destruct (run_chunks O ch r1 ms) as [r2 o2]. cbn in *. congruence.
  Qed.
  Lemma run_callbacks_chunks' ch (r : renderer O) cbs :
    run_callbacks O ch r cbs = run_chunks O ch r (concat (map (chunk_sizes (r_b O r)) cbs)).
  Proof.
    revert r. induction cbs as [|n cbs IH]; intros r; cbn [run_callbacks map concat]; [reflexivity|].
    rewrite run_chunks_app'. pose proof (run_chunks_rb' ch r (chunk_sizes (r_b O r) n)) as Hb.
    destruct (run_chunks O ch r (chunk_sizes (r_b O r) n)) as [r1 o1]. cbn [fst snd] in *.
    rewrite IH, Hb. destruct (run_chunks O ch r1 _) as [r2 o2]. reflexivity.
  Qed.
  Lemma concat_chunks_spec b cbs :
    1 <= b ->
    Forall (fun m => 1 <= m <= b) (concat (map (chunk_sizes b) cbs)) /\
    list_sum (concat (map (chunk_sizes b) cbs)) = list_sum cbs.
  Proof.
    intros Hb. induction cbs as [|n cbs [IH1 IH2]]; cbn [map concat]; [split; [constructor | reflexivity]|].
    destruct (chunk_sizes_spec b n Hb) as [H1 H2]. split.
    - apply Forall_app. now split.
    - rewrite list_sum_app, H2, IH2. reflexivity.
  Qed.

  (** the property: same scene, two (buffer size, callback partition) configurations with the
      same total number of frames: identical device output and identical final state *)
  Theorem render_partition_independent ch b b' cbs cbs' res sx :
    sound_seq O -> effect_seq O -> ctl_steady O -> res_steady O ->
    1 <= b -> 1 <= b' -> NoDup (map fst (sx_sends O sx)) -> list_sum cbs = list_sum cbs' ->
    snd (run_callbacks O ch (conc_renderer O b res sx) cbs) = snd (run_callbacks O ch (conc_renderer O b' res sx) cbs') /\
    abs_mixer O (r_mixer O (fst (run_callbacks O ch (conc_renderer O b res sx) cbs))) =
    abs_mixer O (r_mixer O (fst (run_callbacks O ch (conc_renderer O b' res sx) cbs'))).
  Proof.
    intros Hs Hf Hc Hr Hb Hb' ND E.
    rewrite !run_callbacks_chunks'. cbn [r_b conc_renderer].
    destruct (concat_chunks_spec b cbs Hb) as [F1 S1]. destruct (concat_chunks_spec b' cbs' Hb') as [F2 S2].
    rewrite !chunks_refine; try assumption.
    2:{ eapply Forall_impl; [|exact F2]. cbn. intros; lia. }
    2:{ eapply Forall_impl; [|exact F1]. cbn. intros; lia. }
    cbn [fst snd r_mixer conc_renderer].
    rewrite (chunks_partition_independent O Hs Hf Hc Hr ch (res, sx) _ (concat (map (chunk_sizes b') cbs'))).
    - split; [reflexivity|].
      set (sx' := snd (fst (spec_chunks O ch (res, sx) _))).
      assert (A : forall c, abs_mixer O (conc_mixer O c sx') = sx').
      { intros c. unfold abs_mixer, conc_mixer. cbn. destruct sx' as [mn subs sends]. cbn. f_equal.
        - destruct mn; reflexivity.
        - rewrite map_map. rewrite <- (map_id subs) at 2. apply map_ext_Forall.
          apply Forall_forall. intros t _. revert t.
          apply (strack_ind' O (fun t => abs_track O (conc_track O c t) = t)).
          intros cs su sn fx ro HF. cbn. f_equal. rewrite map_map. rewrite <- (map_id su) at 2.
          apply map_ext_Forall. exact HF.
        - unfold conc_sends. rewrite !map_map. rewrite <- (map_id sends) at 2. apply map_ext.
          intros [k [c0 f]]. reflexivity. }
      now rewrite !A.
    - eapply Forall_impl; [|exact F1]. cbn. intros; lia.
    - eapply Forall_impl; [|exact F2]. cbn. intros; lia.
    - congruence.
  Qed.

  (** a remainder chunk (m < b) uses only the first m entries of every buffer: the result is the
      one obtained with buffers of any other size >= m — no law, no steadiness needed *)
  Theorem remainder_chunk env b b' m sx :
    m <= b -> m <= b' -> NoDup (map fst (sx_sends O sx)) ->
    snd (mixer_process O env (conc_mixer O b sx) (zeros O m)) = snd (mixer_process O env (conc_mixer O b' sx) (zeros O m)) /\
    fst (mixer_process O env (conc_mixer O b sx) (zeros O m)) = conc_mixer O b (fst (spec_mix O env sx m)) /\
    fst (mixer_process O env (conc_mixer O b' sx) (zeros O m)) = conc_mixer O b' (fst (spec_mix O env sx m)).
  Proof. intros H1 H2 ND. rewrite !mixer_refines by assumption. auto. Qed.
End Callbacks.
