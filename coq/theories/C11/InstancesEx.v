(** C11 — the kira instance at IEEE arithmetic (binary32 samples, binary64 time: what kira
    computes), a concrete scene, and the witness for the one place where C04's [process] is not
    sequential in its STATE (a sound that stops in the middle of a chunk).

    Scene: a sub-track (amplitude 0.5, routed to send 7 with amplitude 0.5) with two static sounds
    at rates 1.5 (looping) and 0.75, and the effect chain
        low-pass filter -> delay (3 frames, feedback through a band-pass filter) -> reverb;
    send 7 with a compressor; the main track.  Rendered on a stereo device with
    b = 2 / callbacks 3,1,4 and with b = 3 / callbacks 1,1,2,4 (effects init'ed with b each time). *)
From Coq Require Import ZArith List Bool Lia.
From Flocq Require Import IEEE754.BinarySingleNaN.
From KV Require Import Base.IEEE Base.Outcome Base.Num C06.Model C06.Dur.
From KV Require Import C13.ModelOps C13.ModelEffects C13.ModelTree C13.ProofsSeq.
From KV Require Import C02.Model C02.ProofsCor C11.Proofs C11.InstancesFx C11.InstancesSnd C11.Instances.
From KV Require C04.Model.
Import ListNotations.
Local Open Scope Z_scope.

(** ** the instance *)
Definition ex_fuel : nat := 64.
Definition ex_interp : frame f32 -> frame f32 -> frame f32 -> frame f32 -> f32 -> frame f32 :=
  @C04.Interp.interpolate_frame f32 C04.Model.SOps_f32.
Definition ex_clamp (x : f32) : f32 := clamp32 x (Z32 (-1)) (Z32 1).
Notation kira32 := (kira_ops (F := f32) consts_f32 (T := f64) ex_interp f64_to_f32 (Z32 1) ex_fuel ex_clamp).

(** ** two static sounds ([StaticSound::new] of C04, three-frame pre-fill included) *)
Definition fr (l r : Z) : frame f32 := (dy32 l (-3), dy32 r (-3)).
Definition ex_src : C04.StaticData.source (frame f32) :=
  {| C04.StaticData.src_len := 6;
     C04.StaticData.src_get := fun i => nth (Z.to_nat i) [fr 1 2; fr 3 (-1); fr (-2) 4; fr 5 5; fr (-3) 1; fr 2 (-4)] (Z32 0, Z32 0) |}.
Definition ex_data (lp : option (C04.StaticData.region f64)) (rate : f64) : C04.StaticSound.sdata f64 (frame f32) :=
  {| C04.StaticSound.d_sr := 4; C04.StaticSound.d_src := ex_src; C04.StaticSound.d_slice := None;
     C04.StaticSound.d_settings :=
       {| C04.StaticSound.st_start := C04.StaticData.Samples 0; C04.StaticSound.st_loop := lp;
          C04.StaticSound.st_reverse := false; C04.StaticSound.st_rate := rate |} |}.
Definition ex_new (d : C04.StaticSound.sdata f64 (frame f32)) : option (C04.StaticSound.ssound f64 (frame f32)) :=
  match C04.StaticSound.sound_new (frame f32) (Z32 0, Z32 0) ex_fuel d with Ok s => Some s | _ => None end.
Definition ex_snd1 : tSS kira32 :=
  ex_new (ex_data (Some {| C04.StaticData.rg_start := C04.StaticData.Samples 1;
                           C04.StaticData.rg_end := C04.StaticData.Custom (C04.StaticData.Samples 5) |}) (dy64 3 (-1))).
Definition ex_snd2 : tSS kira32 := ex_new (ex_data None (dy64 3 (-2))).
(** dt = 1 / sample rate of the device = 1/4: increments 1.5 and 0.75 source frames per output frame *)
Definition ex_dt : f64 := dy64 1 (-2).

(** ** effects ([init] of C13) *)
Definition h (m e : Z) : f32 := dy32 m e.
Definition ex_filter : effect f32 := EFilter LowPass (h 1 (-1)) (h 1 (-2)) (h 1 (-3)) (h 3 (-1)) (h 3 (-2)).
Definition ex_bandpass : effect f32 := EFilter BandPass (h 3 (-2)) (h 1 (-2)) (h 1 (-4)) (h 1 0) (h 1 0).
Definition ex_delay : effect f32 := EDelay 3 (h 1 (-1)) (h 1 (-1)) [ex_bandpass].
Definition ex_reverb : effect f32 := EReverb [(3, 4); (5, 2)]%nat [(2, 3)]%nat (h 1 (-1)) (h 1 (-2)) (h 1 0) (h 1 (-1)).
(** stand-ins for libm's log10f / powf(10, .): any functions do, they are arguments of the model *)
Definition ex_log10 (x : f32) : f32 := sub32 x (Z32 1).
Definition ex_pow10 (x : f32) : f32 := add32 (Z32 1) (mul32 x (h 1 (-2))).
Definition ex_comp : effect f32 :=
  ECompressor ex_log10 ex_pow10 (h (-1) 0) (h 4 0) (h 1 (-1)) (h 3 (-2)) (h 1 0) (h 3 (-2)).

Definition ex_scene : smixer kira32 :=
  {| sx_main := {| sm_ctl := ((h 3 (-2), []) : tCS kira32); sm_snds := []; sm_fx := [] |};
     sx_subs := [STrk (O := kira32) (h 1 (-1), [h 1 (-1)]) [] [ex_snd1; ex_snd2]
                      [fx_init ex_filter; fx_init ex_delay; fx_init ex_reverb] [7%nat]];
     sx_sends := [(7%nat, {| ss_ctl := ((h 1 0, []) : tCS kira32); ss_fx := [fx_init ex_comp] |})] |}.

Definition ex_render (b : nat) (cbs : list nat) : list Z :=
  map bits_of_f32 (snd (run_callbacks kira32 2 (conc_renderer kira32 b (ex_dt, b) ex_scene) cbs)).

(** the hypotheses under which the adapters are the code hold of this scene: both sounds exist,
    play, have a fixed rate (as every sound made by [ex_new], i.e. by [StaticSound::new]); every
    effect state is well-formed *)
Example ex_new_steady d s : ex_new d = Some s -> rate_steady (frame f32) s.
Proof.
  unfold ex_new. intros H.
  destruct (C04.StaticSound.sound_new (frame f32) (Z32 0, Z32 0) ex_fuel d) as [s0| |] eqn:E; try discriminate H.
  injection H as <-. eapply sound_new_steady. exact E.
Qed.
Example ex_scene_ok :
  (match ex_snd1, ex_snd2 with
   | Some s1, Some s2 => negb (C04.StaticSound.s_stopped s1) && negb (C04.StaticSound.s_stopped s2)
   | _, _ => false
   end = true) /\
  scene_wf consts_f32 ex_interp f64_to_f32 (Z32 1) ex_fuel ex_clamp ex_scene.
Proof.
  split; [vm_compute; reflexivity|].
  - unfold scene_wf, ex_scene. cbn [sx_main sx_subs sx_sends sm_fx ss_fx snd track_wf].
    repeat match goal with
           | |- _ /\ _ => split
           | |- Forall _ _ => constructor
           | |- True => exact I
           | |- ?f [] => exact I
           | |- _ => progress cbn [track_wf]
           end; apply fx_init_wf; vm_compute; reflexivity.
Qed.

(** two configurations, evaluated: the same 16 device samples, not silence, no NaN *)
Example ex_two_partitions :
  ex_render 2 [3; 1; 4]%nat = ex_render 3 [1; 1; 2; 4]%nat /\
  length (ex_render 2 [3; 1; 4]%nat) = 16%nat /\
  Forall (fun z => 0 <= z) (ex_render 2 [3; 1; 4]%nat) /\
  nth 9 (ex_render 2 [3; 1; 4]%nat) 0 <> 0.
Proof. vm_compute. repeat split; try discriminate. repeat constructor; discriminate. Qed.

(** the same equation from the theorem *)
Example ex_by_theorem : ex_render 2 [3; 1; 4]%nat = ex_render 3 [1; 1; 2; 4]%nat.
Proof.
  unfold ex_render. apply (f_equal (map bits_of_f32)).
  refine (proj1 (render_partition_independent_kira' consts_f32 ex_interp f64_to_f32 (Z32 1) ex_fuel ex_clamp
                   2 2 3 [3; 1; 4]%nat [1; 1; 2; 4]%nat ex_dt ex_scene _ _ _ _)); try lia.
  - vm_compute. repeat constructor. intros [].
  - reflexivity.
Qed.
