(** C11 — the hypotheses of [render_partition_independent] discharged for the modelled kira
    components: [kira_ops] is the instance of C02's [ops] made of
      frames      C13's stereo frames [frame F = F * F] with [Frame +=] / [Frame *= f32] ([fr_add], [fr_scale]);
      sounds      C04's static sound, frame by frame with a fixed rate (C11/InstancesSnd.v: [kiter]);
      effects     C13's effect tree with its [process] (C11/InstancesFx.v: [kfx]), every parameter fixed;
      control     a constant track volume and constant route volumes, never paused, no spatialisation;
      resources   `Info` = (dt, internal buffer size the effects were init'ed with), nothing to update;
      output      clamp, mono = (l + r) / 2, otherwise l, r and silence on the remaining channels.
    The sample type [F], its operations [OPS], the literals [K], the interpolation [interp] of the
    resampler, the casts, the fuel and the time type [T] are Section variables: no law about them is
    used, so every equation below is bit-for-bit for IEEE arithmetic. *)
From Coq Require Import ZArith List Arith Bool PeanoNat Lia.
From KV Require Import Base.Outcome Base.Num C13.ModelOps C13.ModelTree.
From KV Require Import C02.Model C02.ProofsList C02.ProofsRefine C02.ProofsCor C02.ProofsLog.
From KV Require Import C11.Proofs C11.InstancesFx C11.InstancesSnd C11.InstancesEnv.
From KV Require C04.StaticSound.
Import ListNotations.

Section Kira.
  Context {F : Type} {OPS : Ops F}.
  Variable K : consts F.
  Context {T : Type} {NT : Num T}.
  Variable interp : frame F -> frame F -> frame F -> frame F -> F -> frame F.   (* interpolate_frame *)
  Variable cast : T -> F.                 (* [as f32] *)
  Variable fone : F.                      (* Decibels(0.0).as_amplitude() *)
  Variable fuel : nat.                    (* C04's bound on the iterations of one [while] *)
  Variable clamp1 : F -> F.               (* the output stage's clamp to [-1, 1] *)

  (** control state of a track: its amplitude and the amplitudes of its routes *)
  Definition kctl : Type := (F * list F)%type.
  Definition kira_ctl (cs : kctl) : tctl (frame F) F :=
    {| c_adv := true; c_gain := fun _ => fst cs; c_rgain := fun r => nth r (snd cs) (oZ 0); c_spat := fun _ x => x |}.
  (** `Info`: dt and the [internal_buffer_size] handed to [Effect::init] *)
  Definition kenv : Type := (T * nat)%type.
  Definition ksound : Type := kstate (T := T) (frame F).
  Definition ksnd (dt : T) (st : ksound) (n : nat) : ksound * list (frame F) :=
    kiter (frame F) fr_zero F interp cast fr_scale fone fuel dt n st.

  Definition kira_ops : ops :=
    {| tF := frame F; tG := F; tI := kenv; tSS := ksound; tES := fxstate (F := F); tCS := kctl; tO := F;
       o_zero := fr_zero; o_add := fr_add; o_scale := fr_scale;
       o_snd := fun env st n => ksnd (fst env) st n;
       o_fx := fun env es xs => kfx K (snd env) es xs;
       o_env := fun _ env => env;
       o_ctl := fun _ cs _ => (cs, kira_ctl cs);
       o_res := fun res _ => res;
       o_out := out_frame_of F clamp1 oadd (fun x => x /! oZ 2) (oZ 0) |}.

  (** ** the four hypotheses of C11's theorem *)
  Lemma kira_snd_call env st n : snd_call kira_ops env st n = ksnd (fst env) st n.
  Proof.
    unfold snd_call. cbn [o_snd kira_ops].
    pose proof (kiter_len (frame F) fr_zero F interp cast fr_scale fone fuel (fst env) n st) as Hl.
    unfold ksnd in *. destruct (kiter _ _ _ _ _ _ _ _ _ n st) as [st' o]. cbn [snd] in Hl.
    f_equal. apply (fit_id kira_ops). exact Hl.
  Qed.
  Lemma kira_fx_call env es xs : fx_call kira_ops env es xs = kfx K (snd env) es xs.
  Proof.
    unfold fx_call. cbn [o_fx kira_ops].
    pose proof (kfx_len K (snd env) es xs) as Hl.
    destruct (kfx K (snd env) es xs) as [es' o]. cbn [snd] in Hl.
    f_equal. apply (fit_id kira_ops). exact Hl.
  Qed.

  Theorem kira_sound_seq : sound_seq kira_ops.
  Proof. intros env st n m. rewrite !kira_snd_call. unfold ksnd. apply kiter_app. Qed.
  Theorem kira_effect_seq : effect_seq kira_ops.
  Proof. intros env es xs ys. rewrite !kira_fx_call. apply kfx_seq. Qed.
  Theorem kira_ctl_steady : ctl_steady kira_ops.
  Proof.
    intros env cs. exists true, (fst cs), (fun r => nth r (snd cs) (oZ 0)), (fun x => x).
    intros n. cbn. auto.
  Qed.
  Theorem kira_res_steady : res_steady kira_ops.
  Proof. intros res n. reflexivity. Qed.
  Theorem kira_hypotheses : sound_seq kira_ops /\ effect_seq kira_ops /\ ctl_steady kira_ops /\ res_steady kira_ops.
  Proof.
    split; [exact kira_sound_seq | split; [exact kira_effect_seq | split; [exact kira_ctl_steady | exact kira_res_steady]]].
  Qed.
  Lemma kira_never_paused : never_paused kira_ops.
  Proof. intros env cs n. reflexivity. Qed.

  (** ** the corollary *)
  (** nothing reads the internal buffer size from the `Info` except the effects, and what they
      compute does not depend on it *)
  Definition same_dt (e1 e2 : kenv) : Prop := fst e1 = fst e2.
  Lemma kira_env_irrelevant ch b (e1 e2 : kenv) (sx : smixer kira_ops) cbs :
    same_dt e1 e2 -> 1 <= b -> NoDup (map fst (sx_sends kira_ops sx)) ->
    snd (run_callbacks kira_ops ch (conc_renderer kira_ops b e1 sx) cbs) =
    snd (run_callbacks kira_ops ch (conc_renderer kira_ops b e2 sx) cbs) /\
    r_mixer kira_ops (fst (run_callbacks kira_ops ch (conc_renderer kira_ops b e1 sx) cbs)) =
    r_mixer kira_ops (fst (run_callbacks kira_ops ch (conc_renderer kira_ops b e2 sx) cbs)).
  Proof.
    apply (run_callbacks_env kira_ops same_dt).
    - intros cs a b0 H. exact H.
    - intros a b0 n H. exact H.
    - intros a b0 s n H. cbn [o_snd kira_ops]. now rewrite H.
    - intros a b0 e xs H. cbn [o_fx kira_ops]. apply kfx_buffer_irrelevant.
    - intros a b0 cs n H. reflexivity.
  Qed.

  (** any scene of static sounds and built-in effects (sub-tracks nested at will, sends, main
      track), every parameter fixed: two configurations (internal buffer size, callback sizes) with
      the same total number of frames give the same device samples and the same final state;
      the effects may have been init'ed with any internal buffer sizes [Tb], [Tb'] *)
  Theorem render_partition_independent_kira_gen ch b b' cbs cbs' (dt : T) (Tb Tb' : nat) (sx : smixer kira_ops) :
    1 <= b -> 1 <= b' -> NoDup (map fst (sx_sends kira_ops sx)) -> list_sum cbs = list_sum cbs' ->
    snd (run_callbacks kira_ops ch (conc_renderer kira_ops b (dt, Tb) sx) cbs) =
    snd (run_callbacks kira_ops ch (conc_renderer kira_ops b' (dt, Tb') sx) cbs') /\
    abs_mixer kira_ops (r_mixer kira_ops (fst (run_callbacks kira_ops ch (conc_renderer kira_ops b (dt, Tb) sx) cbs))) =
    abs_mixer kira_ops (r_mixer kira_ops (fst (run_callbacks kira_ops ch (conc_renderer kira_ops b' (dt, Tb') sx) cbs'))).
  Proof.
    intros Hb Hb' ND E.
    destruct (render_partition_independent kira_ops ch b b' cbs cbs' (dt, Tb) sx
                kira_sound_seq kira_effect_seq kira_ctl_steady kira_res_steady Hb Hb' ND E) as [E1 E2].
    destruct (kira_env_irrelevant ch b' (dt, Tb) (dt, Tb') sx cbs' eq_refl Hb' ND) as [E3 E4].
    rewrite E1, E2, E3, E4. split; reflexivity.
  Qed.

  (** kira's configuration: [Effect::init] receives the renderer's own internal buffer size *)
  Corollary render_partition_independent_kira' ch b b' cbs cbs' (dt : T) (sx : smixer kira_ops) :
    1 <= b -> 1 <= b' -> NoDup (map fst (sx_sends kira_ops sx)) -> list_sum cbs = list_sum cbs' ->
    snd (run_callbacks kira_ops ch (conc_renderer kira_ops b (dt, b) sx) cbs) =
    snd (run_callbacks kira_ops ch (conc_renderer kira_ops b' (dt, b') sx) cbs') /\
    abs_mixer kira_ops (r_mixer kira_ops (fst (run_callbacks kira_ops ch (conc_renderer kira_ops b (dt, b) sx) cbs))) =
    abs_mixer kira_ops (r_mixer kira_ops (fst (run_callbacks kira_ops ch (conc_renderer kira_ops b' (dt, b') sx) cbs'))).
  Proof. apply render_partition_independent_kira_gen. Qed.

  (** ** the adapters never leave the code on the slices the renderer makes *)
  (** every effect state of a scene is well-formed (as [init] makes it) *)
  Fixpoint track_wf (t : strack kira_ops) : Prop :=
    match t with
    | STrk _ subs _ fx _ =>
        Forall (fun es : fxstate => wf (fst es) (snd es) = true) fx /\
        (fix all (l : list (strack kira_ops)) : Prop := match l with [] => True | t' :: l' => track_wf t' /\ all l' end) subs
    end.
  Definition scene_wf (sx : smixer kira_ops) : Prop :=
    Forall (fun es : fxstate => wf (fst es) (snd es) = true) (sm_fx kira_ops (sx_main kira_ops sx)) /\
    Forall track_wf (sx_subs kira_ops sx) /\
    Forall (fun ks => Forall (fun es : fxstate => wf (fst es) (snd es) = true) (ss_fx kira_ops (snd ks))) (sx_sends kira_ops sx).

  (** on a well-formed state and a slice of at most [Tb] frames the effect component of [kira_ops]
      is one call of C13's [process] (which returns [Ok]), and the new state is well-formed *)
  Theorem kira_fx_is_process (dt : T) (Tb : nat) (e : effect F) (s : estate F) (xs : list (frame F)) :
    wf e s = true -> length xs <= Tb ->
    process K Tb e s xs =
      Ok (snd (fst (o_fx kira_ops (dt, Tb) (e, s) xs)), snd (o_fx kira_ops (dt, Tb) (e, s) xs)) /\
    fst (fst (o_fx kira_ops (dt, Tb) (e, s) xs)) = e /\
    wf e (snd (fst (o_fx kira_ops (dt, Tb) (e, s) xs))) = true.
  Proof.
    intros Hw Hl. cbn [o_fx kira_ops snd]. split; [apply kfx_is_process; assumption|].
    pose proof (kfx_effect K Tb (e, s) xs) as He. cbn [fst] in He. split; [exact He|].
    pose proof (kfx_wf K Tb (e, s) xs Hw) as Hw'. now rewrite He in Hw'.
  Qed.

  (** ... and those are the only slices it sees (C02's call logs, instantiated): with [b <= Tb],
      every sound and every effect of the scene is called on the chunk sequence
      b, .., b, remainder of each callback, each chunk of 1..b frames *)
  Theorem kira_slices_fit ch b (res : kenv) (sx : smixer (logged kira_ops)) cbs :
    1 <= b -> NoDup (map fst (sx_sends (logged kira_ops) sx)) ->
    let ms := concat (map (chunk_sizes b) cbs) in
    mlogs_of kira_ops (abs_mixer (logged kira_ops)
      (r_mixer (logged kira_ops) (fst (run_callbacks (logged kira_ops) ch (conc_renderer (logged kira_ops) b res sx) cbs))))
    = map_mlogs (fun l => l ++ ms) (mlogs_of kira_ops sx)
    /\ Forall (fun m => 1 <= m <= b) ms.
  Proof.
    intros Hb ND ms.
    destruct (exactly_once_in_order kira_ops ch b res sx cbs Hb ND kira_never_paused) as (H1 & H2 & _).
    split; assumption.
  Qed.
End Kira.
