(** C11 — non-vacuity: the probe instance used by the correspondence check (C02/Run.v: index-coded
    sounds, position-tagging effects, constant control) satisfies all four hypotheses of
    [render_partition_independent], and two different configurations indeed render the same. *)
From Coq Require Import ZArith List Bool Lia.
From KV Require Import Base.Outcome C02.Model C02.ProofsList C02.Run C11.Proofs.
Import ListNotations.
Local Open Scope Z_scope.

Lemma gen_snd_len id pos n : length (gen_snd id pos n) = n.
Proof. revert pos. induction n as [|n IH]; intros pos; cbn [gen_snd length]; [reflexivity | now rewrite IH]. Qed.
Lemma gen_snd_app id n m : forall pos, gen_snd id pos (n + m) = gen_snd id pos n ++ gen_snd id (pos + Z.of_nat n) m.
Proof.
  induction n as [|n IH]; intros pos.
  - cbn [Nat.add gen_snd app Z.of_nat]. now rewrite Z.add_0_r.
  - cbn [Nat.add gen_snd app]. f_equal. rewrite IH. do 2 f_equal. lia.
Qed.
Lemma gen_fx_len k pos xs : length (gen_fx k pos xs) = length xs.
Proof. revert pos. induction xs as [|x xs IH]; intros pos; cbn [gen_fx length]; [reflexivity | now rewrite IH]. Qed.
Lemma gen_fx_app k xs ys : forall pos, gen_fx k pos (xs ++ ys) = gen_fx k pos xs ++ gen_fx k (pos + Z.of_nat (length xs)) ys.
Proof.
  induction xs as [|x xs IH]; intros pos.
  - cbn [app gen_fx length Z.of_nat]. now rewrite Z.add_0_r.
  - cbn [app gen_fx length]. f_equal. rewrite IH. do 2 f_equal. lia.
Qed.

Example probe_sound_seq : sound_seq probe0.
Proof.
  intros env [id pos] n m. unfold snd_call. cbn [o_snd probe0 probe_snd fst snd].
  rewrite !fit_id by apply gen_snd_len. rewrite gen_snd_app.
  replace (pos + Z.of_nat (n + m)) with (pos + Z.of_nat n + Z.of_nat m) by lia. reflexivity.
Qed.
Example probe_effect_seq : effect_seq probe0.
Proof.
  intros env [k pos] xs ys. unfold fx_call. cbn [o_fx probe0 probe_fx fst snd].
  rewrite !fit_id by apply gen_fx_len. rewrite gen_fx_app, app_length.
  replace (pos + Z.of_nat (length xs + length ys)) with (pos + Z.of_nat (length xs) + Z.of_nat (length ys)) by lia. reflexivity.
Qed.
Example probe_ctl_steady : ctl_steady probe0.
Proof.
  intros env [[adv g] rg]. exists adv, g, (fun r => nth r rg 0), (fun x => x). intros n. cbn. auto.
Qed.
Example probe_res_steady : res_steady probe0.
Proof. intros res n. reflexivity. Qed.

(** a 3-track scene with a send and effects, rendered with b = 2 / callbacks 3,1,4 and with
    b = 3 / callbacks 1,1,2,4 on a mono device: same 8 frames, and they are not silence *)
Definition ex_scene : smixer probe0 :=
  {| sx_main := {| sm_ctl := ((true, 1, []) : tCS probe0); sm_snds := [(4, 0)]; sm_fx := [(1, 0)] |};
     sx_subs := [STrk (O := probe0) (true, 1, [1]) [STrk (O := probe0) (true, 1, [1]) [] [(3, 0)] [(2, 0)] [7%nat]] [(1, 0)] [] [7%nat];
                 STrk (O := probe0) (false, 1, []) [] [(2, 0)] [] []];
     sx_sends := [(7%nat, {| ss_ctl := ((true, 1, []) : tCS probe0); ss_fx := [(3, 0)] |})] |}.
Example ex_two_partitions :
  snd (run_callbacks probe0 1 (conc_renderer probe0 2 tt ex_scene) [3; 1; 4]%nat)
  = snd (run_callbacks probe0 1 (conc_renderer probe0 3 tt ex_scene) [1; 1; 2; 4]%nat)
  /\ length (snd (run_callbacks probe0 1 (conc_renderer probe0 2 tt ex_scene) [3; 1; 4]%nat)) = 8%nat
  /\ hd 0 (snd (run_callbacks probe0 1 (conc_renderer probe0 2 tt ex_scene) [3; 1; 4]%nat)) <> 0.
Proof. vm_compute. repeat split; discriminate. Qed.
(** the same follows from the theorem *)
Example ex_by_theorem :
  snd (run_callbacks probe0 1 (conc_renderer probe0 2 tt ex_scene) [3; 1; 4]%nat)
  = snd (run_callbacks probe0 1 (conc_renderer probe0 3 tt ex_scene) [1; 1; 2; 4]%nat).
Proof.
  apply (render_partition_independent probe0 1 2 3 [3; 1; 4]%nat [1; 1; 2; 4]%nat tt ex_scene
           probe_sound_seq probe_effect_seq probe_ctl_steady probe_res_steady); try lia.
  - cbn. repeat constructor. intros [].
  - reflexivity.
Qed.
(** the output stage per channel count is a per-frame map: 1 channel (l + r) / 2 after the clamp,
    2 channels l, r, more channels silence on the rest *)
Example ex_out_stage :
  out_frame_Z 1 (2 ^ 25, 6) = [2 ^ 23 + 3] /\ out_frame_Z 2 (4, - 2 ^ 25) = [4; - 2 ^ 24] /\ out_frame_Z 5 (4, 6) = [4; 6; 0; 0; 0].
Proof. vm_compute. repeat split. Qed.
