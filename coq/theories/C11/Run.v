(** C11 — model side of the correspondence check: the buffer-level model of C02 on a probe
    scene, rendered under several (internal buffer size, callback partition) configurations; the
    observable is the concatenation of the renderings (device buffers and call logs). *)
From Coq Require Import ZArith List.
From KV Require Import Base.Corr C02.Run.
Import ListNotations.

Inductive case := CMulti (l : list C02.Run.case).
Definition run (c : case) : list Z := match c with CMulti l => flat_map C02.Run.run l end.
