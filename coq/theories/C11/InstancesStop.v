(** C11 — closed forms of the sound adapter theorem for the two number types (Q: every chunk
    length; binary64: chunks of fewer than 2^53 frames), and the witness that C04's [process]
    itself is NOT sequential in its state on the chunk in which a sound stops. *)
From Coq Require Import ZArith QArith List Bool Lia.
From KV Require Import Base.IEEE Base.Outcome Base.Num C19.Model C06.Model C06.Dur C04.Model.
From KV Require Import C11.InstancesSnd C11.InstancesB64.
Import ListNotations.
Local Open Scope Z_scope.

Section Closed.
  Variable A : Type.
  Variable azero : A.
  Variable F : Type.
  Variable ascale : A -> F -> A.
  Variable fone : F.
  Variable fuel : nat.

  (** exact time arithmetic *)
  Theorem kiter_is_process_Q (powf : Q -> Q -> Q) (interp : A -> A -> A -> A -> F -> A) (cast : Q -> F)
      (s s' : ssound Q A) (n : nat) (dt : Q) (l : list A) :
    rate_steady A s ->
    process powf A azero F interp cast ascale fone fuel s (Z.of_nat n) dt = Ok (s', l) -> s_stopped s' = false ->
    kiter A azero F interp cast ascale fone fuel dt n (Some s) = (Some s', l).
  Proof.
    intros Hs H Hp.
    apply (kiter_is_process powf A azero F interp cast ascale fone fuel (Z.of_nat n)
             (fun r i num _ _ => fixed_rate_Q r i num) s n dt s' l Hs (Z.le_refl _) H Hp).
  Qed.
  Theorem frames_loop_steady_app_Q (interp : A -> A -> A -> A -> F -> A) (cast : Q -> F)
      (s : ssound Q A) (n m : nat) (dt : Q) :
    rate_steady A s ->
    frames_loop A azero F interp cast ascale fone fuel (n + m) 0 (Z.of_nat (n + m)) dt s =
    (let! (s1, l1) := frames_loop A azero F interp cast ascale fone fuel n 0 (Z.of_nat n) dt s in
     let! (s2, l2) := frames_loop A azero F interp cast ascale fone fuel m 0 (Z.of_nat m) dt s1 in Ok (s2, l1 ++ l2)).
  Proof.
    intros Hs.
    apply (frames_loop_steady_app A azero F interp cast ascale fone fuel (Z.of_nat (n + m))
             (fun r i num _ _ => fixed_rate_Q r i num) dt n m s Hs (Z.le_refl _)).
  Qed.

  (** binary64 time (what kira computes) *)
  Theorem kiter_is_process_f64 (powf : f64 -> f64 -> f64) (interp : A -> A -> A -> A -> F -> A) (cast : f64 -> F)
      (s s' : ssound f64 A) (n : nat) (dt : f64) (l : list A) :
    rate_steady A s -> Z.of_nat n < 2 ^ 53 ->
    process powf A azero F interp cast ascale fone fuel s (Z.of_nat n) dt = Ok (s', l) -> s_stopped s' = false ->
    kiter A azero F interp cast ascale fone fuel dt n (Some s) = (Some s', l).
  Proof.
    intros Hs Hn H Hp.
    apply (kiter_is_process powf A azero F interp cast ascale fone fuel (2 ^ 53 - 1) fixed_rate_f64
             s n dt s' l Hs ltac:(lia) H Hp).
  Qed.
  Theorem frames_loop_steady_app_f64 (interp : A -> A -> A -> A -> F -> A) (cast : f64 -> F)
      (s : ssound f64 A) (n m : nat) (dt : f64) :
    rate_steady A s -> Z.of_nat (n + m) < 2 ^ 53 ->
    frames_loop A azero F interp cast ascale fone fuel (n + m) 0 (Z.of_nat (n + m)) dt s =
    (let! (s1, l1) := frames_loop A azero F interp cast ascale fone fuel n 0 (Z.of_nat n) dt s in
     let! (s2, l2) := frames_loop A azero F interp cast ascale fone fuel m 0 (Z.of_nat m) dt s1 in Ok (s2, l1 ++ l2)).
  Proof.
    intros Hs Hn.
    apply (frames_loop_steady_app A azero F interp cast ascale fone fuel (2 ^ 53 - 1) fixed_rate_f64
             dt n m s Hs ltac:(lia)).
  Qed.
End Closed.

(** ** the chunk in which a sound stops: a 3-frame sound at rate 1.5 (sample rates 1, dt = 1)
    asked for 6 frames at once, or for 3 and then 3.  The frames are the same; both final states
    are Stopped; but the single call kept stepping the stopped sound to the end of its chunk
    ([fractional_position] 0), the second of the two calls did not touch it (1/2). *)
Definition stop_src : source frameQ :=
  {| src_len := 3; src_get := fun i => (inject_Z (i + 1), inject_Z (- (i + 1))) |}.
Definition stop_data : sdata Q frameQ :=
  {| d_sr := 1; d_src := stop_src; d_slice := None;
     d_settings := {| st_start := Samples 0; st_loop := None; st_reverse := false; st_rate := (3 # 2)%Q |} |}.
Definition stop_proc (s : ssound Q frameQ) (n : Z) : outcome (ssound Q frameQ * list frameQ) :=
  process (fun a _ => a) frameQ frame_zero Q (@interpolate_frame Q _) (fun x => x) (@frame_scale Q _) 1%Q 50%nat s n 1%Q.

Definition stop_run (chunks : list Z) : option (bool * Q * list frameQ) :=
  match sound_new frameQ frame_zero 50%nat stop_data with
  | Ok s =>
      option_map (fun sl : ssound Q frameQ * list frameQ => (s_stopped (fst sl), s_fpos (fst sl), snd sl))
        (fold_left (fun acc n =>
                      match acc with
                      | Some (s1, l1) => match stop_proc s1 n with Ok (s2, l2) => Some (s2, l1 ++ l2) | _ => None end
                      | None => None
                      end) chunks (Some (s, [])))
  | _ => None
  end.

Theorem process_stop_chunk_state_witness :
  match sound_new frameQ frame_zero 50%nat stop_data with
  | Ok s => rate_steady frameQ s /\ s_stopped s = false
  | _ => False
  end /\
  exists l : list frameQ,
    stop_run [6] = Some (true, 0%Q, l) /\ stop_run [3; 3] = Some (true, (1 # 2)%Q, l).
Proof.
  split; [vm_compute; split; reflexivity|].
  eexists. split; [vm_compute; reflexivity | vm_compute; reflexivity].
Qed.
