(** C11 — the steadiness condition [Hfixed] of C11/InstancesSnd.v in binary64 (kira's time type):
    for every chunk of fewer than 2^53 frames and every frame i of it, (i + 1) / len is a finite
    positive binary64 number, hence (C13's [interp_fixed_t_irrelevant]) a fixed rate parameter
    contributes [interpolated_value(1)] to every frame — whatever the rate is (finite or not). *)
From Coq Require Import ZArith Reals Lia Lra Bool.
From Flocq Require Import Core IEEE754.BinarySingleNaN.
From KV Require Import Base.IEEE Base.Num C19.Model C13.ProofsB32.
Local Open Scope R_scope.

Lemma fexp64_FLT' : SpecFloat.fexp 53 1024 = FLT_exp (-1074) 53.
Proof. reflexivity. Qed.
Lemma format64_int : forall m, (Z.abs m < 2 ^ 53)%Z -> generic_format radix2 (SpecFloat.fexp 53 1024) (IZR m).
Proof.
  intros m Hm. rewrite fexp64_FLT'. apply generic_format_FLT.
  exists (Float radix2 m 0); [unfold F2R; simpl; ring | exact Hm | simpl; lia].
Qed.
Lemma lt_emax64' : forall r, Rabs r < bpow radix2 53 -> Rlt_bool (Rabs r) (bpow radix2 1024) = true.
Proof. intros r H. apply Rlt_bool_true. apply Rlt_trans with (1 := H). apply bpow_lt. lia. Qed.

(** [n as f64] is exact below 2^53 *)
Lemma Z64_exact' : forall x, (Z.abs x < 2 ^ 53)%Z -> B2R (Z64 x) = IZR x /\ is_finite (Z64 x) = true.
Proof.
  intros x H. unfold Z64, of_Z.
  pose proof (binary_normalize_correct 53 1024 Hprec64 Hmax64 mode_NE x 0 false) as C. cbv zeta in C.
  assert (HF : F2R (Float radix2 x 0) = IZR x) by (unfold F2R; simpl; ring).
  rewrite HF in C. rewrite round_generic in C; [|apply valid_rnd_N|apply format64_int; exact H].
  rewrite lt_emax64' in C.
  - destruct C as (A & B & _). now split.
  - replace (bpow radix2 53) with (IZR (2 ^ 53)) by (rewrite <- (IZR_Zpower radix2 53) by lia; reflexivity).
    rewrite <- abs_IZR. now apply IZR_lt.
Qed.

Lemma Bsign_of_pos : forall x : f64, 0 < B2R x -> Bsign x = false.
Proof.
  intros [s|s| |s m e He]; cbn; intros H; try lra.
  destruct s; [|reflexivity]. exfalso.
  apply gt_0_F2R in H. cbn in H. lia.
Qed.

(** (i + 1) / len for a frame i of a chunk of len < 2^53 frames: finite and positive *)
Lemma time_in_chunk_b64 : forall i num : Z, (0 <= i < num)%Z -> (num < 2 ^ 53)%Z ->
  is_finite (div64 (Z64 (i + 1)) (Z64 num)) = true /\ Bsign (div64 (Z64 (i + 1)) (Z64 num)) = false.
Proof.
  intros i num Hi Hn.
  destruct (Z64_exact' (i + 1) ltac:(lia)) as [Bx Fx]. destruct (Z64_exact' num ltac:(lia)) as [By Fy].
  assert (Px : 0 < IZR (i + 1)) by (apply IZR_lt; lia).
  assert (Py : 0 < IZR num) by (apply IZR_lt; lia).
  assert (Hd : B2R (Z64 num) <> 0) by (rewrite By; lra).
  pose proof (Bdiv_correct 53 1024 Hprec64 Hmax64 mode_NE (Z64 (i + 1)) (Z64 num) Hd) as C.
  rewrite Bx, By in C.
  set (q := IZR (i + 1) / IZR num) in *.
  assert (Hq : 0 <= q <= 1).
  { subst q. split.
    - apply Rlt_le. apply Rdiv_lt_0_compat; assumption.
    - apply (Rmult_le_reg_r (IZR num)); [exact Py|]. unfold Rdiv. rewrite Rmult_assoc, Rinv_l by lra.
      rewrite Rmult_1_r, Rmult_1_l. apply IZR_le. lia. }
  set (rq := round radix2 (SpecFloat.fexp 53 1024) (round_mode mode_NE) q) in *.
  assert (Hr : 0 <= rq <= 1).
  { subst rq. split.
    - rewrite <- (round_0 radix2 (SpecFloat.fexp 53 1024) (round_mode mode_NE)).
      apply round_le; [apply fexp_correct; reflexivity | apply valid_rnd_round_mode | apply Hq].
    - rewrite <- (round_generic radix2 (SpecFloat.fexp 53 1024) (round_mode mode_NE) 1).
      + apply round_le; [apply fexp_correct; reflexivity | apply valid_rnd_round_mode | apply Hq].
      + apply (format64_int 1). cbn. lia. }
  rewrite lt_emax64' in C.
  2:{ rewrite Rabs_pos_eq by apply Hr. apply Rle_lt_trans with 1; [apply Hr|].
      change 1 with (bpow radix2 0). apply bpow_lt. lia. }
  destruct C as (A & B & S). unfold div64, fdiv.
  rewrite B, Fx. split; [reflexivity|].
  rewrite S.
  - rewrite (Bsign_of_pos (Z64 (i + 1))) by (rewrite Bx; exact Px).
    rewrite (Bsign_of_pos (Z64 num)) by (rewrite By; exact Py). reflexivity.
  - destruct (Bdiv mode_NE (Z64 (i + 1)) (Z64 num)); try reflexivity. rewrite Fx in B. discriminate.
Qed.

(** [Hfixed] for [T = f64], [nmax = 2^53 - 1] *)
Theorem fixed_rate_f64 : forall (r : f64) (i num : Z), (0 <= i < num)%Z -> (num <= 2 ^ 53 - 1)%Z ->
  lerp r r (ndiv (nofZ (i + 1)) (nofZ num)) = lerp r r n1.
Proof.
  intros r i num Hi Hn. destruct (time_in_chunk_b64 i num Hi ltac:(lia)) as [Ft St].
  unfold lerp. cbn [nadd nmul nsub ndiv nofZ n1 Num_f64].
  apply (interp_fixed_t_irrelevant 53 1024 r (div64 (Z64 (i + 1)) (Z64 num)) (Z64 1)); auto.
Qed.
