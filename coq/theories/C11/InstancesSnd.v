(** C11 — the sound component of the kira instance of C02's [ops]: C04's static sound
    ([ssound], the per-frame body [frame_step] of [StaticSound::process]) with a constant playback
    rate, volume 0 dB and centre panning (what C04 models), no command, no start time.

    C02 wants a TOTAL function [o_snd : I -> SS -> nat -> SS * list F]; C04's [process s len dt]
    returns an [outcome] (a panic of the checked integer arithmetic, [Hang] when the fuel of the
    [while fractional_position >= 1.0] loop runs out) and reads the rate through
    [interpolated_value((i + 1) / len)].  The adapter [kiter dt n] iterates a total per-frame step
    [kframe]:
      - a stopped sound yields [Frame::ZERO] and keeps its state (what [process] does at its entry);
      - otherwise [frame_step] with the increment [sample_rate * |rate| * dt] of a FIXED rate, i.e.
        [increment_of] with [interpolated_value(t)] taken at [t = 1] (the last frame of any call);
      - a model failure ([Panic] / [Hang]) poisons the sound: [None], silence from then on.
    What relates it to the code ([kiter_is_process]): if the rate parameter is fixed and idle
    ([rate_steady]: [Parameter::new(Value::Fixed r)], never set) and the number type satisfies
    [lerp r r ((i + 1) / len) = lerp r r 1] for the chunk lengths in question ([Hfixed]: true in Q
    for every length, [fixed_rate_Q]; in binary64 for chunks of fewer than 2^53 frames,
    [fixed_rate_f64] in C11/InstancesB64.v, from C13's [interp_fixed_t_irrelevant]), then on every chunk on which C04's [process] returns [Ok]
    and leaves the sound playing, [kiter] returns exactly the same state and the same frames; and
    C04's [frames_loop] itself is sequential: n + m frames = n frames then m frames
    ([frames_loop_steady_app]).  With a tweening rate this is false — [increment_of] depends on
    [(i + 1) / len] — which is why the property says "all parameters constant".

    One chunk is NOT covered by the equation: the chunk in the middle of which the sound stops.
    There [process] keeps running [frame_step] on the stopped sound until the end of the chunk
    (reading the emptied resampler: the interpolation of four [Frame::ZERO]) whereas a call that
    starts after the stop fills the slice with [Frame::ZERO] and leaves the state alone; [kiter]
    does the latter from the frame after the stop on ([process_stop_chunk_state_witness], C11/InstancesStop.v). *)
From Coq Require Import ZArith List Bool Lia QArith.
From KV Require Import Base.Outcome Base.Num C19.Model C06.Model.
From KV Require Import C04.Transport C04.Resampler C04.StaticData C04.StaticSound.
Import ListNotations.

Section Snd.
  Context {T : Type} {NT : Num T} {ND : NumDur T}.
  Variable powf : T -> T -> T.
  Variable A : Type.
  Variable azero : A.
  Variable F : Type.
  Variable interp : A -> A -> A -> A -> F -> A.
  Variable cast : T -> F.
  Variable ascale : A -> F -> A.
  Variable fone : F.
  Variable fuel : nat.

  Local Notation fstep := (frame_step A azero F interp cast ascale fone fuel).
  Local Notation fsteps := (frame_steps A azero F interp cast ascale fone fuel).
  Local Notation floop := (frames_loop A azero F interp cast ascale fone fuel).
  Local Notation sprocess := (process powf A azero F interp cast ascale fone fuel).

  (** ** the adapter *)
  (** [Parameter::new(Value::Fixed(r), _)], never set: idle, stagnant, previous = raw *)
  Definition steady_rate (r : T) : param T T := param_new (Fixed r) n1.
  Definition rate_steady (s : ssound T A) : Prop := s_rate s = steady_rate (p_raw (s_rate s)).
  (** [interpolated_value(1.0)] of a fixed parameter *)
  Definition fixed_value (r : T) : T := lerp r r n1.
  (** [sample_rate as f64 * playback_rate.abs() * dt] *)
  Definition kinc (dt : T) (s : ssound T A) : T :=
    nmul (nmul (nofZ (s_sr s)) (nabs (fixed_value (p_raw (s_rate s))))) dt.

  Definition kstate : Type := option (ssound T A).
  Definition kframe (dt : T) (st : kstate) : kstate * A :=
    match st with
    | None => (None, azero)
    | Some s =>
        if s_stopped s then (Some s, azero)
        else match fstep s (kinc dt s) with
             | Ok (s', a) => (Some s', a)
             | _ => (None, azero)
             end
    end.
  Fixpoint kiter (dt : T) (n : nat) (st : kstate) : kstate * list A :=
    match n with
    | O => (st, [])
    | S n' =>
        let (st1, a) := kframe dt st in
        let (st2, l) := kiter dt n' st1 in
        (st2, a :: l)
    end.

  Lemma kiter_len dt n : forall st, length (snd (kiter dt n st)) = n.
  Proof.
    induction n as [|n IH]; intros st; cbn [kiter]; [reflexivity|].
    destruct (kframe dt st) as [st1 a]. specialize (IH st1). destruct (kiter dt n st1) as [st2 l].
    cbn [snd length] in *. now rewrite IH.
  Qed.
  (** a frame-sequential source, on every state: n + m frames = n frames, then m frames *)
  Theorem kiter_app dt n m : forall st,
    kiter dt (n + m) st =
    (fst (kiter dt m (fst (kiter dt n st))), snd (kiter dt n st) ++ snd (kiter dt m (fst (kiter dt n st)))).
  Proof.
    induction n as [|n IH]; intros st; cbn [Nat.add kiter].
    - cbn [fst snd app]. now destruct (kiter dt m st).
    - destruct (kframe dt st) as [st1 a]. rewrite IH.
      destruct (kiter dt n st1) as [st2 l]. cbn [fst snd].
      destruct (kiter dt m st2) as [st3 l']. reflexivity.
  Qed.

  (** ** what a frame leaves alone: the rate parameter, the sample rate; Stopped is final *)
  Definition keeps (s s' : ssound T A) : Prop :=
    s_rate s' = s_rate s /\ s_sr s' = s_sr s /\ (s_stopped s = true -> s_stopped s' = true).
  Lemma keeps_refl s : keeps s s.
  Proof. repeat split; auto. Qed.
  Lemma keeps_trans s1 s2 s3 : keeps s1 s2 -> keeps s2 s3 -> keeps s1 s3.
  Proof. intros (a & b & c) (d & e & f). repeat split; [congruence | congruence | auto]. Qed.

  Lemma push_keeps s s' : push_frame_to_resampler A azero s = Ok s' -> keeps s s'.
  Proof.
    unfold push_frame_to_resampler. intros H.
    match type of H with obind ?x _ = _ => destruct x as [fr| |]; cbn [obind] in H; try discriminate end.
    injection H as <-. repeat split; auto.
  Qed.
  Lemma update_position_keeps s s' : update_position A azero fuel s = Ok s' -> keeps s s'.
  Proof.
    unfold update_position. intros H.
    destruct (push_frame_to_resampler A azero s) as [s1| |] eqn:E1; cbn [obind] in H; try discriminate.
    pose proof (push_keeps _ _ E1) as (K1 & K2 & K3).
    match type of H with obind ?x _ = _ => destruct x as [t1| |]; cbn [obind] in H; try discriminate end.
    match type of H with (if ?c then _ else _) = _ => destruct c end; injection H as <-;
      (split; [exact K1 | split; [exact K2 | cbn; auto]]).
  Qed.
  Lemma carry_keeps fl : forall s s', carry A azero fuel fl s = Ok s' -> keeps s s'.
  Proof.
    induction fl as [|fl IH]; intros s s' H; cbn [carry] in H; [discriminate|].
    destruct (nleb n1 (s_fpos s)).
    - destruct (update_position A azero fuel (set_fpos A s (nsub (s_fpos s) n1))) as [s1| |] eqn:E1;
        cbn [obind] in H; try discriminate.
      apply update_position_keeps in E1. apply IH in H.
      eapply keeps_trans; [|exact H]. eapply keeps_trans; [|exact E1]. repeat split; auto.
    - injection H as <-. apply keeps_refl.
  Qed.
  Lemma frame_step_keeps s inc s' a : fstep s inc = Ok (s', a) -> keeps s s'.
  Proof.
    unfold frame_step. intros H.
    destruct (carry A azero fuel fuel (set_fpos A s (nadd (s_fpos s) inc))) as [s1| |] eqn:E1;
      cbn [obind] in H; try discriminate.
    injection H as <- _. apply carry_keeps in E1. eapply keeps_trans; [|exact E1]. repeat split; auto.
  Qed.
  Lemma keeps_kinc dt s s' : keeps s s' -> kinc dt s' = kinc dt s.
  Proof. intros (a & b & _). unfold kinc. now rewrite a, b. Qed.
  Lemma keeps_steady s s' : keeps s s' -> rate_steady s -> rate_steady s'.
  Proof. intros (a & _ & _). unfold rate_steady. now rewrite a. Qed.

  (** [StaticSound::new] makes a sound whose rate is fixed and idle *)
  Lemma update_n_keeps k : forall s s', update_n A azero fuel k s = Ok s' -> keeps s s'.
  Proof.
    induction k as [|k IH]; intros s s' H; cbn [update_n] in H.
    - injection H as <-. apply keeps_refl.
    - destruct (update_position A azero fuel s) as [s1| |] eqn:E1; cbn [obind] in H; try discriminate.
      eapply keeps_trans; [eapply update_position_keeps; exact E1 | eapply IH; exact H].
  Qed.
  Theorem sound_new_steady d s : sound_new A azero fuel d = Ok s -> rate_steady s.
  Proof.
    unfold sound_new, sound_init. cbn [obind]. intros H. apply update_n_keeps in H.
    destruct H as (R & _). unfold rate_steady. rewrite R. reflexivity.
  Qed.

  (** ** [frame_step] over a list of increments *)
  Lemma frame_steps_app l1 : forall s l2,
    fsteps s (l1 ++ l2) =
    (let! (s1, o1) := fsteps s l1 in let! (s2, o2) := fsteps s1 l2 in Ok (s2, o1 ++ o2)).
  Proof.
    induction l1 as [|inc l1 IH]; intros s l2; cbn [app frame_steps obind].
    - destruct (fsteps s l2) as [[s2 o2]| |]; reflexivity.
    - destruct (fstep s inc) as [[s1 a]| |]; cbn [obind]; try reflexivity.
      rewrite IH. destruct (fsteps s1 l1) as [[s2 o1]| |]; cbn [obind]; try reflexivity.
      destruct (fsteps s2 l2) as [[s3 o2]| |]; reflexivity.
  Qed.
  Lemma frame_steps_keeps l : forall s s' o, fsteps s l = Ok (s', o) -> keeps s s'.
  Proof.
    induction l as [|inc l IH]; intros s s' o H; cbn [frame_steps] in H.
    - injection H as <- _. apply keeps_refl.
    - destruct (fstep s inc) as [[s1 a]| |] eqn:E1; cbn [obind] in H; try discriminate.
      destruct (fsteps s1 l) as [[s2 o2]| |] eqn:E2; cbn [obind] in H; try discriminate.
      injection H as <- _. eapply keeps_trans; [eapply frame_step_keeps; exact E1 | eapply IH; exact E2].
  Qed.

  (** the iteration against [frame_steps] with the fixed increment: equal as long as the sound
      is still playing at the end *)
  Lemma kiter_frame_steps dt k : forall s s' l,
    fsteps s (repeat (kinc dt s) k) = Ok (s', l) -> s_stopped s' = false -> kiter dt k (Some s) = (Some s', l).
  Proof.
    induction k as [|k IH]; intros s s' l H Hp; cbn [repeat frame_steps] in H.
    - injection H as <- <-. reflexivity.
    - destruct (fstep s (kinc dt s)) as [[s1 a]| |] eqn:E1; cbn [obind] in H; try discriminate.
      destruct (fsteps s1 (repeat (kinc dt s) k)) as [[s2 o2]| |] eqn:E2; cbn [obind] in H; try discriminate.
      injection H as <- <-.
      pose proof (frame_step_keeps _ _ _ _ E1) as K1. pose proof (frame_steps_keeps _ _ _ _ E2) as K2.
      assert (Hs : s_stopped s = false).
      { destruct (s_stopped s) eqn:Es; [|reflexivity].
        destruct (keeps_trans _ _ _ K1 K2) as (_ & _ & St). rewrite (St Es) in Hp. discriminate. }
      cbn [kiter kframe]. rewrite Hs, E1. rewrite <- (keeps_kinc dt _ _ K1) in E2.
      rewrite (IH s1 s2 o2 E2 Hp). reflexivity.
  Qed.

  (** ** the exact steadiness condition on the number type: a fixed parameter contributes the
      value [interpolated_value(1)] to every frame of a call of at most [nmax] frames *)
  Variable nmax : Z.
  Hypothesis Hfixed : forall (r : T) (i num : Z), (0 <= i < num)%Z -> (num <= nmax)%Z ->
    lerp r r (ndiv (nofZ (i + 1)) (nofZ num)) = fixed_value r.

  Lemma increment_steady s i num dt :
    rate_steady s -> (0 <= i < num)%Z -> (num <= nmax)%Z -> increment_of A s i num dt = kinc dt s.
  Proof.
    intros Hs Hi Hn. unfold increment_of, kinc. unfold rate_steady in Hs.
    set (r := p_raw (s_rate s)) in *. rewrite Hs.
    unfold param_interpolated, steady_rate, param_new. cbn [p_prev p_raw]. now rewrite (Hfixed r i num Hi Hn).
  Qed.

  (** C04's per-frame loop with a fixed rate = [frame_step] with one and the same increment *)
  Lemma frames_loop_steady dt k : forall i num s,
    rate_steady s -> (0 <= i)%Z -> (i + Z.of_nat k <= num)%Z -> (num <= nmax)%Z ->
    floop k i num dt s = fsteps s (repeat (kinc dt s) k).
  Proof.
    induction k as [|k IH]; intros i num s Hs Hi Hk Hn; [reflexivity|].
    cbn [frames_loop repeat frame_steps]. rewrite increment_steady by (auto; lia).
    destruct (fstep s (kinc dt s)) as [[s1 a]| |] eqn:E1; cbn [obind]; try reflexivity.
    pose proof (frame_step_keeps _ _ _ _ E1) as K1.
    rewrite IH by (try lia; eapply keeps_steady; eassumption).
    rewrite (keeps_kinc dt _ _ K1). reflexivity.
  Qed.

  (** the sequentiality lemma C04 lacks: with a fixed rate, a call for n + m frames is a call for
      n frames followed by a call for m frames (same frames, same final state, same failure) *)
  Theorem frames_loop_steady_app dt n m s :
    rate_steady s -> (Z.of_nat (n + m) <= nmax)%Z ->
    floop (n + m) 0 (Z.of_nat (n + m)) dt s =
    (let! (s1, l1) := floop n 0 (Z.of_nat n) dt s in
     let! (s2, l2) := floop m 0 (Z.of_nat m) dt s1 in Ok (s2, l1 ++ l2)).
  Proof.
    intros Hs Hn. rewrite !frames_loop_steady by (auto; lia).
    rewrite repeat_app, frame_steps_app.
    destruct (fsteps s (repeat (kinc dt s) n)) as [[s1 l1]| |] eqn:E1; cbn [obind]; try reflexivity.
    pose proof (frame_steps_keeps _ _ _ _ E1) as K1.
    rewrite frames_loop_steady by (try lia; eapply keeps_steady; eassumption).
    rewrite (keeps_kinc dt _ _ K1). reflexivity.
  Qed.

  Lemma set_rate_same (s : ssound T A) : set_rate A s (s_rate s) = s.
  Proof. destruct s; reflexivity. Qed.

  (** [process] of a sound whose rate is fixed: the parameter update is the identity *)
  Lemma process_steady s len dt :
    rate_steady s ->
    sprocess s len dt =
    if s_stopped s then Ok (s, repeat azero (Z.to_nat len)) else floop (Z.to_nat len) 0 len dt s.
  Proof.
    intros Hs. unfold process. unfold rate_steady in Hs.
    assert (E : param_update powf T lerp (s_rate s) (nmul dt (nofZ len)) no_info = Ok (s_rate s, false)).
    { set (r := p_raw (s_rate s)) in *. rewrite Hs. reflexivity. }
    rewrite E. cbn [obind]. rewrite set_rate_same. unfold is_advancing.
    destruct (s_stopped s); reflexivity.
  Qed.

  (** the adapter is the code: on a chunk that C04's [process] completes with the sound still
      playing, the same state and the same frames *)
  Theorem kiter_is_process s n dt s' l :
    rate_steady s -> (Z.of_nat n <= nmax)%Z ->
    sprocess s (Z.of_nat n) dt = Ok (s', l) -> s_stopped s' = false ->
    kiter dt n (Some s) = (Some s', l).
  Proof.
    intros Hs Hn H Hp. rewrite process_steady in H by exact Hs. rewrite Nat2Z.id in H.
    destruct (s_stopped s) eqn:Es.
    - injection H as <- _. congruence.
    - rewrite frames_loop_steady in H by (auto; lia). apply kiter_frame_steps; assumption.
  Qed.
  (** ... and on every chunk after the sound has stopped: [Frame::ZERO], state untouched *)
  Theorem kiter_is_process_stopped s n dt :
    rate_steady s -> s_stopped s = true ->
    sprocess s (Z.of_nat n) dt = Ok (s, repeat azero n) /\ kiter dt n (Some s) = (Some s, repeat azero n).
  Proof.
    intros Hs Es. rewrite process_steady by exact Hs. rewrite Es, Nat2Z.id. split; [reflexivity|].
    induction n as [|n IH]; [reflexivity|]. cbn [kiter kframe repeat]. rewrite Es, IH. reflexivity.
  Qed.
End Snd.

(** [Hfixed] in exact rational arithmetic: for every chunk length *)
Lemma fixed_rate_Q : forall (r : Q) (i num : Z),
  lerp r r (ndiv (nofZ (i + 1)) (nofZ num)) = lerp r r n1.
Proof.
  intros r i num. unfold lerp. cbn [nadd nmul nsub Num_Q].
  assert (E : forall t : Q, Qred (r + Qred (Qred (r - r) * t)) = Qred r).
  { intros t. apply Qred_complete. rewrite !Qred_correct. ring. }
  now rewrite !E.
Qed.
